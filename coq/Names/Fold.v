(** C13 - letter case: names that differ only in letter case are accepted alike, are EqualFold, and resolve to the
    same manifest in the blob cache; DisplayShortest prints a name that parses back to a case variant of it. *)
From Coq Require Import List NArith ZArith Bool Arith Lia ZifyBool ZifyNat ZifyN.
From V Require Import Common.Bytes Names.Path Names.Model Names.PathProofs Names.Proofs Names.Confine.
Import ListNotations.
Open Scope N_scope.

Ltac unf :=
  unfold m_char_ok, n_char_ok, ascii_fold_eq, fold_byte, is_alnum_us, is_hex, is_upper, is_lower, is_digit, is_slash_or_colon,
    is_colon_or_dash, pk_eqb, c_us, c_dash, c_dot, c_colon, c_slash, c_at in *.

(** [cv a b]: the byte strings differ only in the case of ASCII letters *)
Definition fold_str (s : str) : str := map fold_byte s.
Definition cv (a b : str) : Prop := fold_str a = fold_str b.

Lemma cv_refl a : cv a a.
Proof. reflexivity. Qed.
Lemma cv_sym a b : cv a b -> cv b a.
Proof. unfold cv. congruence. Qed.
Lemma cv_length a b : cv a b -> length a = length b.
Proof. unfold cv, fold_str. intro H. apply (f_equal (@length N)) in H. rewrite !map_length in H. exact H. Qed.
Lemma cv_app a1 a2 b1 b2 : cv a1 a2 -> cv b1 b2 -> cv (a1 ++ b1) (a2 ++ b2).
Proof. unfold cv, fold_str. intros H1 H2. rewrite !map_app. congruence. Qed.
Lemma cv_cons c a b : cv a b -> cv (c :: a) (c :: b).
Proof. unfold cv, fold_str. cbn. congruence. Qed.

Lemma fold_idem c : fold_byte (fold_byte c) = fold_byte c.
Proof. unf. brk; lia. Qed.
Lemma cv_fold a : cv (fold_str a) a.
Proof. unfold cv, fold_str. rewrite map_map. apply map_ext. intro; apply fold_idem. Qed.

(** * strings.EqualFold *)
Lemma equal_fold_au_congr a1 a2 u : cv a1 a2 -> equal_fold_au a1 u = equal_fold_au a2 u.
Proof.
  revert a2 u; induction a1 as [|c1 a1 IH]; intros [|c2 a2] u H; try discriminate; [reflexivity|].
  injection H as Hc Hr. destruct u as [|d u']; [reflexivity|].
  cbn [equal_fold_au]. unfold ascii_fold_eq. rewrite Hc.
  rewrite (IH a2 (tl (d :: u')) Hr), (IH a2 (skipn 3 (d :: u')) Hr), (IH a2 (skipn 2 (d :: u')) Hr). reflexivity.
Qed.

(** on two ASCII strings EqualFold is "differ only in letter case" *)
Lemma equal_fold_au_ascii a u : Forall (fun c => c < 128) u -> (equal_fold_au a u = true <-> cv a u).
Proof.
  revert u; induction a as [|c a IH]; intros [|d u] Hu.
  - split; reflexivity.
  - split; [discriminate|]. intro H. discriminate.
  - split; [discriminate|]. intro H. discriminate.
  - inversion Hu as [|? ? Hd Hu']; subst. cbn [equal_fold_au tl].
    assert (E : (d <? 128) = true) by lia. rewrite E. unfold ascii_fold_eq.
    rewrite andb_true_iff, (IH u Hu'), N.eqb_eq. unfold cv, fold_str. cbn [map]. split.
    + intros [H1 H2]. congruence.
    + intro H. injection H as H1 H2. split; assumption.
Qed.

(** * validity does not depend on letter case *)
Lemma fold_alnum c : is_alnum_us (fold_byte c) = is_alnum_us c.
Proof. unf. brk; lia. Qed.

Lemma fold_mchar k c : m_char_ok k (fold_byte c) = m_char_ok k c.
Proof. unf. brk; destruct k; cbn in *; try reflexivity; try lia. Qed.

Lemma fold_nchar k c : n_char_ok k (fold_byte c) = n_char_ok k c.
Proof. unf. brk; destruct k; cbn in *; try reflexivity; try lia. Qed.

Lemma forallb_map {A B} (f : B -> bool) (g : A -> B) l : forallb f (map g l) = forallb (fun x => f (g x)) l.
Proof. induction l as [|x l IH]; cbn; [reflexivity|]. rewrite IH. reflexivity. Qed.

Lemma bytes_ok_fold okc s : (forall c, okc (fold_byte c) = okc c) -> bytes_ok okc (fold_str s) = bytes_ok okc s.
Proof.
  intro H. destruct s as [|c r]; [reflexivity|]. cbn [fold_str map bytes_ok]. rewrite fold_alnum, forallb_map.
  f_equal. apply forallb_ext'. exact H.
Qed.

Lemma fold_m_valid k s : m_valid_part k (fold_str s) = m_valid_part k s.
Proof.
  rewrite !m_valid_part_spec. unfold fold_str at 1 2. rewrite map_length. f_equal. apply bytes_ok_fold. apply fold_mchar.
Qed.

Lemma fold_n_valid k s : n_valid_part k (fold_str s) = n_valid_part k s.
Proof.
  rewrite !n_valid_part_spec. unfold fold_str at 1. rewrite map_length. f_equal. apply bytes_ok_fold. apply fold_nchar.
Qed.

Lemma cv_m_valid k a b : cv a b -> m_valid_part k a = m_valid_part k b.
Proof. intro H. rewrite <- (fold_m_valid k a), <- (fold_m_valid k b). unfold cv in H. rewrite H. reflexivity. Qed.

Lemma cv_part_ok k a b : cv a b -> part_ok k a -> part_ok k b.
Proof. intros H Ha. apply m_valid_part_ok. rewrite <- (cv_m_valid k a b H). apply m_valid_part_ok. exact Ha. Qed.

(** * package model: case variants are accepted alike and are EqualFold *)
Definition cv_m (a b : mname) : Prop := cv (mH a) (mH b) /\ cv (mN a) (mN b) /\ cv (mM a) (mM b) /\ cv (mT a) (mT b).

Lemma cv_m_fq a b : cv_m a b -> m_is_fq a = m_is_fq b.
Proof.
  intros (H1 & H2 & H3 & H4). unfold m_is_fq.
  rewrite (cv_m_valid _ _ _ H1), (cv_m_valid _ _ _ H2), (cv_m_valid _ _ _ H3), (cv_m_valid _ _ _ H4). reflexivity.
Qed.

Lemma cv_m_equal_fold a b : m_is_fq b = true -> (m_equal_fold a b = true <-> cv_m a b).
Proof.
  destruct b as [h n m t]. intro H. apply m_is_fq_parts in H as (Hh & Hn & Hm & Ht).
  unfold m_equal_fold, cv_m. cbn [mH mN mM mT]. rewrite !andb_true_iff.
  rewrite !equal_fold_au_ascii by (eapply part_ok_ascii; eassumption). tauto.
Qed.

(** * the blob cache: case variants resolve to the same link *)
Lemma fold_slash : fold_byte c_slash = c_slash.
Proof. reflexivity. Qed.

Lemma cv_intercalate l1 l2 : Forall2 cv l1 l2 -> cv (intercalate [c_slash] l1) (intercalate [c_slash] l2).
Proof.
  induction 1 as [|a b l1 l2 Hab Hl IH]; [reflexivity|].
  destruct Hl as [|a' b' l1' l2' Hab' Hl'].
  - exact Hab.
  - rewrite !intercalate_cons2. apply cv_app; [exact Hab|]. cbn [app]. apply cv_cons. exact IH.
Qed.

Definition cv_parts (h1 n1 m1 t1 h2 n2 m2 t2 : str) : Prop := cv h1 h2 /\ cv n1 n2 /\ cv m1 m2 /\ cv t1 t2.

Lemma find_ext {A} (f g : A -> bool) l : (forall x, f x = g x) -> find f l = find g l.
Proof. intro H. induction l as [|x l IH]; cbn; [reflexivity|]. rewrite H, IH. reflexivity. Qed.

(** the lookup of manifestPath, as a function of the four parts of an accepted name *)
Definition link_lookup (links : list str) (h n m t : str) : option str :=
  find (fun l => equal_fold_au (intercalate [c_slash] [s_manifests; h; n; m; t]) l) links.

Lemma link_lookup_cv links h1 n1 m1 t1 h2 n2 m2 t2 :
  cv_parts h1 n1 m1 t1 h2 n2 m2 t2 -> link_lookup links h1 n1 m1 t1 = link_lookup links h2 n2 m2 t2.
Proof.
  intros (H1 & H2 & H3 & H4). unfold link_lookup. apply find_ext. intro l. apply equal_fold_au_congr.
  apply cv_intercalate. repeat constructor; try assumption; try apply cv_refl.
Qed.

(** manifestPath in terms of the lookup *)
Lemma b_manifest_path_lookup dir links name h n m t :
  n_parse name = MkN h n m t -> fq_parts h n m t ->
  b_manifest_path dir links name =
  Ok (fp_join [dir; match link_lookup links h n m t with
                    | Some l => l
                    | None => intercalate [c_slash] [s_manifests; h; n; m; t]
                    end]).
Proof.
  intros Hp Hfq. unfold b_manifest_path, b_name_to_path. cbv zeta. rewrite Hp.
  rewrite (proj2 (n_is_fq_parts h n m t) Hfq). cbn [nH nN nM nT].
  pose proof (fq_parts_safe _ _ _ _ Hfq) as Hs.
  rewrite (fp_join_safe [h; n; m; t]) by (try assumption; discriminate).
  rewrite (fp_join_head s_manifests [h; n; m; t]) by (try discriminate; try assumption; exact manifests_safe).
  unfold link_lookup. destruct (find _ links); reflexivity.
Qed.

(** * names.Parse commutes with case folding, so case variants of a *string* parse to case variants *)
Definition nmap (n : nname) : nname := MkN (fold_str (nH n)) (fold_str (nN n)) (fold_str (nM n)) (fold_str (nT n)).

Lemma cut_last_by_fold p s :
  (forall c, p (fold_byte c) = p c) ->
  cut_last_by p (fold_str s) =
  match cut_last_by p s with
  | Some (b, d, a) => Some (fold_str b, fold_byte d, fold_str a)
  | None => None
  end.
Proof.
  intro Hp. induction s as [|c s IH]; [reflexivity|]. cbn [fold_str map cut_last_by]. fold (fold_str s). rewrite IH.
  destruct (cut_last_by p s) as [[[b d] a]|]; [reflexivity|]. rewrite Hp. destruct (p c); reflexivity.
Qed.

Lemma fold_sep_colon c : (fold_byte c =? c_colon) = (c =? c_colon).
Proof. unf. brk; lia. Qed.
Lemma fold_sep_slash c : (fold_byte c =? c_slash) = (c =? c_slash).
Proof. unf. brk; lia. Qed.
Lemma fold_is_sep c : is_slash_or_colon (fold_byte c) = is_slash_or_colon c.
Proof. unfold is_slash_or_colon. rewrite fold_sep_colon, fold_sep_slash. reflexivity. Qed.
Lemma fold_eqb_slash c : N.eqb c_slash (fold_byte c) = N.eqb c_slash c.
Proof. rewrite (N.eqb_sym c_slash), (N.eqb_sym c_slash c). apply fold_sep_slash. Qed.

Lemma cut_last_any_fold p s :
  (forall c, p (fold_byte c) = p c) ->
  cut_last_any p (fold_str s) = let '(b, a, d) := cut_last_any p s in (fold_str b, fold_str a, fold_byte d).
Proof.
  intro Hp. unfold cut_last_any. rewrite cut_last_by_fold by assumption.
  destruct (cut_last_by p s) as [[[b d] a]|]; reflexivity.
Qed.

Lemma n_parse_loop_fold f s acc :
  n_parse_loop f (fold_str s) (nmap acc) = option_map nmap (n_parse_loop f s acc).
Proof.
  revert s acc; induction f as [|f IH]; intros s acc; [reflexivity|].
  cbn [n_parse_loop]. rewrite (cut_last_any_fold is_slash_or_colon s fold_is_sep).
  destruct (cut_last_any is_slash_or_colon s) as [[b a] d].
  rewrite fold_sep_colon, fold_sep_slash.
  destruct (d =? c_colon).
  - rewrite <- IH. reflexivity.
  - destruct (d =? c_slash); [|reflexivity].
    rewrite (cut_last_any_fold (N.eqb c_slash) b fold_eqb_slash).
    destruct (cut_last_any (N.eqb c_slash) b) as [[h ns] x]. reflexivity.
Qed.

Lemma n_parse_fold s : n_parse (fold_str s) = nmap (n_parse s).
Proof.
  unfold n_parse. unfold fold_str at 1 2. rewrite map_length. fold (fold_str s).
  destruct (max_name_length <? length s)%nat; [reflexivity|].
  change n_empty with (nmap n_empty) at 1. rewrite n_parse_loop_fold.
  destruct (n_parse_loop (S (length s)) s n_empty); reflexivity.
Qed.

Lemma nonempty_fold s : nonempty (fold_str s) = nonempty s.
Proof. destruct s; reflexivity. Qed.

Lemma n_is_fq_fold n : n_is_fq (nmap n) = n_is_fq n.
Proof.
  unfold n_is_fq, n_is_valid, nmap. cbn [nH nN nM nT]. rewrite !nonempty_fold, !fold_n_valid. reflexivity.
Qed.

Lemma n_is_valid_fold n : n_is_valid (nmap n) = n_is_valid n.
Proof. unfold n_is_valid, nmap. cbn [nH nN nM nT]. rewrite !nonempty_fold, !fold_n_valid. reflexivity. Qed.

Definition cv_n (a b : nname) : Prop := cv (nH a) (nH b) /\ cv (nN a) (nN b) /\ cv (nM a) (nM b) /\ cv (nT a) (nT b).

Lemma cv_n_parse s1 s2 : cv s1 s2 -> cv_n (n_parse s1) (n_parse s2) /\ n_is_fq (n_parse s1) = n_is_fq (n_parse s2)
                                     /\ n_is_valid (n_parse s1) = n_is_valid (n_parse s2).
Proof.
  intro H. assert (E : nmap (n_parse s1) = nmap (n_parse s2)) by (rewrite <- !n_parse_fold; unfold cv in H; rewrite H; reflexivity).
  split; [|split].
  - unfold nmap in E. injection E as E1 E2 E3 E4. repeat split; assumption.
  - rewrite <- (n_is_fq_fold (n_parse s1)), <- (n_is_fq_fold (n_parse s2)), E. reflexivity.
  - rewrite <- (n_is_valid_fold (n_parse s1)), <- (n_is_valid_fold (n_parse s2)), E. reflexivity.
Qed.

Lemma b_manifest_path_invalid dir links name :
  n_is_fq (n_parse name) = false -> b_manifest_path dir links name = Err EInvalidName.
Proof. intro H. unfold b_manifest_path, b_name_to_path. cbv zeta. rewrite H. reflexivity. Qed.

(** the string-level statement for the blob cache *)
Lemma b_manifest_path_cv dir links s1 s2 :
  cv s1 s2 ->
  (b_manifest_path dir links s1 = Err EInvalidName /\ b_manifest_path dir links s2 = Err EInvalidName) \/
  (exists l, In l links /\ b_manifest_path dir links s1 = Ok (fp_join [dir; l]) /\
             b_manifest_path dir links s2 = Ok (fp_join [dir; l])) \/
  (exists h1 n1 m1 t1 h2 n2 m2 t2,
      fq_parts h1 n1 m1 t1 /\ fq_parts h2 n2 m2 t2 /\ cv_parts h1 n1 m1 t1 h2 n2 m2 t2 /\
      link_lookup links h1 n1 m1 t1 = None /\ link_lookup links h2 n2 m2 t2 = None /\
      b_manifest_path dir links s1 = Ok (fp_join [dir; intercalate [c_slash] [s_manifests; h1; n1; m1; t1]]) /\
      b_manifest_path dir links s2 = Ok (fp_join [dir; intercalate [c_slash] [s_manifests; h2; n2; m2; t2]])).
Proof.
  intro H. destruct (cv_n_parse s1 s2 H) as ((C1 & C2 & C3 & C4) & Hfq & _).
  destruct (n_parse s1) as [h1 n1 m1 t1] eqn:E1. destruct (n_parse s2) as [h2 n2 m2 t2] eqn:E2.
  cbn [nH nN nM nT] in C1, C2, C3, C4.
  destruct (n_is_fq (MkN h2 n2 m2 t2)) eqn:F2.
  - pose proof (proj1 (n_is_fq_parts _ _ _ _) Hfq) as P1. pose proof (proj1 (n_is_fq_parts _ _ _ _) F2) as P2.
    rewrite (b_manifest_path_lookup dir links s1 h1 n1 m1 t1 E1 P1), (b_manifest_path_lookup dir links s2 h2 n2 m2 t2 E2 P2).
    assert (Hcv : cv_parts h1 n1 m1 t1 h2 n2 m2 t2) by (repeat split; assumption).
    rewrite (link_lookup_cv links _ _ _ _ _ _ _ _ Hcv).
    destruct (link_lookup links h2 n2 m2 t2) as [l|] eqn:El.
    + right; left. exists l. split; [|split; reflexivity]. unfold link_lookup in El. apply find_some in El as [Hin _]. exact Hin.
    + right; right. exists h1, n1, m1, t1, h2, n2, m2, t2.
      split; [exact P1|]. split; [exact P2|]. split; [exact Hcv|]. split; [rewrite (link_lookup_cv links _ _ _ _ _ _ _ _ Hcv); exact El|]. split; [exact El|]. split; reflexivity.
  - left. split; apply b_manifest_path_invalid; [rewrite E1|rewrite E2]; assumption.
Qed.

(** * DisplayShortest *)
Lemma m_parse_bare_nmt n m t :
  part_ok KNamespace n -> part_ok KModel m -> part_ok KTag t ->
  m_parse_bare ((n ++ c_slash :: m) ++ c_colon :: t) = MkM [] n m t.
Proof.
  intros Hn Hm Ht.
  pose proof (part_ok_no_slash _ _ Hn) as Sn. pose proof (part_ok_no_slash _ _ Hm) as Sm. pose proof (part_ok_no_slash _ _ Ht) as St.
  assert (Ct : ~ In c_colon t) by (eapply part_ok_no_colon; [| |eassumption]; discriminate).
  pose proof (part_ok_nonempty _ _ Hn) as Nn. pose proof (part_ok_nonempty _ _ Hm) as Nm. pose proof (part_ok_nonempty _ _ Ht) as Nt.
  unfold m_parse_bare. rewrite (last_index_app c_colon) by assumption.
  assert (Hls : last_index c_slash ((n ++ c_slash :: m) ++ c_colon :: t) = Z.of_nat (length n)).
  { rewrite <- app_assoc. cbn [app]. apply last_index_app. apply not_in_app; [assumption|]. apply not_in_cons; [discriminate|assumption]. }
  rewrite Hls.
  assert (Hgt : (Z.of_nat (length (n ++ c_slash :: m)) >? Z.of_nat (length n))%Z = true) by (rewrite app_length; cbn [length]; lia).
  rewrite Hgt. rewrite (cut_promised_app c_colon) by (try assumption; destruct n; discriminate).
  rewrite (cut_promised_app c_slash) by assumption. cbn [negb].
  rewrite (cut_promised_none c_slash n) by assumption. reflexivity.
Qed.

Lemma m_parse_bare_mt m t : part_ok KModel m -> part_ok KTag t -> m_parse_bare (m ++ c_colon :: t) = MkM [] [] m t.
Proof.
  intros Hm Ht.
  pose proof (part_ok_no_slash _ _ Hm) as Sm. pose proof (part_ok_no_slash _ _ Ht) as St.
  assert (Ct : ~ In c_colon t) by (eapply part_ok_no_colon; [| |eassumption]; discriminate).
  pose proof (part_ok_nonempty _ _ Hm) as Nm. pose proof (part_ok_nonempty _ _ Ht) as Nt.
  unfold m_parse_bare. rewrite (last_index_app c_colon) by assumption.
  rewrite (last_index_none c_slash) by (apply not_in_app; [assumption|]; apply not_in_cons; [discriminate|assumption]).
  assert (Hgt : (Z.of_nat (length m) >? -1)%Z = true) by lia. rewrite Hgt.
  rewrite (cut_promised_app c_colon) by assumption.
  rewrite (cut_promised_none c_slash m) by assumption. reflexivity.
Qed.

Lemma default_host_ok : part_ok KHost s_default_host.
Proof. apply m_valid_part_ok. vm_compute. reflexivity. Qed.
Lemma default_namespace_ok : part_ok KNamespace s_default_namespace.
Proof. apply m_valid_part_ok. vm_compute. reflexivity. Qed.
Lemma default_tag_ok : part_ok KTag s_default_tag.
Proof. apply m_valid_part_ok. vm_compute. reflexivity. Qed.

Lemma m_display_shortest_parse h n m t :
  fq_parts h n m t ->
  let n' := m_parse (m_display_shortest (MkM h n m t)) in
  m_is_fq n' = true /\ cv_m n' (MkM h n m t) /\ mM n' = m /\ mT n' = t.
Proof.
  intros Hfq. pose proof Hfq as (Hh & Hn & Hm & Ht). cbv zeta.
  unfold m_display_shortest. cbn [mH mN mM mT].
  destruct (equal_fold_au s_default_host h) eqn:Eh; cbn [negb].
  - apply (equal_fold_au_ascii s_default_host h (part_ok_ascii _ _ Hh)) in Eh.
    destruct (equal_fold_au s_default_namespace n) eqn:En; cbn [negb].
    + apply (equal_fold_au_ascii s_default_namespace n (part_ok_ascii _ _ Hn)) in En.
      cbn [app]. unfold m_parse. rewrite m_parse_bare_mt by assumption.
      unfold m_merge, m_default. cbn [mH mN mM mT or_str]. rewrite (or_str_nonempty t) by (eapply part_ok_nonempty; eassumption).
      split; [apply m_is_fq_parts; split; [apply default_host_ok|split; [apply default_namespace_ok|split; assumption]]|].
      split; [|split; reflexivity]. repeat split; cbn [mH mN mM mT]; try assumption; apply cv_refl.
    + replace ((n ++ [c_slash]) ++ m ++ [c_colon] ++ t) with ((n ++ c_slash :: m) ++ c_colon :: t)
        by (repeat rewrite <- app_assoc; reflexivity).
      unfold m_parse. rewrite m_parse_bare_nmt by assumption.
      unfold m_merge, m_default. cbn [mH mN mM mT or_str].
      rewrite (or_str_nonempty t), (or_str_nonempty n) by (eapply part_ok_nonempty; eassumption).
      split; [apply m_is_fq_parts; split; [apply default_host_ok|split; [assumption|split; assumption]]|].
      split; [|split; reflexivity]. repeat split; cbn [mH mN mM mT]; try assumption; apply cv_refl.
  - replace ((h ++ [c_slash] ++ n ++ [c_slash]) ++ m ++ [c_colon] ++ t) with (full_string h n m t)
      by (unfold full_string; repeat rewrite <- app_assoc; cbn [app]; repeat rewrite <- app_assoc; reflexivity).
    rewrite <- (m_string_full h n m t Hfq), m_roundtrip by (apply m_is_fq_parts; assumption).
    split; [apply m_is_fq_parts; assumption|]. split; [|split; reflexivity]. repeat split; apply cv_refl.
Qed.
