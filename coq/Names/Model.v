(** C13 - executable model of the name / digest / path functions of ollama.

    Go sources followed (GOOS=linux: filepath.Separator = os.PathSeparator = '/'):
      types/model/name.go                       ([m_*]  : ParseNameBare, ParseName, Merge, String, DisplayShortest,
                                                          IsFullyQualified, Filepath, ParseNameFromFilepath, isValidPart)
      server/internal/internal/names/name.go    ([n_*]  : Parse, Merge, IsValid, IsFullyQualified, String, isValidPart)
      server/modelpath.go                       ([mp_*] : ParseModelPath, GetManifestPath, GetBlobsPath)
      server/internal/cache/blob/{digest,cache}.go ([b_*] : ParseDigest, GetFile, nameToPath, manifestPath, splitNameDigest)
      server/internal/client/ollama/registry.go ([r_*]  : splitExtended, parseName, parseNameExtended, CompleteName)
      server/routes.go                          ([get_existing_name*] : getExistingName)
    Strings are byte lists ([str = list N]).  Definitions only; proofs are in Proofs.v. *)
From Coq Require Import List NArith ZArith Bool Arith.
From V Require Import Common.Bytes Names.Path.
Import ListNotations.
Open Scope N_scope.

(** * literals *)
Definition c_colon : N := 58.   (* ':' *)
Definition c_at : N := 64.      (* '@' *)
Definition c_dash : N := 45.    (* '-' *)
Definition c_us : N := 95.      (* '_' *)

Definition s_missing : str := [33; 77; 73; 83; 83; 73; 78; 71; 33].   (* "!MISSING!" *)
Definition s_default_host : str := [114; 101; 103; 105; 115; 116; 114; 121; 46; 111; 108; 108; 97; 109; 97; 46; 97; 105].   (* "registry.ollama.ai" *)
Definition s_default_namespace : str := [108; 105; 98; 114; 97; 114; 121].   (* "library" *)
Definition s_default_tag : str := [108; 97; 116; 101; 115; 116].   (* "latest" *)
Definition s_scheme_sep : str := [58; 47; 47].   (* "://" *)
Definition s_https : str := [104; 116; 116; 112; 115].   (* "https" *)
Definition s_http : str := [104; 116; 116; 112].   (* "http" *)
Definition s_https_insecure : str := [104; 116; 116; 112; 115; 43; 105; 110; 115; 101; 99; 117; 114; 101].   (* "https+insecure" *)
Definition s_sha256 : str := [115; 104; 97; 50; 53; 54].   (* "sha256" *)
Definition s_manifests : str := [109; 97; 110; 105; 102; 101; 115; 116; 115].   (* "manifests" *)
Definition s_blobs : str := [98; 108; 111; 98; 115].   (* "blobs" *)

(** * outcomes *)
Inductive err := ENotExist | EInvalidDigest | EInvalidName | EBadScheme.
Inductive res (A : Type) := Ok (a : A) | Err (e : err) | Panic.
Arguments Ok {A} a.
Arguments Err {A} e.
Arguments Panic {A}.

(** * character classes *)
Definition is_upper (c : N) : bool := (65 <=? c) && (c <=? 90).
Definition is_lower (c : N) : bool := (97 <=? c) && (c <=? 122).
Definition is_digit (c : N) : bool := (48 <=? c) && (c <=? 57).
(** isAlphanumericOrUnderscore (identical in both packages) *)
Definition is_alnum_us (c : N) : bool := is_upper c || is_lower c || is_digit c || (c =? c_us).
Definition is_hex (c : N) : bool := is_digit c || ((65 <=? c) && (c <=? 70)) || ((97 <=? c) && (c <=? 102)).

(** * string primitives of package strings *)

(** split at the last byte satisfying [p]: [Some (before, sep, after)] *)
Fixpoint cut_last_by (p : N -> bool) (s : str) : option (str * N * str) :=
  match s with
  | [] => None
  | c :: s' =>
      match cut_last_by p s' with
      | Some (b, d, a) => Some (c :: b, d, a)
      | None => if p c then Some ([], c, s') else None
      end
  end.

(** split at the first byte satisfying [p] *)
Fixpoint cut_first_by (p : N -> bool) (s : str) : option (str * N * str) :=
  match s with
  | [] => None
  | c :: s' =>
      if p c then Some ([], c, s')
      else match cut_first_by p s' with
           | Some (b, d, a) => Some (c :: b, d, a)
           | None => None
           end
  end.

(** strings.LastIndex(s, string(c)) *)
Definition last_index (c : N) (s : str) : Z :=
  match cut_last_by (N.eqb c) s with
  | Some (b, _, _) => Z.of_nat (length b)
  | None => (-1)%Z
  end.

(** strings.Cut(s, sep) for a multi-byte separator (first occurrence) *)
Definition cut_sub (sep s : str) : option (str * str) :=
  match index_of s sep with
  | Some i => Some (firstn i s, skipn (i + length sep) s)
  | None => None
  end.

(** strings.ReplaceAll for single bytes *)
Definition replace_byte (a b : N) (s : str) : str := map (fun c => if c =? a then b else c) s.

(** cmp.Or on strings *)
Definition or_str (a b : str) : str := match a with [] => b | _ => a end.

(** strings.EqualFold(a, u) when [a] is ASCII and [u] is arbitrary: below 0x80 only upper/lower pairs fold; the
    only non-ASCII runes in the simple-fold orbit of an ASCII rune are U+212A KELVIN SIGN (k, K) = E2 84 AA and
    U+017F LATIN SMALL LETTER LONG S (s, S) = C5 BF.  Any other non-ASCII rune or invalid byte matches nothing. *)
Definition fold_byte (c : N) : N := if is_upper c then c + 32 else c.
Definition ascii_fold_eq (c d : N) : bool := fold_byte c =? fold_byte d.
Definition s_kelvin : str := [226; 132; 170].
Definition s_long_s : str := [197; 191].
Fixpoint equal_fold_au (a u : str) : bool :=
  match a, u with
  | [], [] => true
  | c :: a', d :: _ =>
      if d <? 128 then ascii_fold_eq c d && equal_fold_au a' (tl u)
      else if (fold_byte c =? 107) && prefixb s_kelvin u then equal_fold_au a' (skipn 3 u)
      else if (fold_byte c =? 115) && prefixb s_long_s u then equal_fold_au a' (skipn 2 u)
      else false
  | _, _ => false
  end.

(** * range-over-string: [for i := range s] visits the byte index of every rune start.  [rune_width s] is the
    number of bytes utf8.DecodeRuneInString consumes at the head of a non-empty [s]. *)
Definition in_rng (lo hi c : N) : bool := (lo <=? c) && (c <=? hi).
Definition is_cont (c : N) : bool := in_rng 128 191 c.
Definition rune_width (s : str) : nat :=
  match s with
  | [] => 0%nat
  | c :: r =>
      if c <? 128 then 1%nat
      else
        (* (size, accept range of the second byte) by first byte *)
        let info : option (nat * N * N) :=
          if in_rng 194 223 c then Some (2%nat, 128, 191)
          else if c =? 224 then Some (3%nat, 160, 191)
          else if in_rng 225 236 c then Some (3%nat, 128, 191)
          else if c =? 237 then Some (3%nat, 128, 159)
          else if in_rng 238 239 c then Some (3%nat, 128, 191)
          else if c =? 240 then Some (4%nat, 144, 191)
          else if in_rng 241 243 c then Some (4%nat, 128, 191)
          else if c =? 244 then Some (4%nat, 128, 143)
          else None in
        match info with
        | None => 1%nat
        | Some (sz, lo, hi) =>
            match r with
            | c1 :: r1 =>
                if negb (in_rng lo hi c1) then 1%nat
                else if (sz =? 2)%nat then 2%nat
                else match r1 with
                     | c2 :: r2 =>
                         if negb (is_cont c2) then 1%nat
                         else if (sz =? 3)%nat then 3%nat
                         else match r2 with
                              | c3 :: _ => if is_cont c3 then 4%nat else 1%nat
                              | [] => 1%nat
                              end
                     | [] => 1%nat
                     end
            | [] => 1%nat
            end
        end
  end.

(** * types/model/name.go *)
Inductive pk := KHost | KNamespace | KModel | KTag | KDigest.
Definition pk_eqb (a b : pk) : bool :=
  match a, b with
  | KHost, KHost | KNamespace, KNamespace | KModel, KModel | KTag, KTag | KDigest, KDigest => true
  | _, _ => false
  end.

Record mname := MkM { mH : str; mN : str; mM : str; mT : str }.

(** isValidLen *)
Definition m_valid_len (k : pk) (s : str) : bool :=
  let n := length s in
  match k with
  | KHost => (1 <=? n)%nat && (n <=? 350)%nat
  | _ => (1 <=? n)%nat && (n <=? 80)%nat
  end.

(** the [switch s[i]] of isValidPart for i > 0 *)
Definition m_char_ok (k : pk) (c : N) : bool :=
  if (c =? c_us) || (c =? c_dash) then true
  else if c =? c_dot then negb (pk_eqb k KNamespace)
  else if c =? c_colon then pk_eqb k KHost || pk_eqb k KDigest
  else is_alnum_us c.

(** the loop [for i := range s] of isValidPart; [first] = (i == 0) *)
Fixpoint m_valid_runes (fuel : nat) (k : pk) (first : bool) (s : str) : bool :=
  match fuel with
  | O => false
  | S f =>
      match s with
      | [] => true
      | c :: _ =>
          (if first then is_alnum_us c else m_char_ok k c) && m_valid_runes f k false (skipn (rune_width s) s)
      end
  end.

Definition m_valid_part (k : pk) (s : str) : bool := m_valid_len k s && m_valid_runes (S (length s)) k true s.

(** cutLast / cutPromised *)
Definition cut_last (c : N) (s : str) : str * str * bool :=
  match cut_last_by (N.eqb c) s with
  | Some (b, _, a) => (b, a, true)
  | None => (s, [], false)
  end.
Definition cut_promised (c : N) (s : str) : str * str * bool :=
  let '(b, a, ok) := cut_last c s in
  if ok then (or_str b s_missing, or_str a s_missing, true) else (b, a, false).

(** ParseNameBare *)
Definition m_parse_bare (s : str) : mname :=
  let '(s1, tag) :=
    if (last_index c_colon s >? last_index c_slash s)%Z
    then let '(b, a, _) := cut_promised c_colon s in (b, a)
    else (s, []) in
  let '(s2, mdl, p1) := cut_promised c_slash s1 in
  if negb p1 then MkM [] [] s1 tag
  else
    let '(s3, ns, p2) := cut_promised c_slash s2 in
    if negb p2 then MkM [] s2 mdl tag
    else
      let host := match cut_sub s_scheme_sep s3 with Some (_, after) => after | None => s3 end in
      MkM host ns mdl tag.

Definition m_default : mname := MkM s_default_host s_default_namespace [] s_default_tag.
Definition m_merge (a b : mname) : mname :=
  MkM (or_str (mH a) (mH b)) (or_str (mN a) (mN b)) (mM a) (or_str (mT a) (mT b)).
Definition m_parse (s : str) : mname := m_merge (m_parse_bare s) m_default.

Definition m_string (n : mname) : str :=
  (if nonempty (mH n) then mH n ++ [c_slash] else []) ++
  (if nonempty (mN n) then mN n ++ [c_slash] else []) ++
  mM n ++
  (if nonempty (mT n) then c_colon :: mT n else []).

Definition m_display_shortest (n : mname) : str :=
  (if negb (equal_fold_au s_default_host (mH n)) then mH n ++ [c_slash] ++ mN n ++ [c_slash]
   else if negb (equal_fold_au s_default_namespace (mN n)) then mN n ++ [c_slash]
   else []) ++ mM n ++ [c_colon] ++ mT n.

Definition m_is_fq (n : mname) : bool :=
  m_valid_part KHost (mH n) && m_valid_part KNamespace (mN n) && m_valid_part KModel (mM n) && m_valid_part KTag (mT n).
Definition m_is_valid := m_is_fq.

(** Filepath: panics unless fully qualified *)
Definition m_filepath (n : mname) : res str :=
  if m_is_fq n then Ok (fp_join [mH n; mN n; mM n; mT n]) else Panic.

Definition m_empty : mname := MkM [] [] [] [].
Definition m_parse_from_filepath (s : str) : mname :=
  match split_on c_slash s with
  | [a; b; c; d] => let n := MkM a b c d in if m_is_fq n then n else m_empty
  | _ => m_empty
  end.

(** Name.EqualFold, on names whose first argument is valid (hence ASCII) *)
Definition m_equal_fold (a u : mname) : bool :=
  equal_fold_au (mH a) (mH u) && equal_fold_au (mN a) (mN u) && equal_fold_au (mM a) (mM u) && equal_fold_au (mT a) (mT u).

(** * server/internal/internal/names/name.go *)
Record nname := MkN { nH : str; nN : str; nM : str; nT : str }.
Definition n_empty : nname := MkN [] [] [] [].
Definition max_name_length : nat := 593.   (* 350 + 1 + 80 + 1 + 80 + 1 + 80 *)

(** cutLastAny(s, chars): (before, after, sep) with sep = 0 when not found *)
Definition cut_last_any (p : N -> bool) (s : str) : str * str * N :=
  match cut_last_by p s with
  | Some (b, d, a) => (b, a, d)
  | None => ([], s, 0)
  end.
Definition is_slash_or_colon (c : N) : bool := (c =? c_slash) || (c =? c_colon).

(** the [for] loop of Parse; fuel = S (length s) always suffices (lemma [n_parse_loop_fuel]) *)
Fixpoint n_parse_loop (fuel : nat) (s : str) (n : nname) : option nname :=
  match fuel with
  | O => None
  | S f =>
      let '(s', tail, c) := cut_last_any is_slash_or_colon s in
      if c =? c_colon then n_parse_loop f s' (MkN (nH n) (nN n) (nM n) tail)
      else if c =? c_slash then
        let '(h, ns, _) := cut_last_any (N.eqb c_slash) s' in
        Some (MkN h ns tail (nT n))
      else Some (MkN (nH n) (nN n) tail (nT n))
  end.

Definition n_parse (s : str) : nname :=
  if (max_name_length <? length s)%nat then n_empty
  else match n_parse_loop (S (length s)) s n_empty with Some n => n | None => n_empty end.

Definition n_char_ok (k : pk) (c : N) : bool :=
  if (c =? c_us) || (c =? c_dash) then true
  else if c =? c_dot then negb (pk_eqb k KNamespace)
  else if c =? c_colon then pk_eqb k KHost
  else is_alnum_us c.

Fixpoint n_valid_runes (fuel : nat) (k : pk) (first : bool) (s : str) : bool :=
  match fuel with
  | O => false
  | S f =>
      match s with
      | [] => true
      | c :: _ =>
          (if first then is_alnum_us c else n_char_ok k c) && n_valid_runes f k false (skipn (rune_width s) s)
      end
  end.

(** names.isValidPart: no lower bound on the length (callers test for "") *)
Definition n_valid_part (k : pk) (s : str) : bool :=
  (length s <=? (match k with KHost => 350 | _ => 80 end))%nat && n_valid_runes (S (length s)) k true s.

(** Name.IsValid on the unchanged tree: a host without a namespace ("h//m") is accepted although String() prints it
    as "h/m", which parses back as namespace "h" (refuted round trip, see Properties_C13) *)
Definition n_is_valid_unrepaired (n : nname) : bool :=
  (negb (nonempty (nH n)) || n_valid_part KHost (nH n)) &&
  (negb (nonempty (nN n)) || n_valid_part KNamespace (nN n)) &&
  (negb (nonempty (nT n)) || n_valid_part KTag (nT n)) &&
  (nonempty (nM n) && n_valid_part KModel (nM n)).

(** Name.IsValid after fixes/C13-names-host-without-namespace.patch: the first test rejects host-without-namespace *)
Definition n_is_valid (n : nname) : bool :=
  negb (nonempty (nH n) && negb (nonempty (nN n))) &&
  (negb (nonempty (nH n)) || n_valid_part KHost (nH n)) &&
  (negb (nonempty (nN n)) || n_valid_part KNamespace (nN n)) &&
  (negb (nonempty (nT n)) || n_valid_part KTag (nT n)) &&
  (nonempty (nM n) && n_valid_part KModel (nM n)).
Definition n_is_fq (n : nname) : bool :=
  n_is_valid n && nonempty (nH n) && nonempty (nN n) && nonempty (nM n) && nonempty (nT n).
Definition n_merge (a b : nname) : nname :=
  MkN (or_str (nH a) (nH b)) (or_str (nN a) (nN b)) (nM a) (or_str (nT a) (nT b)).
Definition n_string (n : nname) : str :=
  (if nonempty (nH n) then nH n ++ [c_slash] else []) ++
  (if nonempty (nN n) then nN n ++ [c_slash] else []) ++
  nM n ++
  (if nonempty (nT n) then c_colon :: nT n else []).

(** * server/modelpath.go *)
Record modelpath := MkMP { mpScheme : str; mpRegistry : str; mpNamespace : str; mpRepository : str; mpTag : str }.

Definition mp_parse (name : str) : modelpath :=
  let '(scheme, name1) := match cut_sub s_scheme_sep name with Some (b, a) => (b, a) | None => (s_https, name) end in
  (* strings.ReplaceAll(name, string(os.PathSeparator), "/") is the identity on linux *)
  let '(reg, ns, repo) :=
    match split_on c_slash name1 with
    | [a; b; c] => (a, b, c)
    | [a; b] => (s_default_host, a, b)
    | [a] => (s_default_host, s_default_namespace, a)
    | _ => (s_default_host, s_default_namespace, [])
    end in
  match cut_first_by (N.eqb c_colon) repo with
  | Some (r, _, t) => MkMP scheme reg ns r t
  | None => MkMP scheme reg ns repo s_default_tag
  end.

Definition mp_name (mp : modelpath) : mname := MkM (mpRegistry mp) (mpNamespace mp) (mpRepository mp) (mpTag mp).

(** ModelPath.GetManifestPath with envconfig.Models() = root *)
Definition mp_manifest_path (root : str) (mp : modelpath) : res str :=
  if m_is_valid (mp_name mp)
  then match m_filepath (mp_name mp) with
       | Ok fp => Ok (fp_join [root; s_manifests; fp])
       | Err e => Err e
       | Panic => Panic
       end
  else Err ENotExist.

(** the regular expression ^sha256[:-][0-9a-fA-F]{64}$ *)
Definition digest_re_match (d : str) : bool :=
  prefixb s_sha256 d &&
  match skipn 6 d with
  | sep :: hexs => ((sep =? c_colon) || (sep =? c_dash)) && (length hexs =? 64)%nat && forallb is_hex hexs
  | [] => false
  end.

(** GetBlobsPath (the MkdirAll side effect is not modelled) *)
Definition get_blobs_path (root d : str) : res str :=
  if nonempty d && negb (digest_re_match d) then Err EInvalidDigest
  else Ok (fp_join [root; s_blobs; replace_byte c_colon c_dash d]).

(** * server/internal/cache/blob *)
Definition hex_val (c : N) : option N :=
  if is_digit c then Some (c - 48)
  else if (97 <=? c) && (c <=? 102) then Some (c - 87)
  else if (65 <=? c) && (c <=? 70) then Some (c - 55)
  else None.
(** hex.Decode on an even-length input *)
Fixpoint hex_decode (s : str) : option (list N) :=
  match s with
  | [] => Some []
  | a :: b :: r =>
      match hex_val a, hex_val b, hex_decode r with
      | Some x, Some y, Some t => Some ((16 * x + y) :: t)
      | _, _, _ => None
      end
  | [_] => None
  end.
Definition hex_digit (v : N) : N := if v <? 10 then 48 + v else 87 + v.
(** fmt "%x" of a byte slice *)
Definition hex_encode (l : list N) : str := flat_map (fun b => [hex_digit (b / 16); hex_digit (b mod 16)]) l.

Definition is_colon_or_dash (c : N) : bool := (c =? c_colon) || (c =? c_dash).
(** ParseDigest: the 32 sum bytes *)
Definition b_parse_digest (s : str) : res (list N) :=
  match cut_first_by is_colon_or_dash s with
  | None => Err EInvalidDigest
  | Some (prefix, _, sum) =>
      if negb (eqb_str prefix s_sha256) || negb (length sum =? 64)%nat then Err EInvalidDigest
      else match hex_decode sum with
           | Some d => Ok d
           | None => Err EInvalidDigest
           end
  end.
(** DiskCache.GetFile = absJoin(c.dir, "blobs", "sha256-%x"); [cwd] is os.Getwd() *)
Definition b_get_file (cwd dir : str) (sum : list N) : str :=
  fp_abs cwd (fp_join [dir; s_blobs; s_sha256 ++ [c_dash] ++ hex_encode sum]).

(** splitNameDigest *)
Definition b_split_name_digest (s : str) : str * str :=
  match cut_last_by (N.eqb c_at) s with
  | Some (b, _, a) => (b, a)
  | None => (s, [])
  end.

(** nameToPath *)
Definition b_name_to_path (name : str) : res str :=
  let n := n_parse name in
  if n_is_fq n then Ok (fp_join [nH n; nN n; nM n; nT n]) else Err EInvalidName.

(** manifestPath: [links] is what c.links() yields (fs.Glob "manifests/*/*/*/*", slash separated, relative) *)
Definition b_manifest_path (dir : str) (links : list str) (name : str) : res str :=
  match b_name_to_path name with
  | Ok np =>
      let maybe := fp_join [s_manifests; np] in
      match find (fun l => equal_fold_au maybe l) links with
      | Some l => Ok (fp_join [dir; l])
      | None => Ok (fp_join [dir; maybe])
      end
  | Err e => Err e
  | Panic => Panic
  end.

(** * server/internal/client/ollama/registry.go *)
(** splitExtended (identical to names.Split) *)
Definition r_split_extended (s : str) : str * str * str :=
  let '(scheme, s1) := match cut_sub s_scheme_sep s with Some (b, a) => (b, a) | None => ([], s) end in
  match cut_last_by (N.eqb c_at) s1 with
  | Some (b, _, a) => (scheme, b, a)
  | None => (scheme, s1, [])
  end.

Definition r_parse_name (mask : nname) (name : str) : res nname :=
  let n := n_merge (n_parse name) mask in
  if n_is_fq n then Ok n else Err EInvalidName.

Definition r_supported_scheme (s : str) : bool := eqb_str s s_http || eqb_str s s_https || eqb_str s s_https_insecure.

(** parseNameExtended: (scheme, name, digest-if-any) *)
Definition r_parse_name_extended (mask : nname) (s : str) : res (str * nname * option (list N)) :=
  let '(scheme0, name, digest) := r_split_extended s in
  let scheme := or_str scheme0 s_https in
  if negb (r_supported_scheme scheme) then Err EBadScheme
  else
    let continue_ (d : option (list N)) :=
      match r_parse_name mask name with
      | Ok n => Ok (scheme, n, d)
      | Err e => Err e
      | Panic => Panic
      end in
    if nonempty digest then
      match b_parse_digest digest with
      | Ok d => if nonempty name then continue_ (Some d) else Ok (scheme, n_empty, Some d)
      | Err _ => Err EInvalidDigest
      | Panic => Panic
      end
    else continue_ None.

Definition n_default_mask : nname := MkN s_default_host s_default_namespace [c_us] s_default_tag.
Definition r_complete_name (name : str) : str := n_string (n_merge (n_parse name) n_default_mask).

(** * server/routes.go getExistingName *)

(** the body of [for e := range existing] on the unchanged tree: [set] is never assigned, so every part is
    overwritten by every stored name whose part folds to it *)
Definition gen_step (n e : mname) : mname :=
  MkM (if equal_fold_au (mH e) (mH n) then mH e else mH n)
      (if equal_fold_au (mN e) (mN n) then mN e else mN n)
      (if equal_fold_au (mM e) (mM n) then mM e else mM n)
      (if equal_fold_au (mT e) (mT n) then mT e else mT n).
(** [existing] in the order in which the map iteration happened to visit it *)
Definition get_existing_name_legacy (existing : list mname) (n : mname) : mname := fold_left gen_step existing n.

(** repaired getExistingName (fixes/C04-getExistingName.patch, owned by C04): for every stored name [e] the candidate
    is [n] with its first [k] parts taken from [e], [k] = number of leading parts (host, namespace, model, tag) that
    are EqualFold; the candidate with the largest [k] wins, among equally long matches (k > 0) the one whose
    String() is bytewise smallest; with no match the input is returned. *)
Definition gen_cand (n e : mname) : mname * nat :=
  if equal_fold_au (mH e) (mH n) then
    if equal_fold_au (mN e) (mN n) then
      if equal_fold_au (mM e) (mM n) then
        if equal_fold_au (mT e) (mT n) then (MkM (mH e) (mN e) (mM e) (mT e), 4%nat)
        else (MkM (mH e) (mN e) (mM e) (mT n), 3%nat)
      else (MkM (mH e) (mN e) (mM n) (mT n), 2%nat)
    else (MkM (mH e) (mN n) (mM n) (mT n), 1%nat)
  else (n, 0%nat).

(** strings.Compare / the string order of Go *)
Fixpoint str_cmp (a b : str) : comparison :=
  match a, b with
  | [], [] => Eq
  | [], _ => Lt
  | _, [] => Gt
  | x :: a', y :: b' => match N.compare x y with Eq => str_cmp a' b' | c => c end
  end.
Definition str_ltb (a b : str) : bool := match str_cmp a b with Lt => true | _ => false end.

(** the body of [for e := range existing] *)
Definition gen_pick (n : mname) (acc : mname * nat) (e : mname) : mname * nat :=
  let '(best, bl) := acc in
  let '(c, k) := gen_cand n e in
  if (bl <? k)%nat || ((k =? bl)%nat && (0 <? k)%nat && str_ltb (m_string c) (m_string best)) then (c, k) else acc.

(** [existing] in the order in which the map iteration happened to visit it *)
Definition get_existing_name (existing : list mname) (n : mname) : mname :=
  fst (fold_left (gen_pick n) existing (n, 0%nat)).

Definition m_eqb (a b : mname) : bool := eqb_str (mH a) (mH b) && eqb_str (mN a) (mN b) && eqb_str (mM a) (mM b) && eqb_str (mT a) (mT b).
