(** C13 - lemmas about the name parsers: character-level validity, print/parse round trips, agreement of the two
    parsers. *)
From Coq Require Import List NArith ZArith Bool Arith Lia ZifyBool ZifyNat ZifyN.
From V Require Import Common.Bytes Names.Path Names.Model Names.PathProofs.
Import ListNotations.
Open Scope N_scope.

(** * cutting at the last / first byte of a class *)
Definition none_sat (p : N -> bool) (s : str) : Prop := Forall (fun c => p c = false) s.

Lemma none_sat_app p a b : none_sat p (a ++ b) <-> none_sat p a /\ none_sat p b.
Proof. apply Forall_app. Qed.

Lemma none_sat_eqb c s : ~ In c s <-> none_sat (N.eqb c) s.
Proof.
  unfold none_sat. rewrite Forall_forall. split.
  - intros H x Hx. apply N.eqb_neq. intro E. subst. contradiction.
  - intros H Hin. specialize (H c Hin). rewrite N.eqb_refl in H. discriminate.
Qed.

Lemma cut_last_by_spec p s :
  match cut_last_by p s with
  | Some (b, d, a) => s = b ++ d :: a /\ p d = true /\ none_sat p a
  | None => none_sat p s
  end.
Proof.
  induction s as [|c s IH]; cbn; [constructor|].
  destruct (cut_last_by p s) as [[[b d] a]|].
  - destruct IH as (-> & Hd & Ha). repeat split; assumption.
  - destruct (p c) eqn:E.
    + repeat split; assumption.
    + constructor; assumption.
Qed.

Lemma cut_last_by_none_intro p s : none_sat p s -> cut_last_by p s = None.
Proof. induction 1 as [|c s Hc _ IH]; cbn; [reflexivity|]. rewrite IH, Hc. reflexivity. Qed.

Lemma cut_last_by_app p b d a : p d = true -> none_sat p a -> cut_last_by p (b ++ d :: a) = Some (b, d, a).
Proof.
  intros Hd Ha. induction b as [|c b IH]; cbn.
  - rewrite (cut_last_by_none_intro p a Ha), Hd. reflexivity.
  - rewrite IH. reflexivity.
Qed.

Lemma cut_first_by_spec p s :
  match cut_first_by p s with
  | Some (b, d, a) => s = b ++ d :: a /\ p d = true /\ none_sat p b
  | None => none_sat p s
  end.
Proof.
  induction s as [|c s IH]; cbn; [constructor|].
  destruct (p c) eqn:E.
  - repeat split; [assumption|constructor].
  - destruct (cut_first_by p s) as [[[b d] a]|].
    + destruct IH as (-> & Hd & Hb). repeat split; [assumption|constructor; assumption].
    + constructor; assumption.
Qed.

Lemma cut_first_by_app p b d a : none_sat p b -> p d = true -> cut_first_by p (b ++ d :: a) = Some (b, d, a).
Proof.
  intros Hb Hd. induction Hb as [|c b Hc _ IH]; cbn.
  - rewrite Hd. reflexivity.
  - rewrite Hc, IH. reflexivity.
Qed.

Lemma cut_first_by_none_intro p s : none_sat p s -> cut_first_by p s = None.
Proof. induction 1 as [|c s Hc _ IH]; cbn; [reflexivity|]. rewrite Hc, IH. reflexivity. Qed.

(** cutLast / cutPromised / LastIndex on a string whose last separator is known *)
Lemma cut_last_app c b a : ~ In c a -> cut_last c (b ++ c :: a) = (b, a, true).
Proof.
  intro H. unfold cut_last. rewrite cut_last_by_app; [reflexivity|apply N.eqb_refl|apply none_sat_eqb; assumption].
Qed.

Lemma cut_last_none c s : ~ In c s -> cut_last c s = (s, [], false).
Proof. intro H. unfold cut_last. rewrite cut_last_by_none_intro; [reflexivity|apply none_sat_eqb; assumption]. Qed.

Lemma or_str_nonempty a b : a <> [] -> or_str a b = a.
Proof. destruct a; [congruence|reflexivity]. Qed.

Lemma cut_promised_app c b a : ~ In c a -> b <> [] -> a <> [] -> cut_promised c (b ++ c :: a) = (b, a, true).
Proof.
  intros H Hb Ha. unfold cut_promised. rewrite cut_last_app by assumption.
  rewrite !or_str_nonempty by assumption. reflexivity.
Qed.

Lemma cut_promised_none c s : ~ In c s -> cut_promised c s = (s, [], false).
Proof. intro H. unfold cut_promised. rewrite cut_last_none by assumption. reflexivity. Qed.

Lemma last_index_app c b a : ~ In c a -> last_index c (b ++ c :: a) = Z.of_nat (length b).
Proof.
  intro H. unfold last_index. rewrite cut_last_by_app; [reflexivity|apply N.eqb_refl|apply none_sat_eqb; assumption].
Qed.

Lemma last_index_none c s : ~ In c s -> last_index c s = (-1)%Z.
Proof. intro H. unfold last_index. rewrite cut_last_by_none_intro; [reflexivity|apply none_sat_eqb; assumption]. Qed.

(** * character classes *)
Ltac brk :=
  repeat match goal with
         | |- context [if ?b then _ else _] => destruct b eqn:?
         | H : context [if ?b then _ else _] |- _ => destruct b eqn:?
         end.
Ltac unf :=
  unfold m_char_ok, n_char_ok, ascii_fold_eq, fold_byte, is_alnum_us, is_hex, is_upper, is_lower, is_digit, is_slash_or_colon,
    is_colon_or_dash, pk_eqb, c_us, c_dash, c_dot, c_colon, c_slash, c_at in *.

Lemma high_not_alnum c : 128 <= c -> is_alnum_us c = false.
Proof. intro H. unf. lia. Qed.

Lemma high_not_mchar k c : 128 <= c -> m_char_ok k c = false.
Proof. intro H. unf. brk; try reflexivity; destruct k; cbn in *; lia. Qed.

Lemma high_not_nchar k c : 128 <= c -> n_char_ok k c = false.
Proof. intro H. unf. brk; try reflexivity; destruct k; cbn in *; lia. Qed.

Lemma alnum_mchar k c : is_alnum_us c = true -> m_char_ok k c = true.
Proof. intro H. unf. brk; try reflexivity; try lia. Qed.

Lemma alnum_nchar k c : is_alnum_us c = true -> n_char_ok k c = true.
Proof. intro H. unf. brk; try reflexivity; try lia. Qed.

Lemma mchar_facts k c : m_char_ok k c = true -> c <> c_slash /\ c < 128.
Proof. intro H. unf. brk; destruct k; cbn in *; try discriminate; lia. Qed.

Lemma mchar_nocolon k c : k <> KHost -> k <> KDigest -> m_char_ok k c = true -> c <> c_colon.
Proof. intros H1 H2 H. unf. brk; destruct k; cbn in *; try discriminate; try congruence; lia. Qed.

Lemma alnum_not_dot c : is_alnum_us c = true -> c <> c_dot.
Proof. intro H. unf. lia. Qed.

(** the two packages use the same per-character rule for the four name parts *)
Lemma nchar_mchar k c : k <> KDigest -> n_char_ok k c = m_char_ok k c.
Proof. intro H. unf. brk; destruct k; cbn in *; try reflexivity; congruence. Qed.

(** * the validity loop visits every byte: [for i := range s] decodes runes, but a byte >= 0x80 at a rune start
    fails the test, and every byte that follows ASCII bytes only is a rune start *)
Definition bytes_ok (okc : N -> bool) (s : str) : bool :=
  match s with
  | [] => true
  | c :: r => is_alnum_us c && forallb okc r
  end.

Lemma rune_width_ascii c r : c < 128 -> rune_width (c :: r) = 1%nat.
Proof. intro H. cbn [rune_width]. destruct (c <? 128) eqn:E; [reflexivity|lia]. Qed.

Lemma m_valid_runes_rest fuel k s : (length s < fuel)%nat -> m_valid_runes fuel k false s = forallb (m_char_ok k) s.
Proof.
  revert s; induction fuel as [|f IH]; intros s Hl; [lia|].
  destruct s as [|c r]; [reflexivity|]. cbn [m_valid_runes forallb].
  destruct (N.lt_ge_cases c 128) as [Hc|Hc].
  - rewrite rune_width_ascii by assumption. cbn [skipn]. rewrite IH by (cbn in Hl; lia); try reflexivity.
  - rewrite high_not_mchar by assumption. reflexivity.
Qed.

Lemma m_valid_runes_first fuel k s : (length s < fuel)%nat -> m_valid_runes fuel k true s = bytes_ok (m_char_ok k) s.
Proof.
  intro Hl. destruct fuel as [|f]; [lia|]. destruct s as [|c r]; [reflexivity|]. cbn [m_valid_runes bytes_ok].
  destruct (N.lt_ge_cases c 128) as [Hc|Hc].
  - rewrite rune_width_ascii by assumption. cbn [skipn]. rewrite m_valid_runes_rest by (cbn in Hl; lia); try reflexivity.
  - rewrite high_not_alnum by assumption. reflexivity.
Qed.

Lemma n_valid_runes_rest fuel k s : (length s < fuel)%nat -> n_valid_runes fuel k false s = forallb (n_char_ok k) s.
Proof.
  revert s; induction fuel as [|f IH]; intros s Hl; [lia|].
  destruct s as [|c r]; [reflexivity|]. cbn [n_valid_runes forallb].
  destruct (N.lt_ge_cases c 128) as [Hc|Hc].
  - rewrite rune_width_ascii by assumption. cbn [skipn]. rewrite IH by (cbn in Hl; lia); try reflexivity.
  - rewrite high_not_nchar by assumption. reflexivity.
Qed.

Lemma n_valid_runes_first fuel k s : (length s < fuel)%nat -> n_valid_runes fuel k true s = bytes_ok (n_char_ok k) s.
Proof.
  intro Hl. destruct fuel as [|f]; [lia|]. destruct s as [|c r]; [reflexivity|]. cbn [n_valid_runes bytes_ok].
  destruct (N.lt_ge_cases c 128) as [Hc|Hc].
  - rewrite rune_width_ascii by assumption. cbn [skipn]. rewrite n_valid_runes_rest by (cbn in Hl; lia); try reflexivity.
  - rewrite high_not_alnum by assumption. reflexivity.
Qed.

Definition max_len (k : pk) : nat := match k with KHost => 350 | _ => 80 end.

Lemma m_valid_part_spec k s :
  m_valid_part k s = (1 <=? length s)%nat && (length s <=? max_len k)%nat && bytes_ok (m_char_ok k) s.
Proof.
  unfold m_valid_part. rewrite m_valid_runes_first by lia. f_equal. unfold m_valid_len, max_len. destruct k; reflexivity.
Qed.

Lemma n_valid_part_spec k s : n_valid_part k s = (length s <=? max_len k)%nat && bytes_ok (n_char_ok k) s.
Proof.
  unfold n_valid_part. rewrite n_valid_runes_first by lia. reflexivity.
Qed.

Lemma forallb_ext' {A} (f g : A -> bool) l : (forall x, f x = g x) -> forallb f l = forallb g l.
Proof. intro H. induction l as [|x l IH]; cbn; [reflexivity|]. rewrite H, IH. reflexivity. Qed.

Lemma bytes_ok_ext f g s : (forall c, f c = g c) -> bytes_ok f s = bytes_ok g s.
Proof. intro H. destruct s as [|c r]; [reflexivity|]. cbn. f_equal. apply forallb_ext'. exact H. Qed.

(** for the four name parts, package names accepts a part iff package model does, the empty part aside *)
Lemma n_valid_m_valid k s : k <> KDigest -> m_valid_part k s = nonempty s && n_valid_part k s.
Proof.
  intro Hk. rewrite m_valid_part_spec, n_valid_part_spec.
  rewrite (bytes_ok_ext (n_char_ok k) (m_char_ok k)) by (intro; apply nchar_mchar; assumption).
  destruct s; reflexivity.
Qed.

(** what a valid part looks like *)
Definition part_ok (k : pk) (s : str) : Prop :=
  (1 <= length s <= max_len k)%nat /\
  (exists c r, s = c :: r /\ is_alnum_us c = true) /\
  Forall (fun c => m_char_ok k c = true) s.

Lemma m_valid_part_ok k s : m_valid_part k s = true <-> part_ok k s.
Proof.
  rewrite m_valid_part_spec. unfold part_ok. split.
  - intro H. apply andb_true_iff in H as [H H3]. apply andb_true_iff in H as [H1 H2].
    destruct s as [|c r]; [cbn in H1; discriminate|]. cbn [bytes_ok] in H3. apply andb_true_iff in H3 as [Hc Hr].
    split; [lia|]. split; [exists c, r; split; [reflexivity|assumption]|].
    constructor; [apply alnum_mchar; assumption|]. apply Forall_forall. intros x Hx. eapply forallb_forall in Hr; eassumption.
  - intros (Hl & (c & r & -> & Hc) & Hall). inversion Hall as [|? ? _ Hr]; subst.
    apply andb_true_iff; split; [apply andb_true_iff; split; lia|].
    cbn [bytes_ok]. rewrite Hc. cbn. apply forallb_forall. rewrite Forall_forall in Hr. exact Hr.
Qed.

Lemma part_ok_no_slash k s : part_ok k s -> ~ In c_slash s.
Proof.
  intros (_ & _ & Hall) Hin. rewrite Forall_forall in Hall. apply Hall in Hin. apply mchar_facts in Hin as [H _]. congruence.
Qed.

Lemma part_ok_no_colon k s : k <> KHost -> k <> KDigest -> part_ok k s -> ~ In c_colon s.
Proof.
  intros H1 H2 (_ & _ & Hall) Hin. rewrite Forall_forall in Hall. apply Hall in Hin.
  apply (mchar_nocolon k _ H1 H2) in Hin. congruence.
Qed.

Lemma part_ok_ascii k s : part_ok k s -> Forall (fun c => c < 128) s.
Proof. intros (_ & _ & Hall). eapply Forall_impl; [|exact Hall]. intros c H. apply mchar_facts in H as [_ H]. exact H. Qed.

Lemma part_ok_nonempty k s : part_ok k s -> s <> [].
Proof. intros (_ & (c & r & -> & _) & _). discriminate. Qed.

(** a valid part is a path element that Clean keeps: not empty, not "." or "..", no separator *)
Lemma part_ok_safe k s : part_ok k s -> safe_comp s.
Proof.
  intro H. pose proof (part_ok_no_slash k s H) as Hs. destruct H as (_ & (c & r & -> & Hc) & _).
  apply alnum_not_dot in Hc. unfold safe_comp, s_dot, s_dotdot. repeat split; try discriminate; try assumption.
  - intro E. injection E as E _. unfold c_dot in Hc. congruence.
  - intro E. injection E as E _. unfold c_dot in Hc. congruence.
Qed.

(** * package model: print / parse round trip *)
Definition fq_parts (h n m t : str) : Prop := part_ok KHost h /\ part_ok KNamespace n /\ part_ok KModel m /\ part_ok KTag t.

Lemma m_is_fq_parts h n m t : m_is_fq (MkM h n m t) = true <-> fq_parts h n m t.
Proof.
  unfold m_is_fq, fq_parts. cbn [mH mN mM mT]. rewrite !andb_true_iff, !m_valid_part_ok. tauto.
Qed.

Lemma nonempty_true s : s <> [] -> nonempty s = true.
Proof. destruct s; [congruence|reflexivity]. Qed.

Lemma not_in_app {A} (x : A) a b : ~ In x a -> ~ In x b -> ~ In x (a ++ b).
Proof. intros Ha Hb H. apply in_app_or in H as [H|H]; contradiction. Qed.

Lemma not_in_cons {A} (x y : A) a : x <> y -> ~ In x a -> ~ In x (y :: a).
Proof. intros Hy Ha [H|H]; [congruence|contradiction]. Qed.

(** the printed form of a fully qualified name *)
Definition full_string (h n m t : str) : str := ((h ++ c_slash :: n) ++ c_slash :: m) ++ c_colon :: t.

Lemma m_string_full h n m t : fq_parts h n m t -> m_string (MkM h n m t) = full_string h n m t.
Proof.
  intros (Hh & Hn & Hm & Ht). unfold m_string, full_string. cbn [mH mN mM mT].
  rewrite !nonempty_true by (eapply part_ok_nonempty; eassumption).
  repeat rewrite <- app_assoc. cbn [app]. repeat rewrite <- app_assoc. cbn [app]. reflexivity.
Qed.

Lemma no_scheme_sep h : ~ In c_slash h -> cut_sub s_scheme_sep h = None.
Proof.
  intro H. unfold cut_sub. destruct (index_of h s_scheme_sep) eqn:E; [|reflexivity].
  apply index_of_some in E as (a & b & -> & _). exfalso. apply H.
  apply in_or_app. right. unfold s_scheme_sep. cbn. right. left. reflexivity.
Qed.

Lemma m_parse_bare_full h n m t : fq_parts h n m t -> m_parse_bare (full_string h n m t) = MkM h n m t.
Proof.
  intros (Hh & Hn & Hm & Ht).
  pose proof (part_ok_no_slash _ _ Hh) as Sh. pose proof (part_ok_no_slash _ _ Hn) as Sn.
  pose proof (part_ok_no_slash _ _ Hm) as Sm. pose proof (part_ok_no_slash _ _ Ht) as St.
  assert (Ct : ~ In c_colon t) by (eapply part_ok_no_colon; [| |eassumption]; discriminate).
  pose proof (part_ok_nonempty _ _ Hh) as Nh. pose proof (part_ok_nonempty _ _ Hn) as Nn.
  pose proof (part_ok_nonempty _ _ Hm) as Nm. pose proof (part_ok_nonempty _ _ Ht) as Nt.
  unfold m_parse_bare, full_string.
  rewrite (last_index_app c_colon) by assumption.
  assert (Hls : last_index c_slash (((h ++ c_slash :: n) ++ c_slash :: m) ++ c_colon :: t) = Z.of_nat (length (h ++ c_slash :: n))).
  { rewrite <- app_assoc. cbn [app]. apply last_index_app. apply not_in_app; [assumption|]. apply not_in_cons; [discriminate|assumption]. }
  rewrite Hls.
  assert (Hgt : (Z.of_nat (length ((h ++ c_slash :: n) ++ c_slash :: m)) >? Z.of_nat (length (h ++ c_slash :: n)))%Z = true).
  { rewrite (app_length (h ++ c_slash :: n)). cbn [length]. lia. }
  rewrite Hgt.
  rewrite (cut_promised_app c_colon) by (try assumption; destruct (h ++ c_slash :: n); discriminate).
  rewrite (cut_promised_app c_slash) by (try assumption; destruct h; discriminate).
  cbn [negb]. rewrite (cut_promised_app c_slash) by assumption. cbn [negb].
  rewrite no_scheme_sep by assumption. reflexivity.
Qed.

Lemma m_merge_full h n m t : h <> [] -> n <> [] -> t <> [] -> m_merge (MkM h n m t) m_default = MkM h n m t.
Proof. intros. unfold m_merge. cbn [mH mN mM mT]. rewrite !or_str_nonempty by assumption. reflexivity. Qed.

Lemma m_roundtrip n : m_is_fq n = true -> m_parse (m_string n) = n.
Proof.
  destruct n as [h ns m t]. intro H. apply m_is_fq_parts in H.
  rewrite m_string_full by assumption. unfold m_parse. rewrite m_parse_bare_full by assumption.
  destruct H as (Hh & Hn & _ & Ht). apply m_merge_full; eapply part_ok_nonempty; eassumption.
Qed.

(** * package names: print / parse round trip *)
Definition nosep (s : str) : Prop := none_sat is_slash_or_colon s.

Lemma nosep_intro s : ~ In c_slash s -> ~ In c_colon s -> nosep s.
Proof.
  intros H1 H2. unfold nosep, none_sat. apply Forall_forall. intros c Hc. unf.
  assert (c <> 47) by (intro; subst; contradiction). assert (c <> 58) by (intro; subst; contradiction). lia.
Qed.

Lemma part_ok_nosep k s : k <> KHost -> k <> KDigest -> part_ok k s -> nosep s.
Proof. intros H1 H2 H. apply nosep_intro; [eapply part_ok_no_slash|eapply part_ok_no_colon]; eassumption. Qed.

Lemma cut_last_any_app p b d a : p d = true -> none_sat p a -> cut_last_any p (b ++ d :: a) = (b, a, d).
Proof. intros Hd Ha. unfold cut_last_any. rewrite cut_last_by_app by assumption. reflexivity. Qed.

Lemma cut_last_any_none p s : none_sat p s -> cut_last_any p s = ([], s, 0).
Proof. intro H. unfold cut_last_any. rewrite cut_last_by_none_intro by assumption. reflexivity. Qed.

Lemma loop_colon f b a acc :
  nosep a -> n_parse_loop (S f) (b ++ c_colon :: a) acc = n_parse_loop f b (MkN (nH acc) (nN acc) (nM acc) a).
Proof. intro H. cbn [n_parse_loop]. rewrite cut_last_any_app by (try assumption; reflexivity). reflexivity. Qed.

Lemma loop_slash f b a acc :
  nosep a ->
  n_parse_loop (S f) (b ++ c_slash :: a) acc =
  let '(h, ns, _) := cut_last_any (N.eqb c_slash) b in Some (MkN h ns a (nT acc)).
Proof. intro H. cbn [n_parse_loop]. rewrite cut_last_any_app by (try assumption; reflexivity). reflexivity. Qed.

Lemma loop_plain f s acc : nosep s -> n_parse_loop (S f) s acc = Some (MkN (nH acc) (nN acc) s (nT acc)).
Proof. intro H. cbn [n_parse_loop]. rewrite cut_last_any_none by assumption. reflexivity. Qed.

(** the loop of names.Parse always terminates within its fuel *)
Lemma n_parse_loop_total f s acc : (length s < f)%nat -> n_parse_loop f s acc <> None.
Proof.
  revert s acc; induction f as [|f IH]; intros s acc Hl; [lia|].
  cbn [n_parse_loop]. unfold cut_last_any.
  pose proof (cut_last_by_spec is_slash_or_colon s) as Hs.
  destruct (cut_last_by is_slash_or_colon s) as [[[b d] a]|].
  - destruct Hs as (-> & Hd & _). destruct (d =? c_colon).
    + apply IH. rewrite app_length in Hl. cbn in Hl. lia.
    + destruct (d =? c_slash); [destruct (cut_last_by (N.eqb c_slash) b) as [[[? ?] ?]|]|]; discriminate.
  - cbn. discriminate.
Qed.

(** validity in package names (after the repair), part by part *)
Definition n_parts_ok (h ns m t : str) : Prop :=
  (h = [] \/ part_ok KHost h) /\ (ns = [] \/ part_ok KNamespace ns) /\ (t = [] \/ part_ok KTag t) /\
  part_ok KModel m /\ (h <> [] -> ns <> []).

Lemma opt_part_ok k s : k <> KDigest -> (negb (nonempty s) || n_valid_part k s = true <-> s = [] \/ part_ok k s).
Proof.
  intro Hk. rewrite <- m_valid_part_ok, (n_valid_m_valid k s Hk). destruct s as [|c r]; cbn.
  - split; [left; reflexivity|reflexivity].
  - split; [intro H; right; exact H|intros [H|H]; [discriminate|exact H]].
Qed.

Lemma n_is_valid_parts h ns m t : n_is_valid (MkN h ns m t) = true <-> n_parts_ok h ns m t.
Proof.
  unfold n_is_valid, n_parts_ok. cbn [nH nN nM nT]. rewrite !andb_true_iff.
  rewrite !opt_part_ok by discriminate.
  rewrite <- (m_valid_part_ok KModel m), (n_valid_m_valid KModel m) by discriminate.
  assert (Hx : negb (nonempty h && negb (nonempty ns)) = true <-> (h <> [] -> ns <> [])).
  { destruct h, ns; cbn; split; intros; try congruence; try discriminate. exfalso. apply H; [discriminate|reflexivity]. }
  rewrite Hx, andb_true_iff. tauto.
Qed.

(** the part of the printed name before the tag *)
Definition front_string (h ns m : str) : str :=
  (if nonempty h then h ++ [c_slash] else []) ++ (if nonempty ns then ns ++ [c_slash] else []) ++ m.

Lemma n_string_front h ns m t :
  n_string (MkN h ns m t) = front_string h ns m ++ (if nonempty t then c_colon :: t else []).
Proof. unfold n_string, front_string. cbn [nH nN nM nT]. rewrite <- !app_assoc. reflexivity. Qed.

Lemma loop_front f h ns m am at_ :
  (h = [] \/ part_ok KHost h) -> (ns = [] \/ part_ok KNamespace ns) -> part_ok KModel m -> (h <> [] -> ns <> []) ->
  n_parse_loop (S f) (front_string h ns m) (MkN [] [] am at_) = Some (MkN h ns m at_).
Proof.
  intros Hh Hn Hm Hhn. unfold front_string.
  assert (Sm : nosep m) by (eapply part_ok_nosep; [| |eassumption]; discriminate).
  destruct Hn as [->|Hn].
  - destruct h as [|c r]; [|exfalso; apply Hhn; [discriminate|reflexivity]].
    cbn [nonempty app]. apply loop_plain. assumption.
  - rewrite (nonempty_true ns) by (eapply part_ok_nonempty; eassumption).
    pose proof (part_ok_no_slash _ _ Hn) as Sn.
    destruct Hh as [->|Hh].
    + cbn [nonempty app]. rewrite <- app_assoc. cbn [app]. rewrite loop_slash by assumption.
      rewrite cut_last_any_none by (apply none_sat_eqb; assumption). reflexivity.
    + rewrite (nonempty_true h) by (eapply part_ok_nonempty; eassumption).
      replace ((h ++ [c_slash]) ++ (ns ++ [c_slash]) ++ m) with ((h ++ c_slash :: ns) ++ c_slash :: m)
        by (repeat rewrite <- app_assoc; cbn [app]; repeat rewrite <- app_assoc; reflexivity).
      rewrite loop_slash by assumption.
      rewrite cut_last_any_app by (try apply N.eqb_refl; apply none_sat_eqb; assumption). reflexivity.
Qed.

Lemma opt_len k s : (s = [] \/ part_ok k s) -> (length s <= max_len k)%nat.
Proof. intros [->|(H & _)]; [cbn; lia|lia]. Qed.

Lemma front_string_len h ns m : (length (front_string h ns m) <= length h + length ns + length m + 2)%nat.
Proof.
  unfold front_string. rewrite !app_length. destruct (nonempty h), (nonempty ns); rewrite ?app_length; cbn [length]; lia.
Qed.

Lemma n_roundtrip n : n_is_valid n = true -> n_parse (n_string n) = n.
Proof.
  destruct n as [h ns m t]. intro H. apply n_is_valid_parts in H as (Hh & Hn & Ht & Hm & Hhn).
  pose proof (opt_len _ _ Hh) as Lh. pose proof (opt_len _ _ Hn) as Ln. pose proof (opt_len _ _ Ht) as Lt.
  assert (Lm : (length m <= 80)%nat) by (destruct Hm as (Hm & _); cbn in Hm; lia).
  cbn [max_len] in Lh, Ln, Lt. pose proof (front_string_len h ns m) as Lf.
  unfold n_parse. rewrite n_string_front.
  destruct Ht as [->|Ht].
  - cbn [nonempty]. rewrite app_nil_r.
    assert (Hlen : (max_name_length <? length (front_string h ns m))%nat = false) by (unfold max_name_length; lia).
    rewrite Hlen. unfold n_empty. rewrite loop_front by assumption. reflexivity.
  - rewrite (nonempty_true t) by (eapply part_ok_nonempty; eassumption).
    assert (Lt' : (length t <= 80)%nat) by lia.
    assert (Hlen : (max_name_length <? length (front_string h ns m ++ c_colon :: t))%nat = false).
    { rewrite app_length. cbn [length]. unfold max_name_length. lia. }
    rewrite Hlen.
    assert (St : nosep t) by (eapply part_ok_nosep; [| |eassumption]; discriminate).
    rewrite loop_colon by assumption.
    rewrite app_length. cbn [length]. rewrite Nat.add_succ_r. unfold n_empty. cbn [nH nN nM].
    rewrite loop_front by assumption. reflexivity.
Qed.

(** the round trip fails on the unchanged tree exactly for a host without a namespace *)
Lemma n_roundtrip_unrepaired_witness :
  let n := n_parse [104; 47; 47; 109] in    (* "h//m" *)
  n_is_valid_unrepaired n = true /\ n_parse (n_string n) <> n.
Proof. vm_compute. split; [reflexivity|discriminate]. Qed.

Lemma n_is_valid_repair n : n_is_valid n = negb (nonempty (nH n) && negb (nonempty (nN n))) && n_is_valid_unrepaired n.
Proof. unfold n_is_valid, n_is_valid_unrepaired. rewrite !andb_assoc. reflexivity. Qed.

(** * the two parsers agree on fully qualified names *)
Lemma fq_same h n m t : m_is_fq (MkM h n m t) = n_is_fq (MkN h n m t).
Proof.
  unfold m_is_fq, n_is_fq, n_is_valid. cbn [mH mN mM mT nH nN nM nT].
  rewrite !(n_valid_m_valid) by discriminate.
  destruct h, n, m, t; cbn [nonempty negb andb orb];
    repeat match goal with |- context [n_valid_part ?k ?s] => destruct (n_valid_part k s) end; reflexivity.
Qed.

Lemma n_is_fq_valid n : n_is_fq n = true -> n_is_valid n = true.
Proof. unfold n_is_fq. rewrite !andb_true_iff. tauto. Qed.

Lemma mn_string_same h n m t : m_string (MkM h n m t) = n_string (MkN h n m t).
Proof. reflexivity. Qed.

(** model -> names *)
Lemma cross_m_to_n h n m t :
  m_is_fq (MkM h n m t) = true -> n_parse (m_string (MkM h n m t)) = MkN h n m t /\ n_is_fq (MkN h n m t) = true.
Proof.
  intro H. rewrite fq_same in H. split; [|exact H]. rewrite mn_string_same. apply n_roundtrip, n_is_fq_valid, H.
Qed.

(** names -> model *)
Lemma cross_n_to_m h n m t :
  n_is_fq (MkN h n m t) = true -> m_parse (n_string (MkN h n m t)) = MkM h n m t /\ m_is_fq (MkM h n m t) = true.
Proof.
  intro H. rewrite <- fq_same in H. split; [|exact H]. rewrite <- mn_string_same. apply m_roundtrip, H.
Qed.
