(* Sched/InvQueue.v - admission to the pending queue.  A request enters the queue in one atomic step (the select with
   default in GetRunner; the re-queue send of the reschedule goroutine waits for room), so in every reachable state
   the queue holds at most OLLAMA_MAX_QUEUE requests, whatever the number of concurrent submitters.  (Any configuration.) *)
From Coq Require Import List ZArith NArith Bool Lia Arith.
From V Require Import Sched.Lts Sched.Tac Sched.Reach.
Import ListNotations.

Lemma queue_bound_step c s l s' e :
  length (pendq s) <= c_maxq c -> step c s l = Some (s', e) -> length (pendq s') <= c_maxq c.
Proof.
  intros B H. destruct l as [sp|q0|m|d|t alt].
  - step_cases H; simpl; rewrite ?app_length; simpl; auto.
    match goal with E : Nat.ltb _ _ = true |- _ => apply Nat.ltb_lt in E; lia end.
  - step_cases H; simpl; auto.
  - step_cases H; simpl; auto.
  - step_cases H. rewrite tick_pendq. auto.
  - unfold step in H. destruct (nth_error (thr s) t) as [p|] eqn:Ep; try discriminate.
    destruct p; step_cases H; simpl; rewrite ?app_length; simpl; auto;
    repeat match goal with
    | E : _ && _ = true |- _ => apply andb_prop in E; destruct E
    | E : Nat.ltb _ _ = true |- _ => apply Nat.ltb_lt in E
    | E : pendq _ = _ :: _ |- _ => rewrite E in B; simpl in B
    end; simpl in *; try lia.
Qed.

Theorem queue_bound c s ev : Reach c s ev -> length (pendq s) <= c_maxq c.
Proof.
  revert s ev. apply Reach_ind_inv.
  - intros m. simpl. lia.
  - intros; eapply queue_bound_step; eauto.
Qed.
