(* Sched/ThmFit.v - fit before start.  newServerFn is called by exactly one rule (PNs, the only rule that emits ENew).
   The pending loop arrives at that rule only from a state in which nothing is registered, or through an alternative
   in which the placement oracle - the abstraction of pickBestFullFitByLibrary / PredictServerFit on the free memory
   left by updateFreeSpace - answered "fits".  No goroutine is ever created at that program counter. *)
From Coq Require Import List ZArith NArith Bool Lia Arith.
From V Require Import Sched.Lts Sched.Tac Sched.Reach Sched.InvStruct.
Import ListNotations.

(* the alternative taken by the pending loop at program counter p is "the oracle answered fits" (or nothing is loaded) *)
Definition fit_answer (s : state) (p : pc) (alt : Z) : Prop :=
  match p with
  | PLk q => loaded s = [] \/
             (alt = 0%Z /\ exists x, getq s q = Some x /\ k_ngpu (sp_key (q_spec x)) = 0%Z)   (* CPU request: system memory *)
  | PUfs q ld => alt = 0%Z                        (* loaded became empty since the lookup; oracle alternative 0 = fits *)
  | PUfsR q ld rest => (alt / 4 = 0)%Z            (* last runner visited by updateFreeSpace, decision 0 = fits *)
  | _ => False
  end.

Lemma nth_upd_some {A} (l : list A) i x z : nth_error (upd l i x) i = Some z -> z = x.
Proof. intros H. destruct (nth_error_upd _ _ _ _ _ H) as [(_ & E & _)|[N _]]; [auto|congruence]. Qed.

Lemma fit_before_start_pc c s t p alt s' ev q :
  nth_error (thr s) t = Some p -> p <> TEntry (PNs q) -> run_pc c s t p alt = Some (s', ev) ->
  nth_error (thr s') t = Some (PNs q) -> fit_answer s p alt.
Proof.
  intros Ht Hp H H1.
  assert (Lt : t < length (thr s)) by (apply nth_error_Some; congruence).
  destruct p;
  unfold run_pc, guard, decide, do_reply in H; break_all H; try (inv H);
  simpl in H1; unfold goto, spawn, setr, setq in H1; simpl in H1;
  try (rewrite nth_error_app1 in H1 by (rewrite ?upd_length; simpl; rewrite ?upd_length; exact Lt));
  try (apply nth_upd_some in H1; try discriminate H1);
  try congruence.
  all: simpl; auto.
  all: try (left; destruct (loaded s); [reflexivity|discriminate]).
  all: try (right; split; [apply Z.eqb_eq; assumption|eexists; split; [eassumption|apply Z.eqb_eq; assumption]]).
  all: try (apply Z.eqb_eq; assumption).
Qed.

(* goroutines are created only at program counters outside the pending loop (the pending loop itself starts at PSel) *)
Definition ent_ok (p : pc) : Prop :=
  match p with
  | TEntry PSel | TEntry CSel | TEntry (LWWait _ _) | TEntry (FWDone _) | TEntry (TMLk _)
  | TEntry (RTSleep _ _) | TEntry (RSSleep _ _) | TEntry (AXLm _) => True
  | TEntry _ => False
  | _ => True
  end.
Definition I_ent (s : state) : Prop := Forall ent_ok (thr s).

Lemma wake_ent_ok t' p : ent_ok p -> ent_ok (wake t' p).
Proof. destruct p; simpl; auto; destruct (Z.leb _ t'); simpl; auto. Qed.

Lemma I_ent_step c s l s' e : I_ent s -> step c s l = Some (s', e) -> I_ent s'.
Proof.
  unfold I_ent. intros I H.
  destruct l as [sp|q0|m|d|t alt].
  - step_cases H; simpl; auto.
  - step_cases H; simpl; auto.
  - step_cases H; simpl. apply Forall_snoc; simpl; auto.
  - step_cases H. rewrite tick_thr. apply Forall_app. split.
    + rewrite Forall_forall in *. intros p Hin. apply in_map_iff in Hin. destruct Hin as (p0 & <- & Hin). apply wake_ent_ok; auto.
    + rewrite Forall_forall. intros p Hin. apply fire_pcs_In in Hin. destruct Hin as (r & ->). simpl. auto.
  - unfold step in H. destruct (nth_error (thr s) t) as [p|] eqn:Ep; try discriminate.
    pose proof (Forall_nth_error _ _ _ _ I Ep) as Ip.
    destruct p; step_cases H; simpl;
    repeat first [apply Forall_upd | apply Forall_snoc]; simpl in *; auto; try congruence; try tauto.
Qed.

Lemma I_ent_Reach c s ev : Reach c s ev -> I_ent s.
Proof.
  revert s ev. apply Reach_ind_inv.
  - intros m. repeat constructor.
  - intros; eapply I_ent_step; eauto.
Qed.

(* In a reachable state: a step of thread t after which t stands at the newServer call for request q took a "fits" alternative / found nothing registered. *)
Theorem fit_before_start c s ev0 t alt s' ev q p :
  Reach c s ev0 -> nth_error (thr s) t = Some p -> step c s (LRun t alt) = Some (s', ev) ->
  nth_error (thr s') t = Some (PNs q) -> fit_answer s p alt.
Proof.
  intros R Ht H H1. pose proof (Forall_nth_error _ _ _ _ (I_ent_Reach _ _ _ R) Ht) as Ie.
  unfold step in H. rewrite Ht in H. eapply fit_before_start_pc; eauto.
  intros ->. simpl in Ie. exact Ie.
Qed.

(* and the rule at PNs is the only one that starts a server *)
Lemma new_only_at_PNs c s t p alt s' ev m res :
  run_pc c s t p alt = Some (s', ev) -> In (ENew m res) ev -> exists q, p = PNs q.
Proof.
  intros H Hin. destruct p; try (eexists; reflexivity); exfalso;
  unfold run_pc, guard, decide, do_reply in H; break_all H; try (inv H); simpl in Hin;
  repeat (destruct Hin as [Hin|Hin]; [discriminate Hin|]); try exact Hin.
Qed.
