(* Sched/Drain.v - the drain clause of C02 for the repaired scheduler: once the scheduler is idle (both loops waiting
   with empty queues, every helper goroutine finished), every request that holds a runner has finished and no
   keep-alive timer is pending, then nothing is registered as loaded, every runner that was started has been shut
   down, and every request that was not cancelled has exactly one reply. *)
From Coq Require Import List ZArith NArith Bool Lia Arith.
From V Require Import Sched.Lts Sched.Tac Sched.Reach Sched.InvOwn Sched.InvLock Sched.InvStruct Sched.InvRef Sched.InvProg.
Import ListNotations.

Definition idle_pc (s : state) (p : pc) : Prop :=
  p = PSel \/ p = CSel \/ p = TDone \/ exists q, p = FWDone q /\ qcanc s q = false.

Definition idle (s : state) : Prop :=
  Forall (idle_pc s) (thr s) /\ pendq s = [] /\ finq s = [] /\ expq s = [].

Definition settled (s : state) : Prop :=
  (forall q x, getq s q = Some x -> q_grant x <> None -> q_cancelled x = true) /\
  (forall r x, getr s r = Some x -> r_closed x = false -> r_tm x = TNone).

(* a slightly larger class of configurations, used for the analysis of quiescent states: the pending loop may also
   wait for an unloaded event, a re-queue goroutine may wait for room in the pending queue *)
Definition calm_pc (s : state) (p : pc) : Prop :=
  p = PSel \/ p = CSel \/ p = TDone \/ (exists q, p = FWDone q /\ qcanc s q = false) \/
  (exists q r, p = PWait q r) \/ (exists q, p = RSSend q).

Lemma idle_calm s p : idle_pc s p -> calm_pc s p.
Proof. unfold idle_pc, calm_pc. intuition. Qed.

Lemma calm_cnt_zero s (f : pc -> nat) :
  Forall (calm_pc s) (thr s) -> f PSel = 0 -> f CSel = 0 -> f TDone = 0 -> (forall q, f (FWDone q) = 0) ->
  (forall q r, f (PWait q r) = 0) -> (forall q, f (RSSend q) = 0) -> cnt f (thr s) = 0.
Proof.
  intros F A B C D E G. apply cnt_zero. intros p Hin. rewrite Forall_forall in F.
  destruct (F p Hin) as [->|[->|[->|[(q & -> & _)|[(q & r & ->)|(q & ->)]]]]]; auto.
Qed.

Lemma calm_tok_zero s q : Forall (calm_pc s) (thr s) -> qcanc s q = true -> cnt (tokf q) (thr s) = 0.
Proof.
  intros F Cq. apply cnt_zero. intros p Hin. rewrite Forall_forall in F.
  destruct (F p Hin) as [->|[->|[->|[(q' & -> & Cn)|[(q' & r & ->)|(q' & ->)]]]]]; auto. simpl. unfold eqn.
  destruct (Nat.eqb q' q) eqn:Q; auto. apply Nat.eqb_eq in Q. subst. congruence.
Qed.

(* in a calm, settled configuration with empty finished / expired queues no runner is running *)
Lemma calm_nolive c s ev :
  fixed c -> Reach c s ev -> Forall (calm_pc s) (thr s) -> finq s = [] -> expq s = [] -> settled s ->
  forall r, rclosed s r = false -> False.
Proof.
  intros Hf R F Fq Eq (Sg & St) r Hc.
  pose proof (L3_Reach _ _ _ Hf R) as I3. pose proof (I_id_Reach _ _ _ Hf R) as ID.
  assert (Fr : cnt (freshr r) (thr s) = 0) by (apply calm_cnt_zero; auto).
  pose proof (ID r Hc Fr) as Rs. unfold reason in Rs. rewrite Eq in Rs. unfold occ in Rs. simpl in Rs.
  assert (Ex : cnt (expf r) (thr s) = 0) by (apply calm_cnt_zero; auto). rewrite Ex in Rs.
  destruct (rclosed_false _ _ Hc) as (x & Er & Cx).
  unfold getd, getr in *. rewrite Er in Rs. unfold ra, armedn in Rs. rewrite (St _ _ Er Cx) in Rs.
  unfold refn1 in Rs. destruct (N.eqb (r_ref x) 0) eqn:Z; [lia|]. apply N.eqb_neq in Z.
  pose proof (l3_ref s I3 r) as Rf. unfold rref in Rf. rewrite (getf_some _ _ _ _ _ Er) in Rf.
  assert (In0 : infl s r = 0) by (unfold infl; apply calm_cnt_zero; auto). rewrite In0 in Rf.
  assert (Us : 1 <= users s r) by lia.
  unfold users in Us. destruct (cnt_pos_In (usef r) (reqs s) ltac:(lia)) as (y & Hin & Hy).
  apply In_nth_error in Hin. destruct Hin as [q Eqy].
  unfold usef in Hy. destruct (q_grant y) as [r'|] eqn:G; [|lia]. destruct (q_fin y) eqn:Fy; [lia|].
  assert (Cy : q_cancelled y = true) by (apply (Sg q y Eqy); congruence).
  assert (Cq : qcanc s q = true) by (unfold qcanc; rewrite (getf_some _ _ _ _ _ Eqy); auto).
  pose proof (l3_tok s I3 q) as T. rewrite Fq in T. unfold occ in T. simpl in T.
  rewrite (calm_tok_zero s q F Cq) in T.
  assert (Lw : cnt (lwokf q) (thr s) = 0) by (apply calm_cnt_zero; auto). rewrite Lw in T.
  unfold getd, finn, grantedn in T. unfold getq in Eqy. rewrite Eqy in T. rewrite G, Fy in T. lia.
Qed.

Lemma idle_cnt_zero s (f : pc -> nat) :
  Forall (idle_pc s) (thr s) -> f PSel = 0 -> f CSel = 0 -> f TDone = 0 -> (forall q, f (FWDone q) = 0) -> cnt f (thr s) = 0.
Proof.
  intros F A B C D. apply cnt_zero. intros p Hin. rewrite Forall_forall in F.
  destruct (F p Hin) as [->|[->|[->|(q & -> & _)]]]; auto.
Qed.

Theorem drained c s ev :
  fixed c -> Reach c s ev -> idle s -> settled s ->
  loaded s = [] /\
  (forall r x, getr s r = Some x -> r_closed x = true) /\
  (forall q x, getq s q = Some x -> q_cancelled x = false -> length (q_replies x) = 1).
Proof.
  intros Hf R (F & Pq & Fq & Eq) (Sg & St).
  pose proof (L2_Reach _ _ _ Hf R) as I2. pose proof (L3_Reach _ _ _ Hf R) as I3.
  pose proof (I_id_Reach _ _ _ Hf R) as ID. pose proof (I_own_Reach _ _ _ R) as IW. pose proof (I_ow_Reach _ _ _ R) as OW.
  assert (NoLive : forall r, rclosed s r = false -> False).
  { eapply calm_nolive; eauto.
    - rewrite Forall_forall in *. intros p Hin. apply idle_calm. auto.
    - split; auto. }
  split; [|split].
  - destruct (loaded s) as [|[m r] tl] eqn:L; auto. exfalso.
    assert (Lk : lookup (loaded s) m = Some r) by (rewrite L; simpl; rewrite Nat.eqb_refl; auto).
    destruct (l2_loaded s I2 _ _ Lk) as [_ K]. eauto.
  - intros r x Er. destruct (r_closed x) eqn:Cx; auto. exfalso. apply (NoLive r). rewrite (rclosed_get _ _ _ Er). auto.
  - intros q x Eqx Cx.
    assert (Hq : q < length (reqs s)) by (apply nth_error_Some; unfold getq in Eqx; congruence).
    assert (Cq : qcanc s q = false) by (unfold qcanc; unfold getq in Eqx; rewrite (getf_some _ _ _ _ _ Eqx); auto).
    pose proof (OW q Hq Cq) as O1. pose proof (IW q) as O2. apply Nat.ltb_lt in Hq. rewrite Hq in O2.
    unfold owned in *. rewrite Pq in *. unfold occ in *. simpl in *.
    assert (Ow : cnt (ownf q) (thr s) = 0) by (apply idle_cnt_zero; auto).
    rewrite Ow in *. unfold nrep, getd in *. unfold getq in Eqx. rewrite Eqx in *. lia.
Qed.
