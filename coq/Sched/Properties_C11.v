(* C11 - loaded-runner limit, one runner per model, reuse when compatible.   Theorems only. *)
From Coq Require Import List ZArith NArith Bool Lia Arith.
From V Require Import Sched.Lts Sched.Reach Sched.InvLock Sched.InvStruct Sched.InvCount Sched.Thm Sched.ThmVictim Sched.ThmFit Sched.EnvCfg Sched.Refute Sched.Examples.
Import ListNotations.

(* Reuse: when the pending loop looks up a request's model and finds a runner, it goes on to needsReload for that
   runner and no server is started in that step; when needsReload finds the runner loaded (its load completed), with compatible options,
   it pings it; when the ping succeeds it goes on to useLoadedRunner.  (Any state, any configuration.) *)
Theorem C11_reuse_lookup :
  forall c s t q x r, getq s q = Some x -> lmu s = None -> lookup (loaded s) (q_model x) = Some r ->
  run_pc c s t (PLk q) 0%Z = Some (goto s t (PNr q r), []).
Proof. intros c s t q x r Hq Hl Hr. unfold run_pc, guard. rewrite Hl, Hq, Hr. reflexivity. Qed.
Print Assumptions C11_reuse_lookup.

Theorem C11_reuse_compatible :
  forall c s t q r x y, getr s r = Some x -> getq s q = Some y -> r_mu x = None ->
  r_closed x = false -> r_loading x = false -> compat (r_key x) (sp_key (q_spec y)) = true ->
  run_pc c s t (PNr q r) 0%Z = Some (goto (setr s r (r_set_mu x (Some t))) t (PPing q r), []) /\
  forall s1 x1, getr s1 r = Some x1 ->
    run_pc c s1 t (PPing q r) 0%Z = Some (goto (setr s1 r (r_set_mu x1 None)) t (PUse q r), [EPing r true]).
Proof.
  intros c s t q r x y Hr Hq Hm Hc Hl Hk. split.
  - unfold run_pc, guard, reusable. rewrite Hr, Hq, Hm, Hc, Hl, Hk. reflexivity.
  - intros s1 x1 H1. unfold run_pc. rewrite H1. reflexivity.
Qed.
Print Assumptions C11_reuse_compatible.

(* Repaired scheduler, at least one GPU (or the CPU entry) in the inventory.  In every reachable state the number of
   runners that have been started and not shut down is at most the maximum - the configured OLLAMA_MAX_LOADED_MODELS
   or, when that was unset, the value the scheduler assigned itself on its first placement - and nothing is running
   as long as no maximum is known. *)
Theorem C11_bound :
  forall c m ls s ev, fixed c -> 1 <= c_ngpus c -> run c (init_m m) ls = Some (s, ev) ->
  (0 < maxr s -> nlive s <= maxr s) /\ (maxr s = 0 -> nlive s = 0).
Proof. intros c m ls s ev Hf Hg H. eapply bound; eauto. eapply run_Reach; eauto. Qed.
Print Assumptions C11_bound.

(* Repaired scheduler: two runners that are both running (started, not shut down) serve different models. *)
Theorem C11_one_per_model :
  forall c m ls s ev r1 r2 x1 x2, fixed c -> run c (init_m m) ls = Some (s, ev) ->
  getr s r1 = Some x1 -> getr s r2 = Some x2 -> r_closed x1 = false -> r_closed x2 = false ->
  r_model x1 = r_model x2 -> r1 = r2.
Proof. intros c m ls s ev r1 r2 x1 x2 Hf H. eapply one_per_model; eauto. eapply run_Reach; eauto. Qed.
Print Assumptions C11_one_per_model.

(* Repaired scheduler: a server is started (newServerFn is called) only for a model for which no runner is
   registered at that moment; together with C11_reuse_* : a request whose model has a compatible, responsive runner
   is served by that runner and no server is started for it. *)
Theorem C11_new_only_when_absent :
  forall c m ls s ev l s' e mo res, fixed c -> run c (init_m m) ls = Some (s, ev) ->
  step c s l = Some (s', e) -> In (ENew mo res) e -> lookup (loaded s) mo = None.
Proof.
  intros c m ls s ev l s' e mo res Hf H Hs Hin. eapply step_new_absent; eauto. eapply L2_Reach; eauto. eapply run_Reach; eauto.
Qed.
Print Assumptions C11_new_only_when_absent.

(* Fit before start (any configuration).  newServerFn is called by one rule only, the one at program counter PNs;
   in every reachable state a step after which a thread stands at PNs was taken by the pending loop either with
   nothing registered in [loaded], or through the alternative in which the placement oracle (the model's
   abstraction of pickBestFullFitByLibrary / PredictServerFit on the free memory left by updateFreeSpace) answered
   "fits" - [fit_answer], Sched/ThmFit.v.  What the oracle stands for is tied to the code by the `no-fit-start`
   monitor (independent llm.EstimateGPULayers computation at every newServerFn call), not by this theorem. *)
Theorem C11_fit_before_start :
  forall c m ls s ev0 t alt s' ev q p, run c (init_m m) ls = Some (s, ev0) ->
  nth_error (thr s) t = Some p -> step c s (LRun t alt) = Some (s', ev) ->
  nth_error (thr s') t = Some (PNs q) -> fit_answer s p alt.
Proof. intros c m ls s ev0 t alt s' ev q p H. eapply fit_before_start. eapply run_Reach; eauto. Qed.
Print Assumptions C11_fit_before_start.

Theorem C11_new_only_at_newserver_rule :
  forall c s t p alt s' ev m res, run_pc c s t p alt = Some (s', ev) -> In (ENew m res) ev -> exists q, p = PNs q.
Proof. intros. eapply new_only_at_PNs; eauto. Qed.
Print Assumptions C11_new_only_at_newserver_rule.

Example C11_nonvacuous :
  fixed cfg_on /\ 1 <= c_ngpus cfg_on /\
  exists s ev, run cfg_on (init_m 1) (firstn 10 ex_load_unload) = Some (s, ev) /\ nlive s = 1 /\ maxr s = 1 /\ In (ENew 0 (Some 0)) ev.
Proof. split. reflexivity. split. simpl; auto. vm_compute. eexists; eexists; repeat split; try reflexivity. simpl. tauto. Qed.

(* Over all configurations (including the scheduler as found) the bound and the one-runner-per-model clause are
   false: a stale expired event removes a NEW runner from [loaded] (Sched/Refute.v, replayed from corpus/C11). *)
Definition C11_bound_full : Prop := bound_full.
Theorem C11_bound_refuted : ~ C11_bound_full.
Proof. exact bound_refuted. Qed.
Print Assumptions C11_bound_refuted.

Definition C11_one_per_model_full : Prop := one_per_model_full.
Theorem C11_one_per_model_refuted : ~ C11_one_per_model_full.
Proof. exact one_per_model_refuted. Qed.
Print Assumptions C11_one_per_model_refuted.

(* Making room (findRunnerToUnload): the candidates are the registered runners in non-decreasing (keep-alive,
   model path) order; the first candidate found idle (refCount 0, read under its refMu) is the victim; when every
   candidate is busy the victim is the first of that order.  (Any state, any configuration.) *)
Theorem C11_victim_order :
  forall s l, Sorted.LocallySorted (vle s) (vsort s l) /\ Permutation.Permutation (vsort s l) l.
Proof. intros s l. split. apply vsort_sorted. apply vsort_perm. Qed.
Print Assumptions C11_victim_order.

Theorem C11_idle_victim_first :
  forall c s t q r tl first x, getr s r = Some x -> r_mu x = None ->
  (r_ref x = 0%N -> run_pc c s t (PFvR q (r :: tl) first) 0%Z = Some (goto s t (PExp q r), [])) /\
  (r_ref x <> 0%N -> run_pc c s t (PFvR q (r :: tl) first) 0%Z =
                      Some (goto s t (match tl with [] => PExp q first | _ => PFvR q tl first end), [])).
Proof. intros c s t q r tl first x E M. split; intros R. eapply victim_idle; eauto. eapply victim_busy; eauto. Qed.
Print Assumptions C11_idle_victim_first.

(* The configured limits are what the environment says (Sched/EnvCfg.v: strip white space, strip quotes, parse, else
   the default): a limit spelled with padding and quotes around the digits - as env files and container runtimes pass
   it - means the same as the plain number.  The real envconfig readers are compared with this model on generated
   spellings by the environment stage of the harness; a share of the scheduler runs spell their limits that way. *)
Theorem C11_limit_spelling :
  forall def ws1 q1 d q2 ws2,
  forallb is_space ws1 = true -> forallb is_space ws2 = true ->
  forallb is_quote q1 = true -> forallb is_quote q2 = true -> forallb is_digit d = true ->
  read_uint def (ws1 ++ q1 ++ d ++ q2 ++ ws2) = read_uint def d.
Proof. exact read_uint_spelling. Qed.
Print Assumptions C11_limit_spelling.
