(* C11 - loaded-runner limit, one runner per model, reuse when compatible.   Theorems only. *)
From Coq Require Import List ZArith NArith Bool Lia Arith.
From V Require Import Sched.Lts Sched.Reach Sched.Examples.
Import ListNotations.

(* Reuse: when the pending loop looks up a request's model and finds a runner, it goes on to needsReload for that
   runner and no server is started in that step; when needsReload finds the runner loaded, with compatible options,
   it pings it; when the ping succeeds it goes on to useLoadedRunner.  (Any state, any configuration.) *)
Theorem C11_reuse_lookup :
  forall c s t q x r, getq s q = Some x -> lmu s = None -> lookup (loaded s) (q_model x) = Some r ->
  run_pc c s t (PLk q) 0%Z = Some (goto s t (PNr q r), []).
Proof. intros c s t q x r Hq Hl Hr. unfold run_pc, guard. rewrite Hl, Hq, Hr. reflexivity. Qed.
Print Assumptions C11_reuse_lookup.

Theorem C11_reuse_compatible :
  forall c s t q r x y, getr s r = Some x -> getq s q = Some y -> r_mu x = None ->
  r_closed x = false -> compat (r_key x) (sp_key (q_spec y)) = true ->
  run_pc c s t (PNr q r) 0%Z = Some (goto (setr s r (r_set_mu x (Some t))) t (PPing q r), []) /\
  forall s1 x1, getr s1 r = Some x1 ->
    run_pc c s1 t (PPing q r) 0%Z = Some (goto (setr s1 r (r_set_mu x1 None)) t (PUse q r), [EPing r true]).
Proof.
  intros c s t q r x y Hr Hq Hm Hc Hk. split.
  - unfold run_pc, guard. rewrite Hr, Hq, Hm, Hc, Hk. reflexivity.
  - intros s1 x1 H1. unfold run_pc. rewrite H1. reflexivity.
Qed.
Print Assumptions C11_reuse_compatible.
