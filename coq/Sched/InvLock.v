(* Sched/InvLock.v - mutex bookkeeping of the repaired scheduler: a runner's refMu (the global loadedMu) is held
   exactly when one thread is at a program point inside the corresponding critical section. *)
From Coq Require Import List ZArith NArith Bool Lia Arith.
From V Require Import Sched.Lts Sched.Tac Sched.Reach Sched.InvOwn.
Import ListNotations.

Fixpoint hr (r : nat) (p : pc) : nat :=
  match p with
  | PPing _ r' | PUseSend _ r' | PExpSend _ r' | PLd2 _ r' | CFSend r' | CEV r' | LWWait _ r' | LWErr _ r'
  | LWExp r' | LWOk _ r' | TMSend r' | AXSend r' => eqn r' r
  | TEntry p' => hr r p'
  | _ => 0
  end.

Fixpoint hl (p : pc) : nat :=
  match p with PUfsR _ _ _ | CE2 _ | CEV _ | AXLr _ | AXSend _ => 1 | TEntry p' => hl p' | _ => 0 end.

(* program points of the pending loop (exactly one thread is the pending loop) *)
Fixpoint isP (p : pc) : nat :=
  match p with
  | PSel | PLk _ | PNr _ _ | PPing _ _ | PUse _ _ | PUseSend _ _ | PFv _ | PFvR _ _ _ | PExp _ _ | PExpSend _ _
  | PWait _ _ | PErr _ | PFlt _ | PUfs _ _ | PUfsR _ _ _ | PNs _ | PLd1 _ _ | PLd2 _ _ => 1
  | TEntry p' => isP p'
  | _ => 0
  end.

Fixpoint isC (p : pc) : nat :=
  match p with
  | CSel | CFLk _ | CFR _ _ | CFSend _ | CE1 _ | CE2 _ | CEV _ | CEFin | CETok => 1
  | TEntry p' => isC p'
  | _ => 0
  end.

Definition mu1 (x : runner) : nat := match r_mu x with Some _ => 1 | None => 0 end.
Definition lm1 (s : state) : nat := match lmu s with Some _ => 1 | None => 0 end.

Definition I_muc (s : state) : Prop := forall r, cnt (hr r) (thr s) = getd mu1 (runners s) r.
Definition I_lmuc (s : state) : Prop := cnt hl (thr s) = lm1 s.
Definition I_one (s : state) : Prop := cnt isP (thr s) = 1 /\ cnt isC (thr s) = 1.

Lemma fire_getf {B} (f : runner -> B) (d : B) :
  (forall x v, f (r_set_tm x v) = f x) ->
  forall rs i t' r, getf f d (fst (fire rs i t')) r = getf f d rs r.
Proof.
  intros Hf. induction rs as [|x tl IH]; intros i t' r; simpl; auto.
  specialize (IH (S i) t'). destruct (fire tl (S i) t') as [tl' ps] eqn:E. simpl in IH.
  assert (G : forall y, f y = f x -> getf f d (y :: tl') r = getf f d (x :: tl) r).
  { intros y Cy. unfold getf in *. destruct r; simpl; auto. }
  destruct (r_tm x) as [|[dl|]|]; simpl; auto. destruct (Z.leb dl t'); simpl; auto.
Qed.

Lemma fire_getd (f : runner -> nat) :
  (forall x v, f (r_set_tm x v) = f x) ->
  forall rs i t' r, getd f (fst (fire rs i t')) r = getd f rs r.
Proof. intros Hf rs i t' r. apply (fire_getf f 0 Hf). Qed.

Lemma fire_pcs_zero (f : pc -> nat) :
  (forall r, f (TEntry (TMLk r)) = 0) -> forall rs i t', cnt f (snd (fire rs i t')) = 0.
Proof.
  intros Hf. induction rs as [|x tl IH]; intros i t'; simpl; auto.
  specialize (IH (S i) t'). destruct (fire tl (S i) t') as [tl' ps]. simpl in IH.
  destruct (r_tm x) as [|[dl|]|]; simpl; auto. destruct (Z.leb dl t'); simpl; auto. rewrite Hf. auto.
Qed.

 Lemma wake_cnt (f : pc -> nat) t' l : (forall p, f (wake t' p) = f p) -> cnt f (map (wake t') l) = cnt f l.
Proof. intros H. rewrite cnt_map. apply cnt_ext. exact H. Qed.

Lemma wake_hr r t' p : hr r (wake t' p) = hr r p.
Proof. destruct p; simpl; auto; destruct (Z.leb u t'); reflexivity. Qed.
Lemma wake_hl t' p : hl (wake t' p) = hl p.
Proof. destruct p; simpl; auto; destruct (Z.leb u t'); reflexivity. Qed.
Lemma wake_isP t' p : isP (wake t' p) = isP p.
Proof. destruct p; simpl; auto; destruct (Z.leb u t'); reflexivity. Qed.
Lemma wake_isC t' p : isC (wake t' p) = isC p.
Proof. destruct p; simpl; auto; destruct (Z.leb u t'); reflexivity. Qed.

Definition fixed (c : config) : Prop := c_fix c = fixes_on.

Ltac fix_cfg c Hf := destruct c as [?mq ?fx ?ng]; unfold fixed in Hf; simpl in Hf; subst.

Ltac opt_cases :=
  repeat match goal with
  | H : is_none ?o = true |- _ => let E := fresh "EN" in destruct o eqn:E; [discriminate H|clear H]
  | H : is_none ?o && _ = true |- _ => apply andb_prop in H; destruct H
  | H : _ && _ = true |- _ => apply andb_prop in H; destruct H
  end.

Lemma I_muc_step c s l s' e : fixed c -> I_muc s -> step c s l = Some (s', e) -> I_muc s'.
Proof.
  intros Hf I H r. fix_cfg c Hf. specialize (I r). unfold I_muc in *.
  destruct l as [sp|q0|m|d|t alt].
  - step_cases H; simpl; auto.
  - step_cases H; simpl; auto.
  - step_cases H; simpl; sums I; simpl; lia.
  - step_cases H. rewrite tick_thr, tick_runners, cnt_app, (fire_pcs_zero (hr r)), (fire_getd mu1), wake_cnt; auto using wake_hr; lia.
  - unfold step in H. destruct (nth_error (thr s) t) as [p|] eqn:Ep; try discriminate.
    pose proof (cnt_ge (hr r) _ _ _ Ep) as Ge.
    destruct p; step_cases H; simpl; unfold getq, getr in *; opt_cases;
    sums Ep; unfold mu1 in *; simpl in *;
    try (eqb_cases; simpl in *; rewrite ?getd_none in * by lia; use_nth; simpl in *; opt_cases;
         repeat match goal with E : r_mu _ = _ |- _ => rewrite E in * end; simpl in *;
         repeat match goal with
         | H : context [match r_mu ?x with _ => _ end] |- _ => destruct (r_mu x) eqn:?
         | |- context [match r_mu ?x with _ => _ end] => destruct (r_mu x) eqn:?
         end; simpl in *; lia).
Qed.

Lemma I_lmuc_step c s l s' e : fixed c -> I_lmuc s -> step c s l = Some (s', e) -> I_lmuc s'.
Proof.
  intros Hf I H. fix_cfg c Hf. unfold I_lmuc, lm1 in *.
  destruct l as [sp|q0|m|d|t alt].
  - step_cases H; simpl; auto.
  - step_cases H; simpl; auto.
  - step_cases H; simpl; sums I; simpl; lia.
  - step_cases H. rewrite tick_thr, tick_lmu, cnt_app, (fire_pcs_zero hl), wake_cnt; auto using wake_hl; lia.
  - unfold step in H. destruct (nth_error (thr s) t) as [p|] eqn:Ep; try discriminate.
    pose proof (cnt_ge hl _ _ _ Ep) as Ge.
    destruct p; step_cases H; simpl; unfold getq, getr in *; opt_cases;
    sums Ep; simpl in *;
    repeat match goal with E : lmu _ = _ |- _ => rewrite E in * end; simpl in *;
    try lia;
    try (destruct (lmu s) eqn:?; simpl in *; lia).
Qed.

Lemma I_one_step c s l s' e : I_one s -> step c s l = Some (s', e) -> I_one s'.
Proof.
  intros [IP IC] H. unfold I_one.
  destruct l as [sp|q0|m|d|t alt].
  - step_cases H; simpl; auto.
  - step_cases H; simpl; auto.
  - step_cases H; simpl; sums I; simpl; lia.
  - step_cases H. rewrite tick_thr, !cnt_app, (fire_pcs_zero isP), (fire_pcs_zero isC), !wake_cnt; auto using wake_isP, wake_isC; lia.
  - unfold step in H. destruct (nth_error (thr s) t) as [p|] eqn:Ep; try discriminate.
    pose proof (cnt_ge isP _ _ _ Ep) as GeP. pose proof (cnt_ge isC _ _ _ Ep) as GeC.
    destruct p; step_cases H; simpl; sums Ep; simpl in *; try lia.
Qed.

Lemma I_locks_Reach c s ev : fixed c -> Reach c s ev -> I_muc s /\ I_lmuc s /\ I_one s.
Proof.
  intros Hf. revert s ev. apply Reach_ind_inv.
  - intros m. repeat split; try reflexivity. intros r. unfold getd. simpl. destruct r; reflexivity.
  - intros s ev l s' e _ (A & B & C) H. repeat split;
    [eapply I_muc_step | eapply I_lmuc_step | eapply I_one_step | eapply I_one_step]; eauto.
Qed.
