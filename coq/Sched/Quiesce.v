(* Sched/Quiesce.v - quiescent states of the repaired scheduler are idle: if no scheduler thread can take a step,
   nothing sleeps, every holder has finished and no keep-alive timer is pending, then both loops sit at their select
   with empty queues and every helper goroutine has finished.  With Sched/Drain.v this gives the drain clause of C02
   from "no step enabled". *)
From Coq Require Import List ZArith NArith Bool Lia Arith.
From V Require Import Sched.Lts Sched.Tac Sched.Reach Sched.InvOwn Sched.InvLock Sched.InvStruct Sched.InvRef
  Sched.InvProg Sched.Refute Sched.Dead Sched.Drain.
Import ListNotations.

Definition quiescent (c : config) (s : state) : Prop := forall t alt, step c s (LRun t alt) = None.

Definition no_sleepers (s : state) : Prop :=
  forall t p, nth_error (thr s) t = Some p -> match p with RTSleep _ _ | RSSleep _ _ => False | _ => True end.

Definition stuck_pc (c : config) (s : state) (p : pc) : Prop :=
  match p with
  | PSel => pendq s = [] /\ unlq s = 0
  | PWait _ _ => unlq s = 0
  | CSel => finq s = [] /\ expq s = []
  | FWDone q => qcanc s q = false
  | RSSend _ => c_maxq c <= length (pendq s)
  | RTSleep _ _ | RSSleep _ _ | TDone => True
  | _ => False
  end.

Lemma qcanc_range s q : qcanc s q = true -> exists y, getq s q = Some y.
Proof. unfold qcanc, getf, getq. destruct (nth_error (reqs s) q); intros E; [eauto|discriminate]. Qed.

Section Analysis.
Variables (c : config) (s : state).
Hypothesis Hf : fixed c.
Hypothesis IW : I_own s.
Hypothesis I2 : L2 s.
Hypothesis I3 : L3 s.
Hypothesis INF : I_nf s.
Hypothesis IU : I_ufs s.

Lemma pend_range q : In q (pendq s) -> exists y, getq s q = Some y.
Proof.
  intros Hin. specialize (IW q). unfold owned, occ in IW.
  assert (1 <= cnt (fun x => eqn x q) (pendq s)).
  { apply In_nth_error in Hin. destruct Hin as [i Hi]. pose proof (cnt_ge (fun x => eqn x q) _ _ _ Hi) as G.
    simpl in G. unfold eqn in G. rewrite Nat.eqb_refl in G. exact G. }
  unfold getq. destruct (nth_error (reqs s) q) as [y|] eqn:E; eauto. exfalso.
  apply nth_error_None in E. destruct (Nat.ltb q (length (reqs s))) eqn:Q; [apply Nat.ltb_lt in Q; lia|lia].
Qed.

Lemma fresh_range q r t p : nth_error (thr s) t = Some p -> freshpc p = Some (q, r) -> exists x, getr s r = Some x.
Proof.
  intros Ht Hp. destruct (l2_fresh s I2 _ _ _ _ Ht Hp) as (A & _). destruct (rclosed_false _ _ A) as (x & E & _). eauto.
Qed.

(* resolve the lookups of runners / requests that a program counter refers to *)
Ltac ranges Hn MR OR CR :=
  repeat match type of Hn with
  | context [getr s ?r] =>
      let x := fresh "x" in let E := fresh "Er" in
      first [ destruct (MR r ltac:(simpl; unfold eqn; rewrite ?Nat.eqb_refl; rewrite ?inl_cons, ?Nat.eqb_refl; lia)) as (x & E)
            | match goal with FR : forall q r, freshpc _ = Some (q, r) -> _ |- _ => destruct (FR _ _ eq_refl) as (x & E) end ];
      rewrite E in Hn; simpl in Hn
  | context [getq s ?q] =>
      let y := fresh "y" in let E := fresh "Eq" in
      first [ destruct (OR q ltac:(simpl; unfold eqn; rewrite Nat.eqb_refl; reflexivity)) as (y & E)
            | destruct (CR q eq_refl) as (y & E) ];
      rewrite E in Hn; simpl in Hn
  end.

Ltac conds Hn :=
  repeat match type of Hn with
  | context [if ?b then _ else _] => destruct b eqn:?
  | context [match ?x with _ => _ end] => destruct x eqn:?
  end; try discriminate Hn.

Lemma stuck_or_waits t p :
  nth_error (thr s) t = Some p -> (forall alt, run_pc c s t p alt = None) -> stuck_pc c s p \/ waits_for_mutex c s t.
Proof.
  intros Ht Hn. assert (Hf' := Hf). unfold fixed in Hf'.
  pose proof (Forall_nth_error _ _ _ _ IU Ht) as U.
  assert (MR : forall r, 1 <= mentions r p -> exists x, getr s r = Some x).
  { intros r Hm. apply (mention_range s INF). pose proof (cnt_ge (mentions r) _ _ _ Ht). lia. }
  assert (OR : forall q, ownf q p = 1 -> exists y, getq s q = Some y) by (intros q Ho; eapply (owner_range s IW); eauto).
  assert (CR : forall q, canpc p = Some q -> exists y, getq s q = Some y).
  { intros q Hc. apply qcanc_range. eapply (l3_canpc s I3); eauto. }
  assert (FR : forall q r, freshpc p = Some (q, r) -> exists x, getr s r = Some x) by (intros q r Hp; eapply fresh_range; eauto).
  pose proof (Hn 0%Z) as H0. pose proof (Hn 1%Z) as H1. clear Hn.
  destruct p; simpl; auto;
  unfold run_pc, guard, do_reply, decide in H0, H1; rewrite ?Hf' in H0, H1; simpl in H0, H1, U.
  (* the list-carrying program counters have a head *)
  all: try (destruct rest as [|r0 rest]; [congruence|]; simpl in H0).
  all: try (ranges H0 MR OR CR).
  (* program counters that can always proceed *)
  all: try (exfalso; conds H0; fail).
  (* lock acquisitions: the mutex is held (the thread waits) or the step is possible *)
  all: try (destruct (lmu s) eqn:L; simpl in H0;
            [ right; eexists; eexists; split; [exact Ht|split; [simpl; rewrite ?Hf'; reflexivity|simpl; rewrite L; reflexivity]]
            | exfalso; conds H0 ]; fail).
  all: try (match type of H0 with context [r_mu ?x] => destruct (r_mu x) eqn:M end; simpl in H0;
            [ right; eexists; eexists; split; [exact Ht|split; [simpl; rewrite ?Hf'; reflexivity|
                simpl; unfold getr in *; repeat match goal with E : nth_error (runners s) _ = Some _ |- _ => rewrite E end; rewrite M; reflexivity]]
            | exfalso; conds H0 ]; fail).
  - (* PSel *)
    left. split.
    + destruct (pendq s) as [|q rest] eqn:P; auto. exfalso.
      destruct (pend_range q) as (y & E); [rewrite P; left; reflexivity|]. rewrite E in H0. conds H0.
    + destruct (unlq s); auto. discriminate H1.
  - (* PWait *)
    left. destruct (unlq s); auto. discriminate H0.
  - (* CSel *)
    left. split.
    + destruct (finq s); auto. discriminate H0.
    + destruct (expq s); auto. discriminate H1.
  - (* FWDone *)
    left. unfold qcanc, getf, getq in *. destruct (nth_error (reqs s) q) as [y|]; auto. simpl in H0.
    destruct (q_cancelled y); auto. discriminate H0.
  - (* RSSend *)
    left. destruct (Nat.ltb (length (pendq s)) (c_maxq c)) eqn:Q; simpl in H0; [discriminate H0|]. apply Nat.ltb_ge. exact Q.
Qed.


End Analysis.

(* C02, drain clause from "no scheduler step is enabled" *)
Theorem quiescent_drained c s ev :
  fixed c -> 1 <= c_maxq c -> Reach c s ev -> quiescent c s -> settled s -> no_sleepers s ->
  loaded s = [] /\
  (forall r x, getr s r = Some x -> r_closed x = true) /\
  (forall q x, getq s q = Some x -> q_cancelled x = false -> length (q_replies x) = 1).
Proof.
  intros Hf Hq R Qs St Ns.
  pose proof (L2_Reach _ _ _ Hf R) as I2. pose proof (L3_Reach _ _ _ Hf R) as I3.
  pose proof (I_own_Reach _ _ _ R) as IW. pose proof (I_nf_Reach _ _ _ Hf R) as INF.
  pose proof (I_ufs_Reach _ _ _ R) as IU. pose proof (I_tk_Reach _ _ _ Hf R) as ITK.
  destruct (I_locks_Reach _ _ _ Hf R) as (IM & IL & [IP IC]).
  (* 1. every thread is stuck for a benign reason *)
  assert (S1 : forall t p, nth_error (thr s) t = Some p -> stuck_pc c s p).
  { intros t p Ht.
    assert (Hn : forall alt, run_pc c s t p alt = None).
    { intros alt. specialize (Qs t alt). unfold step in Qs. rewrite Ht in Qs. exact Qs. }
    destruct (stuck_or_waits c s Hf IW I2 I3 INF IU t p Ht Hn) as [S|W]; auto. exfalso.
    destruct (no_lock_deadlock c s ev t Hf R W) as (t' & alt & N). apply N. apply Qs. }
  (* 2. the configuration is calm *)
  assert (Calm : Forall (calm_pc s) (thr s)).
  { rewrite Forall_forall. intros p Hin. apply In_nth_error in Hin. destruct Hin as [t Ht].
    pose proof (S1 t p Ht) as S. pose proof (Ns t p Ht) as N. unfold calm_pc.
    destruct p; simpl in S, N; try tauto; eauto 10. }
  (* 3. the completed loop sits at its select: both its queues are empty *)
  assert (QE : finq s = [] /\ expq s = []).
  { destruct (cnt_pos_In isC (thr s) ltac:(lia)) as (p & Hin & Hp). apply In_nth_error in Hin. destruct Hin as [t Ht].
    pose proof (S1 t p Ht) as S. destruct p; simpl in Hp, S; try lia; try tauto. }
  destruct QE as [Fq Eq].
  assert (NoLive : forall r, rclosed s r = false -> False) by (eapply calm_nolive; eauto).
  (* 4. nobody waits for an unloaded event *)
  assert (NoWait : forall t q r, nth_error (thr s) t = Some (PWait q r) -> False).
  { intros t q r Ht. pose proof (S1 t _ Ht) as S. simpl in S.
    destruct (ITK t _ r Ht ltac:(simpl; auto)) as [[A _]|A]; [eauto|].
    assert (Z : cnt tokpend (thr s) = 0) by (apply calm_cnt_zero; auto). lia. }
  (* 5. the pending loop sits at its select: the pending queue is empty *)
  assert (PE : pendq s = []).
  { destruct (cnt_pos_In isP (thr s) ltac:(lia)) as (p & Hin & Hp). apply In_nth_error in Hin. destruct Hin as [t Ht].
    pose proof (S1 t p Ht) as S. destruct p; simpl in Hp, S; try lia; try tauto. exfalso. eapply NoWait; eauto. }
  (* 6. idle *)
  assert (Idle : idle s).
  { split; [|auto]. rewrite Forall_forall in *. intros p Hin. pose proof (Calm p Hin) as Cp.
    apply In_nth_error in Hin. destruct Hin as [t Ht]. unfold idle_pc.
    destruct Cp as [->|[->|[->|[(q & -> & Cq)|[(q & r & ->)|(q & ->)]]]]].
    - left; reflexivity.
    - right; left; reflexivity.
    - right; right; left; reflexivity.
    - right; right; right. exists q. split; auto.
    - exfalso. eapply NoWait; eauto.
    - exfalso. pose proof (S1 t _ Ht) as S. simpl in S. rewrite PE in S. simpl in S. lia. }
  eapply drained; eauto.
Qed.
