(* Sched/Corr.v - executable conformance check: does the LTS accept an observed run of the real scheduler?

   An observed run is a list of steps; each step carries what the harness did (an environment action, or the
   release of one scheduler goroutine, identified only by its creation index), the visible events the
   implementation produced during the step and a projection of the scheduler state after it.  The check keeps
   the set of model states consistent with the observed prefix (zero, one or two rules of the released
   goroutine, or - when the creation index does not line up - of any thread) and fails when the set is empty. *)
From Coq Require Import List ZArith NArith Bool Lia.
From V Require Import Sched.Lts.
Import ListNotations.

Record rproj := mkRP { rp_ref : Z; rp_dur : Z; rp_tm : bool; rp_loading : bool; rp_closed : bool; rp_mu : bool }.
Record proj := mkP { p_ld : list (nat * nat); p_rs : list (option rproj); p_q : list nat; p_lm : bool; p_now : Z }.

Inductive olab := OEnv (l : label) | ORun (hint : nat).
Record ostep := mkO { o_lab : olab; o_ev : list event; o_pr : proj }.

(* ---- projection of a model state *)

Definition is_some {A} (o : option A) : bool := match o with Some _ => true | None => false end.

Definition ref_Z (n : N) : Z :=
  if N.leb 9223372036854775808 n then (Z.of_N n - 18446744073709551616)%Z else Z.of_N n.

Definition proj_runner (x : runner) : rproj :=
  mkRP (ref_Z (r_ref x)) (if Z.eqb (r_dur x) forever then (-1)%Z else r_dur x)
       (match r_tm x with TNone => false | _ => true end) (r_loading x) (r_closed x) (is_some (r_mu x)).

Fixpoint ins_ld (a : nat * nat) (l : list (nat * nat)) : list (nat * nat) :=
  match l with
  | [] => [a]
  | b :: tl => if Nat.leb (fst a) (fst b) then a :: l else b :: ins_ld a tl
  end.
Definition sort_ld (l : list (nat * nat)) : list (nat * nat) := fold_right ins_ld [] l.

Definition bool_eqb (a b : bool) : bool := if a then b else negb b.

Definition rproj_eqb (a b : rproj) : bool :=
  Z.eqb (rp_ref a) (rp_ref b) && Z.eqb (rp_dur a) (rp_dur b) && bool_eqb (rp_tm a) (rp_tm b) &&
  bool_eqb (rp_loading a) (rp_loading b) && bool_eqb (rp_closed a) (rp_closed b) && bool_eqb (rp_mu a) (rp_mu b).

Fixpoint rs_match (ms : list runner) (os : list (option rproj)) : bool :=
  match ms, os with
  | [], [] => true
  | x :: mt, o :: ot => (match o with None => true | Some p => rproj_eqb (proj_runner x) p end) && rs_match mt ot
  | _, _ => false
  end.

Fixpoint ld_eqb (a b : list (nat * nat)) : bool :=
  match a, b with
  | [], [] => true
  | (k, v) :: at', (k', v') :: bt => Nat.eqb k k' && Nat.eqb v v' && ld_eqb at' bt
  | _, _ => false
  end.

Fixpoint nats_eqb (a b : list nat) : bool :=
  match a, b with
  | [], [] => true
  | x :: at', y :: bt => Nat.eqb x y && nats_eqb at' bt
  | _, _ => false
  end.

Definition proj_match (s : state) (p : proj) : bool :=
  ld_eqb (sort_ld (loaded s)) (p_ld p) && rs_match (runners s) (p_rs p) &&
  nats_eqb [length (pendq s); length (finq s); length (expq s); unlq s] (p_q p) &&
  bool_eqb (is_some (lmu s)) (p_lm p) && Z.eqb (now s) (p_now p).

(* ---- events *)

Definition reply_eqb (a b : reply) : bool :=
  match a, b with
  | ROk r c, ROk r' c' => Nat.eqb r r' && bool_eqb c c'
  | RErr, RErr => true
  | RBusy, RBusy => true
  | _, _ => false
  end.

Definition event_eqb (a b : event) : bool :=
  match a, b with
  | EReply q r, EReply q' r' => Nat.eqb q q' && reply_eqb r r'
  | ENew m None, ENew m' None => Nat.eqb m m'
  | ENew m (Some r), ENew m' (Some r') => Nat.eqb m m' && Nat.eqb r r'
  | EWait r b, EWait r' b' => Nat.eqb r r' && bool_eqb b b'
  | EPing r b, EPing r' b' => Nat.eqb r r' && bool_eqb b b'
  | EClose r, EClose r' => Nat.eqb r r'
  | _, _ => false
  end.

Fixpoint events_eqb (a b : list event) : bool :=
  match a, b with
  | [], [] => true
  | x :: at', y :: bt => event_eqb x y && events_eqb at' bt
  | _, _ => false
  end.

(* ---- alternatives a rule can be taken with *)

Fixpoint ufs_alts (n : nat) : list Z :=
  match n with
  | O => []
  | S k => ufs_alts k ++ [Z.of_nat k; (Z.of_nat k + 4)%Z]
  end.

Definition alts_of (p : pc) : list Z :=
  match p with
  | PSel | CSel | PPing _ _ | PNs _ | LWWait _ _ | PLk _ | PUfs _ _ => [0; 1]%Z
  | PUfsR _ _ rest => ufs_alts (length rest)
  | _ => [0%Z]
  end.

(* ---- simulation of one observed step *)

Definition cand := (state * list event)%type.

Definition step1 (c : config) (t : nat) (sx : cand) : list cand :=
  let (s, ev) := sx in
  match nth_error (thr s) t with
  | None => []
  | Some p =>
      flat_map (fun a => match run_pc c s t p a with Some (s', e) => [(s', ev ++ e)] | None => [] end) (alts_of p)
  end.

Definition ok_match (o : ostep) (sx : cand) : bool := events_eqb (snd sx) (o_ev o) && proj_match (fst sx) (o_pr o).

Definition cap := 24.

(* one rule of thread t first; only when no single rule explains the observation: no rule (an extra scheduling
   point in the implementation) or two rules (a scheduling point the model has and the implementation lost) *)
Definition sim_thread (c : config) (t : nat) (o : ostep) (s : state) : list state :=
  let c0 := [(s, [])] in
  let c1 := flat_map (step1 c t) c0 in
  match filter (ok_match o) c1 with
  | [] => let c2 := flat_map (step1 c t) c1 in map fst (filter (ok_match o) (c0 ++ c2))
  | m => map fst m
  end.

Definition sim_any (c : config) (o : ostep) (s : state) : list state :=
  flat_map (fun t => sim_thread c t o s) (seq 0 (length (thr s))).

Definition sim_step (c : config) (ss : list state) (o : ostep) : list state :=
  match o_lab o with
  | OEnv l =>
      flat_map (fun s => match step c s l with
                         | Some (s', e) => if ok_match o (s', e) then [s'] else []
                         | None => []
                         end) ss
  | ORun h =>
      let r := flat_map (sim_thread c h o) ss in
      match r with
      | [] => firstn cap (flat_map (sim_any c o) ss)
      | _ => firstn cap r
      end
  end.

(* number of observed steps accepted before the state set becomes empty *)
Fixpoint accepted (c : config) (ss : list state) (obs : list ostep) : nat :=
  match obs with
  | [] => 0
  | o :: tl => match sim_step c ss o with [] => 0 | ss' => S (accepted c ss' tl) end
  end.

Definition chk_trace (c : config) (m : nat) (obs : list ostep) : bool := Nat.eqb (accepted c [init_m m] obs) (length obs).

(* where (0-based) the first rejected step is; = length obs when the whole run is accepted *)
Definition first_reject (c : config) (m : nat) (obs : list ostep) : nat := accepted c [init_m m] obs.

(* debugging aid: the state set after the first k observed steps *)
Fixpoint states_after (c : config) (ss : list state) (obs : list ostep) (k : nat) : list state :=
  match k, obs with
  | O, _ => ss
  | S k', o :: tl => states_after c (sim_step c ss o) tl k'
  | S _, [] => ss
  end.
