(* Sched/InvProg.v - progress bookkeeping of the repaired scheduler: an un-cancelled request is never dropped; a
   freshly created runner is referenced by nobody but the pending loop; a registered idle runner always has a pending
   reason to be expired; a pending loop that waits for an unload will get its token. *)
From Coq Require Import List ZArith NArith Bool Lia Arith.
From V Require Import Sched.Lts Sched.Tac Sched.Reach Sched.InvOwn Sched.InvLock Sched.InvStruct Sched.InvRef.
Import ListNotations.

(* ------------------------------------------------------------------ un-cancelled requests are owned or answered *)

Definition I_ow (s : state) : Prop :=
  forall q, q < length (reqs s) -> qcanc s q = false -> 1 <= owned s q + nrep s q.

Lemma I_ow_step c s l s' e : I_ow s -> step c s l = Some (s', e) -> I_ow s'.
Proof.
  unfold I_ow, owned, nrep, occ, qcanc. intros I H q Hq Hc.
  destruct l as [sp|q0|m|d|t alt].
  - step_cases H; simpl in *; rewrite app_length in Hq; simpl in Hq; revert Hc;
    rewrite ?cnt_snoc, !getd_snoc, getf_snoc; unfold eqn in *;
    (destruct (Nat.eqb q (length (reqs s))) eqn:Q; simpl; intros Hc;
     [ apply Nat.eqb_eq in Q; subst q; rewrite ?Nat.eqb_refl; lia
     | apply Nat.eqb_neq in Q; specialize (I q ltac:(lia) Hc); try lia;
       destruct (Nat.eqb (length (reqs s)) q); lia ]).
  - step_cases H; unfold getq in *; simpl in *. rewrite upd_length in Hq. revert Hc. sums I. simpl.
    erewrite getf_upd by eassumption. destruct (Nat.eqb q0 q) eqn:Q; [simpl; discriminate|]. intros Hc. apply I; auto.
  - step_cases H; simpl in *. rewrite cnt_snoc. simpl. specialize (I q Hq Hc). lia.
  - step_cases H. rewrite tick_reqs in *. rewrite tick_thr, tick_pendq, cnt_app, cnt_map.
    rewrite (cnt_ext _ (ownf q)) by (intros; apply wake_ownf). specialize (I q Hq Hc). lia.
  - unfold step in H. destruct (nth_error (thr s) t) as [p|] eqn:Ep; try discriminate.
    pose proof (cnt_ge (ownf q) _ _ _ Ep) as Ge.
    destruct p; step_cases H; simpl in *; unfold getq, getr in *; rewrite ?upd_length in Hq; revert Hc;
    repeat match goal with E : pendq s = _ |- _ => rewrite E in I; simpl in I end;
    sums Ep; repeat (erewrite getf_upd by eassumption); simpl in *; rewrite ?app_length in *; simpl in *; intros Hc;
    specialize (I q Hq);
    try (eqb_cases; simpl in *; unfold getf in *; use_nth; simpl in *; try discriminate; try congruence;
         try specialize (I Hc); simpl in *; rewrite ?app_length; simpl; lia).
Qed.

Lemma I_ow_Reach c s ev : Reach c s ev -> I_ow s.
Proof.
  revert s ev. apply Reach_ind_inv.
  - intros m q Hq. simpl in Hq. lia.
  - intros; eapply I_ow_step; eauto.
Qed.

(* ------------------------------------------------------------------ nobody else refers to a fresh runner *)

Definition inl (r : nat) (l : list nat) : nat := if existsb (Nat.eqb r) l then 1 else 0.

(* every reference to a runner held in a program counter, except the pending loop's PLd1 / PLd2 *)
Fixpoint mentions (r : nat) (p : pc) : nat :=
  match p with
  | PNr _ r' | PPing _ r' | PUse _ r' | PUseSend _ r' | PExp _ r' | PExpSend _ r' | PWait _ r'
  | CFR _ r' | CFSend r' | CE1 r' | CE2 r' | CEV r' | LWWait _ r' | LWErr _ r' | LWExp r' | LWOk _ r'
  | TMLk r' | TMSend r' | RTSleep r' _ | RTSend r' | AXLr r' | AXSend r' => eqn r' r
  | PFvR _ rest first => inl r rest + eqn first r
  | PUfsR _ _ rest => inl r rest
  | TEntry p' => mentions r p'
  | _ => 0
  end.

Definition armedn (x : runner) : nat := match r_tm x with TNone => 0 | _ => 1 end.

Definition outf (s : state) (r : nat) : Prop := length (runners s) <= r \/ 1 <= cnt (freshr r) (thr s).

Definition I_nf (s : state) : Prop :=
  forall r, outf s r -> cnt (mentions r) (thr s) + occ r (expq s) + getd armedn (runners s) r = 0.

Lemma inl_In r l : inl r l = 1 <-> In r l.
Proof.
  unfold inl. destruct (existsb (Nat.eqb r) l) eqn:E.
  - apply existsb_exists in E. destruct E as (x & Hin & Hx). apply Nat.eqb_eq in Hx. subst. tauto.
  - split; [discriminate|]. intros Hin. exfalso.
    assert (existsb (Nat.eqb r) l = true) by (apply existsb_exists; exists r; split; auto; apply Nat.eqb_refl). congruence.
Qed.

Lemma inl_notin r l : ~ In r l -> inl r l = 0.
Proof. intros N. unfold inl. destruct (existsb (Nat.eqb r) l) eqn:E; auto. exfalso. apply N. apply inl_In. unfold inl. rewrite E. auto. Qed.

Lemma inl_le1 r l : inl r l <= 1.
Proof. unfold inl. destruct (existsb (Nat.eqb r) l); lia. Qed.

Lemma inl_cons r a l : inl r (a :: l) = if Nat.eqb r a then 1 else inl r l.
Proof. unfold inl. simpl. destruct (Nat.eqb r a); reflexivity. Qed.

Lemma inl_remove_nth r l i : inl r (remove_nth l i) <= inl r l.
Proof.
  revert i; induction l as [|a tl IH]; intros [|i]; simpl; auto.
  - rewrite inl_cons. destruct (Nat.eqb r a); auto using inl_le1.
  - rewrite !inl_cons. destruct (Nat.eqb r a); auto.
Qed.

Lemma vinsert_In s a l x : In x (vinsert s a l) -> x = a \/ In x l.
Proof.
  induction l as [|b tl IH]; simpl; intros H.
  - destruct H as [<-|[]]. auto.
  - destruct (vless s b a); simpl in H.
    + destruct H as [<-|H]; auto. apply IH in H. tauto.
    + destruct H as [<-|H]; auto.
Qed.

Lemma vsort_In s l x : In x (vsort s l) -> In x l.
Proof.
  induction l as [|a tl IH]; simpl; intros H; auto. apply vinsert_In in H. destruct H as [->|H]; auto.
Qed.

Lemma loaded_value_lookup l r : NoDup (map fst l) -> In r (map snd l) -> exists m, lookup l m = Some r.
Proof.
  induction l as [|[k v] tl IH]; simpl; intros N H; [tauto|]. inv N.
  destruct H as [<-|H].
  - exists k. rewrite Nat.eqb_refl. auto.
  - destruct (IH H3 H) as (m & Hm). exists m. destruct (Nat.eqb k m) eqn:E; auto.
    apply Nat.eqb_eq in E. subst. exfalso. apply H2. apply lookup_In in Hm. apply in_map_iff. exists (m, r). auto.
Qed.

Lemma wake_mentions r t' p : mentions r (wake t' p) = mentions r p.
Proof. destruct p; simpl; auto; destruct (Z.leb u t'); reflexivity. Qed.

Lemma freshr_isP r p : freshr r p <= isP p.
Proof. unfold freshr. destruct (freshpc p) as [[q r']|] eqn:E; [|lia]. rewrite (freshpc_isP _ _ _ E). unfold eqn. destruct (Nat.eqb r' r); lia. Qed.

Lemma fire_pcs_mentions r : forall rs i t',
  (forall k x, nth_error rs k = Some x -> i + k = r -> armedn x = 0) ->
  cnt (mentions r) (snd (fire rs i t')) = 0.
Proof.
  induction rs as [|x tl IH]; intros i t' Ha; simpl; auto.
  assert (IH' : cnt (mentions r) (snd (fire tl (S i) t')) = 0).
  { apply IH. intros k y Hk Hr. apply (Ha (S k) y); auto. lia. }
  destruct (fire tl (S i) t') as [tl' ps] eqn:E. simpl in IH'.
  destruct (r_tm x) as [|[dl|]|] eqn:T; simpl; auto.
  destruct (Z.leb dl t'); simpl; auto.
  unfold eqn. destruct (Nat.eqb i r) eqn:Q; auto.
  apply Nat.eqb_eq in Q. specialize (Ha 0 x eq_refl ltac:(lia)). unfold armedn in Ha. rewrite T in Ha. discriminate.
Qed.

Lemma fire_armedn : forall rs i t' r, getd armedn (fst (fire rs i t')) r = getd armedn rs r.
Proof.
  induction rs as [|x tl IH]; intros i t' r; simpl; auto.
  specialize (IH (S i) t'). destruct (fire tl (S i) t') as [tl' ps] eqn:E. simpl in IH.
  assert (G : forall y, armedn y = armedn x -> getd armedn (y :: tl') r = getd armedn (x :: tl) r).
  { intros y Cy. unfold getd in *. destruct r; simpl; auto. }
  destruct (r_tm x) as [|[dl|]|] eqn:T; simpl; auto. destruct (Z.leb dl t'); simpl; auto.
  apply G. unfold armedn. simpl. rewrite T. reflexivity.
Qed.

Lemma inl_head r a tl : eqn a r <= inl r (a :: tl).
Proof. rewrite inl_cons. unfold eqn. rewrite Nat.eqb_sym. destruct (Nat.eqb r a); lia. Qed.

Lemma inl_tail r a tl : inl r tl <= inl r (a :: tl).
Proof. rewrite inl_cons. destruct (Nat.eqb r a); auto using inl_le1. Qed.

Section StepNF.
Variables (c : config) (s s' : state) (l : label) (e : list event).
Hypothesis Hf : fixed c.
Hypothesis IO : I_one s.
Hypothesis I2 : L2 s.
Hypothesis I : I_nf s.
Hypothesis H : step c s l = Some (s', e).

Ltac nf_sums r Ep :=
  repeat (erewrite (cnt_upd_eq (mentions r)) by (first [exact Ep | apply nth_error_snoc_old; exact Ep]));
  repeat (erewrite (cnt_upd_eq (freshr r)) by (first [exact Ep | apply nth_error_snoc_old; exact Ep]));
  rewrite ?cnt_snoc; unfold occ; rewrite ?cnt_snoc;
  repeat (erewrite getd_upd by eassumption); rewrite ?getd_snoc.

Lemma loaded_not_out m r0 r : lookup (loaded s) m = Some r0 ->
  (length (runners s) <= r \/ 1 <= cnt (freshr r) (thr s)) -> r0 <> r.
Proof.
  intros L [Hl|Hfr] ->.
  - destruct (l2_loaded s I2 _ _ L) as [_ K]. apply rclosed_range in K. lia.
  - destruct (fresh_thread s r Hfr) as (t & p & q & Ht & Hp).
    destruct (l2_fresh s I2 _ _ _ _ Ht Hp) as (_ & _ & F4). eapply F4; eauto.
Qed.

Lemma snapshot_not_out r0 r : In r0 (map snd (loaded s)) ->
  (length (runners s) <= r \/ 1 <= cnt (freshr r) (thr s)) -> r0 <> r.
Proof.
  intros Hin Ho. destruct (loaded_value_lookup _ _ (l2_nodup s I2) Hin) as (m & L). eapply loaded_not_out; eauto.
Qed.

Lemma snapshot_inl r xs : (forall x, In x xs -> In x (map snd (loaded s))) ->
  (length (runners s) <= r \/ 1 <= cnt (freshr r) (thr s)) -> inl r xs = 0.
Proof.
  intros Hsub Ho. apply inl_notin. intros Hin. apply (snapshot_not_out r r (Hsub _ Hin) Ho). reflexivity.
Qed.

Lemma I_nf_step : I_nf s'.
Proof.
  unfold I_nf, outf in *. fix_cfg c Hf. intros r Hpre.
  destruct l as [sp|q0|m|d|t alt].
  - step_cases H; simpl in *; apply I; auto.
  - step_cases H; simpl in *; apply I; auto.
  - step_cases H; simpl in *; rewrite !cnt_snoc in *; unfold freshr in Hpre; simpl in *; rewrite Nat.add_0_r in *;
    specialize (I r Hpre); lia.
  - step_cases H. rewrite tick_runners, tick_thr, !cnt_app, fire_armedn in *.
    rewrite wake_cnt in * by (intros; first [apply wake_mentions | apply wake_freshr]).
    rewrite (fire_pcs_zero (freshr r)) in Hpre by reflexivity. rewrite Nat.add_0_r in Hpre.
    assert (L : length (fst (fire (runners s) 0 (now s + d)%Z)) = length (runners s)).
    { clear. generalize 0. induction (runners s) as [|x tl IH]; intros i; simpl; auto.
      specialize (IH (S i)). destruct (fire tl (S i) (now s + d)%Z). simpl in *.
      destruct (r_tm x) as [|[dl|]|]; simpl; auto. destruct (Z.leb dl (now s + d)%Z); simpl; auto. }
    rewrite L in Hpre. specialize (I r Hpre).
    rewrite fire_pcs_mentions.
    + unfold tick. destruct (fire (runners s) 0 (now s + d)%Z). simpl. lia.
    + intros k x Hk Hr. simpl in Hr. subst k. unfold getd in I. rewrite Hk in I. lia.
  - unfold step in H. destruct (nth_error (thr s) t) as [p|] eqn:Ep; try discriminate.
    pose proof (cnt_ge (mentions r) _ _ _ Ep) as GeM. pose proof (cnt_ge (freshr r) _ _ _ Ep) as GeF.
    destruct p; step_cases H; simpl in *; unfold getq, getr in *; rewrite ?app_length in Hpre; simpl in Hpre;
    try (assert (Hpre0 : length (runners s) <= r \/ 1 <= cnt (freshr r) (thr s)) by
           (destruct Hpre as [Hl|Hr]; [left; rewrite ?upd_length in Hl; lia|];
            revert Hr; nf_sums r Ep; unfold freshr in *; simpl in *; unfold eqn; intros Hr;
            eqb_cases; simpl in *; first [right; lia | left; lia]);
         specialize (I r Hpre0);
         repeat match goal with E : expq s = _ |- _ => rewrite E in I; unfold occ in I; simpl in I end;
         nf_sums r Ep; unfold armedn, occ in *; simpl in *; unfold eqn in *;
         eqb_cases; simpl in *; use_nth; simpl in *; try lia; fail).
    all: assert (Hpre0 : length (runners s) <= r \/ 1 <= cnt (freshr r) (thr s)) by
           (destruct Hpre as [Hl|Hr]; [left; rewrite ?upd_length in Hl; lia|];
            revert Hr; nf_sums r Ep; unfold freshr in *; simpl in *; unfold eqn;
            pose proof (cnt_mono (freshr r) isP (thr s) (freshr_isP r)) as Mo; destruct IO as [IP _];
            intros Hr; eqb_cases; simpl in *; first [right; lia | left; lia | exfalso; lia]);
      pose proof (I r Hpre0) as I0; unfold occ in I0.
    (* lookups in [loaded] *)
    all: try (match goal with L : lookup (loaded s) _ = Some ?n |- _ =>
                pose proof (loaded_not_out _ _ _ L Hpre0) as NE; apply Nat.eqb_neq in NE;
                nf_sums r Ep; simpl; unfold eqn in *; rewrite NE; simpl in *; lia end).
    1: { (* PFv: the candidates are registered runners *)
      assert (Z : inl r (n :: l0) = 0).
      { apply snapshot_inl; auto. intros x Hx. apply (vsort_In s). rewrite E0. exact Hx. }
      assert (NE : n <> r) by (intros ->; rewrite inl_cons, Nat.eqb_refl in Z; discriminate).
      apply Nat.eqb_neq in NE. nf_sums r Ep. simpl. rewrite Z. unfold eqn in *. rewrite NE. simpl in *. lia. }
    (* PFvR: an idle candidate or the next candidate *)
    1-2: match goal with Ep : nth_error (thr s) _ = Some (PFvR _ (?a :: ?tl) ?f) |- _ =>
           pose proof (inl_head r a tl) as Hh; pose proof (inl_tail r a tl) as Ht;
           pose proof (cnt_ge (mentions r) _ _ _ Ep) as GeM2; cbn [mentions] in GeM2
         end;
         nf_sums r Ep; cbn [mentions]; unfold eqn in *; lia.
    1: { (* PUfs: the runners to visit are the registered ones *)
      assert (Z : inl r (n :: l0) = 0) by (apply snapshot_inl; auto; intros x Hx; rewrite E0; exact Hx).
      nf_sums r Ep. simpl. rewrite Z. simpl in *. lia. }
    1: { (* PUfsR: one runner less to visit *)
      pose proof (inl_remove_nth r rest (Z.to_nat (alt mod 4))) as Le. rewrite E3 in Le.
      nf_sums r Ep. simpl in *. lia. }
    (* PLd2: the runner stops being fresh *)
    assert (NE : r0 <> r).
    { intros ->. destruct Hpre as [Hl|Hr].
      - rewrite upd_length in Hl. apply nth_error_None in Hl. congruence.
      - pose proof (cnt_mono (freshr r) isP (thr s) (freshr_isP r)) as Mo. destruct IO as [IP _].
        revert Hr. nf_sums r Ep. unfold freshr in *. simpl. unfold eqn in *. rewrite Nat.eqb_refl. intros Hr. lia. }
    apply Nat.eqb_neq in NE. nf_sums r Ep. simpl. unfold eqn in *. rewrite NE. unfold armedn in *. simpl in *. lia.
Qed.

End StepNF.

Lemma I_nf_Reach c s ev : fixed c -> Reach c s ev -> I_nf s.
Proof.
  intros Hf R. induction R as [m|s ev l s' e R IH Hs].
  - intros r _. unfold occ, getd. simpl. destruct r; reflexivity.
  - destruct (I_locks_Reach _ _ _ Hf R) as (_ & _ & C). eapply I_nf_step; eauto. eapply L2_Reach; eauto.
Qed.

(* updateFreeSpace always has a runner left to visit while it is inside its loop *)
Fixpoint ufs_ok (p : pc) : Prop :=
  match p with PUfsR _ _ rest => rest <> [] | PFvR _ rest _ => rest <> [] | TEntry p' => ufs_ok p' | _ => True end.

Definition I_ufs (s : state) : Prop := Forall ufs_ok (thr s).

Lemma wake_ufs_ok t' p : ufs_ok p -> ufs_ok (wake t' p).
Proof. destruct p; simpl; auto; destruct (Z.leb u t'); simpl; auto. Qed.

Lemma I_ufs_step c s l s' e : I_ufs s -> step c s l = Some (s', e) -> I_ufs s'.
Proof.
  unfold I_ufs. intros I H.
  destruct l as [sp|q0|m|d|t alt].
  - step_cases H; simpl; auto.
  - step_cases H; simpl; auto.
  - step_cases H; simpl. apply Forall_snoc; simpl; auto.
  - step_cases H. rewrite tick_thr. apply Forall_app. split.
    + rewrite Forall_forall in *. intros p Hin. apply in_map_iff in Hin. destruct Hin as (p0 & <- & Hin). apply wake_ufs_ok; auto.
    + rewrite Forall_forall. intros p Hin. apply fire_pcs_In in Hin. destruct Hin as (r & ->). simpl. auto.
  - unfold step in H. destruct (nth_error (thr s) t) as [p|] eqn:Ep; try discriminate.
    pose proof (Forall_nth_error _ _ _ _ I Ep) as Ip.
    destruct p; step_cases H; simpl;
    repeat first [apply Forall_upd | apply Forall_snoc]; simpl in *; auto; try congruence.
Qed.

Lemma I_ufs_Reach c s ev : Reach c s ev -> I_ufs s.
Proof.
  revert s ev. apply Reach_ind_inv.
  - intros m. repeat constructor.
  - intros; eapply I_ufs_step; eauto.
Qed.

(* ------------------------------------------------------------------ an idle registered runner has a pending reason to expire *)

(* program points that will queue an expired event for r, or are processing one *)
Fixpoint expf (r : nat) (p : pc) : nat :=
  match p with
  | PExpSend _ r' | CFSend r' | LWErr _ r' | LWExp r' | TMLk r' | TMSend r' | RTSleep r' _ | RTSend r'
  | AXSend r' | CE1 r' | CE2 r' | CEV r' => eqn r' r
  | TEntry p' => expf r p'
  | _ => 0
  end.

Definition refn1 (x : runner) : nat := if N.eqb (r_ref x) 0 then 0 else 1.
Definition ra (x : runner) : nat := refn1 x + armedn x.

Definition reason (s : state) (r : nat) : nat :=
  getd ra (runners s) r + occ r (expq s) + cnt (expf r) (thr s).

Definition I_id (s : state) : Prop :=
  forall r, rclosed s r = false -> cnt (freshr r) (thr s) = 0 -> 1 <= reason s r.

Lemma wake_expf r t' p : expf r (wake t' p) = expf r p.
Proof. destruct p; simpl; auto; destruct (Z.leb u t'); reflexivity. Qed.

Lemma fire_expf_ra r : forall rs i t',
  i <= r -> getd ra rs (r - i) <= getd ra (fst (fire rs i t')) (r - i) + cnt (expf r) (snd (fire rs i t')).
Proof.
  induction rs as [|x tl IH]; intros i t' Hi; simpl; [lia|].
  specialize (IH (S i) t'). destruct (fire tl (S i) t') as [tl' ps] eqn:E. simpl in IH.
  destruct (Nat.eq_dec i r) as [->|N].
  - rewrite Nat.sub_diag. unfold getd, ra, refn1, armedn. simpl.
    destruct (r_tm x) as [|[dl|]|] eqn:T; simpl; try rewrite T; try lia.
    destruct (Z.leb dl t'); simpl; try rewrite T; lia.
  - assert (Hs : r - i = S (r - S i)) by lia. rewrite Hs. unfold getd in *. simpl.
    specialize (IH ltac:(lia)).
    destruct (r_tm x) as [|[dl|]|]; simpl; try lia. destruct (Z.leb dl t'); simpl; lia.
Qed.

Section StepID.
Variables (c : config) (s s' : state) (l : label) (e : list event).
Hypothesis Hf : fixed c.
Hypothesis IO : I_one s.
Hypothesis I2 : L2 s.
Hypothesis I3 : L3 s.
Hypothesis I : I_id s.
Hypothesis H : step c s l = Some (s', e).

Ltac id_sums r Ep :=
  repeat (erewrite (cnt_upd_eq (expf r)) by (first [exact Ep | apply nth_error_snoc_old; exact Ep]));
  repeat (erewrite (cnt_upd_eq (freshr r)) by (first [exact Ep | apply nth_error_snoc_old; exact Ep]));
  rewrite ?cnt_snoc; unfold occ; rewrite ?cnt_snoc;
  repeat (erewrite getd_upd by eassumption); rewrite ?getd_snoc;
  repeat (erewrite getf_upd by eassumption); rewrite ?getf_snoc.

Ltac split_r r :=
  repeat match goal with
  | H : context [Nat.eqb ?a r] |- _ => is_var a; let Q := fresh "Q" in destruct (Nat.eqb a r) eqn:Q; [apply Nat.eqb_eq in Q; subst a|]
  | |- context [Nat.eqb ?a r] => is_var a; let Q := fresh "Q" in destruct (Nat.eqb a r) eqn:Q; [apply Nat.eqb_eq in Q; subst a|]
  end.

Lemma I_id_step : I_id s'.
Proof.
  unfold I_id, reason, rclosed in *. fix_cfg c Hf. intros r Hc Hfr.
  destruct l as [sp|q0|m|d|t alt].
  - step_cases H; simpl in *; apply I; auto.
  - step_cases H; simpl in *; apply I; auto.
  - step_cases H; simpl in *; rewrite !cnt_snoc in *.
    assert (Z : freshr r (TEntry (AXLm m)) = 0) by reflexivity. rewrite Z in Hfr. simpl. specialize (I r Hc ltac:(lia)). lia.
  - step_cases H. rewrite tick_runners, tick_thr, !cnt_app in *.
    rewrite wake_cnt in * by (intros; first [apply wake_expf | apply wake_freshr]).
    rewrite (fire_pcs_zero (freshr r)) in Hfr by reflexivity. rewrite Nat.add_0_r in Hfr.
    rewrite (fire_getf r_closed true) in Hc by reflexivity.
    specialize (I r Hc Hfr).
    pose proof (fire_expf_ra r (runners s) 0 (now s + d)%Z ltac:(lia)) as Fa. rewrite Nat.sub_0_r in Fa.
    unfold tick. destruct (fire (runners s) 0 (now s + d)%Z). simpl in *. lia.
  - unfold step in H. destruct (nth_error (thr s) t) as [p|] eqn:Ep; try discriminate.
    pose proof (cnt_ge (expf r) _ _ _ Ep) as GeE. pose proof (cnt_ge (freshr r) _ _ _ Ep) as GeF.
    destruct p; step_cases H; simpl in *; unfold getq, getr in *;
    revert Hc Hfr; id_sums r Ep; simpl; intros Hc Hfr;
    (* rules that do not touch runners or the expired queue *)
    try (unfold freshr in *; simpl in *; specialize (I r Hc ltac:(unfold eqn in *; lia)); unfold occ in I; unfold eqn in *; lia).
    all: try (match goal with
              | |- context [cnt (expf ?rr) _] =>
                match goal with
                | |- context [if Nat.eqb ?r0 rr then _ else _] =>
                    is_var r0; destruct (Nat.eqb r0 rr) eqn:Q; [apply Nat.eqb_eq in Q; subst r0|]
                end
              end).
    all: unfold freshr in *; simpl in Hc, Hfr |- *.
    (* the runner that the step touches is another one *)
    all: try (match goal with |- context [cnt (expf ?rr) _] =>
              specialize (I rr Hc ltac:(unfold eqn in *; rewrite ?Q in *; lia)); unfold occ in I; unfold eqn in *; rewrite ?Q in *; simpl in *; lia end).
    (* the step touches r itself *)
    all: try (match goal with |- context [cnt (expf ?rr) _] =>
      match goal with E : nth_error (runners s) rr = Some ?x |- _ =>
        assert (Hc0 : getf r_closed true (runners s) rr = false) by (erewrite getf_some by exact E; exact Hc);
        assert (Hf0 : cnt (freshr rr) (thr s) = 0) by (unfold freshr, eqn in *; rewrite ?Nat.eqb_refl in *; lia);
        pose proof (I rr Hc0 Hf0) as I0; unfold occ, getd in I0; rewrite E in I0;
        unfold ra, refn1, armedn in *; simpl in *; unfold eqn in *; rewrite ?Nat.eqb_refl in *;
        repeat match goal with E2 : N.eqb _ 0 = _ |- _ => rewrite E2 in * end;
        repeat match goal with E2 : N.ltb 0 _ = false |- _ => apply N.ltb_ge in E2 end;
        simpl in *; try lia;
        destruct (r_tm x); simpl in *; try lia;
        destruct (N.eqb (r_ref x) 0) eqn:RZ; simpl in *; try lia
      end end).
    (* PUse: refCount becomes positive *)
    all: try (match goal with |- context [N.eqb (N.succ ?n) 0] =>
              replace (N.eqb (N.succ n) 0) with false by (symmetry; apply N.eqb_neq; lia) end; lia).
    (* PNs: the new runner is fresh *)
    1,2: destruct (Nat.eqb r (length (runners s))) eqn:Q;
      [ apply Nat.eqb_eq in Q; subst r; unfold eqn in Hfr; rewrite Nat.eqb_refl in Hfr; lia
      | unfold eqn in Hfr; rewrite Nat.eqb_sym, Q in Hfr; specialize (I r Hc ltac:(unfold eqn in *; lia)); unfold occ in I; lia ].
    1: { (* PLd2: the registered runner holds the load's reference *)
      destruct (l3_fresh s I3 _ _ _ _ Ep eq_refl) as (_ & _ & R1). unfold rref in R1.
      rewrite (getf_some _ _ _ _ _ E) in R1. unfold ra, refn1. simpl. rewrite R1. simpl. lia. }
    1: { (* CE2, stale event: it is not for a registered runner *)
      destruct (Nat.eqb r0 r) eqn:Q.
      - apply Nat.eqb_eq in Q; subst r0. exfalso.
        destruct (l2_live s I2 r Hc) as [(m & M1 & M2)|Fz]; [|unfold freshr in Fz; lia].
        unfold stale in E3. unfold rmodel in M1. rewrite (getf_some _ _ _ _ _ E) in M1. inv M1.
        rewrite M2 in E3. rewrite Nat.eqb_refl in E3. discriminate.
      - specialize (I r Hc ltac:(lia)). unfold occ in I. unfold eqn in *. rewrite Q in *. lia. }
    (* CEV: the runner is (or already was) shut down, so the premise does not hold for it *)
    all: try congruence.
    all: simpl in Hc; discriminate.
Qed.

End StepID.

Lemma I_id_Reach c s ev : fixed c -> Reach c s ev -> I_id s.
Proof.
  intros Hf R. induction R as [m|s ev l s' e R IH Hs].
  - intros r Hc. unfold rclosed, getf in Hc. simpl in Hc. destruct r; discriminate.
  - destruct (I_locks_Reach _ _ _ Hf R) as (_ & _ & C). eapply I_id_step; eauto.
    + eapply L2_Reach; eauto.
    + eapply L3_Reach; eauto.
Qed.

(* ------------------------------------------------------------------ a pending loop that waits for an unload gets its token *)

Fixpoint ptarget (p : pc) : list nat :=
  match p with
  | PNr _ r | PPing _ r | PUse _ r | PExp _ r | PExpSend _ r | PWait _ r => [r]
  | PFvR _ rest first => first :: rest
  | TEntry p' => ptarget p'
  | _ => []
  end.

Fixpoint tokpend (p : pc) : nat :=
  match p with CEV _ | CEFin | CETok => 1 | TEntry p' => tokpend p' | _ => 0 end.

(* every runner the pending loop has looked up and may have to wait for is still registered, or an "unloaded"
   event is available or about to be produced *)
Definition I_tk (s : state) : Prop :=
  forall t p r, nth_error (thr s) t = Some p -> In r (ptarget p) ->
  (rclosed s r = false /\ cnt (freshr r) (thr s) = 0) \/ 1 <= unlq s + cnt tokpend (thr s).

Lemma wake_ptarget t' p : ptarget (wake t' p) = ptarget p.
Proof. destruct p; simpl; auto; destruct (Z.leb u t'); reflexivity. Qed.
Lemma wake_tokpend t' p : tokpend (wake t' p) = tokpend p.
Proof. destruct p; simpl; auto; destruct (Z.leb u t'); reflexivity. Qed.

Lemma tick_unlq s d : unlq (tick s d) = unlq s.
Proof. unfold tick. destruct (fire (runners s) 0 (now s + d)%Z); reflexivity. Qed.

Lemma ptarget_isP p r : In r (ptarget p) -> isP p = 1.
Proof. induction p; simpl; intros Hin; try tauto; auto. Qed.

Section StepTK.
Variables (c : config) (s s' : state) (l : label) (e : list event).
Hypothesis Hf : fixed c.
Hypothesis IO : I_one s.
Hypothesis I2 : L2 s.
Hypothesis I : I_tk s.
Hypothesis H : step c s l = Some (s', e).

Lemma registered_not_fresh m r : lookup (loaded s) m = Some r -> rclosed s r = false /\ cnt (freshr r) (thr s) = 0.
Proof.
  intros L. destruct (l2_loaded s I2 _ _ L) as [_ K]. split; auto.
  destruct (cnt (freshr r) (thr s)) eqn:C; auto. exfalso.
  destruct (fresh_thread s r ltac:(lia)) as (t & p & q & Ht & Hp).
  destruct (l2_fresh s I2 _ _ _ _ Ht Hp) as (_ & _ & F4). eapply F4; eauto.
Qed.

Lemma snapshot_registered r : In r (map snd (loaded s)) -> rclosed s r = false /\ cnt (freshr r) (thr s) = 0.
Proof.
  intros Hin. destruct (loaded_value_lookup _ _ (l2_nodup s I2) Hin) as (m & L). eapply registered_not_fresh; eauto.
Qed.

Lemma onlyP t1 t2 p1 p2 :
  t1 <> t2 -> nth_error (thr s) t1 = Some p1 -> nth_error (thr s) t2 = Some p2 -> isP p1 = 1 -> isP p2 = 1 -> False.
Proof. intros N H1 H2 P1 P2. pose proof (cnt_two isP _ _ _ _ _ N H1 H2). destruct IO as [IP _]. lia. Qed.

Ltac tk_sums r Ep :=
  repeat (erewrite (cnt_upd_eq tokpend) by (first [exact Ep | apply nth_error_snoc_old; exact Ep]));
  repeat (erewrite (cnt_upd_eq (freshr r)) by (first [exact Ep | apply nth_error_snoc_old; exact Ep]));
  rewrite ?cnt_snoc.

Lemma I_tk_step : I_tk s'.
Proof.
  unfold I_tk in *. fix_cfg c Hf. intros t' p' r' Hn Hin.
  destruct l as [sp|q0|m|d|t alt].
  - step_cases H; unfold rclosed in *; simpl in *; eauto.
  - step_cases H; unfold rclosed in *; simpl in *; eauto.
  - step_cases H; unfold rclosed in *; simpl in *. apply nth_error_snoc in Hn. destruct Hn as [Hn|[-> ->]]; [|simpl in Hin; tauto].
    destruct (I _ _ _ Hn Hin) as [[A B]|A]; [left|right]; rewrite ?cnt_snoc; simpl; auto.
    split; auto. assert (Z : freshr r' (TEntry (AXLm m)) = 0) by reflexivity. lia. lia.
  - step_cases H. apply tick_thr_cases in Hn. destruct Hn as [(p0 & Hn & ->)|(r & ->)]; [|simpl in Hin; tauto].
    rewrite wake_ptarget in Hin. rewrite tick_rclosed, tick_unlq, tick_thr, !cnt_app.
    rewrite !wake_cnt by (intros; first [apply wake_tokpend | apply wake_freshr]).
    rewrite (fire_pcs_zero (freshr r')) by reflexivity. rewrite (fire_pcs_zero tokpend) by reflexivity.
    destruct (I _ _ _ Hn Hin) as [[A B]|A]; [left; split; auto; lia|right; lia].
  - unfold step in H. destruct (nth_error (thr s) t) as [p|] eqn:Ep; try discriminate.
    pose proof (cnt_ge tokpend _ _ _ Ep) as GeT. pose proof (cnt_ge (freshr r') _ _ _ Ep) as GeF.
    destruct p; step_cases H; simpl in Hn; thr_cases Hn; simpl in Hin; try tauto;
    (* another thread's targets: the stepping thread is not the pending loop *)
    try (destruct (I _ _ _ Hn Hin) as [[A B]|A];
         [ unfold rclosed in *; simpl in *; unfold getr, getq in *;
           first [ left; split; [acc_norm; eqb_cases; auto; fail | tk_sums r' Ep; unfold freshr in *; simpl in *; unfold eqn in *; lia ]
                 | right; simpl; tk_sums r' Ep; simpl in *; lia ]
         | right; simpl; tk_sums r' Ep; simpl in *; lia ]; fail).
    (* a thread other than the stepping pending loop has targets: there is only one pending loop *)
    all: try (match goal with Hne : _ <> _ |- _ =>
                exfalso; eapply (onlyP _ _ _ _ Hne Hn Ep); [eapply ptarget_isP; eauto|reflexivity] end).
    (* the pending loop consumed an unloaded event without moving (PSel): it has no targets *)
    all: try (match goal with |- context [s_unlq s _] =>
                destruct (Nat.eq_dec t' t) as [->|NE];
                [ rewrite Ep in Hn; inv Hn; simpl in Hin; tauto
                | exfalso; eapply (onlyP _ _ _ _ NE Hn Ep); [eapply ptarget_isP; eauto|reflexivity] ] end).
    (* lookups: the runner found is registered *)
    all: try (match goal with L : lookup (loaded s) _ = Some ?n |- _ =>
                destruct Hin as [<-|[]]; destruct (registered_not_fresh _ _ L) as [A B]; left;
                unfold rclosed in *; simpl; split; auto; tk_sums n Ep; unfold freshr in *; simpl in *; lia end).
    (* the stepping pending loop keeps (a subset of) its targets *)
    all: try (match goal with
              | Ep : nth_error (thr s) _ = Some ?old |- _ =>
                assert (Hold : In r' (ptarget old)) by (simpl in *; tauto);
                destruct (I _ _ _ Ep Hold) as [[A B]|A];
                [ left; unfold rclosed, getr, getq in *; simpl in *; split;
                  [ acc_norm; eqb_cases; auto | tk_sums r' Ep; unfold freshr in *; simpl in *; unfold eqn in *; lia ]
                | right; simpl; tk_sums r' Ep; simpl in *; lia ]
              end).
    (* PFv: the candidates are registered *)
    assert (Hreg : rclosed s r' = false /\ cnt (freshr r') (thr s) = 0).
    { apply snapshot_registered. apply (vsort_In s). rewrite E0. simpl in Hin. destruct Hin as [<-|Hin]; [left; auto|exact Hin]. }
    destruct Hreg as [A B]. left. unfold rclosed in *. simpl. split; auto. tk_sums r' Ep. unfold freshr in *. simpl in *. lia.
Qed.

End StepTK.

Lemma I_tk_Reach c s ev : fixed c -> Reach c s ev -> I_tk s.
Proof.
  intros Hf R. induction R as [m|s ev l s' e R IH Hs].
  - intros t p r Ht Hin. destruct t as [|[|[|t]]]; simpl in Ht; try discriminate; inv Ht; simpl in Hin; tauto.
  - destruct (I_locks_Reach _ _ _ Hf R) as (_ & _ & C). eapply I_tk_step; eauto. eapply L2_Reach; eauto.
Qed.
