(* Sched/InvStruct.v - structural invariants of the repaired scheduler: what [loaded] contains, where fresh runners
   live, what a thread about to hand out / shut down a runner knows about it. *)
From Coq Require Import List ZArith NArith Bool Lia Arith.
From V Require Import Sched.Lts Sched.Tac Sched.Reach Sched.InvOwn Sched.InvLock.
Import ListNotations.

Definition rclosed (s : state) (r : nat) : bool := getf r_closed true (runners s) r.
Definition rmodel (s : state) (r : nat) : option nat := getf (fun x => Some (r_model x)) None (runners s) r.
Definition qmodel (s : state) (q : nat) : option nat := getf (fun x => Some (q_model x)) None (reqs s) q.

(* the pending loop has decided to start a runner for q (nothing is loaded for q's model) *)
Fixpoint inplace (p : pc) : option nat :=
  match p with
  | PNs q | PFlt q | PUfs q _ | PUfsR q _ _ | PLd1 q _ | PLd2 q _ => Some q
  | TEntry p' => inplace p'
  | _ => None
  end.

(* the runner has been created but is not yet registered in [loaded] *)
Fixpoint freshpc (p : pc) : option (nat * nat) :=
  match p with
  | PLd1 q r | PLd2 q r => Some (q, r)
  | TEntry p' => freshpc p'
  | _ => None
  end.

Definition freshr (r : nat) (p : pc) : nat := match freshpc p with Some (_, r') => eqn r' r | None => 0 end.

(* threads inside a critical section of refMu(r) that rely on r still being loaded *)
Fixpoint livepc (p : pc) : option nat :=
  match p with
  | PUseSend _ r | LWWait _ r | LWErr _ r | LWExp r | LWOk _ r => Some r
  | TEntry p' => livepc p'
  | _ => None
  end.

Fixpoint cevpc (p : pc) : option nat :=
  match p with CEV r => Some r | TEntry p' => cevpc p' | _ => None end.

Definition okreply (rp : reply) : Prop := match rp with ROk _ c => c = false | _ => True end.

Record L2 (s : state) : Prop := mkL2 {
  l2_nodup : NoDup (map fst (loaded s));
  l2_loaded : forall m r, lookup (loaded s) m = Some r -> rmodel s r = Some m /\ rclosed s r = false;
  l2_absent : forall t p q, nth_error (thr s) t = Some p -> inplace p = Some q ->
              exists m, qmodel s q = Some m /\ lookup (loaded s) m = None;
  l2_fresh : forall t p q r, nth_error (thr s) t = Some p -> freshpc p = Some (q, r) ->
             rclosed s r = false /\ (exists m, qmodel s q = Some m /\ rmodel s r = Some m) /\
             (forall m, lookup (loaded s) m <> Some r);
  l2_live : forall r, rclosed s r = false ->
            (exists m, rmodel s r = Some m /\ lookup (loaded s) m = Some r) \/ 1 <= cnt (freshr r) (thr s);
  l2_cev : forall t p r, nth_error (thr s) t = Some p -> cevpc p = Some r ->
           exists m, rmodel s r = Some m /\ lookup (loaded s) m = Some r;
  l2_livepc : forall t p r, nth_error (thr s) t = Some p -> livepc p = Some r -> rclosed s r = false;
  l2_replies : forall q x, getq s q = Some x -> Forall okreply (q_replies x)
}.

(* ------------------------------------------------------------------ list facts *)

Lemma remove_key_fst l m : ~ In m (map fst (remove_key l m)).
Proof.
  induction l as [|[k v] tl IH]; simpl; auto. destruct (Nat.eqb k m) eqn:E; auto.
  simpl. intros [H|H]; auto. apply Nat.eqb_neq in E. congruence.
Qed.

Lemma remove_key_NoDup l m : NoDup (map fst l) -> NoDup (map fst (remove_key l m)).
Proof.
  induction l as [|[k v] tl IH]; simpl; intros N; auto. inv N.
  destruct (Nat.eqb k m); auto. simpl. constructor; auto.
  intros H. apply H1. apply in_map_iff in H. destruct H as ([k' v'] & E & H). simpl in E; subst.
  apply remove_key_incl in H. apply in_map_iff. exists (k, v'). tauto.
Qed.

Lemma insert_NoDup l m r : NoDup (map fst l) -> NoDup (map fst (insert l m r)).
Proof. intros N. unfold insert. simpl. constructor. apply remove_key_fst. apply remove_key_NoDup; auto. Qed.

Lemma lookup_remove_key_none l m m' : lookup l m' = None -> lookup (remove_key l m) m' = None.
Proof.
  induction l as [|[k v] tl IH]; simpl; auto. destruct (Nat.eqb k m') eqn:E; try discriminate.
  intros H. destruct (Nat.eqb k m); auto. simpl. rewrite E. auto.
Qed.

Lemma lookup_remove_key_some l m m' r : lookup (remove_key l m) m' = Some r -> lookup l m' = Some r /\ m <> m'.
Proof.
  intros H. destruct (Nat.eq_dec m m') as [->|N].
  - rewrite lookup_remove_key_eq in H. discriminate.
  - rewrite lookup_remove_key_neq in H; auto.
Qed.

Lemma lookup_insert_some l m r m' r' :
  lookup (insert l m r) m' = Some r' -> (m = m' /\ r = r') \/ (m <> m' /\ lookup l m' = Some r').
Proof.
  intros H. destruct (Nat.eq_dec m m') as [->|N].
  - rewrite lookup_insert_eq in H. inv H. auto.
  - rewrite lookup_insert_neq in H; auto.
Qed.

(* ------------------------------------------------------------------ accessors under the updates of a step *)

Lemma rclosed_setr s r x y j : getr s r = Some x -> r_closed y = r_closed x -> rclosed (setr s r y) j = rclosed s j.
Proof. intros E C. unfold rclosed, setr. simpl. eapply getf_upd_same; eauto. Qed.

Lemma rmodel_setr s r x y j : getr s r = Some x -> r_model y = r_model x -> rmodel (setr s r y) j = rmodel s j.
Proof. intros E C. unfold rmodel, setr. simpl. eapply getf_upd_same; eauto; simpl; congruence. Qed.

Lemma qmodel_setq s q x y j : getq s q = Some x -> q_spec y = q_spec x -> qmodel (setq s q y) j = qmodel s j.
Proof. intros E C. unfold qmodel, setq. simpl. eapply getf_upd_same; eauto; unfold q_model; simpl; congruence. Qed.

Lemma rclosed_false s r : rclosed s r = false -> exists x, getr s r = Some x /\ r_closed x = false.
Proof. unfold rclosed, getf, getr. destruct (nth_error (runners s) r); intros H; try discriminate. eauto. Qed.

Lemma rclosed_get s r x : getr s r = Some x -> rclosed s r = r_closed x.
Proof. unfold rclosed, getr. intros E. erewrite getf_some; eauto. Qed.

Lemma rmodel_get s r x : getr s r = Some x -> rmodel s r = Some (r_model x).
Proof. unfold rmodel, getr. intros E. erewrite getf_some; eauto. Qed.

Lemma qmodel_get s q x : getq s q = Some x -> qmodel s q = Some (q_model x).
Proof. unfold qmodel, getq. intros E. erewrite getf_some; eauto. Qed.

Lemma rclosed_range s r : rclosed s r = false -> r < length (runners s).
Proof. intros H. apply rclosed_false in H. destruct H as (x & E & _). apply nth_error_Some. unfold getr in E. congruence. Qed.

(* ------------------------------------------------------------------ thread list after a step *)

Lemma nth_upd_cases {A} (l : list A) t y t' p' :
  nth_error (upd l t y) t' = Some p' -> (t' = t /\ p' = y) \/ (t' <> t /\ nth_error l t' = Some p').
Proof. intros H. apply nth_error_upd in H. destruct H as [(-> & -> & _)|[N H]]; auto. Qed.

Lemma nth_upd_snoc_cases {A} (l : list A) z t y t' p' :
  nth_error (upd (l ++ [z]) t y) t' = Some p' ->
  (t' = t /\ p' = y) \/ (t' <> t /\ nth_error l t' = Some p') \/ (t' <> t /\ t' = length l /\ p' = z).
Proof.
  intros H. apply nth_error_upd in H. destruct H as [(-> & -> & _)|[N H]]; auto.
  apply nth_error_snoc in H. destruct H as [H|[-> ->]]; auto.
Qed.

Ltac thr_cases Hn :=
  first [ apply nth_upd_snoc_cases in Hn; destruct Hn as [[? ?]|[[? Hn]|[? [? ?]]]]
        | apply nth_upd_cases in Hn; destruct Hn as [[? ?]|[? Hn]]
        | idtac ]; subst.

Ltac acc_unfold := unfold rclosed, rmodel, qmodel, getr, getq in *.

Ltac acc_norm :=
  repeat first
  [ erewrite getf_upd_same by (first [eassumption | simpl; reflexivity | simpl; congruence])
  | erewrite getf_upd by eassumption
  | rewrite getf_snoc ].

Lemma wake_inplace t' p : inplace (wake t' p) = inplace p.
Proof. destruct p; simpl; auto; destruct (Z.leb u t'); reflexivity. Qed.
Lemma wake_freshpc t' p : freshpc (wake t' p) = freshpc p.
Proof. destruct p; simpl; auto; destruct (Z.leb u t'); reflexivity. Qed.
Lemma wake_livepc t' p : livepc (wake t' p) = livepc p.
Proof. destruct p; simpl; auto; destruct (Z.leb u t'); reflexivity. Qed.
Lemma wake_cevpc t' p : cevpc (wake t' p) = cevpc p.
Proof. destruct p; simpl; auto; destruct (Z.leb u t'); reflexivity. Qed.
Lemma wake_freshr r t' p : freshr r (wake t' p) = freshr r p.
Proof. unfold freshr. rewrite wake_freshpc. reflexivity. Qed.

Lemma fire_pcs_In rs : forall i t' p, In p (snd (fire rs i t')) -> exists r, p = TEntry (TMLk r).
Proof.
  induction rs as [|x tl IH]; intros i t' p; simpl; [tauto|].
  specialize (IH (S i) t' p). destruct (fire tl (S i) t') as [tl' ps]. simpl in IH.
  destruct (r_tm x) as [|[dl|]|]; simpl; auto. destruct (Z.leb dl t'); simpl; auto.
  intros [<-|H]; eauto.
Qed.

(* a thread of the state after a tick is a (possibly woken) old thread or a fresh timer callback *)
Lemma tick_thr_cases s d t p :
  nth_error (thr (tick s d)) t = Some p ->
  (exists p0, nth_error (thr s) t = Some p0 /\ p = wake (now s + d)%Z p0) \/ (exists r, p = TEntry (TMLk r)).
Proof.
  rewrite tick_thr. intros H.
  destruct (Nat.lt_ge_cases t (length (map (wake (now s + d)%Z) (thr s)))) as [L|L].
  - rewrite nth_error_app1 in H; auto. rewrite nth_error_map in H.
    destruct (nth_error (thr s) t) as [p0|]; simpl in H; try discriminate. inv H. left; eauto.
  - rewrite nth_error_app2 in H; auto. apply nth_error_In in H. apply fire_pcs_In in H. right; auto.
Qed.

Lemma tick_rclosed s d r : rclosed (tick s d) r = rclosed s r.
Proof. unfold rclosed. rewrite tick_runners. apply fire_getf. reflexivity. Qed.
Lemma tick_rmodel s d r : rmodel (tick s d) r = rmodel s r.
Proof. unfold rmodel. rewrite tick_runners. apply fire_getf. reflexivity. Qed.
Lemma tick_qmodel s d q : qmodel (tick s d) q = qmodel s q.
Proof. unfold qmodel. rewrite tick_reqs. reflexivity. Qed.

Section Step.
Variables (c : config) (s s' : state) (l : label) (e : list event).
Hypothesis Hf : fixed c.
Hypothesis IM : I_muc s.
Hypothesis IL : I_lmuc s.
Hypothesis IO : I_one s.
Hypothesis I : L2 s.
Hypothesis H : step c s l = Some (s', e).

Lemma l2_nodup_step : NoDup (map fst (loaded s')).
Proof.
  pose proof (l2_nodup s I) as N. clear IM IL IO I. fix_cfg c Hf.
  destruct l as [sp|q0|m|d|t alt].
  - step_cases H; simpl; auto.
  - step_cases H; simpl; auto.
  - step_cases H; simpl; auto.
  - step_cases H. rewrite tick_loaded. auto.
  - unfold step in H. destruct (nth_error (thr s) t) as [p|] eqn:Ep; try discriminate.
    destruct p; step_cases H; simpl; auto using insert_NoDup, remove_key_NoDup.
    constructor; [apply remove_key_fst | apply remove_key_NoDup; auto].
Qed.

Lemma l2_loaded_step : forall m r, lookup (loaded s') m = Some r -> rmodel s' r = Some m /\ rclosed s' r = false.
Proof.
  pose proof (l2_loaded s I) as K. fix_cfg c Hf. intros m0 r0 Hl.
  destruct l as [sp|q0|m|d|t alt].
  - step_cases H; acc_unfold; simpl in *; auto.
  - step_cases H; acc_unfold; simpl in *; auto.
  - step_cases H; acc_unfold; simpl in *; auto.
  - step_cases H. rewrite tick_loaded in Hl. rewrite tick_rmodel, tick_rclosed. auto.
  - unfold step in H. destruct (nth_error (thr s) t) as [p|] eqn:Ep; try discriminate.
    destruct p; step_cases H; simpl in *;
    try (destruct (K _ _ Hl) as [K1 K2]; pose proof (rclosed_range _ _ K2); acc_unfold; simpl; acc_norm;
         eqb_cases; try lia; auto; fail).
    1: { (* PLd2: the fresh runner is registered *)
      destruct (l2_fresh s I _ _ _ _ Ep eq_refl) as (F1 & (mq' & F2 & F3) & F4).
      apply lookup_insert_some in Hl. destruct Hl as [[<- <-]|[N Hl]].
      * acc_unfold; simpl; acc_norm. rewrite (getf_some _ _ _ _ _ E) in *. simpl. auto.
      * destruct (K _ _ Hl) as [K1 K2]. acc_unfold; simpl; acc_norm. auto. }
    (* CEV: the runner is shut down (unless it already was) and removed *)
    all: apply lookup_remove_key_some in Hl; destruct Hl as [Hl N];
      destruct (K _ _ Hl) as [K1 K2]; acc_unfold; simpl; acc_norm; try (split; assumption);
      destruct (Nat.eqb r r0) eqn:Q; auto; apply Nat.eqb_eq in Q; subst;
      rewrite (getf_some _ _ _ _ _ E) in K1; inv K1; congruence.
Qed.

(* two different threads cannot both be the pending loop *)
Lemma two_P t1 t2 p1 p2 :
  t1 <> t2 -> nth_error (thr s) t1 = Some p1 -> nth_error (thr s) t2 = Some p2 -> isP p1 = 1 -> isP p2 = 1 -> False.
Proof.
  intros N H1 H2 P1 P2. pose proof (cnt_two isP _ _ _ _ _ N H1 H2). destruct IO as [IP _]. lia.
Qed.

Lemma inplace_isP p q : inplace p = Some q -> isP p = 1.
Proof. induction p; simpl; intros E; try discriminate; auto. Qed.

Lemma l2_absent_step : forall t p q, nth_error (thr s') t = Some p -> inplace p = Some q ->
  exists m, qmodel s' q = Some m /\ lookup (loaded s') m = None.
Proof.
  pose proof (l2_absent s I) as A. fix_cfg c Hf. intros t' p' q' Hn Hp.
  destruct l as [sp|q0|m|d|t alt].
  - step_cases H; acc_unfold; simpl in *; destruct (A _ _ _ Hn Hp) as (m & A1 & A2); exists m; split; auto;
    rewrite getf_snoc; eqb_cases; auto; rewrite getf_none in A1 by lia; discriminate.
  - step_cases H; acc_unfold; simpl in *; destruct (A _ _ _ Hn Hp) as (m & A1 & A2); exists m; split; auto;
    acc_norm; auto.
  - step_cases H; simpl in *. apply nth_error_snoc in Hn. destruct Hn as [Hn|[-> ->]]; [|discriminate Hp].
    destruct (A _ _ _ Hn Hp) as (m' & A1 & A2); exists m'; split; auto.
  - step_cases H. apply tick_thr_cases in Hn. destruct Hn as [(p0 & Hn & ->)|(r & ->)]; [|discriminate Hp].
    rewrite wake_inplace in Hp. rewrite tick_loaded. destruct (A _ _ _ Hn Hp) as (m' & A1 & A2); exists m'; split; auto.
    rewrite tick_qmodel; auto.
  - unfold step in H. destruct (nth_error (thr s) t) as [p|] eqn:Ep; try discriminate.
    destruct p; step_cases H; simpl in Hn; thr_cases Hn; simpl in Hp; try discriminate Hp;
    try (match type of Hp with Some _ = Some _ => inv Hp end);
    (* another thread: its fact survives the step *)
    try (destruct (A _ _ _ Hn Hp) as (m' & A1 & A2); exists m'; acc_unfold; simpl in *; acc_norm; split; auto;
         try (apply lookup_remove_key_none; auto); fail);
    (* the stepping thread stays inside the placement *)
    try (destruct (A _ _ _ Ep eq_refl) as (m' & A1 & A2); exists m'; acc_unfold; simpl in *; acc_norm; split; auto; fail);
    (* the stepping thread enters the placement: the lookup it just made found nothing *)
    try (match goal with E0 : getq s _ = Some ?r |- _ => exists (q_model r) end; split;
         [acc_unfold; simpl in *; erewrite getf_some by eassumption; reflexivity | simpl; assumption]).
    + exfalso. eapply (two_P t' t); eauto using inplace_isP.
    + destruct (A _ _ _ Ep Hp) as (m' & A1 & A2); exists m'; split; auto.
Qed.

Lemma two_lmu t1 t2 p1 p2 :
  t1 <> t2 -> nth_error (thr s) t1 = Some p1 -> nth_error (thr s) t2 = Some p2 -> hl p1 = 1 -> hl p2 = 1 -> False.
Proof.
  intros N H1 H2 P1 P2. pose proof (cnt_two hl _ _ _ _ _ N H1 H2). unfold I_lmuc, lm1 in IL. destruct (lmu s); lia.
Qed.

Lemma lmu_held t p : nth_error (thr s) t = Some p -> hl p = 1 -> is_none (lmu s) = true -> False.
Proof.
  intros H1 P1 N. pose proof (cnt_ge hl _ _ _ H1). unfold I_lmuc, lm1 in IL. destruct (lmu s); simpl in N; try discriminate; lia.
Qed.

Lemma two_mu r t1 t2 p1 p2 :
  t1 <> t2 -> nth_error (thr s) t1 = Some p1 -> nth_error (thr s) t2 = Some p2 -> hr r p1 = 1 -> hr r p2 = 1 -> False.
Proof.
  intros N H1 H2 P1 P2. pose proof (cnt_two (hr r) _ _ _ _ _ N H1 H2). specialize (IM r).
  unfold getd, mu1 in IM. destruct (nth_error (runners s) r) as [x|]; [destruct (r_mu x)|]; lia.
Qed.

Lemma mu_held r t p x : nth_error (thr s) t = Some p -> hr r p = 1 -> getr s r = Some x -> is_none (r_mu x) = true -> False.
Proof.
  intros H1 P1 E N. pose proof (cnt_ge (hr r) _ _ _ H1). specialize (IM r). unfold getd, mu1, getr in *. rewrite E in IM.
  destruct (r_mu x); simpl in N; try discriminate; lia.
Qed.

Lemma cevpc_hl p r : cevpc p = Some r -> hl p = 1 /\ hr r p = 1.
Proof. induction p; simpl; intros E; try discriminate; auto. inv E. unfold eqn. rewrite Nat.eqb_refl. auto. Qed.

Lemma livepc_hr p r : livepc p = Some r -> hr r p = 1.
Proof. induction p; simpl; intros E; try discriminate; auto; inv E; unfold eqn; rewrite Nat.eqb_refl; auto. Qed.

Lemma freshpc_isP p q r : freshpc p = Some (q, r) -> isP p = 1.
Proof. induction p; simpl; intros E; try discriminate; auto. Qed.

Lemma freshpc_inplace p q r : freshpc p = Some (q, r) -> inplace p = Some q.
Proof. induction p; simpl; intros E; try discriminate; auto; inv E; auto. Qed.

Lemma l2_cev_step : forall t p r, nth_error (thr s') t = Some p -> cevpc p = Some r ->
  exists m, rmodel s' r = Some m /\ lookup (loaded s') m = Some r.
Proof.
  pose proof (l2_cev s I) as A. fix_cfg c Hf. intros t' p' r' Hn Hp.
  destruct l as [sp|q0|m|d|t alt].
  - step_cases H; acc_unfold; simpl in *; eauto.
  - step_cases H; acc_unfold; simpl in *; eauto.
  - step_cases H; simpl in *. apply nth_error_snoc in Hn. destruct Hn as [Hn|[-> ->]]; [|discriminate Hp]. eauto.
  - step_cases H. apply tick_thr_cases in Hn. destruct Hn as [(p0 & Hn & ->)|(r & ->)]; [|discriminate Hp].
    rewrite wake_cevpc in Hp. rewrite tick_loaded. destruct (A _ _ _ Hn Hp) as (m' & A1 & A2); exists m'; split; auto.
    rewrite tick_rmodel; auto.
  - unfold step in H. destruct (nth_error (thr s) t) as [p|] eqn:Ep; try discriminate.
    destruct p; step_cases H; simpl in Hn; thr_cases Hn; simpl in Hp; try discriminate Hp;
    try (match type of Hp with Some _ = Some _ => inv Hp end);
    try (destruct (A _ _ _ Hn Hp) as (m' & A1 & A2); exists m'; acc_unfold; simpl in *; acc_norm; split; auto; fail);
    try (destruct (A _ _ _ Hn Hp) as (m' & A1 & A2); exists m'; acc_unfold; simpl in *; acc_norm; split; auto;
         eqb_cases; auto; rewrite getf_none in A1 by lia; discriminate);
    try (destruct (A _ _ _ Ep Hp) as (m' & A1 & A2); exists m'; acc_unfold; simpl in *; acc_norm; split; auto; fail).
    + (* PLd2 while another thread is at CEV: it holds loadedMu *)
      exfalso. destruct (cevpc_hl _ _ Hp) as [L _]. apply andb_prop in E0. destruct E0 as [E0 _]. eapply lmu_held; eauto.
    + (* CE2 -> CEV: the stale test just succeeded *)
      unfold stale in E3. simpl in E3. destruct (lookup (loaded s) (r_model r0)) as [r2|] eqn:EL; try discriminate.
      apply negb_false_iff, Nat.eqb_eq in E3. subst r2.
      exists (r_model r0). acc_unfold; simpl in *; acc_norm. rewrite (getf_some _ _ _ _ _ E). auto.
    + (* CEV by another thread *)
      exfalso. destruct (cevpc_hl _ _ Hp) as [L _]. eapply (two_lmu t' t); eauto.
    + exfalso. destruct (cevpc_hl _ _ Hp) as [L _]. eapply (two_lmu t' t); eauto.
    + destruct (A _ _ _ Ep eq_refl) as (m' & A1 & A2); exists m'; split; auto.
Qed.

Lemma l2_livepc_step : forall t p r, nth_error (thr s') t = Some p -> livepc p = Some r -> rclosed s' r = false.
Proof.
  pose proof (l2_livepc s I) as A. fix_cfg c Hf. intros t' p' r' Hn Hp.
  destruct l as [sp|q0|m|d|t alt].
  - step_cases H; acc_unfold; simpl in *; eauto.
  - step_cases H; acc_unfold; simpl in *; eauto.
  - step_cases H; simpl in *. apply nth_error_snoc in Hn. destruct Hn as [Hn|[-> ->]]; [|discriminate Hp]. eauto.
  - step_cases H. apply tick_thr_cases in Hn. destruct Hn as [(p0 & Hn & ->)|(r & ->)]; [|discriminate Hp].
    rewrite wake_livepc in Hp. rewrite tick_rclosed. eauto.
  - unfold step in H. destruct (nth_error (thr s) t) as [p|] eqn:Ep; try discriminate.
    destruct p; step_cases H; simpl in Hn; thr_cases Hn; simpl in Hp; try discriminate Hp;
    try (match type of Hp with Some _ = Some _ => inv Hp end);
    try (pose proof (A _ _ _ Hn Hp) as A1; pose proof (rclosed_range _ _ A1); acc_unfold; simpl in *; acc_norm; eqb_cases; auto; lia);
    try (pose proof (A _ _ _ Ep eq_refl) as A1; acc_unfold; simpl in *; acc_norm; auto; fail);
    try (pose proof (A _ _ _ Ep Hp) as A1; acc_unfold; simpl in *; acc_norm; auto; fail).
    + (* PUse -> PUseSend: useLoadedRunner's re-check (fxB) *)
      simpl in E2. acc_unfold; simpl in *; acc_norm. erewrite getf_some by eassumption. auto.
    + simpl in E2. acc_unfold; simpl in *; acc_norm. erewrite getf_some by eassumption. auto.
    + (* PLd2: the load goroutine starts with the fresh runner *)
      destruct (l2_fresh s I _ _ _ _ Ep eq_refl) as (F1 & _). acc_unfold; simpl in *; acc_norm. auto.
    + (* CEV while another thread is inside refMu(r) *)
      pose proof (A _ _ _ Hn Hp) as A1. acc_unfold; simpl in *; acc_norm.
      destruct (Nat.eqb r r') eqn:Q; auto. apply Nat.eqb_eq in Q. subst. exfalso.
      eapply (two_mu r' t' t); eauto using livepc_hr. simpl. unfold eqn. rewrite Nat.eqb_refl. auto.
Qed.

Lemma l2_fresh_step : forall t p q r, nth_error (thr s') t = Some p -> freshpc p = Some (q, r) ->
  rclosed s' r = false /\ (exists m, qmodel s' q = Some m /\ rmodel s' r = Some m) /\
  (forall m, lookup (loaded s') m <> Some r).
Proof.
  pose proof (l2_fresh s I) as A. pose proof (l2_loaded s I) as K. fix_cfg c Hf. intros t' p' q' r' Hn Hp.
  destruct l as [sp|q0|m|d|t alt].
  - step_cases H; acc_unfold; simpl in *; destruct (A _ _ _ _ Hn Hp) as (A1 & (m' & A2 & A3) & A4);
    (split; [|split]); auto; exists m'; split; auto; rewrite getf_snoc; eqb_cases; auto;
    rewrite getf_none in A2 by lia; discriminate.
  - step_cases H; acc_unfold; simpl in *; destruct (A _ _ _ _ Hn Hp) as (A1 & (m' & A2 & A3) & A4);
    (split; [|split]); auto; exists m'; split; auto; acc_norm; auto.
  - step_cases H; simpl in *. apply nth_error_snoc in Hn. destruct Hn as [Hn|[-> ->]]; [|discriminate Hp]. eauto.
  - step_cases H. apply tick_thr_cases in Hn. destruct Hn as [(p0 & Hn & ->)|(r & ->)]; [|discriminate Hp].
    rewrite wake_freshpc in Hp. rewrite tick_loaded, tick_rclosed, tick_rmodel, tick_qmodel. eauto.
  - unfold step in H. destruct (nth_error (thr s) t) as [p|] eqn:Ep; try discriminate.
    destruct p; step_cases H; simpl in Hn; thr_cases Hn; simpl in Hp; try discriminate Hp;
    try (match type of Hp with Some _ = Some _ => inv Hp end);
    (* another thread *)
    try (destruct (A _ _ _ _ Hn Hp) as (A1 & (m' & A2 & A3) & A4); pose proof (rclosed_range _ _ A1);
         acc_unfold; simpl in *; acc_norm; (split; [|split]);
         [ eqb_cases; auto; lia
         | exists m'; split; auto; eqb_cases; auto; lia
         | intros m2 Hm; try (apply lookup_remove_key_some in Hm; destruct Hm as [Hm _]); eapply A4; eauto ]; fail);
    (* the stepping thread stays at a fresh program point *)
    try (destruct (A _ _ _ _ Ep eq_refl) as (A1 & (m' & A2 & A3) & A4);
         acc_unfold; simpl in *; acc_norm; (split; [|split]); eauto; fail);
    try (destruct (A _ _ _ _ Ep Hp) as (A1 & (m' & A2 & A3) & A4);
         acc_unfold; simpl in *; acc_norm; (split; [|split]); eauto; fail);
    (* PNs: the runner has just been created *)
    try (split; [|split];
         [ acc_unfold; simpl; rewrite getf_snoc, Nat.eqb_refl; reflexivity
         | exists (q_model r); split;
           [ acc_unfold; simpl in *; erewrite getf_some by eassumption; reflexivity
           | acc_unfold; simpl; rewrite getf_snoc, Nat.eqb_refl; reflexivity ]
         | simpl; intros m2 Hm; destruct (K _ _ Hm) as [_ K2]; apply rclosed_range in K2; lia ]; fail).
    + exfalso. eapply (two_P t' t); eauto using freshpc_isP.
    + destruct (A _ _ _ _ Hn Hp) as (A1 & (m' & A2 & A3) & A4).
      destruct (l2_cev s I _ _ _ Ep eq_refl) as (m3 & C1 & C2).
      assert (NE : r <> r') by (intros ->; eapply A4; eauto).
      acc_unfold; simpl in *; acc_norm. apply Nat.eqb_neq in NE. rewrite NE. (split; [|split]); auto.
      * exists m'; auto.
      * intros m2 Hm. apply lookup_remove_key_some in Hm. destruct Hm as [Hm _]. eapply A4; eauto.
Qed.

Ltac acc_norm_in Hc := revert Hc; acc_norm; intro Hc.

Lemma l2_live_step : forall r, rclosed s' r = false ->
  (exists m, rmodel s' r = Some m /\ lookup (loaded s') m = Some r) \/ 1 <= cnt (freshr r) (thr s').
Proof.
  pose proof (l2_live s I) as V. fix_cfg c Hf. intros r' Hc.
  destruct l as [sp|q0|m|d|t alt].
  - step_cases H; acc_unfold; simpl in *; eauto.
  - step_cases H; acc_unfold; simpl in *; eauto.
  - step_cases H; acc_unfold; simpl in *; destruct (V _ Hc) as [?|V1]; auto; right; rewrite cnt_snoc; simpl; lia.
  - step_cases H. rewrite tick_rclosed in Hc. rewrite tick_loaded, tick_thr, cnt_app.
    destruct (V _ Hc) as [(m' & V1 & V2)|V1]; [left; exists m'; rewrite tick_rmodel; auto|right].
    rewrite wake_cnt by (intros; apply wake_freshr). lia.
  - unfold step in H. destruct (nth_error (thr s) t) as [p|] eqn:Ep; try discriminate.
    pose proof (cnt_ge (freshr r') _ _ _ Ep) as Ge.
    destruct p; step_cases H; acc_unfold; simpl in *; acc_norm_in Hc;
    try (destruct (V _ Hc) as [(m' & V1 & V2)|V1];
         [ left; exists m'; acc_norm; split; auto
         | right; sums Ep; unfold freshr in *; simpl in *; eqb_cases; lia ]; fail).
    (* PNs (two keep-alive cases): the new runner is fresh *)
    1,2: destruct (Nat.eqb r' (length (runners s))) eqn:Q;
      [ right; sums Ep; unfold freshr in *; simpl in *; eqb_cases; lia
      | destruct (V _ Hc) as [(m' & V1 & V2)|V1];
        [ left; exists m'; split; auto
        | right; sums Ep; unfold freshr in *; simpl in *; eqb_cases; lia ] ].
    + (* PLd2: the fresh runner is registered under its model, where nothing was registered *)
      destruct (l2_absent s I _ _ _ Ep eq_refl) as (mq' & A1 & A2).
      destruct (l2_fresh s I _ _ _ _ Ep eq_refl) as (F1 & (mf & F2 & F3) & F4).
      acc_unfold. rewrite A1 in F2. inv F2. rewrite (getf_some _ _ _ _ _ E) in F3. inv F3.
      destruct (Nat.eq_dec r r') as [->|NE].
      * left. exists (r_model r0). rewrite Nat.eqb_refl. rewrite (getf_some _ _ _ _ _ E). auto.
      * destruct (V _ Hc) as [(m' & V1 & V2)|V1].
        -- left. exists m'. split; auto. destruct (Nat.eqb (r_model r0) m') eqn:Q.
          ++ apply Nat.eqb_eq in Q. subst. congruence.
          ++ apply Nat.eqb_neq in Q. rewrite lookup_remove_key_neq; auto.
        -- right. sums Ep. unfold freshr in *. simpl in *. eqb_cases; try lia; congruence.
    + (* CEV of a runner that was already shut down *)
      destruct (l2_cev s I _ _ _ Ep eq_refl) as (m3 & C1 & C2). acc_unfold. rewrite (getf_some _ _ _ _ _ E) in C1. inv C1.
      destruct (V _ Hc) as [(m' & V1 & V2)|V1].
      * left. exists m'. split; auto. destruct (Nat.eq_dec (r_model r0) m') as [<-|NE].
        -- rewrite C2 in V2. inv V2. rewrite (getf_some _ _ _ _ _ E) in Hc. congruence.
        -- rewrite lookup_remove_key_neq; auto.
      * right. sums Ep. unfold freshr in *. simpl in *. lia.
    + (* CEV *)
      destruct (l2_cev s I _ _ _ Ep eq_refl) as (m3 & C1 & C2). acc_unfold. rewrite (getf_some _ _ _ _ _ E) in C1. inv C1.
      destruct (Nat.eqb r r') eqn:Q; try discriminate. apply Nat.eqb_neq in Q.
      destruct (V _ Hc) as [(m' & V1 & V2)|V1].
      * left. exists m'. split; auto. destruct (Nat.eq_dec (r_model r0) m') as [<-|NE].
        -- rewrite C2 in V2. inv V2. congruence.
        -- rewrite lookup_remove_key_neq; auto.
      * right. sums Ep. unfold freshr in *. simpl in *. lia.
Qed.

Lemma l2_replies_step : forall q x, getq s' q = Some x -> Forall okreply (q_replies x).
Proof.
  pose proof (l2_replies s I) as A. pose proof (l2_livepc s I) as G. fix_cfg c Hf. intros q' x' Hq.
  destruct l as [sp|q0|m|d|t alt].
  - step_cases H; unfold getq in *; simpl in *; apply nth_error_snoc in Hq; destruct Hq as [Hq|[-> ->]]; eauto; simpl; auto.
    repeat constructor.
  - step_cases H; unfold getq in *; simpl in *. apply nth_error_upd in Hq. destruct Hq as [(-> & -> & _)|[N Hq]]; eauto.
    simpl. eauto.
  - step_cases H; simpl in *; eauto.
  - step_cases H. unfold getq in *. rewrite tick_reqs in Hq. eauto.
  - unfold step in H. destruct (nth_error (thr s) t) as [p|] eqn:Ep; try discriminate.
    destruct p; step_cases H; unfold getq, getr in *; simpl in *; eauto;
    try (apply nth_error_upd in Hq; destruct Hq as [(-> & -> & _)|[N Hq]]; eauto; simpl;
         try (apply Forall_app; split; eauto; repeat constructor; simpl;
              try (pose proof (G _ _ _ Ep eq_refl) as G1; unfold rclosed in G1; erewrite getf_some in G1 by eassumption; exact G1))).
    all: eauto.
Qed.

End Step.

Lemma L2_step c s l s' e :
  fixed c -> I_muc s -> I_lmuc s -> I_one s -> L2 s -> step c s l = Some (s', e) -> L2 s'.
Proof.
  intros. constructor.
  - eapply l2_nodup_step; eauto.
  - eapply l2_loaded_step; eauto.
  - eapply l2_absent_step; eauto.
  - eapply l2_fresh_step; eauto.
  - eapply l2_live_step; eauto.
  - eapply l2_cev_step; eauto.
  - eapply l2_livepc_step; eauto.
  - eapply l2_replies_step; eauto.
Qed.

Lemma L2_init m : L2 (init_m m).
Proof.
  constructor; simpl; intros; try discriminate.
  - constructor.
  - destruct t as [|[|[|t]]]; simpl in *; try discriminate; inv H; simpl in *; discriminate.
  - destruct t as [|[|[|t]]]; simpl in *; try discriminate; inv H; simpl in *; discriminate.
  - unfold rclosed, getf in H. destruct r; discriminate.
  - destruct t as [|[|[|t]]]; simpl in *; try discriminate; inv H; simpl in *; discriminate.
  - destruct t as [|[|[|t]]]; simpl in *; try discriminate; inv H; simpl in *; discriminate.
  - unfold getq in H. destruct q; discriminate.
Qed.

Lemma L2_Reach c s ev : fixed c -> Reach c s ev -> L2 s.
Proof.
  intros Hf R. induction R as [m|s ev l s' e R IH Hs].
  - apply L2_init.
  - destruct (I_locks_Reach _ _ _ Hf R) as (A & B & C). eapply L2_step; eauto.
Qed.
