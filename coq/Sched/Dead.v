(* Sched/Dead.v - the repaired scheduler has no lock deadlock: whenever a thread waits for a mutex, some scheduler
   thread can take a step (the holder chain loadedMu -> refMu(r) ends in a thread that is runnable). *)
From Coq Require Import List ZArith NArith Bool Lia Arith.
From V Require Import Sched.Lts Sched.Tac Sched.Reach Sched.InvOwn Sched.InvLock Sched.InvStruct Sched.InvRef
  Sched.InvProg Sched.Refute.
Import ListNotations.

Definition can_step (c : config) (s : state) : Prop := exists t alt, step c s (LRun t alt) <> None.

Lemma can_step_thread c s t p alt :
  nth_error (thr s) t = Some p -> run_pc c s t p alt <> None -> can_step c s.
Proof. intros E N. exists t, alt. unfold step. rewrite E. exact N. Qed.

(* holding pcs *)
Lemma hr_mentions r p : hr r p <= mentions r p + freshr r p.
Proof.
  unfold freshr. induction p; simpl; auto; try lia.
Qed.

Lemma hr_le1 r p : hr r p <= 1.
Proof. induction p; simpl; auto; unfold eqn; try (destruct (Nat.eqb _ _); lia). Qed.

Section Dead.
Variables (c : config) (s : state).
Hypothesis Hf : fixed c.
Hypothesis IW : I_own s.
Hypothesis IM : I_muc s.
Hypothesis IL : I_lmuc s.
Hypothesis IO : I_one s.
Hypothesis I2 : L2 s.
Hypothesis INF : I_nf s.
Hypothesis IU : I_ufs s.

Lemma mention_range r : 1 <= cnt (mentions r) (thr s) -> exists x, getr s r = Some x.
Proof.
  intros Hm. unfold getr. destruct (nth_error (runners s) r) as [x|] eqn:E; eauto. exfalso.
  apply nth_error_None in E. specialize (INF r (or_introl E)). lia.
Qed.

Lemma owner_range q t p : nth_error (thr s) t = Some p -> ownf q p = 1 -> exists y, getq s q = Some y.
Proof.
  intros Ht Ho. specialize (IW q). unfold owned in IW. pose proof (cnt_ge (ownf q) _ _ _ Ht) as Ge. rewrite Ho in Ge.
  unfold getq. destruct (nth_error (reqs s) q) as [y|] eqn:E; eauto. exfalso.
  apply nth_error_None in E. destruct (Nat.ltb q (length (reqs s))) eqn:Q; [apply Nat.ltb_lt in Q; lia|lia].
Qed.

(* a held refMu(r) of a runner that somebody refers to: its holder can run *)
Lemma ref_holder_runs r x :
  getr s r = Some x -> r_mu x <> None -> 1 <= cnt (mentions r) (thr s) -> can_step c s.
Proof.
  intros E Hm Hmen. fix_cfg c Hf.
  pose proof (IM r) as M. unfold getd, mu1, getr in *. rewrite E in M.
  destruct (r_mu x) eqn:Mu; [|congruence].
  destruct (cnt_pos_In (hr r) (thr s) ltac:(lia)) as (p & Hin & Hp).
  apply In_nth_error in Hin. destruct Hin as [t Ht].
  assert (NF : freshr r p = 0).
  { destruct (freshr r p) eqn:F; auto. exfalso.
    pose proof (cnt_ge (freshr r) _ _ _ Ht) as Ge. assert (X : 1 <= cnt (freshr r) (thr s)) by lia.
    pose proof (INF r (or_intror X)). lia. }
  clear M Hmen.
  induction p; simpl in Hp; try lia;
  try (unfold eqn in Hp; match type of Hp with context [Nat.eqb ?a ?b] => destruct (Nat.eqb a b) eqn:Q; [apply Nat.eqb_eq in Q; subst|lia] end).
  all: try (eapply (can_step_thread _ _ t _ 0%Z); [exact Ht|]; unfold run_pc, guard, do_reply, getr, getq in *; simpl; rewrite ?E; simpl; try discriminate;
            match goal with
            | |- context [nth_error (reqs s) ?q] =>
                destruct (owner_range q _ _ Ht ltac:(simpl; unfold eqn; rewrite Nat.eqb_refl; reflexivity)) as (y & Ey);
                unfold getq in Ey; rewrite Ey; simpl; discriminate
            | _ => discriminate
            end).
  - (* PLd2: r would be fresh *)
    unfold freshr in NF. simpl in NF. unfold eqn in NF. rewrite Nat.eqb_refl in NF. discriminate.
  - (* TEntry: the goroutine can start *)
    eapply (can_step_thread _ _ t _ 0%Z); [exact Ht|]. unfold run_pc, guard. simpl. destruct p; discriminate.
Qed.

Lemma mention_pc r t p : nth_error (thr s) t = Some p -> 1 <= mentions r p -> 1 <= cnt (mentions r) (thr s).
Proof. intros Ht Hm. pose proof (cnt_ge (mentions r) _ _ _ Ht). lia. Qed.

(* refMu(r) of a runner somebody refers to: either it is free, or its holder can run *)
Lemma ref_free_or_runs r t p : nth_error (thr s) t = Some p -> 1 <= mentions r p ->
  (exists x, getr s r = Some x /\ r_mu x = None) \/ can_step c s.
Proof.
  intros Ht Hm. pose proof (mention_pc r t p Ht Hm) as Hc. destruct (mention_range r Hc) as (x & E).
  destruct (r_mu x) eqn:Mu; [right|left; eauto]. eapply ref_holder_runs; eauto. congruence.
Qed.

(* a held loadedMu: its holder, or the holder of the refMu it waits for, can run *)
Lemma lmu_holder_runs : lmu s <> None -> can_step c s.
Proof.
  intros Hl. pose proof IL as L. unfold I_lmuc, lm1 in L. destruct (lmu s) eqn:Lm; [|congruence].
  destruct (cnt_pos_In hl (thr s) ltac:(lia)) as (p & Hin & Hp).
  apply In_nth_error in Hin. destruct Hin as [t Ht].
  pose proof (Forall_nth_error _ _ _ _ IU Ht) as U.
  assert (Hf' := Hf). unfold fixed in Hf'.
  induction p; simpl in Hp; try lia.
  - (* PUfsR: visit the first remaining runner *)
    simpl in U. destruct rest as [|r tl]; [congruence|].
    destruct (ref_free_or_runs r t _ Ht) as [(x & E & Mu)|C]; auto.
    { simpl. rewrite inl_cons, Nat.eqb_refl. lia. }
    eapply (can_step_thread _ _ t _ 0%Z); [exact Ht|]. unfold run_pc, guard, decide. rewrite ?Hf'. simpl. rewrite E, Mu. simpl.
    destruct tl; simpl; discriminate.
  - (* CE2: lock refMu(r) *)
    destruct (ref_free_or_runs r t _ Ht) as [(x & E & Mu)|C]; auto.
    { simpl. unfold eqn. rewrite Nat.eqb_refl. lia. }
    eapply (can_step_thread _ _ t _ 0%Z); [exact Ht|]. unfold run_pc, guard. rewrite ?Hf'. simpl. rewrite E, Mu. simpl.
    destruct (N.ltb 0 (r_ref x)); [discriminate|]. destruct (stale s r x); discriminate.
  - (* CEV *)
    destruct (mention_range r (mention_pc r t _ Ht ltac:(simpl; unfold eqn; rewrite Nat.eqb_refl; lia))) as (x & E).
    eapply (can_step_thread _ _ t _ 0%Z); [exact Ht|]. unfold run_pc, guard. rewrite ?Hf'. simpl. rewrite E. simpl. destruct (r_closed x); discriminate.
  - (* AXLr *)
    destruct (ref_free_or_runs r t _ Ht) as [(x & E & Mu)|C]; auto.
    { simpl. unfold eqn. rewrite Nat.eqb_refl. lia. }
    eapply (can_step_thread _ _ t _ 0%Z); [exact Ht|]. unfold run_pc, guard. rewrite ?Hf'. simpl. rewrite E, Mu. simpl.
    destruct (N.eqb (r_ref x) 0); discriminate.
  - (* AXSend *)
    destruct (mention_range r (mention_pc r t _ Ht ltac:(simpl; unfold eqn; rewrite Nat.eqb_refl; lia))) as (x & E).
    eapply (can_step_thread _ _ t _ 0%Z); [exact Ht|]. unfold run_pc, guard. rewrite ?Hf'. simpl. rewrite E. simpl. discriminate.
  - (* TEntry *)
    eapply (can_step_thread _ _ t _ 0%Z); [exact Ht|]. unfold run_pc, guard. simpl. destruct p; discriminate.
Qed.

Lemma hr_fresh_P r p : 1 <= freshr r p -> isP p = 1.
Proof. unfold freshr. destruct (freshpc p) as [[q r']|] eqn:E; [|lia]. intros _. eapply freshpc_isP; eauto. Qed.

(* the repaired scheduler has no lock deadlock *)
Lemma no_lock_deadlock_here t : waits_for_mutex c s t -> can_step c s.
Proof.
  intros (p & m & Ht & Hw & Hh). destruct m as [|r].
  - apply lmu_holder_runs. simpl in Hh. destruct (lmu s); [discriminate|discriminate].
  - simpl in Hh. destruct (getr s r) as [x|] eqn:E; [|discriminate]. destruct (r_mu x) eqn:Mu; [|discriminate].
    assert (Hf' := Hf). unfold fixed in Hf'.
    destruct (Nat.eq_dec (mentions r p) 0) as [Z|NZ].
    + (* the waiting thread is the pending loop about to lock the refMu of its fresh runner: nobody holds it *)
      exfalso. assert (FP : freshr r p = 1).
      { destruct p; simpl in Hw; try discriminate; simpl in Z; unfold eqn in *;
        try (inv Hw; rewrite Nat.eqb_refl in Z; discriminate);
        try (destruct (fxC (c_fix c)); inv Hw; rewrite Nat.eqb_refl in Z; discriminate);
        try (destruct rest; try discriminate; inv Hw; rewrite inl_cons, Nat.eqb_refl in Z; simpl in Z; discriminate).
        inv Hw. unfold freshr. simpl. unfold eqn. rewrite Nat.eqb_refl. reflexivity. }
      pose proof (cnt_ge (freshr r) _ _ _ Ht) as Ge.
      assert (X : 1 <= cnt (freshr r) (thr s)) by lia. pose proof (INF r (or_intror X)) as NF.
      pose proof (IM r) as M. unfold getd, mu1, getr in *. rewrite E, Mu in M.
      destruct (cnt_pos_In (hr r) (thr s) ltac:(lia)) as (p2 & Hin & Hp2).
      apply In_nth_error in Hin. destruct Hin as [t2 Ht2].
      pose proof (hr_mentions r p2) as HM. pose proof (cnt_ge (mentions r) _ _ _ Ht2) as Ge2.
      assert (F2 : 1 <= freshr r p2) by lia.
      destruct (Nat.eq_dec t t2) as [->|NE].
      * rewrite Ht in Ht2. inv Ht2. destruct p2; simpl in Hw; try discriminate; simpl in Hp2; try lia;
        try (destruct (fxC (c_fix c)); discriminate); try (destruct rest; discriminate).
      * pose proof (cnt_two isP _ _ _ _ _ NE Ht Ht2) as Two. destruct IO as [IP _].
        rewrite (hr_fresh_P r p ltac:(lia)), (hr_fresh_P r p2 F2) in Two. lia.
    + eapply ref_holder_runs; eauto; try congruence. eapply mention_pc; eauto. lia.
Qed.

End Dead.

Theorem no_lock_deadlock c s ev t : fixed c -> Reach c s ev -> waits_for_mutex c s t -> can_step c s.
Proof.
  intros Hf R W. destruct (I_locks_Reach _ _ _ Hf R) as (A & B & C).
  eapply no_lock_deadlock_here; eauto using I_own_Reach, L2_Reach, I_nf_Reach, I_ufs_Reach.
Qed.
