(* C01 - the scheduler never unloads/closes a runner a request is still using; a runner is shut down at most
   once; a runner that has been shut down is never handed to a request.   Theorems only. *)
From Coq Require Import List ZArith NArith Bool.
From V Require Import Sched.Lts Sched.Reach Sched.InvClose Sched.InvLock Sched.Thm Sched.Examples.
Import ListNotations.

(* In the event history of ANY run of the scheduler model (any configuration, any number of models and
   requests, any interleaving of the scheduler's goroutines with submit / cancel / load outcome / ping outcome /
   timer / explicit-unload events) every runner is shut down at most once. *)
Theorem C01_close_once :
  forall c m ls s ev r, run c (init_m m) ls = Some (s, ev) -> n_close r ev <= 1.
Proof. intros c m ls s ev r H. eapply close_once. eapply run_Reach; eauto. Qed.
Print Assumptions C01_close_once.

Example C01_close_once_nonvacuous :
  exists s ev, run cfg_on (init_m 1) ex_load_unload = Some (s, ev) /\ n_close 0 ev = 1.
Proof. vm_compute. eexists; eexists; split; reflexivity. Qed.

(* For the repaired scheduler ([fixed c]: the three patches of fixes/ applied): in the event history of ANY run,
   every runner handed to a request (a reply "success r") was not shut down at that moment (llama != nil). *)
Theorem C01_no_grant_closed :
  forall c m ls s ev q r cl, fixed c -> run c (init_m m) ls = Some (s, ev) -> In (EReply q (ROk r cl)) ev -> cl = false.
Proof. intros c m ls s ev q r cl Hf H. eapply no_grant_closed; eauto. eapply run_Reach; eauto. Qed.
Print Assumptions C01_no_grant_closed.

Example C01_no_grant_closed_nonvacuous :
  fixed cfg_on /\ exists s ev, run cfg_on (init_m 1) ex_load_unload = Some (s, ev) /\ In (EReply 0 (ROk 0 false)) ev.
Proof. split. reflexivity. vm_compute. eexists; eexists; split. reflexivity. simpl. tauto. Qed.
