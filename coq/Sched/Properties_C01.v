(* C01 - the scheduler never unloads/closes a runner a request is still using; a runner is shut down at most
   once; a runner that has been shut down is never handed to a request.   Theorems only. *)
From Coq Require Import List ZArith NArith Bool.
From V Require Import Sched.Lts Sched.Reach Sched.InvClose Sched.InvLock Sched.InvRef Sched.InvLoad Sched.LlmHealth Sched.Thm Sched.Refute Sched.Examples.
Import ListNotations.

(* In the event history of ANY run of the scheduler model (any configuration, any number of models and
   requests, any interleaving of the scheduler's goroutines with submit / cancel / load outcome / ping outcome /
   timer / explicit-unload events) every runner is shut down at most once. *)
Theorem C01_close_once :
  forall c m ls s ev r, run c (init_m m) ls = Some (s, ev) -> n_close r ev <= 1.
Proof. intros c m ls s ev r H. eapply close_once. eapply run_Reach; eauto. Qed.
Print Assumptions C01_close_once.

Example C01_close_once_nonvacuous :
  exists s ev, run cfg_on (init_m 1) ex_load_unload = Some (s, ev) /\ n_close 0 ev = 1.
Proof. vm_compute. eexists; eexists; split; reflexivity. Qed.

(* For the repaired scheduler ([fixed c]: the three patches of fixes/ applied): in the event history of ANY run,
   every runner handed to a request (a reply "success r") was not shut down at that moment (llama != nil). *)
Theorem C01_no_grant_closed :
  forall c m ls s ev q r cl, fixed c -> run c (init_m m) ls = Some (s, ev) -> In (EReply q (ROk r cl)) ev -> cl = false.
Proof. intros c m ls s ev q r cl Hf H. eapply no_grant_closed; eauto. eapply run_Reach; eauto. Qed.
Print Assumptions C01_no_grant_closed.

Example C01_no_grant_closed_nonvacuous :
  fixed cfg_on /\ exists s ev, run cfg_on (init_m 1) ex_load_unload = Some (s, ev) /\ In (EReply 0 (ROk 0 false)) ev.
Proof. split. reflexivity. vm_compute. eexists; eexists; split. reflexivity. simpl. tauto. Qed.

(* A request receives a usable runner or an error: in ANY run (any configuration) a reply "success r" is sent only
   from a state in which the load of r has completed (WaitUntilRunning returned nil: loading = false).  Rests on:
   load()'s goroutine holds refMu(r) from the registration of r until the load has succeeded or failed; needsReload,
   which reads the runner under refMu(r), sends a runner still marked loading - an abandoned load - to the expiry
   path (second theorem); the flag never becomes true again (Sched/InvLoad.v). *)
Theorem C01_no_grant_loading :
  forall c m ls s ev l s' e q r cl, run c (init_m m) ls = Some (s, ev) ->
  step c s l = Some (s', e) -> In (EReply q (ROk r cl)) e -> exists x, getr s r = Some x /\ r_loading x = false.
Proof.
  intros c m ls s ev l s' e q r cl H Hs Hin. apply rloading_false.
  eapply no_grant_loading; eauto. eapply run_Reach; eauto.
Qed.
Print Assumptions C01_no_grant_loading.

Theorem C01_abandoned_load_not_reused :
  forall c s t q r x y, getr s r = Some x -> getq s q = Some y -> r_mu x = None -> r_loading x = true ->
  run_pc c s t (PNr q r) 0%Z = Some (goto s t (PExp q r), []).
Proof.
  intros c s t q r x y Hr Hq Hm Hl. unfold run_pc, guard, reusable. rewrite Hr, Hq, Hm, Hl. simpl.
  rewrite orb_true_r. reflexivity.
Qed.
Print Assumptions C01_abandoned_load_not_reused.

Example C01_no_grant_loading_nonvacuous :
  exists s ev s' q, run cfg_on (init_m 1) (firstn 9 ex_load_unload) = Some (s, ev) /\
    step cfg_on s (LRun 2 0%Z) = Some (s', [EReply q (ROk 0 false)]).
Proof. vm_compute. eexists; eexists; eexists; eexists; split; reflexivity. Qed.

(* For the repaired scheduler: in every reachable state (any number of models and requests, any interleaving of
   request arrival, completion / cancellation, load success / failure, ping result, keep-alive expiry, explicit
   unload and make-room eviction) a runner that has been handed to a request whose context is not cancelled has not
   been shut down.  Rests on the reference-count invariant of Sched/InvRef.v: refCount(r) = number of requests that
   hold r and whose finish event has not been consumed + references in flight, and a runner is only shut down at
   refCount 0 under refMu(r). *)
Theorem C01_no_close_in_use :
  forall c m ls s ev q x r y, fixed c -> run c (init_m m) ls = Some (s, ev) ->
  getq s q = Some x -> q_grant x = Some r -> q_cancelled x = false -> getr s r = Some y -> r_closed y = false.
Proof. intros c m ls s ev q x r y Hf H. eapply no_close_in_use; eauto. eapply run_Reach; eauto. Qed.
Print Assumptions C01_no_close_in_use.

Example C01_no_close_in_use_nonvacuous :
  fixed cfg_on /\ exists s ev x y, run cfg_on (init_m 1) (firstn 10 ex_load_unload) = Some (s, ev) /\
    getq s 0 = Some x /\ q_grant x = Some 0 /\ q_cancelled x = false /\ getr s 0 = Some y /\ r_closed y = false.
Proof. split. reflexivity. vm_compute. do 4 eexists. repeat split; reflexivity. Qed.

(* The same statements quantified over ALL configurations, i.e. including the scheduler as it was found
   (fixes_off), are false: Sched/Refute.v exhibits the runs (they are replayed against the real code from
   corpus/C01).  [fixed c] is the guard that excludes exactly the unrepaired code. *)
Definition C01_no_close_in_use_full : Prop := no_close_in_use_full.
Theorem C01_no_close_in_use_refuted : ~ C01_no_close_in_use_full.
Proof. exact no_close_in_use_refuted. Qed.
Print Assumptions C01_no_close_in_use_refuted.

Definition C01_no_grant_closed_full : Prop := no_grant_closed_full.
Theorem C01_no_grant_closed_refuted : ~ C01_no_grant_closed_full.
Proof. exact no_grant_closed_refuted. Qed.
Print Assumptions C01_no_grant_closed_refuted.

(* The health check needsReload relies on (Sched/LlmHealth.v): an llm server is alive until it is shut down - by the
   scheduler's unload (Close), by Completion's crash path, or because its process exits - and never comes back.  In
   every history of operations a successful probe (Ping / WaitUntilRunning) implies that no shut-down came before it;
   conversely a server that was never shut down answers every probe.  The real llm.llmServer is compared with this
   machine, operation by operation, by the llm stage of the scheduler harness. *)
Theorem C01_ping_ok_not_closed :
  forall ops k, nth_error (hrun true ops) k = Some (Some true) -> forallb (fun o => negb (closes o)) (firstn k ops) = true.
Proof. exact ping_ok_not_closed. Qed.
Print Assumptions C01_ping_ok_not_closed.

Theorem C01_alive_probe_ok :
  forall ops k o, nth_error ops k = Some o -> (o = HPing \/ o = HWait) ->
  forallb (fun o => negb (closes o)) (firstn k ops) = true -> nth_error (hrun true ops) k = Some (Some true).
Proof. exact alive_probe_ok. Qed.
Print Assumptions C01_alive_probe_ok.
