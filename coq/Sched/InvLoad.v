(* Sched/InvLoad.v - a runner is handed out only after its load has completed.  load()'s goroutine holds refMu(r)
   from the registration of r until WaitUntilRunning has returned; needsReload (rule PNr, under refMu(r)) sends a
   runner that is still marked loading - its load was abandoned - to the expiry path.  Hence every thread that is on
   its way to a success reply with r (after needsReload's check, or load()'s goroutine after a successful wait) refers
   to a runner whose [loading] flag is false, and the flag never becomes true again.  (Any configuration.) *)
From Coq Require Import List ZArith NArith Bool Lia Arith.
From V Require Import Sched.Lts Sched.Tac Sched.Reach Sched.InvLock Sched.InvStruct.
Import ListNotations.

Definition rloading (s : state) (r : nat) : bool := getf r_loading true (runners s) r.

(* program counters between "the runner is known to be loaded" and the success reply *)
Fixpoint ldpc (p : pc) : option nat :=
  match p with PPing _ r | PUse _ r | PUseSend _ r | LWOk _ r => Some r | TEntry p' => ldpc p' | _ => None end.

Definition I_ld (s : state) : Prop :=
  forall t p r, nth_error (thr s) t = Some p -> ldpc p = Some r -> rloading s r = false.

Lemma wake_ldpc t' p : ldpc (wake t' p) = ldpc p.
Proof. destruct p; simpl; auto; destruct (Z.leb u t'); reflexivity. Qed.

Lemma tick_rloading s d r : rloading (tick s d) r = rloading s r.
Proof. unfold rloading. rewrite tick_runners. apply fire_getf. reflexivity. Qed.

Lemma rloading_range s r : rloading s r = false -> r < length (runners s).
Proof.
  unfold rloading, getf. destruct (nth_error (runners s) r) eqn:E; [|discriminate]. intros _. apply nth_error_Some. congruence.
Qed.

Ltac ld_unfold := unfold rloading, getr, getq in *.

(* the flag is monotone: once false, always false *)
Lemma loading_mono c s l s' e r : step c s l = Some (s', e) -> rloading s r = false -> rloading s' r = false.
Proof.
  intros H A. pose proof (rloading_range _ _ A) as Rg.
  destruct l as [sp|q0|m|d|t alt].
  - step_cases H; ld_unfold; simpl in *; auto.
  - step_cases H; ld_unfold; simpl in *; auto.
  - step_cases H; ld_unfold; simpl in *; auto.
  - step_cases H. rewrite tick_rloading. auto.
  - unfold step in H. destruct (nth_error (thr s) t) as [p|] eqn:Ep; try discriminate.
    destruct p; step_cases H; ld_unfold; simpl in *; acc_norm; eqb_cases; auto; try lia.
Qed.

Lemma I_ld_step c s l s' e : I_ld s -> step c s l = Some (s', e) -> I_ld s'.
Proof.
  intros A H t' p' r' Hn Hp.
  pose proof (fun r => loading_mono c s l s' e r H) as Mono.
  destruct l as [sp|q0|m|d|t alt].
  - step_cases H; simpl in *; eauto.
  - step_cases H; simpl in *; eauto.
  - step_cases H; simpl in *. apply nth_error_snoc in Hn. destruct Hn as [Hn|[-> ->]]; [|discriminate Hp]. eauto.
  - step_cases H. apply tick_thr_cases in Hn. destruct Hn as [(p0 & Hn & ->)|(r & ->)]; [|discriminate Hp].
    rewrite wake_ldpc in Hp. eauto.
  - unfold step in H. destruct (nth_error (thr s) t) as [p|] eqn:Ep; try discriminate.
    destruct p; try (step_cases H; simpl in Hn; thr_cases Hn; simpl in Hp; try discriminate Hp;
      try (match type of Hp with Some _ = Some _ => inv Hp end); eauto; fail).
    all: step_cases H; simpl in Hn; thr_cases Hn; simpl in Hp; try discriminate Hp;
      try (match type of Hp with Some _ = Some _ => inv Hp end); eauto.
    + (* PNr -> PPing: needsReload saw loading = false under refMu(r) *)
      apply orb_false_elim in E2. destruct E2 as [_ E2]. apply negb_false_iff in E2. unfold reusable in E2.
      apply andb_prop in E2. destruct E2 as [E2 _]. apply negb_true_iff in E2.
      ld_unfold; simpl in *; acc_norm. erewrite getf_some by eassumption. exact E2.
    + (* LWWait -> LWOk: WaitUntilRunning returned nil *)
      ld_unfold; simpl in *; acc_norm. rewrite Nat.eqb_refl. reflexivity.
Qed.

Lemma I_ld_Reach c s ev : Reach c s ev -> I_ld s.
Proof.
  revert s ev. apply Reach_ind_inv.
  - intros m t p r Hn Hp. simpl in Hn. destruct t as [|[|t]]; simpl in Hn; try (inv Hn; discriminate Hp). destruct t; discriminate Hn.
  - intros; eapply I_ld_step; eauto.
Qed.

(* a success reply for runner r is sent only from a state in which r's load has completed *)
Theorem no_grant_loading c s ev l s' e q r cl :
  Reach c s ev -> step c s l = Some (s', e) -> In (EReply q (ROk r cl)) e -> rloading s r = false.
Proof.
  intros R H Hin. pose proof (I_ld_Reach _ _ _ R) as A.
  destruct l as [sp|q0|m|d|t alt].
  - step_cases H; simpl in Hin; repeat (destruct Hin as [Hin|Hin]; [discriminate Hin|]); tauto.
  - step_cases H; simpl in Hin; tauto.
  - step_cases H; simpl in Hin; tauto.
  - step_cases H; simpl in Hin; tauto.
  - unfold step in H. destruct (nth_error (thr s) t) as [p|] eqn:Ep; try discriminate.
    destruct p; step_cases H; simpl in Hin;
    repeat (destruct Hin as [Hin|Hin]; [try discriminate Hin|]); try tauto;
    inv Hin; eapply A; eauto; reflexivity.
Qed.

Lemma rloading_false s r : rloading s r = false -> exists x, getr s r = Some x /\ r_loading x = false.
Proof. unfold rloading, getf, getr. destruct (nth_error (runners s) r); intros H; try discriminate. eauto. Qed.
