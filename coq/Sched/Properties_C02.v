(* C02 - every runner request is answered exactly once; queue full => busy error at once; the scheduler drains.
   Theorems only. *)
From Coq Require Import List ZArith NArith Bool Lia Arith.
From V Require Import Sched.Lts Sched.Reach Sched.InvOwn Sched.InvLock Sched.Refute Sched.Dead Sched.InvRef Sched.Drain Sched.Quiesce Sched.InvLoad Sched.InvQueue Sched.Term Sched.Examples.
Import ListNotations.

(* A submit that finds the pending queue full is answered in the same step with the busy error, the request is
   never queued, and no scheduler thread is touched (nothing blocks); a submit that finds room is queued and
   produces no reply in that step.  Any state, any configuration. *)
Theorem C02_queue_full_not_blocking :
  forall c s sp, c_maxq c <= length (pendq s) ->
  step c s (LSubmit sp) =
    Some (s_reqs s (reqs s ++ [mkQ sp false [RBusy] None false]), [EReply (length (reqs s)) RBusy]).
Proof.
  intros c s sp H. unfold step. destruct (Nat.ltb (length (pendq s)) (c_maxq c)) eqn:E; auto.
  apply Nat.ltb_lt in E. lia.
Qed.
Print Assumptions C02_queue_full_not_blocking.

Theorem C02_queue_not_full_enqueues :
  forall c s sp, length (pendq s) < c_maxq c ->
  step c s (LSubmit sp) =
    Some (s_pendq (s_reqs s (reqs s ++ [mkQ sp false [] None false])) (pendq s ++ [length (reqs s)]), []).
Proof.
  intros c s sp H. unfold step. destruct (Nat.ltb (length (pendq s)) (c_maxq c)) eqn:E; auto.
  apply Nat.ltb_ge in E. lia.
Qed.
Print Assumptions C02_queue_not_full_enqueues.

Example C02_queue_full_nonvacuous :
  exists s ev, run (mkC 1 fixes_on 1) (init_m 1) [LSubmit (sp 0 None); LSubmit (sp 1 None)] = Some (s, ev)
               /\ ev = [EReply 1 RBusy] /\ pendq s = [0].
Proof. vm_compute. eexists; eexists; repeat split; reflexivity. Qed.

(* In the event history of ANY run (any configuration, repaired or not, any interleaving) no request receives a
   second reply - neither two runners, nor two errors, nor a runner and an error. *)
Theorem C02_at_most_one_reply :
  forall c m ls s ev q, run c (init_m m) ls = Some (s, ev) -> n_reply q ev <= 1.
Proof. intros c m ls s ev q H. eapply at_most_one_reply. eapply run_Reach; eauto. Qed.
Print Assumptions C02_at_most_one_reply.

Example C02_at_most_one_reply_nonvacuous :
  exists s ev, run cfg_on (init_m 1) ex_load_unload = Some (s, ev) /\ n_reply 0 ev = 1.
Proof. vm_compute. eexists; eexists; split; reflexivity. Qed.

(* Repaired scheduler: in every reachable state in which some scheduler thread waits for a mutex (loadedMu or a
   runner's refMu), some scheduler thread can take a step: the chain "waits for loadedMu -> its holder waits for
   refMu(r) -> its holder" ends in a runnable thread, because a refMu of a registered runner is never held while
   waiting for loadedMu (one lock order), and the only refMu held while waiting for loadedMu belongs to a runner
   nobody else refers to yet.  No lock deadlock. *)
Theorem C02_no_lock_deadlock :
  forall c m ls s ev t, fixed c -> run c (init_m m) ls = Some (s, ev) -> waits_for_mutex c s t ->
  exists t' alt, step c s (LRun t' alt) <> None.
Proof. intros c m ls s ev t Hf H W. eapply no_lock_deadlock; eauto. eapply run_Reach; eauto. Qed.
Print Assumptions C02_no_lock_deadlock.

(* Over all configurations (the scheduler as found) the statement is false: processCompleted's expired branch
   takes refMu then loadedMu, expireRunner loadedMu then refMu (Sched/Refute.v, replayed from corpus/C02). *)
Definition C02_no_lock_deadlock_full : Prop := no_lock_deadlock_full.
Theorem C02_no_lock_deadlock_refuted : ~ C02_no_lock_deadlock_full.
Proof. exact no_lock_deadlock_refuted. Qed.
Print Assumptions C02_no_lock_deadlock_refuted.

Example C02_no_lock_deadlock_nonvacuous :
  (* in the repaired model the same schedule prefix leaves expireRunner waiting for refMu while the completed loop
     holds loadedMu and refMu and can run *)
  fixed cfg_on /\ exists s ev, run cfg_on (init_m 1) (firstn 22 w_deadlock ++ [LExpire 0; LRun 4 0%Z; LRun 1 0%Z; LRun 1 0%Z]) = Some (s, ev).
Proof. split. reflexivity. vm_compute. eexists; eexists; reflexivity. Qed.

(* Drain clause.  [quiescent c s]: no scheduler thread can take a step (not even with a load / ping / newServer
   outcome); [settled s]: every request that holds a runner has been cancelled (= has finished) and no live runner
   has a keep-alive timer pending; [no_sleepers s]: no retry / re-queue goroutine is sleeping.
   For the repaired scheduler (pending queue of at least one slot): in every such reachable state nothing is
   registered as loaded, every runner that was started has been shut down, and every request that was not
   cancelled has exactly one reply.  "Provided loads in flight finish and the requests ahead complete" is the
   hypothesis [settled] + quiescence: a load in flight or an unfinished holder keeps a step enabled or a holder
   un-cancelled.  Rests on C02_no_lock_deadlock, refCount = holders (InvRef), "an idle registered runner always has a
   pending reason to expire", "a pending loop waiting for an unload gets its token", "an un-cancelled request is owned
   or answered" (InvProg), and a case analysis over the 46 program counters (Quiesce.stuck_or_waits). *)
Theorem C02_quiescent_complete :
  forall c m ls s ev, fixed c -> 1 <= c_maxq c -> run c (init_m m) ls = Some (s, ev) ->
  quiescent c s -> settled s -> no_sleepers s ->
  loaded s = [] /\
  (forall r x, getr s r = Some x -> r_closed x = true) /\
  (forall q x, getq s q = Some x -> q_cancelled x = false -> length (q_replies x) = 1).
Proof. intros c m ls s ev Hf Hq H. eapply quiescent_drained; eauto. eapply run_Reach; eauto. Qed.
Print Assumptions C02_quiescent_complete.

(* The same conclusion from the explicit description of the idle configuration (both loops at their select with
   empty queues, every other goroutine finished or waiting for an un-cancelled request's context). *)
Theorem C02_idle_drained :
  forall c m ls s ev, fixed c -> run c (init_m m) ls = Some (s, ev) -> idle s -> settled s ->
  loaded s = [] /\
  (forall r x, getr s r = Some x -> r_closed x = true) /\
  (forall q x, getq s q = Some x -> q_cancelled x = false -> length (q_replies x) = 1).
Proof. intros c m ls s ev Hf H. eapply drained; eauto. eapply run_Reach; eauto. Qed.
Print Assumptions C02_idle_drained.

Example C02_quiescent_complete_nonvacuous :
  (* after the load / grant / cancel / finish / expire / unload run, and the pending loop consuming the stray
     unloaded event, the scheduler is idle and settled - and drained *)
  fixed cfg_on /\ exists s ev, run cfg_on (init_m 1) (ex_load_unload ++ [LRun 0 1%Z]) = Some (s, ev) /\
    pendq s = [] /\ finq s = [] /\ expq s = [] /\ thr s = [PSel; CSel; TDone; TDone] /\ unlq s = 0 /\ loaded s = [].
Proof. split. reflexivity. vm_compute. eexists; eexists; repeat split; reflexivity. Qed.

(* "Answered" means: with an error or with a runner that can be used - a success reply is only sent for a runner
   whose load has completed (any configuration; Sched/InvLoad.v, also exported as C01_no_grant_loading). *)
Theorem C02_reply_success_loaded :
  forall c m ls s ev l s' e q r cl, run c (init_m m) ls = Some (s, ev) ->
  step c s l = Some (s', e) -> In (EReply q (ROk r cl)) e -> exists x, getr s r = Some x /\ r_loading x = false.
Proof.
  intros c m ls s ev l s' e q r cl H Hs Hin. apply rloading_false.
  eapply no_grant_loading; eauto. eapply run_Reach; eauto.
Qed.
Print Assumptions C02_reply_success_loaded.

(* Admission is one atomic step (C02_queue_full_not_blocking / C02_queue_not_full_enqueues: every Submit step is
   defined - the call returns - and either queues the request or answers busy), hence with any number of concurrent
   submitters the pending queue never holds more than OLLAMA_MAX_QUEUE requests: accepted <= capacity.  (Any
   configuration.)  The implementation's GetRunner is held to this by the `admission` stage of the harness: each
   call runs in a goroutine of its own, interleaved at the synchronisation operations inside GetRunner. *)
Theorem C02_admission_bound :
  forall c m ls s ev, run c (init_m m) ls = Some (s, ev) -> length (pendq s) <= c_maxq c.
Proof. intros c m ls s ev H. eapply queue_bound. eapply run_Reach; eauto. Qed.
Print Assumptions C02_admission_bound.

Theorem C02_submit_always_returns :
  forall c s sp, exists s' e, step c s (LSubmit sp) = Some (s', e).
Proof. intros c s sp. simpl. destruct (Nat.ltb (length (pendq s)) (c_maxq c)); eauto. Qed.
Print Assumptions C02_submit_always_returns.

(* ------------------------------------------------------------------ liveness: the scheduler reaches quiescence *)

(* Termination of the internal steps, modulo Tick.  [istep c s' s]: s' is the result of one step "LRun t alt" of s -
   a goroutine of the scheduler performs its next synchronisation operation; the outcome of a load (WaitUntilRunning
   ok / error), of a ping, of newServer and of the fit prediction is the alternative [alt] of that step, so loads in
   flight DO finish.  No Submit / Cancel / Expire / Tick happens.  For the repaired scheduler this relation is
   well-founded on every reachable state: no infinite run, whatever the interleaving and the outcomes.  The 10 ms
   expiry-retry loop and the 250 ms re-queue are goroutines that sleep until a Tick: within an instant they are inert,
   across instants the retry loop goes round once per Tick for as long as the runner's holder has not finished - that
   the holder finishes is the environment's obligation (hypothesis [settled] below), not something the scheduler
   can enforce.  Measure: Sched/Term.v. *)
Theorem C02_internal_terminates :
  forall c m ls s ev, fixed c -> run c (init_m m) ls = Some (s, ev) -> Acc (istep c) s.
Proof. intros c m ls s ev Hf H. eapply internal_terminates; eauto. eapply run_Reach; eauto. Qed.
Print Assumptions C02_internal_terminates.

(* Hence some (indeed every maximal) continuation by internal steps ends in a state where no step is enabled. *)
Theorem C02_reaches_quiescence :
  forall c m ls s ev, fixed c -> run c (init_m m) ls = Some (s, ev) ->
  exists ls' s' ev', internal ls' /\ run c s ls' = Some (s', ev') /\ quiescent c s'.
Proof. intros c m ls s ev Hf H. apply reaches_quiescent. eapply C02_internal_terminates; eauto. Qed.
Print Assumptions C02_reaches_quiescence.

Lemma run_app c : forall l1 l2 s s1 e1 s2 e2,
  run c s l1 = Some (s1, e1) -> run c s1 l2 = Some (s2, e2) -> run c s (l1 ++ l2) = Some (s2, e1 ++ e2).
Proof.
  induction l1 as [|l tl IH]; simpl; intros l2 s s1 e1 s2 e2 H1 H2.
  - inversion H1; subst. exact H2.
  - destruct (step c s l) as [[sa ea]|]; try discriminate.
    destruct (run c sa tl) as [[sb eb]|] eqn:Er; try discriminate. inversion H1; subst.
    rewrite (IH l2 sa s1 eb s2 e2 Er H2). rewrite app_assoc. reflexivity.
Qed.

(* Every un-cancelled request is answered exactly once, and the scheduler drains: from any reachable state of the
   repaired scheduler the internal steps lead to a quiescent state, and if in that state the environment has met its
   obligations - every request that was handed a runner has finished (is cancelled) and no keep-alive timer is
   pending ([settled]), no retry / re-queue goroutine is asleep ([no_sleepers]: time has passed) - then every
   un-cancelled request has exactly one reply, nothing is loaded and every runner that was started has been shut
   down.  (If the obligations are not met yet the quiescent state is the one in which the scheduler waits for them.) *)
Theorem C02_answered_exactly_once :
  forall c m ls s ev, fixed c -> 1 <= c_maxq c -> run c (init_m m) ls = Some (s, ev) ->
  exists ls' s' ev', internal ls' /\ run c s ls' = Some (s', ev') /\ quiescent c s' /\
    (settled s' -> no_sleepers s' ->
     forall q x, getq s' q = Some x -> q_cancelled x = false -> length (q_replies x) = 1).
Proof.
  intros c m ls s ev Hf Hq H.
  destruct (C02_reaches_quiescence c m ls s ev Hf H) as (ls' & s' & ev' & Il & Hr & Q).
  exists ls', s', ev'. split; [auto|]. split; [auto|]. split; [auto|]. intros St Ns.
  pose proof (run_app c _ _ _ _ _ _ _ H Hr) as H'.
  destruct (C02_quiescent_complete c m _ _ _ Hf Hq H' Q St Ns) as (_ & _ & A). exact A.
Qed.
Print Assumptions C02_answered_exactly_once.

Theorem C02_drains :
  forall c m ls s ev, fixed c -> 1 <= c_maxq c -> run c (init_m m) ls = Some (s, ev) ->
  exists ls' s' ev', internal ls' /\ run c s ls' = Some (s', ev') /\ quiescent c s' /\
    (settled s' -> no_sleepers s' -> loaded s' = [] /\ forall r x, getr s' r = Some x -> r_closed x = true).
Proof.
  intros c m ls s ev Hf Hq H.
  destruct (C02_reaches_quiescence c m ls s ev Hf H) as (ls' & s' & ev' & Il & Hr & Q).
  exists ls', s', ev'. split; [auto|]. split; [auto|]. split; [auto|]. intros St Ns.
  pose proof (run_app c _ _ _ _ _ _ _ H Hr) as H'.
  destruct (C02_quiescent_complete c m _ _ _ Hf Hq H' Q St Ns) as (A & B & _). split; auto.
Qed.
Print Assumptions C02_drains.

(* NOT proved (kept as the statement of record): liveness across Ticks - once every request has finished and no
   keep-alive is infinite, finitely many rounds of "Tick past every deadline, then internal steps" empty the
   scheduler.  What is missing is a measure over the rounds: a round shuts a runner down, or places a request the
   pending loop still holds (the pending loop does not look at the context again once it has dequeued a request, so it
   may still load a runner for a finished request, which then lives for one keep-alive), and a retry goroutine goes
   back to sleep only if a request was handed a runner in the same round.  Within a round termination is
   C02_internal_terminates, and the final state is characterised by C02_quiescent_complete. *)
Definition only_time_passes (ls : list label) : Prop :=
  Forall (fun l => match l with LRun _ _ | LTick _ => True | _ => False end) ls.
Definition finite_keep_alives (s : state) : Prop :=
  (forall q x, getq s q = Some x -> sp_ka (q_spec x) <> Some forever) /\
  (forall r x, getr s r = Some x -> r_dur x <> forever).
Definition C02_drains_full : Prop :=
  forall c m ls s ev, fixed c -> 1 <= c_maxq c -> run c (init_m m) ls = Some (s, ev) ->
  (forall q x, getq s q = Some x -> q_cancelled x = true) -> finite_keep_alives s ->
  exists ls' s' ev', only_time_passes ls' /\ run c s ls' = Some (s', ev') /\
    loaded s' = [] /\ (forall r x, getr s' r = Some x -> r_closed x = true).

Example C02_reaches_quiescence_nonvacuous :
  (* the load / grant / cancel / finish / expire / unload run ends in a state in which no step is enabled *)
  exists s ev, run cfg_on (init_m 1) (ex_load_unload ++ [LRun 0 1%Z]) = Some (s, ev) /\ internal [LRun 0 1%Z] /\
    enabled_b cfg_on s = false /\ loaded s = [].
Proof. vm_compute. eexists; eexists; repeat split; try reflexivity. repeat constructor. Qed.
