(* C02 - every runner request is answered exactly once; queue full => busy error at once; the scheduler drains.
   Theorems only. *)
From Coq Require Import List ZArith NArith Bool Lia Arith.
From V Require Import Sched.Lts Sched.Reach Sched.InvOwn Sched.InvLock Sched.Refute Sched.Dead Sched.InvRef Sched.Drain Sched.Examples.
Import ListNotations.

(* A submit that finds the pending queue full is answered in the same step with the busy error, the request is
   never queued, and no scheduler thread is touched (nothing blocks); a submit that finds room is queued and
   produces no reply in that step.  Any state, any configuration. *)
Theorem C02_queue_full_not_blocking :
  forall c s sp, c_maxq c <= length (pendq s) ->
  step c s (LSubmit sp) =
    Some (s_reqs s (reqs s ++ [mkQ sp false [RBusy] None false]), [EReply (length (reqs s)) RBusy]).
Proof.
  intros c s sp H. unfold step. destruct (Nat.ltb (length (pendq s)) (c_maxq c)) eqn:E; auto.
  apply Nat.ltb_lt in E. lia.
Qed.
Print Assumptions C02_queue_full_not_blocking.

Theorem C02_queue_not_full_enqueues :
  forall c s sp, length (pendq s) < c_maxq c ->
  step c s (LSubmit sp) =
    Some (s_pendq (s_reqs s (reqs s ++ [mkQ sp false [] None false])) (pendq s ++ [length (reqs s)]), []).
Proof.
  intros c s sp H. unfold step. destruct (Nat.ltb (length (pendq s)) (c_maxq c)) eqn:E; auto.
  apply Nat.ltb_ge in E. lia.
Qed.
Print Assumptions C02_queue_not_full_enqueues.

Example C02_queue_full_nonvacuous :
  exists s ev, run (mkC 1 fixes_on 1) (init_m 1) [LSubmit (sp 0 None); LSubmit (sp 1 None)] = Some (s, ev)
               /\ ev = [EReply 1 RBusy] /\ pendq s = [0].
Proof. vm_compute. eexists; eexists; repeat split; reflexivity. Qed.

(* In the event history of ANY run (any configuration, repaired or not, any interleaving) no request receives a
   second reply - neither two runners, nor two errors, nor a runner and an error. *)
Theorem C02_at_most_one_reply :
  forall c m ls s ev q, run c (init_m m) ls = Some (s, ev) -> n_reply q ev <= 1.
Proof. intros c m ls s ev q H. eapply at_most_one_reply. eapply run_Reach; eauto. Qed.
Print Assumptions C02_at_most_one_reply.

Example C02_at_most_one_reply_nonvacuous :
  exists s ev, run cfg_on (init_m 1) ex_load_unload = Some (s, ev) /\ n_reply 0 ev = 1.
Proof. vm_compute. eexists; eexists; split; reflexivity. Qed.

(* Repaired scheduler: in every reachable state in which some scheduler thread waits for a mutex (loadedMu or a
   runner's refMu), some scheduler thread can take a step: the chain "waits for loadedMu -> its holder waits for
   refMu(r) -> its holder" ends in a runnable thread, because a refMu of a registered runner is never held while
   waiting for loadedMu (one lock order), and the only refMu held while waiting for loadedMu belongs to a runner
   nobody else refers to yet.  No lock deadlock. *)
Theorem C02_no_lock_deadlock :
  forall c m ls s ev t, fixed c -> run c (init_m m) ls = Some (s, ev) -> waits_for_mutex c s t ->
  exists t' alt, step c s (LRun t' alt) <> None.
Proof. intros c m ls s ev t Hf H W. eapply no_lock_deadlock; eauto. eapply run_Reach; eauto. Qed.
Print Assumptions C02_no_lock_deadlock.

(* Over all configurations (the scheduler as found) the statement is false: processCompleted's expired branch
   takes refMu then loadedMu, expireRunner loadedMu then refMu (Sched/Refute.v, replayed from corpus/C02). *)
Definition C02_no_lock_deadlock_full : Prop := no_lock_deadlock_full.
Theorem C02_no_lock_deadlock_refuted : ~ C02_no_lock_deadlock_full.
Proof. exact no_lock_deadlock_refuted. Qed.
Print Assumptions C02_no_lock_deadlock_refuted.

Example C02_no_lock_deadlock_nonvacuous :
  (* in the repaired model the same schedule prefix leaves expireRunner waiting for refMu while the completed loop
     holds loadedMu and refMu and can run *)
  fixed cfg_on /\ exists s ev, run cfg_on (init_m 1) (firstn 22 w_deadlock ++ [LExpire 0; LRun 4 0%Z; LRun 1 0%Z; LRun 1 0%Z]) = Some (s, ev).
Proof. split. reflexivity. vm_compute. eexists; eexists; reflexivity. Qed.

(* Drain clause.  [quiescent]: no scheduler thread can take a step (not even with a load / ping outcome).
   The full statement - in every quiescent reachable state of the repaired scheduler in which all requests that hold a
   runner have finished, no keep-alive timer is pending and no helper goroutine sleeps, nothing is loaded, every
   started runner is shut down and every un-cancelled request has exactly one reply - is kept as a definition: its
   proof needs, on top of what is proved here, the characterisation "quiescent => idle" (a case analysis over the 46
   program counters using C02_no_lock_deadlock for the lock waits, and a token-accounting invariant excluding a
   pending loop stuck at "wait for the unloaded event"); that part is NOT proved. *)
Definition quiescent (c : config) (s : state) : Prop := forall t alt, step c s (LRun t alt) = None.

Definition no_sleepers (s : state) : Prop :=
  forall t p, nth_error (thr s) t = Some p ->
  match p with RTSleep _ _ | RSSleep _ _ | TEntry _ => False | _ => True end.

Definition C02_quiescent_complete_full : Prop :=
  forall c m ls s ev, fixed c -> 1 <= c_maxq c -> run c (init_m m) ls = Some (s, ev) ->
  quiescent c s -> settled s -> no_sleepers s ->
  loaded s = [] /\
  (forall r x, getr s r = Some x -> r_closed x = true) /\
  (forall q x, getq s q = Some x -> q_cancelled x = false -> length (q_replies x) = 1).

(* Proved part: the same conclusion from the explicit description of the idle configuration (both loops at their
   select with empty queues, every other goroutine finished or waiting for an un-cancelled request's context).
   Rests on: refCount = holders (InvRef), "an idle registered runner always has a pending reason to expire"
   (InvProg.I_id), "an un-cancelled request is owned or answered" (InvProg.I_ow). *)
Theorem C02_quiescent_complete_partial :
  forall c m ls s ev, fixed c -> run c (init_m m) ls = Some (s, ev) -> idle s -> settled s ->
  loaded s = [] /\
  (forall r x, getr s r = Some x -> r_closed x = true) /\
  (forall q x, getq s q = Some x -> q_cancelled x = false -> length (q_replies x) = 1).
Proof. intros c m ls s ev Hf H. eapply drained; eauto. eapply run_Reach; eauto. Qed.
Print Assumptions C02_quiescent_complete_partial.

Example C02_quiescent_complete_nonvacuous :
  (* after the load / grant / cancel / finish / expire / unload run, and the pending loop consuming the stray
     unloaded event, the scheduler is idle and settled - and drained *)
  fixed cfg_on /\ exists s ev, run cfg_on (init_m 1) (ex_load_unload ++ [LRun 0 1%Z]) = Some (s, ev) /\
    pendq s = [] /\ finq s = [] /\ expq s = [] /\ thr s = [PSel; CSel; TDone; TDone] /\ loaded s = [].
Proof. split. reflexivity. vm_compute. eexists; eexists; repeat split; reflexivity. Qed.
