(* Sched/InvOwn.v - every request is owned by at most one place (pending queue, a scheduler thread that has not
   answered it yet) and owned + answered <= 1: a request receives at most one reply (C02, safety clause). *)
From Coq Require Import List ZArith NArith Bool Lia Arith.
From V Require Import Sched.Lts Sched.Tac Sched.Reach.
Import ListNotations.

Fixpoint ownf (q : nat) (p : pc) : nat :=
  match p with
  | PLk q' | PNr q' _ | PPing q' _ | PUse q' _ | PUseSend q' _ | PFv q' | PFvR q' _ _ | PExp q' _ | PExpSend q' _
  | PWait q' _ | PErr q' | PFlt q' | PUfs q' _ | PUfsR q' _ _ | PNs q' | PLd1 q' _ | PLd2 q' _
  | LWWait q' _ | LWErr q' _ | LWOk q' _ | RSSleep q' _ | RSSend q' => eqn q' q
  | TEntry p' => ownf q p'
  | _ => 0
  end.

Definition occ (q : nat) (l : list nat) : nat := cnt (fun x => eqn x q) l.
Definition nrep (s : state) (q : nat) : nat := getd (fun x => length (q_replies x)) (reqs s) q.
Definition owned (s : state) (q : nat) : nat := occ q (pendq s) + cnt (ownf q) (thr s).

Definition I_own (s : state) : Prop :=
  forall q, owned s q + nrep s q <= (if Nat.ltb q (length (reqs s)) then 1 else 0).

Lemma occ_snoc q l x : occ q (l ++ [x]) = occ q l + eqn x q.
Proof. unfold occ. rewrite cnt_snoc. reflexivity. Qed.

Lemma wake_ownf q t' p : ownf q (wake t' p) = ownf q p.
Proof. destruct p; simpl; auto; destruct (Z.leb u t'); reflexivity. Qed.

Lemma fire_pcs_ownf q : forall rs i t', cnt (ownf q) (snd (fire rs i t')) = 0.
Proof.
  induction rs as [|x tl IH]; intros i t'; simpl; auto.
  specialize (IH (S i) t'). destruct (fire tl (S i) t') as [tl' ps]. simpl in IH.
  destruct (r_tm x) as [|[dl|]|]; simpl; auto. destruct (Z.leb dl t'); simpl; auto.
Qed.


Lemma I_own_step c s l s' e : I_own s -> step c s l = Some (s', e) -> I_own s'.
Proof.
  unfold I_own, owned, nrep, occ. intros I H q. specialize (I q).
  destruct l as [sp|q0|m|d|t alt].
  - step_cases H; simpl; sums I; simpl; eqb_cases; simpl in *; try lia.
  - step_cases H; simpl. unfold getq in *. sums I. simpl.
    destruct (Nat.eqb q0 q) eqn:Q; [apply Nat.eqb_eq in Q; subst; unfold getd in I; rewrite E in I; simpl in *|]; eqb_cases; lia.
  - step_cases H; simpl; sums I; simpl; eqb_cases; lia.
  - step_cases H. rewrite tick_thr, tick_reqs, tick_pendq, cnt_app, fire_pcs_ownf, cnt_map.
    rewrite (cnt_ext _ (ownf q)) by (intros; apply wake_ownf). lia.
  - unfold step in H. destruct (nth_error (thr s) t) as [p|] eqn:Ep; try discriminate.
    pose proof (cnt_ge (ownf q) _ _ _ Ep) as Ge.
    destruct p; step_cases H; simpl; unfold getq, getr in *;
    repeat match goal with E : pendq s = _ |- _ => rewrite E in I; simpl in I end;
    sums Ep; simpl in *; rewrite ?app_length in *; simpl in *;
    try (eqb_cases; simpl in *; use_nth; simpl in *; lia).
Qed.

Lemma I_own_Reach c s ev : Reach c s ev -> I_own s.
Proof.
  revert s ev. apply Reach_ind_inv.
  - intros m q. unfold owned, nrep, occ, getd. simpl. destruct q; simpl; lia.
  - intros; eapply I_own_step; eauto.
Qed.

(* number of replies request q received in a history *)
Fixpoint n_reply (q : nat) (ev : list event) : nat :=
  match ev with
  | [] => 0
  | EReply q' _ :: tl => eqn q' q + n_reply q tl
  | _ :: tl => n_reply q tl
  end.

Lemma n_reply_app q a b : n_reply q (a ++ b) = n_reply q a + n_reply q b.
Proof. induction a as [|x tl IH]; simpl; auto. destruct x; auto. rewrite IH. lia. Qed.

Definition I_rhist (s : state) (ev : list event) : Prop := forall q, n_reply q ev = nrep s q.

Lemma I_rhist_step c s ev l s' e : I_rhist s ev -> step c s l = Some (s', e) -> I_rhist s' (ev ++ e).
Proof.
  unfold I_rhist, nrep. intros I H q. rewrite n_reply_app, I. clear I.
  destruct l as [sp|q0|m|d|t alt].
  - step_cases H; simpl; sums I; simpl; eqb_cases; simpl; try lia;
    unfold getd; match goal with |- context [nth_error ?l ?i] => assert (N : nth_error l i = None) by (apply nth_error_None; lia); rewrite N end; lia.
  - step_cases H; simpl. unfold getq in *. sums I. simpl. eqb_cases; use_nth; lia.
  - step_cases H; simpl; lia.
  - step_cases H. rewrite tick_reqs. simpl. lia.
  - unfold step in H. destruct (nth_error (thr s) t) as [p|] eqn:Ep; try discriminate.
    destruct p; step_cases H; simpl; unfold getq, getr in *; sums Ep; simpl;
    try lia; try (eqb_cases; simpl in *; use_nth; simpl in *; rewrite ?app_length; simpl; lia).
Qed.

Lemma I_rhist_Reach c s ev : Reach c s ev -> I_rhist s ev.
Proof.
  revert s ev. apply Reach_ind_inv.
  - intros m q. unfold nrep, getd. simpl. destruct q; reflexivity.
  - intros; eapply I_rhist_step; eauto.
Qed.

(* C02, safety clause: no request ever receives a second reply *)
Lemma at_most_one_reply c s ev q : Reach c s ev -> n_reply q ev <= 1.
Proof.
  intros R. rewrite (I_rhist_Reach _ _ _ R q). pose proof (I_own_Reach _ _ _ R q) as I.
  destruct (Nat.ltb q (length (reqs s))); lia.
Qed.

Lemma replies_length c s ev q x : Reach c s ev -> getq s q = Some x -> length (q_replies x) <= 1.
Proof.
  intros R E. pose proof (I_own_Reach _ _ _ R q) as I. unfold nrep, getd in I. unfold getq in E. rewrite E in I.
  destruct (Nat.ltb q (length (reqs s))); lia.
Qed.
