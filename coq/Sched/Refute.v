(* Sched/Refute.v - the scheduler as it was found ([fixes_off]) violates the properties: concrete runs of the model,
   evaluated by vm_compute.  The same schedules are replayed against the real code by the checks (corpus/C01, C02,
   C11).  Each statement is the full property quantified over all configurations; it is refuted by the unrepaired
   configuration, and proved in Properties_C01/C02/C11.v under the guard [fixed c] (the repaired scheduler). *)
From Coq Require Import List ZArith NArith Bool Lia.
From V Require Import Sched.Lts Sched.Tac Sched.Reach Sched.InvClose Sched.InvOwn Sched.InvLock Sched.InvCount Sched.Examples.
Import ListNotations.

(* ---- witnesses *)

(* B: an expired event that is already queued is consumed between needsReload and useLoadedRunner *)
Definition w_use_after_unload : list label :=
  [LSubmit (sp 0 (Some 0%Z))] ++ runs 0 6 ++ runs 2 3 ++ [LCancel 0] ++ runs 3 3 ++ runs 1 5 ++
  [LSubmit (sp 0 None)] ++ runs 0 4 ++ [LRun 1 1%Z] ++ runs 1 3 ++ runs 0 2.

(* A: two expired events for one runner (keep-alive timer + explicit unload); the second one is consumed after the
   model has been loaded again and deletes the NEW runner from [loaded] *)
Definition w_stale_event : list label :=
  [LSubmit (sp 0 (Some 5%Z))] ++ runs 0 6 ++ runs 2 3 ++ [LCancel 0] ++ runs 3 3 ++ runs 1 4 ++
  [LTick 5%Z] ++ runs 4 3 ++ [LExpire 0] ++ runs 5 4 ++
  [LRun 1 1%Z] ++ runs 1 5 ++
  [LSubmit (sp 0 (Some 5%Z))] ++ runs 0 5 ++
  [LRun 1 1%Z] ++ runs 1 5 ++
  runs 6 3 ++
  [LSubmit (sp 0 (Some 5%Z))] ++ runs 0 3.

(* ... continued: the orphaned runner's request finishes, the finish event is booked on the third runner, which is
   then shut down under the request that uses it *)
Definition w_close_in_use : list label :=
  w_stale_event ++ runs 0 2 ++ runs 8 3 ++ [LCancel 1] ++ runs 7 3 ++ runs 1 3 ++ [LTick 5%Z] ++ runs 10 3 ++
  [LRun 1 1%Z] ++ runs 1 3.

(* C: the expired branch of processCompleted holds refMu(r) and wants loadedMu; expireRunner holds loadedMu and
   wants refMu(r) *)
Definition w_deadlock : list label :=
  [LSubmit (sp 0 (Some 0%Z))] ++ runs 0 6 ++ runs 2 3 ++ [LCancel 0] ++ runs 3 3 ++ runs 1 5 ++ [LRun 1 1%Z] ++
  runs 1 1 ++ [LExpire 0] ++ runs 4 2.

(* ---- full statements *)

Definition no_grant_closed_full : Prop :=
  forall c m ls s ev q r cl, run c (init_m m) ls = Some (s, ev) -> In (EReply q (ROk r cl)) ev -> cl = false.

Definition bound_full : Prop :=
  forall c m ls s ev, 1 <= c_ngpus c -> run c (init_m m) ls = Some (s, ev) -> 0 < maxr s -> nlive s <= maxr s.

Definition one_per_model_full : Prop :=
  forall c m ls s ev r1 r2 x1 x2, run c (init_m m) ls = Some (s, ev) ->
  getr s r1 = Some x1 -> getr s r2 = Some x2 -> r_closed x1 = false -> r_closed x2 = false ->
  r_model x1 = r_model x2 -> r1 = r2.

(* a request that holds a runner and has not been cancelled: its runner is not shut down *)
Definition no_close_in_use_full : Prop :=
  forall c m ls s ev q x r y, run c (init_m m) ls = Some (s, ev) ->
  getq s q = Some x -> q_grant x = Some r -> q_cancelled x = false -> getr s r = Some y -> r_closed y = false.

(* which mutex a thread is about to lock *)
Inductive mutex := MLoaded | MRef (r : nat).

Definition wants (c : config) (p : pc) : option mutex :=
  match p with
  | PLk _ | PFlt _ | PUfs _ _ | PFv _ | PLd2 _ _ | CFLk _ | AXLm _ => Some MLoaded
  | PNr _ r | PUse _ r | PExp _ r | PLd1 _ r | CFR _ r | TMLk r | AXLr r => Some (MRef r)
  | PFvR _ (r :: _) _ => Some (MRef r)
  | PUfsR _ _ (r :: _) => Some (MRef r)
  | CE1 r => if fxC (c_fix c) then Some MLoaded else Some (MRef r)
  | CE2 r => if fxC (c_fix c) then Some (MRef r) else Some MLoaded
  | _ => None
  end.

Definition held (s : state) (m : mutex) : bool :=
  match m with
  | MLoaded => match lmu s with Some _ => true | None => false end
  | MRef r => match getr s r with Some x => match r_mu x with Some _ => true | None => false end | None => false end
  end.

Definition waits_for_mutex (c : config) (s : state) (t : nat) : Prop :=
  exists p m, nth_error (thr s) t = Some p /\ wants c p = Some m /\ held s m = true.

(* no reachable state has a thread waiting for a mutex while no scheduler thread can take a step *)
Definition no_lock_deadlock_full : Prop :=
  forall c m ls s ev t, run c (init_m m) ls = Some (s, ev) -> waits_for_mutex c s t ->
  exists t' alt, step c s (LRun t' alt) <> None.

(* ---- refutations *)

Theorem no_grant_closed_refuted : ~ no_grant_closed_full.
Proof.
  intros F.
  assert (E : exists s ev, run cfg_off (init_m 1) w_use_after_unload = Some (s, ev) /\ In (EReply 1 (ROk 0 true)) ev).
  { vm_compute. eexists; eexists; split; [reflexivity|]. simpl. tauto. }
  destruct E as (s & ev & R & Hin). specialize (F _ _ _ _ _ _ _ _ R Hin). clear - F. discriminate F.
Qed.

Definition st_of (c : config) (m : nat) (ls : list label) : state :=
  match run c (init_m m) ls with Some (s, _) => s | None => init end.

Lemma st_of_run c m ls : run c (init_m m) ls <> None -> exists ev, run c (init_m m) ls = Some (st_of c m ls, ev).
Proof. unfold st_of. destruct (run c (init_m m) ls) as [[s ev]|]; intros H; [eauto|congruence]. Qed.

Theorem bound_refuted : ~ bound_full.
Proof.
  intros F. destruct (st_of_run cfg_off 1 w_stale_event) as (ev & R). { vm_compute. discriminate. }
  specialize (F cfg_off _ _ _ _ (le_n 1) R). revert F. clear. vm_compute. intros F. specialize (F (le_n 1)). lia.
Qed.

Theorem one_per_model_refuted : ~ one_per_model_full.
Proof.
  intros F. destruct (st_of_run cfg_off 1 w_stale_event) as (ev & R). { vm_compute. discriminate. }
  set (s := st_of cfg_off 1 w_stale_event) in *.
  assert (E : exists x1 x2, getr s 1 = Some x1 /\ getr s 2 = Some x2 /\ r_closed x1 = false /\ r_closed x2 = false /\
                            r_model x1 = r_model x2).
  { vm_compute. eexists; eexists; repeat split; reflexivity. }
  destruct E as (x1 & x2 & A & B & C & D & M). specialize (F cfg_off _ _ _ _ _ _ _ _ R A B C D M). clear - F. discriminate F.
Qed.

Theorem no_close_in_use_refuted : ~ no_close_in_use_full.
Proof.
  intros F. destruct (st_of_run cfg_off 1 w_close_in_use) as (ev & R). { vm_compute. discriminate. }
  set (s := st_of cfg_off 1 w_close_in_use) in *.
  assert (E : exists x y, getq s 2 = Some x /\ q_grant x = Some 2 /\ q_cancelled x = false /\ getr s 2 = Some y /\ r_closed y = true).
  { vm_compute. eexists; eexists; repeat split; reflexivity. }
  destruct E as (x & y & A & B & C & D & M). specialize (F cfg_off _ _ _ _ _ _ _ _ R A B C D). clear - F M. rewrite M in F. discriminate F.
Qed.

(* the deadlock: every LRun step of the witness state is disabled while two threads wait for mutexes *)
Definition s_deadlock : state := Eval vm_compute in st_of cfg_off 1 w_deadlock.

Lemma s_deadlock_stuck : forall t alt, step cfg_off s_deadlock (LRun t alt) = None.
Proof.
  intros t alt. destruct t as [|[|[|[|[|t]]]]]; cbn; try reflexivity; try (destruct t; reflexivity);
  destruct (Z.eqb alt 0); try reflexivity; destruct (Z.eqb alt 1); reflexivity.
Qed.

Theorem no_lock_deadlock_refuted : ~ no_lock_deadlock_full.
Proof.
  intros F. destruct (st_of_run cfg_off 1 w_deadlock) as (ev & R). { vm_compute. discriminate. }
  change (st_of cfg_off 1 w_deadlock) with s_deadlock in R.
  assert (W : waits_for_mutex cfg_off s_deadlock 1).
  { exists (CE2 0), MLoaded. repeat split; reflexivity. }
  destruct (F cfg_off _ _ _ _ _ R W) as (t' & alt & N). apply N. apply s_deadlock_stuck.
Qed.
