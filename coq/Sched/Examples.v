(* Sched/Examples.v - concrete runs (witnesses of non-vacuity and of the refutations), checked by vm_compute. *)
From Coq Require Import List ZArith NArith Bool.
From V Require Import Sched.Lts.
Import ListNotations.

Definition cfg_on : config := mkC 2 fixes_on 1.
Definition cfg_off : config := mkC 2 fixes_off 1.

Definition key0 : okey := mkK 2048%Z (-1)%Z 0.
Definition sp (m : nat) (ka : option Z) : rspec := mkSpec m key0 ka false.

Definition runs (t : nat) (n : nat) : list label := repeat (LRun t 0%Z) n.

(* one request for model 0 with keep-alive 0: load, grant, cancel, finish event, expiry, unload *)
Definition ex_load_unload : list label :=
  [LSubmit (sp 0 (Some 0%Z))] ++ runs 0 6 ++ runs 2 3 ++ [LCancel 0] ++ runs 3 3 ++ runs 1 5 ++ [LRun 1 1%Z] ++ runs 1 5.
