(* Sched/Thm.v - the theorems about the repaired scheduler, derived from the invariants. *)
From Coq Require Import List ZArith NArith Bool Lia Arith.
From V Require Import Sched.Lts Sched.Tac Sched.Reach Sched.InvOwn Sched.InvLock Sched.InvStruct Sched.InvCount.
Import ListNotations.

Lemma counts_Reach c s ev : fixed c -> 1 <= c_ngpus c -> Reach c s ev -> I_count s /\ I_cap s.
Proof.
  intros Hf Hg R. induction R as [m|s ev l s' e R IH Hs].
  - split.
    + reflexivity.
    + unfold I_cap. simpl. split; intros; auto. lia.
  - destruct IH as [IC IP]. destruct (I_locks_Reach _ _ _ Hf R) as (A & B & C).
    pose proof (L2_Reach _ _ _ Hf R) as I2. split.
    + eapply I_count_step; eauto.
    + eapply I_cap_step; eauto.
Qed.

(* ------------------------------------------------------------------ C11: bound *)

Lemma bound c s ev :
  fixed c -> 1 <= c_ngpus c -> Reach c s ev ->
  (0 < maxr s -> nlive s <= maxr s) /\ (maxr s = 0 -> nlive s = 0).
Proof.
  intros Hf Hg R. destruct (counts_Reach _ _ _ Hf Hg R) as [IC [I0 I1]]. unfold I_count in IC.
  pose proof (cnt_mono freshp inpl (thr s) freshp_inpl) as M. split; intros Hm.
  - specialize (I1 Hm). lia.
  - destruct (I0 Hm) as [L0 C0]. rewrite L0 in IC. simpl in IC. lia.
Qed.

(* ------------------------------------------------------------------ C11: one runner per model *)

Lemma fresh_thread s r : 1 <= cnt (freshr r) (thr s) -> exists t p q, nth_error (thr s) t = Some p /\ freshpc p = Some (q, r).
Proof.
  intros Hc. destruct (cnt_pos_In (freshr r) (thr s)) as (p & Hin & Hp); [lia|].
  apply In_nth_error in Hin. destruct Hin as [t Ht]. unfold freshr in Hp.
  destruct (freshpc p) as [[q r']|] eqn:E; [|lia]. unfold eqn in Hp. destruct (Nat.eqb r' r) eqn:Q; [|lia].
  apply Nat.eqb_eq in Q. subst. eauto.
Qed.

Lemma one_per_model c s ev r1 r2 x1 x2 :
  fixed c -> Reach c s ev ->
  getr s r1 = Some x1 -> getr s r2 = Some x2 -> r_closed x1 = false -> r_closed x2 = false ->
  r_model x1 = r_model x2 -> r1 = r2.
Proof.
  intros Hf R E1 E2 C1 C2 M. pose proof (L2_Reach _ _ _ Hf R) as I2.
  destruct (I_locks_Reach _ _ _ Hf R) as (_ & _ & IO).
  assert (L1 : rclosed s r1 = false) by (rewrite (rclosed_get _ _ _ E1); auto).
  assert (L2' : rclosed s r2 = false) by (rewrite (rclosed_get _ _ _ E2); auto).
  pose proof (rmodel_get _ _ _ E1) as M1. pose proof (rmodel_get _ _ _ E2) as M2.
  destruct (l2_live s I2 _ L1) as [(m1 & A1 & B1)|F1]; destruct (l2_live s I2 _ L2') as [(m2 & A2 & B2)|F2].
  - rewrite M1 in A1. rewrite M2 in A2. inv A1. inv A2. rewrite M in B1. congruence.
  - exfalso. apply fresh_thread in F2. destruct F2 as (t & p & q & Ht & Hp).
    destruct (l2_fresh s I2 _ _ _ _ Ht Hp) as (_ & (m & Q1 & Q2) & _).
    destruct (l2_absent s I2 _ _ _ Ht (freshpc_inplace _ _ _ Hp)) as (m' & Q3 & Q4).
    rewrite M1 in A1. inv A1. rewrite M2 in Q2. inv Q2. rewrite Q1 in Q3. inv Q3. rewrite M in B1. congruence.
  - exfalso. apply fresh_thread in F1. destruct F1 as (t & p & q & Ht & Hp).
    destruct (l2_fresh s I2 _ _ _ _ Ht Hp) as (_ & (m & Q1 & Q2) & _).
    destruct (l2_absent s I2 _ _ _ Ht (freshpc_inplace _ _ _ Hp)) as (m' & Q3 & Q4).
    rewrite M2 in A2. inv A2. rewrite M1 in Q2. inv Q2. rewrite Q1 in Q3. inv Q3. rewrite <- M in B2. congruence.
  - apply fresh_thread in F1. apply fresh_thread in F2.
    destruct F1 as (t1 & p1 & q1 & Ht1 & Hp1). destruct F2 as (t2 & p2 & q2 & Ht2 & Hp2).
    destruct (Nat.eq_dec t1 t2) as [->|N].
    + rewrite Ht1 in Ht2. inv Ht2. rewrite Hp1 in Hp2. inv Hp2. reflexivity.
    + exfalso. pose proof (cnt_two isP _ _ _ _ _ N Ht1 Ht2). destruct IO as [IP _].
      rewrite (freshpc_isP _ _ _ Hp1), (freshpc_isP _ _ _ Hp2) in H. lia.
Qed.

(* ------------------------------------------------------------------ events of one step *)

Definition okev (e : event) : Prop := match e with EReply _ (ROk _ c) => c = false | _ => True end.

Lemma step_events_ok c s l s' e : fixed c -> L2 s -> step c s l = Some (s', e) -> Forall okev e.
Proof.
  intros Hf I2 H. pose proof (l2_livepc s I2) as G. fix_cfg c Hf.
  destruct l as [sp|q0|m|d|t alt].
  - step_cases H; repeat constructor.
  - step_cases H; repeat constructor.
  - step_cases H; repeat constructor.
  - step_cases H; repeat constructor.
  - unfold step in H. destruct (nth_error (thr s) t) as [p|] eqn:Ep; try discriminate.
    destruct p; step_cases H; repeat constructor; simpl;
    pose proof (G _ _ _ Ep eq_refl) as G1; unfold rclosed, getr in *; erewrite getf_some in G1 by eassumption; exact G1.
Qed.

Lemma events_ok c s ev : fixed c -> Reach c s ev -> Forall okev ev.
Proof.
  intros Hf R. induction R as [m|s ev l s' e R IH Hs]; [constructor|].
  apply Forall_app. split; auto. eapply step_events_ok; eauto. eapply L2_Reach; eauto.
Qed.

(* C01, third clause: a runner that has been shut down is never handed to a request *)
Lemma no_grant_closed c s ev q r cl : fixed c -> Reach c s ev -> In (EReply q (ROk r cl)) ev -> cl = false.
Proof.
  intros Hf R Hin. pose proof (events_ok _ _ _ Hf R) as F. rewrite Forall_forall in F. apply (F _ Hin).
Qed.

(* a runner is only ever started for a model that has no runner registered *)
Lemma step_new_absent c s l s' e m res :
  fixed c -> L2 s -> step c s l = Some (s', e) -> In (ENew m res) e -> lookup (loaded s) m = None.
Proof.
  intros Hf I2 H Hin. pose proof (l2_absent s I2) as A. fix_cfg c Hf.
  destruct l as [sp|q0|m0|d|t alt].
  - step_cases H; simpl in Hin; intuition discriminate.
  - step_cases H; simpl in Hin; intuition discriminate.
  - step_cases H; simpl in Hin; intuition discriminate.
  - step_cases H; simpl in Hin; intuition discriminate.
  - unfold step in H. destruct (nth_error (thr s) t) as [p|] eqn:Ep; try discriminate.
    destruct p; step_cases H; simpl in Hin; try tauto;
    try (destruct Hin as [Hin|[]]; try discriminate; inv Hin;
         destruct (A _ _ _ Ep eq_refl) as (m' & A1 & A2); rewrite (qmodel_get _ _ _ E) in A1; inv A1; exact A2);
    intuition discriminate.
Qed.
