(* Sched/Term.v - termination of the scheduler's internal steps (C02, liveness part).
   With the environment frozen (no Submit / Cancel / Expire / Tick label; the outcomes of loads, pings, newServer calls
   and of the placement oracle are alternatives of the threads' own steps, i.e. they do happen) every sequence of steps
   of the repaired scheduler is finite: the relation [istep] is well-founded on the reachable states.  Sleeping
   goroutines - the 10 ms expiry retry (RTSleep) and the 250 ms re-queue (RSSleep) - are woken by Tick only, so this
   is termination MODULO Tick: within one instant of virtual time the retry loop contributes one inert sleeper.
   Measure (lexicographic, [mu]):
     A  requests not yet placed: 4 x re-queue goroutines about to send + 3 x |pending| + 2 x (pending loop holds one)
        + sleeping re-queue goroutines;
     B  3 x runners not shut down + 3 x (pending loop may still start one) + 2 x (completed loop owes an unloaded
        token) + unloaded tokens                       - bounds the pending loop's  expire -> wait -> look again  loop;
     E  events queued or still to be produced: |expired| + 2 x |finished| + per-thread potential;
     R  sum of the threads' distances to their idle program counter ([rank]; for the pending loop it depends on
        |loaded| and on whether the runner it looked up has been shut down meanwhile - the two back edges
        useLoadedRunner -> look again  and  findRunnerToUnload(nothing loaded) -> look again  are taken only after a
        step of the completed loop that decreased B).
   Then: enabledness of a step is decidable (alternatives are 0..7), so from every reachable state some finite
   internal run ends in a quiescent state, to which Sched/Quiesce.v applies. *)
From Coq Require Import List ZArith NArith Bool Lia Arith Permutation.
From V Require Import Sched.Lts Sched.Tac Sched.Reach Sched.InvLock Sched.InvStruct Sched.InvCount Sched.ThmVictim Sched.Quiesce.
Import ListNotations.

(* ---------------------------------------------------------------- lexicographic order on nat^4 *)
Definition lt4 (x y : nat * nat * nat * nat) : Prop :=
  match x, y with
  | (a, b, c, d), (a', b', c', d') =>
      a < a' \/ (a = a' /\ (b < b' \/ (b = b' /\ (c < c' \/ (c = c' /\ d < d')))))
  end.

Lemma lt4_wf : well_founded lt4.
Proof.
  intros [[[a b] c] d]. revert b c d.
  induction a as [a IHa] using lt_wf_ind. intros b.
  induction b as [b IHb] using lt_wf_ind. intros c.
  induction c as [c IHc] using lt_wf_ind. intros d.
  induction d as [d IHd] using lt_wf_ind.
  constructor. intros [[[a' b'] c'] d'] L. simpl in L.
  destruct L as [L|[-> [L|[-> [L|[-> L]]]]]]; auto.
Qed.

(* ---------------------------------------------------------------- the components *)
Fixpoint fa (p : pc) : nat :=
  match p with
  | RSSend _ => 4
  | RSSleep _ _ => 1
  | PLk _ | PNr _ _ | PPing _ _ | PUse _ _ | PUseSend _ _ | PFv _ | PFvR _ _ _ | PExp _ _ | PExpSend _ _
  | PWait _ _ | PErr _ | PFlt _ | PUfs _ _ | PUfsR _ _ _ | PNs _ | PLd1 _ _ | PLd2 _ _ => 2
  | TEntry p' => fa p'
  | _ => 0
  end.

Fixpoint fb (p : pc) : nat :=
  match p with
  | PLk _ | PNr _ _ | PPing _ _ | PUse _ _ | PFv _ | PFvR _ _ _ | PExp _ _ | PExpSend _ _
  | PWait _ _ | PFlt _ | PUfs _ _ | PUfsR _ _ _ | PNs _ => 3
  | CEFin | CETok => 2
  | TEntry p' => fb p'
  | _ => 0
  end.

Fixpoint fe (p : pc) : nat :=
  match p with
  | PLk _ | PNr _ _ | PPing _ _ | PUse _ _ | PFv _ | PFvR _ _ _ | PExp _ _ | PExpSend _ _
  | PFlt _ | PUfs _ _ | PUfsR _ _ _ => 1
  | CFLk _ | CFR _ _ | CFSend _ => 1
  | LWWait _ _ => 2 | LWErr _ _ | LWExp _ => 1
  | FWDone _ | FWSend _ => 2
  | TMLk _ | TMSend _ | RTSend _ | AXLm _ | AXLr _ | AXSend _ => 1
  | TEntry p' => fe p'
  | _ => 0
  end.

Definition rcl (s : state) (r : nat) : bool := getf r_closed false (runners s) r.

Fixpoint rank' (N : nat) (cl : nat -> bool) (p : pc) : nat :=
  let st := if Nat.eqb N 0 then 20 else 0 in
  match p with
  | PSel => 0
  | PLk _ => 20 + 2 * N
  | PNr _ _ => 8
  | PPing _ r => 7 + (if cl r then 20 + 2 * N else 0)
  | PUse _ r => 6 + (if cl r then 20 + 2 * N else 0)
  | PUseSend _ _ => 1
  | PFv _ => 4 + N + st
  | PFvR _ l _ => 3 + length l
  | PExp _ _ => 2
  | PExpSend _ _ => 1
  | PWait _ _ => 0
  | PErr _ => 1
  | PFlt _ => 7 + 2 * N + st
  | PUfs _ _ => 6 + 2 * N + st
  | PUfsR _ _ l => 5 + N + length l + st
  | PNs _ => 3 | PLd1 _ _ => 2 | PLd2 _ _ => 1
  | CSel => 0 | CFLk _ => 3 | CFR _ _ => 2 | CFSend _ => 1
  | CE1 _ => 6 | CE2 _ => 5 | CEV _ => 4 | CEFin => 3 | CETok => 2
  | LWWait _ _ => 6 | LWOk _ _ => 1 | LWErr _ _ => 2 | LWExp _ => 1
  | FWDone _ => 2 | FWSend _ => 1
  | TMLk _ => 2 | TMSend _ => 1
  | RTSleep _ _ => 0 | RTSend _ => 1 | RSSleep _ _ => 0 | RSSend _ => 1
  | AXLm _ => 3 | AXLr _ => 2 | AXSend _ => 1
  | TEntry p' => S (rank' N cl p')
  | TDone => 0
  end.

Definition rank (s : state) : pc -> nat := rank' (length (loaded s)) (rcl s).

Definition mA (s : state) : nat := cnt fa (thr s) + 3 * length (pendq s).
Definition mB (s : state) : nat := cnt fb (thr s) + 3 * nlive s + unlq s.
Definition mE (s : state) : nat := cnt fe (thr s) + length (expq s) + 2 * length (finq s).
Definition mR (s : state) : nat := cnt (rank s) (thr s).
Definition mu (s : state) : nat * nat * nat * nat := (mA s, mB s, mE s, mR s).

Lemma rank'_ext N cl1 cl2 p : (forall r, cl1 r = cl2 r) -> rank' N cl1 p = rank' N cl2 p.
Proof. intros E. induction p; simpl; auto; rewrite E; auto. Qed.

Lemma cnt_upd_snoc {A} (f : A -> nat) l i x y z :
  nth_error l i = Some x -> cnt f (upd (l ++ [z]) i y) = cnt f l + f z + f y - f x.
Proof.
  intros H. rewrite (cnt_upd_eq f (l ++ [z]) i x y (nth_error_snoc_old _ _ _ _ H)). rewrite cnt_snoc. reflexivity.
Qed.

Lemma vsort_length s l : length (vsort s l) = length l.
Proof. apply Permutation_length. apply vsort_perm. Qed.

Lemma remove_nth_length {A} (l : list A) : forall i x, nth_error l i = Some x -> S (length (remove_nth l i)) = length l.
Proof. induction l as [|h tl IH]; intros [|i] x H; simpl in *; try discriminate; auto. erewrite IH; eauto. Qed.

Definition istep (c : config) (s' s : state) : Prop := exists t alt e, step c s (LRun t alt) = Some (s', e).

Lemma rcl_get s r x : getr s r = Some x -> rcl s r = r_closed x.
Proof. unfold rcl, getr. intros E. erewrite getf_some; eauto. Qed.

Lemma rank_frame s s' :
  length (loaded s') = length (loaded s) -> (forall r, rcl s' r = rcl s r) -> forall p, rank s' p = rank s p.
Proof. intros L C p. unfold rank. rewrite L. apply rank'_ext. exact C. Qed.

Ltac lex := first [ left; lia | right; split; [lia|]; first [ left; lia | right; split; [lia|]; first [ left; lia | right; split; [lia|lia] ] ] ].

Ltac bool_props :=
  repeat match goal with
  | H : _ && _ = true |- _ => apply andb_prop in H; destruct H
  | H : _ || _ = false |- _ => apply orb_false_elim in H; destruct H
  | H : negb _ = false |- _ => apply negb_false_iff in H
  | H : negb _ = true |- _ => apply negb_true_iff in H
  | H : Nat.ltb _ _ = true |- _ => apply Nat.ltb_lt in H
  | H : Nat.ltb _ _ = false |- _ => apply Nat.ltb_ge in H
  | H : Nat.leb _ _ = true |- _ => apply Nat.leb_le in H
  | H : Nat.leb _ _ = false |- _ => apply Nat.leb_gt in H
  | H : Nat.eqb _ _ = true |- _ => apply Nat.eqb_eq in H
  | H : Nat.eqb _ _ = false |- _ => apply Nat.eqb_neq in H
  end.

Lemma rcl_snoc l y j : r_closed y = false -> getf r_closed false (l ++ [y]) j = getf r_closed false l j.
Proof.
  intros C. rewrite getf_snoc. destruct (Nat.eqb j (length l)) eqn:Q; auto.
  apply Nat.eqb_eq in Q. subst. rewrite getf_none; auto.
Qed.

Ltac qfacts :=
  repeat match goal with
  | E : vsort _ (map snd (loaded _)) = _ |- _ => apply (f_equal (@length nat)) in E; rewrite vsort_length, map_length in E; simpl in E
  | E : map snd (loaded _) = _ |- _ => apply (f_equal (@length nat)) in E; rewrite map_length in E; simpl in E
  | E : remove_nth ?l ?i = _, E' : nth_error ?l ?i = Some _ |- _ =>
      apply (f_equal (@length nat)) in E; pose proof (remove_nth_length _ _ _ E'); simpl in E
  | E : pendq _ = _ |- _ => apply (f_equal (@length nat)) in E; simpl in E
  | E : finq _ = _ |- _ => apply (f_equal (@length nat)) in E; simpl in E
  | E : expq _ = _ |- _ => apply (f_equal (@length nat)) in E; simpl in E
  end.

(* the rank function of the post-state is that of the pre-state whenever [loaded] keeps its length and no runner is closed *)
Ltac rank_same s :=
  match goal with
  | |- lt4 (mu ?S') (mu s) =>
      try (assert (RS : forall p, rank S' p = rank s p) by
            (apply rank_frame; [reflexivity | intros ?rr; unfold rcl, goto, spawn, setr, setq; simpl; rewrite ?rcl_snoc by reflexivity; acc_norm; reflexivity]);
           unfold mu, mR; rewrite (cnt_ext (rank S') (rank s) _ RS))
  end.

Ltac comps Ep :=
  unfold lt4, mu, mA, mB, mE, mR, nlive, goto, spawn, setr, setq; simpl;
  rewrite ?app_length; simpl;
  rewrite ?(cnt_upd_snoc _ _ _ _ _ _ Ep), ?(cnt_upd_eq _ _ _ _ _ Ep);
  repeat match goal with
  | E : getr _ ?r = Some ?x |- context [cnt livef (upd (runners _) ?r ?y)] =>
      unfold getr in E; rewrite (cnt_upd_eq livef _ _ _ y E); pose proof (cnt_ge livef _ _ _ E)
  end;
  rewrite ?cnt_snoc; unfold rank, livef in *; simpl in *;
  repeat match goal with
  | E : nth_error (runners ?s) ?r = Some ?x |- _ =>
      lazymatch goal with
      | _ : rcl s r = r_closed x |- _ => fail
      | _ => assert (rcl s r = r_closed x) by (unfold rcl; erewrite getf_some; eauto)
      end
  end;
  repeat match goal with
  | E : getr ?s ?r = Some ?x |- _ =>
      lazymatch goal with
      | _ : rcl s r = r_closed x |- _ => fail
      | _ => pose proof (rcl_get s r x E)
      end
  end;
  repeat match goal with H : rcl _ _ = r_closed _ |- _ => rewrite H in * end;
  repeat match goal with H : r_closed ?x = true |- _ => rewrite H in * | H : r_closed ?x = false |- _ => rewrite H in * end;
  repeat match goal with
  | |- context [if Nat.eqb ?a ?b then _ else _] => destruct (Nat.eqb a b) eqn:?; bool_props
  | H : context [if Nat.eqb ?a ?b then _ else _] |- _ => destruct (Nat.eqb a b) eqn:?; bool_props
  | |- context [if rcl ?s ?r then _ else _] => destruct (rcl s r) eqn:?
  | H : context [if rcl ?s ?r then _ else _] |- _ => destruct (rcl s r) eqn:?
  end.

Lemma step_decreases c s t alt s' e :
  fixed c -> L2 s -> step c s (LRun t alt) = Some (s', e) -> lt4 (mu s') (mu s).
Proof.
  intros Hf I H. fix_cfg c Hf.
  unfold step in H. destruct (nth_error (thr s) t) as [p|] eqn:Ep; try discriminate.
  pose proof (cnt_ge fa _ _ _ Ep) as Ga. pose proof (cnt_ge fb _ _ _ Ep) as Gb.
  pose proof (cnt_ge fe _ _ _ Ep) as Ge. pose proof (cnt_ge (rank s) _ _ _ Ep) as Gr.
  destruct p; step_cases H; rank_same s; bool_props; qfacts; comps Ep; try lex; try congruence.
  (* CEV: the runner being unloaded is registered, hence not shut down yet *)
  exfalso. destruct (l2_cev s I _ _ _ Ep eq_refl) as (m & _ & Lk). destruct (l2_loaded s I _ _ Lk) as [_ C].
  unfold rclosed in C. erewrite getf_some in C by eassumption. congruence.
Qed.

(* With the environment frozen - no Submit, Cancel, Expire, Tick; the outcomes of loads, pings and newServer calls
   and the placement oracle are alternatives of the threads' own steps - the repaired scheduler cannot run for ever. *)
Theorem internal_terminates c s ev : fixed c -> Reach c s ev -> Acc (istep c) s.
Proof.
  intros Hf. remember (mu s) as m eqn:Em. revert s ev Em.
  induction m as [m IH] using (well_founded_ind lt4_wf). intros s ev Em R. subst m.
  constructor. intros s' (t & alt & e & Hs).
  eapply (IH (mu s')); eauto.
  - eapply step_decreases; eauto. eapply L2_Reach; eauto.
  - eapply Reach_step; eauto.
Qed.

(* ---------------------------------------------------------------- enabledness is decidable: alternatives are 0..7 *)
Ltac Zify.zify_post_hook ::= Z.to_euclidean_division_equations.

Lemma alt_range c s t p alt x : run_pc c s t p alt = Some x -> (0 <= alt < 8)%Z.
Proof.
  intros H. destruct p; unfold run_pc, guard, decide, do_reply in H; break_all H;
  repeat match goal with
  | E : _ && _ = true |- _ => apply andb_prop in E; destruct E
  | E : Z.eqb _ _ = true |- _ => apply Z.eqb_eq in E
  | E : Z.leb _ _ = true |- _ => apply Z.leb_le in E
  end; try lia.
Qed.

Definition alts : list Z := [0; 1; 2; 3; 4; 5; 6; 7]%Z.
Definition is_some {A} (o : option A) : bool := match o with Some _ => true | None => false end.

Definition enabled_b (c : config) (s : state) : bool :=
  existsb (fun t => existsb (fun alt => is_some (step c s (LRun t alt))) alts) (seq 0 (length (thr s))).

Lemma enabled_false c s : enabled_b c s = false -> quiescent c s.
Proof.
  intros E t alt. destruct (step c s (LRun t alt)) as [x|] eqn:Hs; auto. exfalso.
  unfold step in Hs. destruct (nth_error (thr s) t) as [p|] eqn:Ep; try discriminate.
  pose proof (alt_range _ _ _ _ _ _ Hs) as Rg.
  assert (Ht : t < length (thr s)) by (apply nth_error_Some; congruence).
  assert (X : enabled_b c s = true).
  { unfold enabled_b. apply existsb_exists. exists t. split. apply in_seq. lia.
    apply existsb_exists. exists alt. split.
    - unfold alts. simpl. assert (alt = 0 \/ alt = 1 \/ alt = 2 \/ alt = 3 \/ alt = 4 \/ alt = 5 \/ alt = 6 \/ alt = 7)%Z by lia. intuition.
    - unfold step. rewrite Ep, Hs. reflexivity. }
  congruence.
Qed.

Lemma enabled_true c s : enabled_b c s = true -> exists t alt x, step c s (LRun t alt) = Some x.
Proof.
  unfold enabled_b. intros E. apply existsb_exists in E. destruct E as (t & _ & E).
  apply existsb_exists in E. destruct E as (alt & _ & E).
  destruct (step c s (LRun t alt)) as [x|] eqn:Hs; try discriminate. eauto.
Qed.

Definition internal (ls : list label) : Prop := Forall (fun l => match l with LRun _ _ => True | _ => False end) ls.

Lemma reaches_quiescent c s : Acc (istep c) s ->
  exists ls s' ev', internal ls /\ run c s ls = Some (s', ev') /\ quiescent c s'.
Proof.
  induction 1 as [s _ IH].
  destruct (enabled_b c s) eqn:E.
  - apply enabled_true in E. destruct E as (t & alt & [s1 e1] & Hs).
    destruct (IH s1) as (ls & s' & ev' & Il & Hr & Q). { exists t, alt, e1. exact Hs. }
    exists (LRun t alt :: ls), s', (e1 ++ ev'). split; [constructor; simpl; auto|]. split; auto.
    cbn [run]. rewrite Hs, Hr. reflexivity.
  - exists [], s, []. split; [constructor|]. split; [reflexivity|]. apply enabled_false; auto.
Qed.
