(* Sched/LlmHealth.v - the health check of an llm server, as the scheduler relies on it (C01).  needsReload hands a
   loaded runner out only if its Ping succeeds; the runner is shut down by the scheduler's unload (Close), by
   Completion's crash path (broken stream -> Close) or by its process exiting.  State machine: alive -> closed, never
   back.  A health probe (Ping, WaitUntilRunning) succeeds exactly while the server is alive; in particular, in every
   history of operations a successful probe implies that no Close / crash / exit came before it.  The real
   llm.llmServer is held to this machine by the llm stage of the scheduler harness (harness/overlay/llm/sched_llm_test.go). *)
From Coq Require Import List Bool Arith Lia.
Import ListNotations.

Inductive hop := HPing | HWait | HCrash | HClose | HExit | HSleep.

Definition closes (o : hop) : bool := match o with HCrash | HClose | HExit => true | _ => false end.

(* new state, result of a health probe (None for the other operations) *)
Definition hstep (alive : bool) (o : hop) : bool * option bool :=
  match o with
  | HPing | HWait => (alive, Some alive)
  | HCrash | HClose | HExit => (false, None)
  | HSleep => (alive, None)
  end.

Fixpoint hrun (alive : bool) (ops : list hop) : list (option bool) :=
  match ops with
  | [] => []
  | o :: tl => let (a, r) := hstep alive o in r :: hrun a tl
  end.

Definition ob_eqb (a b : option bool) : bool :=
  match a, b with Some x, Some y => Bool.eqb x y | None, None => true | _, _ => false end.

Fixpoint obs_eqb (a b : list (option bool)) : bool :=
  match a, b with [] , [] => true | x :: ta, y :: tb => ob_eqb x y && obs_eqb ta tb | _, _ => false end.

(* the observed probe results of a run of the real server agree with the machine *)
Definition chk_health (ops : list hop) (obs : list (option bool)) : bool := obs_eqb (hrun true ops) obs.

Lemma probe_ok_alive : forall ops a k,
  nth_error (hrun a ops) k = Some (Some true) -> a = true /\ forallb (fun o => negb (closes o)) (firstn k ops) = true.
Proof.
  induction ops as [|o tl IH]; intros a k H.
  - destruct k; discriminate H.
  - destruct k as [|k]; simpl in H.
    + destruct o; simpl in H; inversion H; subst; auto.
    + destruct (hstep a o) as [a' r] eqn:E. simpl in H. apply IH in H. destruct H as [-> F].
      destruct o; simpl in E; inversion E; subst; try discriminate; simpl; auto.
Qed.

Theorem ping_ok_not_closed : forall ops k,
  nth_error (hrun true ops) k = Some (Some true) -> forallb (fun o => negb (closes o)) (firstn k ops) = true.
Proof. intros ops k H. apply (probe_ok_alive ops true k H). Qed.

(* and conversely the machine answers every probe of a server that was never shut down with "ok" *)
Theorem alive_probe_ok : forall ops k o,
  nth_error ops k = Some o -> (o = HPing \/ o = HWait) -> forallb (fun o => negb (closes o)) (firstn k ops) = true ->
  nth_error (hrun true ops) k = Some (Some true).
Proof.
  assert (G : forall ops a k o, a = true -> nth_error ops k = Some o -> (o = HPing \/ o = HWait) ->
              forallb (fun o => negb (closes o)) (firstn k ops) = true -> nth_error (hrun a ops) k = Some (Some true)).
  { induction ops as [|x tl IH]; intros a k o Ha Hn Ho F; destruct k as [|k]; simpl in *; try discriminate.
    - inversion Hn; subst. destruct Ho as [->| ->]; reflexivity.
    - apply andb_prop in F. destruct F as [Fx F]. destruct (hstep a x) as [a' r] eqn:E. simpl.
      eapply IH; eauto. subst. destruct x; simpl in E; inversion E; subst; simpl in Fx; auto; discriminate. }
  intros; eapply G; eauto.
Qed.
