(* Sched/InvClose.v - a runner is shut down at most once (C01, second clause). *)
From Coq Require Import List ZArith NArith Bool Lia Arith.
From V Require Import Sched.Lts Sched.Tac Sched.Reach.
Import ListNotations.

Definition closes_ok (x : runner) : Prop := r_closes x = if r_closed x then 1 else 0.

Definition I_closes (s : state) : Prop := Forall closes_ok (runners s).

Lemma fire_Forall (P : runner -> Prop) :
  (forall x, P x -> P (r_set_tm x TFired)) ->
  forall rs i t', Forall P rs -> Forall P (fst (fire rs i t')).
Proof.
  intros HP. induction rs as [|x tl IH]; intros i t' F; simpl; auto.
  inv F. specialize (IH (S i) t' H2). destruct (fire tl (S i) t') as [tl' ps] eqn:E. simpl in IH.
  destruct (r_tm x) as [|[dl|]|]; simpl; auto. destruct (Z.leb dl t'); simpl; auto.
Qed.


(* pointwise runner invariants that every field update except [r_close] preserves *)
Ltac runner_forall :=
  match goal with
  | |- Forall _ (upd _ _ _) => apply Forall_upd; [assumption|]
  | |- Forall _ (_ ++ [_]) => apply Forall_snoc; [assumption|]
  | |- Forall _ _ => assumption
  end.

Lemma I_closes_step c s l s' e : I_closes s -> step c s l = Some (s', e) -> I_closes s'.
Proof.
  unfold I_closes. intros I H. destruct l as [sp|q|m|d|t alt].
  - step_cases H; simpl; auto.
  - step_cases H; simpl; auto.
  - step_cases H; simpl; auto.
  - step_cases H. rewrite tick_runners. apply fire_Forall; auto.
  - unfold step in H. destruct (nth_error (thr s) t) as [p|] eqn:Ep; try discriminate.
    destruct p; step_cases H; simpl; auto;
    repeat match goal with
    | E : getr _ _ = Some ?x |- _ => unfold getr in E; apply (Forall_nth_error _ _ _ _ I) in E
    end;
    try runner_forall; unfold closes_ok in *; simpl in *; auto;
    repeat match goal with E : r_closed _ = _ |- _ => rewrite E in * end; auto.
Qed.

Lemma I_closes_Reach c s ev : Reach c s ev -> I_closes s.
Proof.
  revert s ev. apply Reach_ind_inv.
  - intros m. constructor.
  - intros; eapply I_closes_step; eauto.
Qed.

(* the history: number of Close events of runner r *)
Fixpoint n_close (r : nat) (ev : list event) : nat :=
  match ev with
  | [] => 0
  | EClose r' :: tl => (if Nat.eqb r r' then 1 else 0) + n_close r tl
  | _ :: tl => n_close r tl
  end.

Lemma n_close_app r a b : n_close r (a ++ b) = n_close r a + n_close r b.
Proof. induction a as [|x tl IH]; simpl; auto. destruct x; auto. rewrite IH. lia. Qed.

Definition closes_l (rs : list runner) (r : nat) : nat := match nth_error rs r with Some x => r_closes x | None => 0 end.

Definition I_hist (s : state) (ev : list event) : Prop := forall r, n_close r ev = closes_l (runners s) r.

Lemma closes_l_upd_same rs r0 x y r :
  nth_error rs r0 = Some x -> r_closes y = r_closes x -> closes_l (upd rs r0 y) r = closes_l rs r.
Proof.
  intros E C. unfold closes_l. destruct (Nat.eq_dec r0 r) as [->|N].
  - rewrite (nth_error_upd_eq _ _ _ _ E), E. exact C.
  - rewrite nth_error_upd_neq; auto.
Qed.

Lemma closes_l_upd_close rs r0 x y r :
  nth_error rs r0 = Some x -> r_closes y = S (r_closes x) ->
  closes_l (upd rs r0 y) r = (if Nat.eqb r r0 then 1 else 0) + closes_l rs r.
Proof.
  intros E C. unfold closes_l. destruct (Nat.eq_dec r0 r) as [->|N].
  - rewrite (nth_error_upd_eq _ _ _ _ E), E, Nat.eqb_refl. rewrite C. reflexivity.
  - rewrite nth_error_upd_neq; auto. destruct (Nat.eqb r r0) eqn:E2; auto. apply Nat.eqb_eq in E2; congruence.
Qed.

Lemma closes_l_snoc rs y r : r_closes y = 0 -> closes_l (rs ++ [y]) r = closes_l rs r.
Proof.
  intros C. unfold closes_l. destruct (nth_error (rs ++ [y]) r) as [z|] eqn:E.
  - apply nth_error_snoc in E. destruct E as [E|[-> ->]].
    + rewrite E. reflexivity.
    + rewrite C. assert (N : nth_error rs (length rs) = None) by (apply nth_error_None; lia). rewrite N. reflexivity.
  - destruct (nth_error rs r) as [z|] eqn:E2; auto. rewrite (nth_error_snoc_old _ _ _ _ E2) in E. discriminate.
Qed.

Lemma fire_closes : forall rs i t' r, closes_l (fst (fire rs i t')) r = closes_l rs r.
Proof.
  induction rs as [|x tl IH]; intros i t' r; simpl; auto.
  specialize (IH (S i) t'). destruct (fire tl (S i) t') as [tl' ps] eqn:E. simpl in IH.
  assert (G : forall y, r_closes y = r_closes x -> closes_l (y :: tl') r = closes_l (x :: tl) r).
  { intros y Cy. unfold closes_l in *. destruct r; simpl; auto. }
  destruct (r_tm x) as [|[dl|]|]; simpl; auto. destruct (Z.leb dl t'); simpl; auto.
Qed.

Lemma I_hist_step c s ev l s' e : I_hist s ev -> step c s l = Some (s', e) -> I_hist s' (ev ++ e).
Proof.
  unfold I_hist. intros I H r. rewrite n_close_app, I. clear I.
  destruct l as [sp|q|m|d|t alt].
  - step_cases H; simpl; auto.
  - step_cases H; simpl; auto.
  - step_cases H; simpl; auto.
  - step_cases H. rewrite tick_runners, fire_closes. simpl. lia.
  - unfold step in H. destruct (nth_error (thr s) t) as [p|] eqn:Ep; try discriminate.
    destruct p; step_cases H; simpl; auto;
    repeat match goal with E : getr _ _ = Some _ |- _ => unfold getr in E end;
    try (erewrite closes_l_upd_same by (eauto; reflexivity); lia);
    try (erewrite closes_l_snoc by reflexivity; lia);
    try (erewrite closes_l_upd_close by (eauto; simpl; reflexivity); lia).
Qed.

Lemma I_hist_Reach c s ev : Reach c s ev -> I_hist s ev.
Proof.
  revert s ev. apply Reach_ind_inv.
  - intros m r. unfold closes_l. simpl. destruct r; reflexivity.
  - intros; eapply I_hist_step; eauto.
Qed.

(* C01, second clause: in the history of any run every runner is shut down at most once *)
Lemma close_once c s ev r : Reach c s ev -> n_close r ev <= 1.
Proof.
  intros R. rewrite (I_hist_Reach _ _ _ R r). pose proof (I_closes_Reach _ _ _ R) as I.
  unfold closes_l. destruct (nth_error (runners s) r) as [x|] eqn:E; [|lia].
  apply (Forall_nth_error _ _ _ _ I) in E. unfold closes_ok in E. rewrite E. destruct (r_closed x); lia.
Qed.
