(* Sched/InvCount.v - counting the running runners of the repaired scheduler: they are exactly the entries of
   [loaded] plus the one the pending loop may be registering; the pending loop only starts one when there is room. *)
From Coq Require Import List ZArith NArith Bool Lia Arith.
From V Require Import Sched.Lts Sched.Tac Sched.Reach Sched.InvOwn Sched.InvLock Sched.InvStruct.
Import ListNotations.

Definition livef (x : runner) : nat := if r_closed x then 0 else 1.
Definition freshp (p : pc) : nat := match freshpc p with Some _ => 1 | None => 0 end.
Definition inpl (p : pc) : nat := match inplace p with Some _ => 1 | None => 0 end.

(* number of runners that have been started and not shut down *)
Definition nlive (s : state) : nat := cnt livef (runners s).

Definition I_count (s : state) : Prop := nlive s = length (loaded s) + cnt freshp (thr s).

Definition I_cap (s : state) : Prop :=
  (maxr s = 0 -> loaded s = [] /\ cnt inpl (thr s) = 0) /\
  (0 < maxr s -> length (loaded s) + cnt inpl (thr s) <= maxr s).

Lemma inpl_isP p : inpl p <= isP p.
Proof. unfold inpl. induction p; simpl; auto. Qed.

Lemma freshp_inpl p : freshp p <= inpl p.
Proof. unfold freshp, inpl. induction p; simpl; auto. Qed.

Lemma wake_freshp t' p : freshp (wake t' p) = freshp p.
Proof. unfold freshp. rewrite wake_freshpc. reflexivity. Qed.
Lemma wake_inpl t' p : inpl (wake t' p) = inpl p.
Proof. unfold inpl. rewrite wake_inplace. reflexivity. Qed.

Lemma fire_cnt (f : runner -> nat) :
  (forall x v, f (r_set_tm x v) = f x) -> forall rs i t', cnt f (fst (fire rs i t')) = cnt f rs.
Proof.
  intros Hf. induction rs as [|x tl IH]; intros i t'; simpl; auto.
  specialize (IH (S i) t'). destruct (fire tl (S i) t') as [tl' ps]. simpl in IH.
  destruct (r_tm x) as [|[dl|]|]; simpl; auto. destruct (Z.leb dl t'); simpl; auto.
Qed.

Lemma insert_length_absent l m r : lookup l m = None -> length (insert l m r) = S (length l).
Proof.
  intros N. unfold insert. simpl. f_equal. induction l as [|[k v] tl IH]; simpl in *; auto.
  destruct (Nat.eqb k m); try discriminate. simpl. auto.
Qed.

Lemma remove_key_absent l m : ~ In m (map fst l) -> remove_key l m = l.
Proof.
  induction l as [|[k v] tl IH]; simpl; intros N; auto.
  destruct (Nat.eqb k m) eqn:E.
  - apply Nat.eqb_eq in E. tauto.
  - f_equal. apply IH. tauto.
Qed.

Lemma remove_key_length_present l m r :
  NoDup (map fst l) -> lookup l m = Some r -> S (length (remove_key l m)) = length l.
Proof.
  induction l as [|[k v] tl IH]; simpl; intros N E; try discriminate. inv N.
  destruct (Nat.eqb k m) eqn:Q.
  - apply Nat.eqb_eq in Q. subst. rewrite remove_key_absent; auto.
  - simpl. f_equal. apply IH; auto.
Qed.

Section Step.
Variables (c : config) (s s' : state) (l : label) (e : list event).
Hypothesis Hf : fixed c.
Hypothesis Hg : 1 <= c_ngpus c.
Hypothesis IO : I_one s.
Hypothesis I2 : L2 s.
Hypothesis H : step c s l = Some (s', e).

Lemma I_count_step : I_count s -> I_count s'.
Proof.
  unfold I_count, nlive. intros I. clear Hg. fix_cfg c Hf.
  destruct l as [sp|q0|m|d|t alt].
  - step_cases H; simpl; auto.
  - step_cases H; simpl; auto.
  - step_cases H; simpl; sums I; unfold freshp in *; simpl in *; lia.
  - step_cases H. rewrite tick_runners, tick_loaded, tick_thr, cnt_app, (fire_pcs_zero freshp), fire_cnt, wake_cnt;
      auto using wake_freshp; lia.
  - unfold step in H. destruct (nth_error (thr s) t) as [p|] eqn:Ep; try discriminate.
    pose proof (cnt_ge freshp _ _ _ Ep) as Ge.
    destruct p; step_cases H; simpl; unfold getq, getr in *;
    try (repeat (erewrite (cnt_upd_eq livef) by eassumption); sums Ep; unfold freshp in *; simpl in *;
         repeat match goal with E : nth_error (runners s) _ = Some _ |- _ => pose proof (cnt_ge livef _ _ _ E); revert E end; intros;
         unfold livef in *; simpl in *;
         repeat match goal with E : r_closed _ = _ |- _ => rewrite E in * end; try lia; fail).
    + (* PLd2 *)
      destruct (l2_absent s I2 _ _ _ Ep eq_refl) as (mq' & A1 & A2).
      destruct (l2_fresh s I2 _ _ _ _ Ep eq_refl) as (F1 & (mf & F2 & F3) & F4).
      unfold qmodel, rmodel in *. rewrite A1 in F2. inv F2. rewrite (getf_some _ _ _ _ _ E) in F3. inv F3.
      change (length (insert (loaded s) (r_model r0) r)) with (length (insert (loaded s) (r_model r0) r)).
      pose proof (insert_length_absent _ _ r A2) as IL. unfold insert in IL. simpl in IL.
      erewrite (cnt_upd_eq livef) by eassumption. sums Ep. unfold freshp in *; simpl in *.
      pose proof (cnt_ge livef _ _ _ E). unfold livef in *. simpl in *. lia.
    + (* CEV of an already closed runner: impossible, it is registered in [loaded] *)
      exfalso. destruct (l2_cev s I2 _ _ _ Ep eq_refl) as (m3 & C1 & C2).
      destruct (l2_loaded s I2 _ _ C2) as [_ K2]. unfold rclosed in K2. rewrite (getf_some _ _ _ _ _ E) in K2. congruence.
    + (* CEV *)
      destruct (l2_cev s I2 _ _ _ Ep eq_refl) as (m3 & C1 & C2). unfold rmodel in C1. rewrite (getf_some _ _ _ _ _ E) in C1. inv C1.
      pose proof (remove_key_length_present _ _ _ (l2_nodup s I2) C2).
      erewrite (cnt_upd_eq livef) by eassumption. sums Ep. unfold freshp in *; simpl in *.
      pose proof (cnt_ge livef _ _ _ E). unfold livef in *. simpl in *. rewrite E1 in *. lia.
Qed.

Ltac bool_arith :=
  repeat match goal with
  | H : _ && _ = true |- _ => apply andb_prop in H; destruct H
  | H : _ && _ = false |- _ => apply andb_false_iff in H
  | H : Nat.ltb _ _ = true |- _ => apply Nat.ltb_lt in H
  | H : Nat.ltb _ _ = false |- _ => apply Nat.ltb_ge in H
  | H : Nat.leb _ _ = true |- _ => apply Nat.leb_le in H
  | H : Nat.leb _ _ = false |- _ => apply Nat.leb_gt in H
  | H : Nat.eqb _ _ = true |- _ => apply Nat.eqb_eq in H
  | H : Nat.eqb _ _ = false |- _ => apply Nat.eqb_neq in H
  | H : _ \/ _ |- _ => destruct H
  end.

Lemma I_cap_step : I_cap s -> I_cap s'.
Proof.
  unfold I_cap. intros [I0 I1]. destruct IO as [IP _]. fix_cfg c Hf. simpl in Hg.
  destruct l as [sp|q0|m|d|t alt].
  - step_cases H; simpl; auto.
  - step_cases H; simpl; auto.
  - step_cases H; simpl; rewrite cnt_snoc; unfold inpl at 2 4; simpl; rewrite !Nat.add_0_r; auto.
  - step_cases H. rewrite tick_loaded, tick_maxr, tick_thr, cnt_app, (fire_pcs_zero inpl), wake_cnt;
      auto using wake_inpl. rewrite Nat.add_0_r. auto.
  - unfold step in H. destruct (nth_error (thr s) t) as [p|] eqn:Ep; try discriminate.
    pose proof (cnt_ge inpl _ _ _ Ep) as Ge. pose proof (cnt_le_at inpl isP _ _ _ inpl_isP Ep) as Le.
    destruct p; step_cases H; simpl; unfold getq, getr in *;
    try (sums Ep; unfold inpl in *; simpl in *; bool_arith;
         repeat match goal with E : loaded s = _ |- _ => rewrite E in * end;
         split; intros; try (destruct I0 as [I0a I0b]; [lia|]); try specialize (I1 ltac:(lia)); simpl in *;
         try split; try lia; auto; fail).
    (* PLk: the pending loop decides to start a runner (or fails on a bad model file) *)
    all: try (match goal with Ep : nth_error _ _ = Some (PLk _) |- _ => idtac end;
      sums Ep; unfold inpl in *; simpl in *; bool_arith; rewrite IP in Le;
      (destruct (Nat.eq_dec (maxr s) 0) as [Z0|NZ];
       [ destruct (I0 Z0) as [L0 C0]; rewrite L0 in *; simpl in *; try congruence; split; intros; try split; auto; lia
       | specialize (I1 ltac:(lia)); split; intros; try split; auto; lia ])).
    (* PLd2 *)
    all: try (match goal with Ep : nth_error _ _ = Some (PLd2 _ _) |- _ => idtac end;
      destruct (l2_absent s I2 _ _ _ Ep eq_refl) as (mq' & A1 & A2);
      destruct (l2_fresh s I2 _ _ _ _ Ep eq_refl) as (F1 & (mf & F2 & F3) & F4);
      unfold qmodel, rmodel in *; rewrite A1 in F2; inv F2; rewrite (getf_some _ _ _ _ _ E) in F3; inv F3;
      pose proof (insert_length_absent _ _ r A2) as IL; unfold insert in IL; simpl in IL;
      sums Ep; unfold inpl in *; simpl in *; split; intros Hm;
      [ destruct (I0 Hm) as [L0 C0]; lia | specialize (I1 Hm); lia ]).
    (* CEV *)
    all: pose proof (remove_key_length (loaded s) (r_model r0)); sums Ep; unfold inpl in *; simpl in *; split; intros Hm;
      [ destruct (I0 Hm) as [L0 C0]; rewrite L0; simpl; split; auto; lia | specialize (I1 Hm); lia ].
Qed.

End Step.
