(* Sched/InvRef.v - reference counting of the repaired scheduler: refCount(r) is exactly the number of requests that
   hold r and whose finish event has not been consumed, plus the references in flight (the load's initial
   reference, a grant being delivered); a runner with refCount > 0 is never shut down. *)
From Coq Require Import List ZArith NArith Bool Lia Arith.
From V Require Import Sched.Lts Sched.Tac Sched.Reach Sched.InvOwn Sched.InvLock Sched.InvStruct.
Import ListNotations.

Definition usef (r : nat) (x : req) : nat :=
  match q_grant x with Some r' => if q_fin x then 0 else eqn r' r | None => 0 end.

Fixpoint inflf (r : nat) (p : pc) : nat :=
  match p with
  | PLd1 _ r' | PLd2 _ r' | LWWait _ r' | LWOk _ r' | PUseSend _ r' => eqn r' r
  | TEntry p' => inflf r p'
  | _ => 0
  end.

Fixpoint tokf (q : nat) (p : pc) : nat :=
  match p with
  | FWDone q' | FWSend q' | CFLk q' | CFR q' _ => eqn q' q
  | TEntry p' => tokf q p'
  | _ => 0
  end.

Fixpoint lwokf (q : nat) (p : pc) : nat :=
  match p with LWOk q' _ => eqn q' q | TEntry p' => lwokf q p' | _ => 0 end.

Fixpoint lwokrf (q r : nat) (p : pc) : nat :=
  match p with LWOk q' r' => eqn q' q * eqn r' r | TEntry p' => lwokrf q r p' | _ => 0 end.

Definition grantedn (x : req) : nat := match q_grant x with Some _ => 1 | None => 0 end.
Definition finn (x : req) : nat := if q_fin x then 1 else 0.

Definition rref (s : state) (r : nat) : N := getf r_ref 0%N (runners s) r.
Definition qgrant (s : state) (q : nat) : option nat := getf q_grant None (reqs s) q.
Definition qcanc (s : state) (q : nat) : bool := getf q_cancelled false (reqs s) q.
Definition users (s : state) (r : nat) : nat := cnt (usef r) (reqs s).
Definition infl (s : state) (r : nat) : nat := cnt (inflf r) (thr s).

(* program points that carry a cancelled request's finish token *)
Fixpoint canpc (p : pc) : option nat :=
  match p with FWSend q | CFLk q | CFR q _ => Some q | TEntry p' => canpc p' | _ => None end.

Fixpoint cfrpc (p : pc) : option (nat * nat) :=
  match p with CFR q r => Some (q, r) | TEntry p' => cfrpc p' | _ => None end.

Fixpoint lwpc (p : pc) : option (nat * nat) :=
  match p with LWWait q r | LWOk q r => Some (q, r) | TEntry p' => lwpc p' | _ => None end.

(* the pending loop has found a registered runner for the request *)
Fixpoint pmpc (p : pc) : option (nat * nat) :=
  match p with PNr q r | PPing q r | PUse q r | PUseSend q r => Some (q, r) | TEntry p' => pmpc p' | _ => None end.

Record L3 (s : state) : Prop := mkL3 {
  l3_ref : forall r, rref s r = N.of_nat (users s r + infl s r);
  l3_tok : forall q, occ q (finq s) + cnt (tokf q) (thr s) + getd finn (reqs s) q
                     = getd grantedn (reqs s) q + cnt (lwokf q) (thr s);
  l3_grant : forall q x, getq s q = Some x ->
             (forall r, q_grant x = Some r -> q_replies x <> [] /\ rmodel s r = Some (q_model x)) /\
             (q_fin x = true -> q_grant x <> None /\ q_cancelled x = true);
  l3_cev : forall t p r, nth_error (thr s) t = Some p -> cevpc p = Some r -> rref s r = 0%N;
  l3_closed : forall r, rclosed s r = true -> rref s r = 0%N;
  l3_canpc : forall t p q, nth_error (thr s) t = Some p -> canpc p = Some q -> qcanc s q = true;
  l3_finq : forall q, In q (finq s) -> qcanc s q = true;
  l3_cfr : forall t p q r, nth_error (thr s) t = Some p -> cfrpc p = Some (q, r) ->
           qgrant s q = Some r \/ 1 <= cnt (lwokrf q r) (thr s);
  l3_lw : forall t p q r, nth_error (thr s) t = Some p -> lwpc p = Some (q, r) ->
          exists m, qmodel s q = Some m /\ rmodel s r = Some m;
  l3_pm : forall t p q r, nth_error (thr s) t = Some p -> pmpc p = Some (q, r) ->
          exists m, qmodel s q = Some m /\ rmodel s r = Some m;
  l3_fresh : forall t p q r, nth_error (thr s) t = Some p -> freshpc p = Some (q, r) ->
             users s r = 0 /\ infl s r = 1 /\ rref s r = 1%N
}.

(* ------------------------------------------------------------------ small facts *)

Lemma pred_wrap_S k : pred_wrap (N.of_nat (S k)) = N.of_nat k.
Proof. unfold pred_wrap. destruct (N.eqb (N.of_nat (S k)) 0) eqn:E; [apply N.eqb_eq in E; lia|]. lia. Qed.

Lemma wake_inflf r t' p : inflf r (wake t' p) = inflf r p.
Proof. destruct p; simpl; auto; destruct (Z.leb u t'); reflexivity. Qed.
Lemma wake_tokf q t' p : tokf q (wake t' p) = tokf q p.
Proof. destruct p; simpl; auto; destruct (Z.leb u t'); reflexivity. Qed.
Lemma wake_lwokf q t' p : lwokf q (wake t' p) = lwokf q p.
Proof. destruct p; simpl; auto; destruct (Z.leb u t'); reflexivity. Qed.
Lemma wake_lwokrf q r t' p : lwokrf q r (wake t' p) = lwokrf q r p.
Proof. destruct p; simpl; auto; destruct (Z.leb u t'); reflexivity. Qed.
Lemma wake_canpc t' p : canpc (wake t' p) = canpc p.
Proof. destruct p; simpl; auto; destruct (Z.leb u t'); reflexivity. Qed.
Lemma wake_cfrpc t' p : cfrpc (wake t' p) = cfrpc p.
Proof. destruct p; simpl; auto; destruct (Z.leb u t'); reflexivity. Qed.
Lemma wake_lwpc t' p : lwpc (wake t' p) = lwpc p.
Proof. destruct p; simpl; auto; destruct (Z.leb u t'); reflexivity. Qed.
Lemma wake_pmpc t' p : pmpc (wake t' p) = pmpc p.
Proof. destruct p; simpl; auto; destruct (Z.leb u t'); reflexivity. Qed.

Lemma tick_rref s d r : rref (tick s d) r = rref s r.
Proof. unfold rref. rewrite tick_runners. apply fire_getf. reflexivity. Qed.

Lemma tick_finq s d : finq (tick s d) = finq s.
Proof. unfold tick. destruct (fire (runners s) 0 (now s + d)%Z); reflexivity. Qed.

Lemma lwokf_ownf q p : lwokf q p <= ownf q p.
Proof. induction p; simpl; auto; lia. Qed.

Lemma lwokrf_lwokf q r p : lwokrf q r p <= lwokf q p.
Proof.
  induction p; simpl; auto; unfold eqn;
  repeat match goal with |- context [Nat.eqb ?a ?b] => destruct (Nat.eqb a b) end; simpl; lia.
Qed.

Lemma lwokrf_hr q r p : lwokrf q r p <= hr r p.
Proof.
  induction p; simpl; auto; unfold eqn;
  repeat match goal with |- context [Nat.eqb ?a ?b] => destruct (Nat.eqb a b) end; simpl; lia.
Qed.

Lemma lwokrf_inflf q r p : lwokrf q r p <= inflf r p.
Proof.
  induction p; simpl; auto; unfold eqn;
  repeat match goal with |- context [Nat.eqb ?a ?b] => destruct (Nat.eqb a b) end; simpl; lia.
Qed.

Lemma fresh_thread s r : 1 <= cnt (freshr r) (thr s) -> exists t p q, nth_error (thr s) t = Some p /\ freshpc p = Some (q, r).
Proof.
  intros Hc. destruct (cnt_pos_In (freshr r) (thr s)) as (p & Hin & Hp); [lia|].
  apply In_nth_error in Hin. destruct Hin as [t Ht]. unfold freshr in Hp.
  destruct (freshpc p) as [[q r']|] eqn:E; [|lia]. unfold eqn in Hp. destruct (Nat.eqb r' r) eqn:Q; [|lia].
  apply Nat.eqb_eq in Q. subst. eauto.
Qed.

Lemma freshpc_inflf p q r : freshpc p = Some (q, r) -> inflf r p = 1.
Proof. induction p; simpl; intros E; try discriminate; auto; inv E; unfold eqn; rewrite Nat.eqb_refl; auto. Qed.

Section Facts.
Variable s : state.
Hypothesis IW : I_own s.
Hypothesis IM : I_muc s.
Hypothesis IO : I_one s.
Hypothesis I2 : L2 s.
Hypothesis I : L3 s.

(* a load goroutine about to deliver its runner owns the request: the request has no grant yet *)
Lemma lwok_nogrant q : 1 <= cnt (lwokf q) (thr s) -> qgrant s q = None.
Proof.
  intros Hc. specialize (IW q). unfold owned, nrep in IW.
  pose proof (cnt_mono (lwokf q) (ownf q) (thr s) (lwokf_ownf q)) as M.
  unfold qgrant, getf, getd in *. destruct (nth_error (reqs s) q) as [x|] eqn:E; auto.
  destruct (q_grant x) as [r|] eqn:G; auto. exfalso.
  destruct (l3_grant s I q x E) as [G1 _]. destruct (G1 _ G) as [G2 _].
  destruct (q_replies x); [congruence|]. simpl in IW. destruct (Nat.ltb q (length (reqs s))); lia.
Qed.

Lemma tok_facts q : 1 <= cnt (tokf q) (thr s) ->
  getd finn (reqs s) q = 0 /\ getd grantedn (reqs s) q + cnt (lwokf q) (thr s) = 1.
Proof.
  intros Hc. pose proof (l3_tok s I q) as T.
  assert (B : getd grantedn (reqs s) q + cnt (lwokf q) (thr s) <= 1).
  { destruct (Nat.eq_dec (cnt (lwokf q) (thr s)) 0) as [Z|NZ].
    - rewrite Z. unfold getd, grantedn. destruct (nth_error (reqs s) q) as [x|]; [destruct (q_grant x)|]; lia.
    - pose proof (lwok_nogrant q ltac:(lia)) as G. unfold qgrant, getf in G. unfold getd, grantedn.
      specialize (IW q). unfold owned in IW. pose proof (cnt_mono (lwokf q) (ownf q) (thr s) (lwokf_ownf q)).
      destruct (nth_error (reqs s) q) as [x|]; [rewrite G|]; destruct (Nat.ltb q (length (reqs s))); lia. }
  unfold getd, finn in *. destruct (nth_error (reqs s) q) as [x|]; [destruct (q_fin x)|]; lia.
Qed.

(* a runner with a positive reference count is registered in [loaded] under its model *)
Lemma ref_loaded r : (0 < users s r + infl s r) -> cnt (freshr r) (thr s) = 0 ->
  exists m, rmodel s r = Some m /\ lookup (loaded s) m = Some r.
Proof.
  intros Hp Hn. pose proof (l3_ref s I r) as R.
  destruct (rclosed s r) eqn:C.
  - rewrite (l3_closed s I r C) in R. lia.
  - destruct (l2_live s I2 r C) as [?|F]; auto. lia.
Qed.

Lemma fresh_zero r : 1 <= cnt (freshr r) (thr s) -> users s r = 0 /\ infl s r = 1.
Proof.
  intros Hc. apply fresh_thread in Hc. destruct Hc as (t & p & q & Ht & Hp).
  destruct (l3_fresh s I _ _ _ _ Ht Hp) as (A & B & _). auto.
Qed.

(* the thread (or queue slot) that owns an unanswered request: the request has neither a grant nor a consumed finish *)
Lemma owner_nogrant q x t p :
  nth_error (thr s) t = Some p -> ownf q p = 1 -> getq s q = Some x -> q_grant x = None /\ q_fin x = false.
Proof.
  intros Ht Ho E. specialize (IW q). unfold owned, nrep, getd, getq in *. rewrite E in IW.
  pose proof (cnt_ge (ownf q) _ _ _ Ht) as Ge. rewrite Ho in Ge.
  destruct (l3_grant s I q x E) as [G1 G2].
  assert (G : q_grant x = None).
  { destruct (q_grant x) as [r|] eqn:G; auto. exfalso. destruct (G1 _ eq_refl) as [G3 _].
    destruct (q_replies x); [congruence|]. simpl in IW. destruct (Nat.ltb q (length (reqs s))); lia. }
  split; auto. destruct (q_fin x); auto. destruct (G2 eq_refl) as [G3 _]. congruence.
Qed.

(* nobody is inside the critical section of a free refMu *)
Lemma mu_free_no_lwok q r x : getr s r = Some x -> r_mu x = None -> cnt (lwokrf q r) (thr s) = 0.
Proof.
  intros E N. pose proof (cnt_mono (lwokrf q r) (hr r) (thr s) (lwokrf_hr q r)) as M.
  specialize (IM r). unfold getd, mu1, getr in *. rewrite E, N in IM. lia.
Qed.

End Facts.

Lemma lwokf_pos q p : 1 <= lwokf q p -> exists r, lwpc p = Some (q, r) /\ inflf r p = 1 /\ lwokrf q r p = 1.
Proof.
  induction p; simpl; intros Hp; try lia; auto.
  unfold eqn in *. destruct (Nat.eqb q0 q) eqn:Q; [|lia]. apply Nat.eqb_eq in Q. subst.
  exists r. rewrite !Nat.eqb_refl. auto.
Qed.

Lemma lwpc_not_fresh p a b : lwpc p = Some a -> freshpc p = Some b -> False.
Proof. induction p; simpl; intros A B; try discriminate; auto. Qed.

Section Facts2.
Variable s : state.
Hypothesis IW : I_own s.
Hypothesis IM : I_muc s.
Hypothesis IO : I_one s.
Hypothesis I2 : L2 s.
Hypothesis I : L3 s.

(* the holder of a finish token: the request is not finished, and the runner registered for its model is the one it
   holds (or is about to receive from its load goroutine) *)
Lemma token_runner q x : 1 <= cnt (tokf q) (thr s) -> getq s q = Some x ->
  q_fin x = false /\
  exists r, lookup (loaded s) (q_model x) = Some r /\ (q_grant x = Some r \/ 1 <= cnt (lwokrf q r) (thr s)).
Proof.
  intros Ht E. destruct (tok_facts s IW I q Ht) as [T1 T2]. unfold getd, finn, grantedn, getq in *. rewrite E in *.
  assert (F : q_fin x = false) by (destruct (q_fin x); [lia|reflexivity]). split; auto.
  destruct (q_grant x) as [rq|] eqn:G.
  - (* granted *)
    destruct (l3_grant s I q x E) as [G1 _]. destruct (G1 _ G) as [_ GM].
    assert (U : 1 <= users s rq).
    { unfold users. pose proof (cnt_ge (usef rq) _ _ _ E) as Ge. unfold usef in Ge. rewrite G, F in Ge.
      unfold eqn in Ge. rewrite Nat.eqb_refl in Ge. exact Ge. }
    assert (NF : cnt (freshr rq) (thr s) = 0).
    { destruct (cnt (freshr rq) (thr s)) eqn:C; auto. destruct (fresh_zero s I rq ltac:(lia)). lia. }
    destruct (ref_loaded s I2 I rq ltac:(lia) NF) as (m & M1 & M2). rewrite GM in M1. inv M1. eauto.
  - (* still being delivered by its load goroutine *)
    assert (L : 1 <= cnt (lwokf q) (thr s)) by lia.
    destruct (cnt_pos_In (lwokf q) (thr s) ltac:(lia)) as (p & Hin & Hp).
    apply In_nth_error in Hin. destruct Hin as [t Ht'].
    destruct (lwokf_pos q p ltac:(lia)) as (r & LP & LI & LR).
    destruct (l3_lw s I _ _ _ _ Ht' LP) as (m & Q1 & Q2).
    unfold qmodel in Q1. rewrite (getf_some _ _ _ _ _ E) in Q1. inv Q1.
    assert (IF : 1 <= infl s r) by (unfold infl; pose proof (cnt_ge (inflf r) _ _ _ Ht'); lia).
    assert (NF : cnt (freshr r) (thr s) = 0).
    { destruct (cnt (freshr r) (thr s)) eqn:C; auto. exfalso.
      destruct (fresh_thread s r ltac:(lia)) as (t2 & p2 & q2 & Ht2 & Hp2).
      destruct (l3_fresh s I _ _ _ _ Ht2 Hp2) as (_ & B & _). unfold infl in B.
      destruct (Nat.eq_dec t t2) as [->|NE].
      - rewrite Ht' in Ht2. inv Ht2. eapply lwpc_not_fresh; eauto.
      - pose proof (cnt_two (inflf r) _ _ _ _ _ NE Ht' Ht2). rewrite LI, (freshpc_inflf _ _ _ Hp2) in H. lia. }
    destruct (ref_loaded s I2 I r ltac:(lia) NF) as (m & M1 & M2). rewrite Q2 in M1. inv M1.
    exists r. split; auto. right. pose proof (cnt_ge (lwokrf q r) _ _ _ Ht'). lia.
Qed.

End Facts2.

Ltac acc_norm_in Hc := revert Hc; acc_norm; intro Hc.

Ltac acc3_unfold := unfold rref, qgrant, qcanc, users, infl, rclosed, rmodel, qmodel, getr, getq in *.

Section Step.
Variables (c : config) (s s' : state) (l : label) (e : list event).
Hypothesis Hf : fixed c.
Hypothesis IW : I_own s.
Hypothesis IM : I_muc s.
Hypothesis IL : I_lmuc s.
Hypothesis IO : I_one s.
Hypothesis I2 : L2 s.
Hypothesis I : L3 s.
Hypothesis H : step c s l = Some (s', e).

Lemma l3_canpc_step : forall t p q, nth_error (thr s') t = Some p -> canpc p = Some q -> qcanc s' q = true.
Proof.
  pose proof (l3_canpc s I) as A. pose proof (l3_finq s I) as B. fix_cfg c Hf. intros t' p' q' Hn Hp.
  destruct l as [sp|q0|m|d|t alt].
  - step_cases H; acc3_unfold; simpl in *; specialize (A _ _ _ Hn Hp); rewrite getf_snoc; eqb_cases; auto;
    rewrite getf_none in A by lia; discriminate.
  - step_cases H; acc3_unfold; simpl in *; specialize (A _ _ _ Hn Hp). acc_norm. eqb_cases; auto.
  - step_cases H; simpl in *. apply nth_error_snoc in Hn. destruct Hn as [Hn|[-> ->]]; [|discriminate Hp]. eauto.
  - step_cases H. apply tick_thr_cases in Hn. destruct Hn as [(p0 & Hn & ->)|(r & ->)]; [|discriminate Hp].
    rewrite wake_canpc in Hp. unfold qcanc. rewrite tick_reqs. eapply A; eauto.
  - unfold step in H. destruct (nth_error (thr s) t) as [p|] eqn:Ep; try discriminate.
    destruct p; step_cases H; simpl in Hn; thr_cases Hn; simpl in Hp; try discriminate Hp;
    try (match type of Hp with Some _ = Some _ => inv Hp end);
    try (specialize (A _ _ _ Hn Hp); acc3_unfold; simpl in *; acc_norm; eqb_cases; auto; fail);
    try (pose proof (A _ _ _ Ep eq_refl) as A1; acc3_unfold; simpl in *; acc_norm; eqb_cases; auto; fail);
    try (pose proof (A _ _ _ Ep Hp) as A1; acc3_unfold; simpl in *; acc_norm; eqb_cases; auto; fail).
    + (* CSel: the request comes from the finished queue *)
      apply (B q'). left; reflexivity.
    + (* FWDone: enabled only once the request is cancelled *)
      acc3_unfold; simpl in *. apply andb_prop in E0. destruct E0 as [E0 _]. erewrite getf_some by eassumption. auto.
Qed.

Lemma l3_finq_step : forall q, In q (finq s') -> qcanc s' q = true.
Proof.
  pose proof (l3_canpc s I) as A. pose proof (l3_finq s I) as B. fix_cfg c Hf. intros q' Hin.
  destruct l as [sp|q0|m|d|t alt].
  - step_cases H; acc3_unfold; simpl in *; specialize (B _ Hin); rewrite getf_snoc; eqb_cases; auto;
    rewrite getf_none in B by lia; discriminate.
  - step_cases H; acc3_unfold; simpl in *; specialize (B _ Hin). acc_norm. eqb_cases; auto.
  - step_cases H; acc3_unfold; simpl in *; auto.
  - step_cases H. rewrite tick_finq in Hin. unfold qcanc. rewrite tick_reqs. apply (B _ Hin).
  - unfold step in H. destruct (nth_error (thr s) t) as [p|] eqn:Ep; try discriminate.
    destruct p; step_cases H; simpl in Hin;
    try (specialize (B _ Hin); acc3_unfold; simpl in *; acc_norm; eqb_cases; auto; fail).
    + (* CSel consumes the head *)
      apply B. right; auto.
    + (* FWSend appends a cancelled request *)
      apply in_app_or in Hin. destruct Hin as [Hin|[<-|[]]];
      [pose proof (B _ Hin) as B1 | pose proof (A _ _ _ Ep eq_refl) as B1]; acc3_unfold; simpl in *; auto.
Qed.

Lemma l3_lw_step : forall t p q r, nth_error (thr s') t = Some p -> lwpc p = Some (q, r) ->
  exists m, qmodel s' q = Some m /\ rmodel s' r = Some m.
Proof.
  pose proof (l3_lw s I) as A. fix_cfg c Hf. intros t' p' q' r' Hn Hp.
  destruct l as [sp|q0|m|d|t alt].
  - step_cases H; acc_unfold; simpl in *; destruct (A _ _ _ _ Hn Hp) as (m' & A1 & A2); exists m'; split; auto;
    rewrite getf_snoc; eqb_cases; auto; rewrite getf_none in A1 by lia; discriminate.
  - step_cases H; acc_unfold; simpl in *; destruct (A _ _ _ _ Hn Hp) as (m' & A1 & A2); exists m'; split; auto. acc_norm. auto.
  - step_cases H; simpl in *. apply nth_error_snoc in Hn. destruct Hn as [Hn|[-> ->]]; [|discriminate Hp]. eauto.
  - step_cases H. apply tick_thr_cases in Hn. destruct Hn as [(p0 & Hn & ->)|(r & ->)]; [|discriminate Hp].
    rewrite wake_lwpc in Hp. rewrite tick_qmodel, tick_rmodel. eauto.
  - unfold step in H. destruct (nth_error (thr s) t) as [p|] eqn:Ep; try discriminate.
    destruct p; step_cases H; simpl in Hn; thr_cases Hn; simpl in Hp; try discriminate Hp;
    try (match type of Hp with Some _ = Some _ => inv Hp end);
    try (destruct (A _ _ _ _ Hn Hp) as (m' & A1 & A2); exists m'; acc_unfold; simpl in *; acc_norm; split; auto;
         eqb_cases; auto; try (rewrite getf_none in A1 by lia; discriminate); try (rewrite getf_none in A2 by lia; discriminate); fail);
    try (destruct (A _ _ _ _ Ep eq_refl) as (m' & A1 & A2); exists m'; acc_unfold; simpl in *; acc_norm; split; auto; fail);
    try (destruct (A _ _ _ _ Ep Hp) as (m' & A1 & A2); exists m'; acc_unfold; simpl in *; acc_norm; split; auto; fail).
    (* PLd2: the load goroutine is created for the fresh runner *)
    destruct (l2_fresh s I2 _ _ _ _ Ep eq_refl) as (F1 & (mf & F2 & F3) & F4).
    exists mf. acc_unfold; simpl in *; acc_norm. auto.
Qed.

Lemma l3_pm_step : forall t p q r, nth_error (thr s') t = Some p -> pmpc p = Some (q, r) ->
  exists m, qmodel s' q = Some m /\ rmodel s' r = Some m.
Proof.
  pose proof (l3_pm s I) as A. fix_cfg c Hf. intros t' p' q' r' Hn Hp.
  destruct l as [sp|q0|m|d|t alt].
  - step_cases H; acc_unfold; simpl in *; destruct (A _ _ _ _ Hn Hp) as (m' & A1 & A2); exists m'; split; auto;
    rewrite getf_snoc; eqb_cases; auto; rewrite getf_none in A1 by lia; discriminate.
  - step_cases H; acc_unfold; simpl in *; destruct (A _ _ _ _ Hn Hp) as (m' & A1 & A2); exists m'; split; auto. acc_norm. auto.
  - step_cases H; simpl in *. apply nth_error_snoc in Hn. destruct Hn as [Hn|[-> ->]]; [|discriminate Hp]. eauto.
  - step_cases H. apply tick_thr_cases in Hn. destruct Hn as [(p0 & Hn & ->)|(r & ->)]; [|discriminate Hp].
    rewrite wake_pmpc in Hp. rewrite tick_qmodel, tick_rmodel. eauto.
  - unfold step in H. destruct (nth_error (thr s) t) as [p|] eqn:Ep; try discriminate.
    destruct p; step_cases H; simpl in Hn; thr_cases Hn; simpl in Hp; try discriminate Hp;
    try (match type of Hp with Some _ = Some _ => inv Hp end);
    try (destruct (A _ _ _ _ Hn Hp) as (m' & A1 & A2); exists m'; acc_unfold; simpl in *; acc_norm; split; auto;
         eqb_cases; auto; try (rewrite getf_none in A1 by lia; discriminate); try (rewrite getf_none in A2 by lia; discriminate); fail);
    try (destruct (A _ _ _ _ Ep eq_refl) as (m' & A1 & A2); exists m'; acc_unfold; simpl in *; acc_norm; split; auto; fail);
    try (destruct (A _ _ _ _ Ep Hp) as (m' & A1 & A2); exists m'; acc_unfold; simpl in *; acc_norm; split; auto; fail).
    (* PLk: the lookup found a runner registered under the request's model *)
    destruct (l2_loaded s I2 _ _ E1) as [K1 K2]. exists (q_model r). acc_unfold; simpl in *. split; auto.
    erewrite getf_some by eassumption. reflexivity.
Qed.

Lemma two_mu' r t1 t2 p1 p2 :
  t1 <> t2 -> nth_error (thr s) t1 = Some p1 -> nth_error (thr s) t2 = Some p2 -> hr r p1 = 1 -> hr r p2 = 1 -> False.
Proof. eapply two_mu; eauto. Qed.

Lemma mu_held' r t p x : nth_error (thr s) t = Some p -> hr r p = 1 -> nth_error (runners s) r = Some x -> is_none (r_mu x) = true -> False.
Proof. intros. eapply mu_held; eauto. Qed.

Lemma l3_cev_step : forall t p r, nth_error (thr s') t = Some p -> cevpc p = Some r -> rref s' r = 0%N.
Proof.
  pose proof (l3_cev s I) as A. fix_cfg c Hf. intros t' p' r' Hn Hp.
  destruct l as [sp|q0|m|d|t alt].
  - step_cases H; acc3_unfold; simpl in *; eauto.
  - step_cases H; acc3_unfold; simpl in *; eauto.
  - step_cases H; simpl in *. apply nth_error_snoc in Hn. destruct Hn as [Hn|[-> ->]]; [|discriminate Hp]. eauto.
  - step_cases H. apply tick_thr_cases in Hn. destruct Hn as [(p0 & Hn & ->)|(r & ->)]; [|discriminate Hp].
    rewrite wake_cevpc in Hp. rewrite tick_rref. eauto.
  - unfold step in H. destruct (nth_error (thr s) t) as [p|] eqn:Ep; try discriminate.
    destruct p; step_cases H; simpl in Hn; thr_cases Hn; simpl in Hp; try discriminate Hp;
    try (match type of Hp with Some _ = Some _ => inv Hp end);
    try (pose proof (A _ _ _ Hn Hp) as A1; destruct (cevpc_hl _ _ Hp) as [_ HR];
         acc3_unfold; simpl in *; acc_norm; eqb_cases; auto;
         try (rewrite getf_none in A1 by lia; auto; fail);
         exfalso; opt_cases;
         first [ eapply (mu_held' r'); eauto; match goal with E : ?o = None |- is_none ?o = true => rewrite E; reflexivity end
               | eapply (two_mu' r' t' t); eauto; simpl; unfold eqn; rewrite Nat.eqb_refl; reflexivity ]; fail);
    try (pose proof (A _ _ _ Ep eq_refl) as A1; acc3_unfold; simpl in *; acc_norm; auto; fail);
    try (pose proof (A _ _ _ Ep Hp) as A1; acc3_unfold; simpl in *; acc_norm; auto; fail).
    1,2: pose proof (A _ _ _ Hn Hp) as A1; destruct (l2_cev s I2 _ _ _ Hn Hp) as (m3 & C1 & _);
      acc3_unfold; simpl in *; rewrite getf_snoc; eqb_cases; auto; rewrite getf_none in C1 by lia; discriminate.
    (* CE2 -> CEV: refCount was just seen to be 0 *)
    acc3_unfold; simpl in *; acc_norm. erewrite getf_some by eassumption. apply N.ltb_ge in E2. lia.
Qed.

Ltac ref_sums r Ep :=
  repeat (erewrite (cnt_upd_eq (usef r)) by eassumption);
  repeat (erewrite (cnt_upd_eq (inflf r)) by (first [exact Ep | apply nth_error_snoc_old; exact Ep]));
  rewrite ?cnt_snoc.

Lemma l3_ref_step : forall r, rref s' r = N.of_nat (users s' r + infl s' r).
Proof.
  pose proof (l3_ref s I) as R. fix_cfg c Hf. intros r'. specialize (R r').
  destruct l as [sp|q0|m|d|t alt].
  - step_cases H; acc3_unfold; simpl in *; rewrite ?cnt_snoc; unfold usef in *; simpl in *; rewrite R; f_equal; lia.
  - step_cases H; acc3_unfold; simpl in *. pose proof (cnt_ge (usef r') _ _ _ E) as Ge.
    erewrite (cnt_upd_eq (usef r')) by eassumption. unfold usef in *. simpl in *. rewrite R. f_equal. lia.
  - step_cases H; acc3_unfold; simpl in *; rewrite ?cnt_snoc; simpl; rewrite R; f_equal; lia.
  - step_cases H. unfold users, infl. rewrite tick_rref, tick_reqs, tick_thr, cnt_app, (fire_pcs_zero (inflf r')), wake_cnt;
      auto using wake_inflf. unfold users, infl in R. rewrite R. f_equal. lia.
  - unfold step in H. destruct (nth_error (thr s) t) as [p|] eqn:Ep; try discriminate.
    pose proof (cnt_ge (inflf r') _ _ _ Ep) as Ge.
    destruct p; step_cases H; acc3_unfold; simpl in *;
    repeat match goal with E : nth_error (reqs s) _ = Some _ |- _ => pose proof (cnt_ge (usef r') _ _ _ E); revert E end; intros;
    try (acc_norm; ref_sums r' Ep; unfold usef in *; simpl in *; rewrite ?R; try (f_equal; lia); fail).
    (* PUse: refCount++ and the grant is in flight *)
    1,2: acc_norm; ref_sums r' Ep; simpl; destruct (Nat.eqb r r') eqn:Q;
      [ apply Nat.eqb_eq in Q; subst r'; rewrite (getf_some _ _ _ _ _ E) in R; simpl; rewrite R;
        unfold eqn; rewrite Nat.eqb_refl; rewrite <- Nat2N.inj_succ; f_equal; lia
      | unfold eqn; rewrite Q; rewrite R; f_equal; lia ].
    1: { (* PUseSend: the grant is recorded *)
      destruct (owner_nogrant s IW I q r1 _ _ Ep) as [G F]; [simpl; unfold eqn; rewrite Nat.eqb_refl; reflexivity|exact E1|].
      acc_norm; ref_sums r' Ep. unfold usef in *. simpl in *. rewrite G, F in *. rewrite R. f_equal. lia. }
    (* PNs: a new runner with refCount 1, held by the pending loop *)
    1,2: ref_sums r' Ep; simpl; rewrite getf_snoc; unfold eqn; destruct (Nat.eqb r' (length (runners s))) eqn:Q;
      [ apply Nat.eqb_eq in Q; subst r'; rewrite getf_none in R by lia; rewrite Nat.eqb_refl; simpl; lia
      | rewrite Nat.eqb_sym, Q; rewrite R; f_equal; lia ].
    (* CFR: the finish event of a request that holds r *)
    all: try (match goal with
      | Ep : nth_error (thr s) _ = Some (CFR ?q ?r), E : nth_error (runners s) ?r = Some ?r0,
        E0 : nth_error (reqs s) ?q = Some ?r1 |- _ =>
        assert (G : q_grant r1 = Some r /\ q_fin r1 = false) by
          (pose proof (cnt_ge (tokf q) _ _ _ Ep) as Gt; simpl in Gt; unfold eqn in Gt; rewrite Nat.eqb_refl in Gt;
           destruct (tok_facts s IW I q Gt) as [T1 T2]; unfold getd, finn in T1; rewrite E0 in T1;
           split; [|destruct (q_fin r1); [lia|reflexivity]];
           destruct (l3_cfr s I _ _ _ _ Ep eq_refl) as [C|C];
           [ unfold qgrant in C; erewrite getf_some in C by eassumption; exact C
           | exfalso; opt_cases; match goal with EN : r_mu r0 = None |- _ =>
               pose proof (mu_free_no_lwok s IM q r r0 E EN) end; lia ]);
        destruct G as [G F]; acc_norm; ref_sums r' Ep; unfold usef in *; simpl in *; rewrite G, F in *;
        (destruct (Nat.eqb r r') eqn:Q;
         [ apply Nat.eqb_eq in Q; subst r'; unfold eqn in *; rewrite Nat.eqb_refl in *;
           erewrite getf_some in R by eassumption; simpl; rewrite R;
           match goal with |- pred_wrap (N.of_nat ?k) = _ => replace k with (S (k - 1)) by lia end;
           rewrite pred_wrap_S; f_equal; lia
         | unfold eqn in *; rewrite Q in *; rewrite R; f_equal; lia ])
      end).
    + (* LWWait, load failed: the initial reference is dropped *)
      acc_norm; ref_sums r' Ep; simpl in *.
      destruct (Nat.eqb r r') eqn:Q.
      * apply Nat.eqb_eq in Q; subst r'. unfold eqn in *. rewrite Nat.eqb_refl in *.
        erewrite getf_some in R by eassumption. simpl. rewrite R.
        match goal with |- pred_wrap (N.of_nat ?k) = _ => replace k with (S (k - 1)) by lia end.
        rewrite pred_wrap_S. f_equal. lia.
      * unfold eqn in *. rewrite Q in *. rewrite R. f_equal. lia.
    + (* LWOk: the load's reference becomes the request's *)
      destruct (owner_nogrant s IW I q r1 _ _ Ep) as [G F]; [simpl; unfold eqn; rewrite Nat.eqb_refl; reflexivity|eassumption|].
      acc_norm; ref_sums r' Ep. unfold usef in *. simpl in *. rewrite G, F in *. rewrite R. f_equal. lia.
Qed.

Ltac tok_sums q Ep :=
  repeat (erewrite (cnt_upd_eq (tokf q)) by (first [exact Ep | apply nth_error_snoc_old; exact Ep]));
  repeat (erewrite (cnt_upd_eq (lwokf q)) by (first [exact Ep | apply nth_error_snoc_old; exact Ep]));
  rewrite ?cnt_snoc;
  repeat (erewrite getd_upd by eassumption); rewrite ?getd_snoc.

Lemma l3_tok_step : forall q, occ q (finq s') + cnt (tokf q) (thr s') + getd finn (reqs s') q
                              = getd grantedn (reqs s') q + cnt (lwokf q) (thr s').
Proof.
  pose proof (l3_tok s I) as T. fix_cfg c Hf. intros q'. specialize (T q'). unfold occ in *.
  destruct l as [sp|q0|m|d|t alt].
  - (* submit: a new request owns nothing *)
    pose proof (IW q') as W. unfold owned, nrep in W. pose proof (cnt_mono (lwokf q') (ownf q') (thr s) (lwokf_ownf q')) as M.
    step_cases H; simpl in *; rewrite !getd_snoc; unfold finn, grantedn in *; simpl;
    destruct (Nat.eqb q' (length (reqs s))) eqn:Q; try lia;
    apply Nat.eqb_eq in Q; subst q'; rewrite !getd_none in * by lia; rewrite Nat.ltb_irrefl in W; lia.
  - step_cases H; unfold getq in *; simpl in *. rewrite !(getd_upd _ _ _ _ _ _ E). unfold finn, grantedn in *. simpl.
    destruct (Nat.eqb q0 q') eqn:Q; try lia. apply Nat.eqb_eq in Q. subst. unfold getd in T. rewrite E in T. lia.
  - step_cases H; simpl in *; rewrite !cnt_snoc; simpl; lia.
  - step_cases H. rewrite tick_finq, tick_reqs, tick_thr, !cnt_app, (fire_pcs_zero (tokf q')), (fire_pcs_zero (lwokf q')), !wake_cnt;
      auto using wake_tokf, wake_lwokf. lia.
  - unfold step in H. destruct (nth_error (thr s) t) as [p|] eqn:Ep; try discriminate.
    pose proof (cnt_ge (tokf q') _ _ _ Ep) as GeT. pose proof (cnt_ge (lwokf q') _ _ _ Ep) as GeL.
    destruct p; step_cases H; unfold getq, getr in *; simpl in *;
    repeat match goal with E : finq s = _ |- _ => rewrite E in T; simpl in T end;
    try (tok_sums q' Ep; unfold finn, grantedn in *; simpl in *; rewrite ?cnt_snoc; simpl; eqb_cases; use_nth; simpl in *; lia).
    (* replies that hand out a runner: the request had no grant *)
    all: try (match goal with
      | Ep : nth_error (thr s) _ = Some ?pc, E1 : nth_error (reqs s) ?q = Some ?r1 |- context [q_add_reply ?r1 (ROk _ _)] =>
        destruct (owner_nogrant s IW I q r1 _ _ Ep) as [G F];
        [simpl; unfold eqn; rewrite Nat.eqb_refl; reflexivity|exact E1|];
        tok_sums q' Ep; unfold finn, grantedn in *; simpl in *; rewrite ?cnt_snoc; simpl;
        destruct (Nat.eqb q q') eqn:Q;
        [ apply Nat.eqb_eq in Q; subst q'; unfold getd in T; rewrite E1 in T; rewrite G, F in *;
          unfold eqn in *; rewrite ?Nat.eqb_refl in *; lia
        | unfold eqn in *; rewrite ?Q in *; lia ]
      end).
    (* CFR: the finish is consumed *)
    all: try (match goal with
      | Ep : nth_error (thr s) _ = Some (CFR ?q _), E0 : nth_error (reqs s) ?q = Some ?r1 |- _ =>
        assert (F : q_fin r1 = false) by
          (pose proof (cnt_ge (tokf q) _ _ _ Ep) as Gt; simpl in Gt; unfold eqn in Gt; rewrite Nat.eqb_refl in Gt;
           destruct (token_runner s IW I2 I q r1 Gt E0) as [F _]; exact F);
        tok_sums q' Ep; unfold finn, grantedn in *; simpl in *;
        destruct (Nat.eqb q q') eqn:Q;
        [ apply Nat.eqb_eq in Q; subst q'; unfold getd in T; rewrite E0 in T; rewrite F in *;
          unfold eqn in *; rewrite ?Nat.eqb_refl in *; lia
        | unfold eqn in *; rewrite ?Q in *; lia ]
      end).
    (* CFLk: the runner of a request whose finish token is in flight is registered *)
    exfalso. pose proof (cnt_ge (tokf q) _ _ _ Ep) as Gt. simpl in Gt. unfold eqn in Gt. rewrite Nat.eqb_refl in Gt.
    destruct (token_runner s IW I2 I q r Gt E) as [_ (rr & L & _)]. congruence.
Qed.

Lemma l3_grant_step : forall q x, getq s' q = Some x ->
  (forall r, q_grant x = Some r -> q_replies x <> [] /\ rmodel s' r = Some (q_model x)) /\
  (q_fin x = true -> q_grant x <> None /\ q_cancelled x = true).
Proof.
  pose proof (l3_grant s I) as A. fix_cfg c Hf. intros q' x' Hq.
  destruct l as [sp|q0|m|d|t alt].
  - step_cases H; unfold getq in *; simpl in *; apply nth_error_snoc in Hq; destruct Hq as [Hq|[-> ->]]; eauto;
    simpl; split; intros; discriminate.
  - step_cases H; unfold getq in *; simpl in *. apply nth_error_upd in Hq. destruct Hq as [(-> & -> & _)|[N Hq]]; eauto.
    destruct (A _ _ E) as [A1 A2]. simpl. split; auto. intros Hfin. destruct (A2 Hfin). auto.
  - step_cases H; simpl in *; eauto.
  - step_cases H. unfold getq in *. rewrite tick_reqs in Hq. destruct (A _ _ Hq) as [A1 A2]. split; auto.
    intros r G. destruct (A1 _ G). rewrite tick_rmodel. auto.
  - unfold step in H. destruct (nth_error (thr s) t) as [p|] eqn:Ep; try discriminate.
    destruct p; step_cases H; unfold getq, getr in *; simpl in *;
    (* the request list is unchanged *)
    try (destruct (A _ _ Hq) as [A1 A2]; split; auto; intros r'' G; destruct (A1 _ G) as [A3 A4]; split; auto;
         acc_unfold; simpl in *; acc_norm; eqb_cases; auto; rewrite getf_none in A4 by lia; discriminate).
    all: unfold setq, setr, goto, spawn in Hq |- *; simpl in Hq; apply nth_error_upd in Hq;
      destruct Hq as [(<- & -> & _)|[N Hq]];
      [ | destruct (A _ _ Hq) as [A1 A2]; split; auto; intros r'' G; destruct (A1 _ G) as [A3 A4]; split; auto;
          acc_unfold; simpl in *; acc_norm; eqb_cases; auto ].
    (* a reply that hands out runner r: r serves the request's model *)
    all: try (match goal with
      | Ep : nth_error (thr s) _ = Some _, E1 : nth_error (reqs s) ?q = Some ?r1 |- context [q_add_reply ?r1 (ROk ?r _)] =>
        destruct (owner_nogrant s IW I q r1 _ _ Ep) as [G0 F0];
        [simpl; unfold eqn; rewrite Nat.eqb_refl; reflexivity|exact E1|];
        assert (M : exists m, qmodel s q = Some m /\ rmodel s r = Some m) by
          (first [eapply (l3_pm s I); [exact Ep|reflexivity] | eapply (l3_lw s I); [exact Ep|reflexivity]]);
        destruct M as (m0 & M1 & M2); unfold qmodel in M1; rewrite (getf_some _ _ _ _ _ E1) in M1; inv M1;
        simpl; split;
        [ intros r2 G; inv G; split; [destruct (q_replies r1); discriminate|];
          acc_unfold; simpl in *; acc_norm; eqb_cases; auto
        | rewrite F0; discriminate ]
      end).
    (* error replies and the consumption of the finish event keep the grant *)
    all: destruct (A _ _ ltac:(eassumption)) as [A1 A2]; simpl; split;
      try (intros r2 G; destruct (A1 _ G) as [A3 A4]; split;
           [ try (destruct (q_replies _); discriminate); auto
           | acc_unfold; simpl in *; acc_norm; eqb_cases; auto ]);
      auto.
    (* CFR sets the finished flag: the request holds a runner and was cancelled *)
    all: intros _; pose proof (l3_canpc s I _ _ _ Ep eq_refl) as Cn; unfold qcanc in Cn;
      erewrite getf_some in Cn by eassumption; split; auto;
      match goal with
      | Ep : nth_error (thr s) _ = Some (CFR ?q ?r), E : nth_error (runners s) ?r = Some ?r0, E0 : nth_error (reqs s) ?q = Some ?r1 |- _ =>
        destruct (l3_cfr s I _ _ _ _ Ep eq_refl) as [C|C];
        [ unfold qgrant in C; erewrite getf_some in C by eassumption; rewrite C; discriminate
        | exfalso; opt_cases; match goal with EN : r_mu r0 = None |- _ => pose proof (mu_free_no_lwok s IM q r r0 E EN) end; lia ]
      end.
Qed.

Lemma l3_closed_step : forall r, rclosed s' r = true -> rref s' r = 0%N.
Proof.
  pose proof (l3_closed s I) as A. fix_cfg c Hf. intros r' Hc.
  destruct l as [sp|q0|m|d|t alt].
  - step_cases H; acc3_unfold; simpl in *; eauto.
  - step_cases H; acc3_unfold; simpl in *; eauto.
  - step_cases H; acc3_unfold; simpl in *; eauto.
  - step_cases H. rewrite tick_rclosed in Hc. rewrite tick_rref. eauto.
  - unfold step in H. destruct (nth_error (thr s) t) as [p|] eqn:Ep; try discriminate.
    destruct p; step_cases H; acc3_unfold; simpl in *; acc_norm_in Hc;
    try (acc_norm; eqb_cases; simpl in *; auto; try congruence; fail).
    all: try (destruct (Nat.eqb r r') eqn:Q; [apply Nat.eqb_eq in Q; subst r'|auto]).
    (* PUse: the runner was just seen not to be shut down *)
    1,2: erewrite getf_some in Hc by eassumption; simpl in *; congruence.
    (* CFR: the runner is held by the finishing request *)
    1-3: exfalso;
      assert (G : q_grant r1 = Some r /\ q_fin r1 = false) by
        (pose proof (cnt_ge (tokf q) _ _ _ Ep) as Gt; simpl in Gt; unfold eqn in Gt; rewrite Nat.eqb_refl in Gt;
         destruct (token_runner s IW I2 I q r1 Gt E0) as [F _]; split; auto;
         destruct (l3_cfr s I _ _ _ _ Ep eq_refl) as [C|C];
         [ unfold qgrant in C; erewrite getf_some in C by eassumption; exact C
         | exfalso; opt_cases; pose proof (mu_free_no_lwok s IM q r r0 E ltac:(assumption)); lia ]);
      destruct G as [G F];
      pose proof (l3_ref s I r) as R; unfold rref, users in R;
      rewrite (A r Hc) in R; apply (f_equal N.to_nat) in R; rewrite Nat2N.id in R; simpl in R;
      pose proof (cnt_ge (usef r) _ _ _ E0) as Ge;
      assert (U1 : usef r r1 = 1) by (unfold usef; rewrite G, F; unfold eqn; rewrite Nat.eqb_refl; reflexivity);
      rewrite U1 in Ge; lia.
    + (* CEV *)
      apply (l3_cev s I _ _ _ Ep eq_refl).
    + (* LWWait: the load goroutine's runner is not shut down *)
      pose proof (l2_livepc s I2 _ _ _ Ep eq_refl) as L. unfold rclosed in L. erewrite getf_some in Hc, L by eassumption.
      simpl in Hc. congruence.
Qed.

Lemma l3_cfr_step : forall t p q r, nth_error (thr s') t = Some p -> cfrpc p = Some (q, r) ->
  qgrant s' q = Some r \/ 1 <= cnt (lwokrf q r) (thr s').
Proof.
  pose proof (l3_cfr s I) as A. fix_cfg c Hf. intros t' p' q' r' Hn Hp.
  destruct l as [sp|q0|m|d|t alt].
  - step_cases H; acc3_unfold; simpl in *; destruct (A _ _ _ _ Hn Hp) as [A1|A1]; auto; left;
    rewrite getf_snoc; eqb_cases; auto; rewrite getf_none in A1 by lia; discriminate.
  - step_cases H; acc3_unfold; simpl in *; destruct (A _ _ _ _ Hn Hp) as [A1|A1]; auto; left. acc_norm. auto.
  - step_cases H; simpl in *. apply nth_error_snoc in Hn. destruct Hn as [Hn|[-> ->]]; [|discriminate Hp].
    destruct (A _ _ _ _ Hn Hp) as [A1|A1]; auto. right. rewrite cnt_snoc. lia.
  - step_cases H. apply tick_thr_cases in Hn. destruct Hn as [(p0 & Hn & ->)|(r & ->)]; [|discriminate Hp].
    rewrite wake_cfrpc in Hp. unfold qgrant. rewrite tick_reqs, tick_thr, cnt_app, wake_cnt by (intros; apply wake_lwokrf).
    destruct (A _ _ _ _ Hn Hp) as [A1|A1]; auto. right. lia.
  - unfold step in H. destruct (nth_error (thr s) t) as [p|] eqn:Ep; try discriminate.
    pose proof (cnt_ge (lwokrf q' r') _ _ _ Ep) as Ge.
    destruct p; step_cases H; simpl in Hn; thr_cases Hn; simpl in Hp; try discriminate Hp;
    try (match type of Hp with Some _ = Some _ => inv Hp end);
    (* another thread is at CFR q' r' *)
    try (destruct (A _ _ _ _ Hn Hp) as [A1|A1];
         [ left; acc3_unfold; simpl in *; acc_norm; eqb_cases; auto
         | right; simpl; repeat (erewrite (cnt_upd_eq (lwokrf q' r')) by (first [exact Ep | apply nth_error_snoc_old; exact Ep]));
           rewrite ?cnt_snoc; simpl in *; lia ]; fail);
    try (destruct (A _ _ _ _ Ep eq_refl) as [A1|A1];
         [ left; acc3_unfold; simpl in *; acc_norm; eqb_cases; auto
         | right; simpl; repeat (erewrite (cnt_upd_eq (lwokrf q' r')) by (first [exact Ep | apply nth_error_snoc_old; exact Ep]));
           rewrite ?cnt_snoc; simpl in *; lia ]; fail);
    try (destruct (A _ _ _ _ Ep Hp) as [A1|A1];
         [ left; acc3_unfold; simpl in *; acc_norm; eqb_cases; auto
         | right; simpl; repeat (erewrite (cnt_upd_eq (lwokrf q' r')) by (first [exact Ep | apply nth_error_snoc_old; exact Ep]));
           rewrite ?cnt_snoc; simpl in *; lia ]; fail).
    + (* PUseSend q r: nobody can be consuming a finish event of q *)
      destruct (owner_nogrant s IW I q r1 _ _ Ep) as [G0 F0]; [simpl; unfold eqn; rewrite Nat.eqb_refl; reflexivity|exact E1|].
      destruct (Nat.eq_dec q q') as [->|NE].
      * exfalso. destruct (A _ _ _ _ Hn Hp) as [A1|A1].
        -- unfold qgrant in A1. erewrite getf_some in A1 by eassumption. congruence.
        -- pose proof (cnt_le_at (lwokf q') (ownf q') _ _ _ (lwokf_ownf q') Ep) as Le. simpl in Le.
           unfold eqn in Le. rewrite Nat.eqb_refl in Le.
           pose proof (cnt_mono (lwokrf q' r') (lwokf q') (thr s) (lwokrf_lwokf q' r')).
           specialize (IW q'). unfold owned in IW. destruct (Nat.ltb q' (length (reqs s))); lia.
      * destruct (A _ _ _ _ Hn Hp) as [A1|A1].
        -- left. acc3_unfold; simpl in *; acc_norm. apply Nat.eqb_neq in NE. rewrite NE. auto.
        -- right. simpl. repeat (erewrite (cnt_upd_eq (lwokrf q' r')) by (first [exact Ep | apply nth_error_snoc_old; exact Ep])).
           rewrite ?cnt_snoc. simpl in *. lia.
    + (* CFLk -> CFR: the registered runner is the one the request holds *)
      pose proof (cnt_ge (tokf q') _ _ _ Ep) as Gt. simpl in Gt. unfold eqn in Gt. rewrite Nat.eqb_refl in Gt.
      destruct (token_runner s IW I2 I q' r Gt E) as [_ (rr & L & D)]. rewrite E1 in L. inv L.
      destruct D as [D|D].
      * left. acc3_unfold; simpl in *. erewrite getf_some by eassumption. auto.
      * right. simpl. erewrite (cnt_upd_eq (lwokrf q' rr)) by exact Ep. simpl. lia.
    + (* LWOk q r delivers the runner *)
      destruct (owner_nogrant s IW I q r1 _ _ Ep) as [G0 F0]; [simpl; unfold eqn; rewrite Nat.eqb_refl; reflexivity|eassumption|].
      destruct (Nat.eq_dec q q') as [->|NE].
      * destruct (A _ _ _ _ Hn Hp) as [A1|A1].
        -- exfalso. unfold qgrant in A1. erewrite getf_some in A1 by eassumption. congruence.
        -- left. pose proof (cnt_le_at (lwokrf q' r') (lwokf q') _ _ _ (lwokrf_lwokf q' r') Ep) as Le. simpl in Le.
           pose proof (cnt_le_at (lwokf q') (ownf q') _ _ _ (lwokf_ownf q') Ep) as Le2. simpl in Le2.
           unfold eqn in Le, Le2. rewrite Nat.eqb_refl in Le, Le2.
           specialize (IW q'). unfold owned in IW.
           assert (R : r = r').
           { destruct (Nat.eqb r r') eqn:Q; [apply Nat.eqb_eq in Q; auto|]. exfalso.
             destruct (Nat.ltb q' (length (reqs s))); lia. }
           subst r'. acc3_unfold; simpl in *; acc_norm. rewrite Nat.eqb_refl. reflexivity.
      * destruct (A _ _ _ _ Hn Hp) as [A1|A1].
        -- left. acc3_unfold; simpl in *; acc_norm. apply Nat.eqb_neq in NE. rewrite NE. auto.
        -- right. simpl. erewrite (cnt_upd_eq (lwokrf q' r')) by exact Ep. simpl in *.
           unfold eqn in *. apply Nat.eqb_neq in NE. rewrite NE in *. simpl in *. lia.
Qed.

Lemma two_P' t1 t2 p1 p2 :
  t1 <> t2 -> nth_error (thr s) t1 = Some p1 -> nth_error (thr s) t2 = Some p2 -> isP p1 = 1 -> isP p2 = 1 -> False.
Proof. eapply two_P; eauto. Qed.

Lemma l3_fresh_step : forall t p q r, nth_error (thr s') t = Some p -> freshpc p = Some (q, r) ->
  users s' r = 0 /\ infl s' r = 1 /\ rref s' r = 1%N.
Proof.
  pose proof (l3_fresh s I) as A. fix_cfg c Hf. intros t' p' q' r' Hn Hp.
  destruct l as [sp|q0|m|d|t alt].
  - step_cases H; acc3_unfold; simpl in *; destruct (A _ _ _ _ Hn Hp) as (U & F & R); rewrite ?cnt_snoc; unfold usef at 2; simpl; auto with arith;
    repeat split; auto; lia.
  - step_cases H; acc3_unfold; simpl in *; destruct (A _ _ _ _ Hn Hp) as (U & F & R); repeat split; auto.
    pose proof (cnt_ge (usef r') _ _ _ E) as Ge. erewrite (cnt_upd_eq (usef r')) by eassumption.
    assert (usef r' (q_cancel r) = usef r' r) by reflexivity. lia.
  - step_cases H; simpl in *. apply nth_error_snoc in Hn. destruct Hn as [Hn|[-> ->]]; [|discriminate Hp].
    destruct (A _ _ _ _ Hn Hp) as (U & F & R). acc3_unfold; simpl in *. rewrite cnt_snoc. simpl. repeat split; auto; lia.
  - step_cases H. apply tick_thr_cases in Hn. destruct Hn as [(p0 & Hn & ->)|(r & ->)]; [|discriminate Hp].
    rewrite wake_freshpc in Hp. destruct (A _ _ _ _ Hn Hp) as (U & F & R).
    unfold users, infl in *. rewrite tick_rref, tick_reqs, tick_thr, cnt_app, (fire_pcs_zero (inflf r')), wake_cnt;
      auto using wake_inflf. repeat split; auto; lia.
  - unfold step in H. destruct (nth_error (thr s) t) as [p|] eqn:Ep; try discriminate.
    destruct p; step_cases H; simpl in Hn; thr_cases Hn; simpl in Hp; try discriminate Hp;
    try (match type of Hp with Some _ = Some _ => inv Hp end);
    (* another thread (the pending loop) is registering r' *)
    try (destruct (A _ _ _ _ Hn Hp) as (U & F & R);
         match goal with Hne : _ <> _ |- _ => pose proof (cnt_two (inflf r') _ _ _ _ _ Hne Hn Ep) as Two end;
         rewrite (freshpc_inflf _ _ _ Hp) in Two; simpl in Two;
         acc3_unfold; simpl in *;
         repeat match goal with E : nth_error (reqs s) _ = Some _ |- _ => pose proof (cnt_ge (usef r') _ _ _ E); revert E end; intros;
         acc_norm; ref_sums r' Ep; unfold usef in *; simpl in *; unfold eqn in *;
         repeat split; eqb_cases; simpl in *; try lia; auto; fail);
    (* the pending loop stays at a fresh program point *)
    try (destruct (A _ _ _ _ Ep eq_refl) as (U & F & R); acc3_unfold; simpl in *; acc_norm; ref_sums r' Ep; simpl;
         unfold eqn; rewrite ?Nat.eqb_refl; repeat split; auto; lia);
    try (destruct (A _ _ _ _ Ep Hp) as (U & F & R); acc3_unfold; simpl in *; repeat split; auto; fail);
    (* the thread list is unchanged *)
    try (destruct (A _ _ _ _ Hn Hp) as (U & F & R); acc3_unfold; simpl in *; repeat split; auto; fail);
    (* the stepping thread is the pending loop, so no other thread is *)
    try (exfalso; eapply (two_P' t' t); eauto using freshpc_isP; reflexivity).
    (* PNs: the runner is created with refCount 1; nothing referred to its index before *)
    1,2: pose proof (l3_ref s I (length (runners s))) as R0; unfold rref, users, infl in R0;
      rewrite getf_none in R0 by lia; apply (f_equal N.to_nat) in R0; rewrite Nat2N.id in R0; simpl in R0;
      acc3_unfold; simpl; rewrite getf_snoc, Nat.eqb_refl; erewrite (cnt_upd_eq (inflf (length (runners s)))) by exact Ep;
      simpl; unfold eqn; rewrite Nat.eqb_refl; repeat split; try reflexivity; lia.
    (* CFR while the pending loop registers a runner: the finishing request holds a registered runner, not that one *)
    all: unfold getr, getq in *.
    all: try (match goal with
      | Ep : nth_error (thr s) _ = Some (CFR ?q ?r), E : nth_error (runners s) ?r = Some ?r0,
        E0 : nth_error (reqs s) ?q = Some ?r1 |- _ =>
        assert (G : q_grant r1 = Some r /\ q_fin r1 = false) by
          (pose proof (cnt_ge (tokf q) _ _ _ Ep) as Gt; simpl in Gt; unfold eqn in Gt; rewrite Nat.eqb_refl in Gt;
           destruct (token_runner s IW I2 I q r1 Gt E0) as [F _]; split; auto;
           destruct (l3_cfr s I _ _ _ _ Ep eq_refl) as [C|C];
           [ unfold qgrant in C; erewrite getf_some in C by eassumption; exact C
           | exfalso; opt_cases; match goal with EN : r_mu r0 = None |- _ => pose proof (mu_free_no_lwok s IM q r r0 E EN) end; lia ]);
        destruct G as [G F0]; destruct (A _ _ _ _ Hn Hp) as (U & F & R);
        acc3_unfold; simpl in *; pose proof (cnt_ge (usef r') _ _ _ E0) as Ge;
        acc_norm; ref_sums r' Ep; unfold usef in *; simpl in *; rewrite G, F0 in *; unfold eqn in *;
        (destruct (Nat.eqb r r') eqn:Q; [exfalso; lia | repeat split; auto; lia])
      end).
    + (* LWOk q r while the pending loop registers another runner *)
      destruct (A _ _ _ _ Hn Hp) as (U & F & R).
      match goal with Hne : _ <> _ |- _ => pose proof (cnt_two (inflf r') _ _ _ _ _ Hne Hn Ep) as Two end.
      rewrite (freshpc_inflf _ _ _ Hp) in Two. simpl in Two. unfold eqn in Two.
      unfold infl in F. destruct (Nat.eqb r r') eqn:Q; [lia|].
      destruct (owner_nogrant s IW I q r1 _ _ Ep) as [G0 F0]; [simpl; unfold eqn; rewrite Nat.eqb_refl; reflexivity|eassumption|].
      acc3_unfold; simpl in *.
      match goal with E0 : nth_error (reqs s) q = Some r1 |- _ => pose proof (cnt_ge (usef r') _ _ _ E0) as Ge end.
      acc_norm; ref_sums r' Ep; unfold usef in *; simpl in *; rewrite G0, F0 in *; unfold eqn in *; rewrite Q in *.
      repeat split; auto; lia.
    + destruct (A _ _ _ _ Ep Hp) as (U & F & R). acc3_unfold; simpl in *.
      erewrite (cnt_upd_eq (inflf r')) by exact Ep. simpl. pose proof (cnt_ge (inflf r') _ _ _ Ep) as Ge. simpl in Ge.
      repeat split; auto; lia.

Qed.

End Step.

Lemma L3_step c s l s' e :
  fixed c -> I_own s -> I_muc s -> I_lmuc s -> I_one s -> L2 s -> L3 s -> step c s l = Some (s', e) -> L3 s'.
Proof.
  intros. constructor.
  - eapply l3_ref_step; eauto.
  - eapply l3_tok_step; eauto.
  - eapply l3_grant_step; eauto.
  - eapply l3_cev_step; eauto.
  - eapply l3_closed_step; eauto.
  - eapply l3_canpc_step; eauto.
  - eapply l3_finq_step; eauto.
  - eapply l3_cfr_step; eauto.
  - eapply l3_lw_step; eauto.
  - eapply l3_pm_step; eauto.
  - eapply l3_fresh_step; eauto.
Qed.

Lemma L3_init m : L3 (init_m m).
Proof.
  constructor; simpl; intros;
  try (destruct t as [|[|[|t]]]; simpl in *; try discriminate; inv H; simpl in *; discriminate).
  - unfold rref, users, infl, getf. simpl. destruct r; reflexivity.
  - unfold occ, getd. simpl. destruct q; reflexivity.
  - unfold getq in H. destruct q; discriminate.
  - unfold rref, getf. simpl. destruct r; reflexivity.
  - tauto.
Qed.

Lemma L3_Reach c s ev : fixed c -> Reach c s ev -> L3 s.
Proof.
  intros Hf R. induction R as [m|s ev l s' e R IH Hs].
  - apply L3_init.
  - destruct (I_locks_Reach _ _ _ Hf R) as (A & B & C). eapply L3_step; eauto.
    + eapply I_own_Reach; eauto.
    + eapply L2_Reach; eauto.
Qed.

(* C01, first clause: a runner held by a request that has not been cancelled is not shut down *)
Lemma no_close_in_use c s ev q x r y :
  fixed c -> Reach c s ev ->
  getq s q = Some x -> q_grant x = Some r -> q_cancelled x = false -> getr s r = Some y -> r_closed y = false.
Proof.
  intros Hf R Eq G Cn Er. pose proof (L3_Reach _ _ _ Hf R) as I.
  destruct (r_closed y) eqn:Cl; auto. exfalso.
  assert (RC : rclosed s r = true) by (rewrite (rclosed_get _ _ _ Er); auto).
  pose proof (l3_closed s I r RC) as Z. pose proof (l3_ref s I r) as Rf. rewrite Z in Rf.
  apply (f_equal N.to_nat) in Rf. rewrite Nat2N.id in Rf. simpl in Rf.
  destruct (l3_grant s I q x Eq) as [_ G2].
  assert (F : q_fin x = false) by (destruct (q_fin x); auto; destruct (G2 eq_refl); congruence).
  unfold users, getq in *. pose proof (cnt_ge (usef r) _ _ _ Eq) as Ge.
  assert (U1 : usef r x = 1) by (unfold usef; rewrite G, F; unfold eqn; rewrite Nat.eqb_refl; reflexivity).
  lia.
Qed.
