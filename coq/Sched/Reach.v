(* Sched/Reach.v - reachability with history, and the generic "invariant by induction over the run" principle. *)
From Coq Require Import List ZArith NArith Bool Lia Arith.
From V Require Import Sched.Lts Sched.Tac.
Import ListNotations.

(* states reachable from an initial state, with the visible events produced so far *)
Inductive Reach (c : config) : state -> list event -> Prop :=
| Reach_init : forall m, Reach c (init_m m) []
| Reach_step : forall s ev l s' e, Reach c s ev -> step c s l = Some (s', e) -> Reach c s' (ev ++ e).

Lemma run_from_Reach c : forall ls s ev s' e, Reach c s ev -> run c s ls = Some (s', e) -> Reach c s' (ev ++ e).
Proof.
  induction ls as [|l tl IH]; simpl; intros s ev s' e R H.
  - inv H. rewrite app_nil_r. exact R.
  - destruct (step c s l) as [[s1 e1]|] eqn:E1; try discriminate.
    destruct (run c s1 tl) as [[s2 e2]|] eqn:E2; try discriminate. inv H.
    rewrite app_assoc. eapply IH; eauto. eapply Reach_step; eauto.
Qed.

Lemma run_Reach c m ls s ev : run c (init_m m) ls = Some (s, ev) -> Reach c s ev.
Proof. intros H. change ev with ([] ++ ev). eapply run_from_Reach; eauto. constructor. Qed.

Lemma reachable_Reach c s : reachable c s -> exists ev, Reach c s ev.
Proof. intros (m & ls & ev & H). exists ev. eapply run_Reach; eauto. Qed.

Lemma run_snoc c : forall ls s l s1 e1 s2 e2,
  run c s ls = Some (s1, e1) -> step c s1 l = Some (s2, e2) -> run c s (ls ++ [l]) = Some (s2, e1 ++ e2).
Proof.
  induction ls as [|l0 tl IH]; simpl; intros s l s1 e1 s2 e2 H1 H2.
  - inv H1. rewrite H2. simpl. rewrite app_nil_r. reflexivity.
  - destruct (step c s l0) as [[sa ea]|] eqn:Ea; try discriminate.
    destruct (run c sa tl) as [[sb eb]|] eqn:Eb; try discriminate. inv H1.
    rewrite (IH _ _ _ _ _ _ Eb H2). rewrite app_assoc. reflexivity.
Qed.

Lemma Reach_run c s ev : Reach c s ev -> exists m ls, run c (init_m m) ls = Some (s, ev).
Proof.
  induction 1 as [m|s ev l s' e R (m & ls & IH) H].
  - exists m, []. reflexivity.
  - exists m, (ls ++ [l]). eapply run_snoc; eauto.
Qed.

Lemma Reach_reachable c s ev : Reach c s ev -> reachable c s.
Proof. intros R. destruct (Reach_run _ _ _ R) as (m & ls & H). exists m, ls, ev. exact H. Qed.

(* invariants over (state, history) *)
Lemma Reach_ind_inv c (I : state -> list event -> Prop) :
  (forall m, I (init_m m) []) ->
  (forall s ev l s' e, Reach c s ev -> I s ev -> step c s l = Some (s', e) -> I s' (ev ++ e)) ->
  forall s ev, Reach c s ev -> I s ev.
Proof. intros H0 HS s ev R. induction R; eauto. Qed.
