(* Sched/EnvCfg.v - how the scheduler's limits are read from the environment (envconfig/config.go): strip (Var:
   surrounding white space, then surrounding quote characters), parse, default.  Strings are lists of byte values.
   Readers: Uint / Uint64 (OLLAMA_MAX_LOADED_MODELS, OLLAMA_NUM_PARALLEL, OLLAMA_MAX_QUEUE, OLLAMA_CONTEXT_LENGTH,
   OLLAMA_GPU_OVERHEAD), Bool (OLLAMA_SCHED_SPREAD, OLLAMA_FLASH_ATTENTION), KeepAlive (OLLAMA_KEEP_ALIVE; durations
   restricted to one optionally signed integer with at most one unit).  Theorem: a number spelled with padding and
   quotes around it means the same as the plain number.  The real readers are compared with these functions on
   generated spellings by the environment stage of the scheduler harness. *)
From Coq Require Import List Bool Arith NArith ZArith Lia.
Import ListNotations.

Definition str := list nat.

Definition is_space (c : nat) : bool :=
  Nat.eqb c 32 || Nat.eqb c 9 || Nat.eqb c 10 || Nat.eqb c 11 || Nat.eqb c 12 || Nat.eqb c 13.
Definition is_quote (c : nat) : bool := Nat.eqb c 34 || Nat.eqb c 39.
Definition is_digit (c : nat) : bool := Nat.leb 48 c && Nat.leb c 57.

Fixpoint dropwhile (p : nat -> bool) (l : str) : str :=
  match l with [] => [] | c :: tl => if p c then dropwhile p tl else l end.
Definition trim (p : nat -> bool) (l : str) : str := rev (dropwhile p (rev (dropwhile p l))).

(* envconfig.Var *)
Definition var (l : str) : str := trim is_quote (trim is_space l).

Fixpoint digits_val (acc : N) (l : str) : option N :=
  match l with
  | [] => Some acc
  | c :: tl => if is_digit c then digits_val (acc * 10 + N.of_nat (c - 48))%N tl else None
  end.

Definition max_u64 : N := 18446744073709551615%N.

(* strconv.ParseUint(s, 10, 64) *)
Definition parse_uint (l : str) : option N :=
  match l with
  | [] => None
  | _ => match digits_val 0%N l with Some n => if N.leb n max_u64 then Some n else None | None => None end
  end.

(* envconfig.Uint / Uint64 *)
Definition read_uint (def : N) (l : str) : N :=
  match var l with
  | [] => def
  | s => match parse_uint s with Some n => n | None => def end
  end.

Definition str_eqb (a b : str) : bool := if list_eq_dec Nat.eq_dec a b then true else false.

(* strconv.ParseBool *)
Definition parse_bool (l : str) : option bool :=
  if existsb (str_eqb l) [[49]; [116]; [84]; [84;82;85;69]; [116;114;117;101]; [84;114;117;101]] then Some true
  else if existsb (str_eqb l) [[48]; [102]; [70]; [70;65;76;83;69]; [102;97;108;115;101]; [70;97;108;115;101]] then Some false
  else None.

(* envconfig.Bool *)
Definition read_bool (l : str) : bool :=
  match var l with
  | [] => false
  | s => match parse_bool s with Some b => b | None => true end
  end.

(* one optionally signed integer, optionally followed by one unit; nanoseconds *)
Definition unit_ns (u : str) : option Z :=
  if str_eqb u [110;115] then Some 1%Z
  else if str_eqb u [117;115] then Some 1000%Z
  else if str_eqb u [109;115] then Some 1000000%Z
  else if str_eqb u [115] then Some 1000000000%Z
  else if str_eqb u [109] then Some 60000000000%Z
  else if str_eqb u [104] then Some 3600000000000%Z
  else None.

Fixpoint span_digits (l : str) : str * str :=
  match l with
  | c :: tl => if is_digit c then let (d, r) := span_digits tl in (c :: d, r) else ([], l)
  | [] => ([], [])
  end.

Definition max_i64 : Z := 9223372036854775807%Z.

Definition signed (l : str) : Z * str :=
  match l with
  | 45 :: tl => ((-1)%Z, tl)
  | 43 :: tl => (1%Z, tl)
  | _ => (1%Z, l)
  end.

(* envconfig.KeepAlive on this fragment: time.ParseDuration, else strconv.ParseInt seconds, else the default; a
   negative duration means "for ever" *)
Definition read_keep_alive (l : str) : Z :=
  let def := 300000000000%Z in
  let v :=
    match var l with
    | [] => def
    | s =>
        let (sg, body) := signed s in
        let (d, u) := span_digits body in
        match d, digits_val 0%N d with
        | _ :: _, Some n =>
            match u with
            | [] => if N.eqb n 0 then 0%Z else (sg * Z.of_N n * 1000000000)%Z       (* "0" is a duration; else seconds *)
            | _ => match unit_ns u with Some k => (sg * Z.of_N n * k)%Z | None => def end
            end
        | _, _ => def
        end
    end in
  if Z.ltb v 0 then max_i64 else v.

(* ------------------------------------------------------------------ spelling does not matter *)

Lemma dropwhile_all p l : forallb p l = true -> dropwhile p l = [].
Proof. induction l as [|c tl IH]; simpl; auto. intros H. apply andb_prop in H. destruct H as [-> H]. auto. Qed.

Lemma dropwhile_app_all p a b : forallb p a = true -> dropwhile p (a ++ b) = dropwhile p b.
Proof. induction a as [|c tl IH]; simpl; auto. intros H. apply andb_prop in H. destruct H as [-> H]. auto. Qed.

Lemma dropwhile_none p l : forallb (fun c => negb (p c)) l = true -> dropwhile p l = l.
Proof. destruct l as [|c tl]; simpl; auto. intros H. apply andb_prop in H. destruct H as [H _]. apply negb_true_iff in H. rewrite H. reflexivity. Qed.

Lemma forallb_rev (p : nat -> bool) l : forallb p (rev l) = forallb p l.
Proof.
  induction l as [|c tl IH]; simpl; auto. rewrite forallb_app, IH. simpl. rewrite andb_true_r. apply andb_comm.
Qed.

Lemma trim_pad p a m b :
  forallb p a = true -> forallb p b = true -> forallb (fun c => negb (p c)) m = true -> trim p (a ++ m ++ b) = m.
Proof.
  intros Ha Hb Hm. unfold trim. rewrite dropwhile_app_all by exact Ha.
  destruct m as [|x m'].
  - simpl. rewrite (dropwhile_all p b Hb). reflexivity.
  - assert (E : dropwhile p ((x :: m') ++ b) = (x :: m') ++ b).
    { simpl in Hm. apply andb_prop in Hm. destruct Hm as [Hx _]. apply negb_true_iff in Hx. simpl. rewrite Hx. reflexivity. }
    rewrite E, rev_app_distr. rewrite dropwhile_app_all by (rewrite forallb_rev; exact Hb).
    rewrite dropwhile_none by (rewrite forallb_rev; exact Hm). apply rev_involutive.
Qed.

Lemma digit_not_space c : is_digit c = true -> is_space c = false /\ is_quote c = false.
Proof.
  unfold is_digit, is_space, is_quote. intros H. apply andb_prop in H. destruct H as [A B].
  apply Nat.leb_le in A. apply Nat.leb_le in B.
  assert (N : forall k, (k < 48 \/ 57 < k) -> Nat.eqb c k = false) by (intros k Hk; apply Nat.eqb_neq; lia).
  rewrite !N by lia. auto.
Qed.

Lemma quote_not_space c : is_quote c = true -> is_space c = false.
Proof.
  unfold is_quote, is_space. intros H. apply orb_prop in H.
  destruct H as [H|H]; apply Nat.eqb_eq in H; subst; reflexivity.
Qed.

(* Var removes padding and quotes around a run of digits *)
Theorem var_spelling ws1 q1 d q2 ws2 :
  forallb is_space ws1 = true -> forallb is_space ws2 = true ->
  forallb is_quote q1 = true -> forallb is_quote q2 = true -> forallb is_digit d = true ->
  var (ws1 ++ q1 ++ d ++ q2 ++ ws2) = d.
Proof.
  intros W1 W2 Q1 Q2 D. unfold var.
  replace (ws1 ++ q1 ++ d ++ q2 ++ ws2) with (ws1 ++ (q1 ++ d ++ q2) ++ ws2) by (rewrite <- !app_assoc; reflexivity).
  rewrite trim_pad; auto.
  - apply trim_pad; auto. rewrite forallb_forall in *. intros c Hc. destruct (digit_not_space c (D c Hc)) as [_ ->]. reflexivity.
  - rewrite !forallb_app. rewrite forallb_forall in *.
    assert (forallb (fun c => negb (is_space c)) q1 = true) by (apply forallb_forall; intros c Hc; rewrite (quote_not_space c (Q1 c Hc)); reflexivity).
    assert (forallb (fun c => negb (is_space c)) q2 = true) by (apply forallb_forall; intros c Hc; rewrite (quote_not_space c (Q2 c Hc)); reflexivity).
    assert (forallb (fun c => negb (is_space c)) d = true) by (apply forallb_forall; intros c Hc; destruct (digit_not_space c (D c Hc)) as [-> _]; reflexivity).
    repeat (apply andb_true_intro; split); auto.
Qed.

(* hence every Uint / Uint64 limit means the same however it is padded and quoted *)
Theorem read_uint_spelling def ws1 q1 d q2 ws2 :
  forallb is_space ws1 = true -> forallb is_space ws2 = true ->
  forallb is_quote q1 = true -> forallb is_quote q2 = true -> forallb is_digit d = true ->
  read_uint def (ws1 ++ q1 ++ d ++ q2 ++ ws2) = read_uint def d.
Proof.
  intros W1 W2 Q1 Q2 D. unfold read_uint. rewrite (var_spelling ws1 q1 d q2 ws2) by auto.
  pose proof (var_spelling [] [] d [] [] eq_refl eq_refl eq_refl eq_refl D) as E. simpl in E. rewrite app_nil_r in E. rewrite E. reflexivity.
Qed.

Example read_uint_examples :
  read_uint 0 [34; 32; 49; 32; 34] = 0%N /\        (* "\" 1 \"": the quotes are not outermost after trimming spaces only once: not a number *)
  read_uint 0 [32; 34; 49; 34; 32] = 1%N /\        (* " \"1\" " *)
  read_uint 0 [39; 48; 49; 39] = 1%N /\            (* '01' *)
  read_uint 7 [43; 49] = 7%N /\                     (* +1 : not accepted by ParseUint, the default *)
  read_uint 512 [] = 512%N.
Proof. vm_compute. repeat split. Qed.
