(* Sched/ThmVictim.v - findRunnerToUnload: candidates in (keep-alive, model) order, the first idle one is chosen,
   otherwise the first. *)
From Coq Require Import List ZArith NArith Bool Lia Arith Sorting.Sorted Permutation.
From V Require Import Sched.Lts Sched.Tac.
Import ListNotations.

Lemma vless_asym s a b : vless s a b = true -> vless s b a = false.
Proof.
  unfold vless. destruct (getr s a) as [x|]; destruct (getr s b) as [y|]; try discriminate.
  destruct (Z.eqb (r_dur x) (r_dur y)) eqn:E.
  - apply Z.eqb_eq in E. rewrite E, Z.eqb_refl. intros L. apply Nat.ltb_lt in L. apply Nat.ltb_ge. lia.
  - intros L. apply Z.ltb_lt in L. rewrite Z.eqb_sym, E. apply Z.ltb_ge. lia.
Qed.

Definition vle (s : state) (a b : nat) : Prop := vless s b a = false.

Lemma vinsert_perm s a l : Permutation (vinsert s a l) (a :: l).
Proof.
  induction l as [|b tl IH]; simpl; auto. destruct (vless s b a); auto.
  eapply perm_trans; [apply perm_skip; exact IH|apply perm_swap].
Qed.

Lemma vsort_perm s l : Permutation (vsort s l) l.
Proof.
  induction l as [|a tl IH]; simpl; auto. eapply perm_trans; [apply vinsert_perm|]. auto.
Qed.

Lemma vinsert_hd s a l d : vle s (hd d (vinsert s a l)) a.
Proof.
  destruct l as [|b tl]; simpl.
  - unfold vle. unfold vless. destruct (getr s a); auto. rewrite Z.eqb_refl. apply Nat.ltb_irrefl.
  - destruct (vless s b a) eqn:E; simpl.
    + unfold vle. apply vless_asym. exact E.
    + unfold vle. unfold vless. destruct (getr s a); auto. rewrite Z.eqb_refl. apply Nat.ltb_irrefl.
Qed.

Lemma vinsert_sorted s a l : LocallySorted (vle s) l -> LocallySorted (vle s) (vinsert s a l).
Proof.
  induction 1 as [|b|b c tl L IH Hbc]; simpl.
  - constructor.
  - destruct (vless s b a) eqn:E; repeat constructor; unfold vle; auto using vless_asym.
  - destruct (vless s b a) eqn:E.
    + simpl in IH. destruct (vless s c a) eqn:E2.
      * constructor; auto.
      * constructor; auto. unfold vle. apply vless_asym. exact E.
    + repeat constructor; auto.
Qed.

(* the candidates are visited in non-decreasing (keep-alive as unsigned, model path) order *)
Lemma vsort_sorted s l : LocallySorted (vle s) (vsort s l).
Proof. induction l as [|a tl IH]; simpl; [constructor|]. apply vinsert_sorted. exact IH. Qed.

(* findRunnerToUnload's snapshot: the pending loop starts visiting the sorted candidates, remembering the first *)
Lemma victim_snapshot c s t q f rest :
  lmu s = None -> vsort s (map snd (loaded s)) = f :: rest ->
  run_pc c s t (PFv q) 0%Z = Some (goto s t (PFvR q (f :: rest) f), []).
Proof. intros L E. unfold run_pc, guard. rewrite L, E. reflexivity. Qed.

(* an idle candidate is chosen as soon as it is met *)
Lemma victim_idle c s t q r tl first x :
  getr s r = Some x -> r_mu x = None -> r_ref x = 0%N ->
  run_pc c s t (PFvR q (r :: tl) first) 0%Z = Some (goto s t (PExp q r), []).
Proof. intros E M R. unfold run_pc, guard. rewrite E, M, R. reflexivity. Qed.

(* a busy candidate is skipped; when all were busy the first (shortest keep-alive) is chosen *)
Lemma victim_busy c s t q r tl first x :
  getr s r = Some x -> r_mu x = None -> r_ref x <> 0%N ->
  run_pc c s t (PFvR q (r :: tl) first) 0%Z =
    Some (goto s t (match tl with [] => PExp q first | _ => PFvR q tl first end), []).
Proof.
  intros E M R. unfold run_pc, guard. rewrite E, M. simpl.
  destruct (N.eqb (r_ref x) 0) eqn:Q; [apply N.eqb_eq in Q; congruence|]. destruct tl; reflexivity.
Qed.
