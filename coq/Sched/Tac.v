(* Sched/Tac.v - list lemmas and the case-analysis tactics used by the invariant proofs. *)
From Coq Require Import List ZArith NArith Bool Lia Arith.
From V Require Import Sched.Lts.
Import ListNotations.

(* ------------------------------------------------------------------ upd / nth_error *)

Lemma upd_length {A} (l : list A) i x : length (upd l i x) = length l.
Proof. revert i; induction l as [|h tl IH]; intros [|i]; simpl; auto. Qed.

Lemma nth_error_upd_eq {A} (l : list A) i x y :
  nth_error l i = Some y -> nth_error (upd l i x) i = Some x.
Proof. revert i; induction l as [|h tl IH]; intros [|i] H; simpl in *; try discriminate; auto. Qed.

Lemma nth_error_upd_neq {A} (l : list A) i j x : i <> j -> nth_error (upd l i x) j = nth_error l j.
Proof.
  revert i j; induction l as [|h tl IH]; intros [|i] [|j] H; simpl; auto; try congruence.
Qed.

Lemma nth_error_upd {A} (l : list A) i j x z :
  nth_error (upd l i x) j = Some z ->
  (i = j /\ z = x /\ exists y, nth_error l i = Some y) \/ (i <> j /\ nth_error l j = Some z).
Proof.
  intros H. destruct (Nat.eq_dec i j) as [->|N].
  - destruct (nth_error l j) as [y|] eqn:E.
    + rewrite (nth_error_upd_eq _ _ _ _ E) in H. inversion H; subst. left; eauto.
    + exfalso. apply nth_error_None in E. assert (L : nth_error (upd l j x) j <> None) by congruence.
      apply nth_error_Some in L. rewrite upd_length in L. lia.
  - right. rewrite nth_error_upd_neq in H; auto.
Qed.

Lemma nth_error_snoc {A} (l : list A) x j z :
  nth_error (l ++ [x]) j = Some z -> nth_error l j = Some z \/ (j = length l /\ z = x).
Proof.
  intros H. destruct (Nat.lt_ge_cases j (length l)) as [L|L].
  - rewrite nth_error_app1 in H; auto.
  - rewrite nth_error_app2 in H; auto. destruct (j - length l) as [|k] eqn:E; simpl in H.
    + inversion H; subst. right; split; auto; lia.
    + destruct k; discriminate.
Qed.

Lemma nth_error_snoc_old {A} (l : list A) x j z : nth_error l j = Some z -> nth_error (l ++ [x]) j = Some z.
Proof. intros H. rewrite nth_error_app1; auto. apply nth_error_Some; congruence. Qed.

Lemma nth_error_snoc_new {A} (l : list A) x : nth_error (l ++ [x]) (length l) = Some x.
Proof. rewrite nth_error_app2; auto. rewrite Nat.sub_diag; reflexivity. Qed.

Lemma Forall_upd {A} (P : A -> Prop) l i x : Forall P l -> P x -> Forall P (upd l i x).
Proof.
  revert i; induction l as [|h tl IH]; intros [|i] F Px; simpl; auto; inversion F; subst; constructor; auto.
Qed.

Lemma Forall_snoc {A} (P : A -> Prop) l x : Forall P l -> P x -> Forall P (l ++ [x]).
Proof. intros; apply Forall_app; split; auto. Qed.

Lemma Forall_nth_error {A} (P : A -> Prop) l i x : Forall P l -> nth_error l i = Some x -> P x.
Proof. intros F H. rewrite Forall_forall in F. apply F. eapply nth_error_In; eauto. Qed.

(* ------------------------------------------------------------------ lookup / insert / remove_key *)

Lemma lookup_remove_key_eq l m : lookup (remove_key l m) m = None.
Proof.
  induction l as [|[k v] tl IH]; simpl; auto. destruct (Nat.eqb k m) eqn:E; auto. simpl. rewrite E. auto.
Qed.

Lemma lookup_remove_key_neq l m m' : m <> m' -> lookup (remove_key l m) m' = lookup l m'.
Proof.
  intros N. induction l as [|[k v] tl IH]; simpl; auto.
  destruct (Nat.eqb k m) eqn:E.
  - apply Nat.eqb_eq in E; subst. destruct (Nat.eqb m m') eqn:E2; auto. apply Nat.eqb_eq in E2; congruence.
  - simpl. rewrite IH. reflexivity.
Qed.

Lemma lookup_insert_eq l m r : lookup (insert l m r) m = Some r.
Proof. unfold insert; simpl. rewrite Nat.eqb_refl. reflexivity. Qed.

Lemma lookup_insert_neq l m r m' : m <> m' -> lookup (insert l m r) m' = lookup l m'.
Proof.
  intros N. unfold insert; simpl. destruct (Nat.eqb m m') eqn:E.
  - apply Nat.eqb_eq in E; congruence.
  - apply lookup_remove_key_neq; auto.
Qed.

Lemma lookup_In l m r : lookup l m = Some r -> In (m, r) l.
Proof.
  induction l as [|[k v] tl IH]; simpl; intros H; try discriminate.
  destruct (Nat.eqb k m) eqn:E.
  - apply Nat.eqb_eq in E. inversion H; subst. auto.
  - auto.
Qed.

Lemma remove_key_incl l m x : In x (remove_key l m) -> In x l /\ fst x <> m.
Proof.
  induction l as [|[k v] tl IH]; simpl; intros H; [tauto|].
  destruct (Nat.eqb k m) eqn:E.
  - apply IH in H. tauto.
  - simpl in H. destruct H as [<-|H].
    + split; auto. simpl. apply Nat.eqb_neq; auto.
    + apply IH in H. tauto.
Qed.

Lemma remove_key_length l m : length (remove_key l m) <= length l.
Proof. induction l as [|[k v] tl IH]; simpl; auto. destruct (Nat.eqb k m); simpl; lia. Qed.

(* ------------------------------------------------------------------ case analysis *)

Ltac inv H := inversion H; subst; clear H.

Ltac break_hyp H :=
  match type of H with
  | context [match ?x with _ => _ end] =>
      match x with
      | context [match _ with _ => _ end] => fail 1
      | _ => let E := fresh "E" in destruct x eqn:E
      end
  end.

(* split a hypothesis  run_pc ... = Some (s', e)  (after unfolding) into its branches *)
Ltac break_all H :=
  repeat (first [ discriminate H | break_hyp H ]); try discriminate H.

Ltac unfold_step H := unfold step, run_pc, guard, decide, do_reply in H.

(* one goal per successful branch of a step; the post-state and events are substituted *)
Ltac step_cases H :=
  unfold_step H; break_all H; try (inv H).
