(* Sched/Tac.v - list lemmas and the case-analysis tactics used by the invariant proofs. *)
From Coq Require Import List ZArith NArith Bool Lia Arith.
From V Require Import Sched.Lts.
Import ListNotations.

Ltac inv H := inversion H; subst; clear H.

(* ------------------------------------------------------------------ upd / nth_error *)

Lemma upd_length {A} (l : list A) i x : length (upd l i x) = length l.
Proof. revert i; induction l as [|h tl IH]; intros [|i]; simpl; auto. Qed.

Lemma nth_error_upd_eq {A} (l : list A) i x y :
  nth_error l i = Some y -> nth_error (upd l i x) i = Some x.
Proof. revert i; induction l as [|h tl IH]; intros [|i] H; simpl in *; try discriminate; auto. Qed.

Lemma nth_error_upd_neq {A} (l : list A) i j x : i <> j -> nth_error (upd l i x) j = nth_error l j.
Proof.
  revert i j; induction l as [|h tl IH]; intros [|i] [|j] H; simpl; auto; try congruence.
Qed.

Lemma nth_error_upd {A} (l : list A) i j x z :
  nth_error (upd l i x) j = Some z ->
  (i = j /\ z = x /\ exists y, nth_error l i = Some y) \/ (i <> j /\ nth_error l j = Some z).
Proof.
  intros H. destruct (Nat.eq_dec i j) as [->|N].
  - destruct (nth_error l j) as [y|] eqn:E.
    + rewrite (nth_error_upd_eq _ _ _ _ E) in H. inversion H; subst. left; eauto.
    + exfalso. apply nth_error_None in E. assert (L : nth_error (upd l j x) j <> None) by congruence.
      apply nth_error_Some in L. rewrite upd_length in L. lia.
  - right. rewrite nth_error_upd_neq in H; auto.
Qed.

Lemma nth_error_snoc {A} (l : list A) x j z :
  nth_error (l ++ [x]) j = Some z -> nth_error l j = Some z \/ (j = length l /\ z = x).
Proof.
  intros H. destruct (Nat.lt_ge_cases j (length l)) as [L|L].
  - rewrite nth_error_app1 in H; auto.
  - rewrite nth_error_app2 in H; auto. destruct (j - length l) as [|k] eqn:E; simpl in H.
    + inversion H; subst. right; split; auto; lia.
    + destruct k; discriminate.
Qed.

Lemma nth_error_snoc_old {A} (l : list A) x j z : nth_error l j = Some z -> nth_error (l ++ [x]) j = Some z.
Proof. intros H. rewrite nth_error_app1; auto. apply nth_error_Some; congruence. Qed.

Lemma nth_error_snoc_new {A} (l : list A) x : nth_error (l ++ [x]) (length l) = Some x.
Proof. rewrite nth_error_app2; auto. rewrite Nat.sub_diag; reflexivity. Qed.

Lemma Forall_upd {A} (P : A -> Prop) l i x : Forall P l -> P x -> Forall P (upd l i x).
Proof.
  revert i; induction l as [|h tl IH]; intros [|i] F Px; simpl; auto; inversion F; subst; constructor; auto.
Qed.

Lemma Forall_snoc {A} (P : A -> Prop) l x : Forall P l -> P x -> Forall P (l ++ [x]).
Proof. intros; apply Forall_app; split; auto. Qed.

Lemma Forall_nth_error {A} (P : A -> Prop) l i x : Forall P l -> nth_error l i = Some x -> P x.
Proof. intros F H. rewrite Forall_forall in F. apply F. eapply nth_error_In; eauto. Qed.

(* ------------------------------------------------------------------ lookup / insert / remove_key *)

Lemma lookup_remove_key_eq l m : lookup (remove_key l m) m = None.
Proof.
  induction l as [|[k v] tl IH]; simpl; auto. destruct (Nat.eqb k m) eqn:E; auto. simpl. rewrite E. auto.
Qed.

Lemma lookup_remove_key_neq l m m' : m <> m' -> lookup (remove_key l m) m' = lookup l m'.
Proof.
  intros N. induction l as [|[k v] tl IH]; simpl; auto.
  destruct (Nat.eqb k m) eqn:E.
  - apply Nat.eqb_eq in E; subst. destruct (Nat.eqb m m') eqn:E2; auto. apply Nat.eqb_eq in E2; congruence.
  - simpl. rewrite IH. reflexivity.
Qed.

Lemma lookup_insert_eq l m r : lookup (insert l m r) m = Some r.
Proof. unfold insert; simpl. rewrite Nat.eqb_refl. reflexivity. Qed.

Lemma lookup_insert_neq l m r m' : m <> m' -> lookup (insert l m r) m' = lookup l m'.
Proof.
  intros N. unfold insert; simpl. destruct (Nat.eqb m m') eqn:E.
  - apply Nat.eqb_eq in E; congruence.
  - apply lookup_remove_key_neq; auto.
Qed.

Lemma lookup_In l m r : lookup l m = Some r -> In (m, r) l.
Proof.
  induction l as [|[k v] tl IH]; simpl; intros H; try discriminate.
  destruct (Nat.eqb k m) eqn:E.
  - apply Nat.eqb_eq in E. inversion H; subst. auto.
  - auto.
Qed.

Lemma remove_key_incl l m x : In x (remove_key l m) -> In x l /\ fst x <> m.
Proof.
  induction l as [|[k v] tl IH]; simpl; intros H; [tauto|].
  destruct (Nat.eqb k m) eqn:E.
  - apply IH in H. tauto.
  - simpl in H. destruct H as [<-|H].
    + split; auto. simpl. apply Nat.eqb_neq; auto.
    + apply IH in H. tauto.
Qed.

Lemma remove_key_length l m : length (remove_key l m) <= length l.
Proof. induction l as [|[k v] tl IH]; simpl; auto. destruct (Nat.eqb k m); simpl; lia. Qed.

(* ------------------------------------------------------------------ sums over lists, lookups with default *)

Fixpoint cnt {A} (f : A -> nat) (l : list A) : nat :=
  match l with [] => 0 | x :: tl => f x + cnt f tl end.

Lemma cnt_app {A} (f : A -> nat) a b : cnt f (a ++ b) = cnt f a + cnt f b.
Proof. induction a as [|x tl IH]; simpl; auto. rewrite IH. lia. Qed.

Lemma cnt_snoc {A} (f : A -> nat) l x : cnt f (l ++ [x]) = cnt f l + f x.
Proof. rewrite cnt_app. simpl. lia. Qed.

Lemma cnt_ge {A} (f : A -> nat) l i x : nth_error l i = Some x -> f x <= cnt f l.
Proof. revert i; induction l as [|h tl IH]; intros [|i] H; simpl in *; try discriminate. inv H. lia. apply IH in H. lia. Qed.

Lemma cnt_upd {A} (f : A -> nat) l i x y : nth_error l i = Some x -> cnt f (upd l i y) + f x = cnt f l + f y.
Proof.
  revert i; induction l as [|h tl IH]; intros [|i] H; simpl in *; try discriminate.
  - inv H. lia.
  - apply IH in H. lia.
Qed.

Lemma cnt_upd_eq {A} (f : A -> nat) l i x y : nth_error l i = Some x -> cnt f (upd l i y) = cnt f l + f y - f x.
Proof. intros H. pose proof (cnt_upd f l i x y H). lia. Qed.

Lemma cnt_map {A B} (f : B -> nat) (g : A -> B) l : cnt f (map g l) = cnt (fun x => f (g x)) l.
Proof. induction l as [|x tl IH]; simpl; auto. Qed.

Lemma cnt_ext {A} (f g : A -> nat) l : (forall x, f x = g x) -> cnt f l = cnt g l.
Proof. intros E. induction l as [|x tl IH]; simpl; auto. Qed.

Lemma cnt_zero {A} (f : A -> nat) l : (forall x, In x l -> f x = 0) -> cnt f l = 0.
Proof. induction l as [|x tl IH]; simpl; intros H; auto. rewrite (H x), IH; auto. Qed.

Lemma cnt_pos_In {A} (f : A -> nat) l : 0 < cnt f l -> exists x, In x l /\ 0 < f x.
Proof.
  induction l as [|x tl IH]; simpl; intros H; [lia|].
  destruct (f x) eqn:E.
  - destruct IH as (y & Hy & Py); [lia|]. exists y; auto.
  - exists x; split; auto; lia.
Qed.

Lemma cnt_mono {A} (f g : A -> nat) l : (forall x, f x <= g x) -> cnt f l <= cnt g l.
Proof. intros Hfg. induction l as [|h tl IH]; simpl; auto. specialize (Hfg h). lia. Qed.

Lemma cnt_le_at {A} (f g : A -> nat) l t p :
  (forall x, f x <= g x) -> nth_error l t = Some p -> cnt f l + g p <= cnt g l + f p.
Proof.
  intros Hfg. revert t; induction l as [|h tl IH]; intros [|t] E; simpl in *; try discriminate.
  - inv E. pose proof (cnt_mono f g tl Hfg). lia.
  - specialize (IH _ E). specialize (Hfg h). lia.
Qed.

Definition getd {A} (f : A -> nat) (l : list A) (i : nat) : nat :=
  match nth_error l i with Some x => f x | None => 0 end.

Lemma getd_upd_same {A} (f : A -> nat) l i x y j :
  nth_error l i = Some x -> f y = f x -> getd f (upd l i y) j = getd f l j.
Proof.
  intros E C. unfold getd. destruct (Nat.eq_dec i j) as [->|N].
  - rewrite (nth_error_upd_eq _ _ _ _ E), E. exact C.
  - rewrite nth_error_upd_neq; auto.
Qed.

Lemma getd_upd {A} (f : A -> nat) l i x y j :
  nth_error l i = Some x -> getd f (upd l i y) j = if Nat.eqb i j then f y else getd f l j.
Proof.
  intros E. unfold getd. destruct (Nat.eqb i j) eqn:Q.
  - apply Nat.eqb_eq in Q; subst. rewrite (nth_error_upd_eq _ _ _ _ E). reflexivity.
  - apply Nat.eqb_neq in Q. rewrite nth_error_upd_neq; auto.
Qed.

Lemma getd_snoc {A} (f : A -> nat) l y j :
  getd f (l ++ [y]) j = if Nat.eqb j (length l) then f y else getd f l j.
Proof.
  unfold getd. destruct (Nat.eqb j (length l)) eqn:Q.
  - apply Nat.eqb_eq in Q; subst. rewrite nth_error_snoc_new. reflexivity.
  - apply Nat.eqb_neq in Q. destruct (Nat.lt_ge_cases j (length l)).
    + rewrite nth_error_app1; auto.
    + assert (N1 : nth_error (l ++ [y]) j = None) by (apply nth_error_None; rewrite app_length; simpl; lia).
      assert (N2 : nth_error l j = None) by (apply nth_error_None; lia). rewrite N1, N2. reflexivity.
Qed.

Lemma getd_none {A} (f : A -> nat) l j : length l <= j -> getd f l j = 0.
Proof. intros H. unfold getd. assert (N : nth_error l j = None) by (apply nth_error_None; lia). rewrite N. reflexivity. Qed.

Definition getf {A B} (f : A -> B) (d : B) (l : list A) (i : nat) : B :=
  match nth_error l i with Some x => f x | None => d end.

Lemma getf_upd_same {A B} (f : A -> B) d l i x y j :
  nth_error l i = Some x -> f y = f x -> getf f d (upd l i y) j = getf f d l j.
Proof.
  intros E C. unfold getf. destruct (Nat.eq_dec i j) as [->|N].
  - rewrite (nth_error_upd_eq _ _ _ _ E), E. exact C.
  - rewrite nth_error_upd_neq; auto.
Qed.

Lemma getf_upd {A B} (f : A -> B) d l i x y j :
  nth_error l i = Some x -> getf f d (upd l i y) j = if Nat.eqb i j then f y else getf f d l j.
Proof.
  intros E. unfold getf. destruct (Nat.eqb i j) eqn:Q.
  - apply Nat.eqb_eq in Q; subst. rewrite (nth_error_upd_eq _ _ _ _ E). reflexivity.
  - apply Nat.eqb_neq in Q. rewrite nth_error_upd_neq; auto.
Qed.

Lemma getf_snoc {A B} (f : A -> B) d l y j :
  getf f d (l ++ [y]) j = if Nat.eqb j (length l) then f y else getf f d l j.
Proof.
  unfold getf. destruct (Nat.eqb j (length l)) eqn:Q.
  - apply Nat.eqb_eq in Q; subst. rewrite nth_error_snoc_new. reflexivity.
  - apply Nat.eqb_neq in Q. destruct (Nat.lt_ge_cases j (length l)).
    + rewrite nth_error_app1; auto.
    + assert (N1 : nth_error (l ++ [y]) j = None) by (apply nth_error_None; rewrite app_length; simpl; lia).
      assert (N2 : nth_error l j = None) by (apply nth_error_None; lia). rewrite N1, N2. reflexivity.
Qed.

Lemma getf_some {A B} (f : A -> B) d l i x : nth_error l i = Some x -> getf f d l i = f x.
Proof. intros E. unfold getf. rewrite E. reflexivity. Qed.

Lemma getf_none {A B} (f : A -> B) d l i : length l <= i -> getf f d l i = d.
Proof. intros H. unfold getf. assert (N : nth_error l i = None) by (apply nth_error_None; lia). rewrite N. reflexivity. Qed.

(* two different positions of a list contribute separately to a sum *)
Lemma cnt_two {A} (f : A -> nat) l i j x y :
  i <> j -> nth_error l i = Some x -> nth_error l j = Some y -> f x + f y <= cnt f l.
Proof.
  revert i j; induction l as [|h tl IH]; intros [|i] [|j] N Hi Hj; simpl in *; try discriminate; try congruence.
  - inv Hi. pose proof (cnt_ge f tl j y Hj). lia.
  - inv Hj. pose proof (cnt_ge f tl i x Hi). lia.
  - assert (i <> j) by congruence. specialize (IH i j H Hi Hj). lia.
Qed.

Definition eqn (a b : nat) : nat := if Nat.eqb a b then 1 else 0.

(* ------------------------------------------------------------------ case analysis *)

Ltac break_hyp H :=
  match type of H with
  | context [match ?x with _ => _ end] =>
      match x with
      | context [match _ with _ => _ end] => fail 1
      | _ => let E := fresh "E" in destruct x eqn:E
      end
  end.

(* split a hypothesis  run_pc ... = Some (s', e)  (after unfolding) into its branches *)
Ltac break_all H :=
  repeat (first [ discriminate H | break_hyp H ]); try discriminate H.

Ltac unfold_step H := unfold step, run_pc, guard, decide, do_reply in H.

(* one goal per successful branch of a step; the post-state and events are substituted *)
Ltac step_cases H :=
  unfold_step H; cbn [fxA fxB fxC c_fix c_maxq c_ngpus fixes_on fixes_off] in H; break_all H; try (inv H).

(* ------------------------------------------------------------------ tick *)

Lemma tick_runners s d : runners (tick s d) = fst (fire (runners s) 0 (now s + d)%Z).
Proof. unfold tick. destruct (fire (runners s) 0 (now s + d)%Z); reflexivity. Qed.

Lemma tick_thr s d : thr (tick s d) = map (wake (now s + d)%Z) (thr s) ++ snd (fire (runners s) 0 (now s + d)%Z).
Proof. unfold tick. destruct (fire (runners s) 0 (now s + d)%Z); reflexivity. Qed.

Lemma tick_reqs s d : reqs (tick s d) = reqs s.
Proof. unfold tick. destruct (fire (runners s) 0 (now s + d)%Z); reflexivity. Qed.

Lemma tick_pendq s d : pendq (tick s d) = pendq s.
Proof. unfold tick. destruct (fire (runners s) 0 (now s + d)%Z); reflexivity. Qed.


Lemma tick_lmu s d : lmu (tick s d) = lmu s.
Proof. unfold tick. destruct (fire (runners s) 0 (now s + d)%Z); reflexivity. Qed.

Lemma tick_loaded s d : loaded (tick s d) = loaded s.
Proof. unfold tick. destruct (fire (runners s) 0 (now s + d)%Z); reflexivity. Qed.

Lemma tick_maxr s d : maxr (tick s d) = maxr s.
Proof. unfold tick. destruct (fire (runners s) 0 (now s + d)%Z); reflexivity. Qed.


(* ------------------------------------------------------------------ arithmetic case splits, sums *)

Ltac eqb_cases :=
  unfold eqn in *;
  repeat match goal with
  | H : context [Nat.eqb ?a ?b] |- _ => let E := fresh "Q" in destruct (Nat.eqb a b) eqn:E; [apply Nat.eqb_eq in E | apply Nat.eqb_neq in E]; try subst
  | |- context [Nat.eqb ?a ?b] => let E := fresh "Q" in destruct (Nat.eqb a b) eqn:E; [apply Nat.eqb_eq in E | apply Nat.eqb_neq in E]; try subst
  | H : context [Nat.ltb ?a ?b] |- _ => let E := fresh "Q" in destruct (Nat.ltb a b) eqn:E; [apply Nat.ltb_lt in E | apply Nat.ltb_ge in E]
  | |- context [Nat.ltb ?a ?b] => let E := fresh "Q" in destruct (Nat.ltb a b) eqn:E; [apply Nat.ltb_lt in E | apply Nat.ltb_ge in E]
  end.

Ltac use_nth :=
  unfold getd in *;
  repeat match goal with
  | E : nth_error ?l ?i = Some _, H : context [nth_error ?l ?i] |- _ => lazymatch H with E => fail | _ => rewrite E in H end
  | E : nth_error ?l ?i = Some _ |- context [nth_error ?l ?i] => rewrite E
  end.

(* rewrite the sums over the updated thread list / queue / request list in terms of the old ones *)
Ltac sums Ep :=
  repeat first
    [ rewrite cnt_snoc
    | rewrite app_length
    | rewrite upd_length
    | erewrite cnt_upd_eq by (first [exact Ep | apply nth_error_snoc_old; exact Ep])
    | erewrite getd_upd by eassumption
    | rewrite getd_snoc ].
