(* Sched/Lts.v - executable labelled transition system of server/sched.go (definitions only).

   Granularity: one rule per synchronisation operation of sched.go (mutex Lock, channel send / receive /
   select, call into the runner mock) together with the code that follows it up to, not including, the next
   synchronisation operation.  An Unlock is not a scheduling point.  A thread that holds a mutex across two
   rules is recorded as its owner; a Lock rule is enabled only when the mutex is free.

   Threads: 0 = processPending, 1 = processCompleted, then in creation order the helper goroutines:
   load waiter (goroutine of load()), finish waiter (per granted request), keep-alive timer callback, expiry
   retry (10 ms), reschedule (reschedDelay), explicit unload (expireRunner called by a handler).

   The three repairs proposed for the genuine defects found by this check are switches of [fixes]:
     fxA  an expired event whose runner is no longer the one registered in [loaded] is ignored
     fxB  useLoadedRunner re-checks under refMu that the runner has not been unloaded meanwhile
     fxC  the expired branch of processCompleted takes loadedMu before refMu (one lock order)
   [fixes_on] is the repaired scheduler (the model of record), [fixes_off] the code as it was found. *)
From Coq Require Import List ZArith NArith Bool Lia.
Import ListNotations.

Notation "x <- e ;; f" := (match e with Some x => f | None => None end) (at level 61, e at next level, right associativity).

(* ------------------------------------------------------------------ data *)

Record okey := mkK { k_ctx : Z; k_ngpu : Z; k_ad : nat }.

(* needsReload's comparison: adapters, NumCtx, and NumGPU unless the request says "auto" (< 0) *)
Definition compat (rk qk : okey) : bool :=
  Nat.eqb (k_ad rk) (k_ad qk) && Z.eqb (k_ctx rk) (k_ctx qk) &&
  (Z.ltb (k_ngpu qk) 0 || Z.eqb (k_ngpu rk) (k_ngpu qk)).

Inductive tstate := TNone | TArmed (dl : option Z) | TFired.

Record runner := mkR {
  r_model : nat; r_key : okey; r_ref : N; r_dur : Z; r_tm : tstate;
  r_loading : bool; r_closed : bool; r_mu : option nat; r_closes : nat }.

(* needsReload, read under refMu(r): the options are compatible and the runner is not one whose load was abandoned.
   refMu(r) is held by load()'s goroutine for the whole load, so whoever sees loading = true under refMu(r) looks at a
   runner whose load failed or was cancelled (load() marks it with Options = nil) and whose expired event is queued. *)
Definition reusable (x : runner) (qk : okey) : bool := negb (r_loading x) && compat (r_key x) qk.

Inductive reply := ROk (r : nat) (closed : bool) | RErr | RBusy.

Record rspec := mkSpec { sp_model : nat; sp_key : okey; sp_ka : option Z; sp_bad : bool }.

Record req := mkQ { q_spec : rspec; q_cancelled : bool; q_replies : list reply; q_grant : option nat; q_fin : bool }.

Inductive pc :=
| PSel | PLk (q : nat) | PNr (q r : nat) | PPing (q r : nat) | PUse (q r : nat) | PUseSend (q r : nat)
| PFv (q : nat) | PFvR (q : nat) (rest : list nat) (first : nat) | PExp (q r : nat) | PExpSend (q r : nat)
| PWait (q r : nat) | PErr (q : nat) | PFlt (q : nat) | PUfs (q : nat) (ld : bool)
| PUfsR (q : nat) (ld : bool) (rest : list nat)
| PNs (q : nat) | PLd1 (q r : nat) | PLd2 (q r : nat)
| CSel | CFLk (q : nat) | CFR (q r : nat) | CFSend (r : nat)
| CE1 (r : nat) | CE2 (r : nat) | CEV (r : nat) | CEFin | CETok
| LWWait (q r : nat) | LWErr (q r : nat) | LWExp (r : nat) | LWOk (q r : nat)
| FWDone (q : nat) | FWSend (q : nat)
| TMLk (r : nat) | TMSend (r : nat)
| RTSleep (r : nat) (u : Z) | RTSend (r : nat)
| RSSleep (q : nat) (u : Z) | RSSend (q : nat)
| AXLm (m : nat) | AXLr (r : nat) | AXSend (r : nat)
| TEntry (p : pc)   (* goroutine created, not yet scheduled *)
| TDone.

Inductive event :=
| EReply (q : nat) (rp : reply) | ENew (m : nat) (res : option nat)
| EWait (r : nat) (ok : bool) | EPing (r : nat) (ok : bool) | EClose (r : nat).

Record state := mkS {
  runners : list runner; loaded : list (nat * nat); reqs : list req;
  pendq : list nat; finq : list nat; expq : list nat; unlq : nat;
  lmu : option nat; thr : list pc; now : Z; maxr : nat }.

Record fixes := mkF { fxA : bool; fxB : bool; fxC : bool }.
Definition fixes_on := mkF true true true.
Definition fixes_off := mkF false false false.

Record config := mkC { c_maxq : nat; c_fix : fixes; c_ngpus : nat }.

Inductive label :=
| LSubmit (sp : rspec) | LCancel (q : nat) | LExpire (m : nat) | LTick (d : Z) | LRun (t : nat) (alt : Z).

(* the configured OLLAMA_MAX_LOADED_MODELS (0 = unset) is the only parameter of the initial state *)
Definition init_m (m : nat) : state := mkS [] [] [] [] [] [] 0 None [TEntry PSel; TEntry CSel] 0%Z m.
Definition init : state := init_m 0.

(* ------------------------------------------------------------------ constants *)

Definition forever : Z := 9223372036854%Z.        (* time.Duration(math.MaxInt64) in ms *)
Definition default_ka : Z := 300000%Z.            (* envconfig.KeepAlive() default: 5 min *)
Definition retry_ms : Z := 10%Z.
Definition resched_ms : Z := 250%Z.
Definition models_per_gpu : nat := 3.
Definition two64 : N := 18446744073709551616%N.
Definition pred_wrap (n : N) : N := if N.eqb n 0 then (two64 - 1)%N else N.pred n.
(* refCount++ is modelled without wrap-around: overflow would need 2^64 simultaneous holders of one runner *)

(* ------------------------------------------------------------------ list helpers *)

Fixpoint upd {A} (l : list A) (i : nat) (x : A) : list A :=
  match l, i with
  | [], _ => []
  | _ :: tl, O => x :: tl
  | h :: tl, S i' => h :: upd tl i' x
  end.

Fixpoint lookup (l : list (nat * nat)) (m : nat) : option nat :=
  match l with
  | [] => None
  | (k, v) :: tl => if Nat.eqb k m then Some v else lookup tl m
  end.

Fixpoint remove_key (l : list (nat * nat)) (m : nat) : list (nat * nat) :=
  match l with
  | [] => []
  | (k, v) :: tl => if Nat.eqb k m then remove_key tl m else (k, v) :: remove_key tl m
  end.

Definition insert (l : list (nat * nat)) (m r : nat) : list (nat * nat) := (m, r) :: remove_key l m.

Fixpoint remove_nth {A} (l : list A) (i : nat) : list A :=
  match l, i with
  | [], _ => []
  | _ :: tl, O => tl
  | h :: tl, S i' => h :: remove_nth tl i'
  end.

(* ------------------------------------------------------------------ record updates *)

Definition r_set_ref (x : runner) v := mkR (r_model x) (r_key x) v (r_dur x) (r_tm x) (r_loading x) (r_closed x) (r_mu x) (r_closes x).
Definition r_set_dur (x : runner) v := mkR (r_model x) (r_key x) (r_ref x) v (r_tm x) (r_loading x) (r_closed x) (r_mu x) (r_closes x).
Definition r_set_tm (x : runner) v := mkR (r_model x) (r_key x) (r_ref x) (r_dur x) v (r_loading x) (r_closed x) (r_mu x) (r_closes x).
Definition r_set_loading (x : runner) v := mkR (r_model x) (r_key x) (r_ref x) (r_dur x) (r_tm x) v (r_closed x) (r_mu x) (r_closes x).
Definition r_set_mu (x : runner) v := mkR (r_model x) (r_key x) (r_ref x) (r_dur x) (r_tm x) (r_loading x) (r_closed x) v (r_closes x).
Definition r_close (x : runner) := mkR (r_model x) (r_key x) (r_ref x) (r_dur x) (r_tm x) (r_loading x) true (r_mu x) (S (r_closes x)).

Definition s_runners (s : state) v := mkS v (loaded s) (reqs s) (pendq s) (finq s) (expq s) (unlq s) (lmu s) (thr s) (now s) (maxr s).
Definition s_loaded (s : state) v := mkS (runners s) v (reqs s) (pendq s) (finq s) (expq s) (unlq s) (lmu s) (thr s) (now s) (maxr s).
Definition s_reqs (s : state) v := mkS (runners s) (loaded s) v (pendq s) (finq s) (expq s) (unlq s) (lmu s) (thr s) (now s) (maxr s).
Definition s_pendq (s : state) v := mkS (runners s) (loaded s) (reqs s) v (finq s) (expq s) (unlq s) (lmu s) (thr s) (now s) (maxr s).
Definition s_finq (s : state) v := mkS (runners s) (loaded s) (reqs s) (pendq s) v (expq s) (unlq s) (lmu s) (thr s) (now s) (maxr s).
Definition s_expq (s : state) v := mkS (runners s) (loaded s) (reqs s) (pendq s) (finq s) v (unlq s) (lmu s) (thr s) (now s) (maxr s).
Definition s_unlq (s : state) v := mkS (runners s) (loaded s) (reqs s) (pendq s) (finq s) (expq s) v (lmu s) (thr s) (now s) (maxr s).
Definition s_lmu (s : state) v := mkS (runners s) (loaded s) (reqs s) (pendq s) (finq s) (expq s) (unlq s) v (thr s) (now s) (maxr s).
Definition s_thr (s : state) v := mkS (runners s) (loaded s) (reqs s) (pendq s) (finq s) (expq s) (unlq s) (lmu s) v (now s) (maxr s).
Definition s_now (s : state) v := mkS (runners s) (loaded s) (reqs s) (pendq s) (finq s) (expq s) (unlq s) (lmu s) (thr s) v (maxr s).
Definition s_maxr (s : state) v := mkS (runners s) (loaded s) (reqs s) (pendq s) (finq s) (expq s) (unlq s) (lmu s) (thr s) (now s) v.

Definition getr (s : state) (r : nat) : option runner := nth_error (runners s) r.
Definition getq (s : state) (q : nat) : option req := nth_error (reqs s) q.
Definition setr (s : state) (r : nat) (x : runner) : state := s_runners s (upd (runners s) r x).
Definition setq (s : state) (q : nat) (x : req) : state := s_reqs s (upd (reqs s) q x).
Definition goto (s : state) (t : nat) (p : pc) : state := s_thr s (upd (thr s) t p).
Definition spawn (s : state) (p : pc) : state := s_thr s (thr s ++ [TEntry p]).

Definition q_model (x : req) : nat := sp_model (q_spec x).
Definition q_add_reply (x : req) (rp : reply) : req :=
  mkQ (q_spec x) (q_cancelled x) (q_replies x ++ [rp]) (match rp with ROk r _ => Some r | _ => q_grant x end) (q_fin x).
Definition q_cancel (x : req) : req := mkQ (q_spec x) true (q_replies x) (q_grant x) (q_fin x).
Definition q_finish (x : req) : req := mkQ (q_spec x) (q_cancelled x) (q_replies x) (q_grant x) true.

Definition is_none {A} (o : option A) : bool := match o with None => true | Some _ => false end.
Definition guard {A} (b : bool) (x : option A) : option A := if b then x else None.

Definition do_reply (s : state) (q : nat) (rp : reply) : option state :=
  x <- getq s q ;; Some (setq s q (q_add_reply x rp)).

Definition deadline (s : state) (d : Z) : option Z := if Z.eqb d forever then None else Some (now s + d)%Z.

(* ------------------------------------------------------------------ victim choice (findRunnerToUnload) *)

(* insertion sort of runner ids by (sessionDuration as uint64, model path); durations are never negative here *)
Definition vless (s : state) (a b : nat) : bool :=
  match getr s a, getr s b with
  | Some x, Some y =>
      if Z.eqb (r_dur x) (r_dur y) then Nat.ltb (r_model x) (r_model y) else Z.ltb (r_dur x) (r_dur y)
  | _, _ => false
  end.

Fixpoint vinsert (s : state) (a : nat) (l : list nat) : list nat :=
  match l with
  | [] => [a]
  | b :: tl => if vless s b a then b :: vinsert s a tl else a :: l
  end.

Definition vsort (s : state) (l : list nat) : list nat := fold_right (vinsert s) [] l.

(* ------------------------------------------------------------------ placement decision after updateFreeSpace *)

(* dec = 0: the new model fits next to the loaded ones -> load; dec = 1: it does not -> requeue with a delay when
   some loaded runner is still loading (its GPUs were filtered out), else evict *)
Definition decide (s : state) (t q : nat) (ld : bool) (dec : Z) : option state :=
  if Z.eqb dec 0 then Some (goto s t (PNs q))
  else if Z.eqb dec 1 then
    if ld then Some (goto (spawn s (RSSleep q resched_ms)) t PSel)
    else Some (goto s t (PFv q))
  else None.

(* ------------------------------------------------------------------ one rule of one thread *)

Definition stale (s : state) (r : nat) (x : runner) : bool :=
  match lookup (loaded s) (r_model x) with Some r' => negb (Nat.eqb r' r) | None => true end.

Definition run_pc (c : config) (s : state) (t : nat) (p : pc) (alt : Z) : option (state * list event) :=
  match p with
  (* ---- processPending *)
  | PSel =>
      if Z.eqb alt 0 then
        match pendq s with
        | [] => None
        | q :: rest =>
            x <- getq s q ;;
            let s1 := s_pendq s rest in
            if q_cancelled x then Some (s1, []) else Some (goto s1 t (PLk q), [])
        end
      else if Z.eqb alt 1 then
        match unlq s with O => None | S n => Some (s_unlq s n, []) end
      else None
  | PLk q =>
      guard (is_none (lmu s)) (
      x <- getq s q ;;
      match lookup (loaded s) (q_model x) with
      | Some r => guard (Z.eqb alt 0) (Some (goto s t (PNr q r), []))
      | None =>
          let count := length (loaded s) in
          if Nat.ltb 0 (maxr s) && Nat.leb (maxr s) count then guard (Z.eqb alt 0) (Some (goto s t (PFv q), []))
          else
            let cpu := Z.eqb (k_ngpu (sp_key (q_spec x))) 0 in
            let s1 := if Nat.eqb (maxr s) 0 then s_maxr s (models_per_gpu * (if cpu then 1 else c_ngpus c)) else s in
            if sp_bad (q_spec x) then guard (Z.eqb alt 0) (Some (goto s1 t (PErr q), []))
            else if Nat.eqb count 0 then guard (Z.eqb alt 0) (Some (goto s1 t (PNs q), []))
            else if cpu then
              (if Z.eqb alt 0 then Some (goto s1 t (PNs q), [])
               else if Z.eqb alt 1 then Some (goto s1 t (PFv q), []) else None)
            else guard (Z.eqb alt 0) (Some (goto s1 t (PFlt q), []))
      end)
  | PFlt q =>
      guard (is_none (lmu s) && Z.eqb alt 0) (
      let ld := existsb (fun mr => match getr s (snd mr) with
                                 | Some x => r_loading x && negb (Z.eqb (k_ngpu (r_key x)) 0)
                                 | None => false end) (loaded s) in
      Some (goto s t (PUfs q ld), []))
  | PUfs q ld =>
      guard (is_none (lmu s)) (
      match map snd (loaded s) with
      | [] => s' <- decide s t q ld alt ;; Some (s', [])
      | rest => guard (Z.eqb alt 0) (Some (goto (s_lmu s (Some t)) t (PUfsR q ld rest), []))
      end)
  | PUfsR q ld rest =>
      let idx := Z.to_nat (alt mod 4) in
      let dec := (alt / 4)%Z in
      guard (Z.leb 0 alt) (
      r <- nth_error rest idx ;;
      x <- getr s r ;;
      guard (is_none (r_mu x)) (
      match remove_nth rest idx with
      | [] => s' <- decide (s_lmu s None) t q ld dec ;; Some (s', [])
      | rest' => guard (Z.eqb dec 0) (Some (goto s t (PUfsR q ld rest'), []))
      end))
  | PNs q =>
      x <- getq s q ;;
      if Z.eqb alt 0 then
        let r := length (runners s) in
        let d := match sp_ka (q_spec x) with Some d => d | None => default_ka end in
        let nr := mkR (q_model x) (sp_key (q_spec x)) 1%N d TNone true false None 0 in
        Some (goto (s_runners s (runners s ++ [nr])) t (PLd1 q r), [ENew (q_model x) (Some r)])
      else if Z.eqb alt 1 then Some (goto s t (PErr q), [ENew (q_model x) None])
      else None
  | PLd1 q r =>
      x <- getr s r ;;
      guard (is_none (r_mu x) && Z.eqb alt 0) (Some (goto (setr s r (r_set_mu x (Some t))) t (PLd2 q r), []))
  | PLd2 q r =>
      x <- getr s r ;;
      guard (is_none (lmu s) && Z.eqb alt 0) (
      let lw := length (thr s) in
      let s1 := s_loaded s (insert (loaded s) (r_model x) r) in
      let s2 := setr s1 r (r_set_mu x (Some lw)) in
      Some (goto (spawn s2 (LWWait q r)) t PSel, []))
  | PNr q r =>
      x <- getr s r ;; y <- getq s q ;;
      guard (is_none (r_mu x) && Z.eqb alt 0) (
      if r_closed x || negb (reusable x (sp_key (q_spec y))) then Some (goto s t (PExp q r), [])
      else Some (goto (setr s r (r_set_mu x (Some t))) t (PPing q r), []))
  | PPing q r =>
      x <- getr s r ;;
      let s1 := setr s r (r_set_mu x None) in
      if Z.eqb alt 0 then Some (goto s1 t (PUse q r), [EPing r true])
      else if Z.eqb alt 1 then Some (goto s1 t (PExp q r), [EPing r false])
      else None
  | PUse q r =>
      x <- getr s r ;; y <- getq s q ;;
      guard (is_none (r_mu x) && Z.eqb alt 0) (
      if fxB (c_fix c) && r_closed x then Some (goto s t (PLk q), [])
      else
        let x1 := r_set_tm (r_set_ref x (N.succ (r_ref x))) TNone in
        let x2 := match sp_ka (q_spec y) with Some d => r_set_dur x1 d | None => x1 end in
        Some (goto (setr s r (r_set_mu x2 (Some t))) t (PUseSend q r), []))
  | PUseSend q r =>
      x <- getr s r ;;
      guard (Z.eqb alt 0) (
      let rp := ROk r (r_closed x) in
      s1 <- do_reply s q rp ;;
      let s2 := setr s1 r (r_set_mu x None) in
      Some (goto (spawn s2 (FWDone q)) t PSel, [EReply q rp]))
  | PFv q =>
      guard (is_none (lmu s) && Z.eqb alt 0) (
      match vsort s (map snd (loaded s)) with
      | [] => Some (goto s t (PLk q), [])
      | f :: rest => Some (goto s t (PFvR q (f :: rest) f), [])
      end)
  | PFvR q rest first =>
      match rest with
      | [] => None
      | r :: tl =>
          x <- getr s r ;;
          guard (is_none (r_mu x) && Z.eqb alt 0) (
          if N.eqb (r_ref x) 0 then Some (goto s t (PExp q r), [])
          else match tl with
               | [] => Some (goto s t (PExp q first), [])
               | _ => Some (goto s t (PFvR q tl first), [])
               end)
      end
  | PExp q r =>
      x <- getr s r ;;
      guard (is_none (r_mu x) && Z.eqb alt 0) (
      let x1 := r_set_dur (r_set_tm x TNone) 0%Z in
      if N.eqb (r_ref x) 0 then Some (goto (setr s r (r_set_mu x1 (Some t))) t (PExpSend q r), [])
      else Some (goto (setr s r x1) t (PWait q r), []))
  | PExpSend q r =>
      x <- getr s r ;;
      guard (Z.eqb alt 0) (Some (goto (setr (s_expq s (expq s ++ [r])) r (r_set_mu x None)) t (PWait q r), []))
  | PWait q _ =>
      guard (Z.eqb alt 0) (match unlq s with O => None | S n => Some (goto (s_unlq s n) t (PLk q), []) end)
  | PErr q =>
      guard (Z.eqb alt 0) (s1 <- do_reply s q RErr ;; Some (goto s1 t PSel, [EReply q RErr]))
  (* ---- processCompleted *)
  | CSel =>
      if Z.eqb alt 0 then
        match finq s with [] => None | q :: rest => Some (goto (s_finq s rest) t (CFLk q), []) end
      else if Z.eqb alt 1 then
        match expq s with [] => None | r :: rest => Some (goto (s_expq s rest) t (CE1 r), []) end
      else None
  | CFLk q =>
      x <- getq s q ;;
      guard (is_none (lmu s) && Z.eqb alt 0) (
      match lookup (loaded s) (q_model x) with
      | None => Some (goto s t CSel, [])
      | Some r => Some (goto s t (CFR q r), [])
      end)
  | CFR q r =>
      x <- getr s r ;; y <- getq s q ;;
      guard (is_none (r_mu x) && Z.eqb alt 0) (
      let s0 := setq s q (q_finish y) in
      let n := pred_wrap (r_ref x) in
      let x1 := r_set_ref x n in
      if N.eqb n 0 then
        if Z.leb (r_dur x) 0 then Some (goto (setr s0 r (r_set_mu (r_set_tm x1 TNone) (Some t))) t (CFSend r), [])
        else Some (goto (setr s0 r (r_set_tm x1 (TArmed (deadline s (r_dur x))))) t CSel, [])
      else Some (goto (setr s0 r x1) t CSel, []))
  | CFSend r =>
      x <- getr s r ;;
      guard (Z.eqb alt 0) (Some (goto (setr (s_expq s (expq s ++ [r])) r (r_set_mu x None)) t CSel, []))
  | CE1 r =>
      x <- getr s r ;;
      guard (Z.eqb alt 0) (
      if fxC (c_fix c) then
        guard (is_none (lmu s)) (Some (goto (s_lmu s (Some t)) t (CE2 r), []))
      else
        guard (is_none (r_mu x)) (
        if N.ltb 0 (r_ref x) then Some (goto (spawn s (RTSleep r retry_ms)) t CSel, [])
        else Some (goto (setr s r (r_set_mu x (Some t))) t (CE2 r), [])))
  | CE2 r =>
      x <- getr s r ;;
      guard (Z.eqb alt 0) (
      if fxC (c_fix c) then
        guard (is_none (r_mu x)) (
        if N.ltb 0 (r_ref x) then Some (goto (spawn (s_lmu s None) (RTSleep r retry_ms)) t CSel, [])
        else if fxA (c_fix c) && stale s r x then Some (goto (s_lmu s None) t CSel, [])
        else Some (goto (setr s r (r_set_mu x (Some t))) t (CEV r), []))
      else
        guard (is_none (lmu s)) (
        if fxA (c_fix c) && stale s r x then Some (goto (setr s r (r_set_mu x None)) t CSel, [])
        else Some (goto (s_lmu s (Some t)) t (CEV r), [])))
  | CEV r =>
      x <- getr s r ;;
      guard (Z.eqb alt 0) (
      let x1 := r_set_mu (r_set_tm x TNone) None in
      let x2 := if r_closed x then x1 else r_close x1 in
      let ev := if r_closed x then [] else [EClose r] in
      let s1 := s_lmu (s_loaded (setr s r x2) (remove_key (loaded s) (r_model x))) None in
      Some (goto s1 t CEFin, ev))
  | CEFin => guard (Z.eqb alt 0) (Some (goto s t CETok, []))
  | CETok => guard (Z.eqb alt 0) (Some (goto (s_unlq s (S (unlq s))) t CSel, []))
  (* ---- goroutine of load() *)
  | LWWait q r =>
      x <- getr s r ;;
      if Z.eqb alt 0 then
        Some (goto (spawn (setr s r (r_set_loading x false)) (FWDone q)) t (LWOk q r), [EWait r true])
      else if Z.eqb alt 1 then
        Some (goto (setr s r (r_set_ref x (pred_wrap (r_ref x)))) t (LWErr q r), [EWait r false])
      else None
  | LWErr q r =>
      guard (Z.eqb alt 0) (s1 <- do_reply s q RErr ;; Some (goto s1 t (LWExp r), [EReply q RErr]))
  | LWExp r =>
      x <- getr s r ;;
      guard (Z.eqb alt 0) (Some (goto (setr (s_expq s (expq s ++ [r])) r (r_set_mu x None)) t TDone, []))
  | LWOk q r =>
      x <- getr s r ;;
      guard (Z.eqb alt 0) (
      let rp := ROk r (r_closed x) in
      s1 <- do_reply s q rp ;;
      Some (goto (setr s1 r (r_set_mu x None)) t TDone, [EReply q rp]))
  (* ---- finish waiter *)
  | FWDone q =>
      x <- getq s q ;;
      guard (q_cancelled x && Z.eqb alt 0) (Some (goto s t (FWSend q), []))
  | FWSend q => guard (Z.eqb alt 0) (Some (goto (s_finq s (finq s ++ [q])) t TDone, []))
  (* ---- keep-alive timer callback *)
  | TMLk r =>
      x <- getr s r ;;
      guard (is_none (r_mu x) && Z.eqb alt 0) (Some (goto (setr s r (r_set_mu (r_set_tm x TNone) (Some t))) t (TMSend r), []))
  | TMSend r =>
      x <- getr s r ;;
      guard (Z.eqb alt 0) (Some (goto (setr (s_expq s (expq s ++ [r])) r (r_set_mu x None)) t TDone, []))
  (* ---- retry / reschedule (woken by LTick) *)
  | RTSleep _ _ => None
  | RTSend r => guard (Z.eqb alt 0) (Some (goto (s_expq s (expq s ++ [r])) t TDone, []))
  | RSSleep _ _ => None
  | RSSend q =>
      guard (Nat.ltb (length (pendq s)) (c_maxq c) && Z.eqb alt 0) (Some (goto (s_pendq s (pendq s ++ [q])) t TDone, []))
  (* ---- expireRunner *)
  | AXLm m =>
      guard (is_none (lmu s) && Z.eqb alt 0) (
      match lookup (loaded s) m with
      | None => Some (goto s t TDone, [])
      | Some r => Some (goto (s_lmu s (Some t)) t (AXLr r), [])
      end)
  | AXLr r =>
      x <- getr s r ;;
      guard (is_none (r_mu x) && Z.eqb alt 0) (
      let x1 := r_set_dur (r_set_tm x TNone) 0%Z in
      if N.eqb (r_ref x) 0 then Some (goto (setr s r (r_set_mu x1 (Some t))) t (AXSend r), [])
      else Some (goto (s_lmu (setr s r x1) None) t TDone, []))
  | AXSend r =>
      x <- getr s r ;;
      guard (Z.eqb alt 0) (Some (goto (s_lmu (setr (s_expq s (expq s ++ [r])) r (r_set_mu x None)) None) t TDone, []))
  | TEntry p' =>
      (* time.Sleep starts counting when the goroutine runs *)
      guard (Z.eqb alt 0) (
      match p' with
      | RTSleep r d => Some (goto s t (RTSleep r (now s + d)%Z), [])
      | RSSleep q d => Some (goto s t (RSSleep q (now s + d)%Z), [])
      | _ => Some (goto s t p', [])
      end)
  | TDone => None
  end.

(* ------------------------------------------------------------------ time *)

Fixpoint fire (rs : list runner) (i : nat) (t' : Z) : list runner * list pc :=
  match rs with
  | [] => ([], [])
  | x :: tl =>
      let (tl', ps) := fire tl (S i) t' in
      match r_tm x with
      | TArmed (Some dl) => if Z.leb dl t' then (r_set_tm x TFired :: tl', TEntry (TMLk i) :: ps) else (x :: tl', ps)
      | _ => (x :: tl', ps)
      end
  end.

Definition wake (t' : Z) (p : pc) : pc :=
  match p with
  | RTSleep r u => if Z.leb u t' then RTSend r else p
  | RSSleep q u => if Z.leb u t' then RSSend q else p
  | _ => p
  end.

Definition tick (s : state) (d : Z) : state :=
  let t' := (now s + d)%Z in
  let (rs, ps) := fire (runners s) 0 t' in
  s_now (s_thr (s_runners s rs) (map (wake t') (thr s) ++ ps)) t'.

(* ------------------------------------------------------------------ the transition function *)

Definition step (c : config) (s : state) (l : label) : option (state * list event) :=
  match l with
  | LSubmit sp =>
      let q := length (reqs s) in
      if Nat.ltb (length (pendq s)) (c_maxq c) then
        Some (s_pendq (s_reqs s (reqs s ++ [mkQ sp false [] None false])) (pendq s ++ [q]), [])
      else
        Some (s_reqs s (reqs s ++ [mkQ sp false [RBusy] None false]), [EReply q RBusy])
  | LCancel q =>
      x <- getq s q ;; guard (negb (q_cancelled x)) (Some (setq s q (q_cancel x), []))
  | LExpire m => Some (spawn s (AXLm m), [])
  | LTick d => guard (Z.ltb 0 d) (Some (tick s d, []))
  | LRun t alt => p <- nth_error (thr s) t ;; run_pc c s t p alt
  end.

Fixpoint run (c : config) (s : state) (ls : list label) : option (state * list event) :=
  match ls with
  | [] => Some (s, [])
  | l :: tl =>
      match step c s l with
      | None => None
      | Some (s1, e1) => match run c s1 tl with None => None | Some (s2, e2) => Some (s2, e1 ++ e2) end
      end
  end.

Definition reachable (c : config) (s : state) : Prop := exists m ls ev, run c (init_m m) ls = Some (s, ev).
