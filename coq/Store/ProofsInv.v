(** * Store/ProofsInv.v — the store invariant, what a single effect may do to it, traces of effects, runs *)
From Coq Require Import List NArith Bool Arith Lia.
From V Require Import Common.Bytes Store.Fs Store.Ops Store.ProofsAlist Store.ProofsNames.
Import ListNotations.
Open Scope N_scope.

(** a manifest file that decodes *)
Definition listed (s : store) (n : name) (m : manifest) : Prop := In (n, Readable m) (mans s).

Lemma mget_listed s n m : mget n s = Some (Readable m) -> listed s n m.
Proof. apply (aget_In name_eqb name_eqb_spec). Qed.

Lemma readable_names_spec s n : In n (readable_names s) <-> exists m, listed s n m.
Proof.
  unfold readable_names, listed. rewrite in_flat_map. split.
  - intros [[n' ms] [Hin H]]. cbn in H. destruct ms as [m|]; [|contradiction]. destruct H as [<-|[]]. eauto.
  - intros [m H]. exists (n, Readable m). split; [exact H | left; reflexivity].
Qed.

Lemma has_unreadable_false s n : has_unreadable s = false -> ~ In (n, Unreadable) (mans s).
Proof.
  unfold has_unreadable. intros H Hin.
  assert (existsb (fun p : name * mstate => match snd p with Readable _ => false | Unreadable => true end) (mans s) = true); [|congruence].
  apply existsb_exists. exists (n, Unreadable). auto.
Qed.

Lemma In_remove_one x d l : In x (remove_one d l) -> In x l.
Proof.
  induction l as [|y l IH]; cbn; [auto|]. destruct (dfile_eqb d y); [intros H; right; exact H|].
  intros [H|H]; [left; exact H | right; apply IH, H].
Qed.

Lemma In_add_debris x d l : In x (add_debris d l) -> x = d \/ In x l.
Proof.
  unfold add_debris. destruct d; try (destruct (existsb _ l)); cbn; intros H; try (right; exact H); destruct H as [H|H]; auto.
Qed.

Lemma In_remove_all x d l : In x (remove_all d l) -> In x l.
Proof. unfold remove_all. intros H. apply filter_In in H. apply H. Qed.

Lemma In_drop_partrec x h i l : In x (drop_partrec h i l) -> In x l.
Proof. unfold drop_partrec. intros H. apply filter_In in H. apply H. Qed.

Definition legacy_intact (ds : list dfile) : Prop := forall h c, In (DColon h c) ds -> c = h.

Section Inv.
  Variable size_of : N -> N.

  (** a layer entry is served by the blob store: canonical spelling, blob file present and intact, recorded size right *)
  Definition blob_ok (s : store) (l : layer) : Prop :=
    dcolon (ldg l) = true /\ bget (dhex (ldg l)) s = Some (dhex (ldg l)) /\ lsz l = size_of (dhex (ldg l)).
  Definition man_ok (s : store) (m : manifest) : Prop := Forall (blob_ok s) (all_layers m).
  Definition blobs_intact (s : store) : Prop := forall h c, In (h, c) (blobs s) -> c = h.
  Definition case_unique (s : store) : Prop :=
    forall a b ma mb, listed s a ma -> listed s b mb -> name_eqfold a b = true -> a = b.

  Record Inv (s : store) : Prop := MkInv {
    inv_mans : forall n m, listed s n m -> man_ok s m;
    inv_blobs : blobs_intact s;
    inv_case : case_unique s;
    inv_legacy : legacy_intact (debris s)
  }.

  Lemma Inv_empty : Inv empty_store.
  Proof. split; repeat intro; cbv in *; contradiction. Qed.

  Lemma legacy_intact_sub a b : (forall x, In x a -> In x b) -> legacy_intact b -> legacy_intact a.
  Proof. intros Hs H h c Hin. apply (H h c), Hs, Hin. Qed.

  Lemma bget_intact s h c : Inv s -> bget h s = Some c -> c = h.
  Proof. intros HI H. apply (inv_blobs s HI). apply (aget_In N.eqb Neqb_spec). exact H. Qed.

  (** ** reference scans *)
  Lemma referenced_hex_elim s h : referenced_hex s h = true ->
    exists n m l, listed s n m /\ In l (all_layers m) /\ dhex (ldg l) = h.
  Proof.
    unfold referenced_hex. intros H. apply existsb_exists in H as [[n ms] [Hin Hu]]. cbn in Hu.
    destruct ms as [m|]; [|discriminate]. cbn in Hu. apply existsb_exists in Hu as [l [Hl He]]. apply N.eqb_eq in He.
    exists n, m, l. auto.
  Qed.

  Lemma referenced_hex_intro s n m l : listed s n m -> In l (all_layers m) -> referenced_hex s (dhex (ldg l)) = true.
  Proof.
    intros Hm Hl. unfold referenced_hex. apply existsb_exists. exists (n, Readable m). split; [exact Hm|]. cbn.
    apply existsb_exists. exists l. split; [exact Hl | apply N.eqb_refl].
  Qed.

  Lemma referenced_intro s n m l : listed s n m -> In l (all_layers m) -> referenced s (ldg l) = true.
  Proof.
    intros Hm Hl. unfold referenced. apply existsb_exists. exists (n, Readable m). split; [exact Hm|]. cbn.
    apply existsb_exists. exists l. split; [exact Hl|]. unfold digest_eqb. rewrite eqb_reflx, N.eqb_refl. reflexivity.
  Qed.

  (** with all manifest digests canonical, the string comparison of the code decides use of the blob file *)
  Lemma referenced_false_hex s d :
    Inv s -> dcolon d = true -> referenced s d = false -> referenced_hex s (dhex d) = false.
  Proof.
    intros HI Hc Hr. destruct (referenced_hex s (dhex d)) eqn:E; [|reflexivity].
    apply referenced_hex_elim in E as [n [m [l [Hm [Hl He]]]]].
    assert (Hok := inv_mans s HI n m Hm). unfold man_ok in Hok. rewrite Forall_forall in Hok. destruct (Hok l Hl) as [Hcl _].
    assert (referenced s d = true); [|congruence].
    unfold referenced. apply existsb_exists. exists (n, Readable m). split; [exact Hm|]. cbn.
    apply existsb_exists. exists l. split; [exact Hl|]. unfold digest_eqb. rewrite Hcl, Hc, He, N.eqb_refl. reflexivity.
  Qed.

  Lemma referenced_hex_present s h : Inv s -> referenced_hex s h = true -> bget h s = Some h.
  Proof.
    intros HI H. apply referenced_hex_elim in H as [n [m [l [Hm [Hl <-]]]]].
    assert (Hok := inv_mans s HI n m Hm). unfold man_ok in Hok. rewrite Forall_forall in Hok. apply (Hok l Hl).
  Qed.

  (** ** what one effect may do.  [t]: the one manifest the operation may touch (None: none at all) *)
  Definition step_ok (t : option name) (s : store) (e : effect) : Prop :=
    match e with
    | EAddDebris (DColon h c) => c = h
    | EAddDebris _ | ERmDebris _ | EFixPartial _ | EPartRec _ _ _ | ERmPart _ _ => True
    | ERenTemp h c | ERenPartial h c | EFixBlob h c => c = h
    | ERmBlob h => referenced_hex s h = false
    | ETruncMan n | ERmMan n => t = Some n
    | EWriteMan n Unreadable => t = Some n
    | EWriteMan n (Readable m) =>
        t = Some n /\ man_ok s m /\ (forall e me, listed s e me -> name_eqfold e n = true -> e = n)
    end.

  Lemma blob_ok_put s h l d : blob_ok s l -> blob_ok (MkStore (mans s) (aset N.eqb h h (blobs s)) d) l.
  Proof.
    intros [H1 [H2 H3]]. split; [exact H1|]. split; [|exact H3]. unfold bget in *. cbn.
    destruct (N.eq_dec (dhex (ldg l)) h) as [->|Hn]; [apply bget_aset_same | rewrite bget_aset_other by exact Hn; exact H2].
  Qed.

  Lemma Inv_put s h d : Inv s -> legacy_intact d -> Inv (MkStore (mans s) (aset N.eqb h h (blobs s)) d).
  Proof.
    intros [Hm Hb Hc Hl] Hd. split.
    - intros n m Hl'. specialize (Hm n m Hl'). unfold man_ok in *. rewrite Forall_forall in *. intros l Hin. apply blob_ok_put, Hm, Hin.
    - intros h' c Hin. cbn in Hin. apply (In_aset N.eqb Neqb_spec) in Hin as [[-> ->]|[_ Hin]]; [reflexivity | apply Hb, Hin].
    - exact Hc.
    - exact Hd.
  Qed.

  Lemma Inv_ext s s' : mans s' = mans s -> blobs s' = blobs s -> legacy_intact (debris s') -> Inv s -> Inv s'.
  Proof. destruct s, s'; cbn. intros -> -> Hd [Hm Hb Hc Hl]. split; assumption. Qed.

  Lemma Inv_mans_shrink s mns :
    (forall n m, In (n, Readable m) mns -> In (n, Readable m) (mans s)) -> Inv s -> Inv (MkStore mns (blobs s) (debris s)).
  Proof.
    intros Hsub [Hm Hb Hc Hl]. split.
    - intros n m Hl'. apply (Hm n m), Hsub, Hl'.
    - exact Hb.
    - intros a b ma mb Ha Hb'. apply (Hc a b ma mb); apply Hsub; assumption.
    - exact Hl.
  Qed.

  Lemma step_inv t s e : Inv s -> step_ok t s e -> Inv (apply_effect s e).
  Proof.
    intros HI Hs. assert (HL := inv_legacy s HI).
    destruct e as [d|d|h c|h c|h|n|n ms|n|h c|h|h i st|h i]; cbn [apply_effect].
    - apply (Inv_ext s); [reflexivity | reflexivity | | exact HI]. cbn [debris]. intros h c Hin. apply In_add_debris in Hin as [Hin|Hin]; [|apply (HL h c Hin)].
      subst d. exact Hs.
    - apply (Inv_ext s); [reflexivity | reflexivity | | exact HI]. cbn. eapply legacy_intact_sub; [|exact HL]. intros x. apply In_remove_one.
    - cbn in Hs. subst c. apply Inv_put; [exact HI|]. eapply legacy_intact_sub; [|exact HL]. intros x. apply In_remove_one.
    - cbn in Hs. subst c. apply Inv_put; [exact HI|]. eapply legacy_intact_sub; [|exact HL]. intros x. apply In_remove_one.
    - cbn in Hs. destruct HI as [Hm Hb Hc Hl]. split.
      + intros n m Hl'. specialize (Hm n m Hl'). unfold man_ok in *. rewrite Forall_forall in *. intros l Hin.
        destruct (Hm l Hin) as [H1 [H2 H3]]. split; [exact H1|]. split; [|exact H3].
        unfold bget in *; cbn. rewrite bget_adel_other; [exact H2|].
        intros He. rewrite <- He in Hs. rewrite (referenced_hex_intro s n m l Hl' Hin) in Hs. discriminate.
      + intros h' c Hin. cbn in Hin. apply (In_adel N.eqb Neqb_spec) in Hin as [Hin _]. apply Hb, Hin.
      + exact Hc.
      + exact Hl.
    - apply Inv_mans_shrink; [|exact HI]. intros n' m Hin.
      apply (In_aset name_eqb name_eqb_spec) in Hin as [[_ [=]]|[_ Hin]]. exact Hin.
    - destruct ms as [m|].
      + destruct Hs as [_ [Hok Hu]]. destruct HI as [Hm Hb Hc Hl]. split.
        * intros n' m' Hl'. unfold listed in Hl'; cbn in Hl'.
          apply (In_aset name_eqb name_eqb_spec) in Hl' as [[-> [= ->]]|[_ Hl']]; [exact Hok | apply (Hm n' m' Hl')].
        * exact Hb.
        * intros a b ma mb Ha Hb' Hf. unfold listed in Ha, Hb'; cbn in Ha, Hb'.
          apply (In_aset name_eqb name_eqb_spec) in Ha as [[-> [= ->]]|[Hna Ha]];
            apply (In_aset name_eqb name_eqb_spec) in Hb' as [[-> [= ->]]|[Hnb Hb']].
          -- reflexivity.
          -- symmetry. apply (Hu b mb Hb'). apply name_eqfold_sym, Hf.
          -- apply (Hu a ma Ha Hf).
          -- apply (Hc a b ma mb Ha Hb' Hf).
        * exact Hl.
      + apply Inv_mans_shrink; [|exact HI]. intros n' m Hin.
        apply (In_aset name_eqb name_eqb_spec) in Hin as [[_ [=]]|[_ Hin]]. exact Hin.
    - apply Inv_mans_shrink; [|exact HI]. intros n' m Hin.
      apply (In_adel name_eqb name_eqb_spec) in Hin as [Hin _]. exact Hin.
    - cbn in Hs. subst c. apply Inv_put; [exact HI|]. eapply legacy_intact_sub; [|exact HL]. intros x. apply In_remove_all.
    - apply (Inv_ext s); [reflexivity | reflexivity | | exact HI]. cbn [debris]. intros h' c Hin. apply In_add_debris in Hin as [Hin|Hin]; [discriminate|].
      apply In_remove_all in Hin. apply (HL h' c Hin).
    - apply (Inv_ext s); [reflexivity | reflexivity | | exact HI]. cbn [debris]. intros h' c [Hin|Hin]; [discriminate|].
      apply In_drop_partrec in Hin. apply (HL h' c Hin).
    - apply (Inv_ext s); [reflexivity | reflexivity | | exact HI]. cbn [debris]. intros h' c Hin.
      apply In_drop_partrec in Hin. apply (HL h' c Hin).
  Qed.

  (** the manifests of other names are not touched *)
  Lemma step_frame_mans t s e n : step_ok t s e -> t <> Some n -> mget n (apply_effect s e) = mget n s.
  Proof.
    intros Hs Hn. destruct e as [d|d|h c|h c|h|n'|n' ms|n'|h c|h|h i st|h i]; cbn in *; try reflexivity; unfold mget; cbn.
    - apply mget_aset_other. congruence.
    - apply mget_aset_other. destruct ms; [destruct Hs as [Hs _]|]; congruence.
    - apply mget_adel_other. congruence.
  Qed.

  Lemma step_frame_listed t s e n m : step_ok t s e -> t <> Some n -> (listed (apply_effect s e) n m <-> listed s n m).
  Proof.
    intros Hs Hn. unfold listed. destruct e as [d|d|h c|h c|h|n'|n' ms|n'|h c|h|h i st|h i]; cbn in *; try tauto.
    - rewrite (In_aset name_eqb name_eqb_spec). split; [intros [[-> _]|[_ H]]; [congruence | exact H] | intros H; right; split; [congruence | exact H]].
    - assert (Ht : t = Some n') by (destruct ms; [destruct Hs as [Hs _]|]; exact Hs).
      rewrite (In_aset name_eqb name_eqb_spec). split; [intros [[-> _]|[_ H]]; [congruence | exact H] | intros H'; right; split; [congruence | exact H']].
    - split; [intros H; apply (In_adel name_eqb name_eqb_spec) in H as [H _]; exact H | intros H; apply (In_adel_intro name_eqb name_eqb_spec); [exact H | congruence]].
  Qed.

  (** a blob that some readable manifest uses is neither removed nor altered *)
  Lemma step_frame_blob t s e h : Inv s -> step_ok t s e -> referenced_hex s h = true -> bget h (apply_effect s e) = bget h s.
  Proof.
    intros HI Hs Hr. destruct e as [d|d|h' c|h' c|h'|n'|n' ms|n'|h' c|h'|h' i st|h' i]; cbn in *; try reflexivity; unfold bget; cbn.
    - subst c. destruct (N.eq_dec h h') as [->|Hn]; [|apply bget_aset_other, Hn].
      rewrite bget_aset_same. symmetry. apply (referenced_hex_present _ _ HI Hr).
    - subst c. destruct (N.eq_dec h h') as [->|Hn]; [|apply bget_aset_other, Hn].
      rewrite bget_aset_same. symmetry. apply (referenced_hex_present _ _ HI Hr).
    - apply bget_adel_other. intros ->. congruence.
    - subst c. destruct (N.eq_dec h h') as [->|Hn]; [|apply bget_aset_other, Hn].
      rewrite bget_aset_same. symmetry. apply (referenced_hex_present _ _ HI Hr).
  Qed.

  (** ** traces *)
  Fixpoint ok_trace (t : option name) (s : store) (es : list effect) : Prop :=
    match es with
    | [] => True
    | e :: r => step_ok t s e /\ ok_trace t (apply_effect s e) r
    end.

  Lemma ok_trace_app t s a b : ok_trace t s (a ++ b) <-> ok_trace t s a /\ ok_trace t (apply_list s a) b.
  Proof.
    revert s; induction a as [|e a IH]; intros s; cbn [ok_trace app]; [cbn; tauto|]. rewrite IH, apply_list_cons. tauto.
  Qed.

  Lemma ok_trace_firstn t s es k : ok_trace t s es -> ok_trace t s (firstn k es).
  Proof.
    intros H. rewrite <- (firstn_skipn k es) in H. apply ok_trace_app in H. apply H.
  Qed.

  Lemma ok_trace_inv t s es : Inv s -> ok_trace t s es -> Inv (apply_list s es).
  Proof.
    revert s; induction es as [|e es IH]; intros s HI H; cbn [ok_trace] in *; [exact HI|].
    destruct H as [H1 H2]. rewrite apply_list_cons. apply IH; [eapply step_inv; eassumption | exact H2].
  Qed.

  Lemma ok_trace_mans t s es n : ok_trace t s es -> t <> Some n -> mget n (apply_list s es) = mget n s.
  Proof.
    revert s; induction es as [|e es IH]; intros s H Hn; cbn [ok_trace] in *; [reflexivity|].
    destruct H as [H1 H2]. rewrite apply_list_cons, (IH _ H2 Hn). eapply step_frame_mans; eassumption.
  Qed.

  Lemma ok_trace_listed t s es n m : ok_trace t s es -> t <> Some n -> (listed (apply_list s es) n m <-> listed s n m).
  Proof.
    revert s; induction es as [|e es IH]; intros s H Hn; cbn [ok_trace] in *; [cbn; tauto|].
    destruct H as [H1 H2]. rewrite apply_list_cons, (IH _ H2 Hn). eapply step_frame_listed; eassumption.
  Qed.

  (** the blobs of a model the operation is not about survive every prefix of it *)
  Lemma ok_trace_blob t s es n m l :
    Inv s -> ok_trace t s es -> t <> Some n -> listed s n m -> In l (all_layers m) ->
    bget (dhex (ldg l)) (apply_list s es) = bget (dhex (ldg l)) s.
  Proof.
    revert s; induction es as [|e es IH]; intros s HI H Hn Hl Hin; cbn [ok_trace] in *; [reflexivity|].
    destruct H as [H1 H2]. rewrite apply_list_cons.
    rewrite (IH (apply_effect s e)); [| eapply step_inv; eassumption | exact H2 | exact Hn | | exact Hin].
    - eapply step_frame_blob; [exact HI | exact H1 | eapply referenced_hex_intro; eassumption].
    - apply (step_frame_listed t s e n m H1 Hn). exact Hl.
  Qed.

  (** ** runs *)
  Definition Rok (t : option name) (s0 : store) (r : run) : Prop := rs r = apply_list s0 (rt r) /\ ok_trace t s0 (rt r).

  Lemma Rok_init t s : Rok t s (init s).
  Proof. split; [reflexivity | exact I]. Qed.

  Lemma Rok_emit t s0 r e : Rok t s0 r -> step_ok t (rs r) e -> Rok t s0 (emit r e).
  Proof.
    intros [H1 H2] Hs. split; cbn [emit rs rt].
    - rewrite apply_list_snoc, H1. reflexivity.
    - apply ok_trace_app. split; [exact H2|]. cbn [ok_trace]. rewrite <- H1. auto.
  Qed.

  Lemma Rok_inv t s0 r : Inv s0 -> Rok t s0 r -> Inv (rs r).
  Proof. intros HI [H1 H2]. rewrite H1. eapply ok_trace_inv; eassumption. Qed.

  Lemma Rok_mans t s0 r n : Rok t s0 r -> t <> Some n -> mget n (rs r) = mget n s0.
  Proof. intros [H1 H2] Hn. rewrite H1. eapply ok_trace_mans; eassumption. Qed.

  Lemma Rok_listed t s0 r n m : Rok t s0 r -> t <> Some n -> (listed (rs r) n m <-> listed s0 n m).
  Proof. intros [H1 H2] Hn. rewrite H1. eapply ok_trace_listed; eassumption. Qed.
End Inv.
