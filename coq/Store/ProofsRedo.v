(** * Store/ProofsRedo.v — repeating an interrupted operation after the restart *)
From Coq Require Import List NArith Bool Arith Lia.
From V Require Import Common.Bytes Store.Fs Store.Ops Store.ProofsAlist Store.ProofsNames Store.ProofsInv Store.ProofsOps Store.ProofsTop Store.ProofsMore.
Import ListNotations.
Open Scope N_scope.

Arguments new_layer : simpl never.
Arguments layer_remove : simpl never.
Arguments layer_from_layer : simpl never.
Arguments set_layer : simpl never.
Arguments download : simpl never.
Arguments write_manifest : simpl never.
Arguments create_template : simpl never.
Arguments create_tail : simpl never.

Definition is_some {A} (o : option A) : bool := match o with Some _ => true | None => false end.

(** operations whose repetition is claimed to give the uninterrupted result: delete, copy, create FROM another
    model, pull from a registry that serves every layer *)
Definition redo_ok (s : store) (o : op) : bool :=
  match o with
  | ODelete _ | OCopy _ _ => true
  | OCreate q => match cr_base q with
                 | BFrom src => negb (name_eqb src (get_existing (readable_names s) (cr_name q)))
                 | BFiles _ _ _ _ => false
                 end
  | OPull _ (Some v) _ => (length (sv_contents v) =? length (all_layers (sv_manifest v)))%nat && forallb is_some (sv_contents v)
  | OPull _ None _ => true
  | OBlob _ _ | OStartup => false
  end.

(** ** shape of an effect list: blob-only effects, at most one manifest update in the middle *)
Inductive mid_shape : list effect -> Prop :=
| MidNone : mid_shape []
| MidWrite t m : mid_shape [ETruncMan t; EWriteMan t (Readable m)]
| MidRm t : mid_shape [ERmMan t].

Definition shaped (es : list effect) : Prop :=
  exists es1 mid es2, es = es1 ++ mid ++ es2 /\ Forall blob_only es1 /\ Forall blob_only es2 /\ mid_shape mid.

Lemma blob_only_apply_mans es : forall s, Forall blob_only es -> mans (apply_list s es) = mans s.
Proof.
  induction es as [|e es IH]; intros s H; [reflexivity|]. inversion H; subst. rewrite apply_list_cons, IH by assumption. apply blob_only_mans. assumption.
Qed.

Lemma Forall_firstn {A} (P : A -> Prop) k l : Forall P l -> Forall P (firstn k l).
Proof.
  revert k; induction l as [|a l IH]; intros [|k] H; cbn; try constructor.
  - inversion H; assumption.
  - apply IH. inversion H; assumption.
Qed.

Lemma has_unreadable_trunc s t : has_unreadable (apply_effect s (ETruncMan t)) = true.
Proof.
  unfold has_unreadable. cbn [apply_effect mans]. apply existsb_exists. exists (t, Unreadable). split; [|reflexivity].
  apply (In_aset name_eqb name_eqb_spec). left; auto.
Qed.

Lemma has_unreadable_mans s s' : mans s' = mans s -> has_unreadable s' = has_unreadable s.
Proof. unfold has_unreadable. intros ->. reflexivity. Qed.

(** a crash point without a torn manifest has the manifests of the start or of the end *)
Lemma shaped_prefix_mans s es k :
  shaped es -> has_unreadable (apply_list s (firstn k es)) = false ->
  mans (apply_list s (firstn k es)) = mans s \/ mans (apply_list s (firstn k es)) = mans (apply_list s es).
Proof.
  intros [es1 [mid [es2 [-> [H1 [H2 Hm]]]]]] Hu.
  rewrite firstn_app in *. destruct (Nat.le_gt_cases k (length es1)) as [Hk|Hk].
  - left. replace (k - length es1)%nat with 0%nat in * by lia. cbn [firstn] in *. rewrite app_nil_r in *.
    apply blob_only_apply_mans, Forall_firstn, H1.
  - rewrite firstn_all2 in * by lia. set (j := (k - length es1)%nat) in *. assert (Hj : (1 <= j)%nat) by (unfold j; lia).
    rewrite apply_list_app in *. set (sa := apply_list s es1) in *.
    assert (Hsa : mans sa = mans s) by (apply blob_only_apply_mans, H1).
    rewrite (apply_list_app s es1). fold sa.
    destruct Hm as [|t m|t].
    + cbn [app] in *. left. rewrite blob_only_apply_mans by (apply Forall_firstn, H2). exact Hsa.
    + destruct j as [|[|j]]; [lia| |].
      * exfalso. cbn [app firstn] in Hu. rewrite apply_list_cons in Hu. change (apply_list (apply_effect sa (ETruncMan t)) []) with (apply_effect sa (ETruncMan t)) in Hu.
        rewrite has_unreadable_trunc in Hu. discriminate.
      * right. cbn [app firstn]. rewrite !apply_list_cons.
        rewrite blob_only_apply_mans by (apply Forall_firstn, H2). rewrite blob_only_apply_mans by exact H2. reflexivity.
    + destruct j as [|j]; [lia|]. right. cbn [app firstn]. rewrite !apply_list_cons.
      rewrite blob_only_apply_mans by (apply Forall_firstn, H2). rewrite blob_only_apply_mans by exact H2. reflexivity.
Qed.

Lemma Ext_rt r0 r : Ext r0 r -> exists es, Forall blob_only es /\ rt r = rt r0 ++ es.
Proof. intros [es [H ->]]. exists es. split; [exact H | apply emits_rs]. Qed.

Section Redo.
  Variable size_of : N -> N.
  Notation Inv := (Inv size_of).
  Notation exec := (exec size_of).
  Notation crash := (crash size_of).
  Notation recover := (recover size_of).
  Notation op_guard := (op_guard size_of).

  Lemma shaped_write_then r7 t m r9 :
    Ext (init (rs r7)) r7 \/ True -> forall s, Ext (init s) r7 -> Ext (write_manifest r7 t (Readable m)) r9 -> shaped (rt r9).
  Proof.
    intros _ s H7 H9. apply Ext_rt in H7 as [es1 [H1 E1]]. apply Ext_rt in H9 as [es2 [H2 E2]].
    exists es1, [ETruncMan t; EWriteMan t (Readable m)], es2. split; [|split; [exact H1 | split; [exact H2 | constructor]]].
    rewrite E2. unfold write_manifest. cbn [emit rt]. rewrite E1. cbn. rewrite <- !app_assoc. reflexivity.
  Qed.

  Lemma shaped_blob_only s r : Ext (init s) r -> shaped (rt r).
  Proof.
    intros H. apply Ext_rt in H as [es [H E]]. exists es, [], []. cbn in *. rewrite E, app_nil_r. repeat split; try constructor; exact H.
  Qed.

  (** every operation's effect list has the shape, provided no manifest is unreadable at the start *)
  Lemma effects_shaped s o : has_unreadable s = false -> shaped (effects size_of s o).
  Proof.
    intros Hu. unfold effects. destruct o as [d c|q|a b|n|n sv ord|]; cbn [op_run].
    - unfold op_blob. destruct (bget (dhex d) s); [apply (shaped_blob_only s), Ext_refl|].
      assert (H := new_layer_ext size_of (init s) 0 c). destruct (new_layer size_of (init s) 0 c). cbn in *. apply (shaped_blob_only s), H.
    - unfold op_create, op_create_gen. assert (Hb := create_build_ext size_of (layer_from_layer size_of) false s q).
      destruct (create_build size_of (layer_from_layer size_of) false s q) as [r7 [[m clean]|]]; cbn [fst] in *; [|apply (shaped_blob_only s), Hb].
      destruct (mget (get_existing (readable_names s) (cr_name q)) s) as [[mo|]|]; cbn [fst];
        eapply (shaped_write_then r7 _ m _ (or_intror I) s Hb); try apply Ext_refl.
      unfold remove_layers. apply fold_layer_remove_ext.
    - unfold op_copy, op_copy_gen. destruct (name_eqb _ _); [apply (shaped_blob_only s), Ext_refl|].
      destruct (mget (get_existing (readable_names s) a) s) as [[m|]|] eqn:Es; cbn [fst]; try (apply (shaped_blob_only s), Ext_refl).
      + eapply (shaped_write_then (init s) _ m _ (or_intror I) s); apply Ext_refl.
      + exfalso. apply (has_unreadable_false s (get_existing (readable_names s) a) Hu). apply (aget_In name_eqb name_eqb_spec). exact Es.
    - unfold op_delete, op_delete_gen. destruct (mget (get_existing (readable_names s) n) s) as [[m|]|]; cbn [fst]; try (apply (shaped_blob_only s), Ext_refl).
      unfold remove_layers.
      assert (H := fold_layer_remove_ext (all_layers m) (emit (init s) (ERmMan (get_existing (readable_names s) n)))).
      apply Ext_rt in H as [es2 [H2 E2]]. exists [], [ERmMan (get_existing (readable_names s) n)], es2. cbn in *. rewrite E2.
      repeat split; try constructor; exact H2.
    - unfold op_pull, op_pull_gen. destruct sv as [v|]; cbn [fst]; [|apply (shaped_blob_only s), Ext_refl].
      assert (Hd := download_all_ext size_of (all_layers (sv_manifest v)) (sv_contents v) (init s)).
      destruct (download_all size_of (init s) (all_layers (sv_manifest v)) (sv_contents v)) as [r1 [dl|]]; cbn [fst] in *; [|apply (shaped_blob_only s), Hd].
      assert (Hv := verify_all_ext dl r1). destruct (verify_all r1 dl) as [r2 ok]. cbn [fst] in Hv.
      assert (H2 : Ext (init s) r2) by (eapply Ext_trans; eassumption).
      destruct ok; cbn [negb fst]; [|apply (shaped_blob_only s), H2].
      eapply (shaped_write_then r2 _ _ _ (or_intror I) s H2). apply delete_unused_ext.
    - apply (shaped_blob_only s), op_startup_ext.
  Qed.

  (** ** the manifests at a clean crash point, after the restart *)
  Lemma recover_mans s : mans (recover s) = mans s.
  Proof. unfold Ops.recover, Ops.exec, op_run. apply (Ext_mans _ _ (op_startup_ext s)). Qed.

  Lemma clean_crash_mans s o k :
    Inv s -> op_guard s o = true -> has_unreadable s = false -> has_unreadable (crash s o k) = false ->
    mans (recover (crash s o k)) = mans s \/ mans (recover (crash s o k)) = mans (exec s o).
  Proof.
    intros HI Hg Hu Hc. rewrite recover_mans. rewrite (exec_effects size_of s o HI Hg). unfold Ops.crash in *.
    apply shaped_prefix_mans; [apply effects_shaped, Hu | exact Hc].
  Qed.

  (** ** decisions that only depend on the manifests *)
  Lemma readable_names_mans s s' : mans s' = mans s -> readable_names s' = readable_names s.
  Proof. unfold readable_names. intros ->. reflexivity. Qed.

  Lemma mget_mans s s' n : mans s' = mans s -> mget n s' = mget n s.
  Proof. unfold mget. intros ->. reflexivity. Qed.

  (** a stored name is found as it is, whatever the letter case of the request *)
  Lemma ge_stable s x mx n : Inv s -> listed s x mx -> name_eqfold x n = true -> get_existing (readable_names s) n = x.
  Proof.
    intros HI Hl Hf. assert (Hin : In x (readable_names s)) by (apply readable_names_spec; eauto).
    assert (Hg := get_existing_stored (readable_names s) n x Hin Hf). apply readable_names_spec in Hg as [mg Hg].
    apply (inv_case size_of s HI _ _ mg mx Hg Hl). eapply name_eqfold_trans; [apply get_existing_eqfold | apply name_eqfold_sym, Hf].
  Qed.

  (** the manifests after a completed operation *)
  Lemma Ext_write_mans r7 t ms r9 :
    Ext (write_manifest r7 t ms) r9 -> mans (rs r9) = aset name_eqb t ms (aset name_eqb t Unreadable (mans (rs r7))).
  Proof. intros H. rewrite (Ext_mans _ _ H). reflexivity. Qed.

  Lemma mget_write t ms mns n :
    aget name_eqb n (aset name_eqb t ms (aset name_eqb t Unreadable mns)) = if name_eqb n t then Some ms else aget name_eqb n mns.
  Proof.
    destruct (name_eqb n t) eqn:E.
    - apply name_eqb_spec in E. subst n. apply mget_aset_same.
    - assert (n <> t) by (intros ->; rewrite name_eqb_refl in E; discriminate). rewrite !mget_aset_other by assumption. reflexivity.
  Qed.

  (** ** create: the manifest built is a function of the request and the base layers *)
  Definition nl (mt c : N) : layer := MkLayer mt (MkDigest true c) (size_of c).

  Lemma new_layer_snd r mt c : snd (new_layer size_of r mt c) = nl mt c.
  Proof. unfold new_layer. destruct (bget c (rs (emit r (EAddDebris DTemp)))); reflexivity. Qed.

  Definition pure_set (layers : list layer) (mt : N) (oc : option N) : list layer :=
    match oc with None => layers | Some c => filter (fun l => negb (lmt l =? mt)) layers ++ [nl mt c] end.

  Lemma set_layer_snd r layers mt oc : snd (set_layer size_of r layers mt oc) = pure_set layers mt oc.
  Proof.
    unfold set_layer, pure_set. destruct oc as [c|]; [|reflexivity].
    assert (H := remove_layer_mt_list layers mt r). destruct (remove_layer_mt r layers mt) as [r1 ls]. cbn in H. subst ls.
    assert (H2 := new_layer_snd r1 mt c). destruct (new_layer size_of r1 mt c). cbn in *. subst. reflexivity.
  Qed.

  Lemma add_layers_snd mt cs : forall r layers, snd (add_layers size_of r layers mt cs) = layers ++ map (nl mt) cs.
  Proof.
    induction cs as [|c cs IH]; intros r layers; cbn; [rewrite app_nil_r; reflexivity|].
    assert (H := new_layer_snd r mt c). destruct (new_layer size_of r mt c) as [r1 l]. cbn in H. subst l. rewrite IH, <- app_assoc. reflexivity.
  Qed.

  Definition pure_template (layers : list layer) (q : create_req) : list layer * bool :=
    match cr_template q with
    | None => (layers, true)
    | Some (valid, c) =>
        if valid then (filter (fun l => negb (lmt l =? MT_TEMPLATE)) layers ++ [nl MT_TEMPLATE c], true)
        else (filter (fun l => negb (lmt l =? MT_TEMPLATE)) layers, false)
    end.

  Lemma create_template_snd r layers q :
    (snd (fst (create_template size_of r layers q)), snd (create_template size_of r layers q)) = pure_template layers q.
  Proof.
    unfold create_template, pure_template. destruct (cr_template q) as [[valid c]|]; [|reflexivity].
    assert (H := remove_layer_mt_list layers MT_TEMPLATE r). destruct (remove_layer_mt r layers MT_TEMPLATE) as [ra ls]. cbn in H. subst ls.
    destruct valid; [|reflexivity]. assert (H2 := new_layer_snd ra MT_TEMPLATE c). destruct (new_layer size_of ra MT_TEMPLATE c). cbn in *. subst. reflexivity.
  Qed.

  Definition pure_tail (layers : list layer) (q : create_req) : manifest :=
    MkManifest (nl MT_CONFIG (cr_config q))
      (pure_set (pure_set (pure_set layers MT_SYSTEM (cr_system q) ++ map (nl MT_LICENSE) (cr_license q)) MT_PARAMS (cr_params q)) MT_MESSAGES (cr_messages q)).

  Lemma create_tail_snd r layers q : snd (create_tail size_of r layers q) = pure_tail layers q.
  Proof.
    unfold create_tail, pure_tail.
    assert (H3 := set_layer_snd r layers MT_SYSTEM (cr_system q)). destruct (set_layer size_of r layers MT_SYSTEM (cr_system q)) as [r3 l3]. cbn in H3. subst l3.
    assert (H4 := add_layers_snd MT_LICENSE (cr_license q) r3 (pure_set layers MT_SYSTEM (cr_system q))).
    destruct (add_layers size_of r3 _ MT_LICENSE (cr_license q)) as [r4 l4]. cbn in H4. subst l4.
    assert (H5 := set_layer_snd r4 (pure_set layers MT_SYSTEM (cr_system q) ++ map (nl MT_LICENSE) (cr_license q)) MT_PARAMS (cr_params q)).
    destruct (set_layer size_of r4 _ MT_PARAMS (cr_params q)) as [r5 l5]. cbn in H5. subst l5.
    assert (H6 := set_layer_snd r5 (pure_set (pure_set layers MT_SYSTEM (cr_system q) ++ map (nl MT_LICENSE) (cr_license q)) MT_PARAMS (cr_params q)) MT_MESSAGES (cr_messages q)).
    destruct (set_layer size_of r5 _ MT_MESSAGES (cr_messages q)) as [r6 l6]. cbn in H6. subst l6.
    assert (H7 := new_layer_snd r6 MT_CONFIG (cr_config q)). destruct (new_layer size_of r6 MT_CONFIG (cr_config q)) as [r7 cfg]. cbn in *. subst cfg. reflexivity.
  Qed.

  (** the result of create_build (not the run) for a create FROM a model *)
  Definition pure_build (ob : option (list layer)) (q : create_req) : option (manifest * bool) :=
    match ob with
    | None => None
    | Some layers => let (l2, okt) := pure_template layers q in if okt then Some (pure_tail l2 q, true) else None
    end.

  Lemma create_build_from_snd s q src :
    cr_base q = BFrom src ->
    snd (create_build size_of (layer_from_layer size_of) false s q) =
    pure_build (snd (base_layers size_of (layer_from_layer size_of) (init s) (BFrom src))) q.
  Proof.
    intros Hb. unfold create_build. rewrite Hb.
    destruct (base_layers size_of (layer_from_layer size_of) (init s) (BFrom src)) as [rb [layers|]]; cbn [snd pure_build]; [|reflexivity].
    assert (Ht := create_template_snd rb layers q). destruct (create_template size_of rb layers q) as [[r2 l2] okt]. cbn [fst snd] in Ht.
    rewrite <- Ht. destruct okt; cbn [negb]; [|reflexivity].
    assert (H7 := create_tail_snd r2 l2 q). destruct (create_tail size_of r2 l2 q) as [r7 m]. cbn in *. subst m. reflexivity.
  Qed.

  (** the base layers of a create FROM a model only depend on the source manifest, on a store that satisfies the invariant *)
  Lemma from_layers_pure s ls :
    (forall l, In l ls -> bget (dhex (ldg l)) s = Some (dhex (ldg l))) ->
    from_layers (layer_from_layer size_of) s ls = Some (map (fun l => MkLayer (lmt l) (canon (ldg l)) (size_of (dhex (ldg l)))) ls).
  Proof.
    induction ls as [|l ls IH]; intros H; cbn; [reflexivity|].
    unfold layer_from_layer at 1. rewrite (H l (or_introl eq_refl)). rewrite IH by (intros x Hx; apply H; right; exact Hx). reflexivity.
  Qed.

  Lemma base_from_pure s src :
    Inv s ->
    snd (base_layers size_of (layer_from_layer size_of) (init s) (BFrom src)) =
    match mget src s with
    | Some (Readable m) => Some (map (fun l => MkLayer (lmt l) (canon (ldg l)) (size_of (dhex (ldg l)))) (mlayers m))
    | _ => None
    end.
  Proof.
    intros HI. cbn. destruct (mget src s) as [[m|]|] eqn:Es; try reflexivity. cbn.
    apply from_layers_pure. intros l Hl.
    assert (H := inv_mans size_of s HI src m (mget_listed _ _ _ Es)). unfold ProofsInv.man_ok in H. rewrite Forall_forall in H.
    apply (H l). unfold all_layers. apply in_or_app. left. exact Hl.
  Qed.

  (** ** the theorem *)
  Definition same_mans (a b : store) : Prop := forall n, mget n a = mget n b.

  Lemma exec_create_mans s q :
    mans (exec s (OCreate q)) =
    match snd (create_build size_of (layer_from_layer size_of) false s q) with
    | Some (m, _) => aset name_eqb (get_existing (readable_names s) (cr_name q)) (Readable m)
                       (aset name_eqb (get_existing (readable_names s) (cr_name q)) Unreadable (mans s))
    | None => mans s
    end.
  Proof.
    unfold Ops.exec, op_run, op_create, op_create_gen.
    assert (Hb := create_build_ext size_of (layer_from_layer size_of) false s q).
    destruct (create_build size_of (layer_from_layer size_of) false s q) as [r7 [[m clean]|]]; cbn [fst snd] in *.
    - assert (H7 : mans (rs r7) = mans s) by (apply (Ext_mans _ _ Hb)).
      destruct (mget (get_existing (readable_names s) (cr_name q)) s) as [[mo|]|]; cbn [fst]; unfold remove_layers;
        [rewrite (Ext_write_mans r7 _ _ _ (fold_layer_remove_ext _ _)) | rewrite (Ext_write_mans r7 _ _ _ (Ext_refl _)) | rewrite (Ext_write_mans r7 _ _ _ (Ext_refl _))];
        rewrite H7; reflexivity.
    - apply (Ext_mans _ _ Hb).
  Qed.

  Lemma create_result s q :
    snd (op_run size_of s (OCreate q)) =
    match snd (create_build size_of (layer_from_layer size_of) false s q) with
    | Some (_, clean) => if clean then ROk else RErr
    | None => RErr
    end.
  Proof.
    cbn [op_run]. unfold op_create, op_create_gen.
    destruct (create_build size_of (layer_from_layer size_of) false s q) as [r7 [[m clean]|]]; reflexivity.
  Qed.

  Lemma redo_create s q k :
    Inv s -> op_guard s (OCreate q) = true -> redo_ok s (OCreate q) = true ->
    has_unreadable s = false -> has_unreadable (crash s (OCreate q) k) = false ->
    let s1 := recover (crash s (OCreate q) k) in
    same_mans (exec s1 (OCreate q)) (exec s (OCreate q)) /\ op_guard s1 (OCreate q) = true /\
    snd (op_run size_of s1 (OCreate q)) = snd (op_run size_of s (OCreate q)).
  Proof.
    intros HI Hg Hr Hu Hc s1. cbn [redo_ok] in Hr. destruct (cr_base q) as [d p f dt|src] eqn:Eb; [discriminate|].
    apply negb_true_iff in Hr. set (tgt := get_existing (readable_names s) (cr_name q)) in *.
    assert (Hsrc : src <> tgt) by (intros ->; rewrite name_eqb_refl in Hr; discriminate).
    assert (HI1 : Inv s1) by (apply recover_inv, crash_inv; assumption).
    assert (Hg1 : op_guard s1 (OCreate q) = true) by (cbn; eapply (create_check_from size_of); [exact HI1 | exact Eb]).
    (* the source manifest is the same in both stores *)
    assert (Hframe : forall n, n <> tgt -> mget n s1 = mget n s).
    { intros n Hn. destruct (prefix_frame size_of s (OCreate q) k n HI Hg) as [P1 _]; [cbn; fold tgt; congruence|].
      destruct (recover_frame size_of (crash s (OCreate q) k) n (crash_inv size_of s _ k HI Hg)) as [R1 _]. unfold s1. congruence. }
    assert (Hbuild : snd (create_build size_of (layer_from_layer size_of) false s1 q) = snd (create_build size_of (layer_from_layer size_of) false s q)).
    { rewrite !(create_build_from_snd _ q src Eb), !base_from_pure by assumption. rewrite (Hframe src Hsrc). reflexivity. }
    split; [|split; [exact Hg1 | rewrite !create_result, Hbuild; reflexivity]].
    intros n. unfold mget. rewrite !exec_create_mans, Hbuild.
    destruct (snd (create_build size_of (layer_from_layer size_of) false s q)) as [[m clean]|] eqn:Ecb.
    - (* the create succeeds: where does the repeated one write? *)
      assert (Htgt : get_existing (readable_names s1) (cr_name q) = tgt).
      { destruct (clean_crash_mans s (OCreate q) k HI Hg Hu Hc) as [Hm|Hm]; fold s1 in Hm.
        - unfold tgt. rewrite (readable_names_mans s s1 Hm). reflexivity.
        - apply (ge_stable s1 tgt m _ HI1); [|apply get_existing_eqfold].
          unfold listed. rewrite Hm, exec_create_mans, Ecb. fold tgt. apply (In_aset name_eqb name_eqb_spec). left; auto. }
      rewrite Htgt. fold tgt. rewrite !mget_write. destruct (name_eqb n tgt) eqn:En; [reflexivity|].
      apply Hframe. intros ->. rewrite name_eqb_refl in En. discriminate.
    - (* it fails before any manifest effect: the crash store has the manifests of s *)
      destruct (clean_crash_mans s (OCreate q) k HI Hg Hu Hc) as [Hm|Hm]; fold s1 in Hm; rewrite Hm; [reflexivity|].
      rewrite exec_create_mans, Ecb. reflexivity.
  Qed.

  Lemma exec_delete_mans s n :
    mans (exec s (ODelete n)) =
    match mget (get_existing (readable_names s) n) s with
    | Some (Readable _) => adel name_eqb (get_existing (readable_names s) n) (mans s)
    | _ => mans s
    end.
  Proof.
    unfold Ops.exec, op_run, op_delete, op_delete_gen.
    destruct (mget (get_existing (readable_names s) n) s) as [[m|]|]; cbn [fst]; try reflexivity.
    unfold remove_layers. rewrite (Ext_mans _ _ (fold_layer_remove_ext _ _)). reflexivity.
  Qed.

  Lemma redo_delete s n k :
    Inv s -> has_unreadable s = false -> has_unreadable (crash s (ODelete n) k) = false ->
    let s1 := recover (crash s (ODelete n) k) in
    same_mans (exec s1 (ODelete n)) (exec s (ODelete n)) /\
    (snd (op_run size_of s1 (ODelete n)) = snd (op_run size_of s (ODelete n)) \/
     snd (op_run size_of s1 (ODelete n)) = RNotFound /\ snd (op_run size_of s (ODelete n)) = ROk).
  Proof.
    intros HI Hu Hc s1. set (tgt := get_existing (readable_names s) n).
    assert (HI1 : Inv s1) by (apply recover_inv, crash_inv; [exact HI | reflexivity]).
    destruct (clean_crash_mans s (ODelete n) k HI eq_refl Hu Hc) as [Hm|Hm]; fold s1 in Hm.
    - split.
      + intros x. unfold mget. rewrite !exec_delete_mans. rewrite (readable_names_mans s s1 Hm), (mget_mans s s1 _ Hm), Hm. reflexivity.
      + left. cbn [op_run]. unfold op_delete, op_delete_gen. rewrite (readable_names_mans s s1 Hm), (mget_mans s s1 _ Hm).
        destruct (mget (get_existing (readable_names s) n) s) as [[m|]|]; reflexivity.
    - rewrite exec_delete_mans in Hm. fold tgt in Hm.
      destruct (mget tgt s) as [[m|]|] eqn:Et.
      + (* the delete had removed the manifest: the repeated one finds nothing *)
        assert (Hnone : mget (get_existing (readable_names s1) n) s1 = None).
        { destruct (mget (get_existing (readable_names s1) n) s1) as [ms|] eqn:E1; [|reflexivity]. exfalso.
          set (t1 := get_existing (readable_names s1) n) in *.
          assert (Hin1 : In (t1, ms) (mans s1)) by (apply (aget_In name_eqb name_eqb_spec); exact E1).
          rewrite Hm in Hin1. apply (In_adel name_eqb name_eqb_spec) in Hin1 as [Hin Hne].
          destruct ms as [m1|]; [|exact (has_unreadable_false s t1 Hu Hin)].
          apply Hne. apply (inv_case size_of s HI t1 tgt m1 m Hin (mget_listed _ _ _ Et)).
          eapply name_eqfold_trans; [apply get_existing_eqfold | apply name_eqfold_sym, get_existing_eqfold]. }
        split.
        * intros x. unfold mget. rewrite !exec_delete_mans. fold tgt. rewrite Hnone, Et. rewrite Hm. reflexivity.
        * right. cbn [op_run]. unfold op_delete, op_delete_gen. fold tgt. rewrite Hnone, Et. auto.
      + split.
        * intros x. unfold mget. rewrite !exec_delete_mans. rewrite (readable_names_mans s s1 Hm), (mget_mans s s1 _ Hm), Hm. reflexivity.
        * left. cbn [op_run]. unfold op_delete, op_delete_gen. rewrite (readable_names_mans s s1 Hm), (mget_mans s s1 _ Hm). fold tgt. rewrite Et. reflexivity.
      + split.
        * intros x. unfold mget. rewrite !exec_delete_mans. rewrite (readable_names_mans s s1 Hm), (mget_mans s s1 _ Hm), Hm. reflexivity.
        * left. cbn [op_run]. unfold op_delete, op_delete_gen. rewrite (readable_names_mans s s1 Hm), (mget_mans s s1 _ Hm). fold tgt. rewrite Et. reflexivity.
  Qed.

  Lemma exec_copy_mans s a b :
    mans (exec s (OCopy a b)) =
    if name_eqb (get_existing (readable_names s) a) (get_existing (readable_names s) b) then mans s
    else match mget (get_existing (readable_names s) a) s with
         | Some ms => aset name_eqb (get_existing (readable_names s) b) ms (aset name_eqb (get_existing (readable_names s) b) Unreadable (mans s))
         | None => mans s
         end.
  Proof.
    unfold Ops.exec, op_run, op_copy, op_copy_gen. destruct (name_eqb _ _); [reflexivity|].
    destruct (mget (get_existing (readable_names s) a) s); reflexivity.
  Qed.

  Lemma redo_copy s a b k :
    Inv s -> has_unreadable s = false -> has_unreadable (crash s (OCopy a b) k) = false ->
    let s1 := recover (crash s (OCopy a b) k) in
    same_mans (exec s1 (OCopy a b)) (exec s (OCopy a b)) /\ snd (op_run size_of s1 (OCopy a b)) = snd (op_run size_of s (OCopy a b)).
  Proof.
    intros HI Hu Hc s1. set (sa := get_existing (readable_names s) a). set (sb := get_existing (readable_names s) b).
    assert (HI1 : Inv s1) by (apply recover_inv, crash_inv; [exact HI | reflexivity]).
    destruct (clean_crash_mans s (OCopy a b) k HI eq_refl Hu Hc) as [Hm|Hm]; fold s1 in Hm.
    - split.
      + intros x. unfold mget. rewrite !exec_copy_mans. rewrite (readable_names_mans s s1 Hm), (mget_mans s s1 _ Hm), Hm. reflexivity.
      + cbn [op_run]. unfold op_copy, op_copy_gen. rewrite (readable_names_mans s s1 Hm), (mget_mans s s1 _ Hm).
        destruct (name_eqb _ _); [reflexivity|]. destruct (mget _ s); reflexivity.
    - rewrite exec_copy_mans in Hm. fold sa sb in Hm.
      destruct (name_eqb sa sb) eqn:Eab.
      { split.
        - intros x. unfold mget. rewrite !exec_copy_mans. rewrite (readable_names_mans s s1 Hm), (mget_mans s s1 _ Hm), Hm. reflexivity.
        - cbn [op_run]. unfold op_copy, op_copy_gen. rewrite (readable_names_mans s s1 Hm), (mget_mans s s1 _ Hm). fold sa sb. rewrite Eab. reflexivity. }
      destruct (mget sa s) as [ms|] eqn:Ea.
      2:{ split.
          - intros x. unfold mget. rewrite !exec_copy_mans. rewrite (readable_names_mans s s1 Hm), (mget_mans s s1 _ Hm), Hm. reflexivity.
          - cbn [op_run]. unfold op_copy, op_copy_gen. rewrite (readable_names_mans s s1 Hm), (mget_mans s s1 _ Hm). fold sa sb. rewrite Eab, Ea. reflexivity. }
      (* the copy had been done *)
      assert (Hne : sa <> sb) by (intros E; rewrite E, name_eqb_refl in Eab; discriminate).
      destruct ms as [m|]; [|exfalso; apply (has_unreadable_false s sa Hu); apply (aget_In name_eqb name_eqb_spec); exact Ea].
      assert (Hsa1 : mget sa s1 = Some (Readable m)).
      { unfold mget. rewrite Hm, mget_write. destruct (name_eqb sa sb); [discriminate | exact Ea]. }
      assert (Hsb1 : mget sb s1 = Some (Readable m)).
      { unfold mget. rewrite Hm, mget_write, name_eqb_refl. reflexivity. }
      assert (Ega : get_existing (readable_names s1) a = sa) by (apply (ge_stable s1 sa m a HI1 (mget_listed _ _ _ Hsa1)), get_existing_eqfold).
      assert (Egb : get_existing (readable_names s1) b = sb) by (apply (ge_stable s1 sb m b HI1 (mget_listed _ _ _ Hsb1)), get_existing_eqfold).
      split.
      + intros x. unfold mget. rewrite !exec_copy_mans. fold sa sb. rewrite Ega, Egb, Eab, Hsa1, Ea. rewrite !mget_write.
        destruct (name_eqb x sb) eqn:Ex; [reflexivity|]. rewrite Hm, mget_write, Ex. reflexivity.
      + cbn [op_run]. unfold op_copy, op_copy_gen. fold sa sb. rewrite Ega, Egb, Eab, Hsa1, Ea. reflexivity.
  Qed.

  (** pull: every layer can be downloaded again *)
  Lemma download_total r l c : dcolon (ldg l) = true -> c = dhex (ldg l) -> exists hit, snd (download size_of r l (Some c)) = Some hit.
  Proof.
    intros Hc ->. unfold download, download_gen. set (h := dhex (ldg l)). destruct (bget h (rs r)); [eexists; reflexivity|].
    rewrite Hc, N.eqb_refl. cbn [andb].
    destruct (partrec_state h 0 (debris (rs r))) as [[| |]|]; cbn [negb orb];
      try destruct (existsb (dfile_eqb (DPartial h)) (debris (rs r))); try (eexists; reflexivity);
      destruct (size_of h =? 0); eexists; reflexivity.
  Qed.

  Lemma download_all_total ls : forall cs r,
    (length cs = length ls) -> forallb is_some cs = true -> contents_ok ls cs = true -> Forall (fun l => dcolon (ldg l) = true) ls ->
    exists dl, snd (download_all size_of r ls cs) = Some dl.
  Proof.
    induction ls as [|l ls IH]; intros cs r Hl Hs Hok Hcan; cbn [download_all]; [eexists; reflexivity|].
    destruct cs as [|[c|] cs]; cbn in Hl, Hs; try discriminate. cbn [hd tl]. cbn [contents_ok hd tl] in Hok.
    apply andb_true_iff in Hok as [Hc Hok]. apply N.eqb_eq in Hc. inversion Hcan as [|x y Hcl Hcls]; subst x y.
    destruct (download_total r l c Hcl Hc) as [hit Hd]. destruct (download size_of r l (Some c)) as [r1 oh]. cbn in Hd. subst oh.
    destruct (IH cs r1 ltac:(lia) Hs Hok Hcls) as [dl Hdl]. destruct (download_all size_of r1 ls cs) as [r2 rest]. cbn in *. subst rest.
    eexists; reflexivity.
  Qed.

  Lemma exec_pull_mans s n v ord :
    Inv s -> served_ok size_of v = true ->
    (length (sv_contents v) = length (all_layers (sv_manifest v))) -> forallb is_some (sv_contents v) = true ->
    mans (exec s (OPull n (Some v) ord)) =
      aset name_eqb (get_existing (readable_names s) n) (Readable (sv_manifest v))
        (aset name_eqb (get_existing (readable_names s) n) Unreadable (mans s)) /\
    snd (op_run size_of s (OPull n (Some v) ord)) = ROk.
  Proof.
    intros HI Hok Hl Hs. unfold Ops.exec. cbn [op_run]. unfold op_pull, op_pull_gen.
    set (g := get_existing (readable_names s) n).
    unfold served_ok in Hok. apply andb_true_iff in Hok as [Hg1 Hg2]. rewrite forallb_forall in Hg1.
    destruct (download_all_ok size_of (Some g) s (all_layers (sv_manifest v)) (init s) (sv_contents v) HI (Rok_init size_of _ s) Hg2) as [Ha [Hb _]].
    assert (Hext := download_all_ext size_of (all_layers (sv_manifest v)) (sv_contents v) (init s)).
    assert (Hcan : Forall (fun l => dcolon (ldg l) = true) (all_layers (sv_manifest v))).
    { apply Forall_forall. intros l Hin. specialize (Hg1 l Hin). apply andb_true_iff in Hg1 as [Hg1 _]. exact Hg1. }
    destruct (download_all_total (all_layers (sv_manifest v)) (sv_contents v) (init s) Hl Hs Hg2 Hcan) as [dl Hdl].
    destruct (download_all size_of (init s) (all_layers (sv_manifest v)) (sv_contents v)) as [r1 odl]. cbn [fst snd] in *. subst odl.
    destruct (Hb dl eq_refl) as [Hp Hm].
    assert (Hv : verify_all r1 dl = (r1, true)).
    { apply (verify_all_noop size_of s (Some g)); [exact HI | exact Ha|]. rewrite Forall_forall in *. intros [l hit] Hin.
      assert (Hin' : In l (all_layers (sv_manifest v))) by (rewrite <- Hm; apply in_map_iff; exists (l, hit); auto).
      cbn. split; [|apply Hp, Hin']. specialize (Hg1 l Hin'). apply andb_true_iff in Hg1 as [Hg1 _]. exact Hg1. }
    rewrite Hv. cbn [negb fst snd]. split; [|reflexivity].
    rewrite (Ext_write_mans r1 _ _ _ (delete_unused_ext _ _)). rewrite (Ext_mans _ _ Hext). reflexivity.
  Qed.

  Lemma redo_pull s n v ord k :
    Inv s -> op_guard s (OPull n (Some v) ord) = true -> redo_ok s (OPull n (Some v) ord) = true ->
    has_unreadable s = false -> has_unreadable (crash s (OPull n (Some v) ord) k) = false ->
    let s1 := recover (crash s (OPull n (Some v) ord) k) in
    same_mans (exec s1 (OPull n (Some v) ord)) (exec s (OPull n (Some v) ord)) /\
    snd (op_run size_of s1 (OPull n (Some v) ord)) = snd (op_run size_of s (OPull n (Some v) ord)).
  Proof.
    intros HI Hg Hr Hu Hc s1. assert (Hsv : served_ok size_of v = true) by exact Hg.
    cbn [redo_ok] in Hr. apply andb_true_iff in Hr as [Hl Hs]. apply Nat.eqb_eq in Hl.
    assert (HI1 : Inv s1) by (apply recover_inv, crash_inv; assumption).
    destruct (exec_pull_mans s n v ord HI Hsv Hl Hs) as [E0 R0]. destruct (exec_pull_mans s1 n v ord HI1 Hsv Hl Hs) as [E1 R1].
    split; [|congruence]. set (tgt := get_existing (readable_names s) n) in *.
    assert (Hframe : forall x, x <> tgt -> mget x s1 = mget x s).
    { intros x Hx. destruct (prefix_frame size_of s (OPull n (Some v) ord) k x HI Hg) as [P1 _]; [cbn; fold tgt; congruence|].
      destruct (recover_frame size_of (crash s (OPull n (Some v) ord) k) x (crash_inv size_of s _ k HI Hg)) as [Q1 _]. unfold s1. congruence. }
    assert (Htgt : get_existing (readable_names s1) n = tgt).
    { destruct (clean_crash_mans s (OPull n (Some v) ord) k HI Hg Hu Hc) as [Hm|Hm]; fold s1 in Hm.
      - unfold tgt. rewrite (readable_names_mans s s1 Hm). reflexivity.
      - apply (ge_stable s1 tgt (sv_manifest v) _ HI1); [|apply get_existing_eqfold].
        unfold listed. rewrite Hm, E0. apply (In_aset name_eqb name_eqb_spec). left; auto. }
    intros x. unfold mget. rewrite E1, E0, Htgt, !mget_write. destruct (name_eqb x tgt) eqn:Ex; [reflexivity|].
    apply Hframe. intros ->. rewrite name_eqb_refl in Ex. discriminate.
  Qed.

  Theorem redo_partial s o k :
    Inv s -> op_guard s o = true -> redo_ok s o = true ->
    has_unreadable s = false -> has_unreadable (crash s o k) = false ->
    let s1 := recover (crash s o k) in
    (forall n, mget n (exec s1 o) = mget n (exec s o)) /\
    Inv (exec s1 o) /\ Inv (exec s o) /\
    (snd (op_run size_of s1 o) = snd (op_run size_of s o) \/
     (exists n, o = ODelete n) /\ snd (op_run size_of s1 o) = RNotFound /\ snd (op_run size_of s o) = ROk).
  Proof.
    intros HI Hg Hr Hu Hc s1.
    assert (HI1 : Inv s1) by (apply recover_inv, crash_inv; assumption).
    assert (HIe : Inv (exec s o)) by (apply exec_inv; assumption).
    destruct o as [d c|q|a b|n|n [v|] ord|]; try discriminate.
    - destruct (redo_create s q k HI Hg Hr Hu Hc) as [H1 [H2 H3]]. fold s1 in H1, H2, H3.
      split; [exact H1|]. split; [apply exec_inv; assumption|]. split; [exact HIe | left; exact H3].
    - destruct (redo_copy s a b k HI Hu Hc) as [H1 H3]. fold s1 in H1, H3.
      split; [exact H1|]. split; [apply exec_inv; [exact HI1 | reflexivity]|]. split; [exact HIe | left; exact H3].
    - destruct (redo_delete s n k HI Hu Hc) as [H1 H3]. fold s1 in H1, H3.
      split; [exact H1|]. split; [apply exec_inv; [exact HI1 | reflexivity]|]. split; [exact HIe|].
      destruct H3 as [H3|[H3 H4]]; [left; exact H3 | right; split; [eexists; reflexivity | auto]].
    - destruct (redo_pull s n v ord k HI Hg Hr Hu Hc) as [H1 H3]. fold s1 in H1, H3.
      split; [exact H1|]. split; [apply exec_inv; [exact HI1 | exact Hg]|]. split; [exact HIe | left; exact H3].
    - (* no manifest served: nothing happens, twice *)
      split; [|split; [apply exec_inv; [exact HI1 | reflexivity] | split; [exact HIe | left; reflexivity]]].
      intros x. unfold Ops.exec. cbn. unfold s1, Ops.crash, effects. cbn. rewrite firstn_nil. cbn.
      destruct (recover_frame size_of s x HI) as [R1 _]. exact R1.
  Qed.
End Redo.
