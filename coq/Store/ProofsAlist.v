(** * Store/ProofsAlist.v — lemmas on association lists, names and the store primitives *)
From Coq Require Import List NArith Bool Arith Lia Permutation.
From V Require Import Common.Bytes Store.Fs.
Import ListNotations.
Open Scope N_scope.

Section AlistLemmas.
  Context {K V : Type}.
  Variable keqb : K -> K -> bool.
  Hypothesis keqb_spec : forall a b, keqb a b = true <-> a = b.

  Lemma keqb_refl a : keqb a a = true.
  Proof. apply keqb_spec; reflexivity. Qed.

  Lemma keqb_neq a b : a <> b -> keqb a b = false.
  Proof. intros H. destruct (keqb a b) eqn:E; [apply keqb_spec in E; contradiction | reflexivity]. Qed.

  Lemma keqb_dec (a b : K) : {a = b} + {a <> b}.
  Proof.
    destruct (keqb a b) eqn:E; [left; apply keqb_spec; exact E | right; intros ->; rewrite keqb_refl in E; discriminate].
  Qed.

  Lemma aget_adel_same k (m : list (K * V)) : aget keqb k (adel keqb k m) = None.
  Proof.
    induction m as [|[k' v] t IH]; cbn; [reflexivity|].
    destruct (keqb k k') eqn:E; [exact IH|]. cbn. rewrite E. exact IH.
  Qed.

  Lemma aget_adel_other k k' (m : list (K * V)) : k <> k' -> aget keqb k (adel keqb k' m) = aget keqb k m.
  Proof.
    intros Hn. induction m as [|[k2 v] t IH]; cbn; [reflexivity|].
    destruct (keqb k' k2) eqn:E.
    - apply keqb_spec in E; subst k2. rewrite (keqb_neq k k' Hn). exact IH.
    - cbn. destruct (keqb k k2); [reflexivity | exact IH].
  Qed.

  Lemma aget_app k (a b : list (K * V)) :
    aget keqb k (a ++ b) = match aget keqb k a with Some v => Some v | None => aget keqb k b end.
  Proof.
    induction a as [|[k' v] t IH]; cbn; [reflexivity|]. destruct (keqb k k'); [reflexivity | exact IH].
  Qed.

  Lemma aget_aset_same k v (m : list (K * V)) : aget keqb k (aset keqb k v m) = Some v.
  Proof. unfold aset. rewrite aget_app, aget_adel_same. cbn. rewrite keqb_refl. reflexivity. Qed.

  Lemma aget_aset_other k k' v (m : list (K * V)) : k <> k' -> aget keqb k (aset keqb k' v m) = aget keqb k m.
  Proof.
    intros Hn. unfold aset. rewrite aget_app, (aget_adel_other _ _ _ Hn). cbn. rewrite (keqb_neq _ _ Hn).
    destruct (aget keqb k m); reflexivity.
  Qed.

  Lemma aget_In k v (m : list (K * V)) : aget keqb k m = Some v -> In (k, v) m.
  Proof.
    induction m as [|[k' v'] t IH]; cbn; [discriminate|].
    destruct (keqb k k') eqn:E.
    - intros [= ->]. apply keqb_spec in E; subst. left; reflexivity.
    - intros H; right; apply IH, H.
  Qed.

  Lemma In_aget k v (m : list (K * V)) : In (k, v) m -> exists v', aget keqb k m = Some v'.
  Proof.
    induction m as [|[k' v'] t IH]; cbn; [contradiction|].
    intros [[= -> ->]|H].
    - rewrite keqb_refl. eauto.
    - destruct (keqb k k'); [eauto | apply IH, H].
  Qed.

  Lemma aget_none_not_in k (m : list (K * V)) : aget keqb k m = None -> forall v, ~ In (k, v) m.
  Proof. intros H v Hin. apply In_aget in Hin as [v' Hv]. congruence. Qed.

  Lemma In_adel k k' v (m : list (K * V)) : In (k, v) (adel keqb k' m) -> In (k, v) m /\ k <> k'.
  Proof.
    induction m as [|[k2 v2] t IH]; cbn; [contradiction|].
    destruct (keqb k' k2) eqn:E.
    - intros H. apply IH in H as [H1 H2]. split; [right; exact H1 | exact H2].
    - cbn. intros [[= -> ->]|H].
      + split; [left; reflexivity|]. intros ->. rewrite keqb_refl in E. discriminate.
      + apply IH in H as [H1 H2]. split; [right; exact H1 | exact H2].
  Qed.

  Lemma In_adel_intro k k' v (m : list (K * V)) : In (k, v) m -> k <> k' -> In (k, v) (adel keqb k' m).
  Proof.
    intros Hin Hn. induction m as [|[k2 v2] t IH]; cbn in *; [contradiction|].
    destruct Hin as [[= -> ->]|Hin].
    - rewrite (keqb_neq k' k); [left; reflexivity | congruence].
    - destruct (keqb k' k2); [apply IH, Hin | right; apply IH, Hin].
  Qed.

  Lemma In_aset k k' v v' (m : list (K * V)) :
    In (k, v) (aset keqb k' v' m) <-> (k = k' /\ v = v') \/ (k <> k' /\ In (k, v) m).
  Proof.
    unfold aset. rewrite in_app_iff. cbn. split.
    - intros [H|[[= -> ->]|[]]]; [apply In_adel in H as [H1 H2]; right; auto | left; auto].
    - intros [[-> ->]|[Hn Hin]]; [right; left; reflexivity | left; apply In_adel_intro; assumption].
  Qed.

  Lemma aget_Some_in_keys k v (m : list (K * V)) : aget keqb k m = Some v -> In k (akeys m).
  Proof. intros H. apply aget_In in H. unfold akeys. apply in_map_iff. exists (k, v). auto. Qed.

End AlistLemmas.

(** ** Keys: names and numbers *)
Lemma name_eqb_spec a b : name_eqb a b = true <-> a = b.
Proof.
  unfold name_eqb. rewrite !andb_true_iff, !eqb_str_spec. destruct a, b; cbn. split.
  - intros [[[-> ->] ->] ->]. reflexivity.
  - intros [= -> -> -> ->]. auto.
Qed.

Lemma name_eqb_refl a : name_eqb a a = true.
Proof. apply name_eqb_spec; reflexivity. Qed.

Lemma name_eq_dec (a b : name) : {a = b} + {a <> b}.
Proof. exact (keqb_dec name_eqb name_eqb_spec a b). Qed.

Lemma Neqb_spec a b : N.eqb a b = true <-> a = b.
Proof. apply N.eqb_eq. Qed.

(** ** mget / bget after each effect *)
Lemma mget_aset_same {V} n (v : V) s : aget name_eqb n (aset name_eqb n v s) = Some v.
Proof. first [apply (aget_aset_same name_eqb name_eqb_spec) | apply (aget_aset_same name_eqb)]. Qed.
Lemma mget_aset_other {V} n n' (v : V) s : n <> n' -> aget name_eqb n (aset name_eqb n' v s) = aget name_eqb n s.
Proof. intros H. first [apply (aget_aset_other name_eqb name_eqb_spec); exact H | apply (aget_aset_other name_eqb); exact H]. Qed.
Lemma mget_adel_same {V} n (s : list (name * V)) : aget name_eqb n (adel name_eqb n s) = None.
Proof. first [apply (aget_adel_same name_eqb name_eqb_spec) | apply (aget_adel_same name_eqb)]. Qed.
Lemma mget_adel_other {V} n n' (s : list (name * V)) : n <> n' -> aget name_eqb n (adel name_eqb n' s) = aget name_eqb n s.
Proof. intros H. first [apply (aget_adel_other name_eqb name_eqb_spec); exact H | apply (aget_adel_other name_eqb); exact H]. Qed.

Lemma bget_aset_same {V} h (v : V) s : aget N.eqb h (aset N.eqb h v s) = Some v.
Proof. first [apply (aget_aset_same N.eqb Neqb_spec) | apply (aget_aset_same N.eqb)]. Qed.
Lemma bget_aset_other {V} h h' (v : V) s : h <> h' -> aget N.eqb h (aset N.eqb h' v s) = aget N.eqb h s.
Proof. intros H. first [apply (aget_aset_other N.eqb Neqb_spec); exact H | apply (aget_aset_other N.eqb); exact H]. Qed.
Lemma bget_adel_same {V} h (s : list (N * V)) : aget N.eqb h (adel N.eqb h s) = None.
Proof. first [apply (aget_adel_same N.eqb Neqb_spec) | apply (aget_adel_same N.eqb)]. Qed.
Lemma bget_adel_other {V} h h' (s : list (N * V)) : h <> h' -> aget N.eqb h (adel N.eqb h' s) = aget N.eqb h s.
Proof. intros H. first [apply (aget_adel_other N.eqb Neqb_spec); exact H | apply (aget_adel_other N.eqb); exact H]. Qed.

(** ** apply_list *)
Lemma apply_list_app s a b : apply_list s (a ++ b) = apply_list (apply_list s a) b.
Proof. unfold apply_list. apply fold_left_app. Qed.

Lemma apply_list_cons s e t : apply_list s (e :: t) = apply_list (apply_effect s e) t.
Proof. reflexivity. Qed.

Lemma apply_list_snoc s a e : apply_list s (a ++ [e]) = apply_effect (apply_list s a) e.
Proof. rewrite apply_list_app. reflexivity. Qed.
