(** * Properties_C04 — every listed model is complete; operations on one model never damage another.
    Theorems only; the proofs are in Store/Proofs*.v.  The model (Store/Fs.v, Store/Ops.v) describes /repo/server
    with the repairs fixes/C04-*.patch applied; the [*_legacy_refuted] theorems show, on the model of the unrepaired
    code, the defects those patches remove.

    Reading guide.  [op_guards size_of empty_store os]: every operation of the history [os] meets its decidable guard
    in the store it starts in — [create_check] for creates (the create does not delete a blob that a layer of its
    own list in the making uses; see C04_create_check_from), [served_ok] for pulls (honest, self-consistent registry),
    nothing for blob uploads, copies, deletes and start-up prunes.  [size_of] (content -> size) is arbitrary. *)
From Coq Require Import List NArith Bool Permutation.
From V Require Import Common.Bytes Store.Fs Store.Ops Store.ProofsAlist Store.ProofsNames Store.ProofsInv Store.ProofsOps Store.ProofsTop Store.ProofsMore Store.ProofsFix Store.ProofsRedo Store.ProofsRedo2 Store.ProofsShow Store.Corr Store.Pull2.
Import ListNotations.
Open Scope N_scope.

(** After any history of create / copy / pull / delete / blob upload / start-up prune operations from the empty
    store, every manifest that decodes (= every model /api/tags lists) has each of its layers and its config in the
    blob store: digest spelled canonically, blob file present, content hashing to the digest, recorded size right. *)
Theorem C04_listed_complete : forall size_of os,
  op_guards size_of empty_store os ->
  let s := exec_all size_of empty_store os in
  forall n m l, mget n s = Some (Readable m) -> In l (all_layers m) ->
    dcolon (ldg l) = true /\ bget (dhex (ldg l)) s = Some (dhex (ldg l)) /\ lsz l = size_of (dhex (ldg l)).
Proof.
  intros size_of os Hg s n m l. apply inv_listed_complete. apply exec_all_inv; [apply Inv_empty | exact Hg].
Qed.
Print Assumptions C04_listed_complete.

(** An operation only touches the manifest of the (canonicalised) name it is asked to work on — a name equal to the
    requested one up to letter case — and leaves every other manifest, and every blob another readable manifest
    uses, exactly as it was. *)
Theorem C04_frame : forall size_of os o,
  op_guards size_of empty_store os ->
  let s := exec_all size_of empty_store os in
  op_guard size_of s o = true ->
  (forall t nm, op_target s o = Some t -> op_name o = Some nm -> name_eqfold t nm = true) /\
  forall n, op_target s o <> Some n ->
    mget n (exec size_of s o) = mget n s /\
    forall m l, mget n s = Some (Readable m) -> In l (all_layers m) ->
      bget (dhex (ldg l)) (exec size_of s o) = bget (dhex (ldg l)) s.
Proof.
  intros size_of os o Hg s Hgo. assert (HI : Inv size_of s) by (apply exec_all_inv; [apply Inv_empty | exact Hg]).
  split; [intros t nm; apply target_eqfold|].
  intros n Hn. destruct (exec_frame size_of s o n HI Hgo Hn) as [H1 H2]. split; [exact H1|].
  intros m l Hm. apply H2. apply mget_listed, Hm.
Qed.
Print Assumptions C04_frame.

(** In a history of completed operations no manifest is ever unreadable, and start-up pruning leaves exactly the blobs
    some manifest uses (and no debris), and does not touch the manifests. *)
Theorem C04_prune_exact : forall size_of os,
  op_guards size_of empty_store os ->
  let s := exec_all size_of empty_store os in
  has_unreadable s = false /\
  let s' := exec size_of s OStartup in
  debris s' = [] /\ mans s' = mans s /\ forall h, (exists c, bget h s' = Some c) <-> referenced_hex s' h = true.
Proof.
  intros size_of os Hg s. assert (Hu : has_unreadable s = false) by (apply (history_readable size_of), Hg).
  split; [exact Hu|]. apply (startup_exact size_of s); [apply exec_all_inv; [apply Inv_empty | exact Hg] | exact Hu].
Qed.
Print Assumptions C04_prune_exact.

(** No two listed models differ only by letter case. *)
Theorem C04_case_unique : forall size_of os,
  op_guards size_of empty_store os ->
  let s := exec_all size_of empty_store os in
  forall a b ma mb, mget a s = Some (Readable ma) -> mget b s = Some (Readable mb) -> name_eqfold a b = true -> a = b.
Proof.
  intros size_of os Hg s a b ma mb. apply (inv_case_unique size_of). apply exec_all_inv; [apply Inv_empty | exact Hg].
Qed.
Print Assumptions C04_case_unique.

(** getExistingName (repaired): the answer does not depend on the order in which Go's map iteration presents the
    stored names, equals the request up to case, and is a stored name whenever one matches up to case. *)
Theorem C04_get_existing_order_free : forall ex ex' n,
  Permutation ex ex' ->
  get_existing ex n = get_existing ex' n /\ name_eqfold (get_existing ex n) n = true /\
  (forall e, In e ex -> name_eqfold e n = true -> In (get_existing ex n) ex).
Proof.
  intros ex ex' n Hp. split; [apply get_existing_perm, Hp|]. split; [apply get_existing_eqfold|].
  intros e. apply get_existing_stored.
Qed.
Print Assumptions C04_get_existing_order_free.

(** The guard of creates holds for every create FROM a model: none of its removeLayer calls deletes anything. *)
Theorem C04_create_check_from : forall size_of os q src,
  op_guards size_of empty_store os -> cr_base q = BFrom src ->
  create_check size_of (exec_all size_of empty_store os) q = true.
Proof.
  intros size_of os q src Hg Hb. apply (create_check_from size_of _ q src); [apply exec_all_inv; [apply Inv_empty | exact Hg] | exact Hb].
Qed.
Print Assumptions C04_create_check_from.

(** fixBlobs (server/fixblobs.go), first step of the start-up sequence.  A store as an older version left it — blob
    files spelled "sha256:<hex>", old partial downloads, every layer of every readable manifest present under the old or
    the new spelling and intact ([LInv]) — satisfies the invariant of the theorems above after fixBlobs alone and after
    the whole start-up sequence, no file with the old spelling is left, and running fixBlobs again changes nothing.
    Every store the API produces satisfies [LInv], and so does such a store after any of its blob files got the old name. *)
Theorem C04_fixblobs_migrates : forall size_of s,
  LInv size_of s ->
  Inv size_of (rs (fix_blobs (init s))) /\ fixed (rs (fix_blobs (init s))) /\
  Inv size_of (exec size_of s OStartup) /\ fixed (exec size_of s OStartup).
Proof.
  intros size_of s HL. split; [apply fix_blobs_migrates, HL|]. split; [apply fix_blobs_fixed|]. apply startup_migrates, HL.
Qed.
Print Assumptions C04_fixblobs_migrates.

Theorem C04_fixblobs_idempotent : forall s,
  rs (fix_blobs (init (rs (fix_blobs (init s))))) = rs (fix_blobs (init s)) /\
  (fixed s -> fix_blobs (init s) = init s).
Proof. intros s. split; [apply fix_blobs_idempotent | apply fix_blobs_noop]. Qed.
Print Assumptions C04_fixblobs_idempotent.

(** A blob upload whose body ends with a read error (Corr.[blob_aborted]: what the handler does then) leaves the store
    exactly as it was: no byte that was received before the error is part of the store afterwards, so whatever is
    created later is made of its own content only. *)
Theorem C04_aborted_upload_no_trace : forall s d, rs (fst (blob_aborted s d)) = s.
Proof.
  intros [m b db] d. unfold blob_aborted. destruct (bget (dhex d) (MkStore m b db)); [reflexivity|].
  cbn. reflexivity.
Qed.
Print Assumptions C04_aborted_upload_no_trace.

Theorem C04_legacy_stores : forall size_of os hs ps,
  op_guards size_of empty_store os -> LInv size_of (legacy_move (exec_all size_of empty_store os) hs ps).
Proof.
  intros size_of os hs ps Hg. apply legacy_move_LInv, Inv_LInv. apply exec_all_inv; [apply Inv_empty | exact Hg].
Qed.
Print Assumptions C04_legacy_stores.

(** ** Non-vacuity: a history with shared layers, a re-create in place, a case variant, a copy, a delete and a prune *)
Definition ex_sz (c : N) : N := c + 10.
Definition nm (m t : str) : name := MkName s_default_host s_default_ns m t.
Definition ex_a := nm [97] [116].     (* a:t *)
Definition ex_A := nm [65] [116].     (* A:t *)
Definition ex_b := nm [98] [116].     (* b:t *)
Definition ex_c := nm [99] [116].     (* c:t *)
Definition ex_ops : list op :=
  [ OBlob (MkDigest true 1) 1
  ; OCreate (MkCreate ex_a (BFiles (MkDigest true 1) [(0, None)] false [(3, 20); (5, 21)]) None (Some 2) [] None None 30)
  ; OCreate (MkCreate ex_b (BFrom ex_a) (Some (true, 4)) (Some 3) [7] (Some 5) None 31)
  ; OCreate (MkCreate ex_A (BFrom ex_a) None (Some 3) [] None None 32)       (* lands on a:t *)
  ; OCopy ex_b ex_c
  ; ODelete ex_b
  ; OPull ex_b (Some (MkServed (MkManifest (MkLayer 8 (MkDigest true 40) 50) [MkLayer 0 (MkDigest true 1) 11; MkLayer 4 (MkDigest true 41) 51])
                               [Some 1; Some 41; Some 40])) []
  ; OStartup ].

Example C04_example_guards : op_guards ex_sz empty_store ex_ops.
Proof. vm_compute. repeat split. Qed.

Example C04_example_nontrivial :
  let s := exec_all ex_sz empty_store ex_ops in
  length (mans s) = 3%nat /\ length (blobs s) = 11%nat /\ mget ex_A s = None /\ has_unreadable s = false.
Proof. vm_compute. repeat split. Qed.

(** an old-version store: the GGUF blob and a system layer carry the old name, an old partial download lies around;
    two listed models miss their blobs until start-up has run *)
Example C04_example_legacy :
  let s := legacy_move (exec_all ex_sz empty_store ex_ops) [1; 3] [9] in
  bget 1 s = None /\ referenced_hex s 1 = true /\ length (debris s) = 3%nat /\
  let s' := exec ex_sz s OStartup in
  bget 1 s' = Some 1 /\ bget 3 s' = Some 3 /\ debris s' = [] /\ length (blobs s') = 11%nat.
Proof. vm_compute. repeat split. Qed.

(** a blob in which no GGUF can be decoded (a GGUF cut inside its header) is rejected by create: nothing is written
    (repaired, fixes/C04-create-empty-gguf.patch; unrepaired, a manifest without any layer was written and listed) *)
Example C04_empty_gguf_rejected :
  let s := exec ex_sz empty_store (OBlob (MkDigest true 1) 1) in
  op_run ex_sz s (OCreate (MkCreate ex_a (BFiles (MkDigest true 1) [] false []) None (Some 2) [] None None 30)) = (init s, RErr).
Proof. reflexivity. Qed.

(** ** The defects of the unrepaired code, on its model *)

(** getExistingName, unrepaired: on a store that holds two spellings of a name part the answer depends on the map
    order and an exactly stored name can be rewritten to a name that is not stored.  (Through the API alone two
    spellings of a part only arise through the pull defect below: the unrepaired function rewrites every part of a new
    name to the spelling some stored name already uses.) *)
Theorem C04_get_existing_legacy_refuted :
  get_existing_legacy [w_e1; w_e2] w_n <> get_existing_legacy [w_e2; w_e1] w_n /\
  (In w_e1 [w_e1; w_e2] /\ get_existing_legacy [w_e1; w_e2] w_e1 = w_n /\ ~ In w_n [w_e1; w_e2]).
Proof. split; [apply legacy_order_dependent | apply legacy_misses_stored_name]. Qed.
Print Assumptions C04_get_existing_legacy_refuted.

(** digest spelling, unrepaired: a create that names its GGUF blob as sha256-<hex> stores that spelling; deleting
    another model that uses the same blob under sha256:<hex> — or a restart — removes the blob of a listed model. *)
Definition legacy_spelling_ops (last : op) : list op :=
  [ OBlob (MkDigest true 1) 1
  ; OCreate (MkCreate ex_a (BFiles (MkDigest true 1) [(0, None)] false []) None None [] None None 30)
  ; OCreate (MkCreate ex_c (BFiles (MkDigest false 1) [(0, None)] false []) None None [] None None 31)
  ; last ].

Theorem C04_listed_complete_legacy_refuted :
  (let s := fold_left (exec_legacy ex_sz) (legacy_spelling_ops (ODelete ex_a)) empty_store in
   exists m, mget ex_c s = Some (Readable m) /\ exists l, In l (all_layers m) /\ bget (dhex (ldg l)) s = None) /\
  (let s := fold_left (exec_legacy ex_sz) (legacy_spelling_ops (ODelete ex_a) ++ [OStartup]) empty_store in
   exists m, mget ex_c s = Some (Readable m) /\ exists l, In l (all_layers m) /\ bget (dhex (ldg l)) s = None) /\
  (let s := fold_left (exec_legacy ex_sz)
              [OBlob (MkDigest true 1) 1; OCreate (MkCreate ex_c (BFiles (MkDigest false 1) [(0, None)] false []) None None [] None None 31); OStartup] empty_store in
   exists m, mget ex_c s = Some (Readable m) /\ exists l, In l (all_layers m) /\ bget (dhex (ldg l)) s = None).
Proof.
  repeat split; vm_compute; eexists; (split; [reflexivity|]); eexists; (split; [left; reflexivity | reflexivity]).
Qed.
Print Assumptions C04_listed_complete_legacy_refuted.

(** the same histories on the repaired model end well *)
Example C04_spelling_repaired :
  let s := exec_all ex_sz empty_store (legacy_spelling_ops (ODelete ex_a)) in
  exists m, mget ex_c s = Some (Readable m) /\ forallb (fun l => match bget (dhex (ldg l)) s with Some _ => true | None => false end) (all_layers m) = true.
Proof. vm_compute. eexists. split; reflexivity. Qed.

(** create FROM a model that does not exist, unrepaired: the error is reported and a manifest with no base layer is
    written all the same; repaired: nothing is written. *)
Theorem C04_from_missing_legacy_refuted :
  let q := MkCreate ex_a (BFrom ex_b) None (Some 2) [] None None 30 in
  (exists m, mget ex_a (exec_legacy ex_sz empty_store (OCreate q)) = Some (Readable m) /\ snd (op_run_legacy ex_sz empty_store (OCreate q)) = RErr) /\
  exec ex_sz empty_store (OCreate q) = empty_store.
Proof. split; [vm_compute; eexists; split; reflexivity | reflexivity]. Qed.
Print Assumptions C04_from_missing_legacy_refuted.

(** pull, unrepaired: the canonical name goes through its short form, so a default host stored in another letter
    case gets a second manifest in lower case. *)
Definition up_host : name := MkName [82;101;103;105;115;116;114;121;46;79;108;108;97;109;97;46;65;73] s_default_ns [109] [116].  (* Registry.Ollama.AI/library/m:t *)
Definition legacy_pull_ops : list op :=
  [ OBlob (MkDigest true 1) 1
  ; OCreate (MkCreate up_host (BFiles (MkDigest true 1) [(0, None)] false []) None None [] None None 30)
  ; OPull (nm [109] [116]) (Some (MkServed (MkManifest (MkLayer 8 (MkDigest true 40) 50) [MkLayer 0 (MkDigest true 1) 11]) [Some 1; Some 40])) [] ].

Theorem C04_pull_case_legacy_refuted :
  (let s := fold_left (exec_legacy ex_sz) legacy_pull_ops empty_store in
   exists ma mb, mget up_host s = Some (Readable ma) /\ mget (nm [109] [116]) s = Some (Readable mb) /\ name_eqfold up_host (nm [109] [116]) = true) /\
  (let s := exec_all ex_sz empty_store legacy_pull_ops in mget (nm [109] [116]) s = None /\ length (mans s) = 1%nat).
Proof. split; vm_compute; [eexists; eexists; repeat split | split; reflexivity]. Qed.
Print Assumptions C04_pull_case_legacy_refuted.

(** ... and once two spellings of a part are stored, the unrepaired getExistingName takes every part from the last
    stored name (in map order) that matches it: deleting the exactly stored name [Registry.Ollama.AI/library/m:t]
    removes the manifest of the *other* model (for the map order modelled here; the other order removes the right one). *)
Theorem C04_frame_legacy_refuted :
  let s0 := fold_left (exec_legacy ex_sz) legacy_pull_ops empty_store in
  let s := exec_legacy ex_sz s0 (ODelete up_host) in
  mget up_host s = mget up_host s0 /\ mget up_host s0 <> None /\ mget (nm [109] [116]) s0 <> None /\ mget (nm [109] [116]) s = None.
Proof. vm_compute. repeat split; discriminate. Qed.
Print Assumptions C04_frame_legacy_refuted.

(** ** Known finding (not repaired): without the guard on creates the statement is false of the faithful model.
    removeLayer scans the stored manifests only, not the layer list in the making: a create from a GGUF with an
    auto-detected params layer (content 21), a LICENSE whose text has the very same bytes, and a PARAMETER override
    deletes blob 21 while the license layer still points to it.  (Reproduced on the real code: corpus case
    "inflight-layer-deleted" of props/c04.py.)  [C04_listed_complete] above is the partial statement: its guard
    [create_check] excludes exactly these creates, and holds for every create FROM a model (C04_create_check_from). *)
Definition C04_listed_complete_full : Prop := forall size_of os n m l,
  mget n (exec_all size_of empty_store os) = Some (Readable m) -> In l (all_layers m) ->
  bget (dhex (ldg l)) (exec_all size_of empty_store os) = Some (dhex (ldg l)).

Definition inflight_ops : list op :=
  [ OBlob (MkDigest true 1) 1
  ; OCreate (MkCreate ex_a (BFiles (MkDigest true 1) [(0, None)] false [(3, 20); (5, 21)]) None None [21] (Some 22) None 30) ].

Theorem C04_listed_complete_refuted : ~ C04_listed_complete_full.
Proof.
  intros H. specialize (H ex_sz inflight_ops ex_a). vm_compute in H.
  specialize (H _ (MkLayer 7 (MkDigest true 21) 31) eq_refl). discriminate H. right. right. left. reflexivity.
Qed.
Print Assumptions C04_listed_complete_refuted.

Example C04_inflight_guard_false :
  op_guard ex_sz (exec ex_sz empty_store (OBlob (MkDigest true 1) 1)) (nth 1 inflight_ops OStartup) = false.
Proof. reflexivity. Qed.

(** ** Known finding (not repaired): a listed model without a model layer cannot be shown *)
Definition C04_listed_showable_full : Prop := forall size_of os,
  op_guards size_of empty_store os ->
  forall n m, mget n (exec_all size_of empty_store os) = Some (Readable m) -> has_model_b m = true.

Theorem C04_listed_showable_refuted : ~ C04_listed_showable_full.
Proof.
  intros H.
  specialize (H ex_sz [OBlob (MkDigest true 1) 1; OCreate (MkCreate ex_a (BFiles (MkDigest true 1) [(MT_ADAPTER, None)] false []) None None [] None None 30)]).
  assert (Hg : op_guards ex_sz empty_store [OBlob (MkDigest true 1) 1; OCreate (MkCreate ex_a (BFiles (MkDigest true 1) [(MT_ADAPTER, None)] false []) None None [] None None 30)])
    by (vm_compute; repeat split).
  specialize (H Hg ex_a). vm_compute in H. specialize (H _ eq_refl). discriminate.
Qed.
Print Assumptions C04_listed_showable_refuted.

(** ... and every listed model can be shown — all layers and the config served (present, intact, right size), a model
    layer among them, every layer content of the kind its media type promises — for histories whose creates from files
    bring a model-type GGUF and whose pulls serve a manifest with a model layer ([ops_have_model]: exactly the complement
    of the known finding), and whose requests carry well-formed contents ([ops_wf wf], for an arbitrary notion [wf mt c]
    of "content c decodes as media type mt": the handlers decode the GGUF, parse the template and produce the JSON
    themselves before they store a layer; a pull stores what the registry serves). *)
Theorem C04_listed_showable_partial : forall size_of wf os,
  op_guards size_of empty_store os -> ops_have_model os = true -> ops_wf wf os = true ->
  let s := exec_all size_of empty_store os in
  forall n m, mget n s = Some (Readable m) -> showable size_of wf s m.
Proof. intros size_of wf os Hg Hm Hw s. apply (history_showable size_of wf os Hg Hm Hw). Qed.
Print Assumptions C04_listed_showable_partial.

Example C04_showable_partial_nonvacuous :
  ops_have_model ex_ops = true /\ ops_wf (fun mt c => negb (c =? 99)) ex_ops = true /\
  ops_wf (fun mt c => negb ((mt =? MT_TEMPLATE) && (c =? 4))) ex_ops = false.
Proof. vm_compute. repeat split. Qed.


(** ** Models listed by a pull through the new code path (Store/Pull2.v), with a layer of length 0

    blob.DiskCache.Get reports an empty file as absent, so an empty layer is never "cached"; Chunked accepts an empty
    file under the blob's name as the layer, otherwise the (empty) scratch file is committed: after the pull the blob
    sha256-e3b0c442... exists, and the listed model is complete.  ([C12_pull2_crash_sound] and its companions are
    stated for manifests without empty layers — [guard2]; for this class the model is tied to the code by the
    differential run, and the computation below shows what it predicts.) *)
Definition e0_sz (c : N) : N := match c with 9 => 0 | _ => c + 10 end.
Definition e0_man := MkManifest (MkLayer MT_CONFIG (MkDigest true 2) 12)
                                [MkLayer MT_SYSTEM (MkDigest true 9) 0; MkLayer MT_MODEL (MkDigest true 1) 11; MkLayer MT_LICENSE (MkDigest true 9) 0].
Definition e0_sv := MkServed2 e0_man 3 [(1, [MkChunk 4 true; MkChunk 5 true]); (9, [MkChunk 7 true]); (2, [MkChunk 6 true])].
Definition e0_n := MkName [104] [110] [109] [116].

Example C04_pull2_empty_layer :
  let f := exec2 e0_sz 9 (MkSt2 empty_store []) e0_n e0_sv in
  snd (pull2 e0_sz 9 (MkSt2 empty_store []) e0_n e0_sv) = ROk /\
  mget e0_n (base f) = Some (Readable e0_man) /\ bget 9 (base f) = Some 9 /\ man_okb e0_sz (base f) e0_man = true /\
  (* the blob is there already (an earlier pull, an upload): nothing is committed, the model is complete all the same *)
  let g := exec2 e0_sz 9 (MkSt2 (MkStore [] [(9, 9)] []) []) e0_n e0_sv in
  man_okb e0_sz (base g) e0_man = true /\ existsb (fun e => match e with XCommit 9 => true | _ => false end)
                                                  (effects2 e0_sz 9 (MkSt2 (MkStore [] [(9, 9)] []) []) e0_n e0_sv) = false.
Proof. vm_compute. repeat split. Qed.

(** the variant whose "cached?" test compares sizes without looking at Get's error (the zero Entry has Size 0) takes
    every empty layer for cached: nothing is committed, the manifest is linked, the listed model lacks a blob *)
Definition do_layer_sizeonly (size_of : N -> N) (emp : N) (sv : served2) (r : run2) (l : layer) : run2 * bool :=
  let sz := match bget (dhex (ldg l)) (base (rs2 r)) with Some c => if size_of c =? 0 then 0 else size_of c | None => 0 end in
  if sz =? lsz l then (r, true) else do_layer size_of emp sv r l.

Example C04_pull2_empty_layer_sizeonly_refuted :
  let r := fold_left (fun r l => fst (do_layer_sizeonly e0_sz 9 e0_sv r l)) (all_layers e0_man) (init2 (MkSt2 empty_store [])) in
  let r' := link (put_blob e0_sz 9 r 3) e0_n e0_man in
  mget e0_n (base (rs2 r')) = Some (Readable e0_man) /\ bget 9 (base (rs2 r')) = None /\ man_okb e0_sz (base (rs2 r')) e0_man = false.
Proof. vm_compute. repeat split. Qed.
