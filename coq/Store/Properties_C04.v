(** * Properties_C04 — theorems only (proofs are in Store/Proofs*.v) *)
From Coq Require Import List NArith Bool.
From V Require Import Common.Bytes Store.Fs Store.Ops.
Import ListNotations.

Theorem C04_get_existing_nil : forall n, get_existing [] n = n.
Proof. reflexivity. Qed.
Print Assumptions C04_get_existing_nil.
