(** * Store/ProofsMore.v — runs that only touch blobs; creates FROM a model never delete a blob they need;
    listed models have a model layer when the requests bring one *)
From Coq Require Import List NArith Bool Arith Lia.
From V Require Import Common.Bytes Store.Fs Store.Ops Store.ProofsAlist Store.ProofsNames Store.ProofsInv Store.ProofsOps Store.ProofsTop.
Import ListNotations.
Open Scope N_scope.

Arguments new_layer : simpl never.
Arguments layer_remove : simpl never.
Arguments layer_from_layer : simpl never.
Arguments set_layer : simpl never.
Arguments download : simpl never.
Arguments write_manifest : simpl never.
Arguments create_template : simpl never.
Arguments create_tail : simpl never.

(** ** extension of a run by effects that do not touch manifests *)
Definition blob_only (e : effect) : Prop :=
  match e with
  | EAddDebris _ | ERmDebris _ | ERenTemp _ _ | ERenPartial _ _ | ERmBlob _ | EFixBlob _ _ | EFixPartial _ | EPartRec _ _ _ | ERmPart _ _ => True
  | ETruncMan _ | EWriteMan _ _ | ERmMan _ => False
  end.

Definition Ext (r0 r : run) : Prop := exists es, Forall blob_only es /\ r = emits r0 es.

Lemma Ext_refl r : Ext r r.
Proof. exists []. split; [constructor | reflexivity]. Qed.

Lemma emits_app r a b : emits r (a ++ b) = emits (emits r a) b.
Proof. unfold emits. apply fold_left_app. Qed.

Lemma Ext_emit r0 r e : Ext r0 r -> blob_only e -> Ext r0 (emit r e).
Proof.
  intros [es [H1 ->]] He. exists (es ++ [e]). split; [apply Forall_app; split; [exact H1 | constructor; [exact He | constructor]]|].
  rewrite emits_app. reflexivity.
Qed.

Lemma Ext_trans a b c : Ext a b -> Ext b c -> Ext a c.
Proof.
  intros [e1 [H1 ->]] [e2 [H2 ->]]. exists (e1 ++ e2). split; [apply Forall_app; auto | symmetry; apply emits_app].
Qed.

Lemma emits_rs r es : rs (emits r es) = apply_list (rs r) es /\ rt (emits r es) = rt r ++ es.
Proof.
  revert r; induction es as [|e es IH]; intros r; cbn; [rewrite app_nil_r; auto|].
  destruct (IH (emit r e)) as [H1 H2]. unfold emits in *. rewrite H1, H2. cbn. rewrite <- app_assoc. auto.
Qed.

Lemma blob_only_mans s e : blob_only e -> mans (apply_effect s e) = mans s.
Proof. destruct e; cbn; try contradiction; reflexivity. Qed.

Lemma Ext_mans r0 r : Ext r0 r -> mans (rs r) = mans (rs r0).
Proof.
  intros [es [H ->]]. destruct (emits_rs r0 es) as [-> _]. generalize (rs r0) as s. induction H as [|e es He Hes IH]; intros s; [reflexivity|].
  rewrite apply_list_cons, IH. apply blob_only_mans, He.
Qed.

Lemma Ext_referenced r0 r d : Ext r0 r -> referenced (rs r) d = referenced (rs r0) d.
Proof. intros H. apply referenced_mans, Ext_mans, H. Qed.

Lemma Ext_mget r0 r n : Ext r0 r -> mget n (rs r) = mget n (rs r0).
Proof. intros H. unfold mget. rewrite (Ext_mans _ _ H). reflexivity. Qed.

Lemma Ext_no_write r0 r n ms : Ext r0 r -> In (EWriteMan n ms) (rt r) -> In (EWriteMan n ms) (rt r0).
Proof.
  intros [es [H ->]]. destruct (emits_rs r0 es) as [_ ->]. rewrite in_app_iff. intros [Hi|Hi]; [exact Hi|].
  rewrite Forall_forall in H. destruct (H _ Hi).
Qed.

Section More.
  Variable size_of : N -> N.
  Notation Inv := (Inv size_of).
  Notation Rok := (Rok size_of).
  Notation blob_ok := (blob_ok size_of).
  Notation man_ok := (man_ok size_of).

  (** ** the primitives only touch blobs *)
  Lemma new_layer_ext r mt c : Ext r (fst (new_layer size_of r mt c)).
  Proof.
    unfold new_layer. destruct (bget c (rs (emit r (EAddDebris DTemp)))); cbn [fst];
      apply Ext_emit; try exact I; apply Ext_emit; try exact I; apply Ext_refl.
  Qed.

  Lemma layer_remove_ext r l : Ext r (layer_remove r l).
  Proof.
    unfold layer_remove. destruct (referenced (rs r) (ldg l)); [apply Ext_refl|].
    destruct (bget (dhex (ldg l)) (rs r)); [apply Ext_emit; [apply Ext_refl | exact I] | apply Ext_refl].
  Qed.

  Lemma remove_layer_mt_ext layers mt : forall r, Ext r (fst (remove_layer_mt r layers mt)).
  Proof.
    induction layers as [|l ls IH]; intros r; cbn; [apply Ext_refl|].
    destruct (lmt l =? mt).
    - eapply Ext_trans; [apply layer_remove_ext | apply IH].
    - specialize (IH r). destruct (remove_layer_mt r ls mt); cbn in *. exact IH.
  Qed.

  Lemma fold_layer_remove_ext ls : forall r, Ext r (fold_left layer_remove ls r).
  Proof.
    induction ls as [|l ls IH]; intros r; cbn; [apply Ext_refl|]. eapply Ext_trans; [apply layer_remove_ext | apply IH].
  Qed.

  Lemma set_layer_ext r layers mt c : Ext r (fst (set_layer size_of r layers mt c)).
  Proof.
    unfold set_layer. destruct c as [c|]; [|apply Ext_refl].
    assert (H1 := remove_layer_mt_ext layers mt r). destruct (remove_layer_mt r layers mt) as [r1 ls]. cbn in H1.
    assert (H2 := new_layer_ext r1 mt c). destruct (new_layer size_of r1 mt c) as [r2 l]. cbn in *. eapply Ext_trans; eassumption.
  Qed.

  Lemma add_layers_ext mt cs : forall r layers, Ext r (fst (add_layers size_of r layers mt cs)).
  Proof.
    induction cs as [|c cs IH]; intros r layers; cbn; [apply Ext_refl|].
    assert (H := new_layer_ext r mt c). destruct (new_layer size_of r mt c) as [r1 l]. cbn in H. eapply Ext_trans; [exact H | apply IH].
  Qed.

  Lemma add_detected_ext det : forall r layers, Ext r (fst (add_detected size_of r layers det)).
  Proof.
    induction det as [|[mt c] det IH]; intros r layers; cbn; [apply Ext_refl|].
    assert (H := new_layer_ext r mt c). destruct (new_layer size_of r mt c) as [r1 l]. cbn in H. eapply Ext_trans; [exact H | apply IH].
  Qed.

  Lemma gguf_parts_ext lfl d parts : forall r, Ext r (fst (gguf_parts size_of lfl r d parts)).
  Proof.
    induction parts as [|[mt [c|]] parts IH]; intros r; cbn; [apply Ext_refl | |].
    - assert (H := new_layer_ext r mt c). destruct (new_layer size_of r mt c) as [r1 l]. cbn in H.
      specialize (IH r1). destruct (gguf_parts size_of lfl r1 d parts). cbn in *. eapply Ext_trans; eassumption.
    - destruct (lfl (rs r) d mt); [|apply Ext_refl]. specialize (IH r). destruct (gguf_parts size_of lfl r d parts). cbn in *. exact IH.
  Qed.

  Lemma base_layers_ext lfl r b : Ext r (fst (base_layers size_of lfl r b)).
  Proof.
    destruct b as [d parts fail det|src]; cbn.
    - destruct (bget (dhex d) (rs r)); [|apply Ext_refl].
      assert (H := gguf_parts_ext lfl d parts r). destruct (gguf_parts size_of lfl r d parts) as [r1 [ls|]]; cbn in H; [|exact H].
      destruct (fail || match parts with [] => true | _ => false end); [exact H|]. assert (H2 := add_detected_ext det r1 ls). destruct (add_detected size_of r1 ls det). cbn in *.
      eapply Ext_trans; eassumption.
    - destruct (mget src (rs r)) as [[m|]|]; apply Ext_refl.
  Qed.

  Lemma create_template_ext r layers q : Ext r (fst (fst (create_template size_of r layers q))).
  Proof.
    unfold create_template. destruct (cr_template q) as [[valid c]|]; [|apply Ext_refl].
    assert (H1 := remove_layer_mt_ext layers MT_TEMPLATE r). destruct (remove_layer_mt r layers MT_TEMPLATE) as [ra ls]. cbn in H1.
    destruct valid; [|exact H1]. assert (H2 := new_layer_ext ra MT_TEMPLATE c). destruct (new_layer size_of ra MT_TEMPLATE c). cbn in *.
    eapply Ext_trans; eassumption.
  Qed.

  Lemma create_tail_ext r layers q : Ext r (fst (create_tail size_of r layers q)).
  Proof.
    unfold create_tail.
    assert (H3 := set_layer_ext r layers MT_SYSTEM (cr_system q)). destruct (set_layer size_of r layers MT_SYSTEM (cr_system q)) as [r3 l3]. cbn in H3.
    assert (H4 := add_layers_ext MT_LICENSE (cr_license q) r3 l3). destruct (add_layers size_of r3 l3 MT_LICENSE (cr_license q)) as [r4 l4]. cbn in H4.
    assert (H5 := set_layer_ext r4 l4 MT_PARAMS (cr_params q)). destruct (set_layer size_of r4 l4 MT_PARAMS (cr_params q)) as [r5 l5]. cbn in H5.
    assert (H6 := set_layer_ext r5 l5 MT_MESSAGES (cr_messages q)). destruct (set_layer size_of r5 l5 MT_MESSAGES (cr_messages q)) as [r6 l6]. cbn in H6.
    assert (H7 := new_layer_ext r6 MT_CONFIG (cr_config q)). destruct (new_layer size_of r6 MT_CONFIG (cr_config q)) as [r7 cfg]. cbn in *.
    eapply Ext_trans; [exact H3|]. eapply Ext_trans; [exact H4|]. eapply Ext_trans; [exact H5|]. eapply Ext_trans; eassumption.
  Qed.

  Lemma create_build_ext lfl ft s q : Ext (init s) (fst (create_build size_of lfl ft s q)).
  Proof.
    unfold create_build.
    assert (Hb := base_layers_ext lfl (init s) (cr_base q)). destruct (base_layers size_of lfl (init s) (cr_base q)) as [rb ob]. cbn in Hb.
    set (b := match ob with Some ls => Some (ls, true) | None => match cr_base q with BFrom _ => if ft then Some ([], false) else None | _ => None end end).
    destruct b as [[layers clean]|]; [|exact Hb].
    assert (Ht := create_template_ext rb layers q). destruct (create_template size_of rb layers q) as [[r2 l2] okt]. cbn in Ht.
    destruct okt; cbn [negb]; [|cbn; eapply Ext_trans; eassumption].
    assert (H7 := create_tail_ext r2 l2 q). destruct (create_tail size_of r2 l2 q) as [r7 m]. cbn in *.
    eapply Ext_trans; [exact Hb|]. eapply Ext_trans; eassumption.
  Qed.

  Lemma download_ext r l oc : Ext r (fst (download size_of r l oc)).
  Proof.
    unfold download, download_gen. set (h := dhex (ldg l)). destruct (bget h (rs r)); [apply Ext_refl|].
    assert (E1 : Ext r (emit r (ERmPart h 0))) by (apply Ext_emit; [apply Ext_refl | exact I]).
    assert (F : forall r1, Ext r r1 -> forall x, (match oc with
                 | None => None
                 | Some c => if size_of c =? 0 then Some (r1, None) else Some (emit (emit r1 (EPartRec h 0 PRTorn)) (EPartRec h 0 PRTodo), Some PRTodo)
                 end) = Some x -> Ext r (fst x)).
    { intros r1 H1 x. destruct oc as [c|]; [|discriminate]. destruct (size_of c =? 0); intros [= <-]; cbn [fst]; [exact H1|].
      apply Ext_emit; [apply Ext_emit; [exact H1 | exact I] | exact I]. }
    set (hp := existsb (dfile_eqb (DPartial h)) (debris (rs r))).
    set (prep := match partrec_state h 0 (debris (rs r)) with Some PRTorn => _ | Some st => _ | None => _ end).
    assert (P : forall x, prep = Some x -> Ext r (fst x)).
    { subst prep. intros x. destruct (partrec_state h 0 (debris (rs r))) as [[| |]|]; cbn [negb orb].
      - apply (F _ E1).
      - destruct hp; [intros [= <-]; apply Ext_refl | apply (F _ E1)].
      - destruct hp; [intros [= <-]; apply Ext_refl | apply (F _ E1)].
      - apply (F r (Ext_refl r)). }
    destruct prep as [[r1 st0]|] eqn:Ep.
    - assert (H1 := P _ eq_refl). cbn [fst] in H1. destruct oc as [c|]; [|exact H1].
      set (r2 := emit r1 (EAddDebris (DPartial h))).
      assert (H2 : Ext r r2) by (apply Ext_emit; [exact H1 | exact I]).
      set (r3 := match st0 with Some PRTodo => emit (emit r2 (EPartRec h 0 PRTorn)) (EPartRec h 0 PRDone) | _ => r2 end).
      assert (H3 : Ext r r3) by (subst r3; destruct st0 as [[| |]|]; try exact H2; apply Ext_emit; [apply Ext_emit; [exact H2 | exact I] | exact I]).
      set (r4 := match st0 with Some _ => emit r3 (ERmPart h 0) | None => r3 end).
      assert (H4 : Ext r r4) by (subst r4; destruct st0; [apply Ext_emit; [exact H3 | exact I] | exact H3]).
      destruct (dcolon (ldg l) && (c =? h)); cbn [fst]; apply Ext_emit; try exact H4; exact I.
    - cbn [fst]. destruct (partrec_state h 0 (debris (rs r))) as [[| |]|]; cbn [negb orb]; try destruct hp; try apply Ext_refl; exact E1.
  Qed.

  Lemma download_all_ext ls : forall cs r, Ext r (fst (download_all size_of r ls cs)).
  Proof.
    induction ls as [|l ls IH]; intros cs r; cbn [download_all]; [apply Ext_refl|].
    assert (H1 := download_ext r l (hd None cs)).
    destruct (download size_of r l (hd None cs)) as [r1 [hit|]]; cbn [fst] in *; [|exact H1].
    specialize (IH (tl cs) r1). destruct (download_all size_of r1 ls (tl cs)). cbn in *. eapply Ext_trans; eassumption.
  Qed.

  Lemma verify_all_ext dl : forall r, Ext r (fst (verify_all r dl)).
  Proof.
    induction dl as [|[l hit] dl IH]; intros r; cbn; [apply Ext_refl|]. destruct hit; [apply IH|].
    destruct (bget (dhex (ldg l)) (rs r)) as [c|]; [|apply Ext_refl].
    destruct (dcolon (ldg l) && (c =? dhex (ldg l))); [apply IH | apply Ext_emit; [apply Ext_refl | exact I]].
  Qed.

  Lemma delete_unused_ext dm : forall r, Ext r (delete_unused r dm).
  Proof.
    unfold delete_unused. induction dm as [|d dm IH]; intros r; cbn; [apply Ext_refl|].
    eapply Ext_trans; [|apply IH]. destruct (referenced (rs r) d); [apply Ext_refl|].
    destruct (bget (dhex d) (rs r)); [apply Ext_emit; [apply Ext_refl | exact I] | apply Ext_refl].
  Qed.

  Lemma fix_fold_ext ds : forall r, Ext r (fold_left fix_step ds r).
  Proof.
    induction ds as [|d ds IH]; intros r; cbn [fold_left]; [apply Ext_refl|].
    apply (Ext_trans _ (fix_step r d)); [|apply IH].
    destruct d; cbn; try apply Ext_refl; apply Ext_emit; try apply Ext_refl; exact I.
  Qed.

  Lemma fix_blobs_ext r : Ext r (fix_blobs r).
  Proof. apply fix_fold_ext. Qed.

  Lemma rm_debris_ext ds : forall r, Ext r (fold_left (fun r d => emit r (ERmDebris d)) ds r).
  Proof.
    induction ds as [|d ds IH]; intros r; cbn; [apply Ext_refl|].
    apply (Ext_trans _ (emit r (ERmDebris d))); [apply Ext_emit; [apply Ext_refl | exact I] | apply IH].
  Qed.

  Lemma startup_rest_ext r : Ext r (startup_rest r).
  Proof.
    unfold startup_rest. destruct (has_unreadable (rs r)); [apply Ext_refl|].
    eapply Ext_trans; [apply rm_debris_ext | apply delete_unused_ext].
  Qed.

  Lemma op_startup_ext s : Ext (init s) (fst (op_startup s)).
  Proof. unfold op_startup. cbn [fst]. eapply Ext_trans; [apply fix_blobs_ext | apply startup_rest_ext]. Qed.

  (** ** blobs only grow while nothing is removed *)
  Definition no_rm (e : effect) : Prop := match e with ERmBlob _ => False | _ => True end.

  Definition grows (s s' : store) : Prop := forall h x, bget h s = Some x -> bget h s' = Some x.

  Lemma blob_ok_grows s s' l : grows s s' -> blob_ok s l -> blob_ok s' l.
  Proof. intros Hg [H1 [H2 H3]]. split; [exact H1|]. split; [apply Hg, H2 | exact H3]. Qed.

  (** NewLayer never overwrites: the store after it extends the store before, and the new layer is served *)
  Lemma new_layer_grows s0 t r mt c :
    Inv s0 -> Rok t s0 r ->
    grows (rs r) (rs (fst (new_layer size_of r mt c))) /\ blob_ok (rs (fst (new_layer size_of r mt c))) (snd (new_layer size_of r mt c)) /\
    lmt (snd (new_layer size_of r mt c)) = mt.
  Proof.
    intros HI H. unfold new_layer.
    assert (E0 : bget c (rs (emit r (EAddDebris DTemp))) = bget c (rs r)) by reflexivity.
    rewrite E0. destruct (bget c (rs r)) as [c0|] eqn:Eb; cbn [fst snd].
    - split; [intros h x Hx; exact Hx|]. split; [|reflexivity]. split; [reflexivity|]. split; [|reflexivity]. cbn.
      unfold bget in *; cbn. rewrite Eb. f_equal. eapply (bget_intact size_of); [eapply Rok_inv; eassumption | exact Eb].
    - split.
      + intros h x Hx. unfold bget in *; cbn [rs emit apply_effect blobs]. destruct (N.eq_dec h c) as [->|Hn]; [congruence | rewrite bget_aset_other by exact Hn; exact Hx].
      + split; [|reflexivity]. split; [reflexivity|]. split; [|reflexivity]. cbn. unfold bget; cbn. apply bget_aset_same.
  Qed.

  (** removeLayer of a media type all of whose layers are in use is the identity on the store *)
  Lemma remove_layer_mt_referenced layers mt : forall r,
    (forall l, In l layers -> lmt l = mt -> referenced (rs r) (ldg l) = true) ->
    remove_layer_mt r layers mt = (r, filter (fun l => negb (lmt l =? mt)) layers).
  Proof.
    induction layers as [|l ls IH]; intros r H; cbn; [reflexivity|].
    destruct (lmt l =? mt) eqn:E; cbn.
    - apply N.eqb_eq in E. unfold layer_remove. rewrite (H l (or_introl eq_refl) E). apply IH. intros l' Hl'. apply H. right; exact Hl'.
    - rewrite IH; [reflexivity|]. intros l' Hl'. apply H. right; exact Hl'.
  Qed.

  (** the list in the making of a create FROM a model: every layer is served, and is either of an already handled
      media type or in use by a stored manifest *)
  Definition J (s0 : store) (done : list N) (r : run) (layers : list layer) : Prop :=
    Ext (init s0) r /\ Forall (blob_ok (rs r)) layers /\
    Forall (fun l => In (lmt l) done \/ referenced s0 (ldg l) = true) layers.

  Lemma J_weaken s0 done done' r layers : incl done done' -> J s0 done r layers -> J s0 done' r layers.
  Proof.
    intros Hi [H1 [H2 H3]]. split; [exact H1|]. split; [exact H2|]. rewrite Forall_forall in *. intros l Hl.
    destruct (H3 l Hl) as [H|H]; [left; apply Hi, H | right; exact H].
  Qed.

  Lemma J_new_layer s0 t done r layers mt c :
    Inv s0 -> Rok t s0 r -> J s0 done r layers ->
    J s0 (mt :: done) (fst (new_layer size_of r mt c)) (layers ++ [snd (new_layer size_of r mt c)]).
  Proof.
    intros HI H [H1 [H2 H3]]. destruct (new_layer_grows s0 t r mt c HI H) as [Hg [Hok Hmt]]. split; [|split].
    - eapply Ext_trans; [exact H1 | apply new_layer_ext].
    - apply Forall_app. split; [|constructor; [exact Hok | constructor]].
      rewrite Forall_forall in *. intros l Hl. eapply blob_ok_grows; [exact Hg | apply H2, Hl].
    - apply Forall_app. split; [|constructor; [left; left; exact Hmt | constructor]].
      rewrite Forall_forall in *. intros l Hl. destruct (H3 l Hl) as [Hd|Hr]; [left; right; exact Hd | right; exact Hr].
  Qed.

  Lemma J_remove s0 done r layers mt :
    ~ In mt done -> J s0 done r layers ->
    remove_layer_mt r layers mt = (r, filter (fun l => negb (lmt l =? mt)) layers) /\
    J s0 done r (filter (fun l => negb (lmt l =? mt)) layers).
  Proof.
    intros Hn [H1 [H2 H3]]. split.
    - apply remove_layer_mt_referenced. intros l Hl Hm. rewrite (Ext_referenced _ _ (ldg l) H1). cbn.
      rewrite Forall_forall in H3. destruct (H3 l Hl) as [Hd|Hr]; [rewrite Hm in Hd; contradiction | exact Hr].
    - split; [exact H1|]. rewrite !Forall_forall in *. split; intros l Hl; apply filter_In in Hl as [Hl _]; auto.
  Qed.

  Lemma J_set_layer s0 t done r layers mt c :
    Inv s0 -> Rok t s0 r -> ~ In mt done -> J s0 done r layers ->
    J s0 (mt :: done) (fst (set_layer size_of r layers mt c)) (snd (set_layer size_of r layers mt c)).
  Proof.
    intros HI H Hn HJ. unfold set_layer. destruct c as [c|]; [|cbn; eapply J_weaken; [|exact HJ]; intros x Hx; right; exact Hx].
    destruct (J_remove s0 done r layers mt Hn HJ) as [-> HJ'].
    assert (HJ2 := J_new_layer s0 t done r _ mt c HI H HJ').
    destruct (new_layer size_of r mt c) as [r2 l]. cbn in *. exact HJ2.
  Qed.

  Lemma J_add_layers s0 t mt cs : forall done r layers,
    Inv s0 -> Rok t s0 r -> J s0 done r layers ->
    J s0 (mt :: done) (fst (add_layers size_of r layers mt cs)) (snd (add_layers size_of r layers mt cs)).
  Proof.
    induction cs as [|c cs IH]; intros done r layers HI H HJ; cbn.
    - eapply J_weaken; [|exact HJ]. intros x Hx; right; exact Hx.
    - assert (HJ2 := J_new_layer s0 t done r layers mt c HI H HJ).
      destruct (new_layer_ok size_of t s0 r mt c H) as [Hr _].
      destruct (new_layer size_of r mt c) as [r1 l]. cbn in *.
      eapply J_weaken; [|apply (IH (mt :: done) r1 (layers ++ [l]) HI Hr HJ2)]. intros x [->|Hx]; [left; reflexivity | exact Hx].
  Qed.

  (** the base layers of a create FROM a stored model are served and in use *)
  Lemma from_layers_J s ls : forall out,
    Inv s -> (forall l, In l ls -> blob_ok s l /\ referenced s (ldg l) = true) ->
    from_layers (layer_from_layer size_of) s ls = Some out ->
    Forall (blob_ok s) out /\ Forall (fun l => referenced s (ldg l) = true) out.
  Proof.
    induction ls as [|l ls IH]; intros out HI Hall; cbn; [intros [= <-]; split; constructor|].
    destruct (layer_from_layer size_of s (ldg l) (lmt l)) as [l'|] eqn:E; [|discriminate].
    destruct (from_layers (layer_from_layer size_of) s ls) as [t'|] eqn:Et; [|discriminate]. intros [= <-].
    destruct (IH t' HI (fun x Hx => Hall x (or_intror Hx)) eq_refl) as [I1 I2].
    destruct (Hall l (or_introl eq_refl)) as [[Hc [Hp Hs]] Hr].
    unfold layer_from_layer in E. rewrite Hp in E. injection E as <-.
    assert (Hd : canon (ldg l) = ldg l) by (destruct (ldg l) as [cl hx]; cbn in *; subst cl; reflexivity).
    split; constructor; auto.
    - split; [reflexivity|]. cbn. split; [exact Hp | reflexivity].
    - cbn. rewrite Hd. exact Hr.
  Qed.

  Theorem create_check_from s q src : Inv s -> cr_base q = BFrom src -> create_check size_of s q = true.
  Proof.
    intros HI Hb. unfold create_check.
    destruct (create_build size_of (layer_from_layer size_of) false s q) as [r7 [[m clean]|]] eqn:Ecb; [|reflexivity].
    apply man_okb_spec. revert Ecb. unfold create_build. rewrite Hb. cbn [base_layers init rs].
    destruct (mget src s) as [[msrc|]|] eqn:Es; try discriminate.
    destruct (from_layers (layer_from_layer size_of) s (mlayers msrc)) as [layers|] eqn:Ef; [|discriminate].
    assert (Hsrc : listed s src msrc) by (apply mget_listed, Es).
    assert (Hall : forall l, In l (mlayers msrc) -> blob_ok s l /\ referenced s (ldg l) = true).
    { intros l Hl. assert (Hin : In l (all_layers msrc)) by (unfold all_layers; apply in_or_app; left; exact Hl). split.
      - assert (H := inv_mans size_of s HI src msrc Hsrc). unfold ProofsInv.man_ok in H. rewrite Forall_forall in H. apply H, Hin.
      - eapply referenced_intro; eassumption. }
    destruct (from_layers_J s (mlayers msrc) layers HI Hall Ef) as [Hok Href].
    assert (HJ0 : J s [] (init s) layers).
    { split; [apply Ext_refl|]. split; [exact Hok|]. rewrite Forall_forall in *. intros l Hl. right. apply Href, Hl. }
    set (t := @None name).
    assert (Hcan0 : Forall canon_l layers) by (rewrite Forall_forall in *; intros l Hl; apply (Hok l Hl)).
    (* template phase *)
    assert (Ht : J s [MT_TEMPLATE] (fst (fst (create_template size_of (init s) layers q))) (snd (fst (create_template size_of (init s) layers q))) \/
                 snd (create_template size_of (init s) layers q) = false).
    { unfold create_template. destruct (cr_template q) as [[valid c]|].
      - destruct (J_remove s [] (init s) layers MT_TEMPLATE (fun x => x) HJ0) as [-> HJ'].
        destruct valid; [|right; reflexivity]. left.
        assert (H := J_new_layer s t [] (init s) _ MT_TEMPLATE c HI (Rok_init size_of t s) HJ').
        destruct (new_layer size_of (init s) MT_TEMPLATE c). cbn in *. exact H.
      - left. cbn. eapply J_weaken; [|exact HJ0]. intros x []. }
    destruct (create_template_ok size_of t s (init s) layers q HI (Rok_init size_of t s) Hcan0) as [Hr2 Hc2].
    destruct (create_template size_of (init s) layers q) as [[r2 l2] okt]. cbn [fst snd] in *.
    destruct okt; cbn [negb]; [|discriminate].
    destruct Ht as [HJ2|Ht]; [|discriminate].
    (* the tail *)
    unfold create_tail.
    assert (HJ3 := J_set_layer s t [MT_TEMPLATE] r2 l2 MT_SYSTEM (cr_system q) HI Hr2 ltac:(cbv; intros [H|[]]; discriminate) HJ2).
    destruct (set_layer_ok size_of t s r2 l2 MT_SYSTEM (cr_system q) HI Hr2 Hc2) as [Hr3 Hc3].
    destruct (set_layer size_of r2 l2 MT_SYSTEM (cr_system q)) as [r3 l3]. cbn [fst snd] in *.
    assert (HJ4 := J_add_layers s t MT_LICENSE (cr_license q) _ r3 l3 HI Hr3 HJ3).
    destruct (add_layers_ok size_of t s MT_LICENSE (cr_license q) r3 l3 Hr3 Hc3) as [Hr4 Hc4].
    destruct (add_layers size_of r3 l3 MT_LICENSE (cr_license q)) as [r4 l4]. cbn [fst snd] in *.
    assert (HJ5 := J_set_layer s t [MT_LICENSE; MT_SYSTEM; MT_TEMPLATE] r4 l4 MT_PARAMS (cr_params q) HI Hr4 ltac:(cbv; intros [H|[H|[H|[]]]]; discriminate) HJ4).
    destruct (set_layer_ok size_of t s r4 l4 MT_PARAMS (cr_params q) HI Hr4 Hc4) as [Hr5 Hc5].
    destruct (set_layer size_of r4 l4 MT_PARAMS (cr_params q)) as [r5 l5]. cbn [fst snd] in *.
    assert (HJ6 := J_set_layer s t [MT_PARAMS; MT_LICENSE; MT_SYSTEM; MT_TEMPLATE] r5 l5 MT_MESSAGES (cr_messages q) HI Hr5 ltac:(cbv; intros [H|[H|[H|[H|[]]]]]; discriminate) HJ5).
    destruct (set_layer_ok size_of t s r5 l5 MT_MESSAGES (cr_messages q) HI Hr5 Hc5) as [Hr6 Hc6].
    destruct (set_layer size_of r5 l5 MT_MESSAGES (cr_messages q)) as [r6 l6]. cbn [fst snd] in *.
    destruct (new_layer_grows s t r6 MT_CONFIG (cr_config q) HI Hr6) as [Hg [Hok7 _]].
    destruct (new_layer size_of r6 MT_CONFIG (cr_config q)) as [r7' cfg]. cbn [fst snd] in *.
    intros [= <- <- _]. unfold ProofsInv.man_ok, all_layers. cbn. apply Forall_app. split; [|constructor; [exact Hok7 | constructor]].
    destruct HJ6 as [_ [Hall6 _]]. rewrite Forall_forall in *. intros l Hl. eapply blob_ok_grows; [exact Hg | apply Hall6, Hl].
  Qed.

  (** ** models that can be shown: a model layer in every listed manifest *)
  Definition has_model_b (m : manifest) : bool := existsb (fun l => lmt l =? MT_MODEL) (mlayers m).

  Definition op_has_model (o : op) : bool :=
    match o with
    | OCreate q => match cr_base q with
                   | BFiles _ parts _ _ => existsb (fun p => fst p =? MT_MODEL) parts
                   | BFrom _ => true
                   end
    | OPull _ (Some v) _ => has_model_b (sv_manifest v)
    | _ => true
    end.
  Definition ops_have_model (os : list op) : bool := forallb op_has_model os.

  Definition HM (s : store) : Prop := forall n m, listed s n m -> has_model_b m = true.

  Lemma HM_effects es : forall s,
    HM s -> (forall n m, In (EWriteMan n (Readable m)) es -> has_model_b m = true) -> HM (apply_list s es).
  Proof.
    induction es as [|e es IH]; intros s H Hw; [exact H|]. rewrite apply_list_cons. apply IH; [|intros n m Hi; apply (Hw n m); right; exact Hi].
    intros n m Hl. unfold listed in Hl. destruct e as [d|d|h c|h c|h|n'|n' ms|n'|h c|h|h i st|h i]; cbn in Hl; try (apply (H n m Hl)).
    - apply (In_aset name_eqb name_eqb_spec) in Hl as [[_ [=]]|[_ Hl]]. apply (H n m Hl).
    - apply (In_aset name_eqb name_eqb_spec) in Hl as [[-> <-]|[_ Hl]]; [apply (Hw n' m); left; reflexivity | apply (H n m Hl)].
    - apply (In_adel name_eqb name_eqb_spec) in Hl as [Hl _]. apply (H n m Hl).
  Qed.

  Definition hasm (ls : list layer) : Prop := exists l, In l ls /\ lmt l = MT_MODEL.

  Lemma hasm_spec m : has_model_b m = true <-> hasm (mlayers m).
  Proof.
    unfold has_model_b, hasm. rewrite existsb_exists. split; intros [l [H1 H2]]; exists l; (split; [exact H1|]); apply N.eqb_eq; exact H2.
  Qed.

  Lemma hasm_app a b : hasm a -> hasm (a ++ b).
  Proof. intros [l [H1 H2]]. exists l. split; [apply in_or_app; left; exact H1 | exact H2]. Qed.

  Lemma remove_layer_mt_list layers mt : forall r, snd (remove_layer_mt r layers mt) = filter (fun l => negb (lmt l =? mt)) layers.
  Proof.
    induction layers as [|l ls IH]; intros r; cbn; [reflexivity|].
    destruct (lmt l =? mt); cbn; [apply IH|]. specialize (IH r). destruct (remove_layer_mt r ls mt). cbn in *. rewrite IH. reflexivity.
  Qed.

  Lemma hasm_remove r layers mt : mt <> MT_MODEL -> hasm layers -> hasm (snd (remove_layer_mt r layers mt)).
  Proof.
    intros Hn [l [H1 H2]]. rewrite remove_layer_mt_list. exists l. split; [|exact H2]. apply filter_In. split; [exact H1|].
    rewrite H2. destruct (MT_MODEL =? mt) eqn:E; [apply N.eqb_eq in E; congruence | reflexivity].
  Qed.

  Lemma hasm_set_layer r layers mt c : mt <> MT_MODEL -> hasm layers -> hasm (snd (set_layer size_of r layers mt c)).
  Proof.
    intros Hn H. unfold set_layer. destruct c as [c|]; [|exact H].
    assert (H1 := hasm_remove r layers mt Hn H). destruct (remove_layer_mt r layers mt) as [r1 ls]. cbn in H1.
    destruct (new_layer size_of r1 mt c). cbn. apply hasm_app, H1.
  Qed.

  Lemma hasm_add_layers mt cs : forall r layers, hasm layers -> hasm (snd (add_layers size_of r layers mt cs)).
  Proof.
    induction cs as [|c cs IH]; intros r layers H; cbn; [exact H|]. destruct (new_layer size_of r mt c). apply IH, hasm_app, H.
  Qed.

  Lemma hasm_add_detected det : forall r layers, hasm layers -> hasm (snd (add_detected size_of r layers det)).
  Proof.
    induction det as [|[mt c] det IH]; intros r layers H; cbn; [exact H|]. destruct (new_layer size_of r mt c). apply IH, hasm_app, H.
  Qed.

  Lemma hasm_gguf_parts d parts : forall r ls,
    existsb (fun p : N * option N => fst p =? MT_MODEL) parts = true ->
    snd (gguf_parts size_of (layer_from_layer size_of) r d parts) = Some ls -> hasm ls.
  Proof.
    induction parts as [|[mt [c|]] parts IH]; intros r ls He; cbn in *; [discriminate| |].
    - destruct (new_layer size_of r mt c) as [r1 l] eqn:En.
      assert (Hl : lmt l = mt) by (unfold new_layer in En; destruct (bget c (rs (emit r (EAddDebris DTemp)))); injection En as _ <-; reflexivity).
      destruct (gguf_parts size_of (layer_from_layer size_of) r1 d parts) as [r' [t'|]] eqn:Eg; cbn; [|discriminate]. intros [= <-].
      destruct (mt =? MT_MODEL) eqn:Em; cbn in He.
      + exists l. split; [left; reflexivity | rewrite Hl; apply N.eqb_eq; exact Em].
      + destruct (IH r1 t' He) as [x [Hx1 Hx2]]; [rewrite Eg; reflexivity|]. exists x. split; [right; exact Hx1 | exact Hx2].
    - destruct (layer_from_layer size_of (rs r) d mt) as [l|] eqn:El; [|discriminate].
      assert (Hl : lmt l = mt) by (unfold layer_from_layer in El; destruct (bget (dhex d) (rs r)); [injection El as <-; reflexivity | discriminate]).
      destruct (gguf_parts size_of (layer_from_layer size_of) r d parts) as [r' [t'|]] eqn:Eg; cbn; [|discriminate]. intros [= <-].
      destruct (mt =? MT_MODEL) eqn:Em; cbn in He.
      + exists l. split; [left; reflexivity | rewrite Hl; apply N.eqb_eq; exact Em].
      + destruct (IH r t' He) as [x [Hx1 Hx2]]; [rewrite Eg; reflexivity|]. exists x. split; [right; exact Hx1 | exact Hx2].
  Qed.

  Lemma hasm_from_layers s ls : forall out, from_layers (layer_from_layer size_of) s ls = Some out -> hasm ls -> hasm out.
  Proof.
    induction ls as [|l ls IH]; intros out; cbn; [intros _ [x [[] _]]|].
    destruct (layer_from_layer size_of s (ldg l) (lmt l)) as [l'|] eqn:E; [|discriminate].
    destruct (from_layers (layer_from_layer size_of) s ls) as [t'|]; [|discriminate]. intros [= <-] [x [[<-|Hx] Hm]].
    - exists l'. split; [left; reflexivity|]. unfold layer_from_layer in E. destruct (bget (dhex (ldg l)) s); [injection E as <-; exact Hm | discriminate].
    - destruct (IH t' eq_refl (ex_intro _ x (conj Hx Hm))) as [y [Hy1 Hy2]]. exists y. split; [right; exact Hy1 | exact Hy2].
  Qed.

  Lemma create_build_has_model s q m clean :
    HM s -> op_has_model (OCreate q) = true ->
    snd (create_build size_of (layer_from_layer size_of) false s q) = Some (m, clean) -> has_model_b m = true.
  Proof.
    intros Hs Hq. unfold create_build.
    assert (Hbase : forall ls, snd (base_layers size_of (layer_from_layer size_of) (init s) (cr_base q)) = Some ls -> hasm ls).
    { cbn in Hq. destruct (cr_base q) as [d parts fail det|src]; cbn.
      - destruct (bget (dhex d) s); [|discriminate].
        destruct (gguf_parts size_of (layer_from_layer size_of) (init s) d parts) as [r1 [ls|]] eqn:Eg; [|discriminate].
        destruct (fail || match parts with [] => true | _ => false end); [discriminate|]. intros ls'. assert (Hh : hasm ls) by (eapply (hasm_gguf_parts d parts (init s)); [exact Hq | rewrite Eg; reflexivity]).
        assert (H2 := hasm_add_detected det r1 ls Hh). destruct (add_detected size_of r1 ls det). cbn in *. intros [= <-]. exact H2.
      - destruct (mget src s) as [[msrc|]|] eqn:Es; try discriminate. cbn. intros ls Hf.
        eapply hasm_from_layers; [exact Hf|]. apply hasm_spec. apply (Hs src msrc). apply mget_listed, Es. }
    destruct (base_layers size_of (layer_from_layer size_of) (init s) (cr_base q)) as [rb [layers|]]; cbn [snd] in Hbase.
    2:{ destruct (cr_base q); discriminate. }
    specialize (Hbase layers eq_refl).
    assert (Ht : hasm (snd (fst (create_template size_of rb layers q)))).
    { unfold create_template. destruct (cr_template q) as [[valid c]|]; [|exact Hbase].
      assert (H1 := hasm_remove rb layers MT_TEMPLATE ltac:(discriminate) Hbase). destruct (remove_layer_mt rb layers MT_TEMPLATE) as [ra ls]. cbn in H1.
      destruct valid; [|exact H1]. destruct (new_layer size_of ra MT_TEMPLATE c). cbn. apply hasm_app, H1. }
    destruct (create_template size_of rb layers q) as [[r2 l2] okt]. cbn [fst snd] in Ht. destruct okt; cbn [negb]; [|discriminate].
    unfold create_tail.
    assert (H3 := hasm_set_layer r2 l2 MT_SYSTEM (cr_system q) ltac:(discriminate) Ht). destruct (set_layer size_of r2 l2 MT_SYSTEM (cr_system q)) as [r3 l3]. cbn in H3.
    assert (H4 := hasm_add_layers MT_LICENSE (cr_license q) r3 l3 H3). destruct (add_layers size_of r3 l3 MT_LICENSE (cr_license q)) as [r4 l4]. cbn in H4.
    assert (H5 := hasm_set_layer r4 l4 MT_PARAMS (cr_params q) ltac:(discriminate) H4). destruct (set_layer size_of r4 l4 MT_PARAMS (cr_params q)) as [r5 l5]. cbn in H5.
    assert (H6 := hasm_set_layer r5 l5 MT_MESSAGES (cr_messages q) ltac:(discriminate) H5). destruct (set_layer size_of r5 l5 MT_MESSAGES (cr_messages q)) as [r6 l6]. cbn in H6.
    destruct (new_layer size_of r6 MT_CONFIG (cr_config q)) as [r7 cfg]. cbn. intros [= <- _]. apply hasm_spec. exact H6.
  Qed.

  (** the manifests an operation writes *)
  Lemma op_writes_model s o n m :
    Inv s -> HM s -> op_has_model o = true -> In (EWriteMan n (Readable m)) (effects size_of s o) -> has_model_b m = true.
  Proof.
    intros HI Hs Ho. unfold effects. destruct o as [d c|q|a b|nn|nn sv ord|]; cbn [op_run].
    - (* blob *) unfold op_blob. destruct (bget (dhex d) s); cbn; [intros []|].
      assert (H := new_layer_ext (init s) 0 c). destruct (new_layer size_of (init s) 0 c). cbn in *. intros Hi. destruct (Ext_no_write _ _ _ _ H Hi).
    - (* create *) unfold op_create, op_create_gen.
      assert (Hb := create_build_ext (layer_from_layer size_of) false s q).
      assert (Hm := fun m clean => create_build_has_model s q m clean Hs Ho).
      destruct (create_build size_of (layer_from_layer size_of) false s q) as [r7 [[m' clean]|]]; cbn [fst snd] in *.
      2:{ intros Hi. destruct (Ext_no_write _ _ _ _ Hb Hi). }
      specialize (Hm m' clean eq_refl).
      set (g := get_existing (readable_names s) (cr_name q)).
      assert (Hw : forall r9, Ext (write_manifest r7 g (Readable m')) r9 -> In (EWriteMan n (Readable m)) (rt r9) -> has_model_b m = true).
      { intros r9 He Hi. apply (Ext_no_write _ _ _ _ He) in Hi. unfold write_manifest in Hi. cbn in Hi.
        rewrite <- app_assoc in Hi. apply in_app_iff in Hi as [Hi|[Hi|[Hi|[]]]]; [destruct (Ext_no_write _ _ _ _ Hb Hi) | discriminate | injection Hi as _ <-; exact Hm]. }
      destruct (mget g s) as [[mo|]|]; cbn [fst]; try (apply Hw, Ext_refl). apply Hw. unfold remove_layers. apply fold_layer_remove_ext.
    - (* copy *) unfold op_copy, op_copy_gen. destruct (name_eqb _ _); cbn; [intros []|].
      destruct (mget (get_existing (readable_names s) a) s) as [ms|] eqn:Es; cbn; [|intros []].
      unfold write_manifest. cbn. intros [Hi|[Hi|[]]]; [discriminate|]. injection Hi as _ ->.
      apply (Hs (get_existing (readable_names s) a) m). apply mget_listed, Es.
    - (* delete *) unfold op_delete, op_delete_gen. destruct (mget _ s) as [[mo|]|]; cbn; try (intros []).
      unfold remove_layers. intros Hi. apply (Ext_no_write _ _ _ _ (fold_layer_remove_ext _ _)) in Hi. cbn in Hi. destruct Hi as [Hi|[]]. discriminate.
    - (* pull *) unfold op_pull, op_pull_gen. destruct sv as [v|]; cbn; [|intros []].
      cbn in Ho.
      assert (Hd := fun ls cs r => download_all_ext ls cs r).
      assert (Hv := fun dl r => verify_all_ext dl r).
      specialize (Hd (all_layers (sv_manifest v)) (sv_contents v) (init s)).
      destruct (download_all size_of (init s) (all_layers (sv_manifest v)) (sv_contents v)) as [r1 [dl|]]; cbn [fst] in *.
      2:{ intros Hi. destruct (Ext_no_write _ _ _ _ Hd Hi). }
      specialize (Hv dl r1). destruct (verify_all r1 dl) as [r2 ok]. cbn [fst] in Hv.
      destruct ok; cbn [negb fst]; [|intros Hi; destruct (Ext_no_write _ _ _ _ (Ext_trans _ _ _ Hd Hv) Hi)].
      intros Hi. apply (Ext_no_write _ _ _ _ (delete_unused_ext _ _)) in Hi. unfold write_manifest in Hi. cbn in Hi.
      rewrite <- app_assoc in Hi. apply in_app_iff in Hi as [Hi|[Hi|[Hi|[]]]];
        [destruct (Ext_no_write _ _ _ _ (Ext_trans _ _ _ Hd Hv) Hi) | discriminate | injection Hi as _ <-; exact Ho].
    - (* start-up *) intros Hi. destruct (Ext_no_write _ _ _ _ (op_startup_ext s) Hi).
  Qed.

  Lemma exec_HM s o : Inv s -> op_guard size_of s o = true -> HM s -> op_has_model o = true -> HM (exec size_of s o).
  Proof.
    intros HI Hg Hs Ho. rewrite (exec_effects size_of s o HI Hg). apply HM_effects; [exact Hs|].
    intros n m. apply (op_writes_model s o n m HI Hs Ho).
  Qed.

  Theorem showable_partial os :
    op_guards size_of empty_store os -> ops_have_model os = true ->
    forall n m, mget n (exec_all size_of empty_store os) = Some (Readable m) -> has_model_b m = true.
  Proof.
    intros Hg Hm n m Hget.
    assert (H : forall s, Inv s -> HM s -> op_guards size_of s os -> HM (exec_all size_of s os)).
    { clear Hg Hget. revert Hm. induction os as [|o os IH]; intros Hm s HI Hs Hg; cbn in *; [exact Hs|].
      apply andb_true_iff in Hm as [Ho Hos]. destruct Hg as [Hg1 Hg2].
      apply IH; [exact Hos | apply exec_inv; assumption | apply exec_HM; assumption | exact Hg2]. }
    apply (H empty_store (Inv_empty size_of) (fun n' m' (Hl : listed empty_store n' m') => match Hl with end) Hg n m). apply mget_listed, Hget.
  Qed.
End More.
