(** * Store/ProofsOps.v — every operation emits only effects that are allowed in the state in which they are emitted *)
From Coq Require Import List NArith Bool Arith Lia.
From V Require Import Common.Bytes Store.Fs Store.Ops Store.ProofsAlist Store.ProofsNames Store.ProofsInv.
Import ListNotations.
Open Scope N_scope.

Arguments new_layer : simpl never.
Arguments layer_remove : simpl never.
Arguments layer_from_layer : simpl never.
Arguments set_layer : simpl never.
Arguments download : simpl never.
Arguments write_manifest : simpl never.
Arguments create_template : simpl never.
Arguments create_tail : simpl never.

Section OpsOk.
  Variable size_of : N -> N.
  Notation Inv := (Inv size_of).
  Notation Rok := (Rok size_of).
  Notation step_ok := (step_ok size_of).
  Notation man_ok := (man_ok size_of).
  Notation blob_ok := (blob_ok size_of).

  Definition canon_l (l : layer) : Prop := dcolon (ldg l) = true.

  (** man_ok only looks at the blobs *)
  Lemma man_ok_ext s s' m : blobs s' = blobs s -> man_ok s m -> man_ok s' m.
  Proof.
    intros He H. unfold ProofsInv.man_ok, ProofsInv.blob_ok, bget in *. rewrite He. exact H.
  Qed.

  Lemma blob_okb_spec s l : blob_okb size_of s l = true <-> blob_ok s l.
  Proof.
    unfold blob_okb, ProofsInv.blob_ok. rewrite !andb_true_iff, N.eqb_eq. split.
    - intros [[H1 H2] H3]. destruct (bget (dhex (ldg l)) s) as [c|]; [|discriminate]. apply N.eqb_eq in H2. subst c. auto.
    - intros [H1 [H2 H3]]. rewrite H2, N.eqb_refl. auto.
  Qed.

  Lemma man_okb_spec s m : man_okb size_of s m = true <-> man_ok s m.
  Proof.
    unfold man_okb, ProofsInv.man_ok. rewrite forallb_forall, Forall_forall. split; intros H l Hl; apply blob_okb_spec, H, Hl.
  Qed.

  (** ** primitives *)
  Lemma new_layer_ok t s0 r mt c :
    Rok t s0 r -> Rok t s0 (fst (new_layer size_of r mt c)) /\ canon_l (snd (new_layer size_of r mt c)).
  Proof.
    intros H. unfold new_layer. split; [|reflexivity].
    assert (H1 : Rok t s0 (emit r (EAddDebris DTemp))) by (apply Rok_emit; [exact H | exact I]).
    destruct (bget c (rs (emit r (EAddDebris DTemp)))); cbn [fst]; apply Rok_emit; try exact H1; cbn; auto.
  Qed.

  Lemma layer_remove_ok t s0 r l : Inv s0 -> Rok t s0 r -> canon_l l -> Rok t s0 (layer_remove r l).
  Proof.
    intros HI H Hc. unfold layer_remove.
    destruct (referenced (rs r) (ldg l)) eqn:Er; [exact H|].
    destruct (bget (dhex (ldg l)) (rs r)); [|exact H].
    apply Rok_emit; [exact H|]. cbn. apply (referenced_false_hex size_of); [eapply Rok_inv; eassumption | exact Hc | exact Er].
  Qed.

  Lemma remove_layer_mt_ok t s0 layers mt : forall r,
    Inv s0 -> Rok t s0 r -> Forall canon_l layers ->
    Rok t s0 (fst (remove_layer_mt r layers mt)) /\ Forall canon_l (snd (remove_layer_mt r layers mt)).
  Proof.
    induction layers as [|l ls IH]; intros r HI H Hc; cbn; [auto|].
    inversion Hc as [|x y Hl Hls]; subst.
    destruct (lmt l =? mt).
    - apply IH; [exact HI | apply layer_remove_ok; assumption | exact Hls].
    - destruct (remove_layer_mt r ls mt) as [r' t'] eqn:E. cbn.
      specialize (IH r HI H Hls). rewrite E in IH. cbn in IH. destruct IH as [IH1 IH2]. split; [exact IH1 | constructor; assumption].
  Qed.

  Lemma fold_layer_remove_ok t s0 ls : forall r,
    Inv s0 -> Rok t s0 r -> Forall canon_l ls -> Rok t s0 (fold_left layer_remove ls r).
  Proof.
    induction ls as [|l ls IH]; intros r HI H Hc; cbn; [exact H|].
    inversion Hc; subst. apply IH; [exact HI | apply layer_remove_ok; assumption | assumption].
  Qed.

  Lemma set_layer_ok t s0 r layers mt c :
    Inv s0 -> Rok t s0 r -> Forall canon_l layers ->
    Rok t s0 (fst (set_layer size_of r layers mt c)) /\ Forall canon_l (snd (set_layer size_of r layers mt c)).
  Proof.
    intros HI H Hc. unfold set_layer. destruct c as [c|]; [|auto].
    destruct (remove_layer_mt r layers mt) as [r1 ls] eqn:E1.
    destruct (remove_layer_mt_ok t s0 layers mt r HI H Hc) as [Ha Hb]. rewrite E1 in Ha, Hb. cbn in Ha, Hb.
    destruct (new_layer size_of r1 mt c) as [r2 l] eqn:E2.
    destruct (new_layer_ok t s0 r1 mt c Ha) as [Hc1 Hc2]. rewrite E2 in Hc1, Hc2. cbn in *.
    split; [exact Hc1|]. apply Forall_app. split; [exact Hb | constructor; [exact Hc2 | constructor]].
  Qed.

  Lemma add_layers_ok t s0 mt cs : forall r layers,
    Rok t s0 r -> Forall canon_l layers ->
    Rok t s0 (fst (add_layers size_of r layers mt cs)) /\ Forall canon_l (snd (add_layers size_of r layers mt cs)).
  Proof.
    induction cs as [|c cs IH]; intros r layers H Hc; cbn; [auto|].
    destruct (new_layer size_of r mt c) as [r1 l] eqn:E.
    destruct (new_layer_ok t s0 r mt c H) as [H1 H2]. rewrite E in H1, H2. cbn in H1, H2.
    apply IH; [exact H1|]. apply Forall_app. split; [exact Hc | constructor; [exact H2 | constructor]].
  Qed.

  Lemma add_detected_ok t s0 det : forall r layers,
    Rok t s0 r -> Forall canon_l layers ->
    Rok t s0 (fst (add_detected size_of r layers det)) /\ Forall canon_l (snd (add_detected size_of r layers det)).
  Proof.
    induction det as [|[mt c] det IH]; intros r layers H Hc; cbn; [auto|].
    destruct (new_layer size_of r mt c) as [r1 l] eqn:E.
    destruct (new_layer_ok t s0 r mt c H) as [H1 H2]. rewrite E in H1, H2. cbn in H1, H2.
    apply IH; [exact H1|]. apply Forall_app. split; [exact Hc | constructor; [exact H2 | constructor]].
  Qed.

  Lemma layer_from_layer_canon s d mt l : layer_from_layer size_of s d mt = Some l -> canon_l l.
  Proof. unfold layer_from_layer. destruct (bget (dhex d) s); [intros [= <-]; reflexivity | discriminate]. Qed.

  Lemma from_layers_canon s ls : forall out, from_layers (layer_from_layer size_of) s ls = Some out -> Forall canon_l out.
  Proof.
    induction ls as [|l ls IH]; intros out; cbn; [intros [= <-]; constructor|].
    destruct (layer_from_layer size_of s (ldg l) (lmt l)) as [l'|] eqn:E; [|discriminate].
    destruct (from_layers (layer_from_layer size_of) s ls) as [t'|]; [|discriminate].
    intros [= <-]. constructor; [eapply layer_from_layer_canon; exact E | apply IH; reflexivity].
  Qed.

  Lemma gguf_parts_ok t s0 d parts : forall r,
    Rok t s0 r ->
    Rok t s0 (fst (gguf_parts size_of (layer_from_layer size_of) r d parts)) /\
    (forall ls, snd (gguf_parts size_of (layer_from_layer size_of) r d parts) = Some ls -> Forall canon_l ls).
  Proof.
    induction parts as [|[mt [c|]] parts IH]; intros r H; cbn.
    - split; [exact H|]. intros ls [= <-]. constructor.
    - destruct (new_layer size_of r mt c) as [r1 l] eqn:E.
      destruct (new_layer_ok t s0 r mt c H) as [H1 H2]. rewrite E in H1, H2. cbn in H1, H2.
      destruct (gguf_parts size_of (layer_from_layer size_of) r1 d parts) as [r' ot] eqn:E2.
      destruct (IH r1 H1) as [Ha Hb]. rewrite E2 in Ha, Hb. cbn in *. split; [exact Ha|].
      intros ls Hls. destruct ot as [t'|]; [|discriminate]. cbn in Hls. injection Hls as <-. constructor; [exact H2 | apply Hb; reflexivity].
    - destruct (layer_from_layer size_of (rs r) d mt) as [l|] eqn:El.
      + destruct (gguf_parts size_of (layer_from_layer size_of) r d parts) as [r' ot] eqn:E2.
        destruct (IH r H) as [Ha Hb]. rewrite E2 in Ha, Hb. cbn in *. split; [exact Ha|].
        intros ls Hls. destruct ot as [t'|]; [|discriminate]. cbn in Hls. injection Hls as <-.
        constructor; [eapply layer_from_layer_canon; exact El | apply Hb; reflexivity].
      + cbn. split; [exact H | discriminate].
  Qed.

  Lemma base_layers_ok t s0 r b :
    Rok t s0 r ->
    Rok t s0 (fst (base_layers size_of (layer_from_layer size_of) r b)) /\
    (forall ls, snd (base_layers size_of (layer_from_layer size_of) r b) = Some ls -> Forall canon_l ls).
  Proof.
    intros H. destruct b as [d parts fail det|src]; cbn.
    - destruct (bget (dhex d) (rs r)); [|split; [exact H | discriminate]].
      destruct (gguf_parts size_of (layer_from_layer size_of) r d parts) as [r1 [ls|]] eqn:E;
        destruct (gguf_parts_ok t s0 d parts r H) as [Ha Hb]; rewrite E in Ha, Hb; cbn in Ha, Hb.
      + destruct (fail || match parts with [] => true | _ => false end); [split; [exact Ha | discriminate]|].
        destruct (add_detected size_of r1 ls det) as [r2 ls'] eqn:E2.
        destruct (add_detected_ok t s0 det r1 ls Ha (Hb ls eq_refl)) as [Hc Hd]. rewrite E2 in Hc, Hd. cbn in *.
        split; [exact Hc|]. intros x [= <-]. exact Hd.
      + split; [exact Ha | discriminate].
    - destruct (mget src (rs r)) as [[m|]|]; cbn; try (split; [exact H | discriminate]).
      split; [exact H|]. intros ls Hls. eapply from_layers_canon; exact Hls.
  Qed.

  (** ** create *)
  Lemma create_template_ok t s0 r layers q :
    Inv s0 -> Rok t s0 r -> Forall canon_l layers ->
    Rok t s0 (fst (fst (create_template size_of r layers q))) /\ Forall canon_l (snd (fst (create_template size_of r layers q))).
  Proof.
    intros HI H Hc. unfold create_template. destruct (cr_template q) as [[valid c]|]; [|auto].
    destruct (remove_layer_mt r layers MT_TEMPLATE) as [ra ls] eqn:E1.
    destruct (remove_layer_mt_ok t s0 layers MT_TEMPLATE r HI H Hc) as [Ha1 Ha2]. rewrite E1 in Ha1, Ha2. cbn in Ha1, Ha2.
    destruct valid; [|auto].
    destruct (new_layer size_of ra MT_TEMPLATE c) as [rc l] eqn:E2.
    destruct (new_layer_ok t s0 ra MT_TEMPLATE c Ha1) as [Hc1 Hc2]. rewrite E2 in Hc1, Hc2. cbn in *.
    split; [exact Hc1|]. apply Forall_app; split; [exact Ha2 | constructor; [exact Hc2 | constructor]].
  Qed.

  Lemma create_tail_ok t s0 r layers q :
    Inv s0 -> Rok t s0 r -> Forall canon_l layers ->
    Rok t s0 (fst (create_tail size_of r layers q)) /\ Forall canon_l (all_layers (snd (create_tail size_of r layers q))).
  Proof.
    intros HI H Hc. unfold create_tail.
    destruct (set_layer size_of r layers MT_SYSTEM (cr_system q)) as [r3 l3] eqn:E3.
    destruct (set_layer_ok t s0 r layers MT_SYSTEM (cr_system q) HI H Hc) as [H3 C3]. rewrite E3 in H3, C3. cbn in H3, C3.
    destruct (add_layers size_of r3 l3 MT_LICENSE (cr_license q)) as [r4 l4] eqn:E4.
    destruct (add_layers_ok t s0 MT_LICENSE (cr_license q) r3 l3 H3 C3) as [H4 C4]. rewrite E4 in H4, C4. cbn in H4, C4.
    destruct (set_layer size_of r4 l4 MT_PARAMS (cr_params q)) as [r5 l5] eqn:E5.
    destruct (set_layer_ok t s0 r4 l4 MT_PARAMS (cr_params q) HI H4 C4) as [H5 C5]. rewrite E5 in H5, C5. cbn in H5, C5.
    destruct (set_layer size_of r5 l5 MT_MESSAGES (cr_messages q)) as [r6 l6] eqn:E6.
    destruct (set_layer_ok t s0 r5 l5 MT_MESSAGES (cr_messages q) HI H5 C5) as [H6 C6]. rewrite E6 in H6, C6. cbn in H6, C6.
    destruct (new_layer size_of r6 MT_CONFIG (cr_config q)) as [r7 cfg] eqn:E7.
    destruct (new_layer_ok t s0 r6 MT_CONFIG (cr_config q) H6) as [H7 C7]. rewrite E7 in H7, C7. cbn in H7, C7.
    cbn. split; [exact H7|]. unfold all_layers; cbn. apply Forall_app; split; [exact C6 | constructor; [exact C7 | constructor]].
  Qed.

  Lemma create_build_ok t s q :
    Inv s ->
    Rok t s (fst (create_build size_of (layer_from_layer size_of) false s q)) /\
    (forall m clean, snd (create_build size_of (layer_from_layer size_of) false s q) = Some (m, clean) -> Forall canon_l (all_layers m)).
  Proof.
    intros HI. unfold create_build.
    destruct (base_layers size_of (layer_from_layer size_of) (init s) (cr_base q)) as [rb ob] eqn:Eb.
    destruct (base_layers_ok t s (init s) (cr_base q) (Rok_init size_of t s)) as [Hb1 Hb2]. rewrite Eb in Hb1, Hb2. cbn in Hb1, Hb2.
    destruct ob as [layers|].
    2:{ destruct (cr_base q); cbn; split; try exact Hb1; discriminate. }
    assert (Hl0 := Hb2 layers eq_refl).
    destruct (create_template size_of rb layers q) as [[r2 layers2] okt] eqn:Et.
    destruct (create_template_ok t s rb layers q HI Hb1 Hl0) as [Ht1 Ht2]. rewrite Et in Ht1, Ht2. cbn in Ht1, Ht2.
    destruct okt; cbn [negb]; [|cbn; split; [exact Ht1 | discriminate]].
    destruct (create_tail size_of r2 layers2 q) as [r7 m] eqn:E7.
    destruct (create_tail_ok t s r2 layers2 q HI Ht1 Ht2) as [H7 C7]. rewrite E7 in H7, C7. cbn in H7, C7.
    cbn. split; [exact H7|]. intros m' clean [= <- _]. exact C7.
  Qed.

  (** a write at the canonicalised name keeps the listed names unique up to case *)
  Lemma unique_at_existing s n r :
    Inv s -> Rok (Some (get_existing (readable_names s) n)) s r ->
    forall e me, listed (rs r) e me -> name_eqfold e (get_existing (readable_names s) n) = true -> e = get_existing (readable_names s) n.
  Proof.
    intros HI H e me Hl Hf. set (g := get_existing (readable_names s) n) in *.
    destruct (name_eq_dec e g) as [He|He]; [exact He|]. exfalso.
    assert (Hl0 : listed s e me) by (apply (Rok_listed size_of (Some g) s r e me H); [congruence | exact Hl]).
    assert (Hin : In e (readable_names s)) by (apply readable_names_spec; eauto).
    assert (Hg : In g (readable_names s)).
    { eapply get_existing_stored; [exact Hin|]. eapply name_eqfold_trans; [exact Hf | apply get_existing_eqfold]. }
    apply readable_names_spec in Hg as [mg Hg]. apply He. eapply (inv_case size_of s HI); eassumption.
  Qed.

  Lemma write_manifest_ok s n r m :
    Inv s -> Rok (Some (get_existing (readable_names s) n)) s r -> man_ok (rs r) m ->
    Rok (Some (get_existing (readable_names s) n)) s (write_manifest r (get_existing (readable_names s) n) (Readable m)).
  Proof.
    intros HI H Hok. unfold write_manifest. set (g := get_existing (readable_names s) n) in *.
    assert (H1 : Rok (Some g) s (emit r (ETruncMan g))) by (apply Rok_emit; [exact H | reflexivity]).
    apply Rok_emit; [exact H1|]. cbn [ProofsInv.step_ok]. split; [reflexivity|]. split.
    - eapply man_ok_ext; [|exact Hok]. reflexivity.
    - apply (unique_at_existing s n _ HI H1).
  Qed.

  Lemma listed_canon s n m : Inv s -> listed s n m -> Forall canon_l (all_layers m).
  Proof.
    intros HI Hl. assert (H := inv_mans size_of s HI n m Hl). unfold ProofsInv.man_ok in H.
    rewrite Forall_forall in *. intros l Hin. apply (H l Hin).
  Qed.

  Lemma op_create_ok s q :
    Inv s -> create_check size_of s q = true ->
    Rok (Some (get_existing (readable_names s) (cr_name q))) s (fst (op_create size_of s q)).
  Proof.
    intros HI Hck. unfold op_create, op_create_gen, create_check in *.
    set (g := get_existing (readable_names s) (cr_name q)) in *.
    destruct (create_build size_of (layer_from_layer size_of) false s q) as [r7 [[m clean]|]] eqn:Eb;
      destruct (create_build_ok (Some g) s q HI) as [H7 C7]; rewrite Eb in H7, C7; cbn in H7, C7; [|exact H7].
    apply man_okb_spec in Hck.
    assert (H8 := write_manifest_ok s (cr_name q) r7 m HI H7 Hck). fold g in H8.
    destruct (mget g s) as [[mo|]|] eqn:Eo; cbn; try exact H8.
    unfold remove_layers. apply fold_layer_remove_ok; [exact HI | exact H8|].
    eapply listed_canon; [exact HI | apply mget_listed; exact Eo].
  Qed.

  (** ** blob upload *)
  Lemma op_blob_ok s d c : Rok None s (fst (op_blob size_of s d c)).
  Proof.
    unfold op_blob. destruct (bget (dhex d) s); [apply Rok_init|].
    destruct (new_layer size_of (init s) 0 c) as [r1 l] eqn:E. cbn.
    destruct (new_layer_ok None s (init s) 0 c (Rok_init size_of None s)) as [H _]. rewrite E in H. exact H.
  Qed.

  (** ** copy *)
  Lemma op_copy_ok s a b : Inv s -> Rok (Some (get_existing (readable_names s) b)) s (fst (op_copy s a b)).
  Proof.
    intros HI. unfold op_copy, op_copy_gen. set (g := get_existing (readable_names s) b).
    destruct (name_eqb (get_existing (readable_names s) a) g); [apply Rok_init|].
    destruct (mget (get_existing (readable_names s) a) s) as [ms|] eqn:Es; [|apply Rok_init]. cbn.
    destruct ms as [m|].
    - apply write_manifest_ok; [exact HI | apply Rok_init|]. cbn. apply (inv_mans size_of s HI (get_existing (readable_names s) a) m). apply mget_listed. exact Es.
    - unfold write_manifest. apply Rok_emit; [apply Rok_emit; [apply Rok_init | reflexivity] | reflexivity].
  Qed.

  (** ** delete *)
  Lemma op_delete_ok s n : Inv s -> Rok (Some (get_existing (readable_names s) n)) s (fst (op_delete s n)).
  Proof.
    intros HI. unfold op_delete, op_delete_gen. set (g := get_existing (readable_names s) n).
    destruct (mget g s) as [[m|]|] eqn:E; try apply Rok_init. cbn.
    unfold remove_layers. apply fold_layer_remove_ok; [exact HI | apply Rok_emit; [apply Rok_init | reflexivity]|].
    eapply listed_canon; [exact HI | apply mget_listed; exact E].
  Qed.

  (** ** deleteUnusedLayers *)
  Lemma delete_unused_ok t s0 dm : forall r,
    Inv s0 -> Rok t s0 r -> Forall (fun d => dcolon d = true) dm -> Rok t s0 (delete_unused r dm).
  Proof.
    unfold delete_unused. induction dm as [|d dm IH]; intros r HI H Hc; cbn; [exact H|].
    inversion Hc as [|x y Hd Hdm]; subst. apply IH; [exact HI | | exact Hdm].
    destruct (referenced (rs r) d) eqn:Er; [exact H|].
    destruct (bget (dhex d) (rs r)); [|exact H].
    apply Rok_emit; [exact H|]. cbn. apply (referenced_false_hex size_of); [eapply Rok_inv; eassumption | exact Hd | exact Er].
  Qed.

  (** ** start-up *)
  Lemma fix_blobs_ok s : Inv s -> Rok None s (fix_blobs (init s)).
  Proof.
    intros HI. unfold fix_blobs. cbn [init rs].
    assert (HL := inv_legacy size_of s HI).
    assert (G : forall ds r, (forall h c, In (DColon h c) ds -> c = h) -> Rok None s r -> Rok None s (fold_left fix_step ds r)).
    { induction ds as [|d ds IH]; intros r Hd H; cbn [fold_left]; [exact H|].
      apply IH; [intros h c Hin; apply (Hd h c); right; exact Hin|].
      destruct d as [| | |h c|h]; cbn [fix_step]; try exact H.
      - apply Rok_emit; [exact H|]. cbn. apply (Hd h c). left; reflexivity.
      - apply Rok_emit; [exact H | exact I]. }
    apply G; [exact HL | apply Rok_init].
  Qed.

  Lemma startup_rest_ok t s0 r : Inv s0 -> Rok t s0 r -> Rok t s0 (startup_rest r).
  Proof.
    intros HI H. unfold startup_rest. destruct (has_unreadable (rs r)); [exact H|].
    apply delete_unused_ok; [exact HI | | apply Forall_forall; intros d Hd; apply in_map_iff in Hd as [p [<- _]]; reflexivity].
    generalize (debris (rs r)) as ds. intros ds. revert H. generalize r as r'.
    induction ds as [|d ds IH]; intros r' H; cbn; [exact H|]. apply IH. apply Rok_emit; [exact H | exact I].
  Qed.

  Lemma op_startup_ok s : Inv s -> Rok None s (fst (op_startup s)).
  Proof. intros HI. unfold op_startup. cbn [fst]. apply startup_rest_ok; [exact HI | apply fix_blobs_ok, HI]. Qed.

  (** ** pull *)
  Definition present (s : store) (l : layer) : Prop := bget (dhex (ldg l)) s = Some (dhex (ldg l)).

  Lemma emit_debris_blobs r e : (match e with EAddDebris _ | ERmDebris _ => True | _ => False end) -> blobs (rs (emit r e)) = blobs (rs r).
  Proof. destruct e; cbn; try contradiction; reflexivity. Qed.

  Lemma emit_triv t s0 r e :
    Rok t s0 r -> (match e with EAddDebris (DColon _ _) => False | EAddDebris _ | ERmDebris _ | EPartRec _ _ _ | ERmPart _ _ => True | _ => False end) ->
    Rok t s0 (emit r e) /\ blobs (rs (emit r e)) = blobs (rs r).
  Proof.
    intros H He. split; [apply Rok_emit; [exact H|] | ]; destruct e as [d|d| | | | | | | | | | ]; try contradiction; try reflexivity; try exact I.
    destruct d; try contradiction; exact I.
  Qed.

  Ltac triv_emit H Hb :=
    match goal with
    | |- context [emit ?r ?e] =>
        let H' := fresh "H" in let Hb' := fresh "Hb" in
        destruct (emit_triv _ _ r e H I) as [H' Hb']
    end.

  Lemma download_ok t s0 r l oc :
    Inv s0 -> Rok t s0 r ->
    Rok t s0 (fst (download size_of r l oc)) /\
    (forall hit, snd (download size_of r l oc) = Some hit -> present (rs (fst (download size_of r l oc))) l) /\
    (forall l', present (rs r) l' -> present (rs (fst (download size_of r l oc))) l').
  Proof.
    intros HI H. unfold download, download_gen, present. set (h := dhex (ldg l)).
    destruct (bget h (rs r)) as [c0|] eqn:Eb.
    - cbn. split; [exact H|]. split; [|auto]. intros _ _. fold h. rewrite Eb. f_equal. eapply bget_intact; [eapply Rok_inv; eassumption | exact Eb].
    - (* every run reached by debris / part-record effects keeps the blobs *)
      assert (G : forall r1, Rok t s0 r1 -> blobs (rs r1) = blobs (rs r) -> forall st0 c,
                 let r2 := emit r1 (EAddDebris (DPartial h)) in
                 let r3 := match st0 with Some PRTodo => emit (emit r2 (EPartRec h 0 PRTorn)) (EPartRec h 0 PRDone) | _ => r2 end in
                 let r4 := match st0 with Some _ => emit r3 (ERmPart h 0) | None => r3 end in
                 let res := if dcolon (ldg l) && (c =? h) then (emit r4 (ERenPartial h c), Some false) else (emit r4 (ERmDebris (DPartial h)), None) in
                 Rok t s0 (fst res) /\
                 (forall hit, snd res = Some hit -> bget h (rs (fst res)) = Some h) /\
                 (forall l', bget (dhex (ldg l')) (rs r) = Some (dhex (ldg l')) -> bget (dhex (ldg l')) (rs (fst res)) = Some (dhex (ldg l')))).
      { intros r1 H1 B1 st0 c r2 r3 r4 res.
        destruct (emit_triv t s0 r1 (EAddDebris (DPartial h)) H1 I) as [H2 B2]. fold r2 in H2, B2.
        assert (H3 : Rok t s0 r3 /\ blobs (rs r3) = blobs (rs r)).
        { subst r3. destruct st0 as [[| |]|]; try (split; [exact H2 | congruence]).
          destruct (emit_triv t s0 r2 (EPartRec h 0 PRTorn) H2 I) as [Ha Ba].
          destruct (emit_triv t s0 _ (EPartRec h 0 PRDone) Ha I) as [Hb Bb]. split; [exact Hb | congruence]. }
        destruct H3 as [H3 B3].
        assert (H4 : Rok t s0 r4 /\ blobs (rs r4) = blobs (rs r)).
        { subst r4. destruct st0 as [st|]; [|split; assumption]. destruct (emit_triv t s0 r3 (ERmPart h 0) H3 I) as [Ha Ba]. split; [exact Ha | congruence]. }
        destruct H4 as [H4 B4]. subst res.
        destruct (dcolon (ldg l) && (c =? h)) eqn:Ec; cbn [fst snd].
        - apply andb_true_iff in Ec as [_ Ec]. apply N.eqb_eq in Ec. subst c.
          split; [apply Rok_emit; [exact H4 | reflexivity]|]. split.
          + intros _ _. unfold bget; cbn. apply bget_aset_same.
          + intros l' Hp. unfold bget in *; cbn. rewrite B4. destruct (N.eq_dec (dhex (ldg l')) h) as [->|Hn]; [apply bget_aset_same | rewrite bget_aset_other by exact Hn; exact Hp].
        - destruct (emit_triv t s0 r4 (ERmDebris (DPartial h)) H4 I) as [Ha Ba]. split; [exact Ha|]. split; [discriminate|].
          intros l' Hp. unfold bget in *. rewrite Ba, B4. exact Hp. }
      assert (F : forall r1, Rok t s0 r1 -> blobs (rs r1) = blobs (rs r) ->
                  forall x, (match oc with
                             | None => None
                             | Some c => if size_of c =? 0 then Some (r1, None)
                                         else Some (emit (emit r1 (EPartRec h 0 PRTorn)) (EPartRec h 0 PRTodo), Some PRTodo)
                             end) = Some x -> Rok t s0 (fst x) /\ blobs (rs (fst x)) = blobs (rs r)).
      { intros r1 H1 B1 x. destruct oc as [c|]; [|discriminate]. destruct (size_of c =? 0); intros [= <-]; cbn [fst]; [auto|].
        destruct (emit_triv t s0 r1 (EPartRec h 0 PRTorn) H1 I) as [Ha Ba]. destruct (emit_triv t s0 _ (EPartRec h 0 PRTodo) Ha I) as [Hb Bb].
        split; [exact Hb | congruence]. }
      destruct (emit_triv t s0 r (ERmPart h 0) H I) as [Hrm Brm].
      set (hp := existsb (dfile_eqb (DPartial h)) (debris (rs r))).
      set (prep := match partrec_state h 0 (debris (rs r)) with
                   | Some PRTorn => _ | Some st => _ | None => _ end).
      assert (P : forall x, prep = Some x -> Rok t s0 (fst x) /\ blobs (rs (fst x)) = blobs (rs r)).
      { subst prep. intros x. destruct (partrec_state h 0 (debris (rs r))) as [[| |]|]; cbn [negb orb].
        - apply (F _ Hrm Brm).
        - destruct hp; [intros [= <-]; auto | apply (F _ Hrm Brm)].
        - destruct hp; [intros [= <-]; auto | apply (F _ Hrm Brm)].
        - apply (F r H eq_refl). }
      destruct prep as [[r1 st0]|] eqn:Ep.
      + destruct (P _ eq_refl) as [H1 B1]. cbn [fst] in H1, B1. destruct oc as [c|].
        * destruct (G r1 H1 B1 st0 c) as [G1 [G2 G3]]. split; [exact G1|]. split; [exact G2 | exact G3].
        * cbn [fst snd]. split; [exact H1|]. split; [discriminate|]. intros l' Hp. unfold bget in *. rewrite B1. exact Hp.
      + cbn [fst snd].
        assert (Q : forall rq, (rq = r \/ rq = emit r (ERmPart h 0)) ->
                    Rok t s0 rq /\ (forall hit : bool, @None bool = Some hit -> bget (dhex (ldg l)) (rs rq) = Some (dhex (ldg l))) /\
                    (forall l', bget (dhex (ldg l')) (rs r) = Some (dhex (ldg l')) -> bget (dhex (ldg l')) (rs rq) = Some (dhex (ldg l')))).
        { intros rq [-> | ->]; (split; [assumption|]; split; [discriminate|]); intros l' Hp; [exact Hp | unfold bget in *; rewrite Brm; exact Hp]. }
        destruct (partrec_state h 0 (debris (rs r))) as [[| |]|]; cbn [negb orb]; try destruct hp; apply Q; auto.
  Qed.

  Lemma download_all_ok t s0 ls : forall r cs,
    Inv s0 -> Rok t s0 r -> contents_ok ls cs = true ->
    Rok t s0 (fst (download_all size_of r ls cs)) /\
    (forall dl, snd (download_all size_of r ls cs) = Some dl ->
       Forall (present (rs (fst (download_all size_of r ls cs)))) ls /\ map fst dl = ls) /\
    (forall l', present (rs r) l' -> present (rs (fst (download_all size_of r ls cs))) l').
  Proof.
    induction ls as [|l ls IH]; intros r cs HI H Hc; cbn [download_all].
    - cbn. split; [exact H|]. split; [intros dl [= <-]; split; constructor | auto].
    - cbn [contents_ok] in Hc. apply andb_true_iff in Hc as [Hc1 Hc2].
      destruct (download_ok t s0 r l (hd None cs) HI H) as [Hd1 [Hd2 Hd3]].
      destruct (download size_of r l (hd None cs)) as [r1 [hit|]] eqn:Ed; cbn [fst snd] in Hd1, Hd2, Hd3.
      + destruct (IH r1 (tl cs) HI Hd1 Hc2) as [Ha [Hb Hc']].
        destruct (download_all size_of r1 ls (tl cs)) as [r2 rest] eqn:Ea. cbn [fst snd] in *.
        split; [exact Ha|]. split.
        * intros dl Hdl. destruct rest as [rest|]; [|discriminate]. cbn in Hdl. injection Hdl as <-.
          destruct (Hb rest eq_refl) as [Hb1 Hb2]. split; [constructor; [apply Hc', (Hd2 hit eq_refl) | exact Hb1] | cbn; f_equal; exact Hb2].
        * intros l' Hp. apply Hc', Hd3, Hp.
      + cbn [fst snd]. split; [exact Hd1|]. split; [discriminate | exact Hd3].
  Qed.

  Lemma verify_all_noop s0 t r dl :
    Inv s0 -> Rok t s0 r -> Forall (fun p => canon_l (fst p) /\ present (rs r) (fst p)) dl -> verify_all r dl = (r, true).
  Proof.
    intros HI H. induction dl as [|[l hit] dl IH]; intros Hf; cbn; [reflexivity|].
    inversion Hf as [|x y [Hc Hp] Hrest]; subst. cbn in Hc, Hp.
    destruct hit; [apply IH, Hrest|]. unfold present in Hp. rewrite Hp. unfold canon_l in Hc. rewrite Hc, N.eqb_refl. cbn. apply IH, Hrest.
  Qed.

  Lemma reorder_incl ord dm d : In d (reorder ord dm) -> In d dm.
  Proof.
    unfold reorder. rewrite in_app_iff, in_flat_map. intros [[h [_ H]]|H]; apply filter_In in H; apply H.
  Qed.

  Lemma op_pull_ok s n sv ord :
    Inv s -> (match sv with Some v => served_ok size_of v = true | None => True end) ->
    Rok (Some (get_existing (readable_names s) n)) s (fst (op_pull size_of s n sv ord)).
  Proof.
    intros HI Hg. unfold op_pull, op_pull_gen. set (g := get_existing (readable_names s) n).
    destruct sv as [v|]; [|apply Rok_init].
    unfold served_ok in Hg. apply andb_true_iff in Hg as [Hg1 Hg2]. rewrite forallb_forall in Hg1.
    destruct (download_all_ok (Some g) s (all_layers (sv_manifest v)) (init s) (sv_contents v) HI (Rok_init size_of _ s) Hg2) as [Ha [Hb _]].
    destruct (download_all size_of (init s) (all_layers (sv_manifest v)) (sv_contents v)) as [r1 [dl|]] eqn:Ed; cbn [fst snd] in *; [|exact Ha].
    destruct (Hb dl eq_refl) as [Hp Hm].
    assert (Hv : verify_all r1 dl = (r1, true)).
    { apply (verify_all_noop s (Some g)); [exact HI | exact Ha|]. rewrite Forall_forall in *. intros [l hit] Hin.
      assert (Hl : In l (all_layers (sv_manifest v))) by (rewrite <- Hm; apply in_map_iff; exists (l, hit); auto).
      cbn. split; [|apply Hp, Hl]. specialize (Hg1 l Hl). apply andb_true_iff in Hg1 as [Hg1 _]. exact Hg1. }
    rewrite Hv. cbn [negb].
    assert (Hok : man_ok (rs r1) (sv_manifest v)).
    { unfold ProofsInv.man_ok. rewrite Forall_forall in *. intros l Hl. specialize (Hg1 l Hl). apply andb_true_iff in Hg1 as [Hc Hs].
      split; [exact Hc|]. split; [apply Hp, Hl | apply N.eqb_eq; exact Hs]. }
    cbn [fst]. apply delete_unused_ok; [exact HI | apply write_manifest_ok; assumption|].
    apply Forall_forall. intros d Hd. apply reorder_incl in Hd. apply filter_In in Hd as [Hd _].
    destruct (mget g s) as [[mo|]|] eqn:Eo; try contradiction.
    apply in_map_iff in Hd as [l [<- Hl]].
    assert (Hcan := listed_canon s g mo HI (mget_listed _ _ _ Eo)). rewrite Forall_forall in Hcan. apply Hcan, Hl.
  Qed.

  (** ** every operation *)
  Theorem op_run_ok s o : Inv s -> op_guard size_of s o = true -> Rok (op_target s o) s (fst (op_run size_of s o)).
  Proof.
    intros HI Hg. destruct o as [d c|q|a b|n|n sv ord|]; cbn [op_run op_target op_guard] in *.
    - apply op_blob_ok.
    - apply op_create_ok; assumption.
    - apply op_copy_ok; assumption.
    - apply op_delete_ok; assumption.
    - apply op_pull_ok; [assumption | destruct sv; [exact Hg | exact I]].
    - apply op_startup_ok; assumption.
  Qed.
End OpsOk.
