(** * Store/ProofsTop.v — histories, crashes, start-up prune: the statements behind Properties_C04 / Properties_C12 *)
From Coq Require Import List NArith Bool Arith Lia.
From V Require Import Common.Bytes Store.Fs Store.Ops Store.ProofsAlist Store.ProofsNames Store.ProofsInv Store.ProofsOps.
Import ListNotations.
Open Scope N_scope.

(** what can happen to a store: an operation runs to completion, or the server is killed after the first [k]
    effects of an operation and restarted *)
Inductive event := EvOp (o : op) | EvCrash (o : op) (k : nat).

Definition ev_op (e : event) : op := match e with EvOp o | EvCrash o _ => o end.

(** the name an operation is asked to work on *)
Definition op_name (o : op) : option name :=
  match o with
  | OCreate q => Some (cr_name q)
  | OCopy _ dst => Some dst
  | ODelete n => Some n
  | OPull n _ _ => Some n
  | OBlob _ _ | OStartup => None
  end.

Section Top.
  Variable size_of : N -> N.
  Notation Inv := (Inv size_of).
  Notation Rok := (Rok size_of).
  Notation man_ok := (man_ok size_of).
  Notation exec := (exec size_of).
  Notation crash := (crash size_of).
  Notation recover := (recover size_of).
  Notation op_guard := (op_guard size_of).

  Definition ev_step (s : store) (e : event) : store :=
    match e with
    | EvOp o => exec s o
    | EvCrash o k => recover (crash s o k)
    end.
  Definition ev_run (s : store) (es : list event) : store := fold_left ev_step es s.

  (** every operation meets its guard in the store it is started in *)
  Fixpoint guards (s : store) (es : list event) : Prop :=
    match es with
    | [] => True
    | e :: t => op_guard s (ev_op e) = true /\ guards (ev_step s e) t
    end.

  Fixpoint op_guards (s : store) (os : list op) : Prop :=
    match os with
    | [] => True
    | o :: t => op_guard s o = true /\ op_guards (exec s o) t
    end.

  (** ** one operation *)
  Lemma exec_inv s o : Inv s -> op_guard s o = true -> Inv (exec s o).
  Proof. intros HI Hg. unfold Ops.exec. eapply Rok_inv; [exact HI | apply op_run_ok; assumption]. Qed.

  Lemma effects_ok s o : Inv s -> op_guard s o = true -> ok_trace size_of (op_target s o) s (effects size_of s o).
  Proof. intros HI Hg. apply (op_run_ok size_of s o HI Hg). Qed.

  Lemma exec_effects s o : Inv s -> op_guard s o = true -> exec s o = apply_list s (effects size_of s o).
  Proof. intros HI Hg. apply (op_run_ok size_of s o HI Hg). Qed.

  Lemma crash_inv s o k : Inv s -> op_guard s o = true -> Inv (crash s o k).
  Proof.
    intros HI Hg. unfold Ops.crash. eapply ok_trace_inv; [exact HI | apply ok_trace_firstn, effects_ok; assumption].
  Qed.

  Lemma recover_inv s : Inv s -> Inv (recover s).
  Proof. intros HI. unfold Ops.recover. apply exec_inv; [exact HI | reflexivity]. Qed.

  Lemma target_eqfold s o t n : op_target s o = Some t -> op_name o = Some n -> name_eqfold t n = true.
  Proof.
    destruct o; cbn; try discriminate; intros [= <-] [= <-]; apply get_existing_eqfold.
  Qed.

  (** the frame of a complete or interrupted operation *)
  Lemma prefix_frame s o k n :
    Inv s -> op_guard s o = true -> op_target s o <> Some n ->
    mget n (crash s o k) = mget n s /\
    (forall m l, listed s n m -> In l (all_layers m) -> bget (dhex (ldg l)) (crash s o k) = bget (dhex (ldg l)) s).
  Proof.
    intros HI Hg Hn. assert (Hok := ok_trace_firstn size_of _ _ _ k (effects_ok s o HI Hg)). unfold Ops.crash. split.
    - eapply ok_trace_mans; eassumption.
    - intros m l Hl Hin. eapply ok_trace_blob; eassumption.
  Qed.

  Lemma exec_frame s o n :
    Inv s -> op_guard s o = true -> op_target s o <> Some n ->
    mget n (exec s o) = mget n s /\
    (forall m l, listed s n m -> In l (all_layers m) -> bget (dhex (ldg l)) (exec s o) = bget (dhex (ldg l)) s).
  Proof.
    intros HI Hg Hn. rewrite (exec_effects s o HI Hg).
    assert (Hok := effects_ok s o HI Hg). split.
    - eapply ok_trace_mans; eassumption.
    - intros m l Hl Hin. eapply ok_trace_blob; eassumption.
  Qed.

  (** start-up never touches a manifest nor a blob that a readable manifest uses *)
  Lemma recover_frame s n :
    Inv s ->
    mget n (recover s) = mget n s /\
    (forall m l, listed s n m -> In l (all_layers m) -> bget (dhex (ldg l)) (recover s) = bget (dhex (ldg l)) s).
  Proof.
    intros HI. unfold Ops.recover. apply (exec_frame s OStartup n HI eq_refl). cbn. discriminate.
  Qed.

  Lemma recover_listed s n m : Inv s -> (listed (recover s) n m <-> listed s n m).
  Proof.
    intros HI. unfold Ops.recover, Ops.exec. apply (Rok_listed size_of None s _ n m); [|discriminate].
    apply (op_run_ok size_of s OStartup HI eq_refl).
  Qed.

  (** ** histories *)
  Lemma ev_step_inv s e : Inv s -> op_guard s (ev_op e) = true -> Inv (ev_step s e).
  Proof.
    intros HI Hg. destruct e as [o|o k]; cbn in *; [apply exec_inv; assumption | apply recover_inv, crash_inv; assumption].
  Qed.

  Lemma ev_run_inv es : forall s, Inv s -> guards s es -> Inv (ev_run s es).
  Proof.
    induction es as [|e es IH]; intros s HI Hg; cbn in *; [exact HI|].
    destruct Hg as [H1 H2]. apply IH; [apply ev_step_inv; assumption | exact H2].
  Qed.

  Lemma exec_all_inv os : forall s, Inv s -> op_guards s os -> Inv (exec_all size_of s os).
  Proof.
    induction os as [|o os IH]; intros s HI Hg; cbn in *; [exact HI|].
    destruct Hg as [H1 H2]. apply IH; [apply exec_inv; assumption | exact H2].
  Qed.

  (** what the invariant says about what is listed *)
  Lemma inv_listed_complete s n m l :
    Inv s -> mget n s = Some (Readable m) -> In l (all_layers m) ->
    dcolon (ldg l) = true /\ bget (dhex (ldg l)) s = Some (dhex (ldg l)) /\ lsz l = size_of (dhex (ldg l)).
  Proof.
    intros HI Hm Hl. assert (H := inv_mans size_of s HI n m (mget_listed _ _ _ Hm)).
    unfold ProofsInv.man_ok in H. rewrite Forall_forall in H. apply (H l Hl).
  Qed.

  Lemma inv_case_unique s a b ma mb :
    Inv s -> mget a s = Some (Readable ma) -> mget b s = Some (Readable mb) -> name_eqfold a b = true -> a = b.
  Proof. intros HI Ha Hb. apply (inv_case size_of s HI a b ma mb); apply mget_listed; assumption. Qed.

  (** ** start-up prune is exact *)
  Lemma has_unreadable_mans_eq s s' : mans s' = mans s -> has_unreadable s' = has_unreadable s.
  Proof. unfold has_unreadable. intros ->. reflexivity. Qed.

  Lemma referenced_mans s s' d : mans s' = mans s -> referenced s' d = referenced s d.
  Proof. unfold referenced. intros ->. reflexivity. Qed.

  Lemma referenced_hex_mans s s' h : mans s' = mans s -> referenced_hex s' h = referenced_hex s h.
  Proof. unfold referenced_hex. intros ->. reflexivity. Qed.

  Lemma referenced_to_hex s d : referenced s d = true -> referenced_hex s (dhex d) = true.
  Proof.
    unfold referenced, referenced_hex. intros H. apply existsb_exists in H as [[n ms] [Hin Hu]]. apply existsb_exists.
    exists (n, ms). split; [exact Hin|]. destruct ms as [m|]; [|discriminate]. cbn in *.
    apply existsb_exists in Hu as [l [Hl He]]. apply existsb_exists. exists l. split; [exact Hl|].
    unfold digest_eqb in He. apply andb_true_iff in He as [_ He]. exact He.
  Qed.

  Definition du_step (r : run) (d : digest) : run :=
    if referenced (rs r) d then r
    else match bget (dhex d) (rs r) with Some _ => emit r (ERmBlob (dhex d)) | None => r end.

  Lemma delete_unused_fold r dm : delete_unused r dm = fold_left du_step dm r.
  Proof. reflexivity. Qed.

  Lemma du_step_mans r d : mans (rs (du_step r d)) = mans (rs r) /\ debris (rs (du_step r d)) = debris (rs r).
  Proof.
    unfold du_step. destruct (referenced (rs r) d); [auto|]. destruct (bget (dhex d) (rs r)); auto.
  Qed.

  Lemma du_step_blob r d h :
    bget h (rs (du_step r d)) = if (dhex d =? h) && negb (referenced (rs r) d) then None else bget h (rs r).
  Proof.
    unfold du_step. destruct (referenced (rs r) d) eqn:Er; cbn [negb]; [rewrite andb_false_r; reflexivity|]. rewrite andb_true_r.
    destruct (dhex d =? h) eqn:Eh.
    - apply N.eqb_eq in Eh. subst h. destruct (bget (dhex d) (rs r)) eqn:Eb; [|exact Eb]. unfold bget; cbn. apply bget_adel_same.
    - apply N.eqb_neq in Eh. destruct (bget (dhex d) (rs r)); [|reflexivity]. unfold bget; cbn. apply bget_adel_other. congruence.
  Qed.

  Lemma delete_unused_spec dm : forall r,
    mans (rs (delete_unused r dm)) = mans (rs r) /\ debris (rs (delete_unused r dm)) = debris (rs r) /\
    forall h, bget h (rs (delete_unused r dm)) =
              if existsb (fun d => (dhex d =? h) && negb (referenced (rs r) d)) dm then None else bget h (rs r).
  Proof.
    induction dm as [|d dm IH]; intros r; rewrite delete_unused_fold; cbn [fold_left existsb]; [auto|].
    rewrite <- delete_unused_fold. destruct (IH (du_step r d)) as [H1 [H2 H3]]. destruct (du_step_mans r d) as [Hm Hd].
    split; [congruence|]. split; [congruence|]. intros h. rewrite H3, du_step_blob.
    assert (He : existsb (fun d0 => (dhex d0 =? h) && negb (referenced (rs (du_step r d)) d0)) dm =
                 existsb (fun d0 => (dhex d0 =? h) && negb (referenced (rs r) d0)) dm).
    { clear - Hm. revert Hm. generalize (rs (du_step r d)) as s1. intros s1 Hm. induction dm as [|x dm IHd]; cbn; [reflexivity|].
      rewrite (referenced_mans (rs r) s1 x Hm), IHd. reflexivity. }
    rewrite He.
    destruct ((dhex d =? h) && negb (referenced (rs r) d)) eqn:Ey;
      destruct (existsb (fun d0 => (dhex d0 =? h) && negb (referenced (rs r) d0)) dm) eqn:Ex; cbn [orb]; reflexivity.
  Qed.

  Lemma rm_debris_all ds : forall r,
    debris (rs r) = ds ->
    let r' := fold_left (fun r d => emit r (ERmDebris d)) ds r in
    debris (rs r') = [] /\ mans (rs r') = mans (rs r) /\ blobs (rs r') = blobs (rs r).
  Proof.
    induction ds as [|d ds IH]; intros r Hd; cbn; [auto|].
    assert (Hd' : debris (rs (emit r (ERmDebris d))) = ds).
    { cbn. rewrite Hd. cbn. assert (E : dfile_eqb d d = true) by (destruct d as [|h|h i [| |]|h c|h]; cbn; rewrite ?N.eqb_refl; reflexivity). rewrite E. reflexivity. }
    destruct (IH _ Hd') as [H1 [H2 H3]]. cbn in H2, H3. auto.
  Qed.

  Lemma fix_step_mans r d : mans (rs (fix_step r d)) = mans (rs r).
  Proof. destruct d; reflexivity. Qed.

  Lemma fix_blobs_mans r : mans (rs (fix_blobs r)) = mans (rs r).
  Proof.
    unfold fix_blobs. generalize (debris (rs r)) as ds. intros ds. revert r.
    induction ds as [|d ds IH]; intros r; cbn [fold_left]; [reflexivity|]. rewrite IH. apply fix_step_mans.
  Qed.

  (** after start-up with every manifest readable: no debris, manifests untouched, and a blob file exists iff a
      manifest uses it *)
  Lemma startup_exact s :
    Inv s -> has_unreadable s = false ->
    let s' := recover s in
    debris s' = [] /\ mans s' = mans s /\ (forall h, (exists c, bget h s' = Some c) <-> referenced_hex s' h = true).
  Proof.
    intros HI Hu s'. assert (HI' : Inv s') by (apply recover_inv, HI).
    subst s'. unfold Ops.recover, Ops.exec, op_run, op_startup in *. cbn [fst] in *.
    set (r0 := fix_blobs (init s)) in *.
    assert (Hm0 : mans (rs r0) = mans s) by (apply (fix_blobs_mans (init s))).
    unfold startup_rest in *. rewrite (has_unreadable_mans_eq _ _ Hm0), Hu in *.
    set (r1 := fold_left (fun r d => emit r (ERmDebris d)) (debris (rs r0)) r0) in *.
    destruct (rm_debris_all (debris (rs r0)) r0 eq_refl) as [Hd [Hm Hb]]. fold r1 in Hd, Hm, Hb.
    set (dm := map (fun p : N * N => MkDigest true (fst p)) (blobs (rs r0))) in *.
    destruct (delete_unused_spec dm r1) as [Hm2 [Hd2 Hb2]].
    split; [congruence|]. split; [congruence|]. intros h. split.
    - intros [c Hc]. rewrite Hb2 in Hc.
      destruct (existsb (fun d => (dhex d =? h) && negb (referenced (rs r1) d)) dm) eqn:Ee; [discriminate|].
      assert (Hin : In (MkDigest true h) dm).
      { unfold dm. apply in_map_iff. unfold bget in Hc. rewrite Hb in Hc. apply (aget_In N.eqb Neqb_spec) in Hc. exists (h, c). auto. }
      assert (Hr : referenced (rs r1) (MkDigest true h) = true).
      { destruct (referenced (rs r1) (MkDigest true h)) eqn:Er; [reflexivity|]. exfalso.
        assert (existsb (fun d => (dhex d =? h) && negb (referenced (rs r1) d)) dm = true); [|congruence].
        apply existsb_exists. exists (MkDigest true h). split; [exact Hin|]. cbn. rewrite N.eqb_refl, Er. reflexivity. }
      apply referenced_to_hex in Hr. cbn in Hr. rewrite (referenced_hex_mans (rs r1) _ h Hm2). exact Hr.
    - intros Hr. exists h. apply (referenced_hex_present size_of _ _ HI' Hr).
  Qed.
End Top.
