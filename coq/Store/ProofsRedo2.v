(** * Store/ProofsRedo2.v — repeating an interrupted operation: crash points that leave a torn manifest, creates from
    files, and the exact condition under which the repetition restores the uninterrupted result *)
From Coq Require Import List NArith Bool Arith Lia.
From V Require Import Common.Bytes Store.Fs Store.Ops Store.ProofsAlist Store.ProofsNames Store.ProofsInv Store.ProofsOps Store.ProofsTop Store.ProofsMore Store.ProofsRedo.
Import ListNotations.
Open Scope N_scope.

Arguments new_layer : simpl never.
Arguments layer_remove : simpl never.
Arguments layer_from_layer : simpl never.
Arguments set_layer : simpl never.
Arguments download : simpl never.
Arguments write_manifest : simpl never.
Arguments create_template : simpl never.
Arguments create_tail : simpl never.

Definition oname_eqb (a b : option name) : bool :=
  match a, b with Some x, Some y => name_eqb x y | None, None => true | _, _ => false end.

Section Redo2.
  Variable size_of : N -> N.
  Notation Inv := (Inv size_of).
  Notation exec := (exec size_of).
  Notation crash := (crash size_of).
  Notation recover := (recover size_of).
  Notation op_guard := (op_guard size_of).
  Notation nl := (nl size_of).

  (** ** the one manifest update of an operation, explicitly *)
  Definition op_mid (s : store) (o : op) : list effect :=
    match o with
    | OCreate q =>
        match snd (create_build size_of (layer_from_layer size_of) false s q) with
        | Some (m, _) => [ETruncMan (get_existing (readable_names s) (cr_name q)); EWriteMan (get_existing (readable_names s) (cr_name q)) (Readable m)]
        | None => []
        end
    | OCopy a b =>
        if name_eqb (get_existing (readable_names s) a) (get_existing (readable_names s) b) then []
        else match mget (get_existing (readable_names s) a) s with
             | Some ms => [ETruncMan (get_existing (readable_names s) b); EWriteMan (get_existing (readable_names s) b) ms]
             | None => []
             end
    | ODelete n =>
        match mget (get_existing (readable_names s) n) s with
        | Some (Readable _) => [ERmMan (get_existing (readable_names s) n)]
        | _ => []
        end
    | OPull n (Some v) ord =>
        match snd (op_run size_of s o) with
        | ROk => [ETruncMan (get_existing (readable_names s) n); EWriteMan (get_existing (readable_names s) n) (Readable (sv_manifest v))]
        | _ => []
        end
    | _ => []
    end.

  Definition split_mid (s : store) (o : op) : Prop :=
    exists es1 es2, effects size_of s o = es1 ++ op_mid s o ++ es2 /\ Forall blob_only es1 /\ Forall blob_only es2.

  Lemma split_blob_only s r : Ext (init s) r -> exists es1 es2, rt r = es1 ++ [] ++ es2 /\ Forall blob_only es1 /\ Forall blob_only es2.
  Proof.
    intros H. apply Ext_rt in H as [es [H E]]. exists es, []. cbn in *. rewrite E, app_nil_r. repeat split; try constructor; exact H.
  Qed.

  Lemma split_write s r7 t ms r9 :
    Ext (init s) r7 -> Ext (write_manifest r7 t ms) r9 ->
    exists es1 es2, rt r9 = es1 ++ [ETruncMan t; EWriteMan t ms] ++ es2 /\ Forall blob_only es1 /\ Forall blob_only es2.
  Proof.
    intros H7 H9. apply Ext_rt in H7 as [es1 [H1 E1]]. apply Ext_rt in H9 as [es2 [H2 E2]].
    exists es1, es2. split; [|split; assumption].
    rewrite E2. unfold write_manifest. cbn [emit rt]. rewrite E1. cbn. rewrite <- !app_assoc. reflexivity.
  Qed.

  Lemma effects_split s o : split_mid s o.
  Proof.
    unfold split_mid, effects. destruct o as [d c|q|a b|n|n sv ord|]; cbn [op_run op_mid].
    - unfold op_blob. destruct (bget (dhex d) s); [apply (split_blob_only s), Ext_refl|].
      assert (H := new_layer_ext size_of (init s) 0 c). destruct (new_layer size_of (init s) 0 c). cbn in *. apply (split_blob_only s), H.
    - unfold op_create, op_create_gen. assert (Hb := create_build_ext size_of (layer_from_layer size_of) false s q).
      destruct (create_build size_of (layer_from_layer size_of) false s q) as [r7 [[m clean]|]]; cbn [fst snd] in *; [|apply (split_blob_only s), Hb].
      destruct (mget (get_existing (readable_names s) (cr_name q)) s) as [[mo|]|]; cbn [fst];
        eapply (split_write s r7 _ _ _ Hb); try apply Ext_refl.
      unfold remove_layers. apply fold_layer_remove_ext.
    - unfold op_copy, op_copy_gen. destruct (name_eqb _ _); [apply (split_blob_only s), Ext_refl|].
      destruct (mget (get_existing (readable_names s) a) s) as [ms|]; cbn [fst]; [|apply (split_blob_only s), Ext_refl].
      eapply (split_write s (init s)); apply Ext_refl.
    - unfold op_delete, op_delete_gen. destruct (mget (get_existing (readable_names s) n) s) as [[m|]|]; cbn [fst]; try (apply (split_blob_only s), Ext_refl).
      unfold remove_layers.
      assert (H := fold_layer_remove_ext (all_layers m) (emit (init s) (ERmMan (get_existing (readable_names s) n)))).
      apply Ext_rt in H as [es2 [H2 E2]]. exists [], es2. cbn in *. rewrite E2. repeat split; try constructor; exact H2.
    - destruct sv as [v|]; [|exists [], []; cbn; repeat split; constructor].
      unfold op_pull, op_pull_gen.
      assert (Hd := download_all_ext size_of (all_layers (sv_manifest v)) (sv_contents v) (init s)).
      destruct (download_all size_of (init s) (all_layers (sv_manifest v)) (sv_contents v)) as [r1 [dl|]]; cbn [fst snd] in *; [|apply (split_blob_only s), Hd].
      assert (Hv := verify_all_ext dl r1). destruct (verify_all r1 dl) as [r2 ok]. cbn [fst] in Hv.
      assert (H2 : Ext (init s) r2) by (eapply Ext_trans; eassumption).
      destruct ok; cbn [negb fst snd]; [|apply (split_blob_only s), H2].
      eapply (split_write s r2 _ _ _ H2). apply delete_unused_ext.
    - apply (split_blob_only s), op_startup_ext.
  Qed.

  (** ** the manifests at an arbitrary crash point *)
  Inductive crash_kind (s : store) (o : op) (c : store) : Prop :=
  | CkStart : mans c = mans s -> crash_kind s o c
  | CkTorn t ms : op_mid s o = [ETruncMan t; EWriteMan t ms] -> mans c = aset name_eqb t Unreadable (mans s) -> crash_kind s o c
  | CkEnd : mans c = mans (exec s o) -> crash_kind s o c.

  Lemma crash_kinds s o k : Inv s -> op_guard s o = true -> crash_kind s o (crash s o k).
  Proof.
    intros HI Hg. destruct (effects_split s o) as [es1 [es2 [E [H1 H2]]]].
    assert (Hexec : exec s o = apply_list s (es1 ++ op_mid s o ++ es2)) by (rewrite (exec_effects size_of s o HI Hg), E; reflexivity).
    unfold Ops.crash. rewrite E.
    assert (Hend : forall j, mans (apply_list s (es1 ++ op_mid s o ++ firstn j es2)) = mans (apply_list s (es1 ++ op_mid s o ++ es2))).
    { intros j. rewrite !app_assoc. rewrite (apply_list_app s (es1 ++ op_mid s o) (firstn j es2)), (apply_list_app s (es1 ++ op_mid s o) es2).
      rewrite (blob_only_apply_mans (firstn j es2)) by (apply Forall_firstn, H2). rewrite (blob_only_apply_mans es2) by exact H2. reflexivity. }
    rewrite firstn_app. destruct (Nat.le_gt_cases k (length es1)) as [Hk|Hk].
    - apply CkStart. replace (k - length es1)%nat with 0%nat by lia. cbn [firstn]. rewrite app_nil_r.
      apply blob_only_apply_mans, Forall_firstn, H1.
    - rewrite firstn_all2 by lia. set (j := (k - length es1)%nat). assert (Hj : (1 <= j)%nat) by (unfold j; lia).
      assert (Hsa : mans (apply_list s es1) = mans s) by (apply blob_only_apply_mans, H1).
      rewrite firstn_app.
      destruct (op_mid s o) as [|e1 [|e2 [|e3 mid]]] eqn:Em.
      + apply CkStart. rewrite firstn_nil. cbn [app length]. rewrite apply_list_app, blob_only_apply_mans by (apply Forall_firstn, H2). exact Hsa.
      + (* one effect: a delete *)
        apply CkEnd. destruct j as [|j]; [lia|]. cbn [firstn app length]. replace (S j - 1)%nat with j by lia. rewrite firstn_nil.
        rewrite Hexec, <- (Hend j). reflexivity.
      + (* truncate, then write *)
        assert (Hshape : exists t ms, e1 = ETruncMan t /\ e2 = EWriteMan t ms).
        { destruct o as [d c|q|a b|n|n sv ord|]; cbn [op_mid] in Em; try discriminate.
          - destruct (snd (create_build size_of (layer_from_layer size_of) false s q)) as [[m cl]|]; [injection Em as <- <-; eauto | discriminate].
          - destruct (name_eqb _ _); [discriminate|]. destruct (mget _ s); [injection Em as <- <-; eauto | discriminate].
          - destruct (mget _ s) as [[m|]|]; discriminate.
          - destruct sv as [v|]; [|discriminate]. destruct (snd (op_run size_of s (OPull n (Some v) ord))); try discriminate. injection Em as <- <-; eauto. }
        destruct Hshape as [t [ms [-> ->]]].
        destruct j as [|[|j]]; [lia| |].
        * apply (CkTorn s o _ t ms Em). cbn [firstn app length Nat.sub]. rewrite apply_list_snoc. cbn [apply_effect mans]. rewrite Hsa. reflexivity.
        * apply CkEnd. cbn [firstn app length]. replace (S (S j) - 2)%nat with j by lia. rewrite firstn_nil.
          rewrite Hexec, <- (Hend j). reflexivity.
      + exfalso. destruct o as [d c|q|a b|n|n sv ord|]; cbn [op_mid] in Em; try discriminate.
        * destruct (snd (create_build size_of (layer_from_layer size_of) false s q)) as [[m cl]|]; discriminate.
        * destruct (name_eqb _ _); [discriminate|]. destruct (mget _ s); discriminate.
        * destruct (mget _ s) as [[m|]|]; discriminate.
        * destruct sv as [v|]; [|discriminate]. destruct (snd (op_run size_of s (OPull n (Some v) ord))); discriminate.
  Qed.

  (** ** no unreadable manifest at the start or at the end *)
  Lemma hu_intro s n : In (n, Unreadable) (mans s) -> has_unreadable s = true.
  Proof. intros H. unfold has_unreadable. apply existsb_exists. exists (n, Unreadable). auto. Qed.

  Lemma hu_false_of s s' : has_unreadable s = false -> (forall n, In (n, Unreadable) (mans s') -> In (n, Unreadable) (mans s)) -> has_unreadable s' = false.
  Proof.
    intros Hu Hsub. destruct (has_unreadable s') eqn:E; [|reflexivity]. unfold has_unreadable in E.
    apply existsb_exists in E as [[n ms] [Hin Hm]]. destruct ms; [discriminate|]. cbn in Hm. rewrite (hu_intro s n (Hsub n Hin)) in Hu. discriminate.
  Qed.

  Lemma hu_write s s' t m : has_unreadable s = false -> mans s' = aset name_eqb t (Readable m) (aset name_eqb t Unreadable (mans s)) -> has_unreadable s' = false.
  Proof.
    intros Hu Hm. apply (hu_false_of s s' Hu). intros n Hin. rewrite Hm in Hin.
    apply (In_aset name_eqb name_eqb_spec) in Hin as [[_ [=]]|[Hn Hin]].
    apply (In_aset name_eqb name_eqb_spec) in Hin as [[-> _]|[_ Hin]]; [congruence | exact Hin].
  Qed.

  Lemma hu_adel s s' t : has_unreadable s = false -> mans s' = adel name_eqb t (mans s) -> has_unreadable s' = false.
  Proof.
    intros Hu Hm. apply (hu_false_of s s' Hu). intros n Hin. rewrite Hm in Hin. apply (In_adel name_eqb name_eqb_spec) in Hin. apply Hin.
  Qed.

  Lemma hu_same s s' : has_unreadable s = false -> mans s' = mans s -> has_unreadable s' = false.
  Proof. intros Hu Hm. rewrite (has_unreadable_mans s s' Hm). exact Hu. Qed.

  (** ** the manifest a create builds is a function of the request and of the base layers; the base layers of a
      create from files are a function of the request and of the uploaded blob *)
  Lemma create_build_snd s q :
    snd (create_build size_of (layer_from_layer size_of) false s q) =
    pure_build size_of (snd (base_layers size_of (layer_from_layer size_of) (init s) (cr_base q))) q.
  Proof.
    unfold create_build.
    destruct (base_layers size_of (layer_from_layer size_of) (init s) (cr_base q)) as [rb [layers|]]; cbn [snd pure_build].
    2:{ destruct (cr_base q); reflexivity. }
    assert (Ht := create_template_snd size_of rb layers q). destruct (create_template size_of rb layers q) as [[r2 l2] okt]. cbn [fst snd] in Ht.
    rewrite <- Ht. destruct okt; cbn [negb]; [|reflexivity].
    assert (H7 := create_tail_snd size_of r2 l2 q). destruct (create_tail size_of r2 l2 q) as [r7 m]. cbn in *. subst m. reflexivity.
  Qed.

  Definition part_layer (d : digest) (c0 : N) (p : N * option N) : layer :=
    match p with
    | (mt, None) => MkLayer mt (canon d) (size_of c0)
    | (mt, Some c) => nl mt c
    end.

  Lemma new_layer_keeps r mt c h x : bget h (rs r) = Some x -> bget h (rs (fst (new_layer size_of r mt c))) = Some x.
  Proof.
    intros H. unfold new_layer.
    assert (E0 : bget c (rs (emit r (EAddDebris DTemp))) = bget c (rs r)) by reflexivity.
    rewrite E0. destruct (bget c (rs r)) as [c0|] eqn:Eb; cbn [fst]; [exact H|].
    unfold bget in *; cbn [rs emit apply_effect blobs]. destruct (N.eq_dec h c) as [->|Hn]; [congruence | rewrite bget_aset_other by exact Hn; exact H].
  Qed.

  Lemma gguf_parts_snd d c0 parts : forall r,
    bget (dhex d) (rs r) = Some c0 ->
    snd (gguf_parts size_of (layer_from_layer size_of) r d parts) = Some (map (part_layer d c0) parts) /\
    bget (dhex d) (rs (fst (gguf_parts size_of (layer_from_layer size_of) r d parts))) = Some c0.
  Proof.
    induction parts as [|[mt [c|]] parts IH]; intros r Hb; cbn [gguf_parts map part_layer].
    - split; [reflexivity | exact Hb].
    - assert (Hk := new_layer_keeps r mt c _ _ Hb). assert (Hs := new_layer_snd size_of r mt c).
      destruct (new_layer size_of r mt c) as [r1 l]. cbn [fst snd] in Hk, Hs. subst l.
      destruct (IH r1 Hk) as [I1 I2]. destruct (gguf_parts size_of (layer_from_layer size_of) r1 d parts) as [r' ot]. cbn [fst snd] in *.
      rewrite I1. split; [reflexivity | exact I2].
    - assert (El : layer_from_layer size_of (rs r) d mt = Some (MkLayer mt (canon d) (size_of c0))) by (unfold layer_from_layer; rewrite Hb; reflexivity).
      rewrite El. destruct (IH r Hb) as [I1 I2]. destruct (gguf_parts size_of (layer_from_layer size_of) r d parts) as [r' ot]. cbn [fst snd] in *.
      rewrite I1. split; [reflexivity | exact I2].
  Qed.

  Lemma add_detected_snd det : forall r layers,
    snd (add_detected size_of r layers det) = layers ++ map (fun p => nl (fst p) (snd p)) det.
  Proof.
    induction det as [|[mt c] det IH]; intros r layers; cbn [add_detected map]; [rewrite app_nil_r; reflexivity|].
    assert (H := new_layer_snd size_of r mt c). destruct (new_layer size_of r mt c) as [r1 l]. cbn in H. subst l. rewrite IH, <- app_assoc. reflexivity.
  Qed.

  Lemma base_files_pure s d parts fail det :
    snd (base_layers size_of (layer_from_layer size_of) (init s) (BFiles d parts fail det)) =
    match bget (dhex d) s with
    | None => None
    | Some c0 => if fail || match parts with [] => true | _ => false end then None
                 else Some (map (part_layer d c0) parts ++ map (fun p => nl (fst p) (snd p)) det)
    end.
  Proof.
    cbn [base_layers init rs]. destruct (bget (dhex d) s) as [c0|] eqn:Eb; [|reflexivity].
    destruct (gguf_parts_snd d c0 parts (init s) Eb) as [G1 _].
    destruct (gguf_parts size_of (layer_from_layer size_of) (init s) d parts) as [r1 ot]. cbn [snd] in G1. subst ot.
    destruct (fail || match parts with [] => true | _ => false end); [reflexivity|].
    assert (H := add_detected_snd det r1 (map (part_layer d c0) parts)). destruct (add_detected size_of r1 _ det) as [r2 ls]. cbn in *. subst ls. reflexivity.
  Qed.

  (** the repeated create builds the same manifest if its source is what it was *)
  Definition base_same (s s1 : store) (q : create_req) : bool :=
    match cr_base q with
    | BFiles d _ _ _ => Bool.eqb (is_some (bget (dhex d) s1)) (is_some (bget (dhex d) s))
    | BFrom src => negb (name_eqb src (get_existing (readable_names s) (cr_name q)))
    end.

  Lemma build_same s s1 q :
    Inv s -> Inv s1 -> base_same s s1 q = true ->
    (forall x, x <> get_existing (readable_names s) (cr_name q) -> mget x s1 = mget x s) ->
    snd (create_build size_of (layer_from_layer size_of) false s1 q) = snd (create_build size_of (layer_from_layer size_of) false s q).
  Proof.
    intros HI HI1 Hb Hframe. rewrite !create_build_snd. f_equal. unfold base_same in Hb.
    destruct (cr_base q) as [d parts fail det|src].
    - rewrite !base_files_pure.
      destruct (bget (dhex d) s1) as [c1|] eqn:E1, (bget (dhex d) s) as [c0|] eqn:E0; cbn in Hb; try discriminate; [|reflexivity].
      rewrite (bget_intact size_of s1 _ _ HI1 E1), (bget_intact size_of s _ _ HI E0). reflexivity.
    - apply negb_true_iff in Hb.
      assert (Hsrc : src <> get_existing (readable_names s) (cr_name q)) by (intros ->; rewrite name_eqb_refl in Hb; discriminate).
      rewrite !(base_from_pure size_of) by assumption. rewrite (Hframe src Hsrc). reflexivity.
  Qed.

  (** ** the general statement *)
  Definition redo_guard (s : store) (o : op) (k : nat) : bool :=
    let c := crash s o k in
    let s1 := recover c in
    (if has_unreadable c then oname_eqb (op_target s1 o) (op_target s o) else true) &&
    match o with
    | ODelete _ | OCopy _ _ => true
    | OCreate q => base_same s s1 q && op_guard s1 o
    | OPull _ (Some v) _ => (length (sv_contents v) =? length (all_layers (sv_manifest v)))%nat && forallb is_some (sv_contents v)
    | OPull _ None _ => true
    | OBlob _ _ | OStartup => false
    end.

  Lemma hu_torn c t mns : mans c = aset name_eqb t Unreadable mns -> has_unreadable c = true.
  Proof. intros H. apply (hu_intro c t). rewrite H. apply (In_aset name_eqb name_eqb_spec). left; auto. Qed.

  Lemma frame_s1 s o k x :
    Inv s -> op_guard s o = true -> op_target s o <> Some x -> mget x (recover (crash s o k)) = mget x s.
  Proof.
    intros HI Hg Hn. destruct (prefix_frame size_of s o k x HI Hg Hn) as [P1 _].
    destruct (recover_frame size_of (crash s o k) x (crash_inv size_of s o k HI Hg)) as [R1 _]. congruence.
  Qed.

  (** the create is repeated on any store [s2] that has the manifests of the crash store (the restarted store, or the
      restarted store after the upload was repeated) *)
  Lemma redo_create_on s q k s2 :
    Inv s -> op_guard s (OCreate q) = true -> has_unreadable s = false ->
    Inv s2 -> mans s2 = mans (crash s (OCreate q) k) ->
    (if has_unreadable (crash s (OCreate q) k) then oname_eqb (op_target s2 (OCreate q)) (op_target s (OCreate q)) else true) = true ->
    base_same s s2 q = true ->
    same_mans (exec s2 (OCreate q)) (exec s (OCreate q)) /\
    snd (op_run size_of s2 (OCreate q)) = snd (op_run size_of s (OCreate q)).
  Proof.
    intros HI Hg Hu HI1 Hm1 Htorn Hbs.
    set (tgt := get_existing (readable_names s) (cr_name q)) in *.
    assert (Hframe : forall x, x <> tgt -> mget x s2 = mget x s).
    { intros x Hx. rewrite (mget_mans _ _ x Hm1). apply (prefix_frame size_of s (OCreate q) k x HI Hg). cbn. fold tgt. congruence. }
    assert (Hbuild := build_same s s2 q HI HI1 Hbs Hframe).
    assert (Htgt : get_existing (readable_names s2) (cr_name q) = tgt).
    { destruct (crash_kinds s (OCreate q) k HI Hg) as [Hm|t ms Em Hm|Hm].
      - unfold tgt. rewrite (readable_names_mans s s2); [reflexivity | congruence].
      - rewrite (hu_torn _ _ _ Hm) in Htorn. cbn [op_target oname_eqb] in Htorn. apply name_eqb_spec in Htorn. exact Htorn.
      - destruct (snd (create_build size_of (layer_from_layer size_of) false s q)) as [[m cl]|] eqn:Ecb.
        + apply (ge_stable size_of s2 tgt m _ HI1); [|apply get_existing_eqfold].
          unfold listed. rewrite Hm1, Hm, (exec_create_mans size_of), Ecb. fold tgt. apply (In_aset name_eqb name_eqb_spec). left; auto.
        + unfold tgt. rewrite (readable_names_mans s s2); [reflexivity|]. rewrite Hm1, Hm, (exec_create_mans size_of), Ecb. reflexivity. }
    split; [|rewrite !(create_result size_of), Hbuild; reflexivity].
    intros n. unfold mget. rewrite !(exec_create_mans size_of), Hbuild.
    destruct (snd (create_build size_of (layer_from_layer size_of) false s q)) as [[m clean]|] eqn:Ecb.
    - rewrite Htgt. fold tgt. rewrite !mget_write. destruct (name_eqb n tgt) eqn:En; [reflexivity|].
      apply Hframe. intros ->. rewrite name_eqb_refl in En. discriminate.
    - destruct (crash_kinds s (OCreate q) k HI Hg) as [Hm|t ms Em Hm|Hm].
      + rewrite Hm1, Hm. reflexivity.
      + cbn [op_mid] in Em. rewrite Ecb in Em. discriminate.
      + rewrite Hm1, Hm, (exec_create_mans size_of), Ecb. reflexivity.
  Qed.

  Lemma redo_create_gen s q k :
    Inv s -> op_guard s (OCreate q) = true -> has_unreadable s = false -> redo_guard s (OCreate q) k = true ->
    let s1 := recover (crash s (OCreate q) k) in
    same_mans (exec s1 (OCreate q)) (exec s (OCreate q)) /\ op_guard s1 (OCreate q) = true /\
    snd (op_run size_of s1 (OCreate q)) = snd (op_run size_of s (OCreate q)).
  Proof.
    intros HI Hg Hu Hrg s1. unfold redo_guard in Hrg. fold s1 in Hrg.
    apply andb_true_iff in Hrg as [Htorn Hrest]. apply andb_true_iff in Hrest as [Hbs Hg1].
    assert (HI1 : Inv s1) by (apply recover_inv, crash_inv; assumption).
    destruct (redo_create_on s q k s1 HI Hg Hu HI1 (recover_mans size_of _) Htorn Hbs) as [A B]. auto.
  Qed.

  (** create from files: the client uploads the file again, then repeats the create *)
  Lemma redo_upload_create s q k d parts fail det :
    Inv s -> op_guard s (OCreate q) = true -> has_unreadable s = false ->
    cr_base q = BFiles d parts fail det -> dcolon d = true -> is_some (bget (dhex d) s) = true ->
    let s1 := recover (crash s (OCreate q) k) in
    let s2 := exec s1 (OBlob d (dhex d)) in
    (if has_unreadable (crash s (OCreate q) k) then oname_eqb (op_target s1 (OCreate q)) (op_target s (OCreate q)) else true) = true ->
    same_mans (exec s2 (OCreate q)) (exec s (OCreate q)) /\
    snd (op_run size_of s2 (OCreate q)) = snd (op_run size_of s (OCreate q)).
  Proof.
    intros HI Hg Hu Hb Hc Hp s1 s2 Htorn.
    assert (HI1 : Inv s1) by (apply recover_inv, crash_inv; assumption).
    assert (HI2 : Inv s2) by (apply exec_inv; [exact HI1 | reflexivity]).
    assert (Hext : Ext (init s1) (fst (op_blob size_of s1 d (dhex d)))).
    { unfold op_blob. destruct (bget (dhex d) s1); [apply Ext_refl|].
      assert (H := new_layer_ext size_of (init s1) 0 (dhex d)). destruct (new_layer size_of (init s1) 0 (dhex d)). exact H. }
    assert (Hm2 : mans s2 = mans (crash s (OCreate q) k)).
    { unfold s2, Ops.exec. cbn [op_run]. rewrite (Ext_mans _ _ Hext). apply (recover_mans size_of). }
    assert (Hpres : is_some (bget (dhex d) s2) = true).
    { unfold s2, Ops.exec. cbn [op_run]. unfold op_blob. destruct (bget (dhex d) s1) eqn:E1; [cbn; rewrite E1; reflexivity|].
      destruct (new_layer_grows size_of s1 None (init s1) 0 (dhex d) HI1 (Rok_init size_of None s1)) as [_ [[_ [Hpr _]] _]].
      destruct (new_layer size_of (init s1) 0 (dhex d)) as [r1 l] eqn:En. cbn [fst snd] in *.
      assert (Hl : l = MkLayer 0 (MkDigest true (dhex d)) (size_of (dhex d))) by (pose proof (new_layer_snd size_of (init s1) 0 (dhex d)) as Hs; rewrite En in Hs; exact Hs).
      subst l. cbn in Hpr. rewrite Hpr. reflexivity. }
    apply (redo_create_on s q k s2 HI Hg Hu HI2 Hm2).
    - destruct (has_unreadable (crash s (OCreate q) k)); [|reflexivity].
      cbn [op_target] in *. rewrite (readable_names_mans s1 s2); [exact Htorn|]. rewrite Hm2. symmetry. apply (recover_mans size_of).
    - unfold base_same. rewrite Hb, Hpres, Hp. reflexivity.
  Qed.

  Lemma redo_copy_torn s a b k t ms :
    Inv s -> has_unreadable s = false ->
    op_mid s (OCopy a b) = [ETruncMan t; EWriteMan t ms] ->
    mans (crash s (OCopy a b) k) = aset name_eqb t Unreadable (mans s) ->
    get_existing (readable_names (recover (crash s (OCopy a b) k))) b = get_existing (readable_names s) b ->
    let s1 := recover (crash s (OCopy a b) k) in
    same_mans (exec s1 (OCopy a b)) (exec s (OCopy a b)) /\ snd (op_run size_of s1 (OCopy a b)) = snd (op_run size_of s (OCopy a b)).
  Proof.
    intros HI Hu Em Hm Hb s1. fold s1 in Hb. set (sa := get_existing (readable_names s) a) in *. set (sb := get_existing (readable_names s) b) in *.
    assert (HI1 : Inv s1) by (apply recover_inv, crash_inv; [exact HI | reflexivity]).
    assert (Hm1 : mans s1 = aset name_eqb t Unreadable (mans s)) by (unfold s1; rewrite (recover_mans size_of); exact Hm).
    cbn [op_mid] in Em. fold sa sb in Em. destruct (name_eqb sa sb) eqn:Eab; [discriminate|].
    destruct (mget sa s) as [ms0|] eqn:Ea; [|discriminate].
    assert (Et : t = sb /\ ms = ms0) by (injection Em; intros; split; congruence). destruct Et as [-> ->].
    assert (Hne : sa <> sb) by (intros E; rewrite E, name_eqb_refl in Eab; discriminate).
    destruct ms0 as [m|]; [|exfalso; apply (has_unreadable_false s sa Hu); apply (aget_In name_eqb name_eqb_spec); exact Ea].
    assert (Hsa1 : mget sa s1 = Some (Readable m)) by (unfold mget; rewrite Hm1, mget_aset_other by exact Hne; exact Ea).
    assert (Ega : get_existing (readable_names s1) a = sa) by (apply (ge_stable size_of s1 sa m a HI1 (mget_listed _ _ _ Hsa1)), get_existing_eqfold).
    split.
    - intros x. unfold mget. rewrite !(exec_copy_mans size_of). fold sa sb. rewrite Ega, Hb, Eab, Hsa1, Ea. rewrite !mget_write.
      destruct (name_eqb x sb) eqn:Ex; [reflexivity|]. rewrite Hm1. apply mget_aset_other. intros ->. rewrite name_eqb_refl in Ex. discriminate.
    - cbn [op_run]. unfold op_copy, op_copy_gen. fold sa sb. rewrite Ega, Hb, Eab, Hsa1, Ea. reflexivity.
  Qed.

  Lemma redo_pull_torn s n v ord k t ms :
    Inv s -> op_guard s (OPull n (Some v) ord) = true ->
    (length (sv_contents v) = length (all_layers (sv_manifest v))) -> forallb is_some (sv_contents v) = true ->
    mans (crash s (OPull n (Some v) ord) k) = aset name_eqb t Unreadable (mans s) ->
    op_mid s (OPull n (Some v) ord) = [ETruncMan t; EWriteMan t ms] ->
    get_existing (readable_names (recover (crash s (OPull n (Some v) ord) k))) n = get_existing (readable_names s) n ->
    let s1 := recover (crash s (OPull n (Some v) ord) k) in
    same_mans (exec s1 (OPull n (Some v) ord)) (exec s (OPull n (Some v) ord)) /\
    snd (op_run size_of s1 (OPull n (Some v) ord)) = snd (op_run size_of s (OPull n (Some v) ord)).
  Proof.
    intros HI Hg Hl Hs Hm Em Htgt s1. fold s1 in Htgt. assert (Hsv : served_ok size_of v = true) by exact Hg.
    assert (HI1 : Inv s1) by (apply recover_inv, crash_inv; assumption).
    destruct (exec_pull_mans size_of s n v ord HI Hsv Hl Hs) as [E0 R0]. destruct (exec_pull_mans size_of s1 n v ord HI1 Hsv Hl Hs) as [E1 R1].
    split; [|congruence]. set (tgt := get_existing (readable_names s) n) in *.
    assert (Ht : t = tgt).
    { cbn [op_mid] in Em. rewrite R0 in Em. injection Em as <- _. reflexivity. }
    subst t.
    assert (Hm1 : mans s1 = aset name_eqb tgt Unreadable (mans s)) by (unfold s1; rewrite (recover_mans size_of); exact Hm).
    intros x. unfold mget. rewrite E1, E0, Htgt, !mget_write. destruct (name_eqb x tgt) eqn:Ex; [reflexivity|].
    rewrite Hm1. apply mget_aset_other. intros ->. rewrite name_eqb_refl in Ex. discriminate.
  Qed.

  Theorem redo_general s o k :
    Inv s -> op_guard s o = true -> has_unreadable s = false -> redo_guard s o k = true ->
    let s1 := recover (crash s o k) in
    (forall n, mget n (exec s1 o) = mget n (exec s o)) /\
    Inv (exec s1 o) /\ Inv (exec s o) /\
    (snd (op_run size_of s1 o) = snd (op_run size_of s o) \/
     (exists n, o = ODelete n) /\ snd (op_run size_of s1 o) = RNotFound /\ snd (op_run size_of s o) = ROk).
  Proof.
    intros HI Hg Hu Hrg s1.
    assert (HIc : Inv (crash s o k)) by (apply crash_inv; assumption).
    assert (HI1 : Inv s1) by (apply recover_inv, HIc).
    assert (HIe : Inv (exec s o)) by (apply exec_inv; assumption).
    assert (Hm1 : mans s1 = mans (crash s o k)) by apply (recover_mans size_of).
    destruct o as [d c|q|a b|n|n [v|] ord|]; try (unfold redo_guard in Hrg; rewrite andb_false_r in Hrg; discriminate).
    - destruct (redo_create_gen s q k HI Hg Hu Hrg) as [H1 [H2 H3]]. fold s1 in H1, H2, H3.
      split; [exact H1|]. split; [apply exec_inv; assumption|]. split; [exact HIe | left; exact H3].
    - (* copy *)
      unfold redo_guard in Hrg. fold s1 in Hrg. rewrite andb_true_r in Hrg.
      assert (Hclean : has_unreadable (crash s (OCopy a b) k) = false ->
              same_mans (exec s1 (OCopy a b)) (exec s (OCopy a b)) /\ snd (op_run size_of s1 (OCopy a b)) = snd (op_run size_of s (OCopy a b)))
        by (intros Hc; apply (redo_copy size_of s a b k HI Hu Hc)).
      assert (Hres : same_mans (exec s1 (OCopy a b)) (exec s (OCopy a b)) /\ snd (op_run size_of s1 (OCopy a b)) = snd (op_run size_of s (OCopy a b))).
      { destruct (crash_kinds s (OCopy a b) k HI Hg) as [Hm|t ms Em Hm|Hm].
        - apply Hclean, (hu_same s _ Hu Hm).
        - rewrite (hu_torn _ _ _ Hm) in Hrg. cbn [op_target oname_eqb] in Hrg. apply name_eqb_spec in Hrg.
          apply (redo_copy_torn s a b k t ms HI Hu Em Hm Hrg).
        - apply Hclean. rewrite (exec_copy_mans size_of) in Hm.
          destruct (name_eqb (get_existing (readable_names s) a) (get_existing (readable_names s) b)); [apply (hu_same s _ Hu Hm)|].
          destruct (mget (get_existing (readable_names s) a) s) as [[m|]|] eqn:Ea; [apply (hu_write s _ _ m Hu Hm) | | apply (hu_same s _ Hu Hm)].
          exfalso. apply (has_unreadable_false s (get_existing (readable_names s) a) Hu). apply (aget_In name_eqb name_eqb_spec). exact Ea. }
      destruct Hres as [H1 H3]. split; [exact H1|]. split; [apply exec_inv; [exact HI1 | reflexivity]|]. split; [exact HIe | left; exact H3].
    - (* delete: its manifest update is one unlink, no crash point is torn *)
      assert (Hc : has_unreadable (crash s (ODelete n) k) = false).
      { destruct (crash_kinds s (ODelete n) k HI Hg) as [Hm|t ms Em Hm|Hm].
        - apply (hu_same s _ Hu Hm).
        - cbn [op_mid] in Em. destruct (mget (get_existing (readable_names s) n) s) as [[m|]|]; discriminate.
        - rewrite (exec_delete_mans size_of) in Hm. destruct (mget (get_existing (readable_names s) n) s) as [[m|]|];
            [apply (hu_adel s _ _ Hu Hm) | apply (hu_same s _ Hu Hm) | apply (hu_same s _ Hu Hm)]. }
      destruct (redo_delete size_of s n k HI Hu Hc) as [H1 H3]. fold s1 in H1, H3.
      split; [exact H1|]. split; [apply exec_inv; [exact HI1 | reflexivity]|]. split; [exact HIe|].
      destruct H3 as [H3|[H3 H4]]; [left; exact H3 | right; split; [eexists; reflexivity | auto]].
    - (* pull *)
      unfold redo_guard in Hrg. fold s1 in Hrg. apply andb_true_iff in Hrg as [Htorn Hrest].
      assert (Hrest' := Hrest). apply andb_true_iff in Hrest' as [Hl Hs]. apply Nat.eqb_eq in Hl.
      assert (Hsv : served_ok size_of v = true) by exact Hg.
      assert (Hres : same_mans (exec s1 (OPull n (Some v) ord)) (exec s (OPull n (Some v) ord)) /\
                     snd (op_run size_of s1 (OPull n (Some v) ord)) = snd (op_run size_of s (OPull n (Some v) ord))).
      { destruct (crash_kinds s (OPull n (Some v) ord) k HI Hg) as [Hm|t ms Em Hm|Hm].
        - apply (redo_pull size_of s n v ord k HI Hg Hrest Hu), (hu_same s _ Hu Hm).
        - rewrite (hu_torn _ _ _ Hm) in Htorn. cbn [op_target oname_eqb] in Htorn. apply name_eqb_spec in Htorn.
          apply (redo_pull_torn s n v ord k t ms HI Hg Hl Hs Hm Em Htorn).
        - apply (redo_pull size_of s n v ord k HI Hg Hrest Hu).
          destruct (exec_pull_mans size_of s n v ord HI Hsv Hl Hs) as [E0 _]. rewrite E0 in Hm. apply (hu_write s _ _ _ Hu Hm). }
      destruct Hres as [H1 H3]. split; [exact H1|]. split; [apply exec_inv; [exact HI1 | exact Hg]|]. split; [exact HIe | left; exact H3].
    - split; [|split; [apply exec_inv; [exact HI1 | reflexivity] | split; [exact HIe | left; reflexivity]]].
      intros x. unfold Ops.exec. cbn. unfold s1, Ops.crash, effects. cbn. rewrite firstn_nil. cbn.
      destruct (recover_frame size_of s x HI) as [R1 _]. exact R1.
  Qed.

  (** ** ... and the guard is exact at a torn crash point: if the repetition canonicalises to another name, the torn
      manifest stays and the stores differ *)
  Theorem redo_torn_exact s o k t ms :
    Inv s -> op_guard s o = true -> has_unreadable s = false ->
    op_mid s o = [ETruncMan t; EWriteMan t ms] ->
    mans (crash s o k) = aset name_eqb t Unreadable (mans s) ->
    op_target (recover (crash s o k)) o <> Some t ->
    op_guard (recover (crash s o k)) o = true ->
    mget t (exec (recover (crash s o k)) o) = Some Unreadable /\ mget t (exec s o) = Some ms /\ ms <> Unreadable.
  Proof.
    intros HI Hg Hu Em Hm Hne Hg1. set (s1 := recover (crash s o k)) in *.
    assert (HI1 : Inv s1) by (apply recover_inv, crash_inv; assumption).
    assert (Hm1 : mans s1 = aset name_eqb t Unreadable (mans s)) by (unfold s1; rewrite (recover_mans size_of); exact Hm).
    split; [|split].
    - destruct (exec_frame size_of s1 o t HI1 Hg1 Hne) as [F _]. rewrite F. unfold mget. rewrite Hm1. apply mget_aset_same.
    - destruct (effects_split s o) as [es1 [es2 [E [H1 H2]]]].
      rewrite (exec_effects size_of s o HI Hg), E, Em. unfold mget.
      rewrite app_assoc, apply_list_app, (blob_only_apply_mans es2) by exact H2.
      rewrite apply_list_app. cbn [apply_list fold_left apply_effect mans]. apply mget_aset_same.
    - intros ->. destruct o as [d c|q|a b|n|n sv ord|]; cbn [op_mid] in Em; try discriminate.
      + destruct (snd (create_build size_of (layer_from_layer size_of) false s q)) as [[m cl]|]; discriminate.
      + destruct (name_eqb _ _); [discriminate|]. destruct (mget (get_existing (readable_names s) a) s) as [[m|]|] eqn:Ea; try discriminate.
        apply (has_unreadable_false s (get_existing (readable_names s) a) Hu). apply (aget_In name_eqb name_eqb_spec). exact Ea.
      + destruct (mget _ s) as [[m|]|]; discriminate.
      + destruct sv as [v|]; [|discriminate]. destruct (snd (op_run size_of s (OPull n (Some v) ord))); discriminate.
  Qed.

  (** ** restarts that do not prune (OLLAMA_NOPRUNE, or — already part of [recover] — an unreadable manifest somewhere) *)
  Definition recover_np (s : store) : store := startup_noprune s.

  Lemma recover_np_inv s : Inv s -> Inv (recover_np s).
  Proof. intros HI. unfold recover_np, startup_noprune. eapply Rok_inv; [exact HI | apply (fix_blobs_ok size_of), HI]. Qed.

  Lemma recover_np_mans s : mans (recover_np s) = mans s.
  Proof. unfold recover_np, startup_noprune. apply (Ext_mans _ _ (fix_blobs_ext (init s))). Qed.

  Lemma recover_np_frame s n m l :
    Inv s -> listed s n m -> In l (all_layers m) -> bget (dhex (ldg l)) (recover_np s) = bget (dhex (ldg l)) s.
  Proof.
    intros HI Hl Hin. unfold recover_np, startup_noprune. destruct (fix_blobs_ok size_of s HI) as [E Hok]. rewrite E.
    eapply (ok_trace_blob size_of None); try eassumption. discriminate.
  Qed.

  (** the manifests an operation leaves, and its answer, only depend on the manifests it starts from (given the
      invariant, and for a create that its base is available alike) *)
  Lemma exec_mans_congr s1 s2 o :
    Inv s1 -> Inv s2 -> mans s2 = mans s1 ->
    (match o with
     | OCreate q => base_same s1 s2 q = true \/ (exists src, cr_base q = BFrom src)
     | OPull _ (Some v) _ => served_ok size_of v = true /\ length (sv_contents v) = length (all_layers (sv_manifest v)) /\ forallb is_some (sv_contents v) = true
     | OBlob _ _ | OStartup => False
     | _ => True
     end) ->
    mans (exec s2 o) = mans (exec s1 o) /\ snd (op_run size_of s2 o) = snd (op_run size_of s1 o).
  Proof.
    intros HI1 HI2 Hm Hside. assert (Hrn := readable_names_mans s1 s2 Hm).
    destruct o as [d c|q|a b|n|n [v|] ord|]; try contradiction.
    - assert (Hb : snd (create_build size_of (layer_from_layer size_of) false s2 q) = snd (create_build size_of (layer_from_layer size_of) false s1 q)).
      { destruct Hside as [Hbs|[src Hsrc]].
        - apply (build_same s1 s2 q HI1 HI2 Hbs). intros x _. apply (mget_mans _ _ x Hm).
        - rewrite !create_build_snd, Hsrc, !(base_from_pure size_of) by assumption. rewrite (mget_mans _ _ src Hm). reflexivity. }
      split; [rewrite !(exec_create_mans size_of), Hb, Hrn, Hm; reflexivity | rewrite !(create_result size_of), Hb; reflexivity].
    - split; [rewrite !(exec_copy_mans size_of), Hrn, (mget_mans _ _ _ Hm), Hm; reflexivity|].
      cbn [op_run]. unfold op_copy, op_copy_gen. rewrite Hrn, (mget_mans _ _ _ Hm).
      destruct (name_eqb _ _); [reflexivity|]. destruct (mget _ s1); reflexivity.
    - split; [rewrite !(exec_delete_mans size_of), Hrn, (mget_mans _ _ _ Hm), Hm; reflexivity|].
      cbn [op_run]. unfold op_delete, op_delete_gen. rewrite Hrn, (mget_mans _ _ _ Hm). destruct (mget _ s1) as [[m|]|]; reflexivity.
    - destruct Hside as [Hsv [Hl Hs]].
      destruct (exec_pull_mans size_of s1 n v ord HI1 Hsv Hl Hs) as [E1 R1]. destruct (exec_pull_mans size_of s2 n v ord HI2 Hsv Hl Hs) as [E2 R2].
      split; [rewrite E1, E2, Hrn, Hm; reflexivity | congruence].
    - split; [exact Hm | reflexivity].
  Qed.

  (** the general redo statement, for the restart that does not prune *)
  Theorem redo_general_noprune s o k :
    Inv s -> op_guard s o = true -> has_unreadable s = false -> redo_guard s o k = true ->
    (match o with OCreate q => exists src, cr_base q = BFrom src | _ => True end) ->
    let s1 := recover_np (crash s o k) in
    (forall n, mget n (exec s1 o) = mget n (exec s o)) /\
    (snd (op_run size_of s1 o) = snd (op_run size_of s o) \/
     (exists n, o = ODelete n) /\ snd (op_run size_of s1 o) = RNotFound /\ snd (op_run size_of s o) = ROk).
  Proof.
    intros HI Hg Hu Hrg Hfrom s1.
    destruct (redo_general s o k HI Hg Hu Hrg) as [Hm [_ [_ Hres]]].
    set (s0 := recover (crash s o k)) in *.
    assert (HIc : Inv (crash s o k)) by (apply crash_inv; assumption).
    assert (HI0 : Inv s0) by (apply recover_inv, HIc). assert (HI1 : Inv s1) by (apply recover_np_inv, HIc).
    assert (Hmm : mans s1 = mans s0) by (unfold s1, s0; rewrite recover_np_mans, (recover_mans size_of); reflexivity).
    assert (Hside : match o with
                    | OCreate q => base_same s0 s1 q = true \/ (exists src, cr_base q = BFrom src)
                    | OPull _ (Some v) _ => served_ok size_of v = true /\ length (sv_contents v) = length (all_layers (sv_manifest v)) /\ forallb is_some (sv_contents v) = true
                    | OBlob _ _ | OStartup => False
                    | _ => True
                    end).
    { unfold redo_guard in Hrg. apply andb_true_iff in Hrg as [_ Hrg]. destruct o as [d c|q|a b|n|n [v|] ord|]; try discriminate; auto.
      apply andb_true_iff in Hrg as [Hl Hs]. apply Nat.eqb_eq in Hl. split; [exact Hg | auto]. }
    destruct (exec_mans_congr s0 s1 o HI0 HI1 Hmm Hside) as [C1 C2].
    split; [intros n; unfold mget; rewrite C1; apply Hm | rewrite C2; exact Hres].
  Qed.
End Redo2.
