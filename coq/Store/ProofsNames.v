(** * Store/ProofsNames.v — case folding, the string order, and getExistingName *)
From Coq Require Import List NArith Bool Arith Lia Permutation.
From V Require Import Common.Bytes Store.Fs Store.Ops Store.ProofsAlist.
Import ListNotations.
Open Scope N_scope.

(** ** eqfold is equality of the folded strings *)
Lemma eqfold_spec a b : eqfold a b = true <-> foldstr a = foldstr b.
Proof. unfold eqfold. apply eqb_str_spec. Qed.

Lemma eqfold_refl a : eqfold a a = true.
Proof. apply eqfold_spec; reflexivity. Qed.

Lemma eqfold_sym a b : eqfold a b = eqfold b a.
Proof.
  destruct (eqfold a b) eqn:E1, (eqfold b a) eqn:E2; try reflexivity.
  - apply eqfold_spec in E1. symmetry in E1. apply eqfold_spec in E1. congruence.
  - apply eqfold_spec in E2. symmetry in E2. apply eqfold_spec in E2. congruence.
Qed.

Lemma eqfold_length a b : eqfold a b = true -> length a = length b.
Proof. intros H. apply eqfold_spec in H. apply (f_equal (@length N)) in H. unfold foldstr in H. rewrite !map_length in H. exact H. Qed.

Lemma name_eqfold_spec a b : name_eqfold a b = true <-> nfold a = nfold b.
Proof. unfold name_eqfold. apply name_eqb_spec. Qed.

Lemma name_eqfold_refl a : name_eqfold a a = true.
Proof. apply name_eqfold_spec; reflexivity. Qed.

Lemma name_eqfold_sym a b : name_eqfold a b = true -> name_eqfold b a = true.
Proof. rewrite !name_eqfold_spec. congruence. Qed.

Lemma name_eqfold_trans a b c : name_eqfold a b = true -> name_eqfold b c = true -> name_eqfold a c = true.
Proof. rewrite !name_eqfold_spec. congruence. Qed.

Lemma name_eqfold_parts a b :
  name_eqfold a b = true <->
  eqfold (nhost a) (nhost b) = true /\ eqfold (nns a) (nns b) = true /\ eqfold (nmodel a) (nmodel b) = true /\ eqfold (ntag a) (ntag b) = true.
Proof.
  unfold name_eqfold, name_eqb, nfold, eqfold. cbn. rewrite !andb_true_iff. tauto.
Qed.

(** ** the bytewise order on strings is a strict total order *)
Lemma ltb_str_irrefl a : ltb_str a a = false.
Proof. induction a as [|x a IH]; cbn; [reflexivity|]. rewrite N.ltb_irrefl. exact IH. Qed.

Lemma ltb_str_trans a b c : ltb_str a b = true -> ltb_str b c = true -> ltb_str a c = true.
Proof.
  revert b c; induction a as [|x a IH]; intros [|y b] [|z c]; cbn; try congruence; try reflexivity.
  destruct (x <? y) eqn:Exy; [|destruct (y <? x) eqn:Eyx; [discriminate|]].
  - intros _. destruct (y <? z) eqn:Eyz; [|destruct (z <? y) eqn:Ezy; [discriminate|]].
    + intros _. apply N.ltb_lt in Exy, Eyz. assert (H : (x <? z) = true) by (apply N.ltb_lt; lia). rewrite H. reflexivity.
    + intros _. apply N.ltb_lt in Exy. apply N.ltb_ge in Eyz, Ezy. assert (y = z) by lia. subst z.
      assert (H : (x <? y) = true) by (apply N.ltb_lt; lia). rewrite H. reflexivity.
  - apply N.ltb_ge in Exy, Eyx. assert (x = y) by lia. subst y. intros Hab.
    destruct (x <? z) eqn:Exz; [reflexivity|]. destruct (z <? x) eqn:Ezx; [discriminate|]. intros Hbc. eapply IH; eassumption.
Qed.

Lemma ltb_str_total a b : ltb_str a b = false -> ltb_str b a = false -> a = b.
Proof.
  revert b; induction a as [|x a IH]; intros [|y b]; cbn; try congruence.
  destruct (x <? y) eqn:Exy; [discriminate|]. destruct (y <? x) eqn:Eyx; [discriminate|].
  apply N.ltb_ge in Exy, Eyx. assert (x = y) by lia. subst y. intros H1 H2. f_equal. apply IH; assumption.
Qed.

(** ** names that are equal up to case and print equally are equal *)
Lemma app_inj_length {A} (a a' b b' : list A) : length a = length a' -> a ++ b = a' ++ b' -> a = a' /\ b = b'.
Proof.
  revert a'; induction a as [|x a IH]; intros [|x' a']; cbn; try discriminate.
  - auto.
  - intros [= Hl] [= -> H]. apply IH in H as [-> ->]; auto.
Qed.

Lemma nstring_inj a b : name_eqfold a b = true -> nstring a = nstring b -> a = b.
Proof.
  intros Hf Hs. apply name_eqfold_parts in Hf as [H1 [H2 [H3 H4]]].
  apply eqfold_length in H1, H2, H3, H4. destruct a as [h n m t], b as [h' n' m' t']; cbn in *.
  unfold nstring in Hs; cbn in Hs.
  apply app_inj_length in Hs as [-> Hs]; [|exact H1]. cbn in Hs. injection Hs as Hs.
  apply app_inj_length in Hs as [-> Hs]; [|exact H2]. cbn in Hs. injection Hs as Hs.
  apply app_inj_length in Hs as [-> Hs]; [|exact H3]. cbn in Hs. injection Hs as Hs. subst. reflexivity.
Qed.

(** ** prefix_len / merge_parts *)
Lemma prefix_len_le e n : (prefix_len e n <= 4)%nat.
Proof. unfold prefix_len. repeat match goal with |- context [if ?b then _ else _] => destruct b end; lia. Qed.

Lemma prefix_len_4 e n : prefix_len e n = 4%nat <-> name_eqfold e n = true.
Proof.
  rewrite name_eqfold_parts. unfold prefix_len.
  destruct (eqfold (nhost e) (nhost n)), (eqfold (nns e) (nns n)), (eqfold (nmodel e) (nmodel n)), (eqfold (ntag e) (ntag n));
    split; intros H; try discriminate; try lia; try tauto; try (destruct H as [? [? [? ?]]]; discriminate).
Qed.

Lemma merge_4 e n : merge_parts 4 e n = e.
Proof. destruct e; reflexivity. Qed.

Lemma merge_0 e n : merge_parts 0 e n = n.
Proof. destruct n; reflexivity. Qed.

Lemma merge_eqfold e n : name_eqfold (merge_parts (prefix_len e n) e n) n = true.
Proof.
  apply name_eqfold_parts. unfold prefix_len, merge_parts.
  destruct (eqfold (nhost e) (nhost n)) eqn:E1; cbn; [|repeat split; apply eqfold_refl].
  destruct (eqfold (nns e) (nns n)) eqn:E2; cbn; [|repeat split; try apply eqfold_refl; exact E1].
  destruct (eqfold (nmodel e) (nmodel n)) eqn:E3; cbn; [|repeat split; try apply eqfold_refl; assumption].
  destruct (eqfold (ntag e) (ntag n)) eqn:E4; cbn; repeat split; try apply eqfold_refl; assumption.
Qed.

(** ** the fold of getExistingName computes a maximum *)
Definition cand (n e : name) : nat * name := (prefix_len e n, merge_parts (prefix_len e n) e n).
Definition betterp (x y : nat * name) : bool := better (fst x) (snd x) (fst y) (snd y).

Lemma gen_step_cand n acc e : gen_step n acc e = if betterp (cand n e) acc then cand n e else acc.
Proof. reflexivity. Qed.

Lemma betterp_irrefl x : betterp x x = false.
Proof.
  unfold betterp, better. rewrite Nat.ltb_irrefl, ltb_str_irrefl. cbn. rewrite andb_false_r. reflexivity.
Qed.

Lemma betterp_trans x y z : betterp x y = true -> betterp y z = true -> betterp x z = true.
Proof.
  destruct x as [k1 c1], y as [k2 c2], z as [k3 c3]; unfold betterp, better; cbn [fst snd].
  rewrite !orb_true_iff, !andb_true_iff, !Nat.ltb_lt, !Nat.eqb_eq.
  intros [H1|[[H1 H1'] H1'']] [H2|[[H2 H2'] H2'']].
  - left; lia.
  - left; lia.
  - left; lia.
  - right. repeat split; try lia. eapply ltb_str_trans; eassumption.
Qed.

(** candidates and the start value are "valid": equal to the input up to case, and a zero match length means the input itself *)
Definition valid (n : name) (x : nat * name) : Prop := name_eqfold (snd x) n = true /\ (fst x = 0%nat -> snd x = n).

Lemma valid_cand n e : valid n (cand n e).
Proof.
  split; [apply merge_eqfold|]. cbn. intros ->. apply merge_0.
Qed.

Lemma valid_start n : valid n (0%nat, n).
Proof. split; [apply name_eqfold_refl | reflexivity]. Qed.

Lemma tie_eq n x y : valid n x -> valid n y -> betterp x y = false -> betterp y x = false -> snd x = snd y.
Proof.
  intros [Hx Hx0] [Hy Hy0]. unfold betterp, better. destruct x as [k c], y as [k' c']; cbn [fst snd] in *.
  rewrite !orb_false_iff, !andb_false_iff, !Nat.ltb_ge, !Nat.eqb_neq.
  intros [H1 H1'] [H2 H2']. assert (k = k') by lia. subst k'.
  destruct k as [|k].
  - rewrite Hx0, Hy0; reflexivity.
  - assert (Ha : ltb_str (nstring c) (nstring c') = false) by (destruct H1' as [[?|?]|?]; [congruence | lia | assumption]).
    assert (Hb : ltb_str (nstring c') (nstring c) = false) by (destruct H2' as [[?|?]|?]; [congruence | lia | assumption]).
    apply nstring_inj; [eapply name_eqfold_trans; [exact Hx | apply name_eqfold_sym, Hy] | apply ltb_str_total; assumption].
Qed.

(** specification of the fold: the result is a member and nobody is better *)
Definition members (n : name) (acc : nat * name) (l : list name) : list (nat * name) := acc :: map (cand n) l.

Lemma fold_max n l : forall acc,
  let r := fold_left (gen_step n) l acc in
  In r (members n acc l) /\ (forall x, In x (members n acc l) -> betterp x r = false).
Proof.
  induction l as [|e l IH]; intros acc; cbn.
  - split; [left; reflexivity|]. intros x [<-|[]]. apply betterp_irrefl.
  - specialize (IH (gen_step n acc e)). cbn in IH. destruct IH as [Hin Hmax].
    rewrite gen_step_cand in *.
    destruct (betterp (cand n e) acc) eqn:Eb.
    + split.
      * destruct Hin as [<-|Hin]; [right; left; reflexivity | right; right; exact Hin].
      * intros x [<-|[<-|Hx]].
        -- destruct (betterp acc (fold_left (gen_step n) l (cand n e))) eqn:E; [|reflexivity].
           assert (H := Hmax (cand n e) (or_introl eq_refl)).
           rewrite (betterp_trans _ _ _ Eb E) in H. discriminate.
        -- apply Hmax. left; reflexivity.
        -- apply Hmax. right; exact Hx.
    + split.
      * destruct Hin as [<-|Hin]; [left; reflexivity | right; right; exact Hin].
      * intros x [<-|[<-|Hx]].
        -- apply Hmax. left; reflexivity.
        -- destruct (betterp (cand n e) (fold_left (gen_step n) l acc)) eqn:E; [|reflexivity].
           (* the result is acc or a later candidate; either way cand e is not better *)
           destruct Hin as [Hr|Hr].
           ++ rewrite <- Hr in E. congruence.
           ++ (* r is a later candidate, at least as good as acc, and cand e is not better than acc *)
              assert (Hacc := Hmax acc (or_introl eq_refl)).
              (* cand e better than r, r not worse than acc ... use totality through validity is not needed:
                 if cand e is better than r then, r being maximal over acc, we derive a contradiction by cases on better acc r *)
              exfalso. clear Hr.
              set (r := fold_left (gen_step n) l acc) in *.
              (* betterp (cand e) r = true, betterp acc r = false, betterp (cand e) acc = false *)
              unfold betterp, better in *. destruct (cand n e) as [k c], acc as [ka ca], r as [kr cr]; cbn [fst snd] in *.
              rewrite orb_true_iff, andb_true_iff, andb_true_iff, Nat.ltb_lt, Nat.eqb_eq, Nat.ltb_lt in E.
              rewrite orb_false_iff, andb_false_iff, andb_false_iff, Nat.ltb_ge, Nat.eqb_neq, Nat.ltb_ge in Eb, Hacc.
              destruct Eb as [Eb1 Eb2], Hacc as [Ha1 Ha2].
              destruct E as [E|[[E1 E2] E3]].
              ** (* kr < k <= ka <= kr *) lia.
              ** subst kr. assert (ka = k) by lia. subst ka.
                 assert (Hx : ltb_str (nstring c) (nstring ca) = false) by (destruct Eb2 as [[?|?]|?]; [congruence | lia | assumption]).
                 assert (Hy : ltb_str (nstring ca) (nstring cr) = false) by (destruct Ha2 as [[?|?]|?]; [congruence | lia | assumption]).
                 destruct (ltb_str (nstring cr) (nstring ca)) eqn:Hz.
                 --- rewrite (ltb_str_trans _ _ _ E3 Hz) in Hx. discriminate.
                 --- assert (nstring ca = nstring cr) by (apply ltb_str_total; assumption). congruence.
        -- apply Hmax. right; exact Hx.
Qed.

Lemma members_valid n acc l : valid n acc -> forall x, In x (members n acc l) -> valid n x.
Proof.
  intros Hv x [<-|Hx]; [exact Hv|]. apply in_map_iff in Hx as [e [<- _]]. apply valid_cand.
Qed.

(** ** the facts the store proofs use *)

(** G1: the result equals the input up to letter case *)
Lemma get_existing_eqfold ex n : name_eqfold (get_existing ex n) n = true.
Proof.
  unfold get_existing. destruct (fold_max n ex (0%nat, n)) as [Hin _].
  apply (members_valid n _ ex (valid_start n)) in Hin. apply Hin.
Qed.

(** G2: if a stored name equals the input up to case, the result is a stored name *)
Lemma get_existing_stored ex n e :
  In e ex -> name_eqfold e n = true -> In (get_existing ex n) ex.
Proof.
  intros He Hf. unfold get_existing.
  destruct (fold_max n ex (0%nat, n)) as [Hin Hmax]. cbn in Hin, Hmax.
  set (r := fold_left (gen_step n) ex (0%nat, n)) in *.
  assert (Hc : betterp (cand n e) r = false) by (apply Hmax; right; apply in_map; exact He).
  assert (Hk : fst (cand n e) = 4%nat) by (apply prefix_len_4; exact Hf).
  assert (Hr : fst r = 4%nat).
  { unfold betterp, better in Hc. rewrite Hk in Hc. apply orb_false_iff in Hc as [Hc _]. apply Nat.ltb_ge in Hc.
    destruct Hin as [Hr|Hr]; [rewrite <- Hr in Hc; cbn in Hc; lia|].
    apply in_map_iff in Hr as [e' [Hr _]]. rewrite <- Hr in *. cbn in *. pose proof (prefix_len_le e' n). lia. }
  destruct Hin as [Hr'|Hr']; [rewrite <- Hr' in Hr; discriminate|].
  apply in_map_iff in Hr' as [e' [Hr' He']]. rewrite <- Hr' in *. cbn in Hr. cbn. rewrite Hr, merge_4. exact He'.
Qed.

(** G3: the result does not depend on the order in which the stored names are visited *)
Lemma get_existing_perm ex ex' n : Permutation ex ex' -> get_existing ex n = get_existing ex' n.
Proof.
  intros Hp. unfold get_existing.
  destruct (fold_max n ex (0%nat, n)) as [Hin Hmax], (fold_max n ex' (0%nat, n)) as [Hin' Hmax']. cbn in *.
  set (r := fold_left (gen_step n) ex (0%nat, n)) in *. set (r' := fold_left (gen_step n) ex' (0%nat, n)) in *.
  assert (Hm : forall x, In x (members n (0%nat, n) ex) <-> In x (members n (0%nat, n) ex')).
  { intros x. unfold members. cbn. split; (intros [H|H]; [left; exact H | right]).
    - eapply Permutation_in; [apply Permutation_map, Hp | exact H].
    - eapply Permutation_in; [apply Permutation_map, Permutation_sym, Hp | exact H]. }
  apply (tie_eq n).
  - apply (members_valid n _ ex (valid_start n)), Hin.
  - apply (members_valid n _ ex' (valid_start n)), Hin'.
  - apply Hmax'. apply Hm. exact Hin.
  - apply Hmax. apply Hm. exact Hin'.
Qed.

(** G4: with no two stored names equal up to case, a stored name is found as it is *)
Lemma get_existing_exact ex n :
  In n ex -> (forall a b, In a ex -> In b ex -> name_eqfold a b = true -> a = b) -> get_existing ex n = n.
Proof.
  intros Hin Hu. apply Hu; [eapply get_existing_stored; [exact Hin | apply name_eqfold_refl] | exact Hin | apply get_existing_eqfold].
Qed.

(** if nothing stored equals the input up to case, neither does anything stored equal the result *)
Lemma get_existing_fresh ex n e :
  (forall x, In x ex -> name_eqfold x n = false) -> In e ex -> name_eqfold e (get_existing ex n) = false.
Proof.
  intros Hnone He. destruct (name_eqfold e (get_existing ex n)) eqn:E; [|reflexivity].
  specialize (Hnone e He). rewrite (name_eqfold_trans _ _ _ E (get_existing_eqfold ex n)) in Hnone. discriminate.
Qed.

(** ** the unrepaired function: the answer depends on the map order, and an exactly stored name can be missed *)
Definition w_host : str := [104].                      (* "h" *)
Definition w_e1 : name := MkName w_host [110;115] [77;111;100;101;108] [116].          (* h/ns/Model:t *)
Definition w_e2 : name := MkName w_host [110;115;50] [109;111;100;101;108] [116;50].   (* h/ns2/model:t2 *)
Definition w_n : name := MkName w_host [110;115] [109;111;100;101;108] [116].          (* h/ns/model:t *)

Lemma legacy_order_dependent :
  get_existing_legacy [w_e1; w_e2] w_n <> get_existing_legacy [w_e2; w_e1] w_n.
Proof. vm_compute. discriminate. Qed.

Lemma legacy_misses_stored_name :
  In w_e1 [w_e1; w_e2] /\ get_existing_legacy [w_e1; w_e2] w_e1 = w_n /\ ~ In w_n [w_e1; w_e2].
Proof.
  split; [left; reflexivity|]. split; [vm_compute; reflexivity|].
  intros [H|[H|[]]]; vm_compute in H; discriminate.
Qed.

Lemma repaired_on_witness :
  get_existing [w_e1; w_e2] w_n = w_e1 /\ get_existing [w_e2; w_e1] w_n = w_e1 /\ get_existing [w_e1; w_e2] w_e1 = w_e1.
Proof. vm_compute. auto. Qed.
