(** * Store/ProofsFix.v — fixBlobs (server/fixblobs.go): blob files with the old "sha256:" spelling *)
From Coq Require Import List NArith Bool Arith Lia.
From V Require Import Common.Bytes Store.Fs Store.Ops Store.ProofsAlist Store.ProofsNames Store.ProofsInv Store.ProofsOps Store.ProofsTop Store.ProofsMore.
Import ListNotations.
Open Scope N_scope.

Lemma prstate_eqb_spec a b : prstate_eqb a b = true <-> a = b.
Proof. destruct a, b; cbn; split; intros H; try reflexivity; try discriminate. Qed.

Lemma dfile_eqb_spec a b : dfile_eqb a b = true <-> a = b.
Proof.
  destruct a as [|h|h i st|h c|h], b as [|h'|h' i' st'|h' c'|h']; cbn; try (split; [discriminate | intros H; discriminate H]).
  - tauto.
  - rewrite N.eqb_eq. split; [intros ->; reflexivity | intros [= ->]; reflexivity].
  - rewrite !andb_true_iff, !N.eqb_eq, prstate_eqb_spec. split; [intros [[-> ->] ->]; reflexivity | intros [= -> -> ->]; auto].
  - rewrite !andb_true_iff, !N.eqb_eq. split; [intros [-> ->]; reflexivity | intros [= -> ->]; auto].
  - rewrite N.eqb_eq. split; [intros ->; reflexivity | intros [= ->]; reflexivity].
Qed.

Definition is_colon (d : dfile) : bool := match d with DColon _ _ | DColonPartial _ => true | _ => false end.

(** no file with the old spelling is left *)
Definition fixed (s : store) : Prop := forall d, In d (debris s) -> is_colon d = false.

Lemma In_remove_all_neq x d l : In x (remove_all d l) -> x <> d.
Proof.
  unfold remove_all. intros H. apply filter_In in H as [_ H]. intros ->.
  assert (E : dfile_eqb d d = true) by (apply dfile_eqb_spec; reflexivity). rewrite E in H. discriminate.
Qed.

Lemma In_remove_all_intro x d l : In x l -> x <> d -> In x (remove_all d l).
Proof.
  intros H Hn. unfold remove_all. apply filter_In. split; [exact H|].
  destruct (dfile_eqb d x) eqn:E; [apply dfile_eqb_spec in E; congruence | reflexivity].
Qed.

(** after the walk every old-spelling file of the start has been renamed and none is left *)
Lemma fix_fold_colons ds : forall r,
  (forall x, In x (debris (rs r)) -> is_colon x = true -> In x ds) ->
  forall x, In x (debris (rs (fold_left fix_step ds r))) -> is_colon x = false.
Proof.
  induction ds as [|d ds IH]; intros r H x Hx; cbn [fold_left] in Hx.
  - destruct (is_colon x) eqn:E; [|reflexivity]. destruct (H x Hx E).
  - apply (IH (fix_step r d)); [|exact Hx]. intros y Hy Hc.
    assert (Hy' : In y (debris (rs r)) /\ y <> d \/ (is_colon d = false /\ In y (debris (rs r)))).
    { destruct d as [| | |h c|h]; cbn [fix_step] in Hy; try (right; split; [reflexivity | exact Hy]).
      - cbn [emit rs apply_effect debris] in Hy. left. split; [eapply In_remove_all; exact Hy | eapply In_remove_all_neq; exact Hy].
      - cbn [emit rs apply_effect debris] in Hy. apply In_add_debris in Hy as [->|Hy]; [discriminate|].
        left. split; [eapply In_remove_all; exact Hy | eapply In_remove_all_neq; exact Hy]. }
    destruct Hy' as [[Hy1 Hy2]|[Hd Hy1]].
    + destruct (H y Hy1 Hc) as [->|Hin]; [congruence | exact Hin].
    + destruct (H y Hy1 Hc) as [<-|Hin]; [congruence | exact Hin].
Qed.

Lemma fix_blobs_fixed s : fixed (rs (fix_blobs (init s))).
Proof. unfold fixed, fix_blobs. cbn [init rs]. apply fix_fold_colons. cbn. auto. Qed.

(** on a store without old-spelling files fixBlobs does nothing: it is idempotent *)
Lemma fix_fold_noop ds : forall r, (forall d, In d ds -> is_colon d = false) -> fold_left fix_step ds r = r.
Proof.
  induction ds as [|d ds IH]; intros r H; cbn [fold_left]; [reflexivity|].
  assert (Hd := H d (or_introl eq_refl)). destruct d; try discriminate; cbn [fix_step]; apply IH; intros x Hx; apply H; right; exact Hx.
Qed.

Lemma fix_blobs_noop s : fixed s -> fix_blobs (init s) = init s.
Proof. intros H. unfold fix_blobs. apply fix_fold_noop. exact H. Qed.

Lemma fix_blobs_idempotent s :
  rs (fix_blobs (init (rs (fix_blobs (init s))))) = rs (fix_blobs (init s)).
Proof. rewrite fix_blobs_noop; [reflexivity | apply fix_blobs_fixed]. Qed.

Section Fix.
  Variable size_of : N -> N.
  Notation Inv := (Inv size_of).

  (** the invariant of a store as an older version left it: a layer may be present under the old spelling *)
  Definition layer_legacy_ok (s : store) (l : layer) : Prop :=
    dcolon (ldg l) = true /\ lsz l = size_of (dhex (ldg l)) /\
    (bget (dhex (ldg l)) s = Some (dhex (ldg l)) \/ In (DColon (dhex (ldg l)) (dhex (ldg l))) (debris s)).

  Record LInv (s : store) : Prop := MkLInv {
    linv_mans : forall n m, listed s n m -> Forall (layer_legacy_ok s) (all_layers m);
    linv_blobs : blobs_intact s;
    linv_case : case_unique s;
    linv_legacy : legacy_intact (debris s)
  }.

  Lemma Inv_LInv s : Inv s -> LInv s.
  Proof.
    intros [Hm Hb Hc Hl]. split; try assumption. intros n m Hlist. specialize (Hm n m Hlist).
    unfold man_ok in Hm. rewrite Forall_forall in *. intros l Hin. destruct (Hm l Hin) as [H1 [H2 H3]]. split; [exact H1|]. split; [exact H3 | left; exact H2].
  Qed.

  Lemma fix_step_blobs r d :
    (match d with DColon h c => c = h | _ => True end) ->
    blobs_intact (rs r) ->
    blobs_intact (rs (fix_step r d)) /\
    (forall h, bget h (rs r) = Some h -> bget h (rs (fix_step r d)) = Some h) /\
    (forall h c, d = DColon h c -> bget h (rs (fix_step r d)) = Some h).
  Proof.
    intros Hd Hb. destruct d as [| | |h c|h]; cbn [fix_step]; try (split; [exact Hb | split; [auto | discriminate]]).
    subst c. split; [|split].
    - intros h' c Hin. cbn in Hin. apply (In_aset N.eqb Neqb_spec) in Hin as [[-> ->]|[_ Hin]]; [reflexivity | apply Hb, Hin].
    - intros h' Hp. unfold bget in *; cbn. destruct (N.eq_dec h' h) as [->|Hn]; [apply bget_aset_same | rewrite bget_aset_other by exact Hn; exact Hp].
    - intros h' c [= <- <-]. unfold bget; cbn. apply bget_aset_same.
  Qed.

  Lemma fix_fold_blobs ds : forall r,
    legacy_intact ds -> blobs_intact (rs r) ->
    blobs_intact (rs (fold_left fix_step ds r)) /\
    (forall h, bget h (rs r) = Some h -> bget h (rs (fold_left fix_step ds r)) = Some h) /\
    (forall h c, In (DColon h c) ds -> bget h (rs (fold_left fix_step ds r)) = Some h).
  Proof.
    induction ds as [|d ds IH]; intros r Hl Hb; cbn [fold_left]; [split; [exact Hb | split; [auto | intros h c []]]|].
    assert (Hd : match d with DColon h c => c = h | _ => True end) by (destruct d; try exact I; apply (Hl h c); left; reflexivity).
    destruct (fix_step_blobs r d Hd Hb) as [S1 [S2 S3]].
    destruct (IH (fix_step r d) (fun h c Hin => Hl h c (or_intror Hin)) S1) as [I1 [I2 I3]].
    split; [exact I1|]. split.
    - intros h Hp. apply I2, S2, Hp.
    - intros h c [->|Hin]; [apply I2, (S3 h c eq_refl) | apply (I3 h c Hin)].
  Qed.

  (** fixBlobs turns a store an older version left into one that satisfies the invariant *)
  Theorem fix_blobs_migrates s : LInv s -> Inv (rs (fix_blobs (init s))).
  Proof.
    intros [Hm Hb Hc Hl]. set (sF := rs (fix_blobs (init s))).
    assert (Hmans : mans sF = mans s) by (apply (fix_blobs_mans (init s))).
    destruct (fix_fold_blobs (debris s) (init s) Hl Hb) as [F1 [F2 F3]]. fold (fix_blobs (init s)) in F1, F2, F3. fold sF in F1, F2, F3.
    assert (Hfx := fix_blobs_fixed s). fold sF in Hfx.
    split.
    - intros n m Hlist. unfold listed in Hlist. rewrite Hmans in Hlist. specialize (Hm n m Hlist).
      unfold man_ok. rewrite Forall_forall in *. intros l Hin. destruct (Hm l Hin) as [H1 [H2 [H3|H3]]].
      + split; [exact H1|]. split; [apply F2, H3 | exact H2].
      + split; [exact H1|]. split; [apply (F3 _ _ H3) | exact H2].
    - exact F1.
    - intros a b ma mb Ha Hb'. unfold listed in Ha, Hb'. rewrite Hmans in Ha, Hb'. apply (Hc a b ma mb Ha Hb').
    - intros h c Hin. specialize (Hfx _ Hin). discriminate.
  Qed.

  (** what the correspondence check does to obtain such a store keeps the legacy invariant *)
  Lemma In_add_debris_intro d l : In d (add_debris d l).
  Proof.
    unfold add_debris. destruct d; try (left; reflexivity);
      match goal with |- In ?x (if existsb ?f ?l then _ else _) => destruct (existsb f l) eqn:E end; try (left; reflexivity);
      apply existsb_exists in E as [y [Hy E]]; apply dfile_eqb_spec in E; subst y; exact Hy.
  Qed.

  Lemma In_add_debris_mono x d l : In x l -> In x (add_debris d l).
  Proof. unfold add_debris. destruct d; try (destruct (existsb _ l)); intros H; try exact H; right; exact H. Qed.

  Lemma legacy_move_blob_LInv s h :
    LInv s ->
    LInv (match bget h s with
          | Some c => MkStore (mans s) (adel N.eqb h (blobs s)) (add_debris (DColon h c) (debris s))
          | None => s
          end).
  Proof.
    intros HL. destruct (bget h s) as [c|] eqn:Eb; [|exact HL]. destruct HL as [Hm Hb Hc Hl].
    assert (Hch : c = h) by (apply (Hb h c), (aget_In N.eqb Neqb_spec), Eb). subst c.
    split.
    - intros n m Hlist. specialize (Hm n m Hlist). rewrite Forall_forall in *. intros l Hin.
      destruct (Hm l Hin) as [H1 [H2 H3]]. split; [exact H1|]. split; [exact H2|]. cbn [debris].
      destruct (N.eq_dec (dhex (ldg l)) h) as [->|Hn].
      + right. apply In_add_debris_intro.
      + destruct H3 as [H3|H3]; [left; unfold bget in *; cbn; rewrite bget_adel_other by exact Hn; exact H3 | right; apply In_add_debris_mono, H3].
    - intros h' c Hin. cbn in Hin. apply (In_adel N.eqb Neqb_spec) in Hin as [Hin _]. apply (Hb h' c Hin).
    - exact Hc.
    - intros h' c Hin. cbn [debris] in Hin. apply In_add_debris in Hin as [[= -> ->]|Hin]; [reflexivity | apply (Hl h' c Hin)].
  Qed.

  Lemma legacy_move_LInv s hs ps : LInv s -> LInv (legacy_move s hs ps).
  Proof.
    intros HL. unfold legacy_move.
    assert (H1 : forall hs s, LInv s -> LInv (fold_left (fun s h => match bget h s with
                 | Some c => MkStore (mans s) (adel N.eqb h (blobs s)) (add_debris (DColon h c) (debris s)) | None => s end) hs s)).
    { clear. induction hs as [|h hs IH]; intros s HL; cbn [fold_left]; [exact HL|]. apply IH, legacy_move_blob_LInv, HL. }
    assert (H2 : forall ps s, LInv s -> LInv (fold_left (fun s p => MkStore (mans s) (blobs s) (add_debris (DColonPartial p) (debris s))) ps s)).
    { clear. induction ps as [|p ps IH]; intros s HL; cbn [fold_left]; [exact HL|]. apply IH. destruct HL as [Hm Hb Hc Hl]. split.
      - intros n m Hlist. specialize (Hm n m Hlist). rewrite Forall_forall in *. intros l Hin.
        destruct (Hm l Hin) as [A [B [C|C]]]; (split; [exact A|]; split; [exact B|]); [left; exact C | right; apply In_add_debris_mono, C].
      - exact Hb.
      - exact Hc.
      - intros h c Hin. cbn [debris] in Hin. apply In_add_debris in Hin as [Hin|Hin]; [discriminate | apply (Hl h c Hin)]. }
    apply H2, H1, HL.
  Qed.

  (** ** the whole start-up sequence on such a store *)
  Lemma emit_rs r r' e : rs r = rs r' -> rs (emit r e) = rs (emit r' e).
  Proof. intros H. cbn. rewrite H. reflexivity. Qed.

  Lemma rm_debris_rs ds : forall r r', rs r = rs r' ->
    rs (fold_left (fun r d => emit r (ERmDebris d)) ds r) = rs (fold_left (fun r d => emit r (ERmDebris d)) ds r').
  Proof. induction ds as [|d ds IH]; intros r r' H; cbn [fold_left]; [exact H|]. apply IH, emit_rs, H. Qed.

  Lemma delete_unused_rs dm : forall r r', rs r = rs r' -> rs (delete_unused r dm) = rs (delete_unused r' dm).
  Proof.
    unfold delete_unused. induction dm as [|d dm IH]; intros r r' H; cbn [fold_left]; [exact H|]. apply IH.
    rewrite H. destruct (referenced (rs r') d); [exact H|]. destruct (bget (dhex d) (rs r')); [apply emit_rs, H | exact H].
  Qed.

  Lemma startup_rest_rs r r' : rs r = rs r' -> rs (startup_rest r) = rs (startup_rest r').
  Proof.
    intros H. unfold startup_rest. rewrite H. destruct (has_unreadable (rs r')); [exact H|].
    apply delete_unused_rs, rm_debris_rs, H.
  Qed.

  (** start-up = fixBlobs, then the start-up of a store that has no old-spelling file *)
  Lemma startup_via_fixed s : exec size_of s OStartup = exec size_of (rs (fix_blobs (init s))) OStartup.
  Proof.
    unfold exec, op_run, op_startup. cbn [fst]. rewrite (fix_blobs_noop _ (fix_blobs_fixed s)). apply startup_rest_rs. reflexivity.
  Qed.

  Theorem startup_migrates s : LInv s -> Inv (exec size_of s OStartup) /\ fixed (exec size_of s OStartup).
  Proof.
    intros HL. assert (HI := fix_blobs_migrates s HL). split.
    - rewrite startup_via_fixed. apply exec_inv; [exact HI | reflexivity].
    - rewrite startup_via_fixed. set (sF := rs (fix_blobs (init s))) in *.
      assert (Hf : fixed sF) by apply fix_blobs_fixed.
      unfold exec, op_run, op_startup. cbn [fst]. rewrite (fix_blobs_noop _ Hf).
      (* the rest only removes debris *)
      unfold startup_rest. cbn [init rs]. destruct (has_unreadable sF); [exact Hf|].
      intros d Hd. rewrite (proj1 (proj2 (delete_unused_spec _ _))) in Hd.
      destruct (rm_debris_all (debris sF) (init sF) eq_refl) as [Hnil _]. rewrite Hnil in Hd. destruct Hd.
  Qed.
End Fix.
