(** * Store/Corr.v — executable comparison of the model with observations of the real store (definitions only).
    props/c04.py and props/c12.py render every case as one closed [bool] term built from these functions. *)
From Coq Require Import List NArith Bool Arith.
From V Require Import Common.Bytes Store.Fs Store.Ops.
Import ListNotations.
Open Scope N_scope.

(** sizes of the contents that occur in a case (supplied by the harness: real file sizes) *)
Definition size_tbl (t : list (N * N)) (c : N) : N :=
  match aget N.eqb c t with Some z => z | None => 0 end.

Definition amap_sub {K V} (keqb : K -> K -> bool) (veqb : V -> V -> bool) (a b : list (K * V)) : bool :=
  forallb (fun p => match aget keqb (fst p) b with Some v => veqb (snd p) v | None => false end) a.

Definition amap_eqv {K V} (keqb : K -> K -> bool) (veqb : V -> V -> bool) (a b : list (K * V)) : bool :=
  (length a =? length b)%nat && amap_sub keqb veqb a b && amap_sub keqb veqb b a.

Fixpoint mset_eqb (a b : list dfile) : bool :=
  match a with
  | [] => match b with [] => true | _ => false end
  | x :: t => existsb (dfile_eqb x) b && mset_eqb t (remove_one x b)
  end.

Definition store_eqv (a b : store) : bool :=
  amap_eqv name_eqb mstate_eqb (mans a) (mans b) && amap_eqv N.eqb N.eqb (blobs a) (blobs b) && mset_eqb (debris a) (debris b).

(** what a history consists of: API operations / start-up, and (scaffolding) turning the store into one an older
    version would have left *)
Inductive action := AOp (o : op) | ALegacy (hs ps : list N) | AHead (d : digest) | ACorrupt (n : name) | ANoPruneStartup
                  | AAbortBlob (d : digest) | AAbortReq.
(* ACorrupt: (scaffolding) a manifest file is truncated, as a crash between create-truncate and write leaves it;
   ANoPruneStartup: the start-up sequence under OLLAMA_NOPRUNE *)
(* AHead: HEAD /api/blobs/:digest — GetBlobsPath maps both spellings of a digest to the file sha256-<hex>, hex case kept *)

(* AAbortBlob: POST /api/blobs/:digest whose body ends with a read error (the client went away): when the blob exists
   the handler answers before it reads the body; otherwise NewLayer has made its temp file, io.Copy fails, the deferred
   os.Remove takes the temp file away again and the request fails.  Nothing of the bytes received survives the call.
   AAbortReq: a request whose JSON body is cut off: the handler fails before it touches the store. *)
Definition blob_aborted (s : store) (d : digest) : run * result :=
  match bget (dhex d) s with
  | Some _ => (init s, ROk)
  | None => (emits (init s) [EAddDebris DTemp; ERmDebris DTemp], RErr)
  end.

Definition act_run (size_of : N -> N) (s : store) (a : action) : store * result :=
  match a with
  | AAbortBlob d => let (r, res) := blob_aborted s d in (rs r, res)
  | AAbortReq => (s, RErr)
  | AOp o => let (r, res) := op_run size_of s o in (rs r, res)
  | ALegacy hs ps => (legacy_move s hs ps, ROk)
  | AHead d => (s, match bget (dhex d) s with Some _ => ROk | None => RNotFound end)
  | ACorrupt n => (match mget n s with Some _ => MkStore (aset name_eqb n Unreadable (mans s)) (blobs s) (debris s) | None => s end, ROk)
  | ANoPruneStartup => (startup_noprune s, ROk)
  end.
Definition act_all (size_of : N -> N) (s : store) (l : list action) : store := fold_left (fun s a => fst (act_run size_of s a)) l s.

(** one step of a history: the action, the observed result class and the observed store afterwards *)
Record step := MkStep { st_act : action; st_res : result; st_obs : store }.

Fixpoint chk_steps (size_of : N -> N) (s : store) (l : list step) : bool :=
  match l with
  | [] => true
  | x :: t =>
      let (s', res) := act_run size_of s (st_act x) in
      result_eqb res (st_res x) && store_eqv s' (st_obs x) && chk_steps size_of s' t
  end.

(** index of the first step at which model and observation differ (for the replay file) *)
Fixpoint first_bad (size_of : N -> N) (s : store) (l : list step) (i : nat) : option nat :=
  match l with
  | [] => None
  | x :: t =>
      let (s', res) := act_run size_of s (st_act x) in
      if result_eqb res (st_res x) && store_eqv s' (st_obs x) then first_bad size_of s' t (S i) else Some i
  end.

Definition chk_history (tbl : list (N * N)) (l : list step) : bool := chk_steps (size_tbl tbl) empty_store l.

(** the model store after a history (for replays) *)
Definition model_after (tbl : list (N * N)) (acts : list action) : store := act_all (size_tbl tbl) empty_store acts.

(** getExistingName alone: every listed order of the stored names gives the observed answer *)
Definition chk_get_existing (orders : list (list name)) (n : name) (obs : name) : bool :=
  forallb (fun ex => name_eqb (get_existing ex n) obs) orders.

(** ** Crash points (C12) *)

(** drop consecutive duplicates *)
Fixpoint dedup (l : list store) : list store :=
  match l with
  | [] => []
  | x :: t => match dedup t with
              | [] => [x]
              | y :: t' => if store_eqv x y then y :: t' else x :: y :: t'
              end
  end.

Fixpoint prefixes_from (s : store) (es : list effect) : list store :=
  s :: match es with [] => [] | e :: t => prefixes_from (apply_effect s e) t end.

Definition list_store_eqv (a b : list store) : bool := list_eqb store_eqv a b.

(** the sequence of distinct stores seen when the operation is killed before each of its mutating system calls
    equals the model's sequence of effect prefixes *)
Definition chk_crash_prefixes (tbl : list (N * N)) (pre : list action) (o : op) (obs : list store) : bool :=
  let s := act_all (size_tbl tbl) empty_store pre in
  list_store_eqv (dedup (prefixes_from s (effects (size_tbl tbl) s o))) (dedup obs).

(** an operation group (e.g. blob upload followed by create): the effects of the group in sequence *)
Fixpoint effects_seq (size_of : N -> N) (s : store) (os : list op) : list effect :=
  match os with
  | [] => []
  | o :: t => effects size_of s o ++ effects_seq size_of (exec size_of s o) t
  end.

Definition chk_crash_prefixes_seq (tbl : list (N * N)) (pre : list action) (grp : list op) (obs : list store) : bool :=
  let s := act_all (size_tbl tbl) empty_store pre in
  list_store_eqv (dedup (prefixes_from s (effects_seq (size_tbl tbl) s grp))) (dedup obs).

(** recovery (the real start-up sequence) from an observed crash store gives the model's recovery *)
Definition chk_recover (tbl : list (N * N)) (crashed obs : store) : bool :=
  store_eqv (recover (size_tbl tbl) crashed) obs.

Definition chk_recover_noprune (crashed obs : store) : bool := store_eqv (startup_noprune crashed) obs.

(** re-running the operation on an observed recovered store *)
Definition chk_redo (tbl : list (N * N)) (recovered : store) (o : op) (res : result) (obs : store) : bool :=
  let (r, res') := op_run (size_tbl tbl) recovered o in
  result_eqb res' res && store_eqv (rs r) obs.
