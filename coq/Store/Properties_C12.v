(** * Properties_C12 — theorems only (proofs are in Store/Proofs*.v) *)
From Coq Require Import List NArith Bool.
From V Require Import Common.Bytes Store.Fs Store.Ops.
Import ListNotations.

Theorem C12_crash_zero : forall size_of s o, crash size_of s o 0 = s.
Proof. reflexivity. Qed.
Print Assumptions C12_crash_zero.
