(** * Properties_C12 — a crash at any point leaves a store in which every resolvable model is intact.
    Theorems only; the proofs are in Store/Proofs*.v.

    Every operation of the model (Store/Ops.v) is a program that emits atomic file-system effects; the server dying
    after the first [k] effects of operation [o] started in store [s] leaves [crash s o k]; the restart runs the
    start-up sequence of server.Serve ([recover]).  [guards]: as in Properties_C04, every operation (completed or
    interrupted) meets its decidable guard in the store it starts in. *)
From Coq Require Import List NArith Bool.
From V Require Import Common.Bytes Store.Fs Store.Ops Store.ProofsAlist Store.ProofsNames Store.ProofsInv Store.ProofsOps Store.ProofsTop Store.ProofsMore Store.ProofsRedo Store.ProofsRedo2 Store.Corr Store.Pull2 Store.ProofsPull2.
Import ListNotations.
Open Scope N_scope.

(** For every store reachable by any history of completed operations, crashes (at any effect prefix of any operation)
    and restarts, every operation, every prefix of its effect list: already before the restart, and after it, every
    manifest that decodes has all its layers and its config present, intact and of the recorded size; the manifests of
    the models the operation does not name, and the blobs they use, are exactly as before the operation. *)
Theorem C12_crash_sound : forall size_of es o k,
  guards size_of empty_store es ->
  let s := ev_run size_of empty_store es in
  op_guard size_of s o = true ->
  let c := crash size_of s o k in
  let s' := recover size_of c in
  (forall n m l, (mget n c = Some (Readable m) \/ mget n s' = Some (Readable m)) -> In l (all_layers m) ->
     dcolon (ldg l) = true /\ bget (dhex (ldg l)) s' = Some (dhex (ldg l)) /\ lsz l = size_of (dhex (ldg l))) /\
  (forall n, op_target s o <> Some n ->
     mget n s' = mget n s /\
     forall m l, mget n s = Some (Readable m) -> In l (all_layers m) -> bget (dhex (ldg l)) s' = bget (dhex (ldg l)) s).
Proof.
  intros size_of es o k Hg s Hgo c s'.
  assert (HI : Inv size_of s) by (apply ev_run_inv; [apply Inv_empty | exact Hg]).
  assert (HIc : Inv size_of c) by (apply crash_inv; assumption).
  assert (HIs : Inv size_of s') by (apply recover_inv, HIc).
  split.
  - intros n m l [Hm|Hm] Hl.
    + apply (inv_listed_complete size_of s' n m l HIs); [|exact Hl].
      destruct (recover_frame size_of c n HIc) as [H1 _]. fold s' in H1. rewrite H1. exact Hm.
    + apply (inv_listed_complete size_of s' n m l HIs Hm Hl).
  - intros n Hn. destruct (prefix_frame size_of s o k n HI Hgo Hn) as [P1 P2]. fold c in P1, P2.
    destruct (recover_frame size_of c n HIc) as [R1 R2]. fold s' in R1, R2.
    split; [congruence|]. intros m l Hm Hl.
    rewrite (R2 m l); [apply (P2 m l); [apply mget_listed, Hm | exact Hl] | | exact Hl].
    apply mget_listed. rewrite P1. exact Hm.
Qed.
Print Assumptions C12_crash_sound.

(** The invariant behind it, for every reachable store (operations, crashes, restarts in any order). *)
Theorem C12_reachable_inv : forall size_of es,
  guards size_of empty_store es -> Inv size_of (ev_run size_of empty_store es).
Proof. intros size_of es Hg. apply ev_run_inv; [apply Inv_empty | exact Hg]. Qed.
Print Assumptions C12_reachable_inv.

(** Repeating the interrupted operation after the restart: it answers as the uninterrupted run would have (a
    delete may answer "not found": it already took effect) and leaves the same manifests — hence, both stores
    satisfying the invariant, the same models with the same, intact blobs; they differ at most in unreferenced blobs.
    Proved for the crash points that leave no torn manifest ([has_unreadable (crash s o k) = false]) and operations
    that do not read their own target ([redo_ok]: a create FROM the name it creates is excluded, as is a create from
    files, whose upload has to be repeated first, and a pull needs every layer to be downloadable again). *)
Theorem C12_idempotent_redo_partial : forall size_of es o k,
  guards size_of empty_store es ->
  let s := ev_run size_of empty_store es in
  op_guard size_of s o = true -> redo_ok s o = true ->
  has_unreadable s = false -> has_unreadable (crash size_of s o k) = false ->
  let s1 := recover size_of (crash size_of s o k) in
  (forall n, mget n (exec size_of s1 o) = mget n (exec size_of s o)) /\
  Inv size_of (exec size_of s1 o) /\ Inv size_of (exec size_of s o) /\
  (snd (op_run size_of s1 o) = snd (op_run size_of s o) \/
   (exists n, o = ODelete n) /\ snd (op_run size_of s1 o) = RNotFound /\ snd (op_run size_of s o) = ROk).
Proof.
  intros size_of es o k Hg s. apply (redo_partial size_of). apply ev_run_inv; [apply Inv_empty | exact Hg].
Qed.
Print Assumptions C12_idempotent_redo_partial.

(** The general form, every crash point included.  [redo_guard s o k] (decidable) says: (a) if the crash point leaves
    a torn manifest, the repeated request canonicalises to the same target name as the interrupted one — the torn file is
    invisible to getExistingName, so this is a condition on the letter case of the request and of the other stored
    names; (b) a create finds its base as before (its source model is not its own target / its uploaded blob is there
    again) and meets [create_check] on the restarted store; a pull can download every layer again.  Covers delete, copy,
    create FROM, create from files, pull, at clean and at torn crash points. *)
Theorem C12_idempotent_redo_guarded : forall size_of es o k,
  guards size_of empty_store es ->
  let s := ev_run size_of empty_store es in
  op_guard size_of s o = true -> has_unreadable s = false -> redo_guard size_of s o k = true ->
  let s1 := recover size_of (crash size_of s o k) in
  (forall n, mget n (exec size_of s1 o) = mget n (exec size_of s o)) /\
  Inv size_of (exec size_of s1 o) /\ Inv size_of (exec size_of s o) /\
  (snd (op_run size_of s1 o) = snd (op_run size_of s o) \/
   (exists n, o = ODelete n) /\ snd (op_run size_of s1 o) = RNotFound /\ snd (op_run size_of s o) = ROk).
Proof.
  intros size_of es o k Hg s. apply (redo_general size_of). apply ev_run_inv; [apply Inv_empty | exact Hg].
Qed.
Print Assumptions C12_idempotent_redo_guarded.

(** ... and part (a) of the guard is exact: at a torn crash point, if the repetition canonicalises to another name it
    leaves the torn manifest where the uninterrupted run has the new one. *)
Theorem C12_redo_torn_exact : forall size_of es o k t ms,
  guards size_of empty_store es ->
  let s := ev_run size_of empty_store es in
  op_guard size_of s o = true -> has_unreadable s = false ->
  op_mid size_of s o = [ETruncMan t; EWriteMan t ms] ->
  mans (crash size_of s o k) = aset name_eqb t Unreadable (mans s) ->
  let s1 := recover size_of (crash size_of s o k) in
  op_target s1 o <> Some t -> op_guard size_of s1 o = true ->
  mget t (exec size_of s1 o) = Some Unreadable /\ mget t (exec size_of s o) = Some ms /\ ms <> Unreadable.
Proof.
  intros size_of es o k t ms Hg s. apply (redo_torn_exact size_of). apply ev_run_inv; [apply Inv_empty | exact Hg].
Qed.
Print Assumptions C12_redo_torn_exact.

(** the manifests of a crash store are those of the start, those of the end, or those of the start with the one
    target manifest torn; a delete never leaves a torn manifest *)
Theorem C12_crash_kinds : forall size_of es o k,
  guards size_of empty_store es ->
  let s := ev_run size_of empty_store es in
  op_guard size_of s o = true -> crash_kind size_of s o (crash size_of s o k).
Proof.
  intros size_of es o k Hg s. apply (crash_kinds size_of). apply ev_run_inv; [apply Inv_empty | exact Hg].
Qed.
Print Assumptions C12_crash_kinds.

(** create from files as the client performs it — the file is uploaded again (POST /api/blobs), then the create is
    repeated — for every crash point of the create whose torn-manifest condition (a) holds *)
Theorem C12_redo_upload_create : forall size_of es q k d parts fail det,
  guards size_of empty_store es ->
  let s := ev_run size_of empty_store es in
  op_guard size_of s (OCreate q) = true -> has_unreadable s = false ->
  cr_base q = BFiles d parts fail det -> dcolon d = true -> is_some (bget (dhex d) s) = true ->
  let s1 := recover size_of (crash size_of s (OCreate q) k) in
  let s2 := exec size_of s1 (OBlob d (dhex d)) in
  (if has_unreadable (crash size_of s (OCreate q) k) then oname_eqb (op_target s1 (OCreate q)) (op_target s (OCreate q)) else true) = true ->
  (forall n, mget n (exec size_of s2 (OCreate q)) = mget n (exec size_of s (OCreate q))) /\
  snd (op_run size_of s2 (OCreate q)) = snd (op_run size_of s (OCreate q)).
Proof.
  intros size_of es q k d parts fail det Hg s. apply (redo_upload_create size_of). apply ev_run_inv; [apply Inv_empty | exact Hg].
Qed.
Print Assumptions C12_redo_upload_create.

(** Restarts that do not prune: OLLAMA_NOPRUNE (start-up = fixBlobs only; [recover_np]), or an unreadable manifest
    somewhere in the store (then [recover] itself skips pruning).  Part records and -partial files then survive the
    restart and the repeated pull resumes from them (Ops.download: record complete / incomplete / torn).  The crash
    theorem and the redo theorem hold for the non-pruning restart as well. *)
Theorem C12_crash_sound_noprune : forall size_of es o k,
  guards size_of empty_store es ->
  let s := ev_run size_of empty_store es in
  op_guard size_of s o = true ->
  let c := crash size_of s o k in
  let s' := recover_np c in
  Inv size_of s' /\ mans s' = mans c /\
  (forall n, op_target s o <> Some n ->
     mget n s' = mget n s /\
     forall m l, mget n s = Some (Readable m) -> In l (all_layers m) -> bget (dhex (ldg l)) s' = bget (dhex (ldg l)) s).
Proof.
  intros size_of es o k Hg s Hgo c s'.
  assert (HI : Inv size_of s) by (apply ev_run_inv; [apply Inv_empty | exact Hg]).
  assert (HIc : Inv size_of c) by (apply crash_inv; assumption).
  split; [apply recover_np_inv, HIc|]. split; [apply recover_np_mans|].
  intros n Hn. destruct (prefix_frame size_of s o k n HI Hgo Hn) as [P1 P2]. fold c in P1, P2.
  split; [unfold mget in *; unfold s'; rewrite recover_np_mans; exact P1|].
  intros m l Hm Hl. unfold s'. rewrite (recover_np_frame size_of c n m l HIc); [apply (P2 m l); [apply mget_listed, Hm | exact Hl] | | exact Hl].
  apply mget_listed. rewrite P1. exact Hm.
Qed.
Print Assumptions C12_crash_sound_noprune.

Theorem C12_idempotent_redo_noprune : forall size_of es o k,
  guards size_of empty_store es ->
  let s := ev_run size_of empty_store es in
  op_guard size_of s o = true -> has_unreadable s = false -> redo_guard size_of s o k = true ->
  (match o with OCreate q => exists src, cr_base q = BFrom src | _ => True end) ->
  let s1 := recover_np (crash size_of s o k) in
  (forall n, mget n (exec size_of s1 o) = mget n (exec size_of s o)) /\
  (snd (op_run size_of s1 o) = snd (op_run size_of s o) \/
   (exists n, o = ODelete n) /\ snd (op_run size_of s1 o) = RNotFound /\ snd (op_run size_of s o) = ROk).
Proof.
  intros size_of es o k Hg s. apply (redo_general_noprune size_of). apply ev_run_inv; [apply Inv_empty | exact Hg].
Qed.
Print Assumptions C12_idempotent_redo_noprune.

(** A part record is rewritten in place (writePart: open with O_TRUNC, then encode).  Unrepaired, a pull that finds an
    empty (torn) record fails in Prepare and changes nothing — so every repetition fails, for as long as nothing prunes;
    repaired (fixes/C12-torn-part-record.patch: unreadable records are discarded, the download starts over) it succeeds. *)
Definition pr_store : store := MkStore [] [] [DPartial 1; DPartRec 1 0 PRTorn].
Definition pr_layer : layer := MkLayer 0 (MkDigest true 1) 11.

Theorem C12_torn_part_record_legacy_refuted :
  download_gen (fun c => c + 10) true (init pr_store) pr_layer (Some 1) = (init pr_store, None) /\
  (let (r, res) := download (fun c => c + 10) (init pr_store) pr_layer (Some 1) in
   res = Some false /\ bget 1 (rs r) = Some 1 /\ debris (rs r) = []).
Proof. split; vm_compute; auto. Qed.
Print Assumptions C12_torn_part_record_legacy_refuted.

(** The full statement — for every crash point — is false of the faithful model: manifests are written in place
    (create-truncate, then write), a kill between the two leaves an unreadable manifest that getExistingName does
    not see; repeating the operation under a name that differs in letter case writes a second manifest. *)
Definition C12_idempotent_redo_full : Prop := forall size_of es o k,
  guards size_of empty_store es ->
  let s := ev_run size_of empty_store es in
  op_guard size_of s o = true -> redo_ok s o = true -> has_unreadable s = false ->
  let s1 := recover size_of (crash size_of s o k) in
  forall n, mget n (exec size_of s1 o) = mget n (exec size_of s o).

Definition rd_a : name := MkName s_default_host s_default_ns [97] [116].   (* a:t *)
Definition rd_A : name := MkName s_default_host s_default_ns [65] [116].   (* A:t *)
Definition rd_b : name := MkName s_default_host s_default_ns [98] [116].   (* b:t *)
Definition rd_sz (c : N) : N := c + 10.
Definition rd_es : list event :=
  [ EvOp (OBlob (MkDigest true 1) 1)
  ; EvOp (OCreate (MkCreate rd_a (BFiles (MkDigest true 1) [(0, None)] false []) None None [] None None 30))
  ; EvOp (OCopy rd_a rd_b) ].
Definition rd_o2 : op := OCreate (MkCreate rd_A (BFrom rd_b) None (Some 2) [] None None 31).  (* re-create a:t as A:t FROM b:t *)

Theorem C12_idempotent_redo_refuted : ~ C12_idempotent_redo_full.
Proof.
  intros H. specialize (H rd_sz rd_es rd_o2 5%nat).
  assert (Hg : guards rd_sz empty_store rd_es) by (vm_compute; repeat split).
  specialize (H Hg eq_refl eq_refl eq_refl rd_A). vm_compute in H. discriminate.
Qed.
Print Assumptions C12_idempotent_redo_refuted.

(** ** Non-vacuity *)
Definition rd_o3 : op := OCreate (MkCreate rd_a (BFrom rd_b) None (Some 2) [] None None 31).  (* re-create a:t, spelled as stored, FROM b:t *)

Example C12_example_redo_guard :
  let s := ev_run rd_sz empty_store rd_es in
  (* torn crash point, request spelled as the stored name: covered *)
  has_unreadable (crash rd_sz s rd_o3 5) = true /\ redo_guard rd_sz s rd_o3 5 = true /\
  (* torn crash point, request in another letter case: excluded, and it really differs *)
  redo_guard rd_sz s rd_o2 5 = false /\ redo_guard rd_sz s rd_o2 4 = true /\ redo_guard rd_sz s rd_o2 6 = true /\
  (* copy and pull at their torn points *)
  redo_guard rd_sz s (OCopy rd_b rd_a) 1 = true /\ has_unreadable (crash rd_sz s (OCopy rd_b rd_a) 1) = true.
Proof. vm_compute. repeat split. Qed.

Example C12_example_guards : guards rd_sz empty_store (rd_es ++ [EvCrash rd_o2 5; EvOp rd_o2; EvCrash (ODelete rd_b) 1; EvOp OStartup]).
Proof. vm_compute. repeat split. Qed.

Example C12_example_partial_hyps :
  let s := ev_run rd_sz empty_store rd_es in
  redo_ok s rd_o2 = true /\ has_unreadable s = false /\
  has_unreadable (crash rd_sz s rd_o2 4) = false /\ has_unreadable (crash rd_sz s rd_o2 5) = true /\ has_unreadable (crash rd_sz s rd_o2 6) = false /\
  length (effects rd_sz s rd_o2) = 6%nat.
Proof. vm_compute. repeat split. Qed.


(** * The new pull path (Registry.Pull of server/internal/client/ollama over blob.DiskCache; Store/Pull2.v)

    A layer is assembled from chunks in a scratch file [sha256-<h>.chunked]; every chunk that was fetched and verified
    is recorded in the cache (a small blob) and skipped by later attempts; the scratch file takes the blob's name only
    in the commit step, after the whole file hashed to the layer's digest.  [good] is the invariant of the extended
    store: blob files hold what their name says or are empty (just created); every manifest that can be read has all
    its layers present, intact and of the recorded size; a chunk whose record exists is in the scratch file of its
    layer (or the layer is committed); no manifest uses a record as a layer; no old-version blob names are left.
    [guard2] describes an honest registry (sizes as announced, every layer announced in at least one chunk). *)

(** the invariant holds in the empty store *)
Lemma C12_pull2_good_empty : forall size_of sv, good size_of sv (MkSt2 empty_store []).
Proof.
  intros. split.
  - intros h c H. discriminate.
  - intros n m H. discriminate.
  - intros h cs i c Ha Hn Hrec. discriminate.
  - intros k Hk. reflexivity.
  - intros d [].
Qed.

(** Killed after any number of its effects, then restarted with or without pruning: every manifest that can be read
    has all its layers, and the invariant holds again (so this composes with further pulls, crashes and restarts). *)
Theorem C12_pull2_crash_sound : forall size_of emp sv s n k np,
  size_of emp = 0 -> guard2 size_of sv = true -> good size_of sv s ->
  let c := restart2 size_of np (crash2 size_of emp s n sv k) in
  good size_of sv c /\
  forall n' m, mget n' (base c) = Some (Readable m) -> man_okb size_of (base c) m = true.
Proof.
  intros size_of emp sv s n k np He Hg Hgd c.
  assert (Hc : good size_of sv c).
  { apply restart2_good; try assumption. destruct (pull2_ok size_of emp He sv Hg s n Hgd) as [[_ H] _]. apply H. }
  split; [exact Hc | apply (g_c _ _ _ Hc)].
Qed.
Print Assumptions C12_pull2_crash_sound.

(** The manifest is linked only after every layer is committed: at whatever point the pull is killed, if the name
    already resolves to the manifest that is being pulled, all its layers are blobs of the right content and size. *)
Theorem C12_pull2_commit_before_link : forall size_of emp sv s n k,
  size_of emp = 0 -> guard2 size_of sv = true -> good size_of sv s ->
  let c := crash2 size_of emp s n sv k in
  forall n', mget n' (base c) = Some (Readable (s2_man sv)) -> man_okb size_of (base c) (s2_man sv) = true.
Proof.
  intros size_of emp sv s n k He Hg Hgd c n' Hm.
  destruct (pull2_ok size_of emp He sv Hg s n Hgd) as [[_ H] _]. apply (g_c _ _ _ (H k) n' _ Hm).
Qed.
Print Assumptions C12_pull2_commit_before_link.

(** Repeating the pull after a crash at any point and either kind of restart succeeds when the registry serves every
    chunk: the name resolves to the served manifest and every layer is committed — in particular when every chunk
    was already recorded before the crash (then the repeated pull fetches nothing and still commits). *)
Theorem C12_pull2_redo : forall size_of emp sv s n k np,
  size_of emp = 0 -> guard2 size_of sv = true -> good size_of sv s -> honest sv = true ->
  let c := restart2 size_of np (crash2 size_of emp s n sv k) in
  let f := exec2 size_of emp c n sv in
  snd (pull2 size_of emp c n sv) = ROk /\
  listed_as f (link_name (base c) n) (s2_man sv) = true /\
  good size_of sv f /\
  forall n' m, mget n' (base f) = Some (Readable m) -> man_okb size_of (base f) m = true.
Proof.
  intros size_of emp sv s n k np He Hg Hgd Hh c f.
  destruct (C12_pull2_crash_sound size_of emp sv s n k np He Hg Hgd) as [Hc _]. fold c in Hc.
  destruct (pull2_ok size_of emp He sv Hg c n Hc) as [HR [H1 H2]].
  assert (Hf : good size_of sv f) by (apply (Rok2_now _ _ _ HR)).
  split; [apply H2, Hh|]. split; [apply H1, H2, Hh|]. split; [exact Hf | apply (g_c _ _ _ Hf)].
Qed.
Print Assumptions C12_pull2_redo.

(** Not vacuous, and the commit in the repeated pull is what the theorem is about: two layers (one in two chunks),
    killed after the last chunk record of the first layer was written and before its commit; restart without pruning. *)
Definition p2_sz (c : N) : N := match c with 9 => 0 | _ => c + 10 end.
Definition p2_l1 := MkLayer MT_MODEL (MkDigest true 1) 11.
Definition p2_cfg := MkLayer 8 (MkDigest true 2) 12.
Definition p2_sv := MkServed2 (MkManifest p2_cfg [p2_l1]) 3 [(1, [MkChunk 4 true; MkChunk 5 true]); (2, [MkChunk 6 true])].
Definition p2_n := MkName [104] [110] [109] [116].
Definition p2_s0 := MkSt2 empty_store [].

Example C12_pull2_example :
  guard2 p2_sz p2_sv = true /\ honest p2_sv = true /\
  length (effects2 p2_sz 9 p2_s0 p2_n p2_sv) = 15%nat /\
  let c := restart2 p2_sz true (crash2 p2_sz 9 p2_s0 p2_n p2_sv 6) in
  written c 1 = [1%nat; 0%nat] /\ has_rec p2_sz c 4 = true /\ has_rec p2_sz c 5 = true /\ bget 1 (base c) = None /\
  effects2 p2_sz 9 c p2_n p2_sv =
    [XCommit 1; XPut 2 0; XSetBlob 6 9; XSetBlob 6 6; XCommit 2; XSetBlob 3 9; XSetBlob 3 3;
     XBase (ETruncMan p2_n); XBase (EWriteMan p2_n (Readable (s2_man p2_sv)))].
Proof. vm_compute. repeat split. Qed.

(** the variant that skips the commit of a layer for which nothing had to be fetched (the regression this stage was
    built to catch) links a manifest whose first layer exists only as a scratch file *)
Definition do_layer_lazy (size_of : N -> N) (emp : N) (sv : served2) (r : run2) (l : layer) : run2 * bool :=
  let h := dhex (ldg l) in
  if has_blob size_of (rs2 r) h (lsz l) then (r, true)
  else
    let fresh := match written (rs2 r) h with [] => true | _ => false end in
    let (r1, failed) := do_chunks size_of emp fresh r h (chunks_of sv h) 0%nat false in
    if failed then (r1, false)
    else if Nat.eqb (length (rt2 r1)) (length (rt2 r)) then (r1, true)
    else if covers (written (rs2 r1) h) (length (chunks_of sv h)) then (emit2 r1 (XCommit h), true)
    else (r1, false).

Example C12_pull2_lazy_commit_refuted :
  let c := restart2 p2_sz true (crash2 p2_sz 9 p2_s0 p2_n p2_sv 6) in
  let (r1, ok1) := do_layer_lazy p2_sz 9 p2_sv (init2 c) p2_l1 in
  let (r2, ok2) := do_layer_lazy p2_sz 9 p2_sv r1 p2_cfg in
  ok1 && ok2 = true /\ man_okb p2_sz (base (rs2 r2)) (s2_man p2_sv) = false.
Proof. vm_compute. split; reflexivity. Qed.


(** "... and leaves the store as an uninterrupted run would": in full, for the new pull path *)
Definition C12_pull2_redo_same_full : Prop := forall size_of emp sv s n k np,
  size_of emp = 0 -> guard2 size_of sv = true -> good size_of sv s -> honest sv = true ->
  let c := restart2 size_of np (crash2 size_of emp s n sv k) in
  forall n0, mget n0 (base (exec2 size_of emp c n sv)) = mget n0 (base (exec2 size_of emp s n sv)).

(** It does not hold: DiskCache.Link replaces a manifest of other content by remove, create, write.  When the name is
    stored in another letter case than the request spells it (h/n/m:t stored, h/N/M:t pulled) the uninterrupted pull
    rewrites the stored file; killed between the remove and the create, the repeated pull finds no file to match
    and links the name as the request spells it.  The model resolves either way (names are compared case-insensitively);
    what differs is the spelling under which it is listed.  Known finding C12-pull2-relink-respelled. *)
Definition p2_N := MkName [104] [78] [77] [116].
Definition p2_s1 := MkSt2 (MkStore [(p2_n, Readable (MkManifest (MkLayer 8 (MkDigest true 21) 31) [MkLayer MT_MODEL (MkDigest true 20) 30]))]
                                   [(20, 20); (21, 21)] []) [].

Theorem C12_pull2_redo_same_refuted : ~ C12_pull2_redo_same_full.
Proof.
  intros H. specialize (H p2_sz 9 p2_sv p2_s1 p2_N 14%nat false eq_refl eq_refl).
  assert (Hg : good p2_sz p2_sv p2_s1) by (apply good_b_sound; vm_compute; reflexivity).
  specialize (H Hg eq_refl p2_n). vm_compute in H. discriminate.
Qed.
Print Assumptions C12_pull2_redo_same_refuted.

(** What holds: both runs list the served manifest, the uninterrupted one under the name as it is stored before, the
    repeated one under the name as it is stored after the crash and the restart; these are the same name unless the
    crash fell between Link's remove and create while the request spells the name in another letter case than the
    store does (decidable: [link_name] on the two stores). *)
Theorem C12_pull2_redo_same_partial : forall size_of emp sv s n k np,
  size_of emp = 0 -> guard2 size_of sv = true -> good size_of sv s -> honest sv = true ->
  let c := restart2 size_of np (crash2 size_of emp s n sv k) in
  link_name (base c) n = link_name (base s) n ->
  listed_as (exec2 size_of emp c n sv) (link_name (base s) n) (s2_man sv) = true /\
  listed_as (exec2 size_of emp s n sv) (link_name (base s) n) (s2_man sv) = true.
Proof.
  intros size_of emp sv s n k np He Hg Hgd Hh c En. split.
  - rewrite <- En. apply (C12_pull2_redo size_of emp sv s n k np He Hg Hgd Hh).
  - destruct (pull2_ok size_of emp He sv Hg s n Hgd) as [_ [H1 H2]]. apply H1, H2, Hh.
Qed.
Print Assumptions C12_pull2_redo_same_partial.

(** Chunk records that outlived their layer (an old handler removed the blob; the records are blobs of their own): the
    scratch file is empty when the pull opens it, no record counts (Chunker.Fresh), every chunk is fetched again and
    the pull succeeds with all layers committed. *)
Example C12_pull2_stale_records :
  let s := MkSt2 (MkStore [] [(4, 4); (5, 5); (6, 6); (3, 3)] []) [] in
  has_rec p2_sz s 4 = true /\ has_rec p2_sz s 5 = true /\ has_rec p2_sz s 6 = true /\
  snd (pull2 p2_sz 9 s p2_n p2_sv) = ROk /\
  man_okb p2_sz (base (exec2 p2_sz 9 s p2_n p2_sv)) (s2_man p2_sv) = true /\
  effects2 p2_sz 9 s p2_n p2_sv =
    [XPut 1 0; XPut 1 1; XCommit 1; XPut 2 0; XCommit 2; XBase (ETruncMan p2_n); XBase (EWriteMan p2_n (Readable (s2_man p2_sv)))].
Proof. vm_compute. repeat split. Qed.
