(** * Store/ProofsPull2.v — the new pull path: crash points, restarts and the repeated pull (proofs for Pull2.v) *)
From Coq Require Import List NArith Bool Arith Lia.
From V Require Import Common.Bytes Store.Fs Store.Ops Store.Corr Store.ProofsAlist Store.ProofsTop Store.ProofsFix Store.Pull2.
Import ListNotations.
Open Scope N_scope.

Lemma apply_list2_snoc s a e : apply_list2 s (a ++ [e]) = apply2 (apply_list2 s a) e.
Proof. unfold apply_list2. rewrite fold_left_app. reflexivity. Qed.

(** a run whose every effect prefix satisfies [P] *)
Definition Rok2 (P : st2 -> Prop) (s0 : st2) (r : run2) : Prop :=
  rs2 r = apply_list2 s0 (rt2 r) /\ forall k, P (apply_list2 s0 (firstn k (rt2 r))).

Lemma Rok2_init (P : st2 -> Prop) s : P s -> Rok2 P s (init2 s).
Proof. intros H. split; [reflexivity|]. intros k. cbn. rewrite firstn_nil. exact H. Qed.

Lemma Rok2_emit (P : st2 -> Prop) s0 r e : Rok2 P s0 r -> P (apply2 (rs2 r) e) -> Rok2 P s0 (emit2 r e).
Proof.
  intros [H1 H2] Hp. split.
  - cbn [emit2 rs2 rt2]. rewrite apply_list2_snoc, H1. reflexivity.
  - intros k. cbn [emit2 rt2]. destruct (Nat.le_gt_cases k (length (rt2 r))) as [Hk|Hk].
    + rewrite firstn_app. replace (k - length (rt2 r))%nat with 0%nat by lia. cbn. rewrite app_nil_r. apply H2.
    + rewrite firstn_all2 by (rewrite app_length; cbn; lia). rewrite apply_list2_snoc, <- H1. exact Hp.
Qed.

Lemma Rok2_now (P : st2 -> Prop) s0 r : Rok2 P s0 r -> P (rs2 r).
Proof. intros [H1 H2]. rewrite H1. specialize (H2 (length (rt2 r))). rewrite firstn_all in H2. exact H2. Qed.

Lemma indexed_from_nth {A} (l : list A) : forall i j x, nth_error l j = Some x -> In ((i + j)%nat, x) (indexed_from i l).
Proof.
  induction l as [|y l IH]; intros i j x H; destruct j; cbn in *; try discriminate.
  - injection H as ->. left. f_equal. lia.
  - right. replace (i + S j)%nat with (S i + j)%nat by lia. apply IH. exact H.
Qed.

Section P2.
  Variable size_of : N -> N.
  Variable emp : N.
  Hypothesis Hemp : size_of emp = 0.
  Variable sv : served2.

  Hypothesis Hg : guard2 size_of sv = true.

  Lemma guard_parts :
    forallb (fun l => dcolon (ldg l) && (lsz l =? size_of (dhex (ldg l))) && negb (lsz l =? 0)) (all_layers (s2_man sv)) = true /\
    forallb (fun k => negb (existsb (N.eqb k) (layer_hexes sv))) (s2_mid sv :: all_keys sv) = true /\
    negb (existsb (N.eqb (s2_mid sv)) (all_keys sv)) = true /\ keys_inj sv = true.
  Proof.
    pose proof Hg as H. unfold guard2 in H. apply andb_true_iff in H as [H _]. apply andb_true_iff in H as [H H4]. apply andb_true_iff in H as [H H3].
    apply andb_true_iff in H as [H1 H2]. auto.
  Qed.

  Lemma g_layer l : In l (all_layers (s2_man sv)) ->
    dcolon (ldg l) = true /\ lsz l = size_of (dhex (ldg l)) /\ lsz l <> 0.
  Proof.
    intros Hin. destruct guard_parts as [H _]. rewrite forallb_forall in H. specialize (H l Hin).
    apply andb_true_iff in H as [H H3]. apply andb_true_iff in H as [H1 H2].
    split; [exact H1|]. split; [apply N.eqb_eq; exact H2|]. apply N.eqb_neq. apply negb_true_iff. exact H3.
  Qed.

  Lemma g_chunks l : In l (all_layers (s2_man sv)) ->
    exists cs, aget N.eqb (dhex (ldg l)) (s2_chunks sv) = Some cs /\ chunks_of sv (dhex (ldg l)) = cs /\ cs <> [].
  Proof.
    intros Hl. pose proof Hg as H. unfold guard2 in H. apply andb_true_iff in H as [_ H]. rewrite forallb_forall in H. specialize (H l Hl).
    apply negb_true_iff in H. apply Nat.eqb_neq in H. unfold chunks_of in *.
    destruct (aget N.eqb (dhex (ldg l)) (s2_chunks sv)) as [cs|]; [|cbn in H; congruence].
    exists cs. split; [reflexivity|]. split; [reflexivity|]. intros ->. apply H. reflexivity.
  Qed.

  Lemma g_fresh k l : In k (s2_mid sv :: all_keys sv) -> In l (all_layers (s2_man sv)) -> k <> dhex (ldg l).
  Proof.
    intros Hk Hl. destruct guard_parts as [_ [H _]]. rewrite forallb_forall in H. specialize (H k Hk). apply negb_true_iff in H. intros ->.
    assert (E : existsb (N.eqb (dhex (ldg l))) (layer_hexes sv) = true); [|congruence].
    apply existsb_exists. exists (dhex (ldg l)). split; [|apply N.eqb_refl]. unfold layer_hexes.
    apply (in_map (fun l => dhex (ldg l))). exact Hl.
  Qed.

  Lemma g_mid_key k : In k (all_keys sv) -> k <> s2_mid sv.
  Proof.
    intros Hk. destruct guard_parts as [_ [_ [H _]]]. apply negb_true_iff in H. intros ->.
    assert (E : existsb (N.eqb (s2_mid sv)) (all_keys sv) = true); [|congruence].
    apply existsb_exists. exists (s2_mid sv). split; [exact Hk | apply N.eqb_refl].
  Qed.

  Lemma chunk_key_in h cs i c : aget N.eqb h (s2_chunks sv) = Some cs -> nth_error cs i = Some c -> In (ck_key c) (all_keys sv).
  Proof.
    intros Ha Hn. unfold all_keys. apply in_flat_map. exists (h, cs). split; [apply (aget_In N.eqb Neqb_spec); exact Ha|].
    cbn. apply in_map. eapply nth_error_In. exact Hn.
  Qed.

  Lemma g_inj h cs i c h' cs' i' c' :
    aget N.eqb h (s2_chunks sv) = Some cs -> nth_error cs i = Some c ->
    aget N.eqb h' (s2_chunks sv) = Some cs' -> nth_error cs' i' = Some c' ->
    ck_key c = ck_key c' -> h = h' /\ i = i'.
  Proof.
    intros Ha Hn Ha' Hn' Hk. destruct guard_parts as [_ [_ [_ Hi]]]. unfold keys_inj in Hi.
    rewrite forallb_forall in Hi. specialize (Hi (h, cs) (aget_In N.eqb Neqb_spec _ _ _ Ha)).
    rewrite forallb_forall in Hi. specialize (Hi (h', cs') (aget_In N.eqb Neqb_spec _ _ _ Ha')).
    rewrite forallb_forall in Hi. specialize (Hi (i, c) (indexed_from_nth cs 0 i c Hn)).
    rewrite forallb_forall in Hi. specialize (Hi (i', c') (indexed_from_nth cs' 0 i' c' Hn')).
    cbn in Hi. rewrite Hk, N.eqb_refl in Hi. cbn in Hi. apply andb_true_iff in Hi as [E1 E2].
    apply N.eqb_eq in E1. apply Nat.eqb_eq in E2. auto.
  Qed.

  (** ** the invariant of the extended store *)
  (** a blob file holds the content its name promises, or is empty (created, not yet written) *)
  Definition bsound (s : st2) : Prop := forall h c, bget h (base s) = Some c -> c = h \/ size_of c = 0.
  (** every manifest that can be read has all its layers: present, intact, of the recorded size *)
  Definition complete (s : st2) : Prop := forall n m, mget n (base s) = Some (Readable m) -> man_okb size_of (base s) m = true.
  (** a chunk whose record is in the cache is in the scratch file of its layer, unless the layer is there already *)
  Definition rsound (s : st2) : Prop := forall h cs i c,
    aget N.eqb h (s2_chunks sv) = Some cs -> nth_error cs i = Some c -> has_rec size_of s (ck_key c) = true ->
    In i (written s h) \/ has_blob size_of s h (size_of h) = true.
  (** no manifest names a chunk record or the manifest blob as a layer *)
  Definition unref (s : st2) : Prop := forall k, In k (s2_mid sv :: all_keys sv) -> referenced (base s) (MkDigest true k) = false.

  Record good (s : st2) : Prop := MkGood { g_b : bsound s; g_c : complete s; g_r : rsound s; g_u : unref s; g_f : fixed (base s) }.

  (** *** single effects *)
  Lemma blob_okb_set s h c l : (dhex (ldg l) = h -> c = h) -> blob_okb size_of s l = true -> blob_okb size_of (set_blob s h c) l = true.
  Proof.
    intros Hc H. unfold blob_okb in *. apply andb_true_iff in H as [H H3]. apply andb_true_iff in H as [H1 H2].
    rewrite H1, H3. cbn. rewrite andb_true_r. unfold bget, set_blob. cbn.
    destruct (N.eq_dec (dhex (ldg l)) h) as [E|E].
    - rewrite E, bget_aset_same. rewrite (Hc E). apply N.eqb_refl.
    - rewrite bget_aset_other by exact E. exact H2.
  Qed.

  Lemma man_okb_set s h c m :
    (forall l, In l (all_layers m) -> dhex (ldg l) = h -> c = h) -> man_okb size_of s m = true -> man_okb size_of (set_blob s h c) m = true.
  Proof.
    intros Hc H. unfold man_okb in *. rewrite forallb_forall in *. intros l Hl. apply blob_okb_set; [apply Hc; exact Hl | apply H; exact Hl].
  Qed.

  Lemma referenced_set s h c d : referenced (set_blob s h c) d = referenced s d.
  Proof. reflexivity. Qed.

  (** XSetBlob k emp, when the file is absent or empty: a new empty file *)
  Lemma good_create s k :
    good s -> In k (s2_mid sv :: all_keys sv) ->
    (forall c, bget k (base s) = Some c -> size_of c = 0) ->
    good (apply2 s (XSetBlob k emp)).
  Proof.
    intros [Hb Hc Hr Hu Hfx] Hk Habs. split.
    - intros h c. cbn. unfold bget, set_blob; cbn. destruct (N.eq_dec h k) as [->|E].
      + rewrite bget_aset_same. intros [= <-]. right. exact Hemp.
      + rewrite bget_aset_other by exact E. apply Hb.
    - intros n m Hm. cbn in *. apply man_okb_set; [|apply (Hc n m Hm)].
      intros l Hl E. exfalso. specialize (Hc n m Hm). unfold man_okb in Hc. rewrite forallb_forall in Hc. specialize (Hc l Hl).
      unfold blob_okb in Hc. apply andb_true_iff in Hc as [Hc H3]. apply andb_true_iff in Hc as [H1 H2].
      assert (Href : referenced (base s) (MkDigest true k) = true).
      { unfold referenced. apply existsb_exists. exists (n, Readable m). split; [apply (aget_In name_eqb name_eqb_spec); exact Hm|].
        cbn. apply existsb_exists. exists l. split; [exact Hl|]. unfold digest_eqb. destruct (ldg l) as [dc dh]; cbn in *. subst dh. rewrite H1, N.eqb_refl. reflexivity. }
      rewrite (Hu k Hk) in Href. discriminate.
    - intros h cs i c Ha Hn Hrec. cbn in *.
      assert (Hkc : ck_key c <> k).
      { intros E. unfold has_rec in Hrec. cbn in Hrec. unfold bget, set_blob in Hrec; cbn in Hrec. rewrite E, bget_aset_same, Hemp in Hrec. discriminate. }
      assert (Hrec' : has_rec size_of s (ck_key c) = true).
      { unfold has_rec in *. cbn in Hrec. unfold bget, set_blob in Hrec; cbn in Hrec. rewrite bget_aset_other in Hrec by exact Hkc. exact Hrec. }
      destruct (Hr h cs i c Ha Hn Hrec') as [H|H]; [left; exact H|]. right.
      unfold has_blob in *. cbn. unfold bget, set_blob; cbn. destruct (N.eq_dec h k) as [->|E]; [|rewrite bget_aset_other by exact E; exact H].
      exfalso. destruct (bget k (base s)) as [c0|] eqn:Eb; [|discriminate]. rewrite (Habs c0 eq_refl) in H. cbn in H. rewrite andb_false_r in H. discriminate.
    - intros k' Hk'. cbn. apply Hu. exact Hk'.
    - exact Hfx.
  Qed.

  Lemma has_blob_set s k h : has_blob size_of s h (size_of h) = true -> has_blob size_of (apply2 s (XSetBlob k k)) h (size_of h) = true.
  Proof.
    unfold has_blob. cbn. unfold bget, set_blob; cbn. destruct (N.eq_dec h k) as [->|E]; [|rewrite bget_aset_other by exact E; auto].
    rewrite bget_aset_same. destruct (aget N.eqb k (blobs (base s))) as [c|]; [|discriminate]. intros H.
    apply andb_true_iff in H as [H1 H2]. apply N.eqb_eq in H1. rewrite <- H1, N.eqb_refl. exact H2.
  Qed.

  (** XSetBlob k k: the file is written *)
  Lemma good_write s k :
    good s -> In k (s2_mid sv :: all_keys sv) ->
    (forall h cs i c, aget N.eqb h (s2_chunks sv) = Some cs -> nth_error cs i = Some c -> ck_key c = k ->
                      In i (written s h) \/ has_blob size_of s h (size_of h) = true) ->
    good (apply2 s (XSetBlob k k)).
  Proof.
    intros [Hb Hc Hr Hu Hfx] Hk Hw. split.
    - intros h c. cbn. unfold bget, set_blob; cbn. destruct (N.eq_dec h k) as [->|E].
      + rewrite bget_aset_same. intros [= <-]. left. reflexivity.
      + rewrite bget_aset_other by exact E. apply Hb.
    - intros n m Hm. cbn in *. apply man_okb_set; [auto | apply (Hc n m Hm)].
    - intros h cs i c Ha Hn Hrec.
      assert (H : In i (written s h) \/ has_blob size_of s h (size_of h) = true).
      { destruct (N.eq_dec (ck_key c) k) as [E|E]; [apply (Hw h cs i c Ha Hn E)|]. apply (Hr h cs i c Ha Hn).
        unfold has_rec in *. cbn in Hrec. unfold bget, set_blob in Hrec; cbn in Hrec. rewrite bget_aset_other in Hrec by exact E. exact Hrec. }
      destruct H as [H|H]; [left; exact H | right; apply has_blob_set; exact H].
    - intros k' Hk'. cbn. apply Hu. exact Hk'.
    - exact Hfx.
  Qed.

  Lemma written_put s h i h' i' : In i' (written s h') -> In i' (written (apply2 s (XPut h i)) h').
  Proof.
    unfold written. cbn. destruct (N.eq_dec h' h) as [->|E]; [|rewrite bget_aset_other by exact E; auto].
    rewrite bget_aset_same. fold (written s h). destruct (mem_nat i (written s h)); [auto | intros H; right; exact H].
  Qed.

  Lemma written_put_same s h i : In i (written (apply2 s (XPut h i)) h).
  Proof.
    unfold written. cbn. rewrite bget_aset_same. fold (written s h). destruct (mem_nat i (written s h)) eqn:E; [|left; reflexivity].
    unfold mem_nat in E. apply existsb_exists in E as [x [Hx Ex]]. apply Nat.eqb_eq in Ex. subst x. exact Hx.
  Qed.

  Lemma good_put s h i : good s -> good (apply2 s (XPut h i)).
  Proof.
    intros [Hb Hc Hr Hu Hfx]. split; try assumption.
    intros h' cs i' c Ha Hn Hrec. destruct (Hr h' cs i' c Ha Hn Hrec) as [H|H]; [left; apply written_put; exact H | right; exact H].
  Qed.

  (** XCommit h: the scratch file of a served layer takes the blob's name *)
  Lemma good_commit s l : good s -> In l (all_layers (s2_man sv)) -> good (apply2 s (XCommit (dhex (ldg l)))).
  Proof.
    intros [Hb Hc Hr Hu Hfx] Hl. set (h := dhex (ldg l)). destruct (g_layer l Hl) as [G1 [G2 G3]]. fold h in G2. split.
    - intros h' c. cbn. unfold bget, set_blob; cbn. destruct (N.eq_dec h' h) as [->|E].
      + rewrite bget_aset_same. intros [= <-]. left. reflexivity.
      + rewrite bget_aset_other by exact E. apply Hb.
    - intros n m Hm. cbn in *. apply man_okb_set; [auto | apply (Hc n m Hm)].
    - intros h' cs i c Ha Hn Hrec.
      assert (Hk : ck_key c <> h) by (apply g_fresh; [right; eapply chunk_key_in; eassumption | exact Hl]).
      assert (Hrec' : has_rec size_of s (ck_key c) = true).
      { unfold has_rec in *. cbn in Hrec. unfold bget, set_blob in Hrec; cbn in Hrec. rewrite bget_aset_other in Hrec by exact Hk. exact Hrec. }
      destruct (N.eq_dec h' h) as [->|E].
      + right. unfold has_blob. cbn. unfold bget, set_blob; cbn. rewrite bget_aset_same, N.eqb_refl. cbn.
        apply negb_true_iff. apply N.eqb_neq. rewrite <- G2. exact G3.
      + destruct (Hr h' cs i c Ha Hn Hrec') as [H|H].
        * left. unfold written in *. cbn. rewrite bget_adel_other by exact E. exact H.
        * right. unfold has_blob in *. cbn. unfold bget, set_blob; cbn. rewrite bget_aset_other by exact E. exact H.
    - intros k' Hk'. cbn. apply Hu. exact Hk'.
    - exact Hfx.
  Qed.

  (** manifest effects *)
  Lemma man_okb_blobs s s' m : blobs s' = blobs s -> man_okb size_of s' m = man_okb size_of s m.
  Proof. intros E. unfold man_okb, blob_okb, bget. rewrite E. reflexivity. Qed.

  Lemma good_unlist s e n :
    (e = ERmMan n \/ e = ETruncMan n) -> good s -> good (apply2 s (XBase e)).
  Proof.
    intros He [Hb Hc Hr Hu Hfx].
    assert (Eb : blobs (apply_effect (base s) e) = blobs (base s)) by (destruct He as [->| ->]; reflexivity).
    split.
    - intros h c. cbn. unfold bget. rewrite Eb. apply Hb.
    - intros n0 m Hm. cbn in *. rewrite (man_okb_blobs _ _ _ Eb). destruct (name_eq_dec n0 n) as [->|E].
      + exfalso. unfold mget in Hm. destruct He as [->| ->]; cbn in Hm; [rewrite mget_adel_same in Hm | rewrite mget_aset_same in Hm]; discriminate.
      + apply (Hc n0 m). unfold mget in *. destruct He as [->| ->]; cbn in Hm; [rewrite mget_adel_other in Hm by exact E | rewrite mget_aset_other in Hm by exact E]; exact Hm.
    - intros h cs i c Ha Hn Hrec. unfold has_rec, has_blob, written, bget in *. cbn in *. rewrite Eb in *. apply (Hr h cs i c Ha Hn Hrec).
    - intros k Hk. cbn. specialize (Hu k Hk). destruct (referenced (apply_effect (base s) e) (MkDigest true k)) eqn:Er; [|reflexivity].
      exfalso. unfold referenced in Er. apply existsb_exists in Er as [[n0 ms] [Hin Hm]]. cbn in Hm.
      assert (Hin' : In (n0, ms) (mans (base s))).
      { destruct He as [->| ->]; cbn in Hin.
        - apply (In_adel name_eqb name_eqb_spec) in Hin. apply Hin.
        - apply (In_aset name_eqb name_eqb_spec) in Hin as [[_ ->]|[_ Hin]]; [discriminate | exact Hin]. }
      assert (referenced (base s) (MkDigest true k) = true); [|congruence].
      unfold referenced. apply existsb_exists. exists (n0, ms). split; [exact Hin' | exact Hm].
    - destruct He as [->| ->]; exact Hfx.
  Qed.

  Lemma good_list s n : good s -> man_okb size_of (base s) (s2_man sv) = true -> good (apply2 s (XBase (EWriteMan n (Readable (s2_man sv))))).
  Proof.
    intros [Hb Hc Hr Hu Hfx] Hok. split.
    - exact Hb.
    - intros n0 m Hm. cbn [apply2 base] in *. rewrite (man_okb_blobs (base s) (apply_effect (base s) (EWriteMan n (Readable (s2_man sv)))) m eq_refl). unfold mget in Hm. cbn in Hm.
      destruct (name_eq_dec n0 n) as [->|E].
      + rewrite mget_aset_same in Hm. injection Hm as <-. exact Hok.
      + rewrite mget_aset_other in Hm by exact E. apply (Hc n0 m Hm).
    - exact Hr.
    - intros k Hk. cbn [apply2 base]. specialize (Hu k Hk).
      destruct (referenced (apply_effect (base s) (EWriteMan n (Readable (s2_man sv)))) (MkDigest true k)) eqn:Er; [|reflexivity].
      exfalso. unfold referenced in Er. apply existsb_exists in Er as [[n0 ms] [Hin Hm]]. cbn in Hin, Hm.
      apply (In_aset name_eqb name_eqb_spec) in Hin as [[_ ->]|[_ Hin]].
      + cbn in Hm. apply existsb_exists in Hm as [l [Hl Hd]]. unfold digest_eqb in Hd. apply andb_true_iff in Hd as [_ Hd]. cbn in Hd.
        apply N.eqb_eq in Hd. apply (g_fresh k l Hk Hl). symmetry. exact Hd.
      + assert (referenced (base s) (MkDigest true k) = true); [|congruence].
        unfold referenced. apply existsb_exists. exists (n0, ms). split; [exact Hin | exact Hm].
    - exact Hfx.
  Qed.

  (** ** the program *)
  Notation layers := (all_layers (s2_man sv)).
  Definition lframe (s s' : st2) : Prop :=
    mans (base s') = mans (base s) /\ forall l, In l layers -> bget (dhex (ldg l)) (base s') = bget (dhex (ldg l)) (base s).
  Definition stable (s s' : st2) : Prop :=
    mans (base s') = mans (base s) /\ forall l, In l layers -> blob_okb size_of (base s) l = true -> blob_okb size_of (base s') l = true.

  Lemma lframe_refl s : lframe s s.
  Proof. split; auto. Qed.
  Lemma lframe_trans a b c : lframe a b -> lframe b c -> lframe a c.
  Proof. intros [H1 H2] [H3 H4]. split; [congruence|]. intros l Hl. rewrite (H4 l Hl). apply H2. exact Hl. Qed.
  Lemma lframe_stable s s' : lframe s s' -> stable s s'.
  Proof. intros [H1 H2]. split; [exact H1|]. intros l Hl. unfold blob_okb. rewrite (H2 l Hl). auto. Qed.
  Lemma stable_refl s : stable s s.
  Proof. split; auto. Qed.
  Lemma stable_trans a b c : stable a b -> stable b c -> stable a c.
  Proof. intros [H1 H2] [H3 H4]. split; [congruence|]. intros l Hl H. apply (H4 l Hl), (H2 l Hl), H. Qed.

  Lemma lframe_put s h i : lframe s (apply2 s (XPut h i)).
  Proof. split; reflexivity. Qed.
  Lemma lframe_setblob s k c : In k (s2_mid sv :: all_keys sv) -> lframe s (apply2 s (XSetBlob k c)).
  Proof.
    intros Hk. split; [reflexivity|]. intros l Hl. cbn. unfold bget, set_blob; cbn. apply bget_aset_other.
    intros E. apply (g_fresh k l Hk Hl). symmetry. exact E.
  Qed.

  Lemma put_blob_ok s0 r k :
    Rok2 good s0 r -> In k (s2_mid sv :: all_keys sv) ->
    (forall h cs i c, aget N.eqb h (s2_chunks sv) = Some cs -> nth_error cs i = Some c -> ck_key c = k ->
                      In i (written (rs2 r) h) \/ has_blob size_of (rs2 r) h (size_of h) = true) ->
    Rok2 good s0 (put_blob size_of emp r k) /\ lframe (rs2 r) (rs2 (put_blob size_of emp r k)) /\
    chunked (rs2 (put_blob size_of emp r k)) = chunked (rs2 r).
  Proof.
    intros HR Hk Hw.
    assert (Hgo : (forall c, bget k (base (rs2 r)) = Some c -> size_of c <> size_of k) ->
                  let r' := emits2 r [XSetBlob k emp; XSetBlob k k] in
                  Rok2 good s0 r' /\ lframe (rs2 r) (rs2 r') /\ chunked (rs2 r') = chunked (rs2 r)).
    { intros Hne r'. subst r'. cbn [emits2 fold_left].
      assert (Hg0 := Rok2_now _ _ _ HR).
      assert (Hab : forall c, bget k (base (rs2 r)) = Some c -> size_of c = 0).
      { intros c Hc. destruct (g_b _ Hg0 k c Hc) as [->|H]; [exfalso; apply (Hne k Hc); reflexivity | exact H]. }
      assert (Hg1 : good (apply2 (rs2 r) (XSetBlob k emp))) by (apply good_create; assumption).
      assert (HR1 := Rok2_emit _ _ _ _ HR Hg1).
      assert (Hg2 : good (apply2 (rs2 (emit2 r (XSetBlob k emp))) (XSetBlob k k))).
      { apply good_write; [exact Hg1 | exact Hk|]. intros h cs i c Ha Hn Ek. destruct (Hw h cs i c Ha Hn Ek) as [H|H]; [left; exact H|]. right.
        cbn [emit2 rs2]. unfold has_blob in *. cbn. unfold bget, set_blob; cbn. destruct (N.eq_dec h k) as [->|E]; [|rewrite bget_aset_other by exact E; exact H].
        exfalso. destruct (bget k (base (rs2 r))) as [c0|] eqn:Eb; [|discriminate]. apply andb_true_iff in H as [H _]. apply N.eqb_eq in H. apply (Hne c0 eq_refl H). }
      split; [apply Rok2_emit; assumption|]. split; [|reflexivity].
      eapply lframe_trans; [apply (lframe_setblob (rs2 r) k emp Hk) | apply (lframe_setblob _ k k Hk)]. }
    unfold put_blob. destruct (bget k (base (rs2 r))) as [c|] eqn:Eb.
    - destruct (size_of c =? size_of k) eqn:Es.
      + split; [exact HR|]. split; [apply lframe_refl | reflexivity].
      + apply Hgo. intros c' [= <-]. apply N.eqb_neq. exact Es.
    - apply Hgo. intros c' [=].
  Qed.

  Lemma has_blob_lframe s s' l : lframe s s' -> In l layers -> forall z, has_blob size_of s' (dhex (ldg l)) z = has_blob size_of s (dhex (ldg l)) z.
  Proof. intros [_ H] Hl z. unfold has_blob. rewrite (H l Hl). reflexivity. Qed.

  (** the chunks of one layer that is not there yet *)
  Lemma do_chunks_ok s0 l cs_all :
    In l layers -> aget N.eqb (dhex (ldg l)) (s2_chunks sv) = Some cs_all ->
    forall fresh cs i r failed,
      (forall j c, nth_error cs j = Some c -> nth_error cs_all (i + j) = Some c) ->
      Rok2 good s0 r -> has_blob size_of (rs2 r) (dhex (ldg l)) (size_of (dhex (ldg l))) = false ->
      let res := do_chunks size_of emp fresh r (dhex (ldg l)) cs i failed in
      Rok2 good s0 (fst res) /\ lframe (rs2 r) (rs2 (fst res)) /\
      (forall j, In j (written (rs2 r) (dhex (ldg l))) -> In j (written (rs2 (fst res)) (dhex (ldg l)))) /\
      (snd res = false -> failed = false /\ forall j c, nth_error cs j = Some c -> In (i + j)%nat (written (rs2 (fst res)) (dhex (ldg l)))) /\
      (forallb ck_ok cs = true -> snd res = failed).
  Proof.
    intros Hl Ha fresh. set (h := dhex (ldg l)) in *.
    induction cs as [|c cs IH]; intros i r failed Hnth HR Hnb; cbn [do_chunks].
    - cbn. split; [exact HR|]. split; [apply lframe_refl|]. split; [auto|]. split; [|auto]. intros ->. split; [reflexivity|]. intros j c Hj. destruct j; discriminate.
    - assert (Hc0 : nth_error cs_all i = Some c) by (rewrite <- (Nat.add_0_r i); apply Hnth; reflexivity).
      assert (Hnth' : forall j c', nth_error cs j = Some c' -> nth_error cs_all (S i + j) = Some c').
      { intros j c' Hj. replace (S i + j)%nat with (i + S j)%nat by lia. apply Hnth. exact Hj. }
      destruct (negb fresh && has_rec size_of (rs2 r) (ck_key c)) eqn:Erec0.
      + (* the record is there and the scratch file held data when it was opened: the chunk is in it *)
        assert (Erec : has_rec size_of (rs2 r) (ck_key c) = true) by (apply andb_true_iff in Erec0; apply Erec0).
        destruct (IH (S i) r failed Hnth' HR Hnb) as [I1 [I2 [I3 [I4 I5]]]]. split; [exact I1|]. split; [exact I2|]. split; [exact I3|]. split.
        * intros Hf. destruct (I4 Hf) as [-> I4']. split; [reflexivity|]. intros j c' Hj. destruct j.
          -- injection Hj as <-. rewrite Nat.add_0_r. apply I3.
             destruct (g_r _ (Rok2_now _ _ _ HR) h cs_all i c Ha Hc0 Erec) as [H|H]; [exact H | rewrite H in Hnb; discriminate].
          -- replace (i + S j)%nat with (S i + j)%nat by lia. eapply I4'. exact Hj.
        * cbn. intros Hh. apply andb_true_iff in Hh as [_ Hh]. apply I5. exact Hh.
      + destruct (ck_ok c) eqn:Eok.
        * (* fetched, written at its offset, recorded *)
          assert (Hg1 : good (apply2 (rs2 r) (XPut h i))) by (apply good_put, (Rok2_now _ _ _ HR)).
          assert (HR1 := Rok2_emit _ _ _ _ HR Hg1).
          assert (Hkey : In (ck_key c) (s2_mid sv :: all_keys sv)) by (right; eapply chunk_key_in; eassumption).
          destruct (put_blob_ok s0 (emit2 r (XPut h i)) (ck_key c) HR1 Hkey) as [P1 [P2 P3]].
          { intros h' cs' i' c' Ha' Hn' Ek. destruct (g_inj h' cs' i' c' h cs_all i c Ha' Hn' Ha Hc0 Ek) as [-> ->].
            left. cbn [emit2 rs2]. apply written_put_same. }
          set (r2 := put_blob size_of emp (emit2 r (XPut h i)) (ck_key c)) in *.
          assert (F02 : lframe (rs2 r) (rs2 r2)) by (eapply lframe_trans; [apply (lframe_put (rs2 r) h i) | exact P2]).
          assert (Hnb2 : has_blob size_of (rs2 r2) h (size_of h) = false) by (unfold h; rewrite (has_blob_lframe _ _ l F02 Hl); exact Hnb).
          assert (Hw2 : forall j, In j (written (rs2 r) h) -> In j (written (rs2 r2) h)).
          { intros j Hj. unfold written. rewrite P3. fold (written (rs2 (emit2 r (XPut h i))) h). cbn [emit2 rs2]. apply written_put. exact Hj. }
          assert (Hi2 : In i (written (rs2 r2) h)).
          { unfold written. rewrite P3. fold (written (rs2 (emit2 r (XPut h i))) h). cbn [emit2 rs2]. apply written_put_same. }
          destruct (IH (S i) r2 failed Hnth' P1 Hnb2) as [I1 [I2 [I3 [I4 I5]]]]. split; [exact I1|]. split; [eapply lframe_trans; eassumption|].
          split; [intros j Hj; apply I3, Hw2, Hj|]. split.
          -- intros Hf. destruct (I4 Hf) as [-> I4']. split; [reflexivity|]. intros j c' Hj. destruct j.
             ++ rewrite Nat.add_0_r. apply I3. exact Hi2.
             ++ replace (i + S j)%nat with (S i + j)%nat by lia. eapply I4'. exact Hj.
          -- cbn. rewrite Eok. cbn. apply I5.
        * (* the chunk fails: the pull will fail, the other chunks are still fetched *)
          destruct (IH (S i) r true Hnth' HR Hnb) as [I1 [I2 [I3 [I4 I5]]]]. split; [exact I1|]. split; [exact I2|]. split; [exact I3|]. split.
          -- intros Hf. destruct (I4 Hf) as [Hx _]. discriminate.
          -- cbn. rewrite Eok. cbn. discriminate.
  Qed.

  Lemma covers_all w (cs : list chunk) :
    cs <> [] -> (forall j c, nth_error cs j = Some c -> In j w) -> covers w (length cs) = true.
  Proof.
    intros Hne H. unfold covers. apply andb_true_iff. split.
    - destruct cs; [congruence | reflexivity].
    - apply forallb_forall. intros j Hj. apply in_seq in Hj. destruct (nth_error cs j) as [c|] eqn:E.
      + unfold mem_nat. apply existsb_exists. exists j. split; [apply (H j c E) | apply Nat.eqb_refl].
      + apply nth_error_None in E. lia.
  Qed.

  Lemma has_blob_okb s l : bsound s -> In l layers -> has_blob size_of s (dhex (ldg l)) (lsz l) = true -> blob_okb size_of (base s) l = true.
  Proof.
    intros Hb Hl H. destruct (g_layer l Hl) as [G1 [G2 G3]]. unfold has_blob in H. unfold blob_okb.
    destruct (bget (dhex (ldg l)) (base s)) as [c|] eqn:Eb; [|discriminate]. apply andb_true_iff in H as [H1 H2].
    apply N.eqb_eq in H1. apply negb_true_iff in H2. apply N.eqb_neq in H2.
    destruct (Hb _ _ Eb) as [->|H0]; [|congruence]. rewrite G1, N.eqb_refl. cbn. apply N.eqb_eq. symmetry. exact H1.
  Qed.

  Lemma honest_chunks h cs : honest sv = true -> aget N.eqb h (s2_chunks sv) = Some cs -> forallb ck_ok cs = true.
  Proof.
    intros Hh Ha. unfold honest in Hh. rewrite forallb_forall in Hh. apply (Hh (h, cs)). apply (aget_In N.eqb Neqb_spec). exact Ha.
  Qed.

  Lemma do_layer_ok s0 r l :
    In l layers -> Rok2 good s0 r ->
    let res := do_layer size_of emp sv r l in
    Rok2 good s0 (fst res) /\ stable (rs2 r) (rs2 (fst res)) /\
    (snd res = true -> blob_okb size_of (base (rs2 (fst res))) l = true) /\
    (honest sv = true -> snd res = true).
  Proof.
    intros Hl HR. destruct (g_layer l Hl) as [G1 [G2 G3]]. destruct (g_chunks l Hl) as [cs [Ha [Ec Hne]]].
    unfold do_layer. rewrite (proj2 (N.eqb_neq _ _) G3). set (h := dhex (ldg l)) in *. destruct (has_blob size_of (rs2 r) h (lsz l)) eqn:Ehb.
    - cbn. split; [exact HR|]. split; [apply stable_refl|]. split; [|auto]. intros _. apply has_blob_okb; [apply (g_b _ (Rok2_now _ _ _ HR)) | exact Hl | exact Ehb].
    - rewrite G2 in Ehb. rewrite Ec.
      set (fresh := match written (rs2 r) h with [] => true | _ => false end).
      destruct (do_chunks_ok s0 l cs Hl Ha fresh cs 0%nat r false (fun j c H => H) HR Ehb) as [I1 [I2 [I3 [I4 I5]]]].
      fold h in I1, I2, I3, I4, I5. destruct (do_chunks size_of emp fresh r h cs 0 false) as [r1 failed] eqn:Ed. cbn [fst snd] in *.
      destruct failed.
      + cbn. split; [exact I1|]. split; [apply lframe_stable; exact I2|]. split; [discriminate|].
        intros Hh. specialize (I5 (honest_chunks h cs Hh Ha)). discriminate.
      + destruct (I4 eq_refl) as [_ I4']. destruct (covers (written (rs2 r1) h) (length cs)) eqn:Ecov.
        * cbn [fst snd]. assert (Hg1 : good (apply2 (rs2 r1) (XCommit h))) by (apply good_commit; [apply (Rok2_now _ _ _ I1) | exact Hl]).
          split; [apply Rok2_emit; assumption|]. split.
          -- eapply stable_trans; [apply lframe_stable; exact I2|]. split; [reflexivity|]. intros l' Hl' Hok. cbn. apply blob_okb_set; [auto | exact Hok].
          -- split; [|auto]. intros _. cbn. unfold blob_okb. cbn. unfold bget, set_blob; cbn. fold h. rewrite bget_aset_same, G1, N.eqb_refl. cbn. apply N.eqb_eq. exact G2.
        * cbn. split; [exact I1|]. split; [apply lframe_stable; exact I2|]. split; [discriminate|]. intros _.
          rewrite (covers_all _ cs Hne) in Ecov; [discriminate|]. intros j c Hj. apply (I4' j c Hj).
  Qed.

  Lemma do_layers_ok s0 : forall ls r ok,
    incl ls layers -> Rok2 good s0 r ->
    let res := do_layers size_of emp sv r ls ok in
    Rok2 good s0 (fst res) /\ stable (rs2 r) (rs2 (fst res)) /\
    (snd res = true -> ok = true /\ forall l, In l ls -> blob_okb size_of (base (rs2 (fst res))) l = true) /\
    (honest sv = true -> snd res = ok).
  Proof.
    induction ls as [|l ls IH]; intros r ok Hi HR; cbn [do_layers].
    - cbn. split; [exact HR|]. split; [apply stable_refl|]. split; [|auto]. intros ->. split; [reflexivity|]. intros l [].
    - assert (Hl : In l layers) by (apply Hi; left; reflexivity).
      destruct (do_layer_ok s0 r l Hl HR) as [L1 [L2 [L3 L4]]]. destruct (do_layer size_of emp sv r l) as [r1 ok1]. cbn [fst snd] in *.
      destruct (IH r1 (ok && ok1) (fun x Hx => Hi x (or_intror Hx)) L1) as [I1 [I2 [I3 I4]]].
      split; [exact I1|]. split; [eapply stable_trans; eassumption|]. split.
      + intros Hs. destruct (I3 Hs) as [Hok I3']. apply andb_true_iff in Hok as [-> ->]. split; [reflexivity|].
        intros l' [<-|Hl']; [|apply I3'; exact Hl']. apply (proj2 I2 l Hl). apply L3. reflexivity.
      + intros Hh. rewrite (I4 Hh), (L4 Hh). apply andb_true_r.
  Qed.

  Lemma layer_eqb_refl l : layer_eqb l l = true.
  Proof. unfold layer_eqb, digest_eqb. rewrite !N.eqb_refl. destruct (dcolon (ldg l)); reflexivity. Qed.
  Lemma manifest_eqb_refl m : manifest_eqb m m = true.
  Proof.
    unfold manifest_eqb. rewrite layer_eqb_refl. cbn. induction (mlayers m) as [|l t IH]; cbn; [reflexivity|]. rewrite layer_eqb_refl, IH. reflexivity.
  Qed.

  (** the name is listed with the manifest that was served *)
  Definition listed_as (s : st2) (n : name) (m : manifest) : bool :=
    match mget n (base s) with Some st => mstate_eqb st (Readable m) | None => false end.

  Lemma link_ok s0 r n :
    Rok2 good s0 r -> man_okb size_of (base (rs2 r)) (s2_man sv) = true ->
    let r' := link r n (s2_man sv) in
    Rok2 good s0 r' /\ listed_as (rs2 r') (link_name (base (rs2 r)) n) (s2_man sv) = true.
  Proof.
    intros HR Hok. unfold link. set (n' := link_name (base (rs2 r)) n). set (m := s2_man sv) in *.
    assert (Hw : forall r1, Rok2 good s0 r1 -> blobs (base (rs2 r1)) = blobs (base (rs2 r)) ->
                 Rok2 good s0 (emit2 r1 (XBase (EWriteMan n' (Readable m)))) /\
                 listed_as (rs2 (emit2 r1 (XBase (EWriteMan n' (Readable m))))) n' m = true).
    { intros r1 H1 Eb. split.
      - apply Rok2_emit; [exact H1|]. apply good_list; [apply (Rok2_now _ _ _ H1)|]. rewrite (man_okb_blobs _ _ _ Eb). exact Hok.
      - unfold listed_as, mget. cbn. rewrite mget_aset_same. cbn. apply manifest_eqb_refl. }
    assert (Ht : forall r1, Rok2 good s0 r1 -> Rok2 good s0 (emit2 r1 (XBase (ETruncMan n')))).
    { intros r1 H1. apply Rok2_emit; [exact H1|]. apply (good_unlist _ _ n'); [right; reflexivity | apply (Rok2_now _ _ _ H1)]. }
    destruct (mget n' (base (rs2 r))) as [st|] eqn:Em.
    - destruct (mstate_eqb st (Readable m)) eqn:Ee.
      + split; [exact HR|]. unfold listed_as. rewrite Em. exact Ee.
      + cbn [emits2 fold_left]. apply Hw; [|reflexivity]. apply Ht. apply Rok2_emit; [exact HR|].
        apply (good_unlist _ _ n'); [left; reflexivity | apply (Rok2_now _ _ _ HR)].
    - cbn [emits2 fold_left]. apply Hw; [|reflexivity]. apply Ht. exact HR.
  Qed.

  Theorem pull2_ok s n :
    good s ->
    let res := pull2 size_of emp s n sv in
    Rok2 good s (fst res) /\
    (snd res = ROk -> listed_as (rs2 (fst res)) (link_name (base s) n) (s2_man sv) = true) /\
    (honest sv = true -> snd res = ROk).
  Proof.
    intros Hgd. unfold pull2.
    destruct (do_layers_ok s layers (init2 s) true (fun x H => H) (Rok2_init good s Hgd)) as [L1 [L2 [L3 L4]]].
    destruct (do_layers size_of emp sv (init2 s) layers true) as [r ok]. cbn [fst snd] in *. destruct ok.
    - destruct (L3 eq_refl) as [_ Hall].
      destruct (put_blob_ok s r (s2_mid sv) L1 (or_introl eq_refl)) as [P1 [P2 P3]].
      { intros h cs i c Ha Hn Ek. exfalso. apply (g_mid_key (ck_key c)); [eapply chunk_key_in; eassumption | exact Ek]. }
      set (r1 := put_blob size_of emp r (s2_mid sv)) in *.
      assert (Hok : man_okb size_of (base (rs2 r1)) (s2_man sv) = true).
      { unfold man_okb. apply forallb_forall. intros l Hl. apply (proj2 (lframe_stable _ _ P2) l Hl). apply Hall. exact Hl. }
      destruct (link_ok s r1 n P1 Hok) as [K1 K2]. cbn [fst snd]. split; [exact K1|]. split; [|auto]. intros _.
      assert (En : link_name (base (rs2 r1)) n = link_name (base s) n).
      { unfold link_name. rewrite (proj1 P2), (proj1 L2). reflexivity. }
      rewrite <- En. exact K2.
    - cbn [fst snd]. split; [exact L1|]. split; [discriminate|]. intros Hh. specialize (L4 Hh). discriminate.
  Qed.

  (** ** restart *)
  Lemma restart2_good np s : good s -> good (restart2 size_of np s).
  Proof.
    intros Hgd. pose proof (g_f _ Hgd) as Hf. unfold restart2.
    assert (Hnp : startup_noprune (base s) = base s) by (unfold startup_noprune; rewrite (fix_blobs_noop _ Hf); reflexivity).
    destruct (np || has_unreadable (base s)) eqn:Ec.
    - rewrite Hnp. destruct s; exact Hgd.
    - apply orb_false_iff in Ec as [_ Hu].
      assert (Ee : exec size_of (base s) OStartup =
                   rs (delete_unused (fold_left (fun r d => emit r (ERmDebris d)) (debris (base s)) (init (base s)))
                                     (map (fun p => MkDigest true (fst p)) (blobs (base s))))).
      { unfold exec, op_run, op_startup. cbn [fst]. rewrite (fix_blobs_noop _ Hf). unfold startup_rest. cbn [rs init]. rewrite Hu. reflexivity. }
      set (r1 := fold_left (fun r d => emit r (ERmDebris d)) (debris (base s)) (init (base s))) in *.
      destruct (rm_debris_all (debris (base s)) (init (base s)) eq_refl) as [Hd1 [Hm1 Hb1]]. fold r1 in Hd1, Hm1, Hb1. cbn [rs init] in Hm1, Hb1.
      set (dm := map (fun p => MkDigest true (fst p)) (blobs (base s))) in *.
      destruct (delete_unused_spec dm r1) as [Hm2 [Hd2 Hb2]].
      destruct Hgd as [Hb Hc Hr Hu' Hfx]. rewrite Ee.
      assert (Hsub : forall h c, bget h (rs (delete_unused r1 dm)) = Some c -> bget h (base s) = Some c).
      { intros h c H. rewrite Hb2 in H. destruct (existsb _ dm); [discriminate|]. unfold bget in *. rewrite Hb1 in H. exact H. }
      assert (Hmans : mans (rs (delete_unused r1 dm)) = mans (base s)) by congruence.
      split.
      + intros h c H. cbn in H. apply (Hb h c), Hsub, H.
      + intros n m Hm. cbn in *. unfold mget in Hm. rewrite Hmans in Hm. specialize (Hc n m Hm).
        unfold man_okb in *. rewrite forallb_forall in *. intros l Hl. specialize (Hc l Hl). unfold blob_okb in *.
        apply andb_true_iff in Hc as [Hc H3]. apply andb_true_iff in Hc as [H1 H2]. rewrite H1, H3. cbn. rewrite andb_true_r.
        rewrite Hb2.
        assert (Hex : existsb (fun d => (dhex d =? dhex (ldg l)) && negb (referenced (rs r1) d)) dm = false).
        { destruct (existsb _ dm) eqn:Ex; [|reflexivity]. exfalso. apply existsb_exists in Ex as [d [Hd Hx]]. apply andb_true_iff in Hx as [Hx1 Hx2].
          apply N.eqb_eq in Hx1. unfold dm in Hd. apply in_map_iff in Hd as [p [<- _]]. cbn in Hx1. apply negb_true_iff in Hx2.
          assert (referenced (rs r1) (MkDigest true (fst p)) = true); [|congruence].
          rewrite (referenced_mans (base s) _ _ Hm1). unfold referenced. apply existsb_exists. exists (n, Readable m).
          split; [apply (aget_In name_eqb name_eqb_spec); exact Hm|]. cbn. apply existsb_exists. exists l. split; [exact Hl|].
          unfold digest_eqb. cbn. rewrite H1, Hx1, N.eqb_refl. reflexivity. }
        rewrite Hex. unfold bget. rewrite Hb1. exact H2.
      + (* every chunk record is gone: no manifest uses it *)
        intros h cs i c Ha Hn Hrec. exfalso. unfold has_rec in Hrec. cbn in Hrec.
        destruct (bget (ck_key c) (rs (delete_unused r1 dm))) as [c0|] eqn:Eb; [|discriminate].
        pose proof (Hsub _ _ Eb) as Hin. rewrite Hb2 in Eb.
        assert (Hex : existsb (fun d => (dhex d =? ck_key c) && negb (referenced (rs r1) d)) dm = true); [|rewrite Hex in Eb; discriminate].
        apply existsb_exists. exists (MkDigest true (ck_key c)). split.
        * unfold dm. apply in_map_iff. exists (ck_key c, c0). split; [reflexivity|]. apply (aget_In N.eqb Neqb_spec). exact Hin.
        * cbn. rewrite N.eqb_refl. cbn. apply negb_true_iff. rewrite (referenced_mans (base s) _ _ Hm1). apply Hu'. right. eapply chunk_key_in; eassumption.
      + intros k Hk. cbn. rewrite (referenced_mans (base s) _ _ Hmans). apply Hu'. exact Hk.
      + intros d Hd. cbn in Hd. rewrite Hd2, Hd1 in Hd. destruct Hd.
  Qed.


  (** ** the invariant, decidable (so that it can be evaluated on an observed store) *)
  Definition good_b (s : st2) : bool :=
    forallb (fun p => (snd p =? fst p) || (size_of (snd p) =? 0)) (blobs (base s))
    && forallb (fun p => match snd p with Readable m => man_okb size_of (base s) m | Unreadable => true end) (mans (base s))
    && forallb (fun p => forallb (fun ic => implb (has_rec size_of s (ck_key (snd ic)))
                                              (mem_nat (fst ic) (written s (fst p)) || has_blob size_of s (fst p) (size_of (fst p))))
                                 (indexed_from 0 (snd p))) (s2_chunks sv)
    && forallb (fun k => negb (referenced (base s) (MkDigest true k))) (s2_mid sv :: all_keys sv)
    && forallb (fun d => negb (is_colon d)) (debris (base s)).

  Lemma good_b_sound s : good_b s = true -> good s.
  Proof.
    unfold good_b. intros H. apply andb_true_iff in H as [H H5]. apply andb_true_iff in H as [H H4]. apply andb_true_iff in H as [H H3].
    apply andb_true_iff in H as [H1 H2]. rewrite forallb_forall in H1, H2, H3, H4, H5. split.
    - intros h c Hb. apply (aget_In N.eqb Neqb_spec) in Hb. specialize (H1 _ Hb). cbn in H1. apply orb_true_iff in H1 as [E|E]; apply N.eqb_eq in E; auto.
    - intros n m Hm. apply (aget_In name_eqb name_eqb_spec) in Hm. apply (H2 _ Hm).
    - intros h cs i c Ha Hn Hrec. apply (aget_In N.eqb Neqb_spec) in Ha. specialize (H3 _ Ha). cbn in H3. rewrite forallb_forall in H3.
      specialize (H3 _ (indexed_from_nth cs 0 i c Hn)). cbn in H3. rewrite Hrec in H3. cbn in H3. apply orb_true_iff in H3 as [E|E]; [left|right; exact E].
      unfold mem_nat in E. apply existsb_exists in E as [x [Hx Ex]]. apply Nat.eqb_eq in Ex. subst x. exact Hx.
    - intros k Hk. apply negb_true_iff. apply (H4 k Hk).
    - intros d Hd. apply negb_true_iff. apply (H5 d Hd).
  Qed.
End P2.
