(** * Store/Ops.v — the store operations of /repo/server as programs that emit atomic file-system effects.
    Definitions only.  Every function follows the Go code named in its comment (the code *after* the repairs
    fixes/C04-*.patch; the unrepaired variants are kept as [*_legacy] for the refutation theorems).

    An operation is run on a store with [op_run]; the result is the final [run]: the store reached and the list
    of effects in the order the code performs them.  A crash after k effects leaves [apply_list s (firstn k effects)]. *)
From Coq Require Import List NArith Bool Arith Lia.
From V Require Import Common.Bytes Store.Fs.
Import ListNotations.
Open Scope N_scope.

(** ** getExistingName (server/routes.go), repaired: longest case-insensitive prefix match (host, namespace,
    model, tag) over the stored names; among equally long matches the lexically smallest candidate; the matched
    parts are taken from ONE stored name, the rest of the input is kept. *)
Definition prefix_len (e n : name) : nat :=
  if eqfold (nhost e) (nhost n) then
    if eqfold (nns e) (nns n) then
      if eqfold (nmodel e) (nmodel n) then
        if eqfold (ntag e) (ntag n) then 4 else 3
      else 2
    else 1
  else 0.

Definition merge_parts (k : nat) (e n : name) : name :=
  MkName (if (1 <=? k)%nat then nhost e else nhost n)
         (if (2 <=? k)%nat then nns e else nns n)
         (if (3 <=? k)%nat then nmodel e else nmodel n)
         (if (4 <=? k)%nat then ntag e else ntag n).

Definition better (k : nat) (c : name) (bk : nat) (b : name) : bool :=
  (bk <? k)%nat || ((k =? bk)%nat && (0 <? k)%nat && ltb_str (nstring c) (nstring b)).

Definition gen_step (n : name) (acc : nat * name) (e : name) : nat * name :=
  let k := prefix_len e n in
  let c := merge_parts k e n in
  if better k c (fst acc) (snd acc) then (k, c) else acc.

(** [existing] = the keys of [Manifests(true)] in Go's map iteration order, i.e. in any order *)
Definition get_existing (existing : list name) (n : name) : name :=
  snd (fold_left (gen_step n) existing (0%nat, n)).

(** the unrepaired function: [set] is never assigned, so every part is overwritten by *every* stored name whose
    part matches, independently of the other parts, in map order *)
Definition legacy_step (n e : name) : name :=
  MkName (if eqfold (nhost e) (nhost n) then nhost e else nhost n)
         (if eqfold (nns e) (nns n) then nns e else nns n)
         (if eqfold (nmodel e) (nmodel n) then nmodel e else nmodel n)
         (if eqfold (ntag e) (ntag n) then ntag e else ntag n).
Definition get_existing_legacy (existing : list name) (n : name) : name := fold_left legacy_step existing n.

(** PullHandler, unrepaired: the canonical name is passed on as [DisplayShortest()], which drops a default host /
    namespace (compared case-insensitively), and [ParseModelPath] fills the defaults in again in lower case *)
Definition s_default_host : str := [114;101;103;105;115;116;114;121;46;111;108;108;97;109;97;46;97;105].
Definition s_default_ns : str := [108;105;98;114;97;114;121].
Definition short_roundtrip (n : name) : name :=
  if eqfold (nhost n) s_default_host then
    if eqfold (nns n) s_default_ns then MkName s_default_host s_default_ns (nmodel n) (ntag n)
    else MkName s_default_host (nns n) (nmodel n) (ntag n)
  else n.

(** ** Requests *)

(** where the base layers of a create come from *)
Inductive base :=
| BFiles (d : digest) (parts : list (N * option N)) (fail : bool) (det : list (N * N))
    (* files: one blob named by the digest *as spelled in the request*, holding one GGUF (or several, concatenated).
       [parts]: per GGUF found, its media type (decided by the GGUF metadata) and [None] when the GGUF spans the
       whole file (the layer refers to the uploaded blob, NewLayerFromLayer) or [Some c] when it does not (the
       layer is a section copy with content [c] written by NewLayer); [fail]: decoding stops with an error after
       these parts (trailing bytes that are not a GGUF); [det] = the layers detectChatTemplate adds *)
| BFrom (src : name).
    (* from: the layers of an existing model, looked up by its exact name *)

Record create_req := MkCreate {
  cr_name : name;
  cr_base : base;
  cr_template : option (bool * N);  (* TEMPLATE text: (parses?, content) *)
  cr_system : option N;
  cr_license : list N;
  cr_params : option N;             (* Some: setParameters writes a (merged) params layer *)
  cr_messages : option N;
  cr_config : N                     (* content of the config layer (JSON of the layer digests) *)
}.

(** what the registry serves for a pull: the manifest and, per layer (config last), the content it sends *)
Record served := MkServed { sv_manifest : manifest; sv_contents : list (option N) }.
(* per layer (config last): the content the registry sends for the layer's digest, None = 404 *)

Inductive op :=
| OBlob (d : digest) (c : N)                 (* POST /api/blobs/:digest with a body of content c *)
| OCreate (q : create_req)                   (* POST /api/create *)
| OCopy (src dst : name)                     (* POST /api/copy *)
| ODelete (n : name)                         (* DELETE /api/delete *)
| OPull (n : name) (sv : option served) (ord : list N)
    (* POST /api/pull; None: the registry has no such manifest; [ord]: the order in which Go's map iteration
       presents the replaced layers to deleteUnusedLayers (blob names; any list: names not listed come last) *)
| OStartup.                                  (* the start-up sequence of server.Serve *)

Inductive result := ROk | RNotFound | RErr.

Definition result_eqb (a b : result) : bool :=
  match a, b with ROk, ROk | RNotFound, RNotFound | RErr, RErr => true | _, _ => false end.

Section Ops.
  Variable size_of : N -> N.

  (** NewLayer (server/layer.go): temp file, hash, rename into place unless the blob exists, remove temp *)
  Definition new_layer (r : run) (mt c : N) : run * layer :=
    let r1 := emit r (EAddDebris DTemp) in
    let r2 := match bget c (rs r1) with
              | Some _ => emit r1 (ERmDebris DTemp)
              | None => emit r1 (ERenTemp c c)
              end in
    (r2, MkLayer mt (MkDigest true c) (size_of c)).

  (** NewLayerFromLayer, repaired (the digest is stored in canonical spelling): Stat of the blob file *)
  Definition layer_from_layer (s : store) (d : digest) (mt : N) : option layer :=
    match bget (dhex d) s with
    | Some c => Some (MkLayer mt (canon d) (size_of c))
    | None => None
    end.
  Definition layer_from_layer_legacy (s : store) (d : digest) (mt : N) : option layer :=
    match bget (dhex d) s with
    | Some c => Some (MkLayer mt d (size_of c))
    | None => None
    end.

  (** Layer.Remove: unlink the blob unless a readable manifest uses the digest (string comparison) *)
  Definition layer_remove (r : run) (l : layer) : run :=
    if referenced (rs r) (ldg l) then r
    else match bget (dhex (ldg l)) (rs r) with
         | Some _ => emit r (ERmBlob (dhex (ldg l)))
         | None => r
         end.

  (** removeLayer (create.go): slices.DeleteFunc — every layer of that media type is Remove()d and dropped *)
  Fixpoint remove_layer_mt (r : run) (layers : list layer) (mt : N) : run * list layer :=
    match layers with
    | [] => (r, [])
    | l :: t =>
        if lmt l =? mt then remove_layer_mt (layer_remove r l) t mt
        else let (r', t') := remove_layer_mt r t mt in (r', l :: t')
    end.

  (** Manifest.RemoveLayers: layers then config *)
  Definition remove_layers (r : run) (m : manifest) : run := fold_left layer_remove (all_layers m) r.

  (** WriteManifest: os.Create then Encode *)
  Definition write_manifest (r : run) (n : name) (m : mstate) : run := emit (emit r (ETruncMan n)) (EWriteMan n m).

  (** setSystem / setParameters / setMessages: removeLayer then NewLayer, appended *)
  Definition set_layer (r : run) (layers : list layer) (mt : N) (c : option N) : run * list layer :=
    match c with
    | None => (r, layers)
    | Some c =>
        let (r1, ls) := remove_layer_mt r layers mt in
        let (r2, l) := new_layer r1 mt c in
        (r2, ls ++ [l])
    end.

  Fixpoint add_layers (r : run) (layers : list layer) (mt : N) (cs : list N) : run * list layer :=
    match cs with
    | [] => (r, layers)
    | c :: t => let (r1, l) := new_layer r mt c in add_layers r1 (layers ++ [l]) mt t
    end.

  Fixpoint add_detected (r : run) (layers : list layer) (det : list (N * N)) : run * list layer :=
    match det with
    | [] => (r, layers)
    | (mt, c) :: t => let (r1, l) := new_layer r mt c in add_detected r1 (layers ++ [l]) t
    end.

  (** parseFromModel: NewLayerFromLayer for every layer of the source manifest *)
  Fixpoint from_layers (lfl : store -> digest -> N -> option layer) (s : store) (ls : list layer) : option (list layer) :=
    match ls with
    | [] => Some []
    | l :: t =>
        match lfl s (ldg l) (lmt l), from_layers lfl s t with
        | Some l', Some t' => Some (l' :: t')
        | _, _ => None
        end
    end.

  (** ggufLayers: one layer per GGUF found in the blob *)
  Fixpoint gguf_parts (lfl : store -> digest -> N -> option layer) (r : run) (d : digest) (parts : list (N * option N))
    : run * option (list layer) :=
    match parts with
    | [] => (r, Some [])
    | (mt, None) :: t =>
        match lfl (rs r) d mt with
        | Some l => let (r', ot) := gguf_parts lfl r d t in (r', option_map (cons l) ot)
        | None => (r, None)
        end
    | (mt, Some c) :: t =>
        let (r1, l) := new_layer r mt c in
        let (r', ot) := gguf_parts lfl r1 d t in (r', option_map (cons l) ot)
    end.

  (** base layers: ggufLayers + detectChatTemplate, or parseFromModel.  An error keeps the effects done so far. *)
  Definition base_layers (lfl : store -> digest -> N -> option layer) (r : run) (b : base) : run * option (list layer) :=
    match b with
    | BFiles d parts fail det =>
        match bget (dhex d) (rs r) with
        | None => (r, None)
        | Some _ =>
            match gguf_parts lfl r d parts with
            | (r1, Some ls) =>
                (* repaired (fixes/C04-create-empty-gguf.patch): a blob in which no GGUF could be decoded at all (it ends
                   inside the first header: ggml.Decode answers io.EOF, the loop just stops) is an error, not a model
                   without layers *)
                if fail || match parts with [] => true | _ => false end then (r1, None)
                else let (r2, ls') := add_detected r1 ls det in (r2, Some ls')
            | (r1, None) => (r1, None)
            end
        end
    | BFrom src =>
        match mget src (rs r) with
        | Some (Readable m) => (r, from_layers lfl (rs r) (mlayers m))
        | _ => (r, None)
        end
    end.

  (** setTemplate: removeLayer first, then the template is parsed *)
  Definition create_template (r : run) (layers : list layer) (q : create_req) : run * list layer * bool :=
    match cr_template q with
    | None => (r, layers, true)
    | Some (valid, c) =>
        let (ra, ls) := remove_layer_mt r layers MT_TEMPLATE in
        if valid then let (rc, l) := new_layer ra MT_TEMPLATE c in (rc, ls ++ [l], true)
        else (ra, ls, false)
    end.

  (** setSystem, setLicense*, setParameters, setMessages, createConfigLayer *)
  Definition create_tail (r2 : run) (layers2 : list layer) (q : create_req) : run * manifest :=
    let (r3, layers3) := set_layer r2 layers2 MT_SYSTEM (cr_system q) in
    let (r4, layers4) := add_layers r3 layers3 MT_LICENSE (cr_license q) in
    let (r5, layers5) := set_layer r4 layers4 MT_PARAMS (cr_params q) in
    let (r6, layers6) := set_layer r5 layers5 MT_MESSAGES (cr_messages q) in
    let (r7, cfg) := new_layer r6 MT_CONFIG (cr_config q) in
    (r7, MkManifest cfg layers6).

  (** CreateHandler + createModel up to (not including) WriteManifest: the run so far and, unless an error
      stopped the handler, the manifest about to be written and whether an error was reported on the way.
      [from_fallthrough]: the unrepaired handler reports the error of parseFromModel but goes on with no base layers *)
  Definition create_build (lfl : store -> digest -> N -> option layer) (from_fallthrough : bool) (s : store) (q : create_req)
    : run * option (manifest * bool) :=
    let r0 := init s in
    let (rb, ob) := base_layers lfl r0 (cr_base q) in
    let b := match ob with
             | Some ls => Some (ls, true)
             | None => match cr_base q with
                       | BFrom _ => if from_fallthrough then Some ([], false) else None
                       | _ => None
                       end
             end in
    match b with
    | None => (rb, None)
    | Some (layers, clean) =>
        let '(r2, layers2, okt) := create_template rb layers q in
        if negb okt then (r2, None) else
        let (r7, m) := create_tail r2 layers2 q in
        (r7, Some (m, clean))
    end.

  (** WriteManifest, then the layers of the replaced manifest that nobody uses any more are removed *)
  Definition op_create_gen (gen : list name -> name -> name) (lfl : store -> digest -> N -> option layer)
             (from_fallthrough : bool) (s : store) (q : create_req) : run * result :=
    let n := gen (readable_names s) (cr_name q) in
    let old := mget n s in
    match create_build lfl from_fallthrough s q with
    | (r7, None) => (r7, RErr)
    | (r7, Some (m, clean)) =>
        let r8 := write_manifest r7 n (Readable m) in
        let r9 := match old with
                  | Some (Readable mo) => remove_layers r8 mo
                  | _ => r8
                  end in
        (r9, if clean then ROk else RErr)
    end.

  Definition op_create := op_create_gen get_existing layer_from_layer false.

  (** CreateBlobHandler *)
  Definition op_blob (s : store) (d : digest) (c : N) : run * result :=
    let r0 := init s in
    match bget (dhex d) s with
    | Some _ => (r0, ROk)
    | None =>
        let (r1, l) := new_layer r0 0 c in
        (r1, if digest_eqb (ldg l) d then ROk else RErr)
    end.

  (** CopyHandler + CopyModel *)
  Definition op_copy_gen (gen : list name -> name -> name) (s : store) (src dst : name) : run * result :=
    let r0 := init s in
    let src' := gen (readable_names s) src in
    let dst' := gen (readable_names s) dst in
    if name_eqb src' dst' then (r0, ROk)
    else match mget src' s with
         | None => (r0, RNotFound)
         | Some ms => (write_manifest r0 dst' ms, ROk)
         end.
  Definition op_copy := op_copy_gen get_existing.

  (** DeleteHandler: manifest first, then the layers nobody uses *)
  Definition op_delete_gen (gen : list name -> name -> name) (s : store) (n : name) : run * result :=
    let r0 := init s in
    let n' := gen (readable_names s) n in
    match mget n' s with
    | None => (r0, RNotFound)
    | Some Unreadable => (r0, RErr)
    | Some (Readable m) => (remove_layers (emit r0 (ERmMan n')) m, ROk)
    end.
  Definition op_delete := op_delete_gen get_existing.

  (** downloadBlob + blobDownload.Prepare/run for one layer whose bytes the registry serves as content [c] (None: 404).
      Layers here have one part (minDownloadPartSize is 100 MB).  Prepare resumes from the part record if there is one
      (repaired, fixes/C12-torn-part-record.patch: the record is only used if it can be read and the -partial file it
      describes exists — the real code also compares sizes, which this model does not carry —, otherwise it is discarded
      and the download starts over; unrepaired: an unreadable record makes Prepare fail and any readable one is used),
      else HEAD + newPart (writePart: truncate, encode).  run: open -partial (no
      truncation), fetch the part unless the record says it is complete and rewrite the record, verify the file against
      the digest, remove the record, rename into place — or, on a mismatch, remove the file. *)
  Definition download_gen (torn_fails : bool) (r : run) (l : layer) (oc : option N) : run * option bool (* Some hit | None = failed *) :=
    let h := dhex (ldg l) in
    match bget h (rs r) with
    | Some _ => (r, Some true)
    | None =>
        let fresh (r : run) : option (run * option prstate) :=
          match oc with
          | None => None   (* HEAD answers 404 *)
          | Some c => if size_of c =? 0 then Some (r, None)
                      else Some (emit (emit r (EPartRec h 0 PRTorn)) (EPartRec h 0 PRTodo), Some PRTodo)
          end in
        let has_partial := existsb (dfile_eqb (DPartial h)) (debris (rs r)) in
        let prep : option (run * option prstate) :=
          match partrec_state h 0 (debris (rs r)) with
          | Some PRTorn => if torn_fails then None else fresh (emit r (ERmPart h 0))
          | Some st => if torn_fails || has_partial then Some (r, Some st) else fresh (emit r (ERmPart h 0))
          | None => fresh r
          end in
        match prep, oc with
        | Some (r1, st0), Some c =>
            let r2 := emit r1 (EAddDebris (DPartial h)) in
            let r3 := match st0 with
                      | Some PRTodo => emit (emit r2 (EPartRec h 0 PRTorn)) (EPartRec h 0 PRDone)
                      | _ => r2
                      end in
            let r4 := match st0 with Some _ => emit r3 (ERmPart h 0) | None => r3 end in
            if dcolon (ldg l) && (c =? h) then (emit r4 (ERenPartial h c), Some false)
            else (emit r4 (ERmDebris (DPartial h)), None)
        | Some (r1, _), None => (r1, None)
        | None, _ => (match partrec_state h 0 (debris (rs r)) with
                      | Some PRTorn => if torn_fails then r else emit r (ERmPart h 0)
                      | Some _ => if torn_fails || has_partial then r else emit r (ERmPart h 0)
                      | None => r
                      end, None)
        end
    end.
  Definition download := download_gen false.

  (** the layers in order, config last; stops at the first failure *)
  Fixpoint download_all (r : run) (ls : list layer) (cs : list (option N)) : run * option (list (layer * bool)) :=
    match ls with
    | [] => (r, Some [])
    | l :: lt =>
        match download r l (hd None cs) with
        | (r1, None) => (r1, None)
        | (r1, Some hit) =>
            let (r2, rest) := download_all r1 lt (tl cs) in
            (r2, option_map (cons (l, hit)) rest)
        end
    end.

  (** verifyBlob for the layers that were not cache hits: the digest *string* must equal "sha256:"+hex(hash) *)
  Fixpoint verify_all (r : run) (ls : list (layer * bool)) : run * bool :=
    match ls with
    | [] => (r, true)
    | (l, hit) :: t =>
        if hit then verify_all r t
        else match bget (dhex (ldg l)) (rs r) with
             | Some c =>
                 if dcolon (ldg l) && (c =? dhex (ldg l)) then verify_all r t
                 else (emit r (ERmBlob (dhex (ldg l))), false)
             | None => (r, false)
             end
    end.

  (** deleteUnusedLayers(deleteMap) *)
  Definition delete_unused (r : run) (dm : list digest) : run :=
    fold_left (fun r d => if referenced (rs r) d then r
                          else match bget (dhex d) (rs r) with
                               | Some _ => emit r (ERmBlob (dhex d))
                               | None => r
                               end) dm r.

  (** deleteMap is a Go map: its iteration order is arbitrary *)
  Definition reorder (ord : list N) (dm : list digest) : list digest :=
    flat_map (fun h => filter (fun d => dhex d =? h) dm) ord
    ++ filter (fun d => negb (existsb (fun h => dhex d =? h) ord)) dm.

  (** PullHandler + PullModel against an honest-or-not registry *)
  Definition op_pull_gen (gen : list name -> name -> name) (pt : name -> name) (s : store) (n : name) (sv : option served) (ord : list N) : run * result :=
    let r0 := init s in
    let n' := pt (gen (readable_names s) n) in
    let dm := match mget n' s with
              | Some (Readable m) => map ldg (all_layers m)
              | _ => []
              end in
    match sv with
    | None => (r0, RErr)
    | Some v =>
        let m := sv_manifest v in
        let (r1, odl) := download_all r0 (all_layers m) (sv_contents v) in
        match odl with None => (r1, RErr) | Some dl =>
        let (r2, ok) := verify_all r1 dl in
        if negb ok then (r2, RErr) else
        let r3 := write_manifest r2 n' (Readable m) in
        let dm' := filter (fun d => negb (existsb (fun l => digest_eqb (ldg l) d) (all_layers m))) dm in
        (delete_unused r3 (reorder ord dm'), ROk)
        end
    end.
  Definition op_pull := op_pull_gen get_existing (fun n => n).

  (** fixBlobs (server/fixblobs.go): every file of the blobs directory whose name starts with "sha256:" is renamed to
      "sha256-..." (over an existing file of that name, if any) *)
  Definition fix_step (r : run) (d : dfile) : run :=
    match d with
    | DColon h c => emit r (EFixBlob h c)
    | DColonPartial h => emit r (EFixPartial h)
    | _ => r
    end.
  Definition fix_blobs (r : run) : run := fold_left fix_step (debris (rs r)) r.

  (** the rest of server.Serve before it listens: Manifests(false) fails -> no pruning, else PruneLayers (files whose
      name is not a digest are removed, then the blobs no manifest uses — compared as "sha256:<file hex>") and
      PruneDirectory *)
  Definition startup_rest (r : run) : run :=
    if has_unreadable (rs r) then r
    else
      let r1 := fold_left (fun r d => emit r (ERmDebris d)) (debris (rs r)) r in
      delete_unused r1 (map (fun p => MkDigest true (fst p)) (blobs (rs r))).

  Definition op_startup (s : store) : run * result := (startup_rest (fix_blobs (init s)), ROk).

  (** the start-up sequence with OLLAMA_NOPRUNE set: fixBlobs only *)
  Definition startup_noprune (s : store) : store := rs (fix_blobs (init s)).

  Definition op_run (s : store) (o : op) : run * result :=
    match o with
    | OBlob d c => op_blob s d c
    | OCreate q => op_create s q
    | OCopy a b => op_copy s a b
    | ODelete n => op_delete s n
    | OPull n sv ord => op_pull s n sv ord
    | OStartup => op_startup s
    end.

  Definition exec (s : store) (o : op) : store := rs (fst (op_run s o)).
  Definition effects (s : store) (o : op) : list effect := rt (fst (op_run s o)).
  Definition exec_all (s : store) (os : list op) : store := fold_left exec os s.

  (** the store after a crash that let the first [k] effects of [o] happen *)
  Definition crash (s : store) (o : op) (k : nat) : store := apply_list s (firstn k (effects s o)).
  (** restart *)
  Definition recover (s : store) : store := exec s OStartup.

  (** ** Decidable guards (the classes of operations the theorems are stated for) *)
  Definition blob_okb (s : store) (l : layer) : bool :=
    dcolon (ldg l)
    && match bget (dhex (ldg l)) s with Some c => c =? dhex (ldg l) | None => false end
    && (lsz l =? size_of (dhex (ldg l))).
  Definition man_okb (s : store) (m : manifest) : bool := forallb (blob_okb s) (all_layers m).

  (** a create does not delete, while it assembles its layer list, a blob that a layer kept in that list uses
      (removeLayer only scans the stored manifests, not the list in the making) *)
  Definition create_check (s : store) (q : create_req) : bool :=
    match create_build layer_from_layer false s q with
    | (r7, Some (m, _)) => man_okb (rs r7) m
    | _ => true
    end.

  (** the registry is honest and self-consistent: canonical digests, sizes as published, bytes that hash to the digest *)
  Fixpoint contents_ok (ls : list layer) (cs : list (option N)) : bool :=
    match ls with
    | [] => true
    | l :: lt =>
        match hd None cs with Some c => c =? dhex (ldg l) | None => true end && contents_ok lt (tl cs)
    end.
  Definition served_ok (v : served) : bool :=
    forallb (fun l => dcolon (ldg l) && (lsz l =? size_of (dhex (ldg l)))) (all_layers (sv_manifest v))
    && contents_ok (all_layers (sv_manifest v)) (sv_contents v).

  Definition op_guard (s : store) (o : op) : bool :=
    match o with
    | OCreate q => create_check s q
    | OPull _ (Some v) _ => served_ok v
    | _ => true
    end.

  (** the one manifest an operation may touch *)
  Definition op_target (s : store) (o : op) : option name :=
    match o with
    | OCreate q => Some (get_existing (readable_names s) (cr_name q))
    | OCopy _ dst => Some (get_existing (readable_names s) dst)
    | ODelete n => Some (get_existing (readable_names s) n)
    | OPull n _ _ => Some (get_existing (readable_names s) n)
    | OBlob _ _ | OStartup => None
    end.

  (** the unrepaired tree *)
  Definition op_run_legacy (s : store) (o : op) : run * result :=
    match o with
    | OBlob d c => op_blob s d c
    | OCreate q => op_create_gen get_existing_legacy layer_from_layer_legacy true s q
    | OCopy a b => op_copy_gen get_existing_legacy s a b
    | ODelete n => op_delete_gen get_existing_legacy s n
    | OPull n sv ord => op_pull_gen get_existing_legacy short_roundtrip s n sv ord
    | OStartup => op_startup s
    end.
  Definition exec_legacy (s : store) (o : op) : store := rs (fst (op_run_legacy s o)).
End Ops.
