(** * Store/ProofsShow.v — every listed model can be shown: all layers served, a model layer among them, and every layer
    content of the kind its media type promises *)
From Coq Require Import List NArith Bool Arith Lia.
From V Require Import Common.Bytes Store.Fs Store.Ops Store.ProofsAlist Store.ProofsNames Store.ProofsInv Store.ProofsOps Store.ProofsTop Store.ProofsMore Store.ProofsRedo Store.ProofsRedo2.
Import ListNotations.
Open Scope N_scope.

Section Show.
  Variable size_of : N -> N.
  (** [wf mt c]: content [c] decodes as what media type [mt] holds (a GGUF for model / adapter / projector, a template
      that parses, JSON for params / messages / config; any text for system / license).  The handlers check this before
      they store a layer (ggml.Decode, template.Parse, their own JSON encoder); the theorem takes it as a guard on the
      requests. *)
  Variable wf : N -> N -> bool.
  Notation Inv := (Inv size_of).
  Notation exec := (exec size_of).
  Notation nl := (nl size_of).

  Definition layer_wf (l : layer) : Prop := wf (lmt l) (dhex (ldg l)) = true.
  Definition man_wf (m : manifest) : Prop := Forall layer_wf (all_layers m).

  (** what GET /api/show needs of a manifest *)
  Definition showable (s : store) (m : manifest) : Prop :=
    man_ok size_of s m /\ has_model_b m = true /\ man_wf m.

  Definition base_wf (b : base) : bool :=
    match b with
    | BFiles d parts _ det =>
        forallb (fun p : N * option N => match snd p with None => wf (fst p) (dhex d) | Some c => wf (fst p) c end) parts
        && forallb (fun p : N * N => wf (fst p) (snd p)) det
    | BFrom _ => true
    end.
  Definition opt_wf (mt : N) (oc : option N) : bool := match oc with Some c => wf mt c | None => true end.
  Definition create_wf (q : create_req) : bool :=
    base_wf (cr_base q)
    && match cr_template q with Some (valid, c) => implb valid (wf MT_TEMPLATE c) | None => true end
    && opt_wf MT_SYSTEM (cr_system q) && forallb (wf MT_LICENSE) (cr_license q)
    && opt_wf MT_PARAMS (cr_params q) && opt_wf MT_MESSAGES (cr_messages q) && wf MT_CONFIG (cr_config q).
  Definition op_wf (o : op) : bool :=
    match o with
    | OCreate q => create_wf q
    | OPull _ (Some v) _ => forallb (fun l => wf (lmt l) (dhex (ldg l))) (all_layers (sv_manifest v))
    | _ => true
    end.
  Definition ops_wf (os : list op) : bool := forallb op_wf os.

  (** ** a property of all listed manifests is kept if every manifest written has it *)
  Lemma listed_effects (P : manifest -> Prop) es : forall s,
    (forall n m, listed s n m -> P m) -> (forall n m, In (EWriteMan n (Readable m)) es -> P m) ->
    forall n m, listed (apply_list s es) n m -> P m.
  Proof.
    induction es as [|e es IH]; intros s H Hw; [exact H|]. rewrite apply_list_cons. apply IH; [|intros n m Hi; apply (Hw n m); right; exact Hi].
    intros n m Hl. unfold listed in Hl. destruct e as [d|d|h c|h c|h|n'|n' ms|n'|h c|h|h i st|h i]; cbn in Hl; try (apply (H n m Hl)).
    - apply (In_aset name_eqb name_eqb_spec) in Hl as [[_ [=]]|[_ Hl]]. apply (H n m Hl).
    - apply (In_aset name_eqb name_eqb_spec) in Hl as [[-> <-]|[_ Hl]]; [apply (Hw n' m); left; reflexivity | apply (H n m Hl)].
    - apply (In_adel name_eqb name_eqb_spec) in Hl as [Hl _]. apply (H n m Hl).
  Qed.

  (** the only manifest an operation writes is the one of its middle *)
  Lemma written_in_mid s o n m : In (EWriteMan n (Readable m)) (effects size_of s o) -> In (EWriteMan n (Readable m)) (op_mid size_of s o).
  Proof.
    destruct (effects_split size_of s o) as [es1 [es2 [E [H1 H2]]]]. rewrite E, !in_app_iff. rewrite Forall_forall in H1, H2.
    intros [H|[H|H]]; [destruct (H1 _ H) | exact H | destruct (H2 _ H)].
  Qed.

  (** ** the layers of a built manifest *)
  Lemma wf_nl mt c : wf mt c = true -> layer_wf (nl mt c).
  Proof. intros H. exact H. Qed.

  Lemma wf_pure_set layers mt oc : Forall layer_wf layers -> opt_wf mt oc = true -> Forall layer_wf (pure_set size_of layers mt oc).
  Proof.
    intros Hl Hc. unfold pure_set. destruct oc as [c|]; [|exact Hl]. apply Forall_app. split; [|constructor; [apply wf_nl, Hc | constructor]].
    rewrite Forall_forall in *. intros l Hin. apply filter_In in Hin as [Hin _]. apply Hl, Hin.
  Qed.

  Lemma create_build_wf s q m cl :
    Inv s -> (forall n m', listed s n m' -> man_wf m') -> create_wf q = true ->
    snd (create_build size_of (layer_from_layer size_of) false s q) = Some (m, cl) -> man_wf m.
  Proof.
    intros HI Hs Hq. unfold create_wf in Hq. repeat (apply andb_true_iff in Hq as [Hq ?]).
    rename H into Hcfg, H0 into Hmsg, H1 into Hpar, H2 into Hlic, H3 into Hsys, H4 into Htpl.
    rewrite (create_build_snd size_of).
    assert (Hbase : forall ls, snd (base_layers size_of (layer_from_layer size_of) (init s) (cr_base q)) = Some ls -> Forall layer_wf ls).
    { destruct (cr_base q) as [d parts fail det|src].
      - rewrite (base_files_pure size_of). destruct (bget (dhex d) s) as [c0|]; [|discriminate]. destruct (fail || match parts with [] => true | _ => false end); [discriminate|]. intros ls [= <-].
        cbn [base_wf] in Hq. apply andb_true_iff in Hq as [Hp Hd]. rewrite forallb_forall in Hp, Hd.
        apply Forall_app. split; apply Forall_forall; intros l Hin; apply in_map_iff in Hin as [p [<- Hin]].
        + specialize (Hp p Hin). destruct p as [mt [c|]]; exact Hp.
        + apply (Hd p Hin).
      - rewrite (base_from_pure size_of) by exact HI. destruct (mget src s) as [[msrc|]|] eqn:Es; try discriminate. intros ls [= <-].
        assert (Hw := Hs src msrc (mget_listed _ _ _ Es)). unfold man_wf, all_layers in Hw. apply Forall_app in Hw as [Hw _].
        rewrite Forall_forall in *. intros l Hin. apply in_map_iff in Hin as [l0 [<- Hin]]. apply (Hw l0 Hin). }
    destruct (snd (base_layers size_of (layer_from_layer size_of) (init s) (cr_base q))) as [layers|]; cbn [pure_build]; [|discriminate].
    specialize (Hbase layers eq_refl).
    assert (Ht : Forall layer_wf (fst (pure_template size_of layers q)) \/ snd (pure_template size_of layers q) = false).
    { unfold pure_template. destruct (cr_template q) as [[valid c]|]; [|left; exact Hbase].
      destruct valid; [|right; reflexivity]. left. cbn. apply Forall_app. split; [|constructor; [apply wf_nl, Htpl | constructor]].
      rewrite Forall_forall in *. intros l Hin. apply filter_In in Hin as [Hin _]. apply Hbase, Hin. }
    destruct (pure_template size_of layers q) as [l2 okt]. cbn [fst snd] in Ht. destruct okt; [|discriminate].
    destruct Ht as [Ht|Ht]; [|discriminate]. intros [= <- _].
    unfold man_wf, all_layers, pure_tail. cbn [mlayers mcfg]. apply Forall_app. split; [|constructor; [apply wf_nl, Hcfg | constructor]].
    apply wf_pure_set; [|exact Hmsg]. apply wf_pure_set; [|exact Hpar]. apply Forall_app. split; [apply wf_pure_set; [exact Ht | exact Hsys]|].
    rewrite forallb_forall in Hlic. apply Forall_forall. intros l Hin. apply in_map_iff in Hin as [c [<- Hin]]. apply wf_nl, Hlic, Hin.
  Qed.

  Lemma exec_wf s o :
    Inv s -> op_guard size_of s o = true -> has_unreadable s = false ->
    (forall n m, listed s n m -> man_wf m) -> op_wf o = true ->
    forall n m, listed (exec s o) n m -> man_wf m.
  Proof.
    intros HI Hg Hu Hs Ho. rewrite (exec_effects size_of s o HI Hg). apply listed_effects; [exact Hs|].
    intros n m Hin. apply written_in_mid in Hin.
    destruct o as [d c|q|a b|nn|nn sv ord|]; cbn [op_mid] in Hin; try destruct Hin.
    - destruct (snd (create_build size_of (layer_from_layer size_of) false s q)) as [[m' cl]|] eqn:Eb; [|destruct Hin].
      destruct Hin as [Hin|[Hin|[]]]; [discriminate|]. injection Hin as _ <-. eapply create_build_wf; eassumption.
    - destruct (name_eqb _ _); [destruct Hin|]. destruct (mget (get_existing (readable_names s) a) s) as [ms|] eqn:Ea; [|destruct Hin].
      destruct Hin as [Hin|[Hin|[]]]; [discriminate|]. injection Hin as _ ->. apply (Hs _ m (mget_listed _ _ _ Ea)).
    - destruct (mget _ s) as [[mo|]|]; [|destruct Hin|destruct Hin]. destruct Hin as [Hin|[]]. discriminate.
    - destruct sv as [v|]; [|destruct Hin]. destruct (snd (op_run size_of s (OPull nn (Some v) ord))); [|destruct Hin|destruct Hin].
      destruct Hin as [Hin|[Hin|[]]]; [discriminate|]. injection Hin as _ <-. cbn in Ho. rewrite forallb_forall in Ho. apply Forall_forall. exact Ho.
  Qed.

  Lemma exec_readable s o : Inv s -> op_guard size_of s o = true -> has_unreadable s = false -> has_unreadable (exec s o) = false.
  Proof.
    intros HI Hg Hu. apply (hu_false_of s _ Hu). intros n Hin.
    rewrite (exec_effects size_of s o HI Hg) in Hin. destruct (effects_split size_of s o) as [es1 [es2 [E [H1 H2]]]]. rewrite E in Hin.
    rewrite app_assoc, apply_list_app, (blob_only_apply_mans es2), apply_list_app in Hin by exact H2.
    assert (Hs1 : mans (apply_list s es1) = mans s) by (apply blob_only_apply_mans, H1).
    destruct o as [d c|q|a b|nn|nn sv ord|]; cbn [op_mid] in Hin; try (cbn in Hin; rewrite Hs1 in Hin; exact Hin).
    - destruct (snd (create_build size_of (layer_from_layer size_of) false s q)) as [[m' cl]|]; cbn in Hin; [|rewrite Hs1 in Hin; exact Hin].
      apply (In_aset name_eqb name_eqb_spec) in Hin as [[_ [=]]|[Hn Hin]]. apply (In_aset name_eqb name_eqb_spec) in Hin as [[-> _]|[_ Hin]]; [congruence | rewrite Hs1 in Hin; exact Hin].
    - destruct (name_eqb _ _); [cbn in Hin; rewrite Hs1 in Hin; exact Hin|].
      destruct (mget (get_existing (readable_names s) a) s) as [ms|] eqn:Ea; cbn in Hin; [|rewrite Hs1 in Hin; exact Hin].
      apply (In_aset name_eqb name_eqb_spec) in Hin as [[_ Hms]|[Hn Hin]].
      + exfalso. subst ms. apply (has_unreadable_false s (get_existing (readable_names s) a) Hu). apply (aget_In name_eqb name_eqb_spec). exact Ea.
      + apply (In_aset name_eqb name_eqb_spec) in Hin as [[-> _]|[_ Hin]]; [congruence | rewrite Hs1 in Hin; exact Hin].
    - destruct (mget _ s) as [[mo|]|]; cbn in Hin; try (rewrite Hs1 in Hin; exact Hin).
      apply (In_adel name_eqb name_eqb_spec) in Hin as [Hin _]. rewrite Hs1 in Hin. exact Hin.
    - destruct sv as [v|]; [|cbn in Hin; rewrite Hs1 in Hin; exact Hin].
      destruct (snd (op_run size_of s (OPull nn (Some v) ord))); cbn in Hin; try (rewrite Hs1 in Hin; exact Hin).
      apply (In_aset name_eqb name_eqb_spec) in Hin as [[_ [=]]|[Hn Hin]]. apply (In_aset name_eqb name_eqb_spec) in Hin as [[-> _]|[_ Hin]]; [congruence | rewrite Hs1 in Hin; exact Hin].
  Qed.

  Theorem history_readable os : op_guards size_of empty_store os -> has_unreadable (exec_all size_of empty_store os) = false.
  Proof.
    intros Hg.
    assert (H : forall s, Inv s -> has_unreadable s = false -> op_guards size_of s os -> has_unreadable (exec_all size_of s os) = false).
    { clear Hg. induction os as [|o os IH]; intros s HI Hu Hg; cbn in *; [exact Hu|]. destruct Hg as [Hg1 Hg2].
      apply IH; [apply exec_inv; assumption | apply exec_readable; assumption | exact Hg2]. }
    apply H; [apply Inv_empty | reflexivity | exact Hg].
  Qed.

  (** in a history of completed operations no manifest is ever unreadable, every listed manifest is showable *)
  Theorem history_showable os :
    op_guards size_of empty_store os -> ops_have_model os = true -> ops_wf os = true ->
    let s := exec_all size_of empty_store os in
    has_unreadable s = false /\ forall n m, mget n s = Some (Readable m) -> showable s m.
  Proof.
    intros Hg Hm Hw.
    assert (H : forall s, Inv s -> has_unreadable s = false -> (forall n m, listed s n m -> man_wf m) -> op_guards size_of s os ->
                has_unreadable (exec_all size_of s os) = false /\ forall n m, listed (exec_all size_of s os) n m -> man_wf m).
    { clear Hg Hm. revert Hw. induction os as [|o os IH]; intros Hw s HI Hu Hs Hg; cbn in *; [auto|].
      apply andb_true_iff in Hw as [Ho Hos]. destruct Hg as [Hg1 Hg2].
      apply IH; [exact Hos | apply exec_inv; assumption | apply exec_readable; assumption | apply exec_wf; assumption | exact Hg2]. }
    destruct (H empty_store (Inv_empty size_of) eq_refl (fun n m (Hl : listed empty_store n m) => match Hl with end) Hg) as [Hu Hwf].
    split; [exact Hu|]. intros n m Hget.
    assert (HI : Inv (exec_all size_of empty_store os)) by (apply exec_all_inv; [apply Inv_empty | exact Hg]).
    split; [apply (inv_mans size_of _ HI n m), mget_listed, Hget|]. split; [apply (showable_partial size_of os Hg Hm n m Hget)|].
    apply (Hwf n m), mget_listed, Hget.
  Qed.
End Show.
