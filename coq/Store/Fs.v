(** * Store/Fs.v — the model store of ollama's [server] package as a file-system state, and the atomic effects
    that change it.  Definitions only (lemmas are in Store/Proofs*.v).

    $OLLAMA_MODELS/manifests/<host>/<namespace>/<model>/<tag>   one JSON manifest per model name
    $OLLAMA_MODELS/blobs/sha256-<hex>                           content-addressed layer files
    $OLLAMA_MODELS/blobs/<anything else>                        debris (temp files of NewLayer, -partial files)

    Abstractions (DESIGN 3, notes/C04.md):
    - a blob *content* is identified with its true SHA-256 (one [N] per distinct content); the blob file
      [sha256-h] holding content [c] is *intact* iff [c = h];
    - the size of a content is a function of the content ([size_of], a Section variable: the harness supplies
      the table of real sizes);
    - a digest as written in a manifest keeps its *spelling*: separator ([sha256:] or [sha256-]) and the exact hex
      string (one [N] per distinct hex string; an upper-case spelling is a different [N] than the lower-case one
      and no content hashes to it), because the reference scans of the code compare strings;
    - directories are not modelled (the check observes "no empty directory is left" on the implementation only). *)
From Coq Require Import List NArith Bool Arith Lia.
From V Require Import Common.Bytes.
Import ListNotations.
Open Scope N_scope.

(** ** Association lists (the directory listings) *)
Section Alist.
  Context {K V : Type}.
  Variable keqb : K -> K -> bool.

  Fixpoint aget (k : K) (m : list (K * V)) : option V :=
    match m with
    | [] => None
    | (k', v) :: t => if keqb k k' then Some v else aget k t
    end.

  Fixpoint adel (k : K) (m : list (K * V)) : list (K * V) :=
    match m with
    | [] => []
    | (k', v) :: t => if keqb k k' then adel k t else (k', v) :: adel k t
    end.

  Definition aset (k : K) (v : V) (m : list (K * V)) : list (K * V) := adel k m ++ [(k, v)].

  Definition akeys (m : list (K * V)) : list K := map fst m.
End Alist.

(** ** Names *)
Record name := MkName { nhost : str; nns : str; nmodel : str; ntag : str }.

Definition name_eqb (a b : name) : bool :=
  eqb_str (nhost a) (nhost b) && eqb_str (nns a) (nns b) && eqb_str (nmodel a) (nmodel b) && eqb_str (ntag a) (ntag b).

(** [strings.EqualFold] on the ASCII strings that are valid name parts: equality after mapping A-Z to a-z *)
Definition fold_byte (c : N) : N := if (65 <=? c) && (c <=? 90) then c + 32 else c.
Definition foldstr (s : str) : str := map fold_byte s.
Definition eqfold (a b : str) : bool := eqb_str (foldstr a) (foldstr b).
Definition nfold (n : name) : name := MkName (foldstr (nhost n)) (foldstr (nns n)) (foldstr (nmodel n)) (foldstr (ntag n)).
Definition name_eqfold (a b : name) : bool := name_eqb (nfold a) (nfold b).

(** [Name.String()] of a fully qualified name: host/namespace/model:tag *)
Definition nstring (n : name) : str := nhost n ++ [47] ++ nns n ++ [47] ++ nmodel n ++ [58] ++ ntag n.

(** Go's [<] on strings: bytewise lexicographic *)
Fixpoint ltb_str (a b : str) : bool :=
  match a, b with
  | [], [] => false
  | [], _ :: _ => true
  | _ :: _, [] => false
  | x :: a', y :: b' => if x <? y then true else if y <? x then false else ltb_str a' b'
  end.

(** ** Digests, layers, manifests *)
Record digest := MkDigest { dcolon : bool; dhex : N }.
Definition digest_eqb (a b : digest) : bool := Bool.eqb (dcolon a) (dcolon b) && (dhex a =? dhex b).
Definition canon (d : digest) : digest := MkDigest true (dhex d).

Record layer := MkLayer { lmt : N; ldg : digest; lsz : N }.
Definition layer_eqb (a b : layer) : bool := (lmt a =? lmt b) && digest_eqb (ldg a) (ldg b) && (lsz a =? lsz b).

(** media types *)
Definition MT_MODEL := 0.
Definition MT_ADAPTER := 1.
Definition MT_PROJECTOR := 2.
Definition MT_TEMPLATE := 3.
Definition MT_SYSTEM := 4.
Definition MT_PARAMS := 5.
Definition MT_MESSAGES := 6.
Definition MT_LICENSE := 7.
Definition MT_CONFIG := 8.

Record manifest := MkManifest { mcfg : layer; mlayers : list layer }.
Definition all_layers (m : manifest) : list layer := mlayers m ++ [mcfg m].

(** a manifest file either decodes or does not (empty after a crash between create-truncate and write) *)
Inductive mstate := Readable (m : manifest) | Unreadable.

Fixpoint list_eqb {A} (eqb : A -> A -> bool) (a b : list A) : bool :=
  match a, b with
  | [], [] => true
  | x :: a', y :: b' => eqb x y && list_eqb eqb a' b'
  | _, _ => false
  end.

Definition manifest_eqb (a b : manifest) : bool := layer_eqb (mcfg a) (mcfg b) && list_eqb layer_eqb (mlayers a) (mlayers b).
Definition mstate_eqb (a b : mstate) : bool :=
  match a, b with
  | Readable x, Readable y => manifest_eqb x y
  | Unreadable, Unreadable => true
  | _, _ => false
  end.

(** what a part record (sha256-<h>-partial-<i>, JSON {N, Offset, Size, Completed}) says: it is rewritten in place
    (open with O_TRUNC, then encode), so a crash can leave it empty *)
Inductive prstate := PRTorn | PRTodo | PRDone.   (* empty / Completed < Size / Completed = Size *)
Definition prstate_eqb (a b : prstate) : bool :=
  match a, b with PRTorn, PRTorn | PRTodo, PRTodo | PRDone, PRDone => true | _, _ => false end.

(** ** Debris: files in blobs/ whose name is not [sha256-<64 hex>] *)
Inductive dfile :=
| DTemp                      (* os.CreateTemp(blobs, "sha256-") of NewLayer *)
| DPartial (h : N)           (* sha256-<h>-partial *)
| DPartRec (h : N) (i : N) (st : prstate)   (* sha256-<h>-partial-<i> *)
| DColon (h c : N)           (* sha256:<h> holding content c: a blob file of an old version (before fixBlobs) *)
| DColonPartial (h : N).     (* sha256:<h>-partial of an old version *)

Definition dfile_eqb (a b : dfile) : bool :=
  match a, b with
  | DTemp, DTemp => true
  | DPartial h, DPartial h' => h =? h'
  | DPartRec h i st, DPartRec h' i' st' => (h =? h') && (i =? i') && prstate_eqb st st'
  | DColon h c, DColon h' c' => (h =? h') && (c =? c')
  | DColonPartial h, DColonPartial h' => h =? h'
  | _, _ => false
  end.

Fixpoint remove_one (d : dfile) (l : list dfile) : list dfile :=
  match l with
  | [] => []
  | x :: t => if dfile_eqb d x then t else x :: remove_one d t
  end.

(** a temp file gets a fresh random name; a -partial file or part record is named after its digest (opening it again
    does not make a second file) *)
Definition add_debris (d : dfile) (l : list dfile) : list dfile :=
  match d with
  | DTemp => d :: l
  | _ => if existsb (dfile_eqb d) l then l else d :: l
  end.

Definition is_partrec (h i : N) (d : dfile) : bool :=
  match d with DPartRec h' i' _ => (h =? h') && (i =? i') | _ => false end.
Definition drop_partrec (h i : N) (l : list dfile) : list dfile := filter (fun d => negb (is_partrec h i d)) l.
(** the state of part record [i] of blob [h], if the file exists *)
Fixpoint partrec_state (h i : N) (l : list dfile) : option prstate :=
  match l with
  | [] => None
  | DPartRec h' i' st :: t => if (h =? h') && (i =? i') then Some st else partrec_state h i t
  | _ :: t => partrec_state h i t
  end.

Definition remove_all (d : dfile) (l : list dfile) : list dfile := filter (fun x => negb (dfile_eqb d x)) l.

(** ** The store *)
Record store := MkStore {
  mans : list (name * mstate);   (* manifests/…/…/…/… *)
  blobs : list (N * N);          (* blobs/sha256-<hex>  |->  content (identified with its true hash) *)
  debris : list dfile
}.

Definition empty_store : store := MkStore [] [] [].

Definition mget (n : name) (s : store) : option mstate := aget name_eqb n (mans s).
Definition bget (h : N) (s : store) : option N := aget N.eqb h (blobs s).

(** the names [Manifests(true)] returns: the readable ones *)
Definition readable_names (s : store) : list name :=
  flat_map (fun p => match snd p with Readable _ => [fst p] | Unreadable => [] end) (mans s).

Definition has_unreadable (s : store) : bool :=
  existsb (fun p => match snd p with Readable _ => false | Unreadable => true end) (mans s).

(** [Layer.Remove] / [deleteUnusedLayers]: is the digest — compared as a *string* — used by a readable manifest? *)
Definition man_uses (d : digest) (ms : mstate) : bool :=
  match ms with
  | Readable m => existsb (fun l => digest_eqb (ldg l) d) (all_layers m)
  | Unreadable => false
  end.
Definition referenced (s : store) (d : digest) : bool := existsb (fun p => man_uses d (snd p)) (mans s).

(** is the blob *file* [sha256-h] used by a readable manifest, whatever the spelling? (the property's notion) *)
Definition man_uses_hex (h : N) (ms : mstate) : bool :=
  match ms with
  | Readable m => existsb (fun l => dhex (ldg l) =? h) (all_layers m)
  | Unreadable => false
  end.
Definition referenced_hex (s : store) (h : N) : bool := existsb (fun p => man_uses_hex h (snd p)) (mans s).

(** ** Atomic effects = mutating file-system calls that change the projection *)
Inductive effect :=
| EAddDebris (d : dfile)            (* open(O_CREAT) of a temp / -partial / part record *)
| ERmDebris (d : dfile)             (* unlink of it *)
| ERenTemp (h c : N)                (* rename(temp, blobs/sha256-h): content c becomes blob h *)
| ERenPartial (h c : N)             (* rename(sha256-h-partial, sha256-h) *)
| ERmBlob (h : N)                   (* unlink(blobs/sha256-h) *)
| ETruncMan (n : name)              (* open(manifest, O_CREAT|O_TRUNC): empty file, hence unreadable *)
| EWriteMan (n : name) (m : mstate) (* write(manifest bytes) *)
| ERmMan (n : name)                 (* unlink(manifest) *)
| EFixBlob (h c : N)                (* fixBlobs: rename(blobs/sha256:h, blobs/sha256-h) *)
| EFixPartial (h : N)               (* fixBlobs: rename(blobs/sha256:h-partial, blobs/sha256-h-partial) *)
| EPartRec (h i : N) (st : prstate) (* writePart: open(part record, O_CREAT|O_TRUNC) leaves it PRTorn, the write makes it PRTodo/PRDone *)
| ERmPart (h i : N).                (* unlink(part record) *)

Definition apply_effect (s : store) (e : effect) : store :=
  match e with
  | EAddDebris d => MkStore (mans s) (blobs s) (add_debris d (debris s))
  | ERmDebris d => MkStore (mans s) (blobs s) (remove_one d (debris s))
  | ERenTemp h c => MkStore (mans s) (aset N.eqb h c (blobs s)) (remove_one DTemp (debris s))
  | ERenPartial h c => MkStore (mans s) (aset N.eqb h c (blobs s)) (remove_one (DPartial h) (debris s))
  | ERmBlob h => MkStore (mans s) (adel N.eqb h (blobs s)) (debris s)
  | ETruncMan n => MkStore (aset name_eqb n Unreadable (mans s)) (blobs s) (debris s)
  | EWriteMan n m => MkStore (aset name_eqb n m (mans s)) (blobs s) (debris s)
  | ERmMan n => MkStore (adel name_eqb n (mans s)) (blobs s) (debris s)
  | EFixBlob h c => MkStore (mans s) (aset N.eqb h c (blobs s)) (remove_all (DColon h c) (debris s))
  | EFixPartial h => MkStore (mans s) (blobs s) (add_debris (DPartial h) (remove_all (DColonPartial h) (debris s)))
  | EPartRec h i st => MkStore (mans s) (blobs s) (DPartRec h i st :: drop_partrec h i (debris s))
  | ERmPart h i => MkStore (mans s) (blobs s) (drop_partrec h i (debris s))
  end.

Definition apply_list (s : store) (es : list effect) : store := fold_left apply_effect es s.

(** a store as an older version left it (test scaffolding of the correspondence check, not an API operation): the
    blob files [hs] carry the old ':' spelling, and there are old partial downloads [ps] *)
Definition legacy_move (s : store) (hs ps : list N) : store :=
  let s1 := fold_left (fun s h => match bget h s with
                                  | Some c => MkStore (mans s) (adel N.eqb h (blobs s)) (add_debris (DColon h c) (debris s))
                                  | None => s
                                  end) hs s in
  fold_left (fun s p => MkStore (mans s) (blobs s) (add_debris (DColonPartial p) (debris s))) ps s1.

(** a run: the store reached so far and the effects emitted so far *)
Record run := MkRun { rs : store; rt : list effect }.
Definition init (s : store) : run := MkRun s [].
Definition emit (r : run) (e : effect) : run := MkRun (apply_effect (rs r) e) (rt r ++ [e]).
Definition emits (r : run) (es : list effect) : run := fold_left emit es r.
