(** * Store/Pull2.v — the new pull path (server/internal/client/ollama Registry.Pull with
    server/internal/cache/blob), as an effect-emitting program over the store of Fs.v extended with the scratch files
    [sha256-<h>.chunked] in which a layer is assembled from chunks.

    What the code does, per layer of the manifest (layers, then the config), with one stream:
      - DiskCache.Get(digest): a blob file of the announced size under the digest's name -> the layer is "cached";
      - otherwise DiskCache.Chunked opens sha256-<h>.chunked (O_CREATE, never truncated), and for every chunk the
        chunksums endpoint announces: if the cache holds the chunk's record (a small blob whose content is the string
        "v1 pull chunksum <layer> <chunk digest> <start>-<end>", found by Get, which treats an empty file as absent)
        the chunk is skipped; otherwise the range is fetched, checked against the chunk digest while it is written at
        its offset (Chunker.Put), and then the record is stored (PutBytes -> copyNamedFile: create the file under its
        final name, write it);
      - when no chunk of the layer failed, Chunker.Commit hashes the whole scratch file and renames it to the blob's
        name if it is the layer; a layer with a failed chunk keeps its scratch file for the next attempt.
    When every layer is there the manifest bytes are stored as a blob and DiskCache.Link writes the manifest file
    (removing a file of other content first, then create + write in place).

    An empty .chunked file is the same as none (O_CREATE without O_TRUNC); it is not part of the state. *)
From Coq Require Import List NArith Bool Arith.
From V Require Import Common.Bytes Store.Fs Store.Ops Store.Corr.
Import ListNotations.
Open Scope N_scope.

Record chunk := MkChunk { ck_key : N;      (* content (= name) of the chunk's record *)
                          ck_ok : bool }.  (* the registry serves the right bytes for the range *)

(** what the registry serves: the manifest, the content id of its bytes, and for every layer digest the chunks the
    chunksums endpoint announces (one chunk covering the layer when it is below the chunking threshold) *)
Record served2 := MkServed2 { s2_man : manifest; s2_mid : N; s2_chunks : list (N * list chunk) }.

Definition chunks_of (sv : served2) (h : N) : list chunk :=
  match aget N.eqb h (s2_chunks sv) with Some l => l | None => [] end.

Record st2 := MkSt2 { base : store; chunked : list (N * list nat) }.

Definition written (s : st2) (h : N) : list nat :=
  match aget N.eqb h (chunked s) with Some l => l | None => [] end.

Definition mem_nat (i : nat) (l : list nat) : bool := existsb (Nat.eqb i) l.

Inductive eff2 :=
| XPut (h : N) (i : nat)       (* chunk i of layer h is in the scratch file (pwrite at its offset, verified) *)
| XSetBlob (h c : N)           (* the file sha256-<h> holds content c *)
| XCommit (h : N)              (* sha256-<h>.chunked renamed to sha256-<h> *)
| XBase (e : effect).          (* manifest file effects *)

Definition set_blob (s : store) (h c : N) : store := MkStore (mans s) (aset N.eqb h c (blobs s)) (debris s).

Definition apply2 (s : st2) (e : eff2) : st2 :=
  match e with
  | XPut h i => MkSt2 (base s) (aset N.eqb h (if mem_nat i (written s h) then written s h else i :: written s h) (chunked s))
  | XSetBlob h c => MkSt2 (set_blob (base s) h c) (chunked s)
  | XCommit h => MkSt2 (set_blob (base s) h h) (adel N.eqb h (chunked s))
  | XBase e => MkSt2 (apply_effect (base s) e) (chunked s)
  end.

Definition apply_list2 (s : st2) (es : list eff2) : st2 := fold_left apply2 es s.

Record run2 := MkRun2 { rs2 : st2; rt2 : list eff2 }.
Definition init2 (s : st2) : run2 := MkRun2 s [].
Definition emit2 (r : run2) (e : eff2) : run2 := MkRun2 (apply2 (rs2 r) e) (rt2 r ++ [e]).
Definition emits2 (r : run2) (es : list eff2) : run2 := fold_left emit2 es r.

(** Glob("manifests/*/*/*/*") lists in the order of the directory entries, level by level *)
Definition name_ltb (a b : name) : bool :=
  ltb_str (nhost a) (nhost b) || (eqb_str (nhost a) (nhost b) &&
  (ltb_str (nns a) (nns b) || (eqb_str (nns a) (nns b) &&
  (ltb_str (nmodel a) (nmodel b) || (eqb_str (nmodel a) (nmodel b) && ltb_str (ntag a) (ntag b)))))).

(** DiskCache.manifestPath: the first manifest file whose name equals [n] up to letter case, else [n] *)
Definition link_name (s : store) (n : name) : name :=
  match fold_left (fun best p => if name_eqfold (fst p) n
                                 then match best with
                                      | Some b => if name_ltb (fst p) b then Some (fst p) else best
                                      | None => Some (fst p)
                                      end
                                 else best) (mans s) None with
  | Some b => b
  | None => n
  end.

Fixpoint indexed_from {A} (i : nat) (l : list A) : list (nat * A) :=
  match l with [] => [] | x :: t => (i, x) :: indexed_from (S i) t end.

Section Pull2.
  Variable size_of : N -> N.
  Variable emp : N.      (* the content of an empty file *)

  (** DiskCache.Get + the size test of Pull / Chunked *)
  Definition has_blob (s : st2) (h sz : N) : bool :=
    match bget h (base s) with Some c => (size_of c =? sz) && negb (size_of c =? 0) | None => false end.
  Definition has_rec (s : st2) (k : N) : bool :=
    match bget k (base s) with Some c => negb (size_of c =? 0) | None => false end.

  (** PutBytes -> copyNamedFile: nothing when a file of the right size is there; else create, then write *)
  Definition put_blob (r : run2) (k : N) : run2 :=
    match bget k (base (rs2 r)) with
    | Some c => if size_of c =? size_of k then r else emits2 r [XSetBlob k emp; XSetBlob k k]
    | None => emits2 r [XSetBlob k emp; XSetBlob k k]
    end.

  (** [fresh]: the scratch file held nothing when Chunked opened it (Chunker.Fresh): then no record counts — the
      blob the recorded chunks went into may have been removed since — and every chunk is fetched *)
  Fixpoint do_chunks (fresh : bool) (r : run2) (h : N) (cs : list chunk) (i : nat) (failed : bool) : run2 * bool :=
    match cs with
    | [] => (r, failed)
    | c :: t =>
        if negb fresh && has_rec (rs2 r) (ck_key c) then do_chunks fresh r h t (S i) failed
        else if ck_ok c then do_chunks fresh (put_blob (emit2 r (XPut h i)) (ck_key c)) h t (S i) failed
        else do_chunks fresh r h t (S i) true
    end.

  (** Chunker.Commit: the scratch file is the layer iff every chunk is in it *)
  Definition covers (w : list nat) (n : nat) : bool := negb (n =? 0)%nat && forallb (fun i => mem_nat i w) (seq 0 n).

  (** the chunks of an empty layer (one chunk, "bytes=0--1"): nothing is written, only the record *)
  Fixpoint do_chunks0 (fresh : bool) (r : run2) (cs : list chunk) (failed : bool) : run2 * bool :=
    match cs with
    | [] => (r, failed)
    | c :: t =>
        if negb fresh && has_rec (rs2 r) (ck_key c) then do_chunks0 fresh r t failed
        else if ck_ok c then do_chunks0 fresh (put_blob r (ck_key c)) t failed
        else do_chunks0 fresh r t true
    end.

  (** a layer of length 0: Get never reports it (an empty file counts as absent); Chunked takes an empty file under
      the blob's name as the layer (nothing to commit then), otherwise the empty scratch file is committed *)
  Definition do_layer0 (sv : served2) (r : run2) (l : layer) : run2 * bool :=
    let h := dhex (ldg l) in
    let there := match bget h (base (rs2 r)) with Some c => size_of c =? 0 | None => false end in
    (* an empty file under the blob's name: a pre-validated Chunker, never fresh; else the scratch file is empty: fresh *)
    let (r1, failed) := do_chunks0 (negb there) r (chunks_of sv h) false in
    if failed then (r1, false)
    else if there then (r1, true)
    else (emit2 r1 (XCommit h), true).

  Definition do_layer (sv : served2) (r : run2) (l : layer) : run2 * bool :=
    let h := dhex (ldg l) in
    if lsz l =? 0 then do_layer0 sv r l
    else if has_blob (rs2 r) h (lsz l) then (r, true)
    else
      let fresh := match written (rs2 r) h with [] => true | _ => false end in
      let (r1, failed) := do_chunks fresh r h (chunks_of sv h) 0%nat false in
      if failed then (r1, false)
      else if covers (written (rs2 r1) h) (length (chunks_of sv h)) then (emit2 r1 (XCommit h), true)
      else (r1, false).

  Fixpoint do_layers (sv : served2) (r : run2) (ls : list layer) (ok : bool) : run2 * bool :=
    match ls with
    | [] => (r, ok)
    | l :: t => let (r1, ok1) := do_layer sv r l in do_layers sv r1 t (ok && ok1)
    end.

  (** DiskCache.Link *)
  Definition link (r : run2) (n : name) (m : manifest) : run2 :=
    let n' := link_name (base (rs2 r)) n in
    match mget n' (base (rs2 r)) with
    | Some st => if mstate_eqb st (Readable m) then r
                 else emits2 r [XBase (ERmMan n'); XBase (ETruncMan n'); XBase (EWriteMan n' (Readable m))]
    | None => emits2 r [XBase (ETruncMan n'); XBase (EWriteMan n' (Readable m))]
    end.

  Definition pull2 (s : st2) (n : name) (sv : served2) : run2 * result :=
    let (r, ok) := do_layers sv (init2 s) (all_layers (s2_man sv)) true in
    if ok then (link (put_blob r (s2_mid sv)) n (s2_man sv), ROk) else (r, RErr).

  Definition effects2 (s : st2) (n : name) (sv : served2) : list eff2 := rt2 (fst (pull2 s n sv)).
  Definition exec2 (s : st2) (n : name) (sv : served2) : st2 := rs2 (fst (pull2 s n sv)).
  (** killed after the first k effects *)
  Definition crash2 (s : st2) (n : name) (sv : served2) (k : nat) : st2 := apply_list2 s (firstn k (effects2 s n sv)).

  (** restart: with OLLAMA_NOPRUNE, or when a manifest cannot be read, fixBlobs only; otherwise PruneLayers removes
      every file of blobs/ whose name is not a digest (the scratch files among them) and every blob no manifest uses
      (the chunk records and manifest blobs among them) *)
  Definition restart2 (noprune : bool) (s : st2) : st2 :=
    if noprune || has_unreadable (base s) then MkSt2 (startup_noprune (base s)) (chunked s)
    else MkSt2 (exec size_of (base s) OStartup) [].

  (** ** the guard on what is served (honest registry; dishonest ones are C03's subject) *)
  Definition all_keys (sv : served2) : list N := flat_map (fun p => map ck_key (snd p)) (s2_chunks sv).
  Definition layer_hexes (sv : served2) : list N := map (fun l => dhex (ldg l)) (all_layers (s2_man sv)).
  (** chunk records name one chunk of one layer each (the record's content spells the layer, the chunk digest and the
      range) *)
  Definition keys_inj (sv : served2) : bool :=
    forallb (fun p => forallb (fun q =>
      forallb (fun ic => forallb (fun jc =>
        implb (ck_key (snd ic) =? ck_key (snd jc)) ((fst p =? fst q) && (fst ic =? fst jc)%nat))
        (indexed_from 0 (snd q))) (indexed_from 0 (snd p))) (s2_chunks sv)) (s2_chunks sv).

  Definition guard2 (sv : served2) : bool :=
    (* digests spelled canonically, sizes announced = sizes of the contents, no empty layer *)
    forallb (fun l => dcolon (ldg l) && (lsz l =? size_of (dhex (ldg l))) && negb (lsz l =? 0)) (all_layers (s2_man sv))
    (* a chunk record / the manifest blob is none of the layers (their names are hashes of other strings) *)
    && forallb (fun k => negb (existsb (N.eqb k) (layer_hexes sv))) (s2_mid sv :: all_keys sv)
    && negb (existsb (N.eqb (s2_mid sv)) (all_keys sv))
    && keys_inj sv
    (* every layer comes in at least one chunk *)
    && forallb (fun l => negb (length (chunks_of sv (dhex (ldg l))) =? 0)%nat) (all_layers (s2_man sv)).
  Definition honest (sv : served2) : bool := forallb (fun p => forallb ck_ok (snd p)) (s2_chunks sv).
End Pull2.

(** ** comparison with observations (props/c12.py) *)
Definition set_nat_eqb (a b : list nat) : bool := forallb (fun i => mem_nat i b) a && forallb (fun i => mem_nat i a) b.

Definition st2_eqv (a b : st2) : bool :=
  store_eqv (base a) (base b) && amap_eqv N.eqb set_nat_eqb (chunked a) (chunked b).

Fixpoint dedup2 (l : list st2) : list st2 :=
  match l with
  | [] => []
  | x :: t => match dedup2 t with
              | [] => [x]
              | y :: t' => if st2_eqv x y then y :: t' else x :: y :: t'
              end
  end.

Fixpoint prefixes2 (s : st2) (es : list eff2) : list st2 :=
  s :: match es with [] => [] | e :: t => prefixes2 (apply2 s e) t end.

(** the distinct stores seen when the pull is killed before each of its mutating system calls = the model's prefixes *)
Definition chk_pull2_crash (tbl : list (N * N)) (emp : N) (s : st2) (n : name) (sv : served2) (obs : list st2) : bool :=
  list_eqb st2_eqv (dedup2 (prefixes2 s (effects2 (size_tbl tbl) emp s n sv))) (dedup2 obs).

Definition chk_pull2_run (tbl : list (N * N)) (emp : N) (s : st2) (n : name) (sv : served2) (res : result) (obs : st2) : bool :=
  let (r, res') := pull2 (size_tbl tbl) emp s n sv in
  result_eqb res' res && st2_eqv (rs2 r) obs.

Definition chk_restart2 (tbl : list (N * N)) (noprune : bool) (crashed obs : st2) : bool :=
  st2_eqv (restart2 (size_tbl tbl) noprune crashed) obs.

(** the theorems' hypotheses hold in the case at hand *)
Definition chk_served2 (tbl : list (N * N)) (sv : served2) : bool := guard2 (size_tbl tbl) sv.


(** ** histories that mix the old handlers with pulls through the new code (props/c04.py) *)
Inductive action2 := A2Old (a : action) | A2Pull (n : name) (sv : served2).

Definition act_run2 (size_of : N -> N) (emp : N) (s : st2) (a : action2) : st2 * result :=
  match a with
  | A2Old (AOp OStartup) => (restart2 size_of false s, ROk)
  | A2Old ANoPruneStartup => (restart2 size_of true s, ROk)
  | A2Old a => let (b, res) := act_run size_of (base s) a in (MkSt2 b (chunked s), res)   (* the old handlers never look at a scratch file *)
  | A2Pull n sv => let (r, res) := pull2 size_of emp s n sv in (rs2 r, res)
  end.

Record step2 := MkStep2 { st2_act : action2; st2_res : result; st2_obs : st2 }.

Fixpoint chk_steps2 (size_of : N -> N) (emp : N) (s : st2) (l : list step2) : bool :=
  match l with
  | [] => true
  | x :: t =>
      let (s', res) := act_run2 size_of emp s (st2_act x) in
      result_eqb res (st2_res x) && st2_eqv s' (st2_obs x) && chk_steps2 size_of emp s' t
  end.

Fixpoint first_bad2 (size_of : N -> N) (emp : N) (s : st2) (l : list step2) (i : nat) : option nat :=
  match l with
  | [] => None
  | x :: t =>
      let (s', res) := act_run2 size_of emp s (st2_act x) in
      if result_eqb res (st2_res x) && st2_eqv s' (st2_obs x) then first_bad2 size_of emp s' t (S i) else Some i
  end.

Definition chk_history2 (tbl : list (N * N)) (emp : N) (l : list step2) : bool :=
  chk_steps2 (size_tbl tbl) emp (MkSt2 empty_store []) l.
