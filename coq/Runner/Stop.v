(** Model of runner/common/stop.go and of the per-token streaming logic of
    runner/{ollamarunner,llamarunner}/runner.go (processBatch tail, flushPending, removeSequence).
    Definitions only; proofs are in StopProofs.v. *)
From Coq Require Import List NArith Bool Arith.
From V Require Import Common.Bytes.
Import ListNotations.

(** FindStop: the stop whose first occurrence is earliest in [seq]; on equal indices the one listed first. *)
Fixpoint find_stop_best (seq : str) (stops : list str) (best : option (nat * str)) : option (nat * str) :=
  match stops with
  | [] => best
  | s :: rest =>
      let best' :=
        match index_of seq s with
        | Some i => match best with
                    | Some (j, _) => if i <? j then Some (i, s) else best
                    | None => Some (i, s)
                    end
        | None => best
        end in
      find_stop_best seq rest best'
  end.
Definition find_stop (seq : str) (stops : list str) : option str :=
  option_map snd (find_stop_best seq stops None).

(** the pinned upstream behaviour (first stop in list order), kept to state what the repair changed *)
Fixpoint find_stop_listorder (seq : str) (stops : list str) : option str :=
  match stops with
  | [] => None
  | s :: rest => if containsb seq s then Some s else find_stop_listorder seq rest
  end.

(** ContainsStopSuffix: some non-empty prefix of some stop is a suffix of [seq] *)
Fixpoint nonempty_prefixes_aux (acc : str) (s : str) : list str :=
  match s with
  | [] => []
  | c :: s' => (acc ++ [c]) :: nonempty_prefixes_aux (acc ++ [c]) s'
  end.
Definition nonempty_prefixes (s : str) : list str := nonempty_prefixes_aux [] s.
Definition contains_stop_suffix (seq : str) (stops : list str) : bool :=
  existsb (fun stop => existsb (fun p => suffixb p seq) (nonempty_prefixes stop)) stops.

(** TruncateStop *)
Fixpoint resplit (pieces : list str) (rem : str) : list str * bool :=
  match pieces with
  | [] => ([], false)
  | p :: ps =>
      match rem with
      | [] => ([], false)
      | _ :: _ =>
          if length p <=? length rem
          then let '(r, t) := resplit ps (skipn (length p) rem) in (firstn (length p) rem :: r, t)
          else ([rem], true)
      end
  end.
Definition truncate_stop (pieces : list str) (stop : str) : list str * bool :=
  match index_of (concat pieces) stop with
  | None => (pieces, false)
  | Some i => resplit pieces (firstn i (concat pieces))
  end.

(** IncompleteUnicode *)
Fixpoint incomplete_aux (rv : str) (i fuel : nat) : bool :=
  match fuel with
  | 0 => false
  | S f =>
      match rv with
      | [] => false
      | c :: r =>
          if N.eqb (N.land c 192) 128 then incomplete_aux r (S i) f
          else if N.eqb (N.land c 224) 192 then i <? 2
          else if N.eqb (N.land c 240) 224 then i <? 3
          else if N.eqb (N.land c 248) 240 then i <? 4
          else false
      end
  end.
Definition incomplete_unicode (s : str) : bool := incomplete_aux (rev s) 1 4.

(** Go's utf8.ValidString *)
Definition in_rng (lo hi c : N) : bool := N.leb lo c && N.leb c hi.
Definition cont (c : N) : bool := in_rng 128 191 c.
Fixpoint utf8_valid (s : str) : bool :=
  match s with
  | [] => true
  | b0 :: r0 =>
      if N.ltb b0 128 then utf8_valid r0
      else match r0 with
      | [] => false
      | b1 :: r1 =>
          if in_rng 194 223 b0 then cont b1 && utf8_valid r1
          else match r1 with
          | [] => false
          | b2 :: r2 =>
              if N.eqb b0 224 then in_rng 160 191 b1 && cont b2 && utf8_valid r2
              else if in_rng 225 236 b0 || in_rng 238 239 b0 then cont b1 && cont b2 && utf8_valid r2
              else if N.eqb b0 237 then in_rng 128 159 b1 && cont b2 && utf8_valid r2
              else match r2 with
              | [] => false
              | b3 :: r3 =>
                  if N.eqb b0 240 then in_rng 144 191 b1 && cont b2 && cont b3 && utf8_valid r3
                  else if in_rng 241 243 b0 then cont b1 && cont b2 && cont b3 && utf8_valid r3
                  else if N.eqb b0 244 then in_rng 128 143 b1 && cont b2 && cont b3 && utf8_valid r3
                  else false
              end
          end
      end
  end.

(** flushPending: drop bytes from the end until valid *)
Fixpoint trim_valid_fuel (n : nat) (s : str) : str :=
  if utf8_valid s then s
  else match n with 0 => [] | S k => trim_valid_fuel k (removelast s) end.
Definition trim_valid (s : str) : str := trim_valid_fuel (length s) s.

(** the streaming state machine of one sequence *)
Inductive tok := Piece (p : str) | EOS.
Inductive reason := RStop | RLength.
Record st := mkSt { pending : list str; out : list str; npred : nat; fin : option reason;
                    gen : str (* ghost: text of the pieces consumed so far *) }.
Definition init : st := mkSt [] [] 0 None [].

Definition emit (o : list str) (j : str) : list str := match j with [] => o | _ => o ++ [j] end.
Definition flush (s : st) : st :=
  mkSt [] (emit (out s) (trim_valid (concat (pending s)))) (npred s) (fin s) (gen s).
Definition finish (r : reason) (s : st) : st :=
  let s' := flush s in mkSt (pending s') (out s') (npred s') (Some r) (gen s').

(** limit check made at the start of every batch *)
Definition at_limit (limit : nat) (s : st) : bool := (0 <? limit) && (limit <=? npred s).

Definition step (stops : list str) (limit : nat) (s : st) (t : tok) : st :=
  match fin s with
  | Some _ => s
  | None =>
      if at_limit limit s then finish RLength s
      else
        let n := S (npred s) in
        match t with
        | EOS => finish RStop (mkSt (pending s) (out s) n None (gen s))
        | Piece p =>
            let pend := pending s ++ [p] in
            let sq := concat pend in
            let g := gen s ++ p in
            match find_stop sq stops with
            | Some stop => finish RStop (mkSt (fst (truncate_stop pend stop)) (out s) n None g)
            | None =>
                if contains_stop_suffix sq stops then mkSt pend (out s) n None g
                else if incomplete_unicode sq then mkSt pend (out s) n None g
                else flush (mkSt pend (out s) n None g)
            end
        end
  end.

Definition run (stops : list str) (limit : nat) (ts : list tok) : st := fold_left (step stops limit) ts init.
(** one more batch boundary after the last token: only the limit check can fire *)
Definition settle (limit : nat) (s : st) : st :=
  match fin s with Some _ => s | None => if at_limit limit s then finish RLength s else s end.

Definition output (s : st) : str := concat (out s).

(** the text of the pieces before the first EOS: what the model generates when nothing stops it earlier *)
Fixpoint gen_text (ts : list tok) : str :=
  match ts with
  | [] => []
  | EOS :: _ => []
  | Piece p :: r => p ++ gen_text r
  end.
