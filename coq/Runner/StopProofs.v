(** Proofs about the streaming state machine of Runner/Stop.v (property C14). *)
From Coq Require Import List NArith Bool Arith Lia.
From V Require Import Common.Bytes Runner.Stop.
Import ListNotations.

Lemma concat_snoc (l : list str) (x : str) : concat (l ++ [x]) = concat l ++ x.
Proof. apply concat_app_single. Qed.

(** ** find_stop: earliest occurrence *)

Definition best_ok (seq : str) (seen : list str) (best : option (nat * str)) : Prop :=
  match best with
  | None => forall s, In s seen -> ~ Infix s seq
  | Some (i, s) => In s seen /\ index_of seq s = Some i /\
                   forall s' j, In s' seen -> index_of seq s' = Some j -> i <= j
  end.

Lemma find_stop_best_ok seq stops : forall seen best,
  best_ok seq seen best -> best_ok seq (seen ++ stops) (find_stop_best seq stops best).
Proof.
  induction stops as [|s rest IH]; intros seen best Hb; cbn [find_stop_best].
  - rewrite app_nil_r. exact Hb.
  - replace (seen ++ s :: rest) with ((seen ++ [s]) ++ rest) by (rewrite <- app_assoc; reflexivity).
    apply IH.
    destruct (index_of seq s) as [i|] eqn:Ei.
    + destruct best as [[j sj]|].
      * destruct Hb as [Hin [Hj Hmin]].
        destruct (i <? j) eqn:Elt.
        -- apply Nat.ltb_lt in Elt. cbn. split; [apply in_or_app; right; left; reflexivity|]. split; [exact Ei|].
           intros s' j' Hin' Hj'. apply in_app_or in Hin' as [Hin'|[<-|[]]].
           ++ specialize (Hmin _ _ Hin' Hj'). lia.
           ++ rewrite Ei in Hj'. inversion Hj'. lia.
        -- apply Nat.ltb_ge in Elt. cbn. split; [apply in_or_app; left; exact Hin|]. split; [exact Hj|].
           intros s' j' Hin' Hj'. apply in_app_or in Hin' as [Hin'|[<-|[]]].
           ++ exact (Hmin _ _ Hin' Hj').
           ++ rewrite Ei in Hj'. inversion Hj'. lia.
      * cbn in Hb. cbn. split; [apply in_or_app; right; left; reflexivity|]. split; [exact Ei|].
        intros s' j' Hin' Hj'. apply in_app_or in Hin' as [Hin'|[<-|[]]].
        -- exfalso. apply (Hb _ Hin'). apply containsb_spec. unfold containsb. rewrite Hj'. reflexivity.
        -- rewrite Ei in Hj'. inversion Hj'. lia.
    + destruct best as [[j sj]|].
      * destruct Hb as [Hin [Hj Hmin]]. cbn. split; [apply in_or_app; left; exact Hin|]. split; [exact Hj|].
        intros s' j' Hin' Hj'. apply in_app_or in Hin' as [Hin'|[<-|[]]].
        -- exact (Hmin _ _ Hin' Hj').
        -- rewrite Ei in Hj'. discriminate.
      * cbn in Hb. cbn. intros s' Hin'. apply in_app_or in Hin' as [Hin'|[<-|[]]].
        -- exact (Hb _ Hin').
        -- apply index_of_none. exact Ei.
Qed.

Lemma find_stop_none seq stops :
  find_stop seq stops = None -> forall s, In s stops -> ~ Infix s seq.
Proof.
  unfold find_stop. intros H.
  pose proof (find_stop_best_ok seq stops [] None) as Hb. cbn in Hb.
  destruct (find_stop_best seq stops None) as [[i s]|]; [discriminate|].
  apply Hb. intros s [].
Qed.

Lemma find_stop_some seq stops stop :
  find_stop seq stops = Some stop ->
  exists i, In stop stops /\ index_of seq stop = Some i /\
            forall s' j, In s' stops -> index_of seq s' = Some j -> i <= j.
Proof.
  unfold find_stop. intros H.
  pose proof (find_stop_best_ok seq stops [] None) as Hb. cbn in Hb.
  destruct (find_stop_best seq stops None) as [[i s]|]; [|discriminate].
  cbn in H. inversion H; subst. exists i. apply Hb. intros s' [].
Qed.

(** ** stop-freeness *)

Definition StopFree (stops : list str) (s : str) : Prop := forall t, In t stops -> ~ Infix t s.
(** no non-empty suffix of [s] is a prefix of a stop *)
Definition NoStopSuffix (stops : list str) (s : str) : Prop :=
  forall t u, In t stops -> u <> [] -> Suffix u s -> ~ Prefix u t.

Lemma nonempty_prefixes_aux_spec acc s p :
  In p (nonempty_prefixes_aux acc s) <-> exists u, u <> [] /\ Prefix u s /\ p = acc ++ u.
Proof.
  revert acc; induction s as [|c s IH]; intros acc; cbn.
  - split; [intros []|]. intros [u [Hu [[r Hr] _]]]. destruct u; [congruence|discriminate].
  - split.
    + intros [<-|H].
      * exists [c]. split; [discriminate|]. split; [exists s; reflexivity | reflexivity].
      * apply IH in H as [u [Hu [[r ->] ->]]]. exists (c :: u). split; [discriminate|].
        split; [exists r; reflexivity | rewrite <- app_assoc; reflexivity].
    + intros [u [Hu [[r Hr] ->]]]. destruct u as [|c' u]; [congruence|].
      cbn in Hr. inversion Hr; subst. destruct u as [|c'' u].
      * left. reflexivity.
      * right. apply IH. exists (c'' :: u). split; [discriminate|].
        split; [exists r; reflexivity | rewrite <- app_assoc; reflexivity].
Qed.

Lemma contains_stop_suffix_false stops sq :
  contains_stop_suffix sq stops = false -> NoStopSuffix stops sq.
Proof.
  unfold contains_stop_suffix, NoStopSuffix. intros H t u Hin Hu Hsuf Hpre.
  assert (E : existsb (fun stop => existsb (fun p => suffixb p sq) (nonempty_prefixes stop)) stops = true).
  { apply existsb_exists. exists t. split; [exact Hin|]. apply existsb_exists. exists u. split.
    - unfold nonempty_prefixes. apply nonempty_prefixes_aux_spec. exists u. auto.
    - apply suffixb_spec. exact Hsuf. }
  congruence.
Qed.

Lemma Suffix_app_inv u a b : Suffix u (a ++ b) ->
  Suffix u b \/ exists u', u = u' ++ b /\ Suffix u' a.
Proof.
  intros [r H]. apply app_eq_app in H as [l [[Ha Hb]|[Hr Hb]]].
  - right. exists l. split; [exact Hb | exists r; exact Ha].
  - left. exists l. exact Hb.
Qed.

(** the key step: appending a stop-free, suffix-clean chunk to a clean text keeps it clean *)
Lemma clean_app stops F sq :
  (forall t, In t stops -> t <> []) ->
  StopFree stops F -> NoStopSuffix stops F ->
  StopFree stops sq -> NoStopSuffix stops sq ->
  StopFree stops (F ++ sq) /\ NoStopSuffix stops (F ++ sq).
Proof.
  intros Hne HF HFs Hsq Hsqs. split.
  - intros t Hin Hinf. apply Infix_app_cases in Hinf as [H|[H|[u [v [-> [Hu [Hv [Hsu Hpv]]]]]]]].
    + exact (HF _ Hin H).
    + exact (Hsq _ Hin H).
    + apply (HFs _ u Hin Hu Hsu). apply Prefix_app_r.
  - intros t u Hin Hu Hsuf Hpre. apply Suffix_app_inv in Hsuf as [H|[u' [-> Hs']]].
    + exact (Hsqs _ _ Hin Hu H Hpre).
    + destruct u' as [|c u'].
      * cbn in *. apply (Hsqs t sq Hin Hu); [exists []; reflexivity | exact Hpre].
      * apply (HFs t (c :: u') Hin); [discriminate | exact Hs' |].
        eapply Prefix_trans; [apply Prefix_app_r | exact Hpre].
Qed.

(** stop-freeness with a clean left context extends over a stop-free right part even when the right part
    may end in a partial stop *)
Lemma stopfree_app stops F sq :
  StopFree stops F -> NoStopSuffix stops F -> StopFree stops sq -> StopFree stops (F ++ sq).
Proof.
  intros HF HFs Hsq t Hin Hinf. apply Infix_app_cases in Hinf as [H|[H|[u [v [-> [Hu [Hv [Hsu Hpv]]]]]]]].
  - exact (HF _ Hin H).
  - exact (Hsq _ Hin H).
  - apply (HFs _ u Hin Hu Hsu). apply Prefix_app_r.
Qed.

Lemma StopFree_prefix stops p s : Prefix p s -> StopFree stops s -> StopFree stops p.
Proof. intros Hp Hs t Hin Hinf. apply (Hs t Hin). eapply Infix_prefix; eassumption. Qed.


(** ** position of the earliest stop *)
Lemma index_of_intro s t a b :
  s = a ++ t ++ b -> (forall a' b', s = a' ++ t ++ b' -> length a <= length a') ->
  index_of s t = Some (length a).
Proof.
  intros Hs Hmin. destruct (index_of s t) as [k|] eqn:E.
  - apply index_of_some in E as [a0 [b0 [Hs0 [-> Hmin0]]]].
    f_equal. apply Nat.le_antisymm; [eapply Hmin0; exact Hs | eapply Hmin; exact Hs0].
  - apply index_of_none in E. exfalso; apply E. exists a, b. exact Hs.
Qed.

Lemma index_of_clean_app F sq t :
  t <> [] -> ~ Infix t F -> (forall u, u <> [] -> Suffix u F -> ~ Prefix u t) ->
  index_of (F ++ sq) t = option_map (fun i => length F + i) (index_of sq t).
Proof.
  intros Ht HF HFs. destruct (index_of sq t) as [i|] eqn:E; cbn [option_map].
  - apply index_of_some in E as [a0 [b0 [Hsq [-> Hmin]]]].
    rewrite <- app_length. apply index_of_intro with (b := b0).
    + rewrite Hsq, <- app_assoc. reflexivity.
    + intros a' b' H. rewrite app_length.
      apply app_eq_app in H as [l [[HFa Hl]|[Ha Hl]]].
      * destruct l as [|c l].
        -- cbn in Hl. rewrite app_nil_r in HFa. subst a'.
           specialize (Hmin [] b' (eq_sym Hl)). cbn in Hmin. lia.
        -- exfalso. apply app_eq_app in Hl as [l' [[Ht' Hb]|[Hl' Hb]]].
           ++ apply (HFs (c :: l)); [discriminate | exists a'; exact HFa | exists l'; exact Ht'].
           ++ apply HF. exists a', l'. rewrite HFa, Hl'. reflexivity.
      * subst a'. rewrite app_length. specialize (Hmin l b' Hl). lia.
  - apply index_of_none. apply index_of_none in E. intros Hinf.
    apply Infix_app_cases in Hinf as [H|[H|[u [v [-> [Hu [Hv [Hsu Hpv]]]]]]]].
    + exact (HF H).
    + exact (E H).
    + apply (HFs u Hu Hsu). apply Prefix_app_r.
Qed.

Definition EarliestStop (stops : list str) (g : str) (k : nat) : Prop :=
  (exists t, In t stops /\ index_of g t = Some k) /\
  forall t j, In t stops -> index_of g t = Some j -> k <= j.

Lemma EarliestStop_shift stops F sq stop i :
  (forall t, In t stops -> t <> []) ->
  StopFree stops F -> NoStopSuffix stops F ->
  In stop stops -> index_of sq stop = Some i ->
  (forall s' j, In s' stops -> index_of sq s' = Some j -> i <= j) ->
  EarliestStop stops (F ++ sq) (length F + i).
Proof.
  intros Hne HF HFs Hin Hi Hmin. split.
  - exists stop. split; [exact Hin|].
    rewrite index_of_clean_app; [rewrite Hi; reflexivity | exact (Hne _ Hin) | exact (HF _ Hin) |].
    intros u Hu Hs. exact (HFs _ _ Hin Hu Hs).
  - intros t j Hint Hj.
    rewrite index_of_clean_app in Hj; [| exact (Hne _ Hint) | exact (HF _ Hint) | intros u Hu Hs; exact (HFs _ _ Hint Hu Hs)].
    destruct (index_of sq t) as [j0|] eqn:E; cbn in Hj; [|discriminate].
    inversion Hj; subst. specialize (Hmin _ _ Hint E). lia.
Qed.

(** ** trim_valid *)
Lemma removelast_prefix (s : str) : Prefix (removelast s) s.
Proof.
  induction s as [|c s IH]; [apply Prefix_nil|]. destruct s as [|d s].
  - cbn. apply Prefix_nil.
  - change (removelast (c :: d :: s)) with (c :: removelast (d :: s)).
    destruct IH as [r Hr]. exists r. cbn [app]. f_equal. exact Hr.
Qed.

Lemma removelast_length (s : str) : length (removelast s) = length s - 1.
Proof.
  induction s as [|c s IH]; [reflexivity|]. destruct s as [|d s]; [reflexivity|].
  change (removelast (c :: d :: s)) with (c :: removelast (d :: s)). cbn [length]. rewrite IH. cbn. lia.
Qed.

Lemma trim_fuel_prefix n s : Prefix (trim_valid_fuel n s) s.
Proof.
  revert s; induction n as [|n IH]; intros s; cbn; destruct (utf8_valid s); try apply Prefix_refl; try apply Prefix_nil.
  eapply Prefix_trans; [apply IH | apply removelast_prefix].
Qed.

Lemma trim_fuel_valid n s : length s <= n -> utf8_valid (trim_valid_fuel n s) = true.
Proof.
  revert s; induction n as [|n IH]; intros s Hl; cbn; destruct (utf8_valid s) eqn:E; try exact E; try reflexivity.
  apply IH. rewrite removelast_length. lia.
Qed.

Lemma trim_valid_prefix s : Prefix (trim_valid s) s.
Proof. apply trim_fuel_prefix. Qed.
Lemma trim_valid_valid s : utf8_valid (trim_valid s) = true.
Proof. apply trim_fuel_valid. lia. Qed.
Lemma trim_valid_id s : utf8_valid s = true -> trim_valid s = s.
Proof. unfold trim_valid. destruct (length s); cbn; intros ->; reflexivity. Qed.

(** ** truncate_stop / resplit *)
Lemma resplit_cons p ps rem : rem <> [] ->
  resplit (p :: ps) rem =
  if length p <=? length rem
  then (let '(r, t) := resplit ps (skipn (length p) rem) in (firstn (length p) rem :: r, t))
  else ([rem], true).
Proof. destruct rem; [congruence | reflexivity]. Qed.

Lemma resplit_concat pieces rem :
  Prefix rem (concat pieces) -> concat (fst (resplit pieces rem)) = rem.
Proof.
  revert rem; induction pieces as [|p ps IH]; intros rem Hp.
  - destruct Hp as [r Hr]. cbn in Hr. destruct rem; [reflexivity|discriminate].
  - destruct rem as [|c rem']; [reflexivity|].
    rewrite resplit_cons by discriminate.
    remember (c :: rem') as rem eqn:Erem.
    destruct (length p <=? length rem) eqn:El.
    + apply Nat.leb_le in El.
      assert (Hp1 : Prefix p (p ++ concat ps)) by apply Prefix_app_r.
      pose proof (Prefix_cmp _ _ _ Hp1 Hp El) as [y Hy].
      assert (Hps : Prefix (skipn (length p) rem) (concat ps)).
      { destruct Hp as [x Hx]. cbn [concat] in Hx. rewrite Hy in Hx. rewrite <- app_assoc in Hx.
        apply app_inv_head in Hx. exists x. rewrite Hy.
        rewrite skipn_app, skipn_all, Nat.sub_diag. cbn. exact Hx. }
      specialize (IH _ Hps).
      destruct (resplit ps (skipn (length p) rem)) as [r t] eqn:Er. cbn [fst concat] in *.
      rewrite IH. apply firstn_skipn.
    + cbn. apply app_nil_r.
Qed.

Lemma truncate_stop_concat pieces stop i :
  index_of (concat pieces) stop = Some i ->
  concat (fst (truncate_stop pieces stop)) = firstn i (concat pieces).
Proof.
  intros H. unfold truncate_stop. rewrite H. apply resplit_concat. apply Prefix_firstn.
Qed.

(** ** the run invariant *)

Section Run.
  Variable stops : list str.
  Variable limit : nat.
  Hypothesis stops_nonempty : forall t, In t stops -> t <> [].

  (** mid-stream flushes never had to drop bytes (true whenever the generated text is valid UTF-8) *)
  Definition flush_lossless (s : st) : Prop := utf8_valid (concat (pending s)) = true.

  (** [step] with the no-drop side condition made explicit: a relation that is [step] on runs where every
      mid-stream flush is lossless *)
  Definition lossless_step (s : st) (t : tok) : Prop :=
    match fin s with
    | Some _ => True
    | None =>
        if at_limit limit s then True
        else match t with
             | EOS => True
             | Piece p =>
                 let sq := concat (pending s ++ [p]) in
                 match find_stop sq stops with
                 | Some _ => True
                 | None => if contains_stop_suffix sq stops then True
                           else if incomplete_unicode sq then True
                           else utf8_valid sq = true
                 end
             end
    end.

  Fixpoint lossless_run (s : st) (ts : list tok) : Prop :=
    match ts with
    | [] => True
    | t :: ts' => lossless_step s t /\ lossless_run (step stops limit s t) ts'
    end.

  (** invariant of a sequence that is still generating *)
  Definition InvRunning (s : st) : Prop :=
    gen s = output s ++ concat (pending s) /\
    StopFree stops (output s) /\ NoStopSuffix stops (output s) /\
    StopFree stops (concat (pending s)) /\
    Forall (fun p => utf8_valid p = true) (out s).

  (** the text that was due to be streamed: everything generated, or the part before the earliest stop *)
  Definition Cut (s : st) (c : str) : Prop :=
    (StopFree stops (gen s) /\ c = gen s) \/
    (exists k, EarliestStop stops (gen s) k /\ c = firstn k (gen s)).

  (** what holds once the sequence has finished: the output is the cut, less an invalid UTF-8 tail of the
      part that was still pending *)
  Definition Finished (s : st) : Prop :=
    pending s = [] /\ StopFree stops (output s) /\
    Forall (fun p => utf8_valid p = true) (out s) /\
    exists F body, Cut s (F ++ body) /\ output s = F ++ trim_valid body.

  Definition Inv (s : st) : Prop :=
    match fin s with None => InvRunning s | Some _ => Finished s end.

  Lemma output_emit o j : concat (emit o j) = concat o ++ j.
  Proof. destruct j; cbn [emit]; [symmetry; apply app_nil_r | apply concat_snoc]. Qed.

  Lemma emit_valid o j : Forall (fun p => utf8_valid p = true) o -> utf8_valid j = true ->
    Forall (fun p => utf8_valid p = true) (emit o j).
  Proof.
    intros Ho Hj. destruct j; cbn [emit]; [exact Ho|]. apply Forall_app. split; [exact Ho|]. constructor; [exact Hj|constructor].
  Qed.

  (** finishing from a state whose output is clean and whose pending text is stop-free *)
  Lemma finish_ok r pend o n g :
    Cut (mkSt pend o n None g) (concat o ++ concat pend) ->
    StopFree stops (concat o) -> NoStopSuffix stops (concat o) ->
    StopFree stops (concat pend) ->
    Forall (fun p => utf8_valid p = true) o ->
    Finished (finish r (mkSt pend o n None g)).
  Proof.
    intros Hg Ho Hos Hp Hv. unfold Finished, finish, flush, output. cbn [pending out npred fin gen].
    split; [reflexivity|]. rewrite output_emit.
    split; [|split].
    - apply stopfree_app; try assumption. eapply StopFree_prefix; [apply trim_valid_prefix | exact Hp].
    - apply emit_valid; [exact Hv | apply trim_valid_valid].
    - exists (concat o), (concat pend). split; [exact Hg | reflexivity].
  Qed.

  Lemma Finished_prefix s : Finished s -> Prefix (output s) (gen s).
  Proof.
    intros [_ [_ [_ [F [body [Hc Ho]]]]]]. rewrite Ho.
    assert (Hp : Prefix (F ++ trim_valid body) (F ++ body)).
    { destruct (trim_valid_prefix body) as [r Hr]. exists r. rewrite <- app_assoc. f_equal. exact Hr. }
    destruct Hc as [[_ Hc]|[k [_ Hc]]].
    - rewrite <- Hc. exact Hp.
    - eapply Prefix_trans; [exact Hp|]. rewrite Hc. apply Prefix_firstn.
  Qed.

  Lemma Inv_init : Inv init.
  Proof.
    unfold Inv, InvRunning, init, output; cbn. repeat split; try constructor.
    - intros t Hin [a [b H]]. destruct a; [|discriminate]. cbn in H. destruct t; [exact (stops_nonempty _ Hin eq_refl)|discriminate].
    - intros t u Hin Hu [r Hr] _. destruct r, u; cbn in Hr; congruence.
    - intros t Hin [a [b H]]. destruct a; [|discriminate]. cbn in H. destruct t; [exact (stops_nonempty _ Hin eq_refl)|discriminate].
  Qed.

  Lemma Inv_step s t : Inv s -> lossless_step s t -> Inv (step stops limit s t).
  Proof.
    unfold Inv at 1, lossless_step, step. destruct s as [pend o n f g]. cbn [fin].
    destruct f as [r|]; [intros H _; exact H|].
    intros [Hg [Ho [Hos [Hp Hv]]]]. unfold output in *. cbn [gen out pending] in *.
    destruct (at_limit limit (mkSt pend o n None g)).
    - intros _. change (Finished (finish RLength (mkSt pend o n None g))).
      apply finish_ok; try assumption. left. cbn [gen]. split; [rewrite Hg; apply stopfree_app; assumption | symmetry; exact Hg].
    - destruct t as [p|].
      + cbn [pending out npred gen].
        destruct (find_stop (concat (pend ++ [p])) stops) as [stop|] eqn:Ef.
        * intros _.
          apply find_stop_some in Ef as [i [Hin [Hi Hmin]]].
          change (Finished (finish RStop (mkSt (fst (truncate_stop (pend ++ [p]) stop)) o (S n) None (g ++ p)))).
          apply finish_ok; try assumption.
          -- right. cbn [gen]. exists (length (concat o) + i). rewrite (truncate_stop_concat _ _ _ Hi).
             assert (Hg' : g ++ p = concat o ++ concat (pend ++ [p])).
             { rewrite Hg, concat_snoc, <- app_assoc. reflexivity. }
             rewrite Hg'. split.
             ++ apply EarliestStop_shift with (stop := stop); assumption.
             ++ symmetry. apply firstn_app_2.
          -- rewrite (truncate_stop_concat _ _ _ Hi).
             intros t' Hin' Hinf.
             destruct (index_of (concat (pend ++ [p])) t') as [j|] eqn:Ej.
             ++ specialize (Hmin _ _ Hin' Ej).
                apply index_of_some in Ej as [a [b [Heq [Hj Hleast]]]].
                destruct Hinf as [a' [b' Hab]].
                assert (Hfull : concat (pend ++ [p]) = a' ++ t' ++ (b' ++ skipn i (concat (pend ++ [p])))).
                { rewrite <- (firstn_skipn i (concat (pend ++ [p]))) at 1. rewrite Hab. rewrite <- !app_assoc. reflexivity. }
                specialize (Hleast _ _ Hfull).
                assert (Hlen : length (firstn i (concat (pend ++ [p]))) <= i) by apply firstn_le_length.
                rewrite Hab in Hlen. rewrite !app_length in Hlen.
                assert (0 < length t') by (specialize (stops_nonempty _ Hin'); destruct t'; [congruence | cbn; lia]).
                lia.
             ++ apply index_of_none in Ej. apply Ej. eapply Infix_prefix; [apply Prefix_firstn | exact Hinf].
        * pose proof (find_stop_none _ _ Ef) as Hsf.
          destruct (contains_stop_suffix (concat (pend ++ [p])) stops) eqn:Ec.
          { intros _. cbn. unfold InvRunning, output. cbn.
            split; [rewrite Hg, concat_snoc, <- app_assoc; reflexivity|]. repeat split; assumption. }
          destruct (incomplete_unicode (concat (pend ++ [p]))) eqn:Eu.
          { intros _. cbn. unfold InvRunning, output. cbn.
            split; [rewrite Hg, concat_snoc, <- app_assoc; reflexivity|]. repeat split; assumption. }
          intros Hval. unfold flush. cbn [pending out npred gen fin]. unfold Inv, InvRunning, output. cbn [pending out npred gen fin].
          rewrite (trim_valid_id _ Hval). rewrite !output_emit. cbn [concat].
          apply contains_stop_suffix_false in Ec.
          destruct (clean_app stops (concat o) (concat (pend ++ [p])) stops_nonempty Ho Hos Hsf Ec) as [H1 H2].
          split; [rewrite Hg, concat_snoc, <- app_assoc, app_nil_r; reflexivity|].
          split; [exact H1|]. split; [exact H2|].
          split.
          -- intros t Hin [a [b H]]. destruct a; [|discriminate]. cbn in H. destruct t; [exact (stops_nonempty _ Hin eq_refl)|discriminate].
          -- apply emit_valid; assumption.
      + intros _. change (Finished (finish RStop (mkSt pend o (S n) None g))).
        apply finish_ok; try assumption. left. cbn [gen]. split; [rewrite Hg; apply stopfree_app; assumption | symmetry; exact Hg].
  Qed.

  Lemma Inv_run_from ts : forall s, Inv s -> lossless_run s ts -> Inv (fold_left (step stops limit) ts s).
  Proof.
    induction ts as [|t ts IH]; intros s Hs Hl; cbn; [exact Hs|].
    destruct Hl as [H1 H2]. apply IH; [apply Inv_step; assumption | exact H2].
  Qed.

  Lemma Inv_run ts : lossless_run init ts -> Inv (run stops limit ts).
  Proof. apply Inv_run_from. apply Inv_init. Qed.

  Lemma Inv_settle s : Inv s -> Inv (settle limit s).
  Proof.
    unfold settle. destruct (fin s) eqn:Ef; [auto|]. destruct (at_limit limit s) eqn:El; [|auto].
    intros H. unfold Inv in H. rewrite Ef in H. destruct H as [Hg [Ho [Hos [Hp Hv]]]].
    destruct s as [pend o n f g]. cbn in Ef; subst f.
    change (Finished (finish RLength (mkSt pend o n None g))).
    unfold output in *; cbn in *. apply finish_ok; try assumption. left. cbn [gen]. split; [rewrite Hg; apply stopfree_app; assumption | symmetry; exact Hg].
  Qed.

  (** consequences in the vocabulary of the property *)
  Lemma Inv_prefix s : Inv s -> Prefix (output s) (gen s).
  Proof.
    unfold Inv. destruct (fin s).
    - apply Finished_prefix.
    - intros [Hg _]. rewrite Hg. apply Prefix_app_r.
  Qed.

  Lemma Inv_stop_free s : Inv s -> StopFree stops (output s).
  Proof.
    unfold Inv. destruct (fin s).
    - intros [_ [H _]]. exact H.
    - intros [_ [H _]]. exact H.
  Qed.

  Lemma Inv_pieces_valid s : Inv s -> Forall (fun p => utf8_valid p = true) (out s).
  Proof.
    unfold Inv. destruct (fin s).
    - intros [_ [_ [H _]]]. exact H.
    - intros [_ [_ [_ [_ H]]]]. exact H.
  Qed.

  (** "as soon as": a sequence that is still generating has produced no stop sequence yet *)
  Lemma Inv_running_no_stop s : Inv s -> fin s = None -> StopFree stops (gen s).
  Proof.
    unfold Inv. intros H Hf. rewrite Hf in H. destruct H as [Hg [Ho [Hos [Hp _]]]].
    rewrite Hg. apply stopfree_app; assumption.
  Qed.

  (** exactness: once finished, the output is the cut of the generated text (everything, or the part
      before the earliest stop) except for an invalid UTF-8 tail of its last piece *)
  Lemma Inv_finished_exact s : Inv s -> fin s <> None ->
    exists F body, Cut s (F ++ body) /\ output s = F ++ trim_valid body.
  Proof.
    unfold Inv. destruct (fin s); [|congruence]. intros [_ [_ [_ H]]] _. exact H.
  Qed.

  (** ... and is the cut itself when the cut is valid UTF-8 up to the last flush and after it *)
  Lemma Inv_finished_exact_valid s : Inv s -> fin s <> None ->
    (forall F body, Cut s (F ++ body) -> output s = F ++ trim_valid body -> utf8_valid body = true) ->
    exists c, Cut s c /\ output s = c.
  Proof.
    intros Hi Hf Hv. destruct (Inv_finished_exact s Hi Hf) as [F [body [Hc Ho]]].
    exists (F ++ body). split; [exact Hc|]. rewrite Ho. f_equal. apply trim_valid_id. eapply Hv; eassumption.
  Qed.

  (** how a sequence can finish *)
  Lemma step_finishes s t r :
    fin s = None -> fin (step stops limit s t) = Some r ->
    match r with
    | RLength => at_limit limit s = true
    | RStop => at_limit limit s = false /\
               (t = EOS \/ exists p stop, t = Piece p /\ find_stop (concat (pending s ++ [p])) stops = Some stop)
    end.
  Proof.
    unfold step. intros Hf. rewrite Hf. destruct (at_limit limit s) eqn:El.
    - cbn. intros [= <-]. reflexivity.
    - destruct t as [p|].
      + destruct (find_stop (concat (pending s ++ [p])) stops) as [stop|] eqn:Ef.
        * cbn. intros [= <-]. split; [reflexivity|]. right. exists p, stop. split; [reflexivity | exact Ef].
        * destruct (contains_stop_suffix _ _); [cbn; discriminate|].
          destruct (incomplete_unicode _); cbn; discriminate.
      + cbn. intros [= <-]. split; [reflexivity|]. left; reflexivity.
  Qed.

  Lemma step_fin_sticky s t r : fin s = Some r -> step stops limit s t = s.
  Proof. unfold step. intros ->. reflexivity. Qed.

  Lemma run_finish_point ts : forall s r,
    fin s = None -> fin (fold_left (step stops limit) ts s) = Some r ->
    exists ts1 t ts2, ts = ts1 ++ t :: ts2 /\
      fin (fold_left (step stops limit) ts1 s) = None /\
      fin (step stops limit (fold_left (step stops limit) ts1 s) t) = Some r.
  Proof.
    induction ts as [|t ts IH]; intros s r Hs Hr; cbn in Hr; [congruence|].
    destruct (fin (step stops limit s t)) as [r'|] eqn:E.
    - exists [], t, ts. cbn. split; [reflexivity|]. split; [exact Hs|].
      assert (Hst : forall l, fold_left (step stops limit) l (step stops limit s t) = step stops limit s t).
      { induction l as [|x l IHl]; cbn; [reflexivity|]. rewrite (step_fin_sticky _ x r' E). exact IHl. }
      rewrite Hst in Hr. congruence.
    - destruct (IH _ _ E Hr) as [ts1 [t' [ts2 [-> [H1 H2]]]]].
      exists (t :: ts1), t', ts2. cbn. auto.
  Qed.
End Run.
