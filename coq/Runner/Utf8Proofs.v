(** UTF-8 facts that discharge the side condition [lossless_run] of Runner/StopProofs.v from the
    hypothesis "the generated text is a prefix of valid UTF-8" (property C14). *)
From Coq Require Import List NArith Bool Arith Lia ZifyBool ZifyNat ZifyN.
From V Require Import Common.Bytes Runner.Stop Runner.StopProofs.
Import ListNotations.

(** ** the byte masks of IncompleteUnicode as ranges (finite sweep over 0..255) *)

Definition isK (c : N) : bool := N.eqb (N.land c 192) 128.
Definition isL2 (c : N) : bool := N.eqb (N.land c 224) 192.
Definition isL3 (c : N) : bool := N.eqb (N.land c 240) 224.
Definition isL4 (c : N) : bool := N.eqb (N.land c 248) 240.

Definition mask_row (c : N) : bool :=
  Bool.eqb (isK c) (in_rng 128 191 c) && Bool.eqb (isL2 c) (in_rng 192 223 c) &&
  Bool.eqb (isL3 c) (in_rng 224 239 c) && Bool.eqb (isL4 c) (in_rng 240 247 c).

Lemma mask_table : forallb mask_row (map N.of_nat (seq 0 256)) = true.
Proof. vm_compute. reflexivity. Qed.

Lemma mask_spec c : (c < 256)%N ->
  isK c = in_rng 128 191 c /\ isL2 c = in_rng 192 223 c /\
  isL3 c = in_rng 224 239 c /\ isL4 c = in_rng 240 247 c.
Proof.
  intros Hc.
  assert (Hin : In c (map N.of_nat (seq 0 256))).
  { rewrite <- (N2Nat.id c). apply in_map. apply in_seq. lia. }
  pose proof (proj1 (forallb_forall _ _) mask_table c Hin) as Hrow.
  unfold mask_row in Hrow.
  apply andb_prop in Hrow as [Hrow H4]. apply andb_prop in Hrow as [Hrow H3].
  apply andb_prop in Hrow as [H1 H2].
  apply eqb_prop in H1, H2, H3, H4. auto.
Qed.

(** ** one encoded character *)

Definition lead3 (b0 b1 : N) : bool :=
  (N.eqb b0 224 && in_rng 160 191 b1) ||
  ((in_rng 225 236 b0 || in_rng 238 239 b0) && cont b1) ||
  (N.eqb b0 237 && in_rng 128 159 b1).
Definition lead4 (b0 b1 : N) : bool :=
  (N.eqb b0 240 && in_rng 144 191 b1) ||
  (in_rng 241 243 b0 && cont b1) ||
  (N.eqb b0 244 && in_rng 128 143 b1).

Inductive is_char : str -> Prop :=
| ch1 b0 : N.ltb b0 128 = true -> is_char [b0]
| ch2 b0 b1 : in_rng 194 223 b0 = true -> cont b1 = true -> is_char [b0; b1]
| ch3 b0 b1 b2 : lead3 b0 b1 = true -> cont b2 = true -> is_char [b0; b1; b2]
| ch4 b0 b1 b2 b3 : lead4 b0 b1 = true -> cont b2 = true -> cont b3 = true -> is_char [b0; b1; b2; b3].

Lemma utf8_valid_cons b0 r0 :
  utf8_valid (b0 :: r0) =
  if N.ltb b0 128 then utf8_valid r0
  else match r0 with
  | [] => false
  | b1 :: r1 =>
      if in_rng 194 223 b0 then cont b1 && utf8_valid r1
      else match r1 with
      | [] => false
      | b2 :: r2 =>
          if N.eqb b0 224 then in_rng 160 191 b1 && cont b2 && utf8_valid r2
          else if in_rng 225 236 b0 || in_rng 238 239 b0 then cont b1 && cont b2 && utf8_valid r2
          else if N.eqb b0 237 then in_rng 128 159 b1 && cont b2 && utf8_valid r2
          else match r2 with
          | [] => false
          | b3 :: r3 =>
              if N.eqb b0 240 then in_rng 144 191 b1 && cont b2 && cont b3 && utf8_valid r3
              else if in_rng 241 243 b0 then cont b1 && cont b2 && cont b3 && utf8_valid r3
              else if N.eqb b0 244 then in_rng 128 143 b1 && cont b2 && cont b3 && utf8_valid r3
              else false
          end
      end
  end.
Proof. reflexivity. Qed.

Lemma is_char_app c r : is_char c -> utf8_valid (c ++ r) = utf8_valid r.
Proof.
  intros Hc. destruct Hc as [b0 H0 | b0 b1 H0 H1 | b0 b1 b2 H0 H2 | b0 b1 b2 b3 H0 H2 H3];
    cbn [app]; rewrite utf8_valid_cons.
  - rewrite H0. reflexivity.
  - unfold in_rng in H0. replace (N.ltb b0 128) with false by lia.
    unfold in_rng. replace (N.leb 194 b0 && N.leb b0 223) with true by lia.
    rewrite H1. reflexivity.
  - unfold lead3, in_rng, cont, in_rng in *.
    replace (N.ltb b0 128) with false by lia.
    replace (N.leb 194 b0 && N.leb b0 223) with false by lia.
    destruct (N.eqb b0 224) eqn:E224.
    { replace (N.leb 160 b1 && N.leb b1 191) with true by lia. rewrite H2. reflexivity. }
    destruct (N.leb 225 b0 && N.leb b0 236 || N.leb 238 b0 && N.leb b0 239) eqn:Emid.
    { replace (N.leb 128 b1 && N.leb b1 191) with true by lia. rewrite H2. reflexivity. }
    replace (N.eqb b0 237) with true by lia.
    replace (N.leb 128 b1 && N.leb b1 159) with true by lia. rewrite H2. reflexivity.
  - unfold lead4, in_rng, cont, in_rng in *.
    replace (N.ltb b0 128) with false by lia.
    replace (N.leb 194 b0 && N.leb b0 223) with false by lia.
    replace (N.eqb b0 224) with false by lia.
    replace (N.leb 225 b0 && N.leb b0 236 || N.leb 238 b0 && N.leb b0 239) with false by lia.
    replace (N.eqb b0 237) with false by lia.
    destruct (N.eqb b0 240) eqn:E240.
    { replace (N.leb 144 b1 && N.leb b1 191) with true by lia. rewrite H2, H3. reflexivity. }
    destruct (N.leb 241 b0 && N.leb b0 243) eqn:Emid.
    { replace (N.leb 128 b1 && N.leb b1 191) with true by lia. rewrite H2, H3. reflexivity. }
    replace (N.eqb b0 244) with true by lia.
    replace (N.leb 128 b1 && N.leb b1 143) with true by lia. rewrite H2, H3. reflexivity.
Qed.

(** a non-empty valid string starts with one encoded character followed by a valid string *)
Lemma utf8_valid_peel s : s <> [] -> utf8_valid s = true ->
  exists c r, s = c ++ r /\ is_char c /\ utf8_valid r = true.
Proof.
  intros Hne Hv. destruct s as [|b0 r0]; [congruence|]. clear Hne.
  rewrite utf8_valid_cons in Hv.
  destruct (N.ltb b0 128) eqn:E0.
  { exists [b0], r0. split; [reflexivity|]. split; [apply ch1; exact E0 | exact Hv]. }
  destruct r0 as [|b1 r1]; [discriminate|].
  destruct (in_rng 194 223 b0) eqn:E2.
  { apply andb_prop in Hv as [H1 Hr]. exists [b0; b1], r1. split; [reflexivity|].
    split; [apply ch2; assumption | exact Hr]. }
  destruct r1 as [|b2 r2]; [discriminate|].
  destruct (N.eqb b0 224) eqn:E224.
  { apply andb_prop in Hv as [Hv Hr]. apply andb_prop in Hv as [H1 H2].
    exists [b0; b1; b2], r2. split; [reflexivity|]. split; [|exact Hr].
    apply ch3; [|exact H2]. unfold lead3. rewrite E224, H1. reflexivity. }
  destruct (in_rng 225 236 b0 || in_rng 238 239 b0) eqn:Emid.
  { apply andb_prop in Hv as [Hv Hr]. apply andb_prop in Hv as [H1 H2].
    exists [b0; b1; b2], r2. split; [reflexivity|]. split; [|exact Hr].
    apply ch3; [|exact H2]. unfold lead3. rewrite E224, Emid, H1. reflexivity. }
  destruct (N.eqb b0 237) eqn:E237.
  { apply andb_prop in Hv as [Hv Hr]. apply andb_prop in Hv as [H1 H2].
    exists [b0; b1; b2], r2. split; [reflexivity|]. split; [|exact Hr].
    apply ch3; [|exact H2]. unfold lead3. rewrite E224, Emid, E237, H1. reflexivity. }
  destruct r2 as [|b3 r3]; [discriminate|].
  destruct (N.eqb b0 240) eqn:E240.
  { apply andb_prop in Hv as [Hv Hr]. apply andb_prop in Hv as [Hv H3]. apply andb_prop in Hv as [H1 H2].
    exists [b0; b1; b2; b3], r3. split; [reflexivity|]. split; [|exact Hr].
    apply ch4; [|exact H2|exact H3]. unfold lead4. rewrite E240, H1. reflexivity. }
  destruct (in_rng 241 243 b0) eqn:E41.
  { apply andb_prop in Hv as [Hv Hr]. apply andb_prop in Hv as [Hv H3]. apply andb_prop in Hv as [H1 H2].
    exists [b0; b1; b2; b3], r3. split; [reflexivity|]. split; [|exact Hr].
    apply ch4; [|exact H2|exact H3]. unfold lead4. rewrite E240, E41, H1. reflexivity. }
  destruct (N.eqb b0 244) eqn:E244; [|discriminate].
  apply andb_prop in Hv as [Hv Hr]. apply andb_prop in Hv as [Hv H3]. apply andb_prop in Hv as [H1 H2].
  exists [b0; b1; b2; b3], r3. split; [reflexivity|]. split; [|exact Hr].
  apply ch4; [|exact H2|exact H3]. unfold lead4. rewrite E240, E41, E244, H1. reflexivity.
Qed.

Lemma is_char_length c : is_char c -> 1 <= length c <= 4.
Proof. intros Hc. destruct Hc; cbn [length]; lia. Qed.

(** ** (1) a valid prefix can be dropped *)
Lemma utf8_valid_app_len n : forall a b, length a <= n ->
  utf8_valid a = true -> utf8_valid (a ++ b) = utf8_valid b.
Proof.
  induction n as [|n IH]; intros a b Hlen Hv.
  - destruct a; [reflexivity | cbn [length] in Hlen; lia].
  - destruct a as [|a0 a']; [reflexivity|].
    destruct (utf8_valid_peel (a0 :: a') ltac:(discriminate) Hv) as [c [r [Heq [Hc Hr]]]].
    rewrite Heq, <- app_assoc, (is_char_app _ _ Hc).
    apply IH; [|exact Hr].
    pose proof (is_char_length _ Hc) as Hcl.
    apply (f_equal (@length N)) in Heq. rewrite app_length in Heq. lia.
Qed.

Lemma utf8_valid_app a b : utf8_valid a = true -> utf8_valid (a ++ b) = utf8_valid b.
Proof. apply (utf8_valid_app_len (length a)). lia. Qed.

(** ** (2) concatenation of valid pieces *)
Lemma utf8_valid_concat l :
  Forall (fun p => utf8_valid p = true) l -> utf8_valid (concat l) = true.
Proof.
  intros Hl. induction Hl as [|p l Hp Hl IH]; [reflexivity|].
  cbn [concat]. rewrite (utf8_valid_app _ _ Hp). exact IH.
Qed.
