(** UTF-8 facts that discharge the side condition [lossless_run] of Runner/StopProofs.v from the
    hypothesis "the generated text is a prefix of valid UTF-8" (property C14). *)
From Coq Require Import List NArith Bool Arith Lia ZifyBool ZifyNat ZifyN.
From V Require Import Common.Bytes Runner.Stop Runner.StopProofs.
Import ListNotations.

(** ** the byte masks of IncompleteUnicode as ranges (finite sweep over 0..255) *)

Definition isK (c : N) : bool := N.eqb (N.land c 192) 128.
Definition isL2 (c : N) : bool := N.eqb (N.land c 224) 192.
Definition isL3 (c : N) : bool := N.eqb (N.land c 240) 224.
Definition isL4 (c : N) : bool := N.eqb (N.land c 248) 240.

Definition mask_row (c : N) : bool :=
  Bool.eqb (isK c) (in_rng 128 191 c) && Bool.eqb (isL2 c) (in_rng 192 223 c) &&
  Bool.eqb (isL3 c) (in_rng 224 239 c) && Bool.eqb (isL4 c) (in_rng 240 247 c).

Lemma mask_table : forallb mask_row (map N.of_nat (seq 0 256)) = true.
Proof. vm_compute. reflexivity. Qed.

Lemma mask_spec c : (c < 256)%N ->
  isK c = in_rng 128 191 c /\ isL2 c = in_rng 192 223 c /\
  isL3 c = in_rng 224 239 c /\ isL4 c = in_rng 240 247 c.
Proof.
  intros Hc.
  assert (Hin : In c (map N.of_nat (seq 0 256))).
  { rewrite <- (N2Nat.id c). apply in_map. apply in_seq. lia. }
  pose proof (proj1 (forallb_forall _ _) mask_table c Hin) as Hrow.
  unfold mask_row in Hrow.
  apply andb_prop in Hrow as [Hrow H4]. apply andb_prop in Hrow as [Hrow H3].
  apply andb_prop in Hrow as [H1 H2].
  apply eqb_prop in H1, H2, H3, H4. auto.
Qed.

(** ** one encoded character *)

Definition lead3 (b0 b1 : N) : bool :=
  (N.eqb b0 224 && in_rng 160 191 b1) ||
  ((in_rng 225 236 b0 || in_rng 238 239 b0) && cont b1) ||
  (N.eqb b0 237 && in_rng 128 159 b1).
Definition lead4 (b0 b1 : N) : bool :=
  (N.eqb b0 240 && in_rng 144 191 b1) ||
  (in_rng 241 243 b0 && cont b1) ||
  (N.eqb b0 244 && in_rng 128 143 b1).

Inductive is_char : str -> Prop :=
| ch1 b0 : N.ltb b0 128 = true -> is_char [b0]
| ch2 b0 b1 : in_rng 194 223 b0 = true -> cont b1 = true -> is_char [b0; b1]
| ch3 b0 b1 b2 : lead3 b0 b1 = true -> cont b2 = true -> is_char [b0; b1; b2]
| ch4 b0 b1 b2 b3 : lead4 b0 b1 = true -> cont b2 = true -> cont b3 = true -> is_char [b0; b1; b2; b3].

Lemma utf8_valid_cons b0 r0 :
  utf8_valid (b0 :: r0) =
  if N.ltb b0 128 then utf8_valid r0
  else match r0 with
  | [] => false
  | b1 :: r1 =>
      if in_rng 194 223 b0 then cont b1 && utf8_valid r1
      else match r1 with
      | [] => false
      | b2 :: r2 =>
          if N.eqb b0 224 then in_rng 160 191 b1 && cont b2 && utf8_valid r2
          else if in_rng 225 236 b0 || in_rng 238 239 b0 then cont b1 && cont b2 && utf8_valid r2
          else if N.eqb b0 237 then in_rng 128 159 b1 && cont b2 && utf8_valid r2
          else match r2 with
          | [] => false
          | b3 :: r3 =>
              if N.eqb b0 240 then in_rng 144 191 b1 && cont b2 && cont b3 && utf8_valid r3
              else if in_rng 241 243 b0 then cont b1 && cont b2 && cont b3 && utf8_valid r3
              else if N.eqb b0 244 then in_rng 128 143 b1 && cont b2 && cont b3 && utf8_valid r3
              else false
          end
      end
  end.
Proof. reflexivity. Qed.

Lemma is_char_app c r : is_char c -> utf8_valid (c ++ r) = utf8_valid r.
Proof.
  intros Hc. destruct Hc as [b0 H0 | b0 b1 H0 H1 | b0 b1 b2 H0 H2 | b0 b1 b2 b3 H0 H2 H3];
    cbn [app]; rewrite utf8_valid_cons.
  - rewrite H0. reflexivity.
  - unfold in_rng in H0. replace (N.ltb b0 128) with false by lia.
    unfold in_rng. replace (N.leb 194 b0 && N.leb b0 223) with true by lia.
    rewrite H1. reflexivity.
  - unfold lead3, in_rng, cont, in_rng in *.
    replace (N.ltb b0 128) with false by lia.
    replace (N.leb 194 b0 && N.leb b0 223) with false by lia.
    destruct (N.eqb b0 224) eqn:E224.
    { replace (N.leb 160 b1 && N.leb b1 191) with true by lia. rewrite H2. reflexivity. }
    destruct (N.leb 225 b0 && N.leb b0 236 || N.leb 238 b0 && N.leb b0 239) eqn:Emid.
    { replace (N.leb 128 b1 && N.leb b1 191) with true by lia. rewrite H2. reflexivity. }
    replace (N.eqb b0 237) with true by lia.
    replace (N.leb 128 b1 && N.leb b1 159) with true by lia. rewrite H2. reflexivity.
  - unfold lead4, in_rng, cont, in_rng in *.
    replace (N.ltb b0 128) with false by lia.
    replace (N.leb 194 b0 && N.leb b0 223) with false by lia.
    replace (N.eqb b0 224) with false by lia.
    replace (N.leb 225 b0 && N.leb b0 236 || N.leb 238 b0 && N.leb b0 239) with false by lia.
    replace (N.eqb b0 237) with false by lia.
    destruct (N.eqb b0 240) eqn:E240.
    { replace (N.leb 144 b1 && N.leb b1 191) with true by lia. rewrite H2, H3. reflexivity. }
    destruct (N.leb 241 b0 && N.leb b0 243) eqn:Emid.
    { replace (N.leb 128 b1 && N.leb b1 191) with true by lia. rewrite H2, H3. reflexivity. }
    replace (N.eqb b0 244) with true by lia.
    replace (N.leb 128 b1 && N.leb b1 143) with true by lia. rewrite H2, H3. reflexivity.
Qed.

(** a non-empty valid string starts with one encoded character followed by a valid string *)
Lemma utf8_valid_peel s : s <> [] -> utf8_valid s = true ->
  exists c r, s = c ++ r /\ is_char c /\ utf8_valid r = true.
Proof.
  intros Hne Hv. destruct s as [|b0 r0]; [congruence|]. clear Hne.
  rewrite utf8_valid_cons in Hv.
  destruct (N.ltb b0 128) eqn:E0.
  { exists [b0], r0. split; [reflexivity|]. split; [apply ch1; exact E0 | exact Hv]. }
  destruct r0 as [|b1 r1]; [discriminate|].
  destruct (in_rng 194 223 b0) eqn:E2.
  { apply andb_prop in Hv as [H1 Hr]. exists [b0; b1], r1. split; [reflexivity|].
    split; [apply ch2; assumption | exact Hr]. }
  destruct r1 as [|b2 r2]; [discriminate|].
  destruct (N.eqb b0 224) eqn:E224.
  { apply andb_prop in Hv as [Hv Hr]. apply andb_prop in Hv as [H1 H2].
    exists [b0; b1; b2], r2. split; [reflexivity|]. split; [|exact Hr].
    apply ch3; [|exact H2]. unfold lead3. rewrite E224, H1. reflexivity. }
  destruct (in_rng 225 236 b0 || in_rng 238 239 b0) eqn:Emid.
  { apply andb_prop in Hv as [Hv Hr]. apply andb_prop in Hv as [H1 H2].
    exists [b0; b1; b2], r2. split; [reflexivity|]. split; [|exact Hr].
    apply ch3; [|exact H2]. unfold lead3. rewrite E224, Emid, H1. reflexivity. }
  destruct (N.eqb b0 237) eqn:E237.
  { apply andb_prop in Hv as [Hv Hr]. apply andb_prop in Hv as [H1 H2].
    exists [b0; b1; b2], r2. split; [reflexivity|]. split; [|exact Hr].
    apply ch3; [|exact H2]. unfold lead3. rewrite E224, Emid, E237, H1. reflexivity. }
  destruct r2 as [|b3 r3]; [discriminate|].
  destruct (N.eqb b0 240) eqn:E240.
  { apply andb_prop in Hv as [Hv Hr]. apply andb_prop in Hv as [Hv H3]. apply andb_prop in Hv as [H1 H2].
    exists [b0; b1; b2; b3], r3. split; [reflexivity|]. split; [|exact Hr].
    apply ch4; [|exact H2|exact H3]. unfold lead4. rewrite E240, H1. reflexivity. }
  destruct (in_rng 241 243 b0) eqn:E41.
  { apply andb_prop in Hv as [Hv Hr]. apply andb_prop in Hv as [Hv H3]. apply andb_prop in Hv as [H1 H2].
    exists [b0; b1; b2; b3], r3. split; [reflexivity|]. split; [|exact Hr].
    apply ch4; [|exact H2|exact H3]. unfold lead4. rewrite E240, E41, H1. reflexivity. }
  destruct (N.eqb b0 244) eqn:E244; [|discriminate].
  apply andb_prop in Hv as [Hv Hr]. apply andb_prop in Hv as [Hv H3]. apply andb_prop in Hv as [H1 H2].
  exists [b0; b1; b2; b3], r3. split; [reflexivity|]. split; [|exact Hr].
  apply ch4; [|exact H2|exact H3]. unfold lead4. rewrite E240, E41, E244, H1. reflexivity.
Qed.

Lemma is_char_length c : is_char c -> 1 <= length c <= 4.
Proof. intros Hc. destruct Hc; cbn [length]; lia. Qed.

(** ** (1) a valid prefix can be dropped *)
Lemma utf8_valid_app_len n : forall a b, length a <= n ->
  utf8_valid a = true -> utf8_valid (a ++ b) = utf8_valid b.
Proof.
  induction n as [|n IH]; intros a b Hlen Hv.
  - destruct a; [reflexivity | cbn [length] in Hlen; lia].
  - destruct a as [|a0 a']; [reflexivity|].
    destruct (utf8_valid_peel (a0 :: a') ltac:(discriminate) Hv) as [c [r [Heq [Hc Hr]]]].
    rewrite Heq, <- app_assoc, (is_char_app _ _ Hc).
    apply IH; [|exact Hr].
    pose proof (is_char_length _ Hc) as Hcl.
    apply (f_equal (@length N)) in Heq. rewrite app_length in Heq. lia.
Qed.

Lemma utf8_valid_app a b : utf8_valid a = true -> utf8_valid (a ++ b) = utf8_valid b.
Proof. apply (utf8_valid_app_len (length a)). lia. Qed.

(** ** (2) concatenation of valid pieces *)
Lemma utf8_valid_concat l :
  Forall (fun p => utf8_valid p = true) l -> utf8_valid (concat l) = true.
Proof.
  intros Hl. induction Hl as [|p l Hp Hl IH]; [reflexivity|].
  cbn [concat]. rewrite (utf8_valid_app _ _ Hp). exact IH.
Qed.

(** ** IncompleteUnicode without the fuel: the scan never needs more than four bytes *)
Fixpoint inc (rv : str) (i : nat) : bool :=
  match rv with
  | [] => false
  | c :: r =>
      if isK c then inc r (S i)
      else if isL2 c then i <? 2
      else if isL3 c then i <? 3
      else if isL4 c then i <? 4
      else false
  end.

Lemma inc_high rv : forall i, 4 <= i -> inc rv i = false.
Proof.
  induction rv as [|c r IH]; intros i Hi; cbn [inc]; [reflexivity|].
  destruct (isK c); [apply IH; lia|].
  destruct (isL2 c); [lia|]. destruct (isL3 c); [lia|]. destruct (isL4 c); [lia|reflexivity].
Qed.

Lemma incomplete_aux_inc fuel : forall rv i, 5 <= i + fuel -> incomplete_aux rv i fuel = inc rv i.
Proof.
  induction fuel as [|f IH]; intros rv i Hi.
  - rewrite inc_high by lia. destruct rv; reflexivity.
  - destruct rv as [|c r]; [reflexivity|]. cbn [incomplete_aux inc]. unfold isK, isL2, isL3, isL4.
    destruct (N.eqb (N.land c 192) 128); [apply IH; lia | reflexivity].
Qed.

Lemma incomplete_unicode_inc s : incomplete_unicode s = inc (rev s) 1.
Proof. unfold incomplete_unicode. apply incomplete_aux_inc. lia. Qed.

(** the scan stops at the first non-continuation byte *)
Lemma inc_app l m : forall i, existsb (fun c => negb (isK c)) l = true -> inc (l ++ m) i = inc l i.
Proof.
  induction l as [|c l IH]; intros i He; cbn [existsb] in He; [discriminate|].
  cbn [app inc]. destruct (isK c) eqn:Ek; [|reflexivity].
  cbn [negb orb] in He. apply IH. exact He.
Qed.

(** byte classes of the bytes of one encoded character *)
Lemma cont_isK b : cont b = true -> isK b = true.
Proof.
  unfold cont, in_rng. intros Hb.
  destruct (mask_spec b ltac:(lia)) as [HK _]. rewrite HK. unfold in_rng. lia.
Qed.

Lemma ascii_class b : N.ltb b 128 = true -> isK b = false.
Proof.
  intros Hb. destruct (mask_spec b ltac:(lia)) as [HK _]. rewrite HK. unfold in_rng. lia.
Qed.

Lemma lead2_class b0 : in_rng 194 223 b0 = true -> isK b0 = false /\ isL2 b0 = true.
Proof.
  unfold in_rng. intros Hb.
  destruct (mask_spec b0 ltac:(lia)) as [HK [H2 _]]. rewrite HK, H2. unfold in_rng. lia.
Qed.

Lemma lead3_range b0 b1 : lead3 b0 b1 = true -> (224 <= b0 <= 239)%N /\ (128 <= b1 <= 191)%N.
Proof.
  unfold lead3, cont, in_rng. intros Hb.
  apply orb_prop in Hb as [Hb|Hb]; [apply orb_prop in Hb as [Hb|Hb]|];
    apply andb_prop in Hb as [Hb0 Hb1]; lia.
Qed.

Lemma lead4_range b0 b1 : lead4 b0 b1 = true -> (240 <= b0 <= 244)%N /\ (128 <= b1 <= 191)%N.
Proof.
  unfold lead4, cont, in_rng. intros Hb.
  apply orb_prop in Hb as [Hb|Hb]; [apply orb_prop in Hb as [Hb|Hb]|];
    apply andb_prop in Hb as [Hb0 Hb1]; lia.
Qed.

Lemma lead3_class b0 b1 : lead3 b0 b1 = true ->
  isK b0 = false /\ isL2 b0 = false /\ isL3 b0 = true /\ isK b1 = true.
Proof.
  intros Hb. apply lead3_range in Hb as [Hb0 Hb1].
  destruct (mask_spec b0 ltac:(lia)) as [HK [H2 [H3 _]]].
  destruct (mask_spec b1 ltac:(lia)) as [HK1 _].
  rewrite HK, H2, H3, HK1. unfold in_rng. lia.
Qed.

Lemma lead4_class b0 b1 : lead4 b0 b1 = true ->
  isK b0 = false /\ isL2 b0 = false /\ isL3 b0 = false /\ isL4 b0 = true /\ isK b1 = true.
Proof.
  intros Hb. apply lead4_range in Hb as [Hb0 Hb1].
  destruct (mask_spec b0 ltac:(lia)) as [HK [H2 [H3 H4]]].
  destruct (mask_spec b1 ltac:(lia)) as [HK1 _].
  rewrite HK, H2, H3, H4, HK1. unfold in_rng. lia.
Qed.

(** the first byte of a valid string is not a continuation byte *)
Lemma valid_head_notK a0 s : utf8_valid (a0 :: s) = true -> isK a0 = false.
Proof.
  intros Hv.
  destruct (utf8_valid_peel (a0 :: s) ltac:(discriminate) Hv) as [c [r [Heq [Hc _]]]].
  destruct Hc as [b0 H0 | b0 b1 H0 H1 | b0 b1 b2 H0 H2 | b0 b1 b2 b3 H0 H2 H3];
    cbn [app] in Heq; injection Heq as -> _.
  - apply ascii_class. exact H0.
  - apply lead2_class. exact H0.
  - apply (lead3_class _ _ H0).
  - apply (lead4_class _ _ H0).
Qed.

(** a non-empty proper prefix of one encoded character is reported as incomplete *)
Lemma is_char_proper_prefix a l :
  is_char (a ++ l) -> a <> [] -> l <> [] -> incomplete_unicode a = true.
Proof.
  intros Hc Ha Hl. rewrite incomplete_unicode_inc.
  remember (a ++ l) as c eqn:Ec.
  destruct Hc as [b0 H0 | b0 b1 H0 H1 | b0 b1 b2 H0 H2 | b0 b1 b2 b3 H0 H2 H3].
  - destruct a as [|a0 [|a1 a]]; [congruence| |]; cbn [app] in Ec; [|discriminate].
    injection Ec as _ El. congruence.
  - destruct (lead2_class _ H0) as [HK HL2].
    destruct a as [|a0 [|a1 [|a2 a]]]; [congruence| | |]; cbn [app] in Ec.
    + injection Ec as -> _. cbn [rev app inc]. rewrite HK, HL2. reflexivity.
    + injection Ec as _ _ El. congruence.
    + discriminate.
  - destruct (lead3_class _ _ H0) as [HK [HL2 [HL3 HK1]]].
    destruct a as [|a0 [|a1 [|a2 [|a3 a]]]]; [congruence| | | |]; cbn [app] in Ec.
    + injection Ec as -> _. cbn [rev app inc]. rewrite HK, HL2, HL3. reflexivity.
    + injection Ec as -> -> _. cbn [rev app inc]. rewrite HK1, HK, HL2, HL3. reflexivity.
    + injection Ec as _ _ _ El. congruence.
    + discriminate.
  - destruct (lead4_class _ _ H0) as [HK [HL2 [HL3 [HL4 HK1]]]].
    pose proof (cont_isK _ H2) as HK2.
    destruct a as [|a0 [|a1 [|a2 [|a3 [|a4 a]]]]]; [congruence| | | | |]; cbn [app] in Ec.
    + injection Ec as -> _. cbn [rev app inc]. rewrite HK, HL2, HL3, HL4. reflexivity.
    + injection Ec as -> -> _. cbn [rev app inc]. rewrite HK1, HK, HL2, HL3, HL4. reflexivity.
    + injection Ec as -> -> -> _. cbn [rev app inc]. rewrite HK2, HK1, HK, HL2, HL3, HL4. reflexivity.
    + injection Ec as _ _ _ _ El. congruence.
    + discriminate.
Qed.

(** ** (3) a prefix of valid text that does not end inside a character is valid *)
Lemma utf8_complete_prefix_len n : forall a b, length a <= n ->
  utf8_valid (a ++ b) = true -> incomplete_unicode a = false -> utf8_valid a = true.
Proof.
  induction n as [|n IH]; intros a b Hlen Hv Hi.
  - destruct a; [reflexivity | cbn [length] in Hlen; lia].
  - destruct a as [|a0 a']; [reflexivity|].
    destruct (utf8_valid_peel ((a0 :: a') ++ b) ltac:(discriminate) Hv) as [c [r [Heq [Hc Hr]]]].
    pose proof (is_char_length _ Hc) as Hcl.
    apply app_eq_app in Heq as [l [[Ha Hr']|[Hc' Hb]]].
    + rewrite Ha, (is_char_app _ _ Hc).
      destruct l as [|l0 l']; [reflexivity|].
      apply (IH _ b).
      * apply (f_equal (@length N)) in Ha. rewrite app_length in Ha. cbn [length] in *. lia.
      * rewrite <- Hr'. exact Hr.
      * rewrite Ha, incomplete_unicode_inc, rev_app_distr, inc_app in Hi.
        -- rewrite incomplete_unicode_inc. exact Hi.
        -- apply existsb_exists. exists l0. split; [apply -> in_rev; left; reflexivity|].
           rewrite Hr' in Hr. cbn [app] in Hr. rewrite (valid_head_notK _ _ Hr). reflexivity.
    + destruct l as [|l0 l'].
      * rewrite app_nil_r in Hc'. rewrite <- Hc', <- (app_nil_r c), (is_char_app _ _ Hc). reflexivity.
      * rewrite Hc' in Hc. rewrite (is_char_proper_prefix _ _ Hc) in Hi; discriminate.
Qed.

Lemma utf8_complete_prefix a b :
  utf8_valid (a ++ b) = true -> incomplete_unicode a = false -> utf8_valid a = true.
Proof. apply (utf8_complete_prefix_len (length a)). lia. Qed.


(** ** (4) the side condition [lossless_run] holds whenever the generated text is (a prefix of) valid UTF-8 *)
Section ValidText.
  Variable stops : list str.
  Variable limit : nat.
  Hypothesis stops_nonempty : forall t, In t stops -> t <> [].

  Lemma lossless_run_fin ts : forall s r, fin s = Some r -> lossless_run stops limit s ts.
  Proof.
    induction ts as [|t ts IH]; intros s r Hf; cbn [lossless_run]; [exact I|].
    split.
    - unfold lossless_step. rewrite Hf. exact I.
    - rewrite (step_fin_sticky stops limit s t r Hf). exact (IH s r Hf).
  Qed.

  (** a step after which the sequence is still generating consumed a piece and appended it to the generated text *)
  Lemma step_running_gen s t :
    fin (step stops limit s t) = None ->
    exists p, t = Piece p /\ fin s = None /\ gen (step stops limit s t) = gen s ++ p.
  Proof.
    unfold step. destruct (fin s) as [r|] eqn:Ef; [intros H; congruence|].
    destruct (at_limit limit s); [cbn; discriminate|].
    destruct t as [p|]; [|cbn; discriminate].
    destruct (find_stop (concat (pending s ++ [p])) stops); [cbn; discriminate|].
    intros _. exists p. split; [reflexivity|]. split; [reflexivity|].
    destruct (contains_stop_suffix _ _); [reflexivity|].
    destruct (incomplete_unicode _); reflexivity.
  Qed.

  Lemma valid_text_lossless_step s t ts rest :
    Inv stops s ->
    (fin s = None -> utf8_valid (gen s ++ gen_text (t :: ts) ++ rest) = true) ->
    lossless_step stops limit s t.
  Proof.
    intros Hi Hv. unfold lossless_step. destruct (fin s) as [r|] eqn:Ef; [exact I|].
    destruct (at_limit limit s); [exact I|].
    destruct t as [p|]; [|exact I].
    destruct (find_stop (concat (pending s ++ [p])) stops); [exact I|].
    destruct (contains_stop_suffix _ _); [exact I|].
    destruct (incomplete_unicode (concat (pending s ++ [p]))) eqn:Hinc; [exact I|].
    specialize (Hv eq_refl). unfold Inv in Hi. rewrite Ef in Hi.
    destruct Hi as [Hg [_ [_ [_ Hval]]]].
    cbn [gen_text] in Hv. rewrite Hg in Hv. unfold output in Hv.
    rewrite <- !app_assoc in Hv.
    rewrite (utf8_valid_app _ _ (utf8_valid_concat _ Hval)) in Hv.
    rewrite concat_snoc.
    apply (utf8_complete_prefix _ (gen_text ts ++ rest)).
    - rewrite <- app_assoc. exact Hv.
    - rewrite <- concat_snoc. exact Hinc.
  Qed.

  Lemma valid_text_lossless_from ts : forall s rest,
    Inv stops s ->
    (fin s = None -> utf8_valid (gen s ++ gen_text ts ++ rest) = true) ->
    lossless_run stops limit s ts.
  Proof.
    induction ts as [|t ts IH]; intros s rest Hi Hv; cbn [lossless_run]; [exact I|].
    pose proof (valid_text_lossless_step s t ts rest Hi Hv) as Hstep.
    split; [exact Hstep|].
    apply (IH _ rest).
    - apply Inv_step; assumption.
    - intros Hrun. destruct (step_running_gen s t Hrun) as [p [-> [Hf Hgen]]].
      rewrite Hgen. specialize (Hv Hf). cbn [gen_text] in Hv.
      rewrite <- !app_assoc in *. exact Hv.
  Qed.

  (** the generated text is a prefix of valid UTF-8 (in particular: is valid UTF-8) => no flush ever drops a byte *)
  Theorem valid_text_lossless ts rest :
    utf8_valid (gen_text ts ++ rest) = true -> lossless_run stops limit init ts.
  Proof.
    intros Hv. apply (valid_text_lossless_from ts init rest).
    - apply Inv_init. exact stops_nonempty.
    - intros _. cbn [gen init app]. exact Hv.
  Qed.
End ValidText.


(** ** (5) the ghost [gen] really is the text of the scripted pieces consumed so far *)
Section Script.
  Variable stops : list str.
  Variable limit : nat.

  Lemma step_gen s t :
    gen (step stops limit s t) = gen s \/ exists p, t = Piece p /\ gen (step stops limit s t) = gen s ++ p.
  Proof.
    unfold step. destruct (fin s); [left; reflexivity|].
    destruct (at_limit limit s); [left; reflexivity|].
    destruct t as [p|]; [|left; reflexivity].
    right. exists p. split; [reflexivity|].
    destruct (find_stop _ _); [reflexivity|].
    destruct (contains_stop_suffix _ _); [reflexivity|].
    destruct (incomplete_unicode _); reflexivity.
  Qed.

  Lemma fold_fin_sticky ts : forall s r, fin s = Some r -> fold_left (step stops limit) ts s = s.
  Proof.
    induction ts as [|t ts IH]; intros s r Hf; cbn; [reflexivity|].
    rewrite (step_fin_sticky stops limit s t r Hf). exact (IH s r Hf).
  Qed.

  Lemma gen_script_prefix_from ts : forall s,
    Prefix (gen (fold_left (step stops limit) ts s)) (gen s ++ gen_text ts).
  Proof.
    induction ts as [|t ts IH]; intros s; cbn [fold_left].
    - apply Prefix_app_r.
    - destruct (fin (step stops limit s t)) as [r|] eqn:Ef.
      + rewrite (fold_fin_sticky ts _ r Ef).
        destruct (step_gen s t) as [-> | [p [-> ->]]].
        * apply Prefix_app_r.
        * cbn [gen_text]. rewrite app_assoc. apply Prefix_app_r.
      + destruct (step_running_gen stops limit s t Ef) as [p [-> [_ Hg]]].
        specialize (IH (step stops limit s (Piece p))). rewrite Hg in IH.
        cbn [gen_text]. rewrite app_assoc. exact IH.
  Qed.

  Lemma settle_gen s : gen (settle limit s) = gen s.
  Proof. unfold settle. destruct (fin s); [reflexivity|]. destruct (at_limit limit s); reflexivity. Qed.

  Theorem gen_script_prefix ts : Prefix (gen (settle limit (run stops limit ts))) (gen_text ts).
  Proof. rewrite settle_gen. exact (gen_script_prefix_from ts init). Qed.
End Script.


(** ** (6) valid text: every streamed piece is whole UTF-8 and stop-free *)
Lemma pieces_whole_and_stop_free stops limit :
  (forall t, In t stops -> t <> []) -> forall ts rest,
  utf8_valid (gen_text ts ++ rest) = true ->
  Forall (fun p => utf8_valid p = true /\ forall t, In t stops -> ~ Infix t p)
         (out (settle limit (run stops limit ts))).
Proof.
  intros H1 ts rest H2.
  pose proof (valid_text_lossless stops limit H1 ts rest H2) as Hl.
  pose proof (Inv_settle stops limit _ (Inv_run stops limit H1 ts Hl)) as Hi.
  pose proof (Inv_pieces_valid stops _ Hi) as Hv.
  pose proof (Inv_stop_free stops _ Hi) as Hs.
  apply Forall_forall. intros p Hp. split; [exact (proj1 (Forall_forall _ _) Hv p Hp)|].
  intros t Ht Hinf. apply (Hs t Ht). unfold output.
  apply in_split in Hp. destruct Hp as [l1 [l2 ->]]. rewrite concat_app. cbn [concat].
  apply Infix_app_l, Infix_app_r. exact Hinf.
Qed.

(** ** (7) the limit is respected, and EOS or the limit always end a sequence *)
Section Ends.
  Variable stops : list str.
  Variable limit : nat.

  Lemma step_npred_le s t : 0 < limit -> npred s <= limit -> npred (step stops limit s t) <= limit.
  Proof.
    intros Hl Hn. unfold step. destruct (fin s); [exact Hn|].
    destruct (at_limit limit s) eqn:Ea; [exact Hn|].
    assert (Hlt : S (npred s) <= limit).
    { unfold at_limit in Ea. apply andb_false_iff in Ea. destruct Ea as [Ea|Ea].
      - apply Nat.ltb_ge in Ea. lia.
      - apply Nat.leb_gt in Ea. lia. }
    destruct t as [p|]; [|exact Hlt].
    destruct (find_stop _ _); [exact Hlt|].
    destruct (contains_stop_suffix _ _); [exact Hlt|].
    destruct (incomplete_unicode _); exact Hlt.
  Qed.

  Lemma fold_npred_le ts : forall s, 0 < limit -> npred s <= limit ->
    npred (fold_left (step stops limit) ts s) <= limit.
  Proof.
    induction ts as [|t ts IH]; intros s Hl Hn; cbn [fold_left]; [exact Hn|].
    apply IH; [exact Hl | apply step_npred_le; assumption].
  Qed.

  Lemma settle_npred s : npred (settle limit s) = npred s.
  Proof. unfold settle. destruct (fin s); [reflexivity|]. destruct (at_limit limit s); reflexivity. Qed.

  Theorem limit_respected ts : 0 < limit -> npred (settle limit (run stops limit ts)) <= limit.
  Proof. intros Hl. rewrite settle_npred. apply fold_npred_le; [exact Hl | cbn; lia]. Qed.

  Lemma step_running_npred s t :
    fin (step stops limit s t) = None ->
    t <> EOS /\ fin s = None /\ npred (step stops limit s t) = S (npred s).
  Proof.
    unfold step. destruct (fin s) as [r|] eqn:Ef; [intros H; congruence|].
    destruct (at_limit limit s); [cbn; discriminate|].
    destruct t as [p|]; [|cbn; discriminate].
    destruct (find_stop (concat (pending s ++ [p])) stops); [cbn; discriminate|].
    intros _. split; [discriminate|]. split; [reflexivity|].
    destruct (contains_stop_suffix _ _); [reflexivity|].
    destruct (incomplete_unicode _); reflexivity.
  Qed.

  Lemma fold_running ts : forall s,
    fin (fold_left (step stops limit) ts s) = None ->
    ~ In EOS ts /\ npred (fold_left (step stops limit) ts s) = npred s + length ts.
  Proof.
    induction ts as [|t ts IH]; intros s Hf; cbn [fold_left] in *.
    - split; [intros []|]. cbn. lia.
    - destruct (IH _ Hf) as [Hno Hn].
      assert (Hs : fin (step stops limit s t) = None).
      { destruct (fin (step stops limit s t)) as [r|] eqn:E; [|reflexivity].
        rewrite (fold_fin_sticky stops limit ts _ r E) in Hf. congruence. }
      destruct (step_running_npred s t Hs) as [Ht [_ Hn1]].
      split.
      + intros [H|H]; [congruence | exact (Hno H)].
      + rewrite Hn, Hn1. cbn [length]. lia.
  Qed.

  (** "otherwise it ends at the end-of-sequence token or the prediction limit" *)
  Theorem always_ends ts :
    In EOS ts \/ (0 < limit /\ limit <= length ts) -> fin (settle limit (run stops limit ts)) <> None.
  Proof.
    intros H Hf.
    assert (Hr : fin (run stops limit ts) = None).
    { destruct (fin (run stops limit ts)) as [r|] eqn:E; [|reflexivity].
      exfalso. unfold settle in Hf. rewrite E in Hf. rewrite E in Hf. discriminate Hf. }
    destruct (fold_running ts init Hr) as [Hno Hn]. fold (run stops limit ts) in Hn. cbn [npred init] in Hn.
    destruct H as [H | [Hl Hle]]; [exact (Hno H)|].
    unfold settle in Hf. rewrite Hr in Hf.
    assert (Ha : at_limit limit (run stops limit ts) = true).
    { unfold at_limit. apply andb_true_iff. split; [apply Nat.ltb_lt; exact Hl | apply Nat.leb_le; lia]. }
    rewrite Ha in Hf. cbn in Hf. discriminate Hf.
  Qed.
End Ends.
