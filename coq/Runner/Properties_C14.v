(** Property C14 - streamed text stops before stop sequences and is always whole UTF-8.
    Theorems only; every proof is a reference to StopProofs.v / Utf8Proofs.v. *)
From Coq Require Import List NArith Bool.
From V Require Import Common.Bytes Runner.Stop Runner.StopProofs Runner.Utf8Proofs.
Import ListNotations.

(** every state reachable by feeding any token list, then one more batch boundary *)
Definition final (stops : list str) (limit : nat) (ts : list tok) : st := settle limit (run stops limit ts).

(** the concatenation of what was streamed is a prefix of the generated text - for every token list, stop
    set and limit *)
Theorem C14_prefix : forall stops limit ts,
  (forall t, In t stops -> t <> []) -> lossless_run stops limit init ts ->
  Prefix (output (final stops limit ts)) (gen (final stops limit ts)).
Proof. intros. apply (Inv_prefix stops), Inv_settle, Inv_run; assumption. Qed.
Print Assumptions C14_prefix.

(** the streamed text never contains a stop sequence, at any moment and in particular at the end *)
Theorem C14_stop_free : forall stops limit ts,
  (forall t, In t stops -> t <> []) -> lossless_run stops limit init ts ->
  forall t, In t stops -> ~ Infix t (output (final stops limit ts)).
Proof. intros stops limit ts H1 H2. apply (Inv_stop_free stops), Inv_settle, Inv_run; assumption. Qed.
Print Assumptions C14_stop_free.

(** "as soon as": while a sequence is still generating, the generated text contains no stop sequence *)
Theorem C14_ends_at_first_stop : forall stops limit ts,
  (forall t, In t stops -> t <> []) -> lossless_run stops limit init ts ->
  fin (run stops limit ts) = None ->
  forall t, In t stops -> ~ Infix t (gen (run stops limit ts)).
Proof. intros stops limit ts H1 H2 H3. apply (Inv_running_no_stop stops); [apply Inv_run|]; assumption. Qed.
Print Assumptions C14_ends_at_first_stop.

(** every streamed piece is valid UTF-8 (whatever bytes the model generated) *)
Theorem C14_pieces_valid : forall stops limit ts,
  (forall t, In t stops -> t <> []) -> lossless_run stops limit init ts ->
  Forall (fun p => utf8_valid p = true) (out (final stops limit ts)).
Proof. intros. apply (Inv_pieces_valid stops), Inv_settle, Inv_run; assumption. Qed.
Print Assumptions C14_pieces_valid.

(** exactness: a finished sequence streamed the whole generated text (EOS / limit, no stop in it) or exactly
    the text before the EARLIEST occurrence of any stop, except for an invalid UTF-8 tail of the part that was
    still pending when it finished ([trim_valid body = body] when [body] is valid UTF-8) *)
Theorem C14_finished_exact : forall stops limit ts,
  (forall t, In t stops -> t <> []) -> lossless_run stops limit init ts ->
  fin (final stops limit ts) <> None ->
  exists F body,
    ((StopFree stops (gen (final stops limit ts)) /\ F ++ body = gen (final stops limit ts)) \/
     (exists k, EarliestStop stops (gen (final stops limit ts)) k /\ F ++ body = firstn k (gen (final stops limit ts)))) /\
    output (final stops limit ts) = F ++ trim_valid body.
Proof. intros stops limit ts H1 H2 H3. apply (Inv_finished_exact stops); [apply Inv_settle, Inv_run; assumption | exact H3]. Qed.
Print Assumptions C14_finished_exact.

(** finish reason: "length" exactly when the prediction limit stopped the sequence at a batch boundary; "stop" when
    the token just sampled was EOS or completed a stop sequence (the code has one reason for both) *)
Theorem C14_reason : forall stops limit ts r,
  fin (run stops limit ts) = Some r ->
  exists ts1 t ts2, ts = ts1 ++ t :: ts2 /\ fin (run stops limit ts1) = None /\
    match r with
    | RLength => at_limit limit (run stops limit ts1) = true
    | RStop => at_limit limit (run stops limit ts1) = false /\
               (t = EOS \/ exists p stop, t = Piece p /\
                  find_stop (concat (pending (run stops limit ts1) ++ [p])) stops = Some stop)
    end.
Proof.
  intros stops limit ts r H. destruct (run_finish_point stops limit ts init r eq_refl H) as [ts1 [t [ts2 [E [H1 H2]]]]].
  exists ts1, t, ts2. split; [exact E|]. split; [exact H1|]. exact (step_finishes stops limit _ t r H1 H2).
Qed.
Print Assumptions C14_reason.

(** FindStop picks a stop whose first occurrence is earliest (what the fix: commit established) *)
Theorem C14_find_stop_earliest : forall seq stops stop,
  find_stop seq stops = Some stop ->
  exists i, In stop stops /\ index_of seq stop = Some i /\
            forall s' j, In s' stops -> index_of seq s' = Some j -> i <= j.
Proof. exact find_stop_some. Qed.
Print Assumptions C14_find_stop_earliest.

(** the pinned upstream FindStop (first stop in list order) violates stop-freeness: kept as the record of the
    repaired defect *)
Theorem C14_listorder_findstop_refuted :
  exists seq stops stop i, find_stop_listorder seq stops = Some stop /\ index_of seq stop = Some i /\
    exists t, In t stops /\ Infix t (firstn i seq).
Proof.
  exists [97; 98]%N, [[98]; [97]]%N, [98]%N, 1. split; [reflexivity|]. split; [reflexivity|].
  exists [97]%N. split; [right; left; reflexivity|]. exists [], []. reflexivity.
Qed.
Print Assumptions C14_listorder_findstop_refuted.


(** ** the property's own hypothesis: "when the generated text is valid UTF-8".
    [gen_text ts] is the text of the scripted pieces up to the first EOS; the hypothesis below also admits a text
    that is cut inside its last character (limit / script end): it only has to be a prefix of valid UTF-8. *)

(** the ghost text of the model is the scripted text consumed so far *)
Theorem C14_gen_is_script_prefix : forall stops limit ts,
  Prefix (gen (final stops limit ts)) (gen_text ts).
Proof. intros. apply gen_script_prefix. Qed.
Print Assumptions C14_gen_is_script_prefix.

(** valid generated text => no flush ever drops a byte (discharges [lossless_run]) *)
Theorem C14_valid_text_lossless : forall stops limit ts rest,
  (forall t, In t stops -> t <> []) -> utf8_valid (gen_text ts ++ rest) = true -> lossless_run stops limit init ts.
Proof. intros stops limit ts rest H1 H2. exact (valid_text_lossless stops limit H1 ts rest H2). Qed.
Print Assumptions C14_valid_text_lossless.

(** the unconditional prefix claim is false of the faithful model (and of the code: known finding
    C14-invalid-utf8-dropped): an invalid byte is dropped by a mid-stream flush *)
Definition C14_prefix_full : Prop := forall stops limit ts,
  (forall t, In t stops -> t <> []) -> Prefix (output (final stops limit ts)) (gen (final stops limit ts)).
Theorem C14_prefix_refuted : ~ C14_prefix_full.
Proof.
  intros H. specialize (H [] 0 [Piece [255]%N; Piece [97]%N; EOS] (fun t (Hin : In t []) => match Hin with end)).
  vm_compute in H. destruct H as [r Hr]. discriminate Hr.
Qed.
Print Assumptions C14_prefix_refuted.
Theorem C14_prefix_partial : forall stops limit ts rest,
  (forall t, In t stops -> t <> []) -> utf8_valid (gen_text ts ++ rest) = true ->
  Prefix (output (final stops limit ts)) (gen (final stops limit ts)) /\
  Prefix (output (final stops limit ts)) (gen_text ts).
Proof.
  intros stops limit ts rest H1 H2.
  pose proof (C14_prefix stops limit ts H1 (valid_text_lossless stops limit H1 ts rest H2)) as Hp.
  split; [exact Hp|]. eapply Prefix_trans; [exact Hp | apply gen_script_prefix].
Qed.
Print Assumptions C14_prefix_partial.

(** likewise stop-freeness of the output: with stops ["ab"], pieces "a", 0xff, "b" stream "ab" *)
Definition C14_stop_free_full : Prop := forall stops limit ts,
  (forall t, In t stops -> t <> []) -> forall t, In t stops -> ~ Infix t (output (final stops limit ts)).
Theorem C14_stop_free_refuted : ~ C14_stop_free_full.
Proof.
  intros H.
  assert (Hne : forall t, In t [[97; 98]%N] -> t <> []) by (intros t [<-|[]]; discriminate).
  apply (H [[97; 98]%N] 0 [Piece [97]%N; Piece [255]%N; Piece [98]%N; EOS] Hne [97; 98]%N (or_introl eq_refl)).
  exists [], []. vm_compute. reflexivity.
Qed.
Print Assumptions C14_stop_free_refuted.
Theorem C14_stop_free_partial : forall stops limit ts rest,
  (forall t, In t stops -> t <> []) -> utf8_valid (gen_text ts ++ rest) = true ->
  forall t, In t stops -> ~ Infix t (output (final stops limit ts)).
Proof. intros stops limit ts rest H1 H2. apply C14_stop_free; [exact H1 | exact (valid_text_lossless stops limit H1 ts rest H2)]. Qed.
Print Assumptions C14_stop_free_partial.

(** valid generated text: every streamed piece is whole UTF-8 and contains no stop sequence *)
Theorem C14_pieces_whole_and_stop_free : forall stops limit ts rest,
  (forall t, In t stops -> t <> []) -> utf8_valid (gen_text ts ++ rest) = true ->
  Forall (fun p => utf8_valid p = true /\ forall t, In t stops -> ~ Infix t p) (out (final stops limit ts)).
Proof.
  intros stops limit ts rest H1 H2. exact (pieces_whole_and_stop_free stops limit H1 ts rest H2).
Qed.
Print Assumptions C14_pieces_whole_and_stop_free.

(** valid generated text: while the sequence is generating no stop has been generated; once finished the output is
    the generated text, or the part of it before the EARLIEST stop, less a character cut at the very end *)
Theorem C14_exact_valid_text : forall stops limit ts rest,
  (forall t, In t stops -> t <> []) -> utf8_valid (gen_text ts ++ rest) = true ->
  (fin (run stops limit ts) = None -> forall t, In t stops -> ~ Infix t (gen (run stops limit ts))) /\
  (fin (final stops limit ts) <> None ->
   exists F body,
    ((StopFree stops (gen (final stops limit ts)) /\ F ++ body = gen (final stops limit ts)) \/
     (exists k, EarliestStop stops (gen (final stops limit ts)) k /\ F ++ body = firstn k (gen (final stops limit ts)))) /\
    output (final stops limit ts) = F ++ trim_valid body).
Proof.
  intros stops limit ts rest H1 H2. pose proof (valid_text_lossless stops limit H1 ts rest H2) as Hl. split.
  - intros Hf. exact (C14_ends_at_first_stop stops limit ts H1 Hl Hf).
  - intros Hf. exact (C14_finished_exact stops limit ts H1 Hl Hf).
Qed.
Print Assumptions C14_exact_valid_text.

(** "otherwise it ends at the end-of-sequence token or the prediction limit": a script that contains EOS, or is at
    least as long as a positive limit, always ends; and never more than [limit] tokens are sampled *)
Theorem C14_always_ends : forall stops limit ts,
  In EOS ts \/ (0 < limit /\ limit <= length ts) -> fin (final stops limit ts) <> None.
Proof. intros stops limit ts. apply always_ends. Qed.
Print Assumptions C14_always_ends.

Theorem C14_limit_respected : forall stops limit ts, 0 < limit -> npred (final stops limit ts) <= limit.
Proof. intros stops limit ts. apply limit_respected. Qed.
Print Assumptions C14_limit_respected.

(** non-vacuity: a run with a stop split across pieces and a multi-byte character split across pieces meets
    the hypotheses, and ends before the stop *)
Example C14_nonvacuous :
  let stops := [[97; 98]; [98]]%N in
  let ts := [Piece [120; 195]%N; Piece [169]%N; Piece [97]%N; Piece [98; 121]%N; Piece [122]%N] in
  lossless_run stops 0 init ts /\ output (final stops 0 ts) = [120; 195; 169]%N /\ fin (final stops 0 ts) = Some RStop.
Proof. vm_compute. repeat split. Qed.

(** non-vacuity of the valid-text hypothesis: a euro sign one byte per token, the limit falling inside a second one *)
Example C14_valid_text_nonvacuous :
  let ts := [Piece [226]%N; Piece [130]%N; Piece [172]%N; Piece [97]%N; Piece [226]%N; Piece [130]%N] in
  utf8_valid (gen_text ts ++ [172]%N) = true /\ out (final [[97; 98]%N] 6 ts) = [[226; 130; 172]%N; [97]%N] /\
  fin (final [[97; 98]%N] 6 ts) = Some RLength.
Proof. vm_compute. repeat split. Qed.
