(** Property C14 - streamed text stops before stop sequences and is always whole UTF-8.
    Theorems only; every proof is a reference to StopProofs.v. *)
From Coq Require Import List NArith Bool.
From V Require Import Common.Bytes Runner.Stop Runner.StopProofs.
Import ListNotations.

(** every state reachable by feeding any token list, then one more batch boundary *)
Definition final (stops : list str) (limit : nat) (ts : list tok) : st := settle limit (run stops limit ts).

(** the concatenation of what was streamed is a prefix of the generated text - for every token list, stop
    set and limit *)
Theorem C14_prefix : forall stops limit ts,
  (forall t, In t stops -> t <> []) -> lossless_run stops limit init ts ->
  Prefix (output (final stops limit ts)) (gen (final stops limit ts)).
Proof. intros. apply (Inv_prefix stops), Inv_settle, Inv_run; assumption. Qed.
Print Assumptions C14_prefix.

(** the streamed text never contains a stop sequence, at any moment and in particular at the end *)
Theorem C14_stop_free : forall stops limit ts,
  (forall t, In t stops -> t <> []) -> lossless_run stops limit init ts ->
  forall t, In t stops -> ~ Infix t (output (final stops limit ts)).
Proof. intros stops limit ts H1 H2. apply (Inv_stop_free stops), Inv_settle, Inv_run; assumption. Qed.
Print Assumptions C14_stop_free.

(** "as soon as": while a sequence is still generating, the generated text contains no stop sequence *)
Theorem C14_ends_at_first_stop : forall stops limit ts,
  (forall t, In t stops -> t <> []) -> lossless_run stops limit init ts ->
  fin (run stops limit ts) = None ->
  forall t, In t stops -> ~ Infix t (gen (run stops limit ts)).
Proof. intros stops limit ts H1 H2 H3. apply (Inv_running_no_stop stops); [apply Inv_run|]; assumption. Qed.
Print Assumptions C14_ends_at_first_stop.

(** every streamed piece is valid UTF-8 (whatever bytes the model generated) *)
Theorem C14_pieces_valid : forall stops limit ts,
  (forall t, In t stops -> t <> []) -> lossless_run stops limit init ts ->
  Forall (fun p => utf8_valid p = true) (out (final stops limit ts)).
Proof. intros. apply (Inv_pieces_valid stops), Inv_settle, Inv_run; assumption. Qed.
Print Assumptions C14_pieces_valid.

(** non-vacuity: a run with a stop split across pieces and a multi-byte character split across pieces meets
    the hypotheses, and ends before the stop *)
Example C14_nonvacuous :
  let stops := [[97; 98]; [98]]%N in
  let ts := [Piece [120; 195]%N; Piece [169]%N; Piece [97]%N; Piece [98; 121]%N; Piece [122]%N] in
  lossless_run stops 0 init ts /\ output (final stops 0 ts) = [120; 195; 169]%N /\ fin (final stops 0 ts) = Some RStop.
Proof. vm_compute. repeat split. Qed.
