(** Property C14 - streamed text stops before stop sequences and is always whole UTF-8.
    Theorems only; every proof is a reference to StopProofs.v. *)
From Coq Require Import List NArith Bool.
From V Require Import Common.Bytes Runner.Stop Runner.StopProofs.
Import ListNotations.

(** every state reachable by feeding any token list, then one more batch boundary *)
Definition final (stops : list str) (limit : nat) (ts : list tok) : st := settle limit (run stops limit ts).

(** the concatenation of what was streamed is a prefix of the generated text - for every token list, stop
    set and limit *)
Theorem C14_prefix : forall stops limit ts,
  (forall t, In t stops -> t <> []) -> lossless_run stops limit init ts ->
  Prefix (output (final stops limit ts)) (gen (final stops limit ts)).
Proof. intros. apply (Inv_prefix stops), Inv_settle, Inv_run; assumption. Qed.
Print Assumptions C14_prefix.

(** the streamed text never contains a stop sequence, at any moment and in particular at the end *)
Theorem C14_stop_free : forall stops limit ts,
  (forall t, In t stops -> t <> []) -> lossless_run stops limit init ts ->
  forall t, In t stops -> ~ Infix t (output (final stops limit ts)).
Proof. intros stops limit ts H1 H2. apply (Inv_stop_free stops), Inv_settle, Inv_run; assumption. Qed.
Print Assumptions C14_stop_free.

(** "as soon as": while a sequence is still generating, the generated text contains no stop sequence *)
Theorem C14_ends_at_first_stop : forall stops limit ts,
  (forall t, In t stops -> t <> []) -> lossless_run stops limit init ts ->
  fin (run stops limit ts) = None ->
  forall t, In t stops -> ~ Infix t (gen (run stops limit ts)).
Proof. intros stops limit ts H1 H2 H3. apply (Inv_running_no_stop stops); [apply Inv_run|]; assumption. Qed.
Print Assumptions C14_ends_at_first_stop.

(** every streamed piece is valid UTF-8 (whatever bytes the model generated) *)
Theorem C14_pieces_valid : forall stops limit ts,
  (forall t, In t stops -> t <> []) -> lossless_run stops limit init ts ->
  Forall (fun p => utf8_valid p = true) (out (final stops limit ts)).
Proof. intros. apply (Inv_pieces_valid stops), Inv_settle, Inv_run; assumption. Qed.
Print Assumptions C14_pieces_valid.

(** exactness: a finished sequence streamed the whole generated text (EOS / limit, no stop in it) or exactly
    the text before the EARLIEST occurrence of any stop, except for an invalid UTF-8 tail of the part that was
    still pending when it finished ([trim_valid body = body] when [body] is valid UTF-8) *)
Theorem C14_finished_exact : forall stops limit ts,
  (forall t, In t stops -> t <> []) -> lossless_run stops limit init ts ->
  fin (final stops limit ts) <> None ->
  exists F body,
    ((StopFree stops (gen (final stops limit ts)) /\ F ++ body = gen (final stops limit ts)) \/
     (exists k, EarliestStop stops (gen (final stops limit ts)) k /\ F ++ body = firstn k (gen (final stops limit ts)))) /\
    output (final stops limit ts) = F ++ trim_valid body.
Proof. intros stops limit ts H1 H2 H3. apply (Inv_finished_exact stops); [apply Inv_settle, Inv_run; assumption | exact H3]. Qed.
Print Assumptions C14_finished_exact.

(** finish reason: "length" exactly when the prediction limit stopped the sequence at a batch boundary; "stop" when
    the token just sampled was EOS or completed a stop sequence (the code has one reason for both) *)
Theorem C14_reason : forall stops limit ts r,
  fin (run stops limit ts) = Some r ->
  exists ts1 t ts2, ts = ts1 ++ t :: ts2 /\ fin (run stops limit ts1) = None /\
    match r with
    | RLength => at_limit limit (run stops limit ts1) = true
    | RStop => at_limit limit (run stops limit ts1) = false /\
               (t = EOS \/ exists p stop, t = Piece p /\
                  find_stop (concat (pending (run stops limit ts1) ++ [p])) stops = Some stop)
    end.
Proof.
  intros stops limit ts r H. destruct (run_finish_point stops limit ts init r eq_refl H) as [ts1 [t [ts2 [E [H1 H2]]]]].
  exists ts1, t, ts2. split; [exact E|]. split; [exact H1|]. exact (step_finishes stops limit _ t r H1 H2).
Qed.
Print Assumptions C14_reason.

(** FindStop picks a stop whose first occurrence is earliest (what the fix: commit established) *)
Theorem C14_find_stop_earliest : forall seq stops stop,
  find_stop seq stops = Some stop ->
  exists i, In stop stops /\ index_of seq stop = Some i /\
            forall s' j, In s' stops -> index_of seq s' = Some j -> i <= j.
Proof. exact find_stop_some. Qed.
Print Assumptions C14_find_stop_earliest.

(** the pinned upstream FindStop (first stop in list order) violates stop-freeness: kept as the record of the
    repaired defect *)
Theorem C14_listorder_findstop_refuted :
  exists seq stops stop i, find_stop_listorder seq stops = Some stop /\ index_of seq stop = Some i /\
    exists t, In t stops /\ Infix t (firstn i seq).
Proof.
  exists [97; 98]%N, [[98]; [97]]%N, [98]%N, 1. split; [reflexivity|]. split; [reflexivity|].
  exists [97]%N. split; [right; left; reflexivity|]. exists [], []. reflexivity.
Qed.
Print Assumptions C14_listorder_findstop_refuted.

(** non-vacuity: a run with a stop split across pieces and a multi-byte character split across pieces meets
    the hypotheses, and ends before the stop *)
Example C14_nonvacuous :
  let stops := [[97; 98]; [98]]%N in
  let ts := [Piece [120; 195]%N; Piece [169]%N; Piece [97]%N; Piece [98; 121]%N; Piece [122]%N] in
  lossless_run stops 0 init ts /\ output (final stops 0 ts) = [120; 195; 169]%N /\ fin (final stops 0 ts) = Some RStop.
Proof. vm_compute. repeat split. Qed.
