(** Executable comparison functions used by the C14 correspondence check (cases written by props/c14.py). *)
From Coq Require Import List NArith Bool Arith.
From V Require Import Common.Bytes Runner.Stop.
Import ListNotations.

Fixpoint eqb_strs (a b : list str) : bool :=
  match a, b with
  | [], [] => true
  | x :: a', y :: b' => eqb_str x y && eqb_strs a' b'
  | _, _ => false
  end.

Definition chk_find_stop (seq : str) (stops : list str) (found : bool) (stop : str) : bool :=
  match find_stop seq stops with
  | Some s => found && eqb_str s stop
  | None => negb found
  end.
Definition chk_suffix (seq : str) (stops : list str) (r : bool) : bool := Bool.eqb (contains_stop_suffix seq stops) r.
Definition chk_truncate (pieces : list str) (stop : str) (res : list str) (tr : bool) : bool :=
  let '(r, t) := truncate_stop pieces stop in eqb_strs r res && Bool.eqb t tr.
Definition chk_incomplete (s : str) (r : bool) : bool := Bool.eqb (incomplete_unicode s) r.
Definition chk_valid (s : str) (r : bool) : bool := Bool.eqb (utf8_valid s) r.
Definition chk_trim (s : str) (r : str) : bool := eqb_str (trim_valid s) r.

Definition reason_code (r : option reason) : N := match r with None => 0 | Some RStop => 1 | Some RLength => 2 end.
(** a whole streaming run: tokens as (is_eos, piece) *)
Definition mk_tok (x : bool * str) : tok := if fst x then EOS else Piece (snd x).
Definition chk_run (stops : list str) (limit : nat) (ts : list (bool * str)) (outs : list str) (rc : N) : bool :=
  let s := settle limit (run stops limit (map mk_tok ts)) in
  eqb_strs (out s) outs && N.eqb (reason_code (fin s)) rc.

(** the per-batch trace of one sequence: the state after every processBatch call in which the sequence sampled a
    token or was removed; generation stops at the first finished state; after the last scripted token one more
    batch boundary ([settle]) is observed only when it removes the sequence *)
Fixpoint trace (stops : list str) (limit : nat) (s : st) (ts : list tok) : list st :=
  match fin s with
  | Some _ => []
  | None =>
      match ts with
      | [] => let s' := settle limit s in match fin s' with Some _ => [s'] | None => [] end
      | t :: ts' => let s' := step stops limit s t in s' :: trace stops limit s' ts'
      end
  end.

(** one observed event: strings sent on the channel during the call, pendingResponses, numPredicted and whether the
    channel was closed afterwards *)
Definition ev := (list str * list str * nat * bool)%type.
Fixpoint chk_events (acc : list str) (ss : list st) (es : list ev) : bool :=
  match ss, es with
  | [], [] => true
  | s :: ss', (emit, pend, np, dn) :: es' =>
      let acc' := acc ++ emit in
      eqb_strs (out s) acc' && eqb_strs (pending s) pend && Nat.eqb (npred s) np &&
      Bool.eqb (match fin s with Some _ => true | None => false end) dn && chk_events acc' ss' es'
  | _, _ => false
  end.
Definition chk_trace (stops : list str) (limit : nat) (ts : list (bool * str)) (es : list ev) : bool :=
  chk_events [] (trace stops limit init (map mk_tok ts)) es.

(** end-of-sequence paths executed on a scripted pending state (harness c14lr: the REAL llamarunner flushPending,
    removeSequence and the limit check of processBatch): what is sent, what stays pending, whether the channel closes *)
Definition is_fin (s : st) : bool := match fin s with Some _ => true | None => false end.
Definition st_of (pend : list str) (np : nat) : st := mkSt pend [] np None [].
Definition chk_seg_flush (pend emit pend' : list str) : bool :=
  let s := flush (st_of pend 0) in eqb_strs (out s) emit && eqb_strs (pending s) pend'.
Definition chk_seg_eos (pend emit pend' : list str) (dn : bool) : bool :=
  let s := finish RStop (st_of pend 0) in eqb_strs (out s) emit && eqb_strs (pending s) pend' && Bool.eqb (is_fin s) dn.
Definition chk_seg_stop (stops pend emit pend' : list str) (dn : bool) : bool :=
  let p := match find_stop (concat pend) stops with Some stop => fst (truncate_stop pend stop) | None => pend end in
  let s := finish RStop (st_of p 0) in eqb_strs (out s) emit && eqb_strs (pending s) pend' && Bool.eqb (is_fin s) dn.
Definition chk_seg_settle (limit : nat) (pend : list str) (np : nat) (emit pend' : list str) (dn : bool) (rc : N) : bool :=
  let s := settle limit (st_of pend np) in
  eqb_strs (out s) emit && eqb_strs (pending s) pend' && Bool.eqb (is_fin s) dn && N.eqb (reason_code (fin s)) rc.
