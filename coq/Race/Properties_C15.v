(** Property C15 - concurrent API use causes no data race and no torn view of the running models.
    Theorems only; the proofs are in Race/Lockset.v and Race/PsView.v.

    [Generated_Accesses.accesses] is the access table written by harness/cmd/lockx from server/*.go (the
    committed copy is the table of the tree with fixes/C15-pshandler-loadedmu.patch applied; every run of the
    check regenerates the table from the current tree and re-proves the obligations below against it). *)
From Coq Require Import List NArith Bool Lia.
From V Require Import Race.Lockset Race.Tight Race.Refcount Race.PsView Race.Generated_Accesses.
From V Require Race.Generated_Accesses_llm.
Import ListNotations.

(** Generic: for ANY access table T, any assignment of goroutine classes to threads and any well-formed trace
    (mutex semantics, forks, lock hand-off) whose accesses come from the sites of T with T's locksets really
    held, if the executable check accepts T then every two conflicting accesses of different threads are ordered
    by happens-before - for every interleaving. *)
Theorem C15_lockset_sound : forall (T : table) (cls_of : tid -> N) (tr : trace),
  wf_trace tr -> conforms T cls_of tr -> safe_init T tr ->
  lockset_ok T = true -> race_free tr.
Proof. exact lockset_sound. Qed.
Print Assumptions C15_lockset_sound.

(** the same with recorded findings W excluded: all pairs of accesses from sites outside W are ordered *)
Theorem C15_lockset_sound_except : forall (T : table) (cls_of : tid -> N) (W : entry -> bool) (tr : trace),
  wf_trace tr -> conforms T cls_of tr -> safe_init T tr ->
  lockset_ok_except W T = true ->
  race_free_on tr (fun s1 s2 => forall e1 e2, nth_error (entries T) s1 = Some e1 -> nth_error (entries T) s2 = Some e2 ->
                                    W e1 = false /\ W e2 = false).
Proof. intros T cls_of W tr. apply lockset_sound_except. Qed.
Print Assumptions C15_lockset_sound_except.

(** two accesses made under one common mutex are ordered, whatever else the threads do in between
    (the heart of the argument; includes the load() -> goroutine hand-off of refMu) *)
Theorem C15_common_lock_ordered : forall tr (i j : nat) t1 t2 k1 k2 x1 x2 s1 s2 l,
  wf_trace tr -> i < j ->
  nth_error tr i = Some (t1, Acc k1 x1 s1) -> nth_error tr j = Some (t2, Acc k2 x2 s2) ->
  holds_at tr i l t1 -> holds_at tr j l t2 -> hb tr i j.
Proof. exact common_lock_ordered. Qed.
Print Assumptions C15_common_lock_ordered.

(** The scheduler's table.  Full claim: the table passes the lockset check as it is. *)
Definition C15_sched_lockset_full : Prop := lockset_ok accesses = true.

(** False on this tree: the recorded findings (known_findings.d/C15.json) are real lockset violations. *)
Theorem C15_sched_lockset_refuted : ~ C15_sched_lockset_full.
Proof. unfold C15_sched_lockset_full. vm_compute. discriminate. Qed.
Print Assumptions C15_sched_lockset_refuted.

(** The check is exact for the table semantics (converse of C15_lockset_sound): a table with a rejected pair
    (neither side of which relies on an observed signal) has a well-formed conforming execution with two
    unordered conflicting accesses. *)
Theorem C15_lockset_tight : forall T : table,
  plain_bad_pair T = true ->
  exists (cls_of : tid -> N) (tr : trace), wf_trace tr /\ conforms T cls_of tr /\ safe_init T tr /\ ~ race_free tr.
Proof. exact lockset_tight. Qed.
Print Assumptions C15_lockset_tight.

(** Full race freedom of everything the scheduler's table describes ... *)
Definition C15_sched_race_free_full : Prop :=
  forall (cls_of : tid -> N) (tr : trace), wf_trace tr -> conforms accesses cls_of tr -> safe_init accesses tr -> race_free tr.

(** ... is false: some execution allowed by the table races (one of the recorded findings). *)
Theorem C15_sched_race_free_refuted : ~ C15_sched_race_free_full.
Proof.
  intros H. destruct (lockset_tight accesses) as (c & tr & Hwf & Hc & Hs & Hr).
  - vm_compute. reflexivity.
  - apply Hr. apply (H c tr Hwf Hc Hs).
Qed.
Print Assumptions C15_sched_race_free_refuted.

(** Partial: excluding exactly the recorded (function, location) findings, the table passes ... *)
Theorem C15_sched_lockset_partial : lockset_ok_except (waive waived) accesses = true.
Proof. apply bad_pairs_nil. vm_compute. reflexivity. Qed.
Print Assumptions C15_sched_lockset_partial.

(** ... hence every execution of the server code that conforms to the table is free of data races between
    all accesses outside the recorded findings: Scheduler.loaded, and the runnerRef fields refCount, expireTimer,
    model, Options, gpus, llama (scheduler side), numParallel, estimated*, modelPath, ... *)
Theorem C15_sched_race_free : forall (cls_of : tid -> N) (tr : trace),
  wf_trace tr -> conforms accesses cls_of tr -> safe_init accesses tr ->
  race_free_on tr (fun s1 s2 => forall e1 e2, nth_error (entries accesses) s1 = Some e1 -> nth_error (entries accesses) s2 = Some e2 ->
                                    waive waived e1 = false /\ waive waived e2 = false).
Proof. intros cls_of tr H1 H2 H3. exact (lockset_sound_except accesses cls_of (waive waived) tr H1 H2 H3 C15_sched_lockset_partial). Qed.
Print Assumptions C15_sched_race_free.

(** The llmServer (llm/server.go) that all concurrent requests of one model share: its table passes the check
    when the justified orderings of corpus/C15/benign.json are excluded (loadProgress / loadDuration, ordered by
    package server's refMu and by "WaitUntilRunning is called once"), hence no two conflicting plain-field accesses
    of its methods (Completion, Embedding, Tokenize, Detokenize, Ping, WaitUntilRunning, Close, ...) race. *)
Theorem C15_llm_lockset_partial :
  lockset_ok_except (waive Generated_Accesses_llm.waived) Generated_Accesses_llm.accesses = true.
Proof. apply bad_pairs_nil. vm_compute. reflexivity. Qed.
Print Assumptions C15_llm_lockset_partial.

Theorem C15_llm_race_free : forall (cls_of : tid -> N) (tr : trace),
  wf_trace tr -> conforms Generated_Accesses_llm.accesses cls_of tr -> safe_init Generated_Accesses_llm.accesses tr ->
  race_free_on tr (fun s1 s2 => forall e1 e2,
     nth_error (entries Generated_Accesses_llm.accesses) s1 = Some e1 -> nth_error (entries Generated_Accesses_llm.accesses) s2 = Some e2 ->
     waive Generated_Accesses_llm.waived e1 = false /\ waive Generated_Accesses_llm.waived e2 = false).
Proof.
  intros cls_of tr H1 H2 H3.
  exact (lockset_sound_except Generated_Accesses_llm.accesses cls_of (waive Generated_Accesses_llm.waived) tr H1 H2 H3 C15_llm_lockset_partial).
Qed.
Print Assumptions C15_llm_race_free.

Example C15_llm_nonvacuous :
  Nat.leb 50 (length (filter (fun e => negb (waive Generated_Accesses_llm.waived e)) (entries Generated_Accesses_llm.accesses))) = true.
Proof. vm_compute. reflexivity. Qed.

(** the guard is satisfiable by most of the table, and the waiver list is not vacuous either *)
Example C15_partial_nonvacuous :
  Nat.leb 150 (length (filter (fun e => negb (waive waived e)) (entries accesses))) = true /\
  Nat.leb 6 (length (filter (waive waived) (entries accesses))) = true.
Proof. split; vm_compute; reflexivity. Qed.

(** Ordering by a reference count instead of a mutex (scheduleRunner reads runner.llama, unload writes it): if the
    use at i lies inside a reference (after observing its grant, before its release is posted) and the teardown at j
    respects the reference (before every grant of it, or after consuming its release) then the two are ordered.
    The hypothesis [guarded] is the scheduler's reference-count invariant: C01_no_close_in_use and
    C01_no_grant_closed (coq/Sched/Properties_C01.v) for the repaired scheduler. *)
Theorem C15_refcount_read_ordered : forall tr gsig rsig i j h w oi oj,
  wf_trace tr -> nth_error tr i = Some (h, oi) -> nth_error tr j = Some (w, oj) ->
  inside tr gsig rsig i h -> guarded tr gsig rsig j w -> hb tr i j \/ hb tr j i.
Proof. exact refcount_ordered. Qed.
Print Assumptions C15_refcount_read_ordered.

Example C15_refcount_nonvacuous : wf_trace ex_tr /\ hb ex_tr 2 6.
Proof. split; [exact ex_wf | exact ex_ordered]. Qed.

(** a concrete conforming two-thread trace with a hand-off, to show the hypotheses of the sound theorem are
    satisfiable: thread 1 locks, forks thread 2 handing the lock over, thread 2 writes and unlocks, thread 3
    locks and reads; the two accesses are ordered *)
Example C15_handoff_trace_ordered :
  let l := (7%N, 2%N) in let x := (7%N, 22%N) in
  let tr := [(1%N, Acq l); (1%N, Fork 2%N [l]); (2%N, Acc Wr x 0); (2%N, Rel l); (3%N, Acq l); (3%N, Acc Rd x 1)] in
  wf_trace tr /\ hb tr 2 5.
Proof.
  cbv zeta. split.
  - split; [|split].
    + eexists. vm_compute. reflexivity.
    + intros i t c g H. destruct i as [|[|i]].
      * discriminate.
      * inversion H; subst. split; [discriminate|]. intros j e Hj He.
        destruct j as [|[|j]]; [| | lia]; cbn in He; inversion He; subst; discriminate.
      * cbn in H. do 4 (destruct i as [|i]; [discriminate|]). destruct i; discriminate.
    + intros q t c H. destruct q as [|[|[|[|[|[|q]]]]]]; cbn in H; try discriminate. destruct q; discriminate.
  - eapply hb_trans; [eapply (hb_po _ 2 3); [auto | reflexivity | reflexivity]|].
    eapply hb_trans; [eapply (hb_sw _ 3 4); [auto | reflexivity | reflexivity]|].
    eapply (hb_po _ 4 5); [auto | reflexivity | reflexivity].
Qed.

(** /api/ps: with the walk of the map and the teardown (unload + delete) each atomic under loadedMu, no
    sequence of publications and teardowns - of any length, in any order the scheduler's discipline allows -
    leads to a state whose snapshot contains a torn-down runner *)
Theorem C15_ps_no_torn_view : forall l, disciplined init_st l -> torn (PsView.run init_st l) = false.
Proof. exact no_torn_view. Qed.
Print Assumptions C15_ps_no_torn_view.

(** without the lock in the handler (the unrepaired tree) a walk can fall between unload() and delete() *)
Theorem C15_ps_unlocked_torn : torn (PsView.run init_st split_witness) = true.
Proof. exact split_torn. Qed.
Print Assumptions C15_ps_unlocked_torn.

Example C15_ps_nonvacuous :
  disciplined init_st [Publish 1%N 7%N; Publish 2%N 8%N; Teardown 1%N 7%N; Publish 1%N 9%N; Teardown 1%N 7%N] /\
  snapshot (PsView.run init_st [Publish 1%N 7%N; Publish 2%N 8%N; Teardown 1%N 7%N; Publish 1%N 9%N]) = [9%N; 8%N].
Proof.
  split; [|reflexivity]. cbn. repeat split; try reflexivity; intros p' H;
    repeat (destruct H as [H|H]; [inversion H; subst; reflexivity|]); try destruct H.
Qed.
