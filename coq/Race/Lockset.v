(** Race/Lockset.v - the lockset discipline implies happens-before ordering (data-race freedom).

    Proved once, generically.  Threads perform [Acq l], [Rel l], accesses [Acc k x site] (read/write of a
    location, tagged with the source site it was executed at) and [Fork c give] (start goroutine [c], handing the
    mutexes [give] - all held by the parent - over to it: this is the `load -> go func(){ defer refMu.Unlock() }`
    hand-off of server/sched.go).  Mutexes have Go's semantics: [Acq] only when free, [Rel] only by the holder.

    Happens-before is Go's: program order, an unlock of l before any later lock of l, a `go` statement before
    everything its goroutine does; transitive closure.

    Static side: an access table (one entry per source site: field, kind, goroutine classes that can execute it,
    must-hold lockset, init-phase flag) and the executable check [lockset_ok].  [lockset_sound]: for every
    well-formed trace that conforms to the table, if [lockset_ok] holds then every pair of conflicting accesses
    by different threads is ordered by happens-before. *)
From Coq Require Import List NArith Bool Lia Arith PeanoNat.
Import ListNotations.

(* ------------------------------------------------------------------ traces *)

Definition tid := N.
Definition lock := (N * N)%type.   (* (object, mutex field) *)
Definition loc := (N * N)%type.    (* (object, field) *)
Inductive kind := Rd | Wr.
Inductive op :=
| Acq (l : lock)
| Rel (l : lock)
| Acc (k : kind) (x : loc) (site : nat)
| Fork (c : tid) (give : list lock)
| Post (c : lock)    (* a one-way signal on (object, token): close of a channel field, start of a child goroutine *)
| Wait (c : lock).   (* observing that signal: a receive that returns because the channel is closed, the child's first step *)
Definition event := (tid * op)%type.
Definition trace := list event.

Definition kind_eqb (a b : kind) : bool :=
  match a, b with Rd, Rd => true | Wr, Wr => true | _, _ => false end.
Lemma kind_eqb_eq a b : kind_eqb a b = true <-> a = b.
Proof. destruct a, b; cbn; split; intros H; try reflexivity; discriminate. Qed.

Definition lock_eqb (a b : lock) : bool := N.eqb (fst a) (fst b) && N.eqb (snd a) (snd b).
Lemma lock_eqb_eq a b : lock_eqb a b = true <-> a = b.
Proof.
  destruct a as [a1 a2], b as [b1 b2]; unfold lock_eqb; cbn [fst snd].
  rewrite andb_true_iff, !N.eqb_eq. split.
  - intros [H1 H2]; subst; reflexivity.
  - intros H; inversion H; subst; split; reflexivity.
Qed.
Lemma lock_eqb_refl a : lock_eqb a a = true.
Proof. apply lock_eqb_eq; reflexivity. Qed.
Lemma lock_eqb_neq a b : a <> b -> lock_eqb a b = false.
Proof. intros H. destruct (lock_eqb a b) eqn:E; [apply lock_eqb_eq in E; contradiction | reflexivity]. Qed.

(** mutex state: who holds each lock *)
Definition lstate := lock -> option tid.
Definition init_state : lstate := fun _ => None.
Definition upd (s : lstate) (l : lock) (v : option tid) : lstate :=
  fun l' => if lock_eqb l l' then v else s l'.
Definition owns (s : lstate) (t : tid) (l : lock) : bool :=
  match s l with Some t' => N.eqb t t' | None => false end.
Definition give_all (s : lstate) (c : tid) (give : list lock) : lstate :=
  fun l' => if existsb (fun l => lock_eqb l l') give then Some c else s l'.

Definition step (s : lstate) (e : event) : option lstate :=
  match snd e with
  | Acq l => match s l with None => Some (upd s l (Some (fst e))) | Some _ => None end
  | Rel l => if owns s (fst e) l then Some (upd s l None) else None
  | Acc _ _ _ => Some s
  | Fork c give => if forallb (owns s (fst e)) give then Some (give_all s c give) else None
  | Post _ | Wait _ => Some s
  end.

Fixpoint run (s : lstate) (tr : trace) : option lstate :=
  match tr with
  | [] => Some s
  | e :: tr' => match step s e with Some s' => run s' tr' | None => None end
  end.

(** a forked thread is new: it is not its parent and has done nothing before the fork *)
Definition fork_fresh (tr : trace) : Prop :=
  forall i t c g, nth_error tr i = Some (t, Fork c g) ->
    c <> t /\ forall j e, j <= i -> nth_error tr j = Some e -> fst e <> c.

(** a signal is observed only after it has been given *)
Definition wait_after_post (tr : trace) : Prop :=
  forall q t c, nth_error tr q = Some (t, Wait c) -> exists p t', p < q /\ nth_error tr p = Some (t', Post c).

Definition wf_trace (tr : trace) : Prop := (exists s, run init_state tr = Some s) /\ fork_fresh tr /\ wait_after_post tr.

Definition state_at (tr : trace) (k : nat) : option lstate := run init_state (firstn k tr).

(** thread [t] holds [l] just before event number [k] is executed *)
Definition holds_at (tr : trace) (k : nat) (l : lock) (t : tid) : Prop :=
  exists s, state_at tr k = Some s /\ s l = Some t.

Inductive hb (tr : trace) : nat -> nat -> Prop :=
| hb_po i j t o1 o2 : i < j -> nth_error tr i = Some (t, o1) -> nth_error tr j = Some (t, o2) -> hb tr i j
| hb_sw i j t1 t2 l : i < j -> nth_error tr i = Some (t1, Rel l) -> nth_error tr j = Some (t2, Acq l) -> hb tr i j
| hb_fork i j t c g o : i < j -> nth_error tr i = Some (t, Fork c g) -> nth_error tr j = Some (c, o) -> hb tr i j
| hb_post i j t1 t2 c : i < j -> nth_error tr i = Some (t1, Post c) -> nth_error tr j = Some (t2, Wait c) -> hb tr i j
| hb_trans i j k : hb tr i j -> hb tr j k -> hb tr i k.

Lemma hb_lt tr i j : hb tr i j -> i < j.
Proof. induction 1; lia. Qed.

(** no data race: conflicting accesses of different threads are ordered *)
Definition race_free_on (tr : trace) (P : nat -> nat -> Prop) : Prop :=
  forall i j t1 t2 k1 k2 x s1 s2,
    i < j ->
    nth_error tr i = Some (t1, Acc k1 x s1) ->
    nth_error tr j = Some (t2, Acc k2 x s2) ->
    t1 <> t2 -> (k1 = Wr \/ k2 = Wr) -> P s1 s2 ->
    hb tr i j.
Definition race_free (tr : trace) : Prop := race_free_on tr (fun _ _ => True).

(* ------------------------------------------------------------------ run lemmas *)

Lemma run_app s a b : run s (a ++ b) = match run s a with Some s' => run s' b | None => None end.
Proof.
  revert s; induction a as [|e a IH]; intros s; cbn; [reflexivity|].
  destruct (step s e); [apply IH | reflexivity].
Qed.

Lemma firstn_S_nth {A} (l : list A) k e : nth_error l k = Some e -> firstn (S k) l = firstn k l ++ [e].
Proof.
  revert k; induction l as [|a l IH]; intros [|k] H; cbn in *; try discriminate.
  - inversion H; reflexivity.
  - f_equal. apply IH; assumption.
Qed.

Lemma state_at_S tr k e s :
  nth_error tr k = Some e -> state_at tr k = Some s -> state_at tr (S k) = step s e.
Proof.
  intros Hn Hs. unfold state_at in *. rewrite (firstn_S_nth _ _ _ Hn), run_app, Hs. cbn.
  destruct (step s e); reflexivity.
Qed.

Lemma wf_state_at tr s0 : run init_state tr = Some s0 -> forall k, exists s, state_at tr k = Some s.
Proof.
  intros H k. unfold state_at. rewrite <- (firstn_skipn k tr), run_app in H.
  destruct (run init_state (firstn k tr)) as [s|]; [exists s; reflexivity | discriminate].
Qed.

Lemma give_all_in s c give l : In l give -> give_all s c give l = Some c.
Proof.
  intros H. unfold give_all.
  assert (E : existsb (fun l0 => lock_eqb l0 l) give = true)
    by (apply existsb_exists; exists l; split; [assumption | apply lock_eqb_refl]).
  rewrite E; reflexivity.
Qed.
Lemma give_all_notin s c give l : ~ In l give -> give_all s c give l = s l.
Proof.
  intros H. unfold give_all.
  destruct (existsb (fun l0 => lock_eqb l0 l) give) eqn:E; [|reflexivity].
  apply existsb_exists in E. destruct E as [l0 [Hin He]]. apply lock_eqb_eq in He; subst. contradiction.
Qed.

Lemma lock_in_dec (l : lock) (g : list lock) : {In l g} + {~ In l g}.
Proof.
  apply in_dec. intros [a b] [c d].
  destruct (N.eq_dec a c), (N.eq_dec b d); subst; try (left; reflexivity); right; intros H; inversion H; contradiction.
Qed.

(* ------------------------------------------------------------------ the key ordering lemma *)

(** invariant scanned forward from an event [i] whose thread holds [l]: whoever holds [l] at time [k] is
    "after i" for everything it does from [k] on; if [l] is free, some unlock of [l] after [i] is hb-after [i] *)
Definition ord_inv (tr : trace) (i : nat) (l : lock) (k : nat) : Prop :=
  exists s, state_at tr k = Some s /\
    (forall c, s l = Some c -> forall j o, k <= j -> nth_error tr j = Some (c, o) -> hb tr i j) /\
    (s l = None -> exists r t, i < r /\ r < k /\ nth_error tr r = Some (t, Rel l) /\ hb tr i r).

Lemma ord_inv_step tr s0 i l k :
  run init_state tr = Some s0 -> i < k -> k < length tr ->
  ord_inv tr i l k -> ord_inv tr i l (S k).
Proof.
  intros Hrun Hik Hk (s & Hs & Hheld & Hfree).
  destruct (nth_error tr k) as [[t o]|] eqn:Hn; [| apply nth_error_None in Hn; lia].
  destruct (wf_state_at tr s0 Hrun (S k)) as [s' Hs'].
  pose proof (state_at_S tr k (t, o) s Hn Hs) as Hst. rewrite Hs' in Hst. symmetry in Hst.
  unfold step in Hst; cbn [fst snd] in Hst.
  exists s'; split; [assumption|].
  destruct o as [l1 | l1 | kk x site | c give | c | c].
  - (* Acq l1 *)
    destruct (s l1) eqn:Hl1; [discriminate|]. inversion Hst; subst s'; clear Hst.
    destruct (lock_eqb l1 l) eqn:E.
    + apply lock_eqb_eq in E; subst l1.
      destruct (Hfree Hl1) as (r & tr0 & Hir & Hrk & Hnr & Hhb).
      assert (Hik' : hb tr i k) by (eapply hb_trans; [exact Hhb | eapply hb_sw; eauto]).
      split.
      * intros c Hc j o Hj Hnj. unfold upd in Hc. rewrite lock_eqb_refl in Hc. inversion Hc; subst c.
        eapply hb_trans; [exact Hik' | eapply hb_po; [| exact Hn | exact Hnj]; lia].
      * intros Hc. unfold upd in Hc. rewrite lock_eqb_refl in Hc. discriminate.
    + split.
      * intros c Hc j o Hj Hnj. unfold upd in Hc. rewrite E in Hc. eapply Hheld; eauto. lia.
      * intros Hc. unfold upd in Hc. rewrite E in Hc.
        destruct (Hfree Hc) as (r & t0 & ? & ? & ? & ?). exists r, t0. repeat split; auto.
  - (* Rel l1 *)
    destruct (owns s t l1) eqn:Ho; [|discriminate]. inversion Hst; subst s'; clear Hst.
    unfold owns in Ho. destruct (s l1) as [t'|] eqn:Hl1; [|discriminate]. apply N.eqb_eq in Ho; subst t'.
    destruct (lock_eqb l1 l) eqn:E.
    + apply lock_eqb_eq in E; subst l1.
      assert (Hik' : hb tr i k) by (eapply Hheld; [exact Hl1 | | exact Hn]; lia).
      split.
      * intros c Hc. unfold upd in Hc. rewrite lock_eqb_refl in Hc. discriminate.
      * intros _. exists k, t. repeat split; auto.
    + split.
      * intros c Hc j o Hj Hnj. unfold upd in Hc. rewrite E in Hc. eapply Hheld; eauto. lia.
      * intros Hc. unfold upd in Hc. rewrite E in Hc.
        destruct (Hfree Hc) as (r & t0 & ? & ? & ? & ?). exists r, t0. repeat split; auto.
  - (* Acc *)
    inversion Hst; subst s'; clear Hst. split.
    + intros c Hc j o Hj Hnj. eapply Hheld; eauto. lia.
    + intros Hc. destruct (Hfree Hc) as (r & t0 & ? & ? & ? & ?). exists r, t0. repeat split; auto.
  - (* Fork c give *)
    destruct (forallb (owns s t) give) eqn:Ho; [|discriminate]. inversion Hst; subst s'; clear Hst.
    destruct (lock_in_dec l give) as [Hin | Hnin].
    + rewrite forallb_forall in Ho. specialize (Ho l Hin). unfold owns in Ho.
      destruct (s l) as [t'|] eqn:Hl; [|discriminate]. apply N.eqb_eq in Ho; subst t'.
      assert (Hik' : hb tr i k) by (eapply Hheld; [reflexivity | | exact Hn]; lia).
      split.
      * intros c0 Hc j o Hj Hnj. rewrite give_all_in in Hc by assumption. inversion Hc; subst c0.
        eapply hb_trans; [exact Hik' | eapply hb_fork; [| exact Hn | exact Hnj]; lia].
      * intros Hc. rewrite give_all_in in Hc by assumption. discriminate.
    + split.
      * intros c0 Hc j o Hj Hnj. rewrite give_all_notin in Hc by assumption. eapply Hheld; eauto. lia.
      * intros Hc. rewrite give_all_notin in Hc by assumption.
        destruct (Hfree Hc) as (r & t0 & ? & ? & ? & ?). exists r, t0. repeat split; auto.
  - (* Post *)
    inversion Hst; subst s'; clear Hst. split.
    + intros c0 Hc j o Hj Hnj. eapply Hheld; eauto. lia.
    + intros Hc. destruct (Hfree Hc) as (r & t0 & ? & ? & ? & ?). exists r, t0. repeat split; auto.
  - (* Wait *)
    inversion Hst; subst s'; clear Hst. split.
    + intros c0 Hc j o Hj Hnj. eapply Hheld; eauto. lia.
    + intros Hc. destruct (Hfree Hc) as (r & t0 & ? & ? & ? & ?). exists r, t0. repeat split; auto.
Qed.

(** two accesses under a common mutex are ordered by happens-before *)
Lemma common_lock_ordered tr i j t1 t2 k1 k2 x1 x2 s1 s2 l :
  wf_trace tr -> i < j ->
  nth_error tr i = Some (t1, Acc k1 x1 s1) ->
  nth_error tr j = Some (t2, Acc k2 x2 s2) ->
  holds_at tr i l t1 -> holds_at tr j l t2 ->
  hb tr i j.
Proof.
  intros [[s0 Hrun] _] Hij Hi Hj (si & Hsi & Hli) (sj & Hsj & Hlj).
  assert (Hjlen : j < length tr) by (apply nth_error_Some; rewrite Hj; discriminate).
  assert (Hbase : ord_inv tr i l (S i)).
  { exists si. split.
    - rewrite (state_at_S tr i _ si Hi Hsi). reflexivity.
    - split.
      + intros c Hc j0 o Hj0 Hn0. rewrite Hli in Hc. inversion Hc; subst c.
        eapply hb_po; [| exact Hi | exact Hn0]. lia.
      + intros Hc. rewrite Hli in Hc. discriminate. }
  assert (Hall : forall d, S i + d <= j -> ord_inv tr i l (S i + d)).
  { induction d as [|d IH]; intros Hd.
    - rewrite Nat.add_0_r. exact Hbase.
    - replace (S i + S d) with (S (S i + d)) by lia.
      eapply ord_inv_step; [exact Hrun | lia | lia | apply IH; lia]. }
  specialize (Hall (j - S i)). replace (S i + (j - S i)) with j in Hall by lia.
  destruct (Hall ltac:(lia)) as (s & Hs & Hheld & _).
  rewrite Hsj in Hs. inversion Hs; subst s.
  eapply Hheld; [exact Hlj | | exact Hj]. lia.
Qed.

(* ------------------------------------------------------------------ the static access table *)

(** a statically named mutex: [Self m] = mutex field [m] of the very object whose field is accessed;
    [Glob m] = mutex [m] of the one process-wide owner object (the Scheduler) *)
Inductive slock := Self (m : N) | Glob (m : N).
Definition slock_eqb (a b : slock) : bool :=
  match a, b with
  | Self x, Self y => N.eqb x y
  | Glob x, Glob y => N.eqb x y
  | _, _ => false
  end.
Lemma slock_eqb_eq a b : slock_eqb a b = true <-> a = b.
Proof.
  destruct a, b; cbn; try (split; intros; discriminate); rewrite N.eqb_eq; split; intros H; try (subst; reflexivity); inversion H; reflexivity.
Qed.
Definition glob_obj : N := 0%N.
Definition inst (o : N) (s : slock) : lock := match s with Self m => (o, m) | Glob m => (glob_obj, m) end.

Record entry := mkE {
  e_fld : N;            (* static location: type.field / package variable *)
  e_kind : kind;
  e_clss : list N;      (* goroutine classes that may execute this site *)
  e_locks : list slock; (* must-hold lockset *)
  e_init : bool;        (* executed on a freshly allocated, not yet published object *)
  e_fn : N;             (* enclosing function (for reporting and waivers) *)
  e_before : list N;    (* signals of the accessed object that only this thread gives, and only later *)
  e_after : list N      (* signals of the accessed object this thread has already observed *)
}.
Record table := mkT { entries : list entry; singles : list N (* classes with at most one thread *) }.

Definition memN (x : N) (l : list N) : bool := existsb (N.eqb x) l.
Lemma memN_In x l : memN x l = true <-> In x l.
Proof.
  unfold memN. rewrite existsb_exists. split.
  - intros [y [Hy He]]. apply N.eqb_eq in He; subst; assumption.
  - intros H; exists x; split; [assumption | apply N.eqb_refl].
Qed.

Definition share (a b : entry) : bool :=
  existsb (fun s => existsb (slock_eqb s) (e_locks b)) (e_locks a).
Definition may_conc (S : list N) (a b : entry) : bool :=
  existsb (fun ca => existsb (fun cb => negb (N.eqb ca cb) || negb (memN ca S)) (e_clss b)) (e_clss a).
Definition both_rd (a b : entry) : bool := kind_eqb (e_kind a) Rd && kind_eqb (e_kind b) Rd.
(** one access is made before its thread gives a signal that the other thread has observed *)
Definition sig_ordered (a b : entry) : bool :=
  existsb (fun k => memN k (e_after b)) (e_before a) || existsb (fun k => memN k (e_after a)) (e_before b).

(** the pair needs no further argument: different locations, two reads, init phase (safe publication),
    never in two threads, or a common mutex *)
Definition pair_ok (S : list N) (a b : entry) : bool :=
  negb (N.eqb (e_fld a) (e_fld b)) || both_rd a b || e_init a || e_init b || negb (may_conc S a b) || share a b
  || sig_ordered a b.

Definition lockset_ok_except (W : entry -> bool) (T : table) : bool :=
  forallb (fun a => forallb (fun b => pair_ok (singles T) a b || W a || W b) (entries T)) (entries T).
Definition no_waiver : entry -> bool := fun _ => false.
Definition lockset_ok (T : table) : bool := lockset_ok_except no_waiver T.

(** the offending pairs (site numbers), for reporting *)
Fixpoint enum {A} (i : nat) (l : list A) : list (nat * A) :=
  match l with [] => [] | a :: t => (i, a) :: enum (S i) t end.
Definition bad_pairs (W : entry -> bool) (T : table) : list (nat * nat) :=
  flat_map (fun ia => flat_map (fun jb =>
      if (Nat.leb (fst ia) (fst jb)) && negb (pair_ok (singles T) (snd ia) (snd jb) || W (snd ia) || W (snd jb))
      then [(fst ia, fst jb)] else [])
    (enum 0 (entries T))) (enum 0 (entries T)).

(** waivers are given per (function, field) *)
Definition waive (l : list (N * N)) : entry -> bool :=
  fun e => existsb (fun p => N.eqb (fst p) (e_fn e) && N.eqb (snd p) (e_fld e)) l.

(* ------------------------------------------------------------------ conformance of a trace to a table *)

Section Conf.
Variable T : table.
Variable cls_of : tid -> N.

(** every executed access comes from a site of the table, is executed by a goroutine of one of the site's
    classes, and the thread really holds the site's must-hold lockset (this is what the translator claims) *)
Definition conforms (tr : trace) : Prop :=
  (forall j t k x site, nth_error tr j = Some (t, Acc k x site) ->
     exists e, nth_error (entries T) site = Some e /\ e_fld e = snd x /\ e_kind e = k /\
               In (cls_of t) (e_clss e) /\
               (forall s, In s (e_locks e) -> holds_at tr j (inst (fst x) s) t) /\
               (forall k, In k (e_before e) -> forall p t', nth_error tr p = Some (t', Post (fst x, k)) -> t' = t /\ j < p) /\
               (forall k, In k (e_after e) -> exists q, q < j /\ nth_error tr q = Some (t, Wait (fst x, k))))
  /\ (forall t t', In (cls_of t) (singles T) -> cls_of t = cls_of t' -> t = t').

(** safe publication: what a thread does to an object in its init phase happens-before every access of any
    other thread to the same location (other threads can only reach the object through a synchronised
    publication).  Hypothesis of the theorem, not derived. *)
Definition safe_init (tr : trace) : Prop :=
  forall i j t1 t2 k1 k2 x s1 s2 e,
    nth_error tr i = Some (t1, Acc k1 x s1) ->
    nth_error tr j = Some (t2, Acc k2 x s2) ->
    t1 <> t2 -> nth_error (entries T) s1 = Some e -> e_init e = true -> hb tr i j.

Lemma share_common a b : share a b = true -> exists s, In s (e_locks a) /\ In s (e_locks b).
Proof.
  unfold share. intros H. apply existsb_exists in H. destruct H as [s [Ha Hb]].
  apply existsb_exists in Hb. destruct Hb as [s' [Hb He]]. apply slock_eqb_eq in He; subst s'.
  exists s; split; assumption.
Qed.

Lemma may_conc_false a b ca cb :
  may_conc (singles T) a b = false -> In ca (e_clss a) -> In cb (e_clss b) -> ca = cb /\ In ca (singles T).
Proof.
  unfold may_conc. intros H Ha Hb.
  destruct (N.eqb ca cb) eqn:E1; destruct (memN ca (singles T)) eqn:E2.
  - apply N.eqb_eq in E1. apply memN_In in E2. split; assumption.
  - exfalso. assert (X : existsb (fun ca0 => existsb (fun cb0 => negb (N.eqb ca0 cb0) || negb (memN ca0 (singles T))) (e_clss b)) (e_clss a) = true).
    { apply existsb_exists. exists ca. split; [assumption|]. apply existsb_exists. exists cb. split; [assumption|].
      rewrite E2. cbn. apply orb_true_r. }
    rewrite X in H; discriminate.
  - exfalso. assert (X : existsb (fun ca0 => existsb (fun cb0 => negb (N.eqb ca0 cb0) || negb (memN ca0 (singles T))) (e_clss b)) (e_clss a) = true).
    { apply existsb_exists. exists ca. split; [assumption|]. apply existsb_exists. exists cb. split; [assumption|].
      rewrite E1. reflexivity. }
    rewrite X in H; discriminate.
  - exfalso. assert (X : existsb (fun ca0 => existsb (fun cb0 => negb (N.eqb ca0 cb0) || negb (memN ca0 (singles T))) (e_clss b)) (e_clss a) = true).
    { apply existsb_exists. exists ca. split; [assumption|]. apply existsb_exists. exists cb. split; [assumption|].
      rewrite E1. reflexivity. }
    rewrite X in H; discriminate.
Qed.

Theorem lockset_sound_except (W : entry -> bool) (tr : trace) :
  wf_trace tr -> conforms tr -> safe_init tr ->
  lockset_ok_except W T = true ->
  race_free_on tr (fun s1 s2 => forall e1 e2, nth_error (entries T) s1 = Some e1 -> nth_error (entries T) s2 = Some e2 ->
                                    W e1 = false /\ W e2 = false).
Proof.
  intros Hwf [Hconf Hsingle] Hsafe Hok i j t1 t2 k1 k2 x s1 s2 Hij Hi Hj Hne Hw HW.
  destruct (Hconf _ _ _ _ _ Hi) as (e1 & He1 & Hf1 & Hk1 & Hc1 & Hl1 & Hb1 & Ha1).
  destruct (Hconf _ _ _ _ _ Hj) as (e2 & He2 & Hf2 & Hk2 & Hc2 & Hl2 & Hb2 & Ha2).
  destruct (HW e1 e2 He1 He2) as [HW1 HW2].
  unfold lockset_ok_except in Hok. rewrite forallb_forall in Hok.
  specialize (Hok e1 (nth_error_In _ _ He1)). rewrite forallb_forall in Hok.
  specialize (Hok e2 (nth_error_In _ _ He2)). rewrite HW1, HW2, !orb_false_r in Hok.
  unfold pair_ok in Hok. rewrite !orb_true_iff in Hok.
  destruct Hok as [[[[[[Hfld | Hrd] | Hin1] | Hin2] | Hnc] | Hsh] | Hsig].
  - exfalso. rewrite Hf1, Hf2, N.eqb_refl in Hfld. discriminate.
  - exfalso. unfold both_rd in Hrd. apply andb_true_iff in Hrd. destruct Hrd as [Ha Hb].
    apply kind_eqb_eq in Ha. apply kind_eqb_eq in Hb. rewrite Hk1 in Ha. rewrite Hk2 in Hb.
    destruct Hw as [Hw | Hw]; rewrite Hw in *; discriminate.
  - eapply Hsafe; eauto.
  - exfalso. assert (Hji : hb tr j i) by (eapply (Hsafe j i); eauto).
    apply hb_lt in Hji. lia.
  - exfalso. apply negb_true_iff in Hnc.
    destruct (may_conc_false _ _ _ _ Hnc Hc1 Hc2) as [Heq Hs]. apply Hne. apply Hsingle; assumption.
  - destruct (share_common _ _ Hsh) as (s & Hs1 & Hs2).
    eapply common_lock_ordered; [exact Hwf | exact Hij | exact Hi | exact Hj | apply Hl1; exact Hs1 | apply Hl2; exact Hs2].
  - destruct Hwf as (_ & _ & Hwp). unfold sig_ordered in Hsig. apply orb_true_iff in Hsig. destruct Hsig as [Hsig | Hsig].
    + (* e1 before k, e2 after k: access i, then the signal, then its observation, then access j *)
      apply existsb_exists in Hsig. destruct Hsig as (k & Hkb & Hka). apply memN_In in Hka.
      destruct (Ha2 k Hka) as (q & Hqj & Hq).
      destruct (Hwp q t2 _ Hq) as (p & t' & Hpq & Hp).
      destruct (Hb1 k Hkb p t' Hp) as [Ht Hip]. subst t'.
      eapply hb_trans; [eapply hb_po; [exact Hip | exact Hi | exact Hp]|].
      eapply hb_trans; [eapply hb_post; [exact Hpq | exact Hp | exact Hq]|].
      eapply hb_po; [exact Hqj | exact Hq | exact Hj].
    + (* the other way round is impossible when i < j *)
      exfalso. apply existsb_exists in Hsig. destruct Hsig as (k & Hkb & Hka). apply memN_In in Hka.
      destruct (Ha1 k Hka) as (q & Hqi & Hq).
      destruct (Hwp q t1 _ Hq) as (p & t' & Hpq & Hp).
      destruct (Hb2 k Hkb p t' Hp) as [Ht Hjp]. lia.
Qed.

Theorem lockset_sound (tr : trace) :
  wf_trace tr -> conforms tr -> safe_init tr -> lockset_ok T = true -> race_free tr.
Proof.
  intros Hwf Hc Hs Hok i j t1 t2 k1 k2 x s1 s2 Hij Hi Hj Hne Hw _.
  eapply (lockset_sound_except no_waiver tr Hwf Hc Hs Hok); eauto.
Qed.

End Conf.

(** [bad_pairs] is complete: no bad pair reported = the check holds *)
Lemma enum_spec {A} (l : list A) : forall i k a, nth_error l k = Some a -> In (i + k, a) (enum i l).
Proof.
  induction l as [|x l IH]; intros i [|k] a H; cbn in *; try discriminate.
  - inversion H; subst. left. f_equal. lia.
  - right. replace (i + S k) with (S i + k) by lia. apply IH; assumption.
Qed.

Lemma pair_ok_sym S a b : pair_ok S a b = true -> pair_ok S b a = true.
Proof.
  unfold pair_ok. rewrite !orb_true_iff. intros [[[[[[H|H]|H]|H]|H]|H]|H].
  - left; left; left; left; left; left. rewrite N.eqb_sym. assumption.
  - left; left; left; left; left; right. unfold both_rd in *. rewrite andb_comm. assumption.
  - left; left; left; right. assumption.
  - left; left; left; left; right. assumption.
  - left; left; right. apply negb_true_iff in H. apply negb_true_iff.
    destruct (may_conc S b a) eqn:E; [|reflexivity]. exfalso.
    unfold may_conc in E. apply existsb_exists in E. destruct E as [cb [Hb E]].
    apply existsb_exists in E. destruct E as [ca [Ha E]].
    assert (X : may_conc S a b = true).
    { unfold may_conc. apply existsb_exists. exists ca. split; [assumption|]. apply existsb_exists. exists cb. split; [assumption|].
      destruct (N.eqb cb ca) eqn:E1.
      - apply N.eqb_eq in E1; subst cb. rewrite N.eqb_refl. exact E.
      - rewrite N.eqb_sym, E1. reflexivity. }
    rewrite X in H; discriminate.
  - left; right. unfold share in *. apply existsb_exists in H. destruct H as [s [Hs H]].
    apply existsb_exists in H. destruct H as [s' [Hs' He]]. apply slock_eqb_eq in He; subst s'.
    apply existsb_exists. exists s. split; [assumption|]. apply existsb_exists. exists s. split; [assumption|].
    apply slock_eqb_eq; reflexivity.
  - right. unfold sig_ordered in *. rewrite orb_comm. assumption.
Qed.

Lemma bad_pairs_nil W T : bad_pairs W T = [] -> lockset_ok_except W T = true.
Proof.
  intros H. unfold lockset_ok_except. apply forallb_forall. intros a Ha. apply forallb_forall. intros b Hb.
  apply In_nth_error in Ha. destruct Ha as [ka Hka]. apply In_nth_error in Hb. destruct Hb as [kb Hkb].
  pose proof (enum_spec (entries T) 0 ka a Hka) as Ea. pose proof (enum_spec (entries T) 0 kb b Hkb) as Eb.
  cbn in Ea, Eb.
  assert (G : forall k1 e1 k2 e2, In (k1, e1) (enum 0 (entries T)) -> In (k2, e2) (enum 0 (entries T)) -> k1 <= k2 ->
              pair_ok (singles T) e1 e2 || W e1 || W e2 = true).
  { intros k1 e1 k2 e2 H1 H2 Hle.
    destruct (pair_ok (singles T) e1 e2 || W e1 || W e2) eqn:E; [reflexivity|]. exfalso.
    assert (X : In (k1, k2) (bad_pairs W T)).
    { unfold bad_pairs. apply in_flat_map. exists (k1, e1). split; [assumption|].
      apply in_flat_map. exists (k2, e2). split; [assumption|]. cbn [fst snd].
      rewrite E. apply Nat.leb_le in Hle. rewrite Hle. cbn. left; reflexivity. }
    rewrite H in X. destruct X. }
  destruct (Nat.le_gt_cases ka kb) as [Hle | Hgt].
  - apply (G ka a kb b Ea Eb Hle).
  - assert (Hle : kb <= ka) by lia. specialize (G kb b ka a Eb Ea Hle).
    rewrite !orb_true_iff in G. rewrite !orb_true_iff. destruct G as [[G|G]|G].
    + left; left. apply pair_ok_sym; assumption.
    + right; assumption.
    + left; right; assumption.
Qed.
