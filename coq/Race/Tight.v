(** Race/Tight.v - the lockset check is exact for the table semantics: if [lockset_ok T = false] there is a
    well-formed trace that conforms to T (with safe publication) and contains a data race.  Together with
    [lockset_sound]: "every conforming trace is race free" <-> [lockset_ok T = true].  This is what makes
    [C15_sched_lockset_refuted] a refutation of race freedom for the table, not only of the check. *)
From Coq Require Import List NArith Bool Lia Arith PeanoNat FinFun.
From V Require Import Race.Lockset.
Import ListNotations.

Lemma hb_adjacent tr i k : hb tr i k -> k = S i ->
  (exists t o1 o2, nth_error tr i = Some (t, o1) /\ nth_error tr k = Some (t, o2)) \/
  (exists t l, nth_error tr i = Some (t, Rel l)) \/
  (exists t c g, nth_error tr i = Some (t, Fork c g)) \/
  (exists t c, nth_error tr i = Some (t, Post c)).
Proof.
  induction 1 as [i j t o1 o2 Hlt H1 H2 | i j t1 t2 l Hlt H1 H2 | i j t c g o Hlt H1 H2 | i j t1 t2 c Hlt H1 H2 | i j k Hij IH1 Hjk IH2]; intros Hk.
  - left. exists t, o1, o2. split; assumption.
  - right; left. exists t1, l. assumption.
  - right; right; left. exists t, c, g. assumption.
  - right; right; right. exists t1, c. assumption.
  - exfalso. apply hb_lt in Hij. apply hb_lt in Hjk. lia.
Qed.

Lemma firstn_len_app {A} (p q : list A) : firstn (length p) (p ++ q) = p.
Proof. induction p as [|a p IH]; cbn; [destruct q; reflexivity | f_equal; exact IH]. Qed.

Definition acqs (t : tid) (L : list lock) : trace := map (fun l => (t, Acq l)) L.

Lemma run_acqs t L : forall s, NoDup L -> (forall l, In l L -> s l = None) ->
  exists s', run s (acqs t L) = Some s' /\ (forall l, In l L -> s' l = Some t) /\ (forall l, ~ In l L -> s' l = s l).
Proof.
  induction L as [|l0 L IH]; intros s Hnd Hfree.
  - exists s. cbn. repeat split; auto. intros l [].
  - inversion Hnd as [|? ? Hnin Hnd']; subst.
    cbn. unfold step; cbn [fst snd]. rewrite (Hfree l0 (or_introl eq_refl)).
    destruct (IH (upd s l0 (Some t)) Hnd') as (s' & Hr & Hin & Hout).
    { intros l Hl. unfold upd. rewrite lock_eqb_neq; [apply Hfree; right; assumption|].
      intros E; subst; contradiction. }
    exists s'. split; [exact Hr|]. split.
    + intros l [E | Hl]; [subst|apply Hin; assumption].
      rewrite (Hout l Hnin). unfold upd. rewrite lock_eqb_refl. reflexivity.
    + intros l Hl. rewrite Hout by (intros X; apply Hl; right; assumption).
      unfold upd. rewrite lock_eqb_neq; [reflexivity|]. intros E; subst; apply Hl; left; reflexivity.
Qed.

Lemma acqs_no_acc t L j t' k x site : nth_error (acqs t L) j = Some (t', Acc k x site) -> False.
Proof.
  intros H. apply nth_error_In in H. unfold acqs in H. apply in_map_iff in H. destruct H as [l [E _]]. discriminate.
Qed.

Lemma acqs_no_fork t L j t' c g : nth_error (acqs t L) j = Some (t', Fork c g) -> False.
Proof.
  intros H. apply nth_error_In in H. unfold acqs in H. apply in_map_iff in H. destruct H as [l [E _]]. discriminate.
Qed.
Lemma acqs_only_acq t L j e : nth_error (acqs t L) j = Some e -> exists l, e = (t, Acq l).
Proof.
  intros H. apply nth_error_In in H. unfold acqs in H. apply in_map_iff in H. destruct H as [l [E _]]. exists l. symmetry. exact E.
Qed.

Definition slock_eq_dec (a b : slock) : {a = b} + {a <> b}.
Proof. decide equality; apply N.eq_dec. Defined.

Lemma inst_inj s s' : inst 1%N s = inst 1%N s' -> s = s'.
Proof. destruct s, s'; cbn; unfold glob_obj; intros H; inversion H; reflexivity. Qed.

Definition fresh_cls (S : list N) : N := N.succ (fold_right N.max 0%N S).
Lemma fresh_cls_notin S : ~ In (fresh_cls S) S.
Proof.
  assert (H : forall x, In x S -> (x <= fold_right N.max 0 S)%N).
  { induction S as [|a S IH]; intros x Hx; [destruct Hx|]. destruct Hx as [E | Hx]; cbn; [subst; lia | specialize (IH x Hx); lia]. }
  intros Hin. specialize (H _ Hin). unfold fresh_cls in H. lia.
Qed.

Section Witness.
Variable T : table.
Variables (a b : entry) (sa sb : nat).
Hypothesis Ha : nth_error (entries T) sa = Some a.
Hypothesis Hb : nth_error (entries T) sb = Some b.
Hypothesis Hbad : pair_ok (singles T) a b = false.
Hypothesis Haa : e_after a = [].
Hypothesis Hab : e_after b = [].

Let f := e_fld a.
Let x : loc := (1%N, f).
Let La := map (inst 1%N) (nodup slock_eq_dec (e_locks a)).
Let Lb := map (inst 1%N) (nodup slock_eq_dec (e_locks b)).
Let pre := acqs 1%N La ++ acqs 2%N Lb.
Let n := length pre.
Definition w_tr : trace := pre ++ [(1%N, Acc (e_kind a) x sa); (2%N, Acc (e_kind b) x sb)].
Let tr := w_tr.

Lemma bad_facts :
  e_fld b = f /\ both_rd a b = false /\ e_init a = false /\ e_init b = false /\
  may_conc (singles T) a b = true /\ share a b = false.
Proof.
  pose proof Hbad as Hp. unfold pair_ok in Hp.
  apply orb_false_iff in Hp. destruct Hp as [Hp _].
  apply orb_false_iff in Hp. destruct Hp as [Hp Hsh].
  apply orb_false_iff in Hp. destruct Hp as [Hp Hmc].
  apply orb_false_iff in Hp. destruct Hp as [Hp Hib].
  apply orb_false_iff in Hp. destruct Hp as [Hp Hia].
  apply orb_false_iff in Hp. destruct Hp as [Hp Hrd].
  apply negb_false_iff in Hp. apply N.eqb_eq in Hp. apply negb_false_iff in Hmc.
  repeat split; try assumption. symmetry. exact Hp.
Qed.

Lemma La_nodup : NoDup La.
Proof. apply FinFun.Injective_map_NoDup; [intros s s'; apply inst_inj | apply NoDup_nodup]. Qed.
Lemma Lb_nodup : NoDup Lb.
Proof. apply FinFun.Injective_map_NoDup; [intros s s'; apply inst_inj | apply NoDup_nodup]. Qed.

Lemma La_Lb_disjoint l : In l La -> In l Lb -> False.
Proof.
  destruct bad_facts as (_ & _ & _ & _ & _ & Hsh).
  intros H1 H2. apply in_map_iff in H1. destruct H1 as [s [E1 H1]]. apply in_map_iff in H2. destruct H2 as [s' [E2 H2]].
  rewrite <- E2 in E1. apply inst_inj in E1. subst s'.
  apply nodup_In in H1. apply nodup_In in H2.
  assert (X : share a b = true).
  { unfold share. apply existsb_exists. exists s. split; [assumption|]. apply existsb_exists. exists s. split; [assumption|].
    apply slock_eqb_eq. reflexivity. }
  rewrite X in Hsh. discriminate.
Qed.

Lemma pre_state : exists s, run init_state pre = Some s /\
  (forall l, In l La -> s l = Some 1%N) /\ (forall l, In l Lb -> s l = Some 2%N).
Proof.
  destruct (run_acqs 1%N La init_state La_nodup (fun _ _ => eq_refl)) as (s1 & Hr1 & Hin1 & Hout1).
  destruct (run_acqs 2%N Lb s1 Lb_nodup) as (s2 & Hr2 & Hin2 & Hout2).
  { intros l Hl. rewrite Hout1; [reflexivity|]. intros X. exact (La_Lb_disjoint l X Hl). }
  exists s2. split; [unfold pre; rewrite run_app, Hr1; exact Hr2|]. split.
  - intros l Hl. rewrite Hout2; [apply Hin1; assumption|]. intros X. exact (La_Lb_disjoint l Hl X).
  - exact Hin2.
Qed.

Lemma tr_acc j t k y site : nth_error tr j = Some (t, Acc k y site) ->
  (j = n /\ t = 1%N /\ k = e_kind a /\ y = x /\ site = sa) \/ (j = S n /\ t = 2%N /\ k = e_kind b /\ y = x /\ site = sb).
Proof.
  intros H. unfold tr, w_tr in H. destruct (Nat.lt_ge_cases j n) as [Hlt | Hge].
  - exfalso. rewrite nth_error_app1 in H by exact Hlt. unfold pre in H.
    destruct (Nat.lt_ge_cases j (length (acqs 1%N La))) as [H1 | H1].
    + rewrite nth_error_app1 in H by exact H1. eapply acqs_no_acc; exact H.
    + rewrite nth_error_app2 in H by exact H1. eapply acqs_no_acc; exact H.
  - rewrite nth_error_app2 in H by exact Hge. fold n in H.
    destruct (j - n) as [|[|d]] eqn:E; cbn in H.
    + left. inversion H; subst. repeat split; try reflexivity. lia.
    + right. inversion H; subst. repeat split; try reflexivity. lia.
    + destruct d; discriminate.
Qed.

Lemma tr_shape j e : nth_error tr j = Some e ->
  (exists t l, e = (t, Acq l)) \/ (exists t k y site, e = (t, Acc k y site)).
Proof.
  intros H. unfold tr, w_tr in H. destruct (Nat.lt_ge_cases j n) as [Hlt | Hge].
  - left. rewrite nth_error_app1 in H by exact Hlt. unfold pre in H.
    destruct (Nat.lt_ge_cases j (length (acqs 1%N La))) as [H1 | H1].
    + rewrite nth_error_app1 in H by exact H1. destruct (acqs_only_acq _ _ _ _ H) as [l E]. eauto.
    + rewrite nth_error_app2 in H by exact H1. destruct (acqs_only_acq _ _ _ _ H) as [l E]. eauto.
  - right. rewrite nth_error_app2 in H by exact Hge. fold n in H.
    destruct (j - n) as [|[|d]]; cbn in H.
    + inversion H. eauto.
    + inversion H. eauto.
    + destruct d; discriminate.
Qed.

Lemma tr_n : nth_error tr n = Some (1%N, Acc (e_kind a) x sa).
Proof. unfold tr, w_tr. rewrite nth_error_app2 by (unfold n; lia). fold n. rewrite Nat.sub_diag. reflexivity. Qed.
Lemma tr_Sn : nth_error tr (S n) = Some (2%N, Acc (e_kind b) x sb).
Proof. unfold tr, w_tr. rewrite nth_error_app2 by (unfold n; lia). fold n. replace (S n - n) with 1 by lia. reflexivity. Qed.

Lemma tr_wf : wf_trace tr.
Proof.
  destruct pre_state as (s & Hr & _). split; [|split].
  - exists s. unfold tr, w_tr. rewrite run_app, Hr. reflexivity.
  - intros i t c g H. exfalso. unfold tr, w_tr in H. destruct (Nat.lt_ge_cases i n) as [Hlt | Hge].
    + rewrite nth_error_app1 in H by exact Hlt. unfold pre in H.
      destruct (Nat.lt_ge_cases i (length (acqs 1%N La))) as [H1 | H1].
      * rewrite nth_error_app1 in H by exact H1. eapply acqs_no_fork; exact H.
      * rewrite nth_error_app2 in H by exact H1. eapply acqs_no_fork; exact H.
    + rewrite nth_error_app2 in H by exact Hge. fold n in H.
      destruct (i - n) as [|[|d]]; cbn in H; try discriminate. destruct d; discriminate.
  - intros q t c H. exfalso. destruct (tr_shape _ _ H) as [(t0 & l & E) | (t0 & k & y & site & E)]; discriminate.
Qed.

Lemma state_n : exists s, state_at tr n = Some s /\ (forall l, In l La -> s l = Some 1%N) /\ (forall l, In l Lb -> s l = Some 2%N).
Proof.
  destruct pre_state as (s & Hr & H1 & H2). exists s. split; [|split; assumption].
  unfold state_at, tr, w_tr, n. rewrite firstn_len_app. exact Hr.
Qed.

Lemma state_Sn : exists s, state_at tr (S n) = Some s /\ (forall l, In l La -> s l = Some 1%N) /\ (forall l, In l Lb -> s l = Some 2%N).
Proof.
  destruct state_n as (s & Hs & H1 & H2). exists s. split; [|split; assumption].
  rewrite (state_at_S tr n _ s tr_n Hs). reflexivity.
Qed.

Variables ca cb : N.
Hypothesis Hca : In ca (e_clss a).
Hypothesis Hcb : In cb (e_clss b).
Hypothesis Hconc : ca <> cb \/ ~ In ca (singles T).

Definition w_cls (t : tid) : N :=
  if N.eqb t 1 then ca else if N.eqb t 2 then cb else fresh_cls (singles T).

Lemma tr_conforms : conforms T w_cls tr.
Proof.
  destruct bad_facts as (Hfb & _). split.
  - intros j t k y site H. destruct (tr_acc _ _ _ _ _ H) as [(Hj & Ht & Hk & Hy & Hs) | (Hj & Ht & Hk & Hy & Hs)]; subst j t k y site.
    + exists a. split; [assumption|]. split; [reflexivity|]. split; [reflexivity|]. split; [assumption|]. split; [|split].
      * intros s Hs. destruct state_n as (st & Hst & H1 & _). exists st. split; [exact Hst|].
        apply H1. unfold La. apply in_map. apply nodup_In. exact Hs.
      * intros k _ p t' Hp. exfalso. destruct (tr_shape _ _ Hp) as [(t0 & l & E) | (t0 & k0 & y & site & E)]; discriminate.
      * intros k Hk. rewrite Haa in Hk. destruct Hk.
    + exists b. split; [assumption|]. split; [assumption|]. split; [reflexivity|]. split; [assumption|]. split; [|split].
      * intros s Hs. destruct state_Sn as (st & Hst & _ & H2). exists st. split; [exact Hst|].
        apply H2. unfold Lb. apply in_map. apply nodup_In. exact Hs.
      * intros k _ p t' Hp. exfalso. destruct (tr_shape _ _ Hp) as [(t0 & l & E) | (t0 & k0 & y & site & E)]; discriminate.
      * intros k Hk. rewrite Hab in Hk. destruct Hk.
  - intros t t' Hin Heq. unfold w_cls in *.
    pose proof (fresh_cls_notin (singles T)) as Hfr.
    destruct (N.eqb t 1) eqn:E1; destruct (N.eqb t' 1) eqn:E1'.
    + apply N.eqb_eq in E1. apply N.eqb_eq in E1'. congruence.
    + destruct (N.eqb t' 2) eqn:E2'.
      * exfalso. destruct Hconc as [X | X]; [apply X; exact Heq | apply X; exact Hin].
      * exfalso. apply Hfr. rewrite <- Heq. exact Hin.
    + destruct (N.eqb t 2) eqn:E2.
      * exfalso. destruct Hconc as [X | X]; [apply X; symmetry; exact Heq | apply X; rewrite <- Heq; exact Hin].
      * exfalso. apply Hfr. exact Hin.
    + destruct (N.eqb t 2) eqn:E2; destruct (N.eqb t' 2) eqn:E2'.
      * apply N.eqb_eq in E2. apply N.eqb_eq in E2'. congruence.
      * exfalso. apply Hfr. rewrite <- Heq. exact Hin.
      * exfalso. apply Hfr. exact Hin.
      * exfalso. apply Hfr. exact Hin.
Qed.

Lemma tr_safe_init : safe_init T tr.
Proof.
  destruct bad_facts as (_ & _ & Hia & Hib & _).
  intros i j t1 t2 k1 k2 y s1 s2 e Hi Hj Hne He Hinit. exfalso.
  destruct (tr_acc _ _ _ _ _ Hi) as [(_ & _ & _ & _ & Hs) | (_ & _ & _ & _ & Hs)]; subst s1.
  - rewrite Ha in He. inversion He; subst e. rewrite Hia in Hinit. discriminate.
  - rewrite Hb in He. inversion He; subst e. rewrite Hib in Hinit. discriminate.
Qed.

Lemma tr_racy : ~ race_free tr.
Proof.
  destruct bad_facts as (_ & Hrd & _).
  intros Hrf.
  assert (Hw : e_kind a = Wr \/ e_kind b = Wr).
  { unfold both_rd in Hrd. destruct (e_kind a); [|left; reflexivity]. destruct (e_kind b); [cbn in Hrd; discriminate | right; reflexivity]. }
  assert (Hhb : hb tr n (S n)).
  { eapply (Hrf n (S n) 1%N 2%N); [lia | exact tr_n | exact tr_Sn | discriminate | exact Hw | exact I]. }
  destruct (hb_adjacent _ _ _ Hhb eq_refl) as [(t & o1 & o2 & H1 & H2) | [(t & l & H1) | [(t & c & g & H1) | (t & c & H1)]]].
  - rewrite tr_n in H1. rewrite tr_Sn in H2. inversion H1; inversion H2; subst. discriminate.
  - rewrite tr_n in H1. discriminate.
  - rewrite tr_n in H1. discriminate.
  - rewrite tr_n in H1. discriminate.
Qed.

End Witness.

Lemma forallb_false_exists {A} (f : A -> bool) l : forallb f l = false -> exists x, In x l /\ f x = false.
Proof.
  induction l as [|a l IH]; cbn; [discriminate|]. intros H. apply andb_false_iff in H. destruct H as [H | H].
  - exists a. split; [left; reflexivity | exact H].
  - destruct (IH H) as (x & Hx & Hf). exists x. split; [right; exact Hx | exact Hf].
Qed.

(** a pair the check rejects, neither side of which relies on an observed signal *)
Definition plain_bad_pair (T : table) : bool :=
  existsb (fun a => existsb (fun b => negb (pair_ok (singles T) a b) &&
     match e_after a, e_after b with [], [] => true | _, _ => false end) (entries T)) (entries T).

(** the converse of [lockset_sound] *)
Theorem lockset_tight (T : table) :
  plain_bad_pair T = true ->
  exists (cls_of : tid -> N) (tr : trace), wf_trace tr /\ conforms T cls_of tr /\ safe_init T tr /\ ~ race_free tr.
Proof.
  intros H. unfold plain_bad_pair in H.
  apply existsb_exists in H. destruct H as (a & Ha & H).
  apply existsb_exists in H. destruct H as (b & Hb & H).
  apply andb_true_iff in H. destruct H as [Hp Haft]. apply negb_true_iff in Hp.
  assert (Haa : e_after a = []) by (destruct (e_after a); [reflexivity | discriminate]).
  assert (Hab : e_after b = []) by (rewrite Haa in Haft; destruct (e_after b); [reflexivity | discriminate]).
  apply In_nth_error in Ha. destruct Ha as [sa Ha]. apply In_nth_error in Hb. destruct Hb as [sb Hb].
  assert (Hmc : may_conc (singles T) a b = true).
  { pose proof Hp as Hp'. unfold pair_ok in Hp'.
    apply orb_false_iff in Hp'. destruct Hp' as [Hp' _].
    apply orb_false_iff in Hp'. destruct Hp' as [Hp' _]. apply orb_false_iff in Hp'. destruct Hp' as [_ Hmc].
    apply negb_false_iff in Hmc. exact Hmc. }
  unfold may_conc in Hmc. apply existsb_exists in Hmc. destruct Hmc as (ca & Hca & Hmc).
  apply existsb_exists in Hmc. destruct Hmc as (cb & Hcb & Hc).
  assert (Hconc : ca <> cb \/ ~ In ca (singles T)).
  { apply orb_true_iff in Hc. destruct Hc as [Hc | Hc].
    - left. apply negb_true_iff in Hc. apply N.eqb_neq. exact Hc.
    - right. apply negb_true_iff in Hc. intros X. apply memN_In in X. rewrite X in Hc. discriminate. }
  exists (w_cls T ca cb), (w_tr a b sa sb). split; [|split; [|split]].
  - eapply tr_wf; eassumption.
  - eapply tr_conforms; eassumption.
  - eapply tr_safe_init; eassumption.
  - eapply tr_racy; eassumption.
Qed.
