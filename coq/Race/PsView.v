(** Race/PsView.v - the running-models view (`GET /api/ps`) never shows a torn-down runner.

    Model of the critical sections of server/sched.go and server/routes.go that touch the `loaded` map, at the
    granularity at which the (repaired) code holds `loadedMu`:

      Publish p r   load():               s.loaded[p] = r                 (r freshly created, open)
      Teardown r    processCompleted():   r.unload(); delete(s.loaded, r.modelPath)   -- ONE loadedMu section
      Snapshot      PsHandler():          walk of the map under loadedMu

    and, for the unrepaired handler (no lock), the same teardown split in its two halves [Close r] and
    [Delete p], between which an unlocked walk can run.  The atomic system keeps "every runner in the map is
    open"; the split system does not. *)
From Coq Require Import List NArith Bool Lia.
Import ListNotations.

Definition rid := N.
Definition path := N.

Record st := mkSt {
  loaded : list (path * rid);   (* the map, as an association list (first match wins) *)
  closed : list rid             (* runners whose unload() has run *)
}.

Definition init_st : st := mkSt [] [].

Definition memN (x : N) (l : list N) : bool := existsb (N.eqb x) l.
Definition del (p : path) (m : list (path * rid)) : list (path * rid) := filter (fun e => negb (N.eqb (fst e) p)) m.
Definition path_of (r : rid) (m : list (path * rid)) : option path :=
  match find (fun e => N.eqb (snd e) r) m with Some e => Some (fst e) | None => None end.

Inductive act :=
| Publish (p : path) (r : rid)     (* atomic, under loadedMu *)
| Teardown (p : path) (r : rid)    (* atomic, under loadedMu: close r, delete loaded[p] (by path, whatever is there) *)
| Close (r : rid)                  (* first half of a non-atomic teardown *)
| Delete (p : path).               (* second half *)

Definition step (s : st) (a : act) : st :=
  match a with
  | Publish p r => mkSt ((p, r) :: del p (loaded s)) (closed s)
  | Teardown p r => mkSt (del p (loaded s)) (r :: closed s)
  | Close r => mkSt (loaded s) (r :: closed s)
  | Delete p => mkSt (del p (loaded s)) (closed s)
  end.

Definition run (s : st) (l : list act) : st := fold_left step l s.

(** what a walk of the map reports *)
Definition snapshot (s : st) : list rid := map snd (loaded s).
Definition torn (s : st) : bool := existsb (fun r => memN r (closed s)) (snapshot s).

(** the scheduler's discipline: a runner is created fresh (never closed before it is published), and a
    teardown names the path under which the runner is stored, if it is stored at all *)
Fixpoint disciplined (s : st) (l : list act) : Prop :=
  match l with
  | [] => True
  | a :: l' =>
      (match a with
       | Publish _ r => memN r (closed s) = false
       | Teardown p r => forall p', In (p', r) (loaded s) -> p' = p
       | Close _ | Delete _ => False   (* the repaired code has no split teardown visible to a locked walk *)
       end) /\ disciplined (step s a) l'
  end.

Definition inv (s : st) : Prop := forall p r, In (p, r) (loaded s) -> memN r (closed s) = false.

Lemma in_del p q r m : In (q, r) (del p m) -> In (q, r) m /\ q <> p.
Proof.
  unfold del. rewrite filter_In. cbn. intros [H1 H2]. split; [assumption|].
  apply negb_true_iff in H2. apply N.eqb_neq in H2. assumption.
Qed.

Lemma inv_step s a : inv s -> disciplined s [a] -> inv (step s a).
Proof.
  intros Hi [Hd _] q r Hin. destruct a as [p r0 | p r0 | r0 | p]; cbn in *; try contradiction.
  - destruct Hin as [Heq | Hin].
    + inversion Heq; subst. assumption.
    + apply in_del in Hin. apply (Hi q r). apply Hin.
  - apply in_del in Hin. destruct Hin as [Hin Hne].
    destruct (N.eqb r r0) eqn:E.
    + apply N.eqb_eq in E; subst r0. exfalso. apply Hne. apply (Hd q Hin).
    + cbn. apply (Hi q r Hin).
Qed.

Lemma inv_run l : forall s, inv s -> disciplined s l -> inv (run s l).
Proof.
  induction l as [|a l IH]; intros s Hi Hd; cbn; [assumption|].
  destruct Hd as [Ha Hl]. apply IH; [|assumption].
  apply inv_step; [assumption | split; [assumption | exact I]].
Qed.

Lemma inv_not_torn s : inv s -> torn s = false.
Proof.
  intros Hi. unfold torn, snapshot.
  destruct (existsb (fun r => memN r (closed s)) (map snd (loaded s))) eqn:E; [|reflexivity].
  apply existsb_exists in E. destruct E as [r [Hin Hc]]. apply in_map_iff in Hin.
  destruct Hin as [[p r'] [Heq Hin]]. cbn in Heq; subst r'. rewrite (Hi p r Hin) in Hc. discriminate.
Qed.

Lemma no_torn_view l : disciplined init_st l -> torn (run init_st l) = false.
Proof.
  intros Hd. apply inv_not_torn. apply inv_run; [|assumption]. intros p r H; destruct H.
Qed.

(** the unrepaired handler: a walk between the two halves of a teardown sees a closed runner *)
Definition split_witness : list act := [Publish 1%N 7%N; Close 7%N].
Lemma split_torn : torn (run init_st split_witness) = true.
Proof. reflexivity. Qed.
