(** Race/Refcount.v - accesses ordered by a reference-count protocol instead of a mutex.

    `scheduleRunner` (server/routes.go) reads `runner.llama` without `refMu`; `runnerRef.unload` writes it.  What
    orders the two is the reference the request holds: the scheduler grants a reference (refCount++ under refMu) and
    hands the runner over on `successCh`; the request's reference is released by the finished event the scheduler
    consumes (refCount-- under refMu) after the request's context ended; the runner is torn down only at refCount 0.

    In the trace model: a reference n to runner r has two signals, [G n] (posted by the scheduler when it hands the
    runner out, observed by the request before it touches the runner) and [R n] (posted on the request's side after
    its last use, observed by the scheduler when it consumes the finished event).  The hypothesis [guarded] is the
    reference-count invariant (C01_no_close_in_use / C01_no_grant_closed, coq/Sched): a teardown write happens
    either before the reference is granted or after its release has been consumed. *)
From Coq Require Import List NArith Bool Lia Arith.
From V Require Import Race.Lockset.
Import ListNotations.

Section Ref.
Variable tr : trace.
Variables (gsig rsig : lock).   (* the grant / release signals of one reference *)

(** the use at index i by thread h is inside the reference: after observing the grant, before the release is posted *)
Definition inside (i : nat) (h : tid) : Prop :=
  (exists g, g < i /\ nth_error tr g = Some (h, Wait gsig)) /\
  (exists p t, nth_error tr p = Some (t, Post rsig)) /\
  (forall p t, nth_error tr p = Some (t, Post rsig) -> i = p \/ hb tr i p).

(** the teardown at index j respects the reference: it is before every grant of it or after a consumed release *)
Definition guarded (j : nat) (w : tid) : Prop :=
  (forall p t, nth_error tr p = Some (t, Post gsig) -> hb tr j p) \/
  (exists q, nth_error tr q = Some (w, Wait rsig) /\ q < j).

Theorem refcount_ordered i j h w oi oj :
  wf_trace tr -> nth_error tr i = Some (h, oi) -> nth_error tr j = Some (w, oj) ->
  inside i h -> guarded j w -> hb tr i j \/ hb tr j i.
Proof.
  intros (_ & _ & Hwp) Hi Hj ((g & Hgi & Hg) & (p0 & t0 & Hp0) & Hrel) [Hbefore | (q & Hq & Hqj)].
  - right. destruct (Hwp g h gsig Hg) as (p & t' & Hpg & Hp).
    eapply hb_trans; [exact (Hbefore p t' Hp)|].
    eapply hb_trans; [eapply hb_post; [exact Hpg | exact Hp | exact Hg]|].
    eapply hb_po; [exact Hgi | exact Hg | exact Hi].
  - left. destruct (Hwp q w rsig Hq) as (p & t' & Hpq & Hp).
    assert (Hip : i = p \/ hb tr i p) by (eapply Hrel; exact Hp).
    assert (Hpj : hb tr p j).
    { eapply hb_trans; [eapply hb_post; [exact Hpq | exact Hp | exact Hq]|].
      eapply hb_po; [exact Hqj | exact Hq | exact Hj]. }
    destruct Hip as [E | Hip]; [subst p; exact Hpj | eapply hb_trans; [exact Hip | exact Hpj]].
Qed.
End Ref.

(** a concrete history: scheduler (thread 1) grants, request (2) reads llama, its finisher (3) releases, the
    scheduler consumes the release and tears the runner down *)
Definition ex_g : lock := (7%N, 100%N).
Definition ex_r : lock := (7%N, 101%N).
Definition ex_tr : trace :=
  [(1%N, Post ex_g); (2%N, Wait ex_g); (2%N, Acc Rd (7%N, 21%N) 0); (2%N, Fork 3%N []); (3%N, Post ex_r);
   (1%N, Wait ex_r); (1%N, Acc Wr (7%N, 21%N) 1)].

Lemma ex_wf : wf_trace ex_tr.
Proof.
  split; [|split].
  - eexists. vm_compute. reflexivity.
  - intros i t c g H. destruct i as [|[|[|[|[|[|[|i]]]]]]]; cbn in H; try discriminate; try (destruct i; discriminate).
    inversion H; subst. split; [discriminate|]. intros j e Hj He.
    destruct j as [|[|[|[|j]]]]; cbn in He; try (inversion He; subst; cbn; discriminate). lia.
  - intros q t c H. destruct q as [|[|[|[|[|[|[|q]]]]]]]; cbn in H; try discriminate; try (destruct q; discriminate).
    + inversion H; subst. exists 0, 1%N. split; [lia | reflexivity].
    + inversion H; subst. exists 4, 3%N. split; [lia | reflexivity].
Qed.

Example ex_ordered : hb ex_tr 2 6.
Proof.
  destruct (refcount_ordered ex_tr ex_g ex_r 2 6 2%N 1%N _ _ ex_wf eq_refl eq_refl) as [H | H]; [ | | exact H | ].
  - split; [exists 1; split; [lia | reflexivity]|]. split; [exists 4, 3%N; reflexivity|].
    intros p t Hp. destruct p as [|[|[|[|[|[|[|p]]]]]]]; cbn in Hp; try discriminate; try (destruct p; discriminate).
    right. eapply hb_trans; [eapply (hb_po _ 2 3); [lia | reflexivity | reflexivity]|].
    eapply (hb_fork _ 3 4); [lia | reflexivity | reflexivity].
  - right. exists 5. split; [reflexivity | lia].
  - apply hb_lt in H. lia.
Qed.
