(** Model of sample/samplers.go and sample/transforms.go (grammar = nil), construct by construct.

    A token is (id, value).  Arithmetic is exact binary32 (F32.v).  [exp] is the only oracle: the Section variable
    [E] stands for  fun x => float32(math.Exp(float64(x)))  and is instantiated by the correspondence check with a
    table produced by the implementation's own math.Exp.  The random draw of [sample] is an input ([r], the
    float32 returned by rng.Float32()).

    topK is modelled at specification level: a *stable* descending sort followed by [firstn k].  The Go code
    uses pdqsort (k <= 0 or k >= n) or a min-heap (otherwise); both return the same sequence of values, but may
    order tokens of equal value differently; the check therefore compares topK's output by value and membership
    and ties every later stage to the implementation's own topK output.

    The model describes the code *with* fixes/C18-softmax-overflow.patch applied ([scale] clamps a finite logit
    that overflows under the temperature division; [softmax] gives +Inf logits the difference 0).  Definitions only. *)
From Coq Require Import ZArith List Bool SpecFloat.
From V Require Import Sample.F32.
Import ListNotations.
Open Scope Z_scope.

Definition tok : Type := (Z * sf)%type.
Definition tid (t : tok) : Z := fst t.
Definition tv (t : tok) : sf := snd t.

Inductive res : Type :=
| Tok (t : tok)          (* a token was returned *)
| ErrEmpty               (* "no logits provided to sample" *)
| ErrNaN                 (* "logits sum to NaN" *)
| Panic.                 (* index out of range *)

(** ** NewSampler: parameter clamping *)
Record params : Type := mkParams { p_temp : sf; p_topk : Z; p_topp : sf; p_minp : sf }.

Definition clamp01 (p : sf) : sf :=
  let p1 := if flt p fzero then fzero else p in
  if fle fone p1 then fone else p1.

Definition new_sampler (temp : sf) (k : Z) (topp minp : sf) : params :=
  mkParams (if flt temp fzero then fzero else temp) k (clamp01 topp) (clamp01 minp).

(** ** greedy *)
Fixpoint greedy_from (mx : tok) (l : list tok) : tok :=
  match l with
  | [] => mx
  | t :: r => greedy_from (if fgt (tv t) (tv mx) then t else mx) r
  end.

(** ** topK (specification level) *)
Fixpoint insert_desc (x : tok) (l : list tok) : list tok :=
  match l with
  | [] => [x]
  | y :: r => if flt (tv x) (tv y) then y :: insert_desc x r else x :: l
  end.

Definition sort_desc (l : list tok) : list tok := fold_right insert_desc [] l.

(** the number of tokens topK keeps *)
Definition eff_k (n : nat) (k : Z) : nat :=
  if (Z.of_nat n <=? k) || (k <=? 0) then n else Z.to_nat k.

Definition topK (ts : list tok) (k : Z) : list tok :=
  if (Z.of_nat (length ts) <=? k) || (k <=? 0) then sort_desc ts
  else firstn (Z.to_nat k) (sort_desc ts).

(** ** temperature (patched: a finite logit stays finite) *)
Definition eff_temp (temp : sf) : sf :=     (* max(temp, 1e-7), Go builtin max on float32 *)
  if is_nan temp then fnan else if flt temp ftiny then ftiny else temp.

Definition scale (temp : sf) (v : sf) : sf :=
  let q := fdiv v temp in
  if is_inf q && negb (is_inf v) then (if sf_sign q then fmaxneg else fmaxpos) else q.

Definition temperature (ts : list tok) (temp : sf) : list tok :=
  let t := eff_temp temp in map (fun x => (tid x, scale t (tv x))) ts.

Section WithExp.
Variable E : sf -> sf.

(** ** softmax (patched: +Inf - +Inf is taken as 0) *)
Definition max_logit (ts : list tok) : sf :=
  fold_left (fun m t => if fgt (tv t) m then tv t else m) ts ninf.

Definition sm_diff (mx v : sf) : sf := if is_pinf v then fzero else fsub v mx.

Definition softmax (ts : list tok) : list tok :=
  let mx := max_logit ts in
  let es := map (fun t => (tid t, E (sm_diff mx (tv t)))) ts in
  let sum := fold_left (fun s t => fadd s (tv t)) es fzero in
  map (fun t => (tid t, fdiv (tv t) sum)) es.

(** ** topP *)
Fixpoint topP_cut (p : sf) (sum : sf) (l : list tok) : nat :=   (* number of tokens kept *)
  match l with
  | [] => O
  | t :: r => let s := fadd sum (tv t) in if fgt s p then 1%nat else S (topP_cut p s r)
  end.

Definition topP (ts : list tok) (p : sf) : list tok :=
  if feq p fone then ts else firstn (topP_cut p fzero ts) ts.

(** ** minP *)
Fixpoint minP_cut (thr : sf) (l : list tok) : nat :=
  match l with
  | [] => O
  | t :: r => if flt (tv t) thr then O else S (minP_cut thr r)
  end.

Definition minP (ts : list tok) (p : sf) : option (list tok) :=   (* None: ts[0] on an empty slice panics *)
  match ts with
  | [] => None
  | t0 :: _ => Some (firstn (minP_cut (fmul (tv t0) p) ts) ts)
  end.

(** ** cumulative sum and slices.BinarySearchFunc *)
Fixpoint cumsum (sum : sf) (l : list tok) : list tok :=
  match l with
  | [] => []
  | t :: r => let s := fadd sum (tv t) in (tid t, s) :: cumsum s r
  end.

(** the loop of slices.BinarySearchFunc with cmp = (value < target ? -1 : 1) *)
Fixpoint bsearch (fuel : nat) (x : list tok) (target : sf) (i j : nat) : nat :=
  match fuel with
  | O => i
  | S f =>
      if (i <? j)%nat then
        let h := ((i + j) / 2)%nat in
        if flt (tv (nth h x (0, fnan))) target then bsearch f x target (S h) j
        else bsearch f x target i h
      else i
  end.

Definition pick (ts : list tok) (r : sf) : res :=    (* the tail of sample() after minP *)
  match ts with
  | [] => Panic                                        (* tokens[len(tokens)-1] *)
  | _ =>
      let cs := cumsum fzero ts in
      let total := tv (last cs (0, fnan)) in
      let r' := fmul r total in
      let idx := bsearch (S (length cs)) cs r' 0 (length cs) in
      if is_nan total then ErrNaN
      else match nth_error cs idx with Some t => Tok t | None => Panic end
  end.

(** ** sample: the stages after topK, on an already sorted list (used stage-wise by the tie) *)
Definition after_topk (pr : params) (sorted : list tok) (r : sf) : res :=
  let ts := softmax (temperature sorted (p_temp pr)) in
  match minP (topP ts (p_topp pr)) (p_minp pr) with
  | None => Panic
  | Some ts' => pick ts' r
  end.

Definition sample (pr : params) (ts : list tok) (r : sf) : res :=
  match ts with
  | [] => Panic                                        (* greedy: tokens[0] *)
  | t0 :: rest =>
      if feq (p_temp pr) fzero then Tok (greedy_from t0 rest)
      else after_topk pr (topK ts (p_topk pr)) r
  end.

(** ** Sampler.Sample *)
Fixpoint enumerate (i : Z) (l : list sf) : list tok :=
  match l with [] => [] | v :: r => (i, v) :: enumerate (i + 1) r end.

Definition Sample (pr : params) (logits : list sf) (r : sf) : res :=
  match logits with
  | [] => ErrEmpty
  | _ => sample pr (enumerate 0 logits) r
  end.

(** ** Sampler.Sample with a grammar.  [rej i] = the grammar (in its current state) rejects token id i: grammar.Apply
    sets the value of a rejected token to -Inf and leaves the others alone (an oracle; the check uses the real llama.cpp
    grammar sampler).  First the unconstrained pick is tried; if the grammar rejects it the token slice is *reset* -
    every id paired again with its own logit - masked, and sampled again (with a second draw). *)
Definition mask (rej : Z -> bool) (ts : list tok) : list tok :=
  map (fun t => (tid t, if rej (tid t) then ninf else tv t)) ts.

(** the same on the logit vector: position i (id s+i) keeps its own logit or becomes -Inf *)
Fixpoint mask_logits (rej : Z -> bool) (s : Z) (l : list sf) : list sf :=
  match l with [] => [] | v :: r => (if rej s then ninf else v) :: mask_logits rej (s + 1) r end.

Definition first_pick_rejected (rej : Z -> bool) (t : tok) : bool := rej (tid t) || is_ninf (tv t).

Definition Sample_grammar (pr : params) (rej : Z -> bool) (logits : list sf) (r1 r2 : sf) : res :=
  match logits with
  | [] => ErrEmpty
  | _ =>
      let ts := enumerate 0 logits in
      match sample pr ts r1 with
      | Tok t => if first_pick_rejected rej t then sample pr (mask rej ts) r2 else Tok t
      | e => e
      end
  end.

(** draws consumed by one grammar-constrained call: none (greedy), one (first pick accepted or error), two *)
Definition grammar_draws (pr : params) (rej : Z -> bool) (logits : list sf) (r1 : sf) : Z :=
  match logits with
  | [] => 0
  | _ => if feq (p_temp pr) fzero then 0
         else match sample pr (enumerate 0 logits) r1 with
              | Tok t => if first_pick_rejected rej t then 2 else 1
              | _ => 1
              end
  end.

(** does this call consume a draw of the generator?  (one per call unless greedy or empty) *)
Definition draws (pr : params) (logits : list sf) : bool :=
  match logits with [] => false | _ => negb (feq (p_temp pr) fzero) end.

(** a stream of calls with the generator's draws supplied as a list (model of "same seed, same stream") *)
Fixpoint Sample_stream (pr : params) (stream : list (list sf)) (rs : list sf) : list res :=
  match stream with
  | [] => []
  | l :: rest =>
      if draws pr l then
        match rs with
        | r :: rs' => Sample pr l r :: Sample_stream pr rest rs'
        | [] => []
        end
      else Sample pr l fzero :: Sample_stream pr rest rs
  end.

End WithExp.
