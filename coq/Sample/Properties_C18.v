(** Property C18 - the sampler returns an admissible token, deterministically under a seed.

    Theorems only; every proof is a reference to Proofs.v / F32Facts.v.  The model (Model.v) is the code of
    sample/samplers.go + sample/transforms.go with fixes/C18-softmax-overflow.patch applied, over exact binary32
    arithmetic (Coq's SpecFloat at precision 24, emax 128).  Quantifiers:
      - logits: every list of binary32 *numbers* ([Forall num]: any finite value, +-0, subnormals, +-Inf; no NaN) -
        by [C18_every_bit_pattern_valid] every 32-bit pattern that is not a NaN is such a number;
      - temperature / top-p / min-p: every binary32 number, the temperature not infinite; top-k: every integer;
      - the draw r = rng.Float32(): every number in [0,1];
      - exp: any function satisfying [exp_oracle_ok] (tested against math.Exp on every run of the check);
      - topK: *any* arrangement the sort / heap may produce among equal values ([legal_topk]).
    [Print Assumptions] shows the real-number axioms of the Coq standard library (used through Flocq in F32Facts.v). *)
From Coq Require Import ZArith List Bool SpecFloat Reals.
From V Require Import Sample.F32 Sample.Model Sample.F32Facts Sample.Proofs Sample.ProofsMono Sample.ProofsGrammar Sample.Corr Sample.CorrProofs.
Import ListNotations.
Open Scope Z_scope.

(** what the theorems assume of  x |-> float32(math.Exp(float64(x))) *)
Definition exp_oracle_ok (E : sf -> sf) : Prop :=
  (forall x, num x -> (rk x <= 0)%R -> num (E x) /\ (0 <= rk (E x) <= 1)%R) /\
  (forall x, is_zero x = true -> E x = fone) /\
  is_zero (E ninf) = true /\
  is_nan (E fnan) = true.

(** ** every float32 bit pattern is a valid datum of the model's carrier *)
Theorem C18_every_bit_pattern_valid : forall b : Z, valid (f32_of_bits b) = true.
Proof. exact f32_of_bits_valid. Qed.
Print Assumptions C18_every_bit_pattern_valid.

(** ** a token, inside the vocabulary, whose logit is not -Inf - whenever some logit is not -Inf (in particular
    whenever some logit is finite), for every temperature (zero or not), top-k, top-p, min-p and draw.
    The draw r = 0 is included ([draw_ok] is 0 <= r <= 1): the binary search then returns position 0 whatever the
    probabilities are, and the theorem holds because the list was *sorted by topK first*, so position 0 is a maximal
    logit (Proofs.pick_spec: the chosen position is 0 or its probability is not a zero; Proofs.legal_facts: the head of a
    legal topK result dominates every logit).  On an unsorted list (vocabulary order) a -Inf token at position 0 would be
    returned for r = 0 - the model calls topK unconditionally, as the code does, also when every filter is off. *)
Theorem C18_in_vocab_and_admissible : forall E, exp_oracle_ok E ->
  forall temp k topp minp logits r,
  params_ok temp topp minp -> draw_ok r -> Forall num logits ->
  (exists x, In x logits /\ x <> ninf) ->
  exists a v, Sample E (new_sampler temp k topp minp) logits r = Tok a /\
    0 <= tid a < Z.of_nat (length logits) /\ nth_error logits (Z.to_nat (tid a)) = Some v /\ v <> ninf.
Proof. intros E (H1 & H2 & H3 & _). exact (Sample_admissible E H1 H2 H3). Qed.
Print Assumptions C18_in_vocab_and_admissible.

(** ** temperature zero (after NewSampler's clamp: every temperature <= 0): a highest-logit token *)
Theorem C18_greedy_max : forall E temp k topp minp logits r,
  Forall num logits -> logits <> [] ->
  feq (p_temp (new_sampler temp k topp minp)) fzero = true ->
  exists a, Sample E (new_sampler temp k topp minp) logits r = Tok a /\
    0 <= tid a < Z.of_nat (length logits) /\ nth_error logits (Z.to_nat (tid a)) = Some (tv a) /\
    forall x, In x logits -> flt (tv a) x = false.
Proof. exact Sample_greedy. Qed.
Print Assumptions C18_greedy_max.

Theorem C18_temperature_zero_iff : forall temp k topp minp, num temp ->
  (feq (p_temp (new_sampler temp k topp minp)) fzero = true <-> (rk temp <= 0)%R).
Proof. intros temp k topp minp H. exact (temp_zero_iff temp H). Qed.
Print Assumptions C18_temperature_zero_iff.

(** ** temperature > 0: the returned token belongs to the set the filters define.  For *any* legal topK result S
    (S = the first [eff_k] tokens of a descending arrangement of all tokens): the returned token is the token at some
    position i of S (top-k), its probability is not below min-p times the largest probability (min-p), and - unless
    top-p is 1 - every cumulative probability strictly before it does not exceed top-p (top-p prefix), all computed
    in binary32 exactly as the code does; and it is in the vocabulary with a logit that is not -Inf *)
Theorem C18_in_filter_set : forall E, exp_oracle_ok E ->
  forall temp k topp minp logits r S,
  params_ok temp topp minp -> draw_ok r -> Forall num logits ->
  (exists x, In x logits /\ x <> ninf) ->
  let pr := new_sampler temp k topp minp in
  feq (p_temp pr) fzero = false ->
  legal_topk (enumerate 0 logits) k S ->
  let probs := softmax E (temperature S (p_temp pr)) in
  exists i t a, nth_error S i = Some t /\ after_topk E pr S r = Tok a /\ tid a = tid t /\
    0 <= tid a < Z.of_nat (length logits) /\ nth_error logits (Z.to_nat (tid a)) = Some (tv t) /\ tv t <> ninf /\
    flt (nthv probs i) (fmul (nthv probs 0) (p_minp pr)) = false /\
    (feq (p_topp pr) fone = false -> forall j, (j < i)%nat -> fgt (psum fzero probs j) (p_topp pr) = false).
Proof. intros E (H1 & H2 & H3 & _). exact (after_topk_legal E H1 H2 H3). Qed.
Print Assumptions C18_in_filter_set.

(** the model's own topK is a legal one (so [Sample] is an instance of the theorem above) ... *)
Theorem C18_model_topk_legal : forall ts k, numl ts -> legal_topk ts k (topK ts k).
Proof. exact topK_legal. Qed.
Print Assumptions C18_model_topk_legal.

(** ... so is every topK output of the implementation that the correspondence check accepted ([chk_topk_legal] is
    evaluated on the real topK's output for every case without NaN) ... *)
Theorem C18_checked_topk_is_legal : forall logits k out,
  Forall (fun b => is_nan (fb b) = false) logits ->
  chk_topk_legal logits k out = true ->
  legal_topk (enumerate 0 (map fb logits)) k (decs out).
Proof. exact chk_topk_legal_sound. Qed.
Print Assumptions C18_checked_topk_is_legal.

(** ... and what "legal" means for the tokens left out: none of them is larger than a token that was kept *)
Theorem C18_topk_set : forall ts k S, numl ts -> legal_topk ts k S ->
  (length S <= eff_k (length ts) k)%nat /\
  exists rest, Permutation.Permutation (S ++ rest) ts /\
    forall s t, In s S -> In t rest -> flt (tv s) (tv t) = false.
Proof.
  intros ts k S H L. split; [|exact (legal_rest ts k S H L)].
  destruct L as (L & _ & _ & ->). apply firstn_le_length.
Qed.
Print Assumptions C18_topk_set.

(** ** reproducibility: the results of a stream of calls are a function of the parameters, the logit stream and the
    draws the generator delivered (exactly one per call unless greedy or empty); two samplers whose generators
    deliver the same draws - same seed - return the same sequence *)
Theorem C18_deterministic : forall E pr stream rs1 rs2,
  firstn (ndraws pr stream) rs1 = firstn (ndraws pr stream) rs2 ->
  (ndraws pr stream <= length rs1)%nat -> (ndraws pr stream <= length rs2)%nat ->
  Sample_stream E pr stream rs1 = Sample_stream E pr stream rs2.
Proof. exact Sample_stream_draws. Qed.
Print Assumptions C18_deterministic.

(** ** the NaN guard: when every logit is -Inf (everything masked) Sample reports the error *)
Theorem C18_all_masked_is_error : forall E, exp_oracle_ok E ->
  forall temp k topp minp logits r,
  params_ok temp topp minp -> logits <> [] -> Forall (fun x => x = ninf) logits ->
  feq (p_temp (new_sampler temp k topp minp)) fzero = false ->
  Sample E (new_sampler temp k topp minp) logits r = ErrNaN.
Proof. intros E (_ & _ & _ & H4). exact (Sample_all_masked E H4). Qed.
Print Assumptions C18_all_masked_is_error.

(** ** bounds safety of the final lookup: no index is ever out of range *)
Theorem C18_no_panic : forall E, exp_oracle_ok E ->
  forall temp k topp minp logits r,
  params_ok temp topp minp -> draw_ok r -> Forall num logits ->
  Sample E (new_sampler temp k topp minp) logits r <> Panic.
Proof. intros E (H1 & H2 & H3 & H4). exact (Sample_no_panic E H1 H2 H3 H4). Qed.
Print Assumptions C18_no_panic.

(** ** grammar-constrained sampling ([rej] = the ids the grammar rejects; any function).  Sample first tries the
    unconstrained pick; if the grammar rejects it, the token slice is reset, masked and sampled again.  The model's
    re-sample is *Sample on the masked logit vector* [mask_logits]: every id paired again with its own logit, rejected
    ids -Inf - so every theorem above (admissibility, filter sets computed from the real logits of the accepted tokens,
    bounds safety) applies to the grammar path with [logits := mask_logits rej 0 logits] ... *)
Theorem C18_grammar_is_sample_on_masked_logits : forall E pr rej logits r1 r2,
  match Sample E pr logits r1 with
  | Tok t => if first_pick_rejected rej t
             then Sample_grammar E pr rej logits r1 r2 = Sample E pr (mask_logits rej 0 logits) r2
             else Sample_grammar E pr rej logits r1 r2 = Tok t
  | e => Sample_grammar E pr rej logits r1 r2 = e
  end.
Proof. exact Sample_grammar_cases. Qed.
Print Assumptions C18_grammar_is_sample_on_masked_logits.

Theorem C18_mask_keeps_own_logit : forall rej l s i,
  nth_error (mask_logits rej s l) i = option_map (fun v => if rej (s + Z.of_nat i) then ninf else v) (nth_error l i).
Proof. exact mask_logits_nth. Qed.
Print Assumptions C18_mask_keeps_own_logit.

(** ... in particular: whenever some token the grammar accepts has a logit that is not -Inf, a token is returned, it is
    accepted by the grammar, inside the vocabulary, and its own (real) logit is not -Inf *)
Theorem C18_grammar_accepted_and_admissible : forall E, exp_oracle_ok E ->
  forall temp k topp minp rej logits r1 r2,
  params_ok temp topp minp -> draw_ok r1 -> draw_ok r2 -> Forall num logits ->
  (exists i v, nth_error logits i = Some v /\ rej (Z.of_nat i) = false /\ v <> ninf) ->
  exists a v, Sample_grammar E (new_sampler temp k topp minp) rej logits r1 r2 = Tok a /\
    0 <= tid a < Z.of_nat (length logits) /\ nth_error logits (Z.to_nat (tid a)) = Some v /\ v <> ninf /\
    rej (tid a) = false.
Proof. intros E (H1 & H2 & H3 & _). exact (Sample_grammar_admissible E H1 H2 H3). Qed.
Print Assumptions C18_grammar_accepted_and_admissible.

(** ** the sets have their textbook meaning: with an exp that is monotone on the non-positive numbers, the
    probabilities computed from any legal topK result are descending (the precondition "sorted in descending order of
    probabilities" of topP and minP in the code) ... *)
Definition exp_oracle_mono (E : sf -> sf) : Prop :=
  forall x y, num x -> num y -> (rk x <= rk y)%R -> (rk y <= 0)%R -> (rk (E x) <= rk (E y))%R.

Theorem C18_probabilities_descending : forall E, exp_oracle_ok E -> exp_oracle_mono E ->
  forall temp k topp minp logits S,
  params_ok temp topp minp -> Forall num logits ->
  (exists x, In x logits /\ x <> ninf) ->
  let pr := new_sampler temp k topp minp in
  feq (p_temp pr) fzero = false ->
  legal_topk (enumerate 0 logits) k S ->
  let probs := softmax E (temperature S (p_temp pr)) in
  numl probs /\ Sorted.StronglySorted desc probs.
Proof. intros E (H1 & H2 & H3 & _) Hm. exact (probs_sorted_legal E H1 H2 H3 Hm). Qed.
Print Assumptions C18_probabilities_descending.

(** ... on such a list minP keeps *exactly* the tokens whose probability is not below the threshold ... *)
Theorem C18_minp_set_exact : forall l thr, numl l -> num thr -> Sorted.StronglySorted descR l ->
  forall j, (j < length l)%nat -> ((j < minP_cut thr l)%nat <-> flt (nthv l j) thr = false).
Proof. exact minP_cut_exact. Qed.
Print Assumptions C18_minp_set_exact.

(** ... and topP keeps the *shortest* prefix whose cumulative probability exceeds p (everything if none does;
    [C18_in_filter_set] says no shorter prefix exceeds p) *)
Theorem C18_topp_prefix_minimal : forall l p s, l <> [] ->
  fgt (psum s l (topP_cut p s l - 1)) p = true \/
  (topP_cut p s l = length l /\ forall j, (j < length l)%nat -> fgt (psum s l j) p = false).
Proof. exact topP_cut_hit. Qed.
Print Assumptions C18_topp_prefix_minimal.

(** * Non-vacuity: the hypotheses are satisfiable, and the model computes *)
(** an oracle meeting [exp_oracle_ok] (a step function; the real exp is tested against the hypotheses by the check) *)
Definition E0 (x : sf) : sf := if is_nan x then fnan else if is_ninf x then fzero else fone.
Example exp_oracle_ok_E0 : exp_oracle_ok E0.
Proof.
  repeat split.
  - unfold E0. destruct H as [_ ->]. destruct (is_ninf x); [apply num_fzero|apply num_fone].
  - unfold E0. destruct H as [_ ->]. destruct (is_ninf x); easy.
  - unfold E0. destruct H as [_ ->]. destruct (is_ninf x); [rewrite rk_fzero|rewrite rk_fone]; apply Rle_refl || apply Rle_0_1.
  - unfold E0. destruct H as [_ ->]. destruct (is_ninf x); [rewrite rk_fzero|rewrite rk_fone]; apply Rle_refl || apply Rle_0_1.
  - intros x H. unfold E0. now destruct x.
Qed.
Example exp_oracle_mono_E0 : exp_oracle_mono E0.
Proof.
  intros x y Hx Hy Le _. unfold E0. destruct Hx as [Vx Nx], Hy as [Vy Ny]. rewrite Nx, Ny.
  destruct (is_ninf y) eqn:Iy.
  - assert (y = ninf) by (destruct y as [s|[|]| |s m e]; easy). subst y. rewrite rk_ninf in Le.
    assert (Q := rk_range x (conj Vx Nx)).
    assert (X : rk x = (- BIG)%R) by (apply Rle_antisym; [exact Le|apply Q]).
    apply (rk_ninf_iff x (conj Vx Nx)) in X. subst x. apply Rle_refl.
  - destruct (is_ninf x); [rewrite rk_fzero, rk_fone; apply Rle_0_1|apply Rle_refl].
Qed.

(** temperature 0.8, top-p 0.9, min-p 0.05, draw 0.5, logits [1.0; 2.0; -Inf; 0.5] (bit patterns as the harness ships them) *)
Definition ex_temp := f32_of_bits 1061997773.
Definition ex_topp := f32_of_bits 1063675494.
Definition ex_minp := f32_of_bits 1028443341.
Definition ex_r := f32_of_bits 1056964608.
Definition ex_logits := map f32_of_bits [1065353216; 1073741824; 4286578688; 1056964608].

Example ex_params_ok : params_ok ex_temp ex_topp ex_minp.
Proof. repeat split. Qed.
Example ex_draw_ok : draw_ok ex_r.
Proof.
  split; [now split|]. change (rk ex_r) with (Defs.F2R (Defs.Float Zaux.radix2 8388608 (-24))).
  unfold Defs.F2R. cbn. split; apply Rmult_le_reg_r with (r := 16777216%R); try apply IZR_lt; try reflexivity;
    rewrite ?Rmult_0_l, ?Rmult_1_l, Rmult_assoc, Rinv_l, Rmult_1_r; try apply IZR_le; try easy; apply not_0_IZR; easy.
Qed.
Example ex_logits_ok : Forall num ex_logits /\ (exists x, In x ex_logits /\ x <> ninf).
Proof. split; [repeat constructor|]. exists (f32_of_bits 1065353216). split; [now left|easy]. Qed.
Example ex_runs : exists a, Sample E0 (new_sampler ex_temp 3 ex_topp ex_minp) ex_logits ex_r = Tok a /\ tid a = 0.
Proof. vm_compute. eexists. split; reflexivity. Qed.
Example ex_grammar : exists a, Sample_grammar E0 (new_sampler ex_temp 0 ex_topp ex_minp) (fun i => negb (i =? 3)) ex_logits fzero ex_r = Tok a /\ tid a = 3.
Proof. vm_compute. eexists. split; reflexivity. Qed.   (* only id 3 (logit 0.5) is accepted; the first pick, id 1, is rejected *)
Example ex_not_greedy : feq (p_temp (new_sampler ex_temp 3 ex_topp ex_minp)) fzero = false.
Proof. reflexivity. Qed.
Example ex_greedy : feq (p_temp (new_sampler (f32_of_bits 3212836864) 3 ex_topp ex_minp)) fzero = true.   (* temperature -1 *)
Proof. reflexivity. Qed.
(** the repaired overflow cases: logits [3e38; 0] and [-3e38] at temperature 0.5, [+Inf; 0] at temperature 1 *)
Example ex_overflow_pos : exists a, Sample E0 (new_sampler (f32_of_bits 1056964608) 0 fone fzero) (map f32_of_bits [2137108966; 0]) ex_r = Tok a /\ tid a = 0.
Proof. vm_compute. eexists. split; reflexivity. Qed.
Example ex_overflow_neg : exists a, Sample E0 (new_sampler (f32_of_bits 1056964608) 0 fone fzero) (map f32_of_bits [4284592614]) ex_r = Tok a /\ tid a = 0.
Proof. vm_compute. eexists. split; reflexivity. Qed.
Example ex_pos_inf : exists a, Sample E0 (new_sampler fone 0 fone fzero) [pinf; fzero] ex_r = Tok a /\ tid a = 0.
Proof. vm_compute. eexists. split; reflexivity. Qed.
