(** Property C18 - the sampler returns an admissible token, deterministically under a seed.
    Theorems only; every proof is a reference to Proofs.v. *)
From Coq Require Import ZArith List Bool SpecFloat.
From V Require Import Sample.F32 Sample.Model Sample.Proofs.
Import ListNotations.
Open Scope Z_scope.

Theorem C18_greedy_in_list : forall l mx, In (greedy_from mx l) (mx :: l).
Proof. exact greedy_from_In. Qed.
Print Assumptions C18_greedy_in_list.
