(** Facts about the binary32 arithmetic of F32.v, obtained from Flocq 4.1 (IEEE754.BinarySingleNaN).

    Coq's [SpecFloat] operations at precision 24 / emax 128 are shown equal to Flocq's [Bplus/Bminus/Bmult/Bdiv]
    with [mode_NE] (same proofs as Flocq's PrimFloat.v, which does it for binary64), so that Flocq's correctness
    theorems (result = rounding of the exact real result, or overflow) apply to the model's arithmetic.
    The lemmas exported to Proofs.v speak about [rk], an order-embedding of the non-NaN values into the reals.
    The real-number axioms of the Coq standard library enter here (and only here). *)
From Coq Require Import ZArith Reals Psatz Lia Lra SpecFloat Bool.
From Flocq Require Import Core.Core IEEE754.BinarySingleNaN.
From V Require Import Sample.F32 Sample.Model.

(** * SpecFloat = Flocq at round-to-nearest-even, any format *)
Section Bridge.
Variable prec emax : Z.
Context (prec_gt_0_ : Prec_gt_0 prec).
Context (prec_lt_emax_ : Prec_lt_emax prec emax).

Lemma round_nearest_even_equiv s m l :
  round_nearest_even m l = choice_mode mode_NE s m l.
Proof.
case l; [reflexivity|intro c].
case c; [ | reflexivity..].
now simpl; unfold Round.cond_incr; case Z.even.
Qed.

Lemma binary_round_aux_equiv sx mx ex lx :
  SpecFloat.binary_round_aux prec emax sx mx ex lx
  = binary_round_aux prec emax mode_NE sx mx ex lx.
Proof.
unfold SpecFloat.binary_round_aux, binary_round_aux.
set (mrse' := shr_fexp _ _ _ _ _).
case mrse'; intros mrs' e'; simpl.
now rewrite (round_nearest_even_equiv sx).
Qed.

Lemma binary_round_equiv s m e :
  SpecFloat.binary_round prec emax s m e =
  binary_round prec emax mode_NE s m e.
Proof.
unfold SpecFloat.binary_round, binary_round, shl_align_fexp.
set (mez := shl_align _ _ _); case mez as [mz ez].
apply binary_round_aux_equiv.
Qed.

Lemma binary_normalize_equiv m e szero :
  SpecFloat.binary_normalize prec emax m e szero
  = B2SF (binary_normalize prec emax _ _ mode_NE m e szero).
Proof.
case m as [ | p | p].
- now simpl.
- simpl; rewrite B2SF_SF2B; apply binary_round_equiv.
- simpl; rewrite B2SF_SF2B; apply binary_round_equiv.
Qed.

Lemma SFadd_equiv (x y : binary_float prec emax) :
  SFadd prec emax (B2SF x) (B2SF y) = B2SF (Bplus mode_NE x y).
Proof.
destruct x as [sx|sx| |sx mx ex Bx]; destruct y as [sy|sy| |sy my ey By];
  try (now (trivial || simpl; case Bool.eqb)).
apply binary_normalize_equiv.
Qed.

Lemma SFsub_equiv (x y : binary_float prec emax) :
  SFsub prec emax (B2SF x) (B2SF y) = B2SF (Bminus mode_NE x y).
Proof.
destruct x as [sx|sx| |sx mx ex Bx]; destruct y as [sy|sy| |sy my ey By];
  try (now (trivial || simpl; case Bool.eqb)).
simpl.
unfold Zminus.
rewrite <- cond_Zopp_negb.
apply binary_normalize_equiv.
Qed.

Lemma SFmul_equiv (x y : binary_float prec emax) :
  SFmul prec emax (B2SF x) (B2SF y) = B2SF (Bmult mode_NE x y).
Proof.
destruct x as [sx|sx| |sx mx ex Bx]; destruct y as [sy|sy| |sy my ey By]; try now trivial.
simpl.
rewrite B2SF_SF2B.
apply binary_round_aux_equiv.
Qed.

Lemma SFdiv_equiv (x y : binary_float prec emax) :
  SFdiv prec emax (B2SF x) (B2SF y) = B2SF (Bdiv mode_NE x y).
Proof.
destruct x as [sx|sx| |sx mx ex Bx]; destruct y as [sy|sy| |sy my ey By];
  try (now (trivial || simpl; case Bool.eqb)).
simpl.
rewrite B2SF_SF2B.
set (melz := SFdiv_core_binary _ _ _ _ _ _).
case melz as [[mz ez] lz].
apply binary_round_aux_equiv.
Qed.
End Bridge.

(** * binary32 *)
Local Instance P24 : Prec_gt_0 24 := eq_refl.
Local Instance PE : Prec_lt_emax 24 128 := eq_refl.
Notation bf := (binary_float 24 128).
Local Open Scope R_scope.

(** a number: a valid binary32 datum that is not NaN *)
Definition num (x : sf) : Prop := valid x = true /\ is_nan x = false.

(** order-embedding into the reals: the infinities sit at +-2^200, beyond every finite binary32 value *)
Definition BIG : R := bpow radix2 200.
Definition rk (x : sf) : R :=
  match x with
  | S754_infinity true => - BIG
  | S754_infinity false => BIG
  | _ => SF2R radix2 x
  end.

Lemma BIG_gt : bpow radix2 128 < BIG.
Proof. unfold BIG. apply bpow_lt. lia. Qed.

Lemma BIG_pos : 0 < BIG.
Proof. unfold BIG. apply bpow_gt_0. Qed.
Global Opaque BIG.

Lemma num_B : forall x, num x -> exists b : bf, x = B2SF b /\ BinarySingleNaN.is_nan b = false.
Proof.
  intros x [Hv Hn]. exists (SF2B x Hv). split.
  - now rewrite B2SF_SF2B.
  - rewrite is_nan_SF2B. destruct x; try easy.
Qed.

Lemma num_B2SF : forall b : bf, BinarySingleNaN.is_nan b = false -> num (B2SF b).
Proof.
  intros b H. split. apply valid_binary_B2SF. now destruct b.
Qed.

Lemma rk_fin : forall b : bf, is_finite b = true -> rk (B2SF b) = B2R b.
Proof. now intros [s|s| |s m e H]. Qed.

Lemma rk_fin_bound : forall b : bf, is_finite b = true -> Rabs (rk (B2SF b)) < bpow radix2 128.
Proof. intros b H. rewrite rk_fin by easy. apply abs_B2R_lt_emax. Qed.

Lemma flt_rk : forall a b, num a -> num b -> flt a b = Rlt_bool (rk a) (rk b).
Proof.
  intros a b Ha Hb.
  destruct (num_B a Ha) as (A & -> & HA). destruct (num_B b Hb) as (B & -> & HB).
  assert (G := BIG_gt). assert (G0 := BIG_pos).
  destruct (is_finite A) eqn:FA; destruct (is_finite B) eqn:FB.
  - rewrite !rk_fin by easy. now apply Bltb_correct.
  - assert (XA := rk_fin_bound A FA). apply Rabs_def2 in XA.
    destruct B as [s|[|]| |s m e H]; try easy; destruct A as [s'|s'| |s' m' e' H']; try easy;
      cbn [B2SF rk] in *; cbv [flt SFltb SFcompare]; try destruct s';
      symmetry; try (apply Rlt_bool_true; lra); try (apply Rlt_bool_false; lra).
  - assert (XB := rk_fin_bound B FB). apply Rabs_def2 in XB.
    destruct A as [s|[|]| |s m e H]; try easy; destruct B as [s'|s'| |s' m' e' H']; try easy;
      cbn [B2SF rk] in *; cbv [flt SFltb SFcompare]; try destruct s';
      symmetry; try (apply Rlt_bool_true; lra); try (apply Rlt_bool_false; lra).
  - destruct A as [s|[|]| |s m e H]; try easy; destruct B as [s'|[|]| |s' m' e' H']; try easy;
      cbn [B2SF rk]; cbv [flt SFltb SFcompare]; symmetry;
      try (apply Rlt_bool_true; lra); try (apply Rlt_bool_false; lra).
Qed.

(** rounding to nearest even in the binary32 format *)
Notation rnd := (round radix2 (SpecFloat.fexp 24 128) (round_mode mode_NE)).

Lemma rnd_le : forall x y, x <= y -> rnd x <= rnd y.
Proof. intros. apply round_le; auto with typeclass_instances. apply (fexp_correct 24 128). exact P24. Qed.

Lemma rnd_B2R : forall b : bf, rnd (B2R b) = B2R b.
Proof. intros. apply round_generic. auto with typeclass_instances. apply generic_format_B2R. Qed.

Lemma rnd_0 : rnd 0 = 0.
Proof. apply round_0. auto with typeclass_instances. Qed.

Lemma Bsign_true_le0 : forall A : bf, Bsign A = true -> B2R A <= 0.
Proof.
  intros [s|s| |s m e H]; cbn; intros; try lra. subst. apply Rlt_le, F2R_lt_0. reflexivity.
Qed.

Lemma Bsign_false_ge0 : forall A : bf, Bsign A = false -> 0 <= B2R A.
Proof.
  intros [s|s| |s m e H]; cbn; intros; try lra. subst. apply Rlt_le, F2R_gt_0. reflexivity.
Qed.

Lemma finite_not_nan : forall A : bf, is_finite A = true -> BinarySingleNaN.is_nan A = false.
Proof. now intros [s|s| |s m e H]. Qed.

Lemma rk_lt_BIG : forall A : bf, is_finite A = true -> - BIG < rk (B2SF A) < BIG.
Proof.
  intros A FA. assert (X := rk_fin_bound A FA). apply Rabs_def2 in X. assert (G := BIG_gt). lra.
Qed.

(** addition of non-negative numbers: never NaN, not below either summand *)
Lemma fadd_nonneg : forall a b, num a -> num b -> 0 <= rk a -> 0 <= rk b ->
  num (fadd a b) /\ rk a <= rk (fadd a b) /\ rk b <= rk (fadd a b).
Proof.
  intros a b Ha Hb Pa Pb.
  destruct (num_B a Ha) as (A & -> & HA). destruct (num_B b Hb) as (B & -> & HB).
  unfold fadd, F32.prec, F32.emax. rewrite (SFadd_equiv 24 128 P24 PE).
  assert (G0 := BIG_pos).
  destruct (is_finite A) eqn:FA; destruct (is_finite B) eqn:FB.
  - assert (LA := rk_lt_BIG A FA). assert (LB := rk_lt_BIG B FB).
    rewrite ?(rk_fin A FA), ?(rk_fin B FB) in *.
    generalize (Bplus_correct 24 128 _ _ mode_NE A B FA FB).
    destruct (Rlt_bool_spec (Rabs (rnd (B2R A + B2R B))) (bpow radix2 128)) as [Hlt|Hge].
    + intros (E1 & E2 & _). split; [apply num_B2SF, finite_not_nan, E2|].
      rewrite rk_fin by easy. rewrite E1. split.
      * rewrite <- (rnd_B2R A) at 1. apply rnd_le. lra.
      * rewrite <- (rnd_B2R B) at 1. apply rnd_le. lra.
    + intros (E1 & E2). rewrite E1. destruct (Bsign A) eqn:SA.
      * exfalso. assert (B2R A <= 0) by now apply Bsign_true_le0.
        assert (B2R B <= 0) by (apply Bsign_true_le0; congruence).
        replace (B2R A + B2R B) with 0 in Hge by lra. rewrite rnd_0, Rabs_R0 in Hge.
        assert (0 < bpow radix2 128) by apply bpow_gt_0. lra.
      * cbn. split; [now split|]. lra.
  - destruct B as [s|[|]| |s m e H]; try easy.
    + exfalso. cbn in Pb. lra.
    + destruct A as [s'|s'| |s' m' e' H']; try easy; cbn; (split; [now split|]); cbn in Pa; assert (X := BIG_gt);
        try lra.
      assert (Y := rk_lt_BIG (B754_finite s' m' e' H') eq_refl). cbn in Y. lra.
  - destruct A as [s|[|]| |s m e H]; try easy.
    + exfalso. cbn in Pa. lra.
    + destruct B as [s'|s'| |s' m' e' H']; try easy; cbn; (split; [now split|]); cbn in Pb; assert (X := BIG_gt);
        try lra.
      assert (Y := rk_lt_BIG (B754_finite s' m' e' H') eq_refl). cbn in Y. lra.
  - destruct A as [s|[|]| |s m e H]; try easy; destruct B as [s'|[|]| |s' m' e' H']; try easy;
      cbn in Pa, Pb; try (exfalso; lra).
    cbn. split; [now split|]. lra.
Qed.

(** adding a zero does not change the value (as seen by the comparisons) *)
Lemma fadd_zero_r : forall c z, num c -> is_zero z = true -> num (fadd c z) /\ rk (fadd c z) = rk c.
Proof.
  intros c z [Hv Hn] Hz. destruct z as [sz| | |]; try easy.
  destruct c as [s|s| |s m e]; try easy; unfold fadd; cbn;
    try (destruct (Bool.eqb s sz)); (split; [now split|reflexivity]).
Qed.

(** multiplication by a factor in [0,1]: NaN only for 0 * Inf, otherwise between 0 and the other factor *)
Lemma fmul_unit_l : forall a b, num a -> num b -> 0 <= rk a <= 1 -> 0 <= rk b ->
  (is_nan (fmul a b) = true -> is_zero a = true /\ is_pinf b = true) /\
  (is_nan (fmul a b) = false -> num (fmul a b) /\ 0 <= rk (fmul a b) <= rk b).
Proof.
  intros a b Ha Hb Pa Pb.
  destruct (num_B a Ha) as (A & -> & HA). destruct (num_B b Hb) as (B & -> & HB).
  unfold fmul, F32.prec, F32.emax. rewrite (SFmul_equiv 24 128 P24 PE).
  assert (G0 := BIG_pos). assert (G1 := BIG_gt). assert (G2 : 1 < bpow radix2 128) by (apply (bpow_lt radix2 0 128); lia).
  destruct (is_finite A) eqn:FA.
  2:{ destruct A as [s|[|]| |s m e H]; try easy; cbn in Pa; lra. }
  destruct (is_finite B) eqn:FB.
  - rewrite ?(rk_fin A FA), ?(rk_fin B FB) in *.
    assert (LB := abs_B2R_lt_emax 24 128 B). apply Rabs_def2 in LB.
    generalize (Bmult_correct 24 128 _ _ mode_NE A B).
    assert (R0 : 0 <= rnd (B2R A * B2R B)).
    { rewrite <- rnd_0. apply rnd_le. apply Rmult_le_pos; lra. }
    assert (R1 : rnd (B2R A * B2R B) <= B2R B).
    { rewrite <- (rnd_B2R B) at 2. apply rnd_le. rewrite <- (Rmult_1_l (B2R B)) at 2. apply Rmult_le_compat_r; lra. }
    rewrite Rlt_bool_true by (rewrite Rabs_pos_eq; lra).
    rewrite FA, FB. intros (E1 & E2 & _). cbn in E2.
    split.
    + intros N. exfalso. assert (X := finite_not_nan _ E2). destruct (Bmult mode_NE A B); easy.
    + intros _. split; [apply num_B2SF, finite_not_nan, E2|]. rewrite rk_fin by easy. rewrite E1. lra.
  - destruct B as [s|[|]| |s m e H]; try easy.
    + exfalso. cbn in Pb. lra.
    + destruct A as [s'|s'| |s' m' e' H']; try easy; cbn.
      split; [easy|]. intros _. destruct s'.
      { exfalso. cbn in Pa. assert (XX : F2R (Float radix2 (Z.neg m') e') < 0) by (now apply F2R_lt_0).
        lra. }
      cbn. split; [now split|]. cbn. lra.
Qed.

Lemma fmul_comm : forall a b, fmul a b = fmul b a.
Proof.
  intros a b. unfold fmul.
  destruct a as [s|s| |s m e], b as [s'|s'| |s' m' e']; cbn; try reflexivity;
    try (now rewrite xorb_comm).
  now rewrite xorb_comm, Pos.mul_comm, Z.add_comm.
Qed.

Lemma fmul_unit_r : forall a b, num a -> num b -> 0 <= rk a <= 1 -> 0 <= rk b ->
  (is_nan (fmul b a) = true -> is_zero a = true /\ is_pinf b = true) /\
  (is_nan (fmul b a) = false -> num (fmul b a) /\ 0 <= rk (fmul b a) <= rk b).
Proof. intros a b. rewrite (fmul_comm b a). apply fmul_unit_l. Qed.

(** a probability: quotient of a value in [0,1] by a positive sum *)
Lemma fdiv_prob : forall e s, num e -> num s -> 0 <= rk e <= 1 -> 0 < rk s ->
  num (fdiv e s) /\ 0 <= rk (fdiv e s) /\ (is_zero e = true -> is_zero (fdiv e s) = true).
Proof.
  intros e s He Hs Pe Ps.
  destruct (num_B e He) as (A & -> & HA). destruct (num_B s Hs) as (B & -> & HB).
  unfold fdiv, F32.prec, F32.emax. rewrite (SFdiv_equiv 24 128 P24 PE).
  assert (G0 := BIG_pos). assert (G1 := BIG_gt). assert (G2 : 1 < bpow radix2 128) by (apply (bpow_lt radix2 0 128); lia).
  destruct (is_finite A) eqn:FA.
  2:{ destruct A as [s|[|]| |s m e H]; try easy; cbn in Pe; lra. }
  destruct B as [sb|[|]| |sb mb eb Hb]; try easy.
  - cbn in Ps. lra.
  - cbn in Ps. lra.
  - destruct A as [s'|s'| |s' m' e' H']; try easy; cbn; (split; [now split|]); split; try easy; lra.
  - destruct sb.
    { exfalso. cbn in Ps. assert (XX : F2R (Float radix2 (Z.neg mb) eb) < 0) by (now apply F2R_lt_0). lra. }
    destruct A as [s'|s'| |s' m' e' H']; [cbn; split; [now split|]; split; [lra|easy] | easy | easy | ].
    + set (A := B754_finite s' m' e' H') in *. set (B := B754_finite false mb eb Hb) in *.
      rewrite ?(rk_fin A FA), ?(rk_fin B eq_refl) in *.
      assert (NZ : B2R B <> 0) by lra.
      generalize (Bdiv_correct 24 128 _ _ mode_NE A B NZ).
      destruct (Rlt_bool_spec (Rabs (rnd (B2R A / B2R B))) (bpow radix2 128)) as [Hlt|Hge].
      * rewrite FA. intros (E1 & E2 & _). split; [apply num_B2SF, finite_not_nan, E2|]. rewrite rk_fin by easy.
        split; [|subst A; easy]. rewrite E1, <- rnd_0. apply rnd_le. apply Rmult_le_pos; [lra|]. apply Rlt_le, Rinv_0_lt_compat; lra.
      * intros E1. rewrite E1. destruct s'.
        { exfalso. subst A. cbn in Pe. assert (XX : F2R (Float radix2 (Z.neg m') e') < 0) by (now apply F2R_lt_0). lra. }
        cbn. split; [now split|]. split; [lra|easy].
Qed.

(** x - max for x <= max, max finite: never NaN, never positive *)
Lemma fsub_le : forall a m, num a -> num m -> is_inf m = false -> rk a <= rk m ->
  num (fsub a m) /\ rk (fsub a m) <= 0.
Proof.
  intros a m Ha Hm Fm Le.
  destruct (num_B a Ha) as (A & -> & HA). destruct (num_B m Hm) as (B & -> & HB).
  unfold fsub, F32.prec, F32.emax. rewrite (SFsub_equiv 24 128 P24 PE).
  assert (G0 := BIG_pos). assert (G1 := BIG_gt).
  assert (FB : is_finite B = true) by (destruct B; easy).
  assert (LB := rk_lt_BIG B FB).
  destruct (is_finite A) eqn:FA.
  - rewrite ?(rk_fin A FA), ?(rk_fin B FB) in *.
    generalize (Bminus_correct 24 128 _ _ mode_NE A B FA FB).
    destruct (Rlt_bool_spec (Rabs (rnd (B2R A - B2R B))) (bpow radix2 128)) as [Hlt|Hge].
    + intros (E1 & E2 & _). split; [apply num_B2SF, finite_not_nan, E2|]. rewrite rk_fin by easy.
      rewrite E1, <- rnd_0. apply rnd_le. lra.
    + intros (E1 & E2). rewrite E1. destruct (Bsign A) eqn:SA.
      * cbn. split; [now split|]. lra.
      * exfalso. assert (0 <= B2R A) by now apply Bsign_false_ge0.
        assert (B2R B <= 0) by (apply Bsign_true_le0; destruct (Bsign B); easy).
        replace (B2R A - B2R B) with 0 in Hge by lra. rewrite rnd_0, Rabs_R0 in Hge.
        assert (0 < bpow radix2 128) by apply bpow_gt_0. lra.
  - destruct A as [s|[|]| |s m e H]; try easy.
    + destruct B as [s'|s'| |s' m' e' H']; try easy; cbn; (split; [now split|]); lra.
    + exfalso. cbn in Le. lra.
Qed.

Lemma fsub_ninf_l : forall m, is_nan m = false -> is_ninf m = false -> fsub ninf m = ninf.
Proof. intros [s|[|]| |s m e]; easy. Qed.

Lemma fsub_pinf_r : forall a, is_nan a = false -> is_pinf a = false -> fsub a pinf = ninf.
Proof. intros [s|[|]| |s m e]; easy. Qed.

(** the temperature division with the clamp of a finite logit *)
Lemma num_fmaxpos : num fmaxpos. Proof. now split. Qed.
Lemma num_fmaxneg : num fmaxneg. Proof. now split. Qed.

Lemma scale_num : forall T v, num T -> is_inf T = false -> 0 < rk T -> num v ->
  num (scale T v) /\ (is_ninf v = true -> scale T v = ninf) /\ (is_pinf v = true -> scale T v = pinf) /\
  (is_inf v = false -> is_inf (scale T v) = false).
Proof.
  intros T v HT FT PT Hv.
  destruct (num_B T HT) as (B & -> & HB). destruct (num_B v Hv) as (A & -> & HA).
  unfold scale, fdiv, F32.prec, F32.emax. rewrite (SFdiv_equiv 24 128 P24 PE).
  destruct B as [sb|sb| |sb mb eb Hb]; try easy.
  { cbn in PT. lra. }
  destruct sb.
  { exfalso. cbn in PT. assert (XX : F2R (Float radix2 (Z.neg mb) eb) < 0) by (now apply F2R_lt_0). lra. }
  destruct A as [s'|s'| |s' m' e' H']; [cbn; repeat split; easy | cbn; destruct s'; repeat split; easy | easy | ].
  - set (A := B754_finite s' m' e' H') in *. set (B := B754_finite false mb eb Hb) in *.
    assert (NZ : B2R B <> 0) by (rewrite (rk_fin B eq_refl) in PT; lra).
    generalize (Bdiv_correct 24 128 _ _ mode_NE A B NZ).
    destruct (Rlt_bool_spec (Rabs (rnd (B2R A / B2R B))) (bpow radix2 128)) as [Hlt|Hge].
    + intros (E1 & E2 & _). change (is_finite A) with true in E2.
      assert (NI : is_inf (B2SF (Bdiv mode_NE A B)) = false) by (destruct (Bdiv mode_NE A B); easy).
      rewrite NI. cbn [andb]. split; [apply num_B2SF, finite_not_nan, E2|]. repeat split; try easy.
    + intros E1. rewrite E1. cbn. destruct (xorb s' false); cbn; repeat split; try easy.
Qed.

Lemma rk_ftiny_pos : 0 < rk ftiny.
Proof. cbn. apply F2R_gt_0. reflexivity. Qed.

Lemma eff_temp_num : forall T, num T -> is_inf T = false -> 0 < rk T ->
  num (eff_temp T) /\ is_inf (eff_temp T) = false /\ 0 < rk (eff_temp T).
Proof.
  intros T HT FT PT. unfold eff_temp. destruct HT as [V N]. rewrite N.
  destruct (flt T ftiny).
  - split; [now split|]. split; [easy|apply rk_ftiny_pos].
  - split; [now split|]. now split.
Qed.

(** [<=] and [==] through the embedding *)
Lemma fle_rk : forall a b, num a -> num b -> fle a b = Rle_bool (rk a) (rk b).
Proof.
  intros a b Ha Hb.
  destruct (num_B a Ha) as (A & -> & HA). destruct (num_B b Hb) as (B & -> & HB).
  assert (G := BIG_gt). assert (G0 := BIG_pos).
  destruct (is_finite A) eqn:FA; destruct (is_finite B) eqn:FB.
  - rewrite !rk_fin by easy. now apply Bleb_correct.
  - assert (XA := rk_fin_bound A FA). apply Rabs_def2 in XA.
    destruct B as [s|[|]| |s m e H]; try easy; destruct A as [s'|s'| |s' m' e' H']; try easy;
      cbn [B2SF rk] in *; cbv [fle SFleb SFcompare]; try destruct s';
      symmetry; try (apply Rle_bool_true; lra); try (apply Rle_bool_false; lra).
  - assert (XB := rk_fin_bound B FB). apply Rabs_def2 in XB.
    destruct A as [s|[|]| |s m e H]; try easy; destruct B as [s'|s'| |s' m' e' H']; try easy;
      cbn [B2SF rk] in *; cbv [fle SFleb SFcompare]; try destruct s';
      symmetry; try (apply Rle_bool_true; lra); try (apply Rle_bool_false; lra).
  - destruct A as [s|[|]| |s m e H]; try easy; destruct B as [s'|[|]| |s' m' e' H']; try easy;
      cbn [B2SF rk]; cbv [fle SFleb SFcompare]; symmetry;
      try (apply Rle_bool_true; lra); try (apply Rle_bool_false; lra).
Qed.

Lemma feq_rk : forall a b, num a -> num b -> feq a b = Req_bool (rk a) (rk b).
Proof.
  intros a b Ha Hb.
  destruct (num_B a Ha) as (A & -> & HA). destruct (num_B b Hb) as (B & -> & HB).
  assert (G := BIG_gt). assert (G0 := BIG_pos).
  destruct (is_finite A) eqn:FA; destruct (is_finite B) eqn:FB.
  - rewrite !rk_fin by easy. now apply Beqb_correct.
  - assert (XA := rk_fin_bound A FA). apply Rabs_def2 in XA.
    destruct B as [s|[|]| |s m e H]; try easy; destruct A as [s'|s'| |s' m' e' H']; try easy;
      cbn [B2SF rk] in *; cbv [feq SFeqb SFcompare]; try destruct s';
      symmetry; apply Req_bool_false; lra.
  - assert (XB := rk_fin_bound B FB). apply Rabs_def2 in XB.
    destruct A as [s|[|]| |s m e H]; try easy; destruct B as [s'|s'| |s' m' e' H']; try easy;
      cbn [B2SF rk] in *; cbv [feq SFeqb SFcompare]; try destruct s';
      symmetry; apply Req_bool_false; lra.
  - destruct A as [s|[|]| |s m e H]; try easy; destruct B as [s'|[|]| |s' m' e' H']; try easy;
      cbn [B2SF rk]; cbv [feq SFeqb SFcompare]; symmetry;
      try (apply Req_bool_true; lra); try (apply Req_bool_false; lra).
Qed.

(** constants *)
Lemma rk_fzero : rk fzero = 0. Proof. reflexivity. Qed.
Lemma rk_fone : rk fone = 1.
Proof. cbn. unfold F2R. cbn. lra. Qed.
Lemma rk_ninf : rk ninf = - BIG. Proof. reflexivity. Qed.
Lemma rk_pinf : rk pinf = BIG. Proof. reflexivity. Qed.
Lemma num_fzero : num fzero. Proof. now split. Qed.
Lemma num_fone : num fone. Proof. now split. Qed.
Lemma num_ninf : num ninf. Proof. now split. Qed.
Lemma num_pinf : num pinf. Proof. now split. Qed.

Lemma rk_zero : forall x, is_zero x = true -> rk x = 0.
Proof. now intros [s|s| |s m e]. Qed.

Lemma rk_ninf_iff : forall x, num x -> (rk x = - BIG <-> x = ninf).
Proof.
  intros x Hx. destruct (num_B x Hx) as (A & -> & HA). assert (G0 := BIG_pos).
  destruct A as [s|[|]| |s m e H]; try easy; cbn [B2SF rk]; split; intros X; try easy; try (exfalso; cbn in X; lra).
  assert (Y := rk_lt_BIG (B754_finite s m e H) eq_refl). cbn [B2SF rk] in Y. lra.
Qed.

Lemma rk_range : forall x, num x -> - BIG <= rk x <= BIG.
Proof.
  intros x Hx. destruct (num_B x Hx) as (A & -> & HA). assert (G0 := BIG_pos).
  destruct (is_finite A) eqn:FA.
  - assert (Y := rk_lt_BIG A FA). lra.
  - destruct A as [s|[|]| |s m e H]; try easy; cbn; lra.
Qed.

(** x - x is a zero *)
Lemma fsub_self : forall x, is_nan x = false -> is_inf x = false -> is_zero (fsub x x) = true.
Proof.
  intros [s|s| |s m e]; try easy.
  - intros _ _. unfold fsub. cbn. now destruct s.
  - intros _ _. unfold fsub, SFsub. rewrite Z.sub_diag. reflexivity.
Qed.

(** * Order through the embedding [rk] *)
Lemma flt_true_iff : forall a b, num a -> num b -> (flt a b = true <-> rk a < rk b).
Proof. intros a b Ha Hb. rewrite (flt_rk a b Ha Hb). case Rlt_bool_spec; intros; split; intros; try easy; lra. Qed.

Lemma flt_false_iff : forall a b, num a -> num b -> (flt a b = false <-> rk b <= rk a).
Proof. intros a b Ha Hb. rewrite (flt_rk a b Ha Hb). case Rlt_bool_spec; intros; split; intros; try easy; lra. Qed.


(** NewSampler's clamps *)
Lemma clamp01_unit : forall p, num p -> num (clamp01 p) /\ 0 <= rk (clamp01 p) <= 1.
Proof.
  intros p Hp. unfold clamp01.
  set (p1 := if flt p fzero then fzero else p).
  assert (H1 : num p1 /\ 0 <= rk p1).
  { unfold p1. destruct (flt p fzero) eqn:F.
    - split; [apply num_fzero|rewrite rk_fzero; lra].
    - apply flt_false_iff in F; [|easy|apply num_fzero]. rewrite rk_fzero in F. now split. }
  destruct H1 as [N1 P1]. rewrite (fle_rk fone p1 num_fone N1), rk_fone.
  case Rle_bool_spec; intros X.
  - split; [apply num_fone|rewrite rk_fone; lra].
  - split; [easy|lra].
Qed.

Lemma clamp_temp_pos : forall t, num t -> is_inf t = false ->
  let t' := if flt t fzero then fzero else t in
  num t' /\ is_inf t' = false /\ (feq t' fzero = false -> 0 < rk t').
Proof.
  intros t Ht Ft. cbn zeta. destruct (flt t fzero) eqn:F.
  - split; [apply num_fzero|]. split; [easy|]. intros X. now cbv in X.
  - apply flt_false_iff in F; [|easy|apply num_fzero]. rewrite rk_fzero in F.
    split; [easy|]. split; [easy|]. rewrite (feq_rk t fzero Ht num_fzero), rk_fzero.
    case Req_bool_spec; intros X Y; [easy|lra].
Qed.

(** every bit pattern decodes to a valid binary32 datum *)
Local Open Scope Z_scope.
Lemma f32_of_bits_valid : forall b, valid (f32_of_bits b) = true.
Proof.
  intros b0. unfold f32_of_bits.
  set (b := b0 mod 4294967296).
  set (e := (b / 8388608) mod 256). set (m := b mod 8388608).
  assert (He : 0 <= e < 256) by (apply Z.mod_pos_bound; lia).
  assert (Hm : 0 <= m < 8388608) by (apply Z.mod_pos_bound; lia).
  clearbody e m b.
  destruct (e =? 255) eqn:E1. { now destruct (m =? 0). }
  apply Z.eqb_neq in E1.
  destruct (e =? 0) eqn:E0.
  - destruct m as [|p|p]; [reflexivity| |lia].
    unfold valid, valid_binary, bounded, canonical_mantissa.
    rewrite Zpos_digits2_pos.
    assert (D : Zdigits radix2 (Z.pos p) <= 23) by (apply Zdigits_le_Zpower; cbn; lia).
    assert (D0 : 0 <= Zdigits radix2 (Z.pos p)) by apply Zdigits_ge_0.
    unfold SpecFloat.fexp, SpecFloat.emin, F32.prec, F32.emax.
    apply andb_true_intro. split; [apply Zeq_bool_true|apply Zle_bool_true]; lia.
  - apply Z.eqb_neq in E0.
    destruct (m + 8388608) as [|p|p] eqn:Em; [lia| |lia].
    unfold valid, valid_binary, bounded, canonical_mantissa.
    rewrite Zpos_digits2_pos.
    assert (D : Zdigits radix2 (Z.pos p) = 24) by (apply Zdigits_unique; cbn; lia).
    rewrite D. unfold SpecFloat.fexp, SpecFloat.emin, F32.prec, F32.emax.
    apply andb_true_intro. split; [apply Zeq_bool_true|apply Zle_bool_true]; lia.
Qed.

(** temperature "zero" after NewSampler's clamp: exactly the non-positive raw temperatures *)
Lemma temp_zero_iff : forall t, num t ->
  (feq (if flt t fzero then fzero else t) fzero = true <-> (rk t <= 0)%R).
Proof.
  intros t Ht. destruct (flt t fzero) eqn:F.
  - apply flt_true_iff in F; [|easy|apply num_fzero]. rewrite rk_fzero in F. split; [intros _; lra|easy].
  - apply flt_false_iff in F; [|easy|apply num_fzero]. rewrite rk_fzero in F.
    rewrite (feq_rk t fzero Ht num_fzero), rk_fzero. case Req_bool_spec; intros X; split; intros Y; try easy; lra.
Qed.
