(** Grammar-constrained Sample (Model.Sample_grammar): it is Sample on the raw logits when the grammar accepts the first
    pick, and otherwise Sample on the masked logit vector - every id paired with its own logit, rejected ids -Inf - so
    every theorem about Sample applies to it; in particular the returned token is accepted by the grammar and its real
    logit is not -Inf whenever some accepted token has a logit that is not -Inf. *)
From Coq Require Import ZArith List Bool SpecFloat Lia Reals.
From V Require Import Sample.F32 Sample.Model Sample.F32Facts Sample.Proofs.
Import ListNotations.
Open Scope Z_scope.

Lemma mask_enumerate : forall rej l s, mask rej (enumerate s l) = enumerate s (mask_logits rej s l).
Proof.
  intros rej. induction l as [|v r IH]; intros s; [easy|]. cbn [enumerate mask_logits]. unfold mask in *. cbn [map tid tv fst snd].
  now rewrite IH.
Qed.

Lemma mask_logits_nth : forall rej l s i,
  nth_error (mask_logits rej s l) i = option_map (fun v => if rej (s + Z.of_nat i) then ninf else v) (nth_error l i).
Proof.
  intros rej. induction l as [|v r IH]; intros s i; [now destruct i|]. destruct i.
  - cbn. now rewrite Z.add_0_r.
  - cbn [mask_logits nth_error]. rewrite IH. now replace (s + 1 + Z.of_nat i) with (s + Z.of_nat (S i)) by lia.
Qed.

Lemma mask_logits_length : forall rej l s, length (mask_logits rej s l) = length l.
Proof. intros rej. induction l; intros; cbn; [easy|now rewrite IHl]. Qed.

Lemma mask_logits_num : forall rej l s, Forall num l -> Forall num (mask_logits rej s l).
Proof.
  intros rej. induction l as [|v r IH]; intros s H; [constructor|]. inversion H; subst. cbn [mask_logits].
  constructor; [destruct (rej s); [apply num_ninf|easy]|now apply IH].
Qed.

(** the grammar path is Sample on the raw logits or Sample on the masked logits *)
Theorem Sample_grammar_cases : forall E pr rej logits r1 r2,
  match Sample E pr logits r1 with
  | Tok t => if first_pick_rejected rej t
             then Sample_grammar E pr rej logits r1 r2 = Sample E pr (mask_logits rej 0 logits) r2
             else Sample_grammar E pr rej logits r1 r2 = Tok t
  | e => Sample_grammar E pr rej logits r1 r2 = e
  end.
Proof.
  intros E pr rej logits r1 r2. unfold Sample_grammar, Sample. destruct logits as [|l0 lr]; [easy|].
  set (logits := l0 :: lr). destruct (sample E pr (enumerate 0 logits) r1) as [t| | |]; try easy.
  destruct (first_pick_rejected rej t); [|easy].
  rewrite mask_enumerate. unfold logits. now cbn [mask_logits].
Qed.

Section Grammar.
Variable E : sf -> sf.
Hypothesis E_range : forall x, num x -> (rk x <= 0)%R -> num (E x) /\ (0 <= rk (E x) <= 1)%R.
Hypothesis E_zero : forall x, is_zero x = true -> E x = fone.
Hypothesis E_ninf : is_zero (E ninf) = true.

Theorem Sample_grammar_admissible : forall temp k topp minp rej logits r1 r2,
  params_ok temp topp minp -> draw_ok r1 -> draw_ok r2 -> Forall num logits ->
  (exists i v, nth_error logits i = Some v /\ rej (Z.of_nat i) = false /\ v <> ninf) ->
  exists a v, Sample_grammar E (new_sampler temp k topp minp) rej logits r1 r2 = Tok a /\
    0 <= tid a < Z.of_nat (length logits) /\ nth_error logits (Z.to_nat (tid a)) = Some v /\ v <> ninf /\
    rej (tid a) = false.
Proof.
  intros temp k topp minp rej logits r1 r2 Hp Hr1 Hr2 Hl (i & v & Hi & Ri & Nv).
  set (pr := new_sampler temp k topp minp).
  assert (Ex : exists x, In x logits /\ x <> ninf) by (exists v; split; [now apply nth_error_In in Hi|easy]).
  destruct (Sample_admissible E E_range E_zero E_ninf temp k topp minp logits r1 Hp Hr1 Hl Ex) as (a1 & v1 & S1 & R1 & N1 & V1).
  fold pr in S1. assert (C := Sample_grammar_cases E pr rej logits r1 r2). rewrite S1 in C.
  destruct (first_pick_rejected rej a1) eqn:F.
  - (* re-sampled under the mask *)
    set (ml := mask_logits rej 0 logits) in *.
    assert (Hml : Forall num ml) by now apply mask_logits_num.
    assert (Exm : exists x, In x ml /\ x <> ninf).
    { exists v. split; [|easy]. apply (nth_error_In ml i). unfold ml. rewrite mask_logits_nth, Hi. cbn. now rewrite Ri. }
    destruct (Sample_admissible E E_range E_zero E_ninf temp k topp minp ml r2 Hp Hr2 Hml Exm) as (a & w & S2 & R2 & N2 & V2).
    fold pr in S2. exists a, w. rewrite C. split; [easy|]. unfold ml in R2, N2. rewrite mask_logits_length in R2. split; [easy|].
    rewrite mask_logits_nth in N2. destruct (nth_error logits (Z.to_nat (tid a))) as [u|] eqn:Eu; [|easy].
    cbn in N2. rewrite Z2Nat.id in N2 by lia.
    destruct (rej (tid a)); inversion N2; subst; easy.
  - exists a1, v1. unfold first_pick_rejected in F. apply orb_false_iff in F. now repeat split.
Qed.
End Grammar.
