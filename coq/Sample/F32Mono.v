(** Monotonicity of the rounded binary32 operations used by temperature and softmax (from Flocq's correctness
    theorems): dividing by a positive temperature, subtracting the maximum, dividing by the positive sum.  Used to show
    that the probabilities computed from a descending list of logits are descending. *)
From Coq Require Import ZArith Reals Psatz Lia Lra SpecFloat Bool.
From Flocq Require Import Core.Core IEEE754.BinarySingleNaN.
From V Require Import Sample.F32 Sample.Model Sample.F32Facts.
Local Open Scope R_scope.

Local Instance P24' : Prec_gt_0 24 := eq_refl.
Local Instance PE' : Prec_lt_emax 24 128 := eq_refl.

Definition MAXR : R := rk fmaxpos.

Lemma MAXR_eq : MAXR = bpow radix2 128 - bpow radix2 104.
Proof.
  unfold MAXR. cbn [rk fmaxpos SF2R cond_Zopp]. unfold F2R. cbn [Fnum Fexp].
  replace (bpow radix2 128) with (bpow radix2 24 * bpow radix2 104) by (rewrite <- bpow_plus; reflexivity).
  change (bpow radix2 24) with (IZR 16777216). replace (IZR 16777215) with (IZR 16777216 - 1) by (rewrite <- minus_IZR; reflexivity).
  ring.
Qed.

Lemma MAXR_lt : MAXR < bpow radix2 128.
Proof. rewrite MAXR_eq. assert (0 < bpow radix2 104) by apply bpow_gt_0. lra. Qed.

Lemma MAXR_pos : 0 < MAXR.
Proof. unfold MAXR. cbn [rk fmaxpos SF2R cond_Zopp]. apply F2R_gt_0. reflexivity. Qed.

Lemma rk_fmaxneg : rk fmaxneg = - MAXR.
Proof.
  unfold MAXR. cbn [rk fmaxpos fmaxneg SF2R cond_Zopp]. unfold F2R. cbn [Fnum Fexp]. rewrite opp_IZR. ring.
Qed.

Lemma fin_le_MAXR : forall b : bf, Rabs (B2R b) <= MAXR.
Proof. intros b. rewrite MAXR_eq. exact (abs_B2R_le_emax_minus_prec 24 128 P24' b). Qed.

Lemma rk_BIG_pinf : forall x, num x -> BIG <= rk x -> x = pinf.
Proof.
  intros x Hx Le. assert (G0 := BIG_pos). destruct (num_B x Hx) as (b & -> & Nb).
  destruct (is_finite b) eqn:Fb.
  - exfalso. assert (Y := rk_lt_BIG b Fb). lra.
  - destruct b as [s|[|]| |s m e H]; try easy. exfalso. cbn [B2SF rk] in Le. lra.
Qed.

(** ** x / T for a finite x and a positive finite T, with the clamp of [scale] *)
Lemma scale_real : forall T v, num T -> is_inf T = false -> 0 < rk T -> num v -> is_inf v = false ->
  let y := rnd (rk v / rk T) in
  (rk (scale T v) = y /\ Rabs y <= MAXR) \/
  (rk (scale T v) = MAXR /\ bpow radix2 128 <= y) \/
  (rk (scale T v) = - MAXR /\ y <= - bpow radix2 128).
Proof.
  intros T v HT FT PT Hv Fv.
  destruct (num_B T HT) as (B & -> & HB). destruct (num_B v Hv) as (A & -> & HA).
  assert (FB : is_finite B = true) by (destruct B; easy).
  assert (FA : is_finite A = true) by (destruct A; easy).
  rewrite (rk_fin B FB) in *. rewrite (rk_fin A FA).
  assert (NZ : B2R B <> 0) by lra.
  unfold scale, fdiv, F32.prec, F32.emax. rewrite (SFdiv_equiv 24 128 _ _).
  generalize (Bdiv_correct 24 128 _ _ mode_NE A B NZ).
  cbn zeta.
  destruct (Rlt_bool_spec (Rabs (rnd (B2R A / B2R B))) (bpow radix2 128)) as [Hlt|Hge].
  - intros (E1 & E2 & _). rewrite FA in E2.
    assert (NI : is_inf (B2SF (Bdiv mode_NE A B)) = false) by (destruct (Bdiv mode_NE A B); easy).
    rewrite NI. cbn [andb]. left. rewrite (rk_fin _ E2). rewrite E1. split; [easy|]. rewrite <- E1. apply fin_le_MAXR.
  - intros E1. rewrite E1. cbn [binary_overflow overflow_to_inf is_inf andb].
    assert (SB : Bsign B = false).
    { destruct (Bsign B) eqn:S; [|easy]. apply Bsign_true_le0 in S. lra. }
    rewrite SB, xorb_false_r.
    replace (negb (is_inf (B2SF A))) with true by (destruct A; easy). cbn [sf_sign].
    destruct (Bsign A) eqn:SA.
    + right. right. split; [apply rk_fmaxneg|].
      assert (B2R A <= 0) by now apply Bsign_true_le0.
      assert (rnd (B2R A / B2R B) <= 0).
      { rewrite <- rnd_0. apply rnd_le. unfold Rdiv. assert (0 < / B2R B) by (apply Rinv_0_lt_compat; lra). nra. }
      rewrite Rabs_left1 in Hge by easy. lra.
    + right. left. split; [reflexivity|].
      assert (0 <= B2R A) by now apply Bsign_false_ge0.
      assert (0 <= rnd (B2R A / B2R B)).
      { rewrite <- rnd_0. apply rnd_le. unfold Rdiv. assert (0 < / B2R B) by (apply Rinv_0_lt_compat; lra). nra. }
      rewrite Rabs_pos_eq in Hge by easy. lra.
Qed.

Lemma scale_mono : forall T v1 v2, num T -> is_inf T = false -> 0 < rk T -> num v1 -> num v2 ->
  rk v1 <= rk v2 -> rk (scale T v1) <= rk (scale T v2).
Proof.
  intros T v1 v2 HT FT PT H1 H2 Le.
  assert (G0 := BIG_pos). assert (G1 := BIG_gt). assert (M := MAXR_lt). assert (M0 := MAXR_pos).
  destruct (scale_num T v1 HT FT PT H1) as (N1 & A1 & B1 & C1).
  destruct (scale_num T v2 HT FT PT H2) as (N2 & A2 & B2 & C2).
  assert (R1 := rk_range _ N1). assert (R2 := rk_range _ N2).
  destruct (is_inf v1) eqn:I1.
  { destruct v1 as [s|[|]| |s m e]; try easy.
    - rewrite (A1 eq_refl), rk_ninf. lra.
    - assert (v2 = pinf) by (apply rk_BIG_pinf; [easy|]; cbn [rk] in Le; lra).
      subst v2. rewrite (B1 eq_refl), (B2 eq_refl). lra. }
  destruct (is_inf v2) eqn:I2.
  { destruct v2 as [s|[|]| |s m e]; try easy.
    - exfalso. cbn [rk] in Le. destruct (num_B v1 H1) as (b & -> & Nb). assert (Fb : is_finite b = true) by (destruct b; easy).
      assert (Y := rk_lt_BIG b Fb). lra.
    - rewrite (B2 eq_refl), rk_pinf. lra. }
  assert (X : rnd (rk v1 / rk T) <= rnd (rk v2 / rk T)).
  { apply rnd_le. unfold Rdiv. apply Rmult_le_compat_r; [|easy]. apply Rlt_le, Rinv_0_lt_compat. lra. }
  destruct (scale_real T v1 HT FT PT H1 I1) as [[E1 L1]|[[E1 L1]|[E1 L1]]];
  destruct (scale_real T v2 HT FT PT H2 I2) as [[E2 L2]|[[E2 L2]|[E2 L2]]];
    rewrite E1, E2; try apply Rabs_le_inv in L1; try apply Rabs_le_inv in L2; lra.
Qed.
