(** Monotonicity of the rounded binary32 operations used by temperature and softmax (from Flocq's correctness
    theorems): dividing by a positive temperature, subtracting the maximum, dividing by the positive sum.  Used to show
    that the probabilities computed from a descending list of logits are descending. *)
From Coq Require Import ZArith Reals Psatz Lia Lra SpecFloat Bool.
From Flocq Require Import Core.Core IEEE754.BinarySingleNaN.
From V Require Import Sample.F32 Sample.Model Sample.F32Facts.
Local Open Scope R_scope.

Local Instance P24' : Prec_gt_0 24 := eq_refl.
Local Instance PE' : Prec_lt_emax 24 128 := eq_refl.

Definition MAXR : R := rk fmaxpos.

Lemma MAXR_eq : MAXR = bpow radix2 128 - bpow radix2 104.
Proof.
  unfold MAXR. cbn [rk fmaxpos SF2R cond_Zopp]. unfold F2R. cbn [Fnum Fexp].
  replace (bpow radix2 128) with (bpow radix2 24 * bpow radix2 104) by (rewrite <- bpow_plus; reflexivity).
  change (bpow radix2 24) with (IZR 16777216). replace (IZR 16777215) with (IZR 16777216 - 1) by (rewrite <- minus_IZR; reflexivity).
  ring.
Qed.

Lemma MAXR_lt : MAXR < bpow radix2 128.
Proof. rewrite MAXR_eq. assert (0 < bpow radix2 104) by apply bpow_gt_0. lra. Qed.

Lemma MAXR_pos : 0 < MAXR.
Proof. unfold MAXR. cbn [rk fmaxpos SF2R cond_Zopp]. apply F2R_gt_0. reflexivity. Qed.

Lemma rk_fmaxneg : rk fmaxneg = - MAXR.
Proof.
  unfold MAXR. cbn [rk fmaxpos fmaxneg SF2R cond_Zopp]. unfold F2R. cbn [Fnum Fexp]. rewrite opp_IZR. ring.
Qed.

Lemma fin_le_MAXR : forall b : bf, Rabs (B2R b) <= MAXR.
Proof. intros b. rewrite MAXR_eq. exact (abs_B2R_le_emax_minus_prec 24 128 P24' b). Qed.

Lemma rk_BIG_pinf : forall x, num x -> BIG <= rk x -> x = pinf.
Proof.
  intros x Hx Le. assert (G0 := BIG_pos). destruct (num_B x Hx) as (b & -> & Nb).
  destruct (is_finite b) eqn:Fb.
  - exfalso. assert (Y := rk_lt_BIG b Fb). lra.
  - destruct b as [s|[|]| |s m e H]; try easy. exfalso. cbn [B2SF rk] in Le. lra.
Qed.

(** ** x / T for a finite x and a positive finite T, with the clamp of [scale] *)
Lemma scale_real : forall T v, num T -> is_inf T = false -> 0 < rk T -> num v -> is_inf v = false ->
  let y := rnd (rk v / rk T) in
  (rk (scale T v) = y /\ Rabs y <= MAXR) \/
  (rk (scale T v) = MAXR /\ bpow radix2 128 <= y) \/
  (rk (scale T v) = - MAXR /\ y <= - bpow radix2 128).
Proof.
  intros T v HT FT PT Hv Fv.
  destruct (num_B T HT) as (B & -> & HB). destruct (num_B v Hv) as (A & -> & HA).
  assert (FB : is_finite B = true) by (destruct B; easy).
  assert (FA : is_finite A = true) by (destruct A; easy).
  rewrite (rk_fin B FB) in *. rewrite (rk_fin A FA).
  assert (NZ : B2R B <> 0) by lra.
  unfold scale, fdiv, F32.prec, F32.emax. rewrite (SFdiv_equiv 24 128 _ _).
  generalize (Bdiv_correct 24 128 _ _ mode_NE A B NZ).
  cbn zeta.
  destruct (Rlt_bool_spec (Rabs (rnd (B2R A / B2R B))) (bpow radix2 128)) as [Hlt|Hge].
  - intros (E1 & E2 & _). rewrite FA in E2.
    assert (NI : is_inf (B2SF (Bdiv mode_NE A B)) = false) by (destruct (Bdiv mode_NE A B); easy).
    rewrite NI. cbn [andb]. left. rewrite (rk_fin _ E2). rewrite E1. split; [easy|]. rewrite <- E1. apply fin_le_MAXR.
  - intros E1. rewrite E1. cbn [binary_overflow overflow_to_inf is_inf andb].
    assert (SB : Bsign B = false).
    { destruct (Bsign B) eqn:S; [|easy]. apply Bsign_true_le0 in S. lra. }
    rewrite SB, xorb_false_r.
    replace (negb (is_inf (B2SF A))) with true by (destruct A; easy). cbn [sf_sign].
    destruct (Bsign A) eqn:SA.
    + right. right. split; [apply rk_fmaxneg|].
      assert (B2R A <= 0) by now apply Bsign_true_le0.
      assert (rnd (B2R A / B2R B) <= 0).
      { rewrite <- rnd_0. apply rnd_le. unfold Rdiv. assert (0 < / B2R B) by (apply Rinv_0_lt_compat; lra). nra. }
      rewrite Rabs_left1 in Hge by easy. lra.
    + right. left. split; [reflexivity|].
      assert (0 <= B2R A) by now apply Bsign_false_ge0.
      assert (0 <= rnd (B2R A / B2R B)).
      { rewrite <- rnd_0. apply rnd_le. unfold Rdiv. assert (0 < / B2R B) by (apply Rinv_0_lt_compat; lra). nra. }
      rewrite Rabs_pos_eq in Hge by easy. lra.
Qed.

Lemma scale_mono : forall T v1 v2, num T -> is_inf T = false -> 0 < rk T -> num v1 -> num v2 ->
  rk v1 <= rk v2 -> rk (scale T v1) <= rk (scale T v2).
Proof.
  intros T v1 v2 HT FT PT H1 H2 Le.
  assert (G0 := BIG_pos). assert (G1 := BIG_gt). assert (M := MAXR_lt). assert (M0 := MAXR_pos).
  destruct (scale_num T v1 HT FT PT H1) as (N1 & A1 & B1 & C1).
  destruct (scale_num T v2 HT FT PT H2) as (N2 & A2 & B2 & C2).
  assert (R1 := rk_range _ N1). assert (R2 := rk_range _ N2).
  destruct (is_inf v1) eqn:I1.
  { destruct v1 as [s|[|]| |s m e]; try easy.
    - rewrite (A1 eq_refl), rk_ninf. lra.
    - assert (v2 = pinf) by (apply rk_BIG_pinf; [easy|]; cbn [rk] in Le; lra).
      subst v2. rewrite (B1 eq_refl), (B2 eq_refl). lra. }
  destruct (is_inf v2) eqn:I2.
  { destruct v2 as [s|[|]| |s m e]; try easy.
    - exfalso. cbn [rk] in Le. destruct (num_B v1 H1) as (b & -> & Nb). assert (Fb : is_finite b = true) by (destruct b; easy).
      assert (Y := rk_lt_BIG b Fb). lra.
    - rewrite (B2 eq_refl), rk_pinf. lra. }
  assert (X : rnd (rk v1 / rk T) <= rnd (rk v2 / rk T)).
  { apply rnd_le. unfold Rdiv. apply Rmult_le_compat_r; [|easy]. apply Rlt_le, Rinv_0_lt_compat. lra. }
  destruct (scale_real T v1 HT FT PT H1 I1) as [[E1 L1]|[[E1 L1]|[E1 L1]]];
  destruct (scale_real T v2 HT FT PT H2 I2) as [[E2 L2]|[[E2 L2]|[E2 L2]]];
    rewrite E1, E2; try apply Rabs_le_inv in L1; try apply Rabs_le_inv in L2; lra.
Qed.

(** ** x - max for finite x <= max *)
Lemma fsub_real : forall a m, num a -> num m -> is_inf a = false -> is_inf m = false -> rk a <= rk m ->
  let y := rnd (rk a - rk m) in
  (rk (fsub a m) = y /\ Rabs y < bpow radix2 128) \/ (fsub a m = ninf /\ y <= - bpow radix2 128).
Proof.
  intros a m Ha Hm Fa Fm Le.
  destruct (num_B a Ha) as (A & -> & HA). destruct (num_B m Hm) as (B & -> & HB).
  assert (FB : is_finite B = true) by (destruct B; easy).
  assert (FA : is_finite A = true) by (destruct A; easy).
  rewrite (rk_fin B FB), (rk_fin A FA) in *.
  unfold fsub, F32.prec, F32.emax. rewrite (SFsub_equiv 24 128 _ _). cbn zeta.
  generalize (Bminus_correct 24 128 _ _ mode_NE A B FA FB).
  destruct (Rlt_bool_spec (Rabs (rnd (B2R A - B2R B))) (bpow radix2 128)) as [Hlt|Hge].
  - intros (E1 & E2 & _). left. rewrite (rk_fin _ E2), E1. now split.
  - intros (E1 & E2). right. rewrite E1.
    assert (Y : rnd (B2R A - B2R B) <= 0) by (rewrite <- rnd_0; apply rnd_le; lra).
    rewrite Rabs_left1 in Hge by easy.
    destruct (Bsign A) eqn:SA; [split; [reflexivity|lra]|].
    exfalso. assert (0 <= B2R A) by now apply Bsign_false_ge0.
    assert (B2R B <= 0) by (apply Bsign_true_le0; destruct (Bsign B); easy).
    replace (B2R A - B2R B) with 0 in Hge by lra. rewrite rnd_0 in Hge.
    assert (0 < bpow radix2 128) by apply bpow_gt_0. lra.
Qed.

Lemma sm_diff_mono : forall mx v1 v2, num mx -> mx <> ninf -> num v1 -> num v2 ->
  rk v1 <= rk v2 -> rk v2 <= rk mx -> rk (sm_diff mx v1) <= rk (sm_diff mx v2).
Proof.
  intros mx v1 v2 Hm Nm H1 H2 L12 L2m.
  assert (G0 := BIG_pos). assert (G1 := BIG_gt).
  assert (Rm := rk_range _ Hm). assert (R1 := rk_range _ H1). assert (R2 := rk_range _ H2).
  unfold sm_diff.
  destruct (is_pinf v2) eqn:P2.
  { assert (v2 = pinf) by (destruct v2 as [s|[|]| |s m e]; easy). subst v2. rewrite rk_pinf in L2m.
    assert (mx = pinf) by (apply rk_BIG_pinf; [easy|lra]). subst mx.
    destruct (is_pinf v1) eqn:P1; [lra|]. rewrite fsub_pinf_r; [|apply H1|easy]. rewrite rk_ninf, rk_fzero. lra. }
  assert (P1 : is_pinf v1 = false).
  { destruct (is_pinf v1) eqn:P1; [|easy]. exfalso.
    assert (v1 = pinf) by (destruct v1 as [s|[|]| |s m e]; easy). subst v1. rewrite rk_pinf in L12.
    assert (v2 = pinf) by (apply rk_BIG_pinf; [easy|lra]). now subst v2. }
  rewrite P1.
  destruct (is_pinf mx) eqn:Pm.
  { assert (mx = pinf) by (destruct mx as [s|[|]| |s m e]; easy). subst mx.
    rewrite !fsub_pinf_r; [lra|apply H2|easy|apply H1|easy]. }
  assert (Fm : is_inf mx = false) by (destruct mx as [s|[|]| |s m e]; easy).
  destruct (fsub_le v2 mx H2 Hm Fm L2m) as (D2 & _). assert (Rd := rk_range _ D2).
  destruct (is_inf v1) eqn:I1.
  { assert (v1 = ninf) by (destruct v1 as [s|[|]| |s m e]; easy). subst v1.
    rewrite fsub_ninf_l; [rewrite rk_ninf; lra|apply Hm|]. destruct mx as [s|[|]| |s m e]; easy. }
  assert (I2 : is_inf v2 = false).
  { destruct (is_inf v2) eqn:I2; [|easy]. exfalso.
    assert (v2 = ninf) by (destruct v2 as [s|[|]| |s m e]; easy). subst v2. rewrite rk_ninf in L12.
    assert (rk v1 = - BIG) by lra. apply (rk_ninf_iff _ H1) in H. now subst v1. }
  assert (X : rnd (rk v1 - rk mx) <= rnd (rk v2 - rk mx)) by (apply rnd_le; lra).
  destruct (fsub_real v1 mx H1 Hm I1 Fm ltac:(lra)) as [[E1 B1]|[E1 B1]];
  destruct (fsub_real v2 mx H2 Hm I2 Fm L2m) as [[E2 B2]|[E2 B2]].
  - rewrite E1, E2. exact X.
  - rewrite E1, E2, rk_ninf. apply Rabs_def2 in B1. lra.
  - rewrite E1, rk_ninf. lra.
  - rewrite E1, E2. lra.
Qed.

(** ** e / sum for e in [0,1] and a positive sum *)
Lemma fdiv_real : forall e s, num e -> num s -> 0 <= rk e <= 1 -> is_inf s = false -> 0 < rk s ->
  let y := rnd (rk e / rk s) in
  (rk (fdiv e s) = y /\ Rabs y < bpow radix2 128) \/ (fdiv e s = pinf /\ bpow radix2 128 <= y).
Proof.
  intros e s He Hs Pe Fs Ps.
  assert (G0 := BIG_pos). assert (G1 := BIG_gt). assert (G2 : 1 < bpow radix2 128) by (apply (bpow_lt radix2 0 128); lia).
  destruct (num_B e He) as (A & -> & HA). destruct (num_B s Hs) as (B & -> & HB).
  assert (FB : is_finite B = true) by (destruct B; easy).
  assert (FA : is_finite A = true).
  { destruct A as [sa|[|]| |sa ma ea Ha]; try easy; cbn [B2SF rk] in Pe; lra. }
  rewrite (rk_fin B FB), (rk_fin A FA) in *.
  assert (NZ : B2R B <> 0) by lra.
  unfold fdiv, F32.prec, F32.emax. rewrite (SFdiv_equiv 24 128 _ _). cbn zeta.
  generalize (Bdiv_correct 24 128 _ _ mode_NE A B NZ).
  destruct (Rlt_bool_spec (Rabs (rnd (B2R A / B2R B))) (bpow radix2 128)) as [Hlt|Hge].
  - intros (E1 & E2 & _). rewrite FA in E2. left. rewrite (rk_fin _ E2), E1. now split.
  - intros E1. right. rewrite E1.
    assert (Y : 0 <= rnd (B2R A / B2R B)).
    { rewrite <- rnd_0. apply rnd_le. unfold Rdiv. assert (0 < / B2R B) by (apply Rinv_0_lt_compat; lra). nra. }
    rewrite Rabs_pos_eq in Hge by easy.
    assert (SB : Bsign B = false) by (destruct (Bsign B) eqn:S; [apply Bsign_true_le0 in S; lra|easy]).
    destruct (Bsign A) eqn:SA; [|rewrite SB; split; [reflexivity|lra]].
    exfalso. assert (B2R A <= 0) by now apply Bsign_true_le0.
    replace (B2R A) with 0 in Hge by lra. unfold Rdiv in Hge. rewrite Rmult_0_l, rnd_0 in Hge.
    assert (0 < bpow radix2 128) by apply bpow_gt_0. lra.
Qed.

Lemma fdiv_mono : forall e1 e2 s, num e1 -> num e2 -> num s -> 0 <= rk e1 -> rk e1 <= rk e2 -> rk e2 <= 1 -> 0 < rk s ->
  rk (fdiv e1 s) <= rk (fdiv e2 s).
Proof.
  intros e1 e2 s H1 H2 Hs P1 L12 P2 Ps.
  assert (G0 := BIG_pos). assert (G1 := BIG_gt).
  destruct (fdiv_prob e1 s H1 Hs ltac:(lra) Ps) as (N1 & Q1 & _).
  destruct (fdiv_prob e2 s H2 Hs ltac:(lra) Ps) as (N2 & Q2 & _).
  destruct (is_inf s) eqn:Is.
  { assert (s = pinf).
    { destruct s as [ss|[|]| |ss ms es]; try easy. cbn [rk] in Ps. lra. }
    subst s.
    assert (Z : forall e, num e -> 0 <= rk e <= 1 -> rk (fdiv e pinf) = 0).
    { intros e He Pe. destruct e as [se|[|]| |se me ee]; try (now destruct He); try (cbn [rk] in Pe; lra); reflexivity. }
    rewrite (Z e1 H1), (Z e2 H2); lra. }
  assert (X : rnd (rk e1 / rk s) <= rnd (rk e2 / rk s)).
  { apply rnd_le. unfold Rdiv. apply Rmult_le_compat_r; [|easy]. apply Rlt_le, Rinv_0_lt_compat. lra. }
  assert (R2 := rk_range _ N2).
  destruct (fdiv_real e1 s H1 Hs ltac:(lra) Is Ps) as [[E1 B1]|[E1 B1]];
  destruct (fdiv_real e2 s H2 Hs ltac:(lra) Is Ps) as [[E2 B2]|[E2 B2]].
  - rewrite E1, E2. exact X.
  - rewrite E1, E2, rk_pinf. apply Rabs_def2 in B1. lra.
  - exfalso. apply Rabs_def2 in B2. lra.
  - rewrite E1, E2. lra.
Qed.
